(* Proofs/C10.v — lemmas and main proofs for C10 (genome-wide operations respect chromosome boundaries).
   Part 1: offsets and the coordinate bijection.  Part 2: pileup / mask decomposition.
   Part 3 (Proofs/C10_b.v): merge, sorting, extraction. *)
From Coq Require Import ZArith List Bool Lia Arith Permutation.
From BNP Require Import Base.Prims Base.PrimsFacts Model.C10.
Import ListNotations.
Open Scope Z_scope.

Definition nonneg (l : list Z) : Prop := Forall (fun x => 0 <= x) l.

(* ------------------------------------------------------------------ offsets as prefix sums *)
Definition offn (szs : list Z) (n : nat) : Z := sumZ (firstn n szs).
Lemma sumZ_cons : forall x l, sumZ (x :: l) = x + sumZ l.
Proof. reflexivity. Qed.

Lemma nth_cumsum_cons : forall l a n, (n <= length l)%nat ->
  nth n (a :: cumsum_from a l) 0 = a + sumZ (firstn n l).
Proof.
  induction l as [|x l IH]; intros a n Hn.
  - simpl in Hn. assert (n = O) by lia. subst. simpl. lia.
  - destruct n as [|n]; [simpl; lia|].
    simpl in Hn. change (nth (S n) (a :: cumsum_from a (x :: l)) 0) with (nth n ((a + x) :: cumsum_from (a + x) l) 0).
    rewrite IH by lia. simpl. lia.
Qed.

Lemma off_offn : forall szs n, (n <= length szs)%nat -> off szs (Z.of_nat n) = offn szs n.
Proof.
  intros szs n Hn. unfold off, offsets, insert0, cumsum, nthZ. rewrite Nat2Z.id.
  rewrite nth_cumsum_cons by assumption. unfold offn. lia.
Qed.

Lemma sumZ_nonneg : forall l, nonneg l -> 0 <= sumZ l.
Proof. induction 1; simpl; lia. Qed.
Lemma nonneg_firstn : forall l n, nonneg l -> nonneg (firstn n l).
Proof.
  intros l n H. revert n. unfold nonneg in *. induction H as [|x l Hx H IH]; intros [|n]; simpl; try constructor; auto.
Qed.
Lemma nonneg_skipn : forall l n, nonneg l -> nonneg (skipn n l).
Proof.
  intros l n H. revert n. unfold nonneg in *. induction H as [|x l Hx H IH]; intros [|n]; simpl; try constructor; auto.
Qed.
Lemma nonneg_nth : forall l n, nonneg l -> 0 <= nth n l 0.
Proof. intros l n H. revert n. unfold nonneg in *. induction H as [|x l Hx H IH]; intros [|n]; simpl; try lia; auto. Qed.

Lemma offn_S : forall szs n, (n < length szs)%nat -> offn szs (S n) = offn szs n + nth n szs 0.
Proof.
  unfold offn. induction szs as [|x l IH]; intros n Hn; [simpl in Hn; lia|].
  destruct n as [|n]; [simpl; lia|]. simpl in Hn.
  change (firstn (S (S n)) (x :: l)) with (x :: firstn (S n) l).
  change (firstn (S n) (x :: l)) with (x :: firstn n l).
  change (nth (S n) (x :: l) 0) with (nth n l 0). rewrite !sumZ_cons. rewrite IH by lia. lia.
Qed.
Lemma offn_mono : forall szs n m, nonneg szs -> (n <= m)%nat -> offn szs n <= offn szs m.
Proof.
  intros szs n m Hs Hnm. induction Hnm as [|m Hnm IH]; [lia|].
  destruct (Nat.lt_ge_cases m (length szs)) as [Hlt|Hge].
  - rewrite offn_S by assumption. pose proof (nonneg_nth szs m Hs). lia.
  - unfold offn in *. rewrite (@firstn_all2 _ (S m) szs) by lia. rewrite (@firstn_all2 _ m szs) in IH by lia. lia.
Qed.
Lemma offn_all : forall szs n, (length szs <= n)%nat -> offn szs n = total szs.
Proof. intros. unfold offn, total. rewrite firstn_all2 by assumption. reflexivity. Qed.
Lemma offn_next_le : forall szs n m, nonneg szs -> (n < m)%nat -> (n < length szs)%nat ->
  offn szs n + nth n szs 0 <= offn szs m.
Proof. intros. rewrite <- offn_S by assumption. apply offn_mono; [assumption|lia]. Qed.
Lemma offn_le_total : forall szs n, nonneg szs -> offn szs n <= total szs.
Proof.
  intros szs n H. destruct (Nat.le_ge_cases n (length szs)).
  - rewrite <- (offn_all szs (length szs)) by lia. apply offn_mono; assumption.
  - rewrite offn_all by assumption. lia.
Qed.

(* Z-indexed view *)
Lemma size_of_nat : forall szs n, size_of szs (Z.of_nat n) = nth n szs 0.
Proof. intros. unfold size_of, nthZ. rewrite Nat2Z.id. reflexivity. Qed.

(* ------------------------------------------------------------------ searchsorted on the offsets *)
Lemma cumsum_from_above : forall l b g, nonneg l -> g < b ->
  filter (fun x => x <=? g) (cumsum_from b l) = [].
Proof.
  induction l as [|x l IH]; intros b g Hl Hg; [reflexivity|].
  inversion Hl; subst. simpl.
  destruct (Z.leb_spec (b + x) g); [lia|]. apply IH; [assumption|lia].
Qed.

Lemma count_offsets : forall l a n p, nonneg l -> (n < length l)%nat -> 0 <= p < nth n l 0 ->
  len (filter (fun x => x <=? a + sumZ (firstn n l) + p) (a :: cumsum_from a l)) = Z.of_nat n + 1.
Proof.
  induction l as [|x l IH]; intros a n p Hl Hn Hp; [simpl in Hn; lia|].
  inversion Hl as [|? ? Hx Hl']; subst.
  destruct n as [|n].
  - simpl firstn. simpl sumZ. simpl nth in Hp.
    cbn [filter]. destruct (Z.leb_spec a (a + 0 + p)); [|lia].
    cbn [cumsum_from filter]. destruct (Z.leb_spec (a + x) (a + 0 + p)); [lia|].
    rewrite cumsum_from_above by (try assumption; lia). reflexivity.
  - simpl in Hn. change (nth (S n) (x :: l) 0) with (nth n l 0) in Hp.
    change (firstn (S n) (x :: l)) with (x :: firstn n l). simpl sumZ.
    pose proof (sumZ_nonneg _ (nonneg_firstn l n Hl')).
    cbn [filter]. destruct (Z.leb_spec a (a + (x + sumZ (firstn n l)) + p)); [|lia].
    cbn [cumsum_from]. rewrite len_cons.
    replace (a + (x + sumZ (firstn n l)) + p) with ((a + x) + sumZ (firstn n l) + p) by lia.
    rewrite (IH (a + x) n p) by (try assumption; lia). lia.
Qed.

Lemma to_local_offn : forall szs n p, nonneg szs -> (n < length szs)%nat -> 0 <= p < nth n szs 0 ->
  to_local szs (offn szs n + p) = (Z.of_nat n, p).
Proof.
  intros szs n p Hs Hn Hp. unfold to_local.
  assert (E : searchsorted_right (offsets szs) (offn szs n + p) = Z.of_nat n + 1).
  { unfold searchsorted_right, offsets, insert0, cumsum.
    pose proof (count_offsets szs 0 n p Hs Hn Hp) as H.
    replace (offn szs n + p) with (0 + sumZ (firstn n szs) + p) by (unfold offn; lia). exact H. }
  rewrite E. replace (Z.of_nat n + 1 - 1) with (Z.of_nat n) by lia.
  rewrite off_offn by lia. f_equal. lia.
Qed.

(* every global position lies in exactly one chromosome *)
Lemma decompose : forall l g, nonneg l -> 0 <= g < sumZ l ->
  exists n p, (n < length l)%nat /\ 0 <= p < nth n l 0 /\ g = sumZ (firstn n l) + p.
Proof.
  induction l as [|x l IH]; intros g Hl Hg; [simpl in Hg; lia|].
  inversion Hl; subst. simpl in Hg.
  destruct (Z_lt_ge_dec g x) as [Hlt|Hge].
  - exists O, g. simpl. repeat split; lia.
  - destruct (IH (g - x)) as [n [p [Hn [Hp Hgp]]]]; [assumption|lia|].
    exists (S n), p. simpl. repeat split; try lia.
Qed.

Lemma offn_plus_lt_total : forall szs n p, nonneg szs -> (n < length szs)%nat -> p < nth n szs 0 ->
  offn szs n + p < total szs.
Proof.
  intros szs n p Hs Hn Hp.
  pose proof (offn_next_le szs n (length szs) Hs Hn Hn) as H. rewrite (offn_all szs (length szs)) in H by lia. lia.
Qed.

Definition nat_index (szs : list Z) (c : Z) : 0 <= c < len szs -> exists n, c = Z.of_nat n /\ (n < length szs)%nat.
Proof. intros H. exists (Z.to_nat c). unfold len in H. split; lia. Qed.

Theorem offset_bijection : forall szs, nonneg szs ->
  (forall c p, 0 <= c < len szs -> 0 <= p < size_of szs c ->
     exists g, from_local szs c p = Some g /\ 0 <= g < total szs /\ to_local szs g = (c, p))
  /\ (forall g, 0 <= g < total szs ->
        let '(c, p) := to_local szs g in
        0 <= c < len szs /\ 0 <= p < size_of szs c /\ from_local szs c p = Some g)
  /\ (forall c p, size_of szs c <= p -> from_local szs c p = None).
Proof.
  intros szs Hs. split; [|split].
  - intros c p Hc Hp. destruct (nat_index szs c Hc) as [n [-> Hn]].
    rewrite size_of_nat in Hp.
    exists (offn szs n + p). split; [|split].
    + unfold from_local. rewrite size_of_nat. destruct (Z.leb_spec (nth n szs 0) p); [lia|].
      rewrite off_offn by lia. reflexivity.
    + pose proof (sumZ_nonneg _ (nonneg_firstn szs n Hs)). unfold offn at 1.
      split; [lia|]. apply offn_plus_lt_total; try assumption; lia.
    + apply to_local_offn; assumption.
  - intros g Hg. destruct (decompose szs g Hs Hg) as [n [p [Hn [Hp Hgp]]]].
    change (sumZ (firstn n szs)) with (offn szs n) in Hgp. subst g.
    rewrite to_local_offn by assumption.
    rewrite size_of_nat. unfold len. split; [lia|]. split; [assumption|].
    unfold from_local. rewrite size_of_nat. destruct (Z.leb_spec (nth n szs 0) p); [lia|].
    rewrite off_offn by lia. reflexivity.
  - intros c p H. unfold from_local. destruct (Z.leb_spec (size_of szs c) p); [reflexivity|lia].
Qed.

(* ------------------------------------------------------------------ arange / slice plumbing *)
Lemma skipn_arange_from : forall k s n, skipn k (arange_from s n) = arange_from (s + Z.of_nat k) (n - k).
Proof.
  induction k as [|k IH]; intros s n.
  - simpl. rewrite Nat.sub_0_r. f_equal. lia.
  - destruct n as [|n]; [reflexivity|]. simpl. rewrite IH. f_equal. lia.
Qed.
Lemma firstn_arange_from : forall k s n, (k <= n)%nat -> firstn k (arange_from s n) = arange_from s k.
Proof.
  induction k as [|k IH]; intros s n H; [reflexivity|].
  destruct n as [|n]; [lia|]. simpl. f_equal. apply IH. lia.
Qed.
Lemma map_arange_from_shift : forall {A} (f : Z -> A) n s,
  map f (arange_from s n) = map (fun x => f (s + x)) (arange_from 0 n).
Proof.
  intros A f n. revert f. induction n as [|n IH]; intros f s; [reflexivity|].
  simpl. f_equal; [f_equal; lia|]. rewrite (IH f (s + 1)). rewrite (IH (fun x => f (s + x)) 1).
  apply map_ext. intros x. f_equal. lia.
Qed.
Lemma slice_map_arange : forall {A} (f : Z -> A) a n t, 0 <= a -> 0 <= n -> a + n <= t ->
  slice a (a + n) (map f (arange t)) = map (fun x => f (a + x)) (arange n).
Proof.
  intros A f a n t Ha Hn Ht. unfold slice, arange.
  rewrite skipn_map, firstn_map. rewrite skipn_arange_from, firstn_arange_from by lia.
  replace (0 + Z.of_nat (Z.to_nat a)) with a by lia. replace (Z.to_nat (a + n - a)) with (Z.to_nat n) by lia.
  apply map_arange_from_shift.
Qed.
Lemma In_arange_iff : forall n x, In x (arange n) <-> 0 <= x < n.
Proof. exact In_arange. Qed.

(* ------------------------------------------------------------------ entries that lie on their chromosome *)
Definition entry_in (szs : list Z) (e : entry) : Prop :=
  0 <= e_chr e < len szs /\ 0 <= e_start e <= size_of szs (e_chr e) /\ 0 <= e_stop e <= size_of szs (e_chr e).
Definition entry_placed (szs : list Z) (e : entry) : Prop :=
  entry_in szs e /\ e_start e < size_of szs (e_chr e).

Lemma check_bounds_ok : forall neg szs es, Forall (entry_placed szs) es -> check_bounds_gen neg szs es = None.
Proof.
  intros neg szs es H. unfold check_bounds_gen.
  replace (existsb (fun e => size_of szs (e_chr e) <=? e_start e) es) with false.
  2:{ symmetry. apply not_true_is_false. intros Hx. apply existsb_exists in Hx. destruct Hx as [e [He Hle]].
      rewrite Forall_forall in H. destruct (H e He) as [_ Hlt]. apply Z.leb_le in Hle. lia. }
  replace (existsb (fun e => e_start e <? 0) es) with false.
  2:{ symmetry. apply not_true_is_false. intros Hx. apply existsb_exists in Hx. destruct Hx as [e [He Hle]].
      rewrite Forall_forall in H. destruct (H e He) as [[_ [Hs _]] _]. apply Z.ltb_lt in Hle. lia. }
  rewrite andb_false_r.
  replace (forallb (fun e => e_stop e <=? size_of szs (e_chr e)) es) with true; [reflexivity|].
  symmetry. apply forallb_forall. intros e He. rewrite Forall_forall in H. destruct (H e He) as [[_ [_ Ht]] _].
  apply Z.leb_le. lia.
Qed.

(* the two offset facts every boundary argument rests on *)
Lemma off_before : forall szs c c', nonneg szs -> 0 <= c' < c -> c <= len szs ->
  off szs c' + size_of szs c' <= off szs c.
Proof.
  intros szs c c' Hs Hc Hl. unfold len in Hl.
  replace c with (Z.of_nat (Z.to_nat c)) by lia. replace c' with (Z.of_nat (Z.to_nat c')) by lia.
  rewrite !off_offn by lia. rewrite size_of_nat. apply offn_next_le; try assumption; lia.
Qed.
Lemma off_nonneg : forall szs c, nonneg szs -> 0 <= c <= len szs -> 0 <= off szs c.
Proof.
  intros szs c Hs Hc. unfold len in Hc. replace c with (Z.of_nat (Z.to_nat c)) by lia.
  rewrite off_offn by lia. apply sumZ_nonneg. apply nonneg_firstn. assumption.
Qed.
Lemma off_size_le_total : forall szs c, nonneg szs -> 0 <= c < len szs -> off szs c + size_of szs c <= total szs.
Proof.
  intros szs c Hs Hc. unfold len in Hc. replace c with (Z.of_nat (Z.to_nat c)) by lia.
  rewrite off_offn by lia. rewrite size_of_nat. rewrite <- offn_S by lia. apply offn_le_total. assumption.
Qed.
Lemma size_of_nonneg : forall szs c, nonneg szs -> 0 <= size_of szs c.
Proof. intros. unfold size_of, nthZ. apply nonneg_nth. assumption. Qed.

(* ------------------------------------------------------------------ pileup and mask *)
Lemma cov_cons : forall s t r x,
  cov ((s, t) :: r) x = (if s <=? x then 1 else 0) - (if t <=? x then 1 else 0) + cov r x.
Proof. reflexivity. Qed.

Lemma on_chr_cons : forall e es c, on_chr (e :: es) c = if e_chr e =? c then e :: on_chr es c else on_chr es c.
Proof. reflexivity. Qed.
Lemma ivs_of_cons : forall e es, ivs_of (e :: es) = (e_start e, e_stop e) :: ivs_of es.
Proof. reflexivity. Qed.
Lemma globalise_cons : forall szs e es,
  ivs_of (globalise szs (e :: es)) = (e_start e + off szs (e_chr e), e_stop e + off szs (e_chr e)) :: ivs_of (globalise szs es).
Proof. reflexivity. Qed.
Lemma covered_cons : forall s t r x, covered ((s, t) :: r) x = ((s <=? x) && (x <? t)) || covered r x.
Proof. reflexivity. Qed.

Lemma cov_global_local : forall szs es c x, nonneg szs -> Forall (entry_in szs) es ->
  0 <= c < len szs -> 0 <= x < size_of szs c ->
  cov (ivs_of (globalise szs es)) (off szs c + x) = cov (ivs_of (on_chr es c)) x.
Proof.
  intros szs es c x Hs Hes Hc Hx. induction Hes as [|e es He Hes IH]; [reflexivity|].
  destruct He as [Hce [Hse Hte]].
  rewrite globalise_cons, on_chr_cons, cov_cons, IH.
  destruct (Z.eqb_spec (e_chr e) c) as [Heq|Hne].
  - rewrite ivs_of_cons, cov_cons. subst c.
    destruct (Z.leb_spec (e_start e + off szs (e_chr e)) (off szs (e_chr e) + x));
    destruct (Z.leb_spec (e_start e) x); try lia;
    destruct (Z.leb_spec (e_stop e + off szs (e_chr e)) (off szs (e_chr e) + x));
    destruct (Z.leb_spec (e_stop e) x); lia.
  - destruct (Z_lt_ge_dec (e_chr e) c) as [Hlt|Hgt].
    + pose proof (off_before szs c (e_chr e) Hs ltac:(lia) ltac:(lia)).
      destruct (Z.leb_spec (e_start e + off szs (e_chr e)) (off szs c + x)); [|lia].
      destruct (Z.leb_spec (e_stop e + off szs (e_chr e)) (off szs c + x)); lia.
    + pose proof (off_before szs (e_chr e) c Hs ltac:(lia) ltac:(lia)).
      destruct (Z.leb_spec (e_start e + off szs (e_chr e)) (off szs c + x)); [lia|].
      destruct (Z.leb_spec (e_stop e + off szs (e_chr e)) (off szs c + x)); lia.
Qed.

Lemma covered_global_local : forall szs es c x, nonneg szs -> Forall (entry_in szs) es ->
  0 <= c < len szs -> 0 <= x < size_of szs c ->
  covered (ivs_of (globalise szs es)) (off szs c + x) = covered (ivs_of (on_chr es c)) x.
Proof.
  intros szs es c x Hs Hes Hc Hx. induction Hes as [|e es He Hes IH]; [reflexivity|].
  destruct He as [Hce [Hse Hte]].
  rewrite globalise_cons, on_chr_cons, covered_cons, IH.
  destruct (Z.eqb_spec (e_chr e) c) as [Heq|Hne].
  - rewrite ivs_of_cons, covered_cons. subst c. f_equal.
    destruct (Z.leb_spec (e_start e + off szs (e_chr e)) (off szs (e_chr e) + x));
    destruct (Z.leb_spec (e_start e) x); try lia;
    destruct (Z.ltb_spec (off szs (e_chr e) + x) (e_stop e + off szs (e_chr e)));
    destruct (Z.ltb_spec x (e_stop e)); try lia; reflexivity.
  - destruct (Z_lt_ge_dec (e_chr e) c) as [Hlt|Hgt].
    + pose proof (off_before szs c (e_chr e) Hs ltac:(lia) ltac:(lia)).
      destruct (Z.ltb_spec (off szs c + x) (e_stop e + off szs (e_chr e))); [lia|].
      rewrite andb_false_r. reflexivity.
    + pose proof (off_before szs (e_chr e) c Hs ltac:(lia) ltac:(lia)).
      destruct (Z.leb_spec (e_start e + off szs (e_chr e)) (off szs c + x)); [lia|]. reflexivity.
Qed.

Lemma split_chroms_pointwise : forall szs (f : Z -> Z) (h : Z -> Z -> Z), nonneg szs ->
  (forall c x, 0 <= c < len szs -> 0 <= x < size_of szs c -> f (off szs c + x) = h c x) ->
  split_chroms szs (map f (arange (total szs))) = map (fun c => map (h c) (arange (size_of szs c))) (arange (len szs)).
Proof.
  intros szs f h Hs H. unfold split_chroms. apply map_ext_in. intros c Hc. apply In_arange in Hc.
  rewrite slice_map_arange.
  - apply map_ext_in. intros x Hx. apply In_arange in Hx. apply H; assumption.
  - apply off_nonneg; [assumption|lia].
  - apply size_of_nonneg; assumption.
  - apply off_size_le_total; assumption.
Qed.

Lemma placed_in : forall szs es, Forall (entry_placed szs) es -> Forall (entry_in szs) es.
Proof. intros szs es H. eapply Forall_impl; [|exact H]. intros e [He _]. exact He. Qed.

Theorem pileup_local : forall szs es, nonneg szs -> Forall (entry_placed szs) es ->
  model_pileup szs es = RArrays (spec_pileup szs es).
Proof.
  intros szs es Hs Hes. unfold model_pileup, check_bounds. rewrite check_bounds_ok by assumption.
  f_equal. unfold pileup1 at 1, spec_pileup.
  rewrite (split_chroms_pointwise szs _ (fun c x => cov (ivs_of (on_chr es c)) x) Hs).
  - reflexivity.
  - intros c x Hc Hx. apply cov_global_local; try assumption. apply placed_in; assumption.
Qed.

Theorem mask_local : forall szs es, nonneg szs -> Forall (entry_placed szs) es ->
  model_mask szs es = RArrays (spec_mask szs es).
Proof.
  intros szs es Hs Hes. unfold model_mask, check_bounds. rewrite check_bounds_ok by assumption.
  f_equal. unfold mask1 at 1, spec_mask.
  rewrite (split_chroms_pointwise szs _ (fun c x => if covered (ivs_of (on_chr es c)) x then 1 else 0) Hs).
  - reflexivity.
  - intros c x Hc Hx. rewrite covered_global_local; try assumption; [reflexivity|]. apply placed_in; assumption.
Qed.

(* without the negative-start check the statement fails: the interval (chr 1, -1, 1) is counted on chromosome 0 *)
Theorem pileup_negative_start_refuted :
  exists szs es, nonneg szs /\ check_bounds_gen false szs es = None
    /\ split_chroms szs (pileup1 (total szs) (ivs_of (globalise szs es))) <> spec_pileup szs es.
Proof.
  exists [3; 2], [mk 1 (-1) 1]. split; [repeat constructor; lia|]. split; [reflexivity|].
  vm_compute. discriminate.
Qed.
Theorem negative_start_refused_when_checked : forall szs es,
  (exists e, In e es /\ e_start e < 0) -> check_bounds_gen true szs es <> None.
Proof.
  intros szs es [e [He Hs]]. unfold check_bounds_gen.
  destruct (existsb (fun e0 => size_of szs (e_chr e0) <=? e_start e0) es); [discriminate|].
  replace (existsb (fun e0 => e_start e0 <? 0) es) with true; [discriminate|].
  symmetry. apply existsb_exists. exists e. split; [assumption|]. apply Z.ltb_lt. assumption.
Qed.

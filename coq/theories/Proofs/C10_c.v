(* Proofs/C10_c.v — C10 part 4: what the pinned merged(distance > 0) (the streamed per-chromosome route)
   does get right: when no name contains '_' and every chromosome carries at least one interval, the
   result is the per-chromosome merge. *)
From Coq Require Import ZArith List Bool Lia Arith Sorted.
From BNP Require Import Base.Prims Base.PrimsFacts Model.C10 Proofs.C10 Proofs.C10_b.
Import ListNotations.
Open Scope Z_scope.

Lemma runs_head : forall es c g t, runs es = (c, g) :: t -> exists e r, es = e :: r /\ c = e_chr e.
Proof.
  intros [|e r] c g t H; [discriminate|]. exists e, r. split; [reflexivity|]. cbn [runs] in H.
  destruct (runs r) as [|[c' g'] t'].
  - inversion H. reflexivity.
  - destruct (Z.eqb_spec c' (e_chr e)); inversion H; subst; reflexivity.
Qed.

Lemma runs_block : forall a A B, A <> [] -> Forall (fun e => e_chr e = a) A ->
  match B with [] => True | b :: _ => e_chr b <> a end ->
  runs (A ++ B) = (a, A) :: runs B.
Proof.
  intros a. induction A as [|x A IH]; intros B Hne HA HB; [congruence|].
  apply Forall_cons_iff in HA. destruct HA as [Hx HA].
  destruct A as [|y A'].
  - cbn [app runs]. destruct (runs B) as [|[c g] t] eqn:E.
    + rewrite Hx. reflexivity.
    + destruct (runs_head B c g t E) as [b [r [-> ->]]].
      destruct (Z.eqb_spec (e_chr b) (e_chr x)); [rewrite Hx in *; contradiction|]. rewrite Hx. reflexivity.
  - change ((x :: y :: A') ++ B) with (x :: ((y :: A') ++ B)). cbn [runs].
    rewrite (IH B) by (try assumption; discriminate).
    rewrite Hx. rewrite Z.eqb_refl. reflexivity.
Qed.

Lemma runs_blocks : forall k a es, StronglySorted cs_le es ->
  Forall (fun e => a <= e_chr e < a + Z.of_nat k) es ->
  (forall c, a <= c < a + Z.of_nat k -> on_chr es c <> []) ->
  runs es = map (fun c => (c, on_chr es c)) (arange_from a k).
Proof.
  induction k as [|k IH]; intros a es Hs Hr Hall.
  - destruct es as [|e es]; [reflexivity|]. inversion Hr; subst. lia.
  - cbn [arange_from map].
    assert (Hes : es = on_chr es a ++ off_chr es a)
      by (apply split_sorted; [assumption|eapply Forall_impl; [|exact Hr]; intros; cbv beta in *; lia]).
    rewrite Hes at 1. rewrite (runs_block a).
    + f_equal. rewrite (IH (a + 1) (off_chr es a)).
      * apply map_ext_in. intros c Hc. apply In_arange_from in Hc. rewrite on_chr_off_chr by lia. reflexivity.
      * apply StronglySorted_filter. assumption.
      * unfold off_chr. apply Forall_forall. intros e He. apply filter_In in He. destruct He as [He Hne].
        rewrite Forall_forall in Hr. specialize (Hr e He). apply negb_true_iff in Hne. apply Z.eqb_neq in Hne. lia.
      * intros c Hc. rewrite on_chr_off_chr by lia. apply Hall. lia.
    + apply Hall. lia.
    + apply on_chr_chr.
    + destruct (off_chr es a) as [|b r] eqn:E; [exact I|].
      assert (Hb : In b (off_chr es a)) by (rewrite E; left; reflexivity).
      unfold off_chr in Hb. apply filter_In in Hb. destruct Hb as [_ Hb]. apply negb_true_iff in Hb.
      apply Z.eqb_neq in Hb. exact Hb.
Qed.

Lemma existsb_above : forall seen c, (forall s, In s seen -> s < c) -> existsb (Z.eqb c) seen = false.
Proof.
  intros seen c H. apply not_true_is_false. intros Hx. apply existsb_exists in Hx.
  destruct Hx as [s [Hs Heq]]. apply Z.eqb_eq in Heq. subst. specialize (H s Hs). lia.
Qed.

Lemma walk_blocks : forall (blk : Z -> list entry) k a seen, (forall s, In s seen -> s < a) ->
  let G := map (fun c => (c, blk c)) (arange_from a k) in
  walk (arange_from a k) seen (hd_error G) (tl G) = Some (map blk (arange_from a k), []).
Proof.
  intros blk. induction k as [|k IH]; intros a seen Hseen; [reflexivity|].
  cbv zeta. cbn [arange_from map hd_error tl walk]. rewrite Z.eqb_refl.
  replace (match hd_error (map (fun c => (c, blk c)) (arange_from (a + 1) k)) with
           | Some (c', _) => existsb (Z.eqb c') seen | None => false end) with false.
  2:{ destruct k as [|k']; [reflexivity|]. cbn [arange_from map hd_error]. symmetry. apply existsb_above.
      intros s Hs. specialize (Hseen s Hs). lia. }
  specialize (IH (a + 1) (a :: seen)). cbv zeta in IH. rewrite IH; [reflexivity|].
  intros s [<-|Hs]; [lia|]. specialize (Hseen s Hs). lia.
Qed.

Lemma flatnonzero_all : forall us i, Forall (fun b => b = false) us ->
  flatnonzero_from i (map negb us) = arange_from i (length us).
Proof.
  induction us as [|b us IH]; intros i H; [reflexivity|].
  apply Forall_cons_iff in H. destruct H as [-> H]. cbn [map negb flatnonzero_from length arange_from app].
  f_equal. apply IH. assumption.
Qed.

Lemma starts_sorted_block : forall l c, StronglySorted cs_le l -> Forall (fun e => e_chr e = c) l -> starts_sorted l = true.
Proof.
  intros l c Hs. induction Hs as [|x l Hs IH Hall]; intros Hc; [reflexivity|].
  apply Forall_cons_iff in Hc. destruct Hc as [Hx Hc]. destruct l as [|y l]; [reflexivity|].
  rewrite starts_sorted_cons2. rewrite (IH Hc). rewrite andb_true_r.
  apply Forall_cons_iff in Hall. destruct Hall as [Hxy _]. apply Forall_cons_iff in Hc. destruct Hc as [Hy _].
  apply Z.leb_le. destruct Hxy as [Hlt|[_ Hle]]; lia.
Qed.

Lemma merge_from_nonempty : forall d r cur m, merge_from d cur m r <> [].
Proof. intros d. induction r as [|e r IH]; intros cur m; cbn [merge_from]; [discriminate|]. destruct (e_start e >? m + d); [discriminate|apply IH]. Qed.
Lemma merge1_nonempty : forall d l, l <> [] -> merge1 d l <> [].
Proof. intros d [|e r] H; [congruence|]. apply merge_from_nonempty. Qed.

Lemma last_ge : forall l d, StronglySorted cs_le l -> forall x, In x l -> e_chr x <= e_chr (last l d).
Proof.
  intros l d Hs. induction Hs as [|y l Hs IH Hall]; intros x Hx; [destruct Hx|].
  destruct l as [|z l'].
  - destruct Hx as [<-|[]]. cbn. lia.
  - change (last (y :: z :: l') d) with (last (z :: l') d). destruct Hx as [<-|Hx].
    + assert (Hin : In (last (z :: l') d) (z :: l')).
      { clear. revert z. induction l' as [|w l' IHl]; intros z; [left; reflexivity|].
        change (last (z :: w :: l') d) with (last (w :: l') d). right. apply IHl. }
      rewrite Forall_forall in Hall. specialize (Hall _ Hin). destruct Hall as [H|[H _]]; lia.
    + apply IH. exact Hx.
Qed.

Theorem merged_pinned_partial : forall szs us d es, 0 < d ->
  length us = length szs -> Forall (fun b => b = false) us -> (1 <= length szs)%nat ->
  StronglySorted cs_le es -> Forall (fun e => 0 <= e_chr e < len szs) es ->
  (forall c, 0 <= c < len szs -> on_chr es c <> []) ->
  model_merged_pinned szs us d es = RIvs (map triple (spec_merged szs d es)).
Proof.
  intros szs us d es Hd Hlen Hus Hn Hs Hr Hall. unfold model_merged_pinned.
  destruct (Z.gtb_spec d 0); [|lia]. unfold stream_merged.
  assert (Hruns : runs es = map (fun c => (c, on_chr es c)) (arange_from 0 (length szs))).
  { apply runs_blocks.
    - assumption.
    - eapply Forall_impl; [|exact Hr]. intros e He. unfold len in He. cbv beta. lia.
    - intros c Hc. apply Hall. unfold len. lia. }
  destruct es as [|e0 es0] eqn:Ees.
  { exfalso. apply (Hall 0); [unfold len; lia|reflexivity]. }
  rewrite <- Ees in *.
  assert (Hgroups : groupby_chr es = runs es).
  { unfold groupby_chr. rewrite Ees. rewrite <- Ees.
    destruct (Z.eqb_spec (e_chr (last es e0)) (e_chr e0)) as [Heq|Hne]; [|reflexivity].
    (* first and last chromosome equal: everything is on one chromosome *)
    assert (Hsame : Forall (fun e => e_chr e = e_chr e0) es).
    { apply Forall_forall. intros x Hx. pose proof (last_ge es e0 Hs x Hx) as Hle.
      assert (Hge : e_chr e0 <= e_chr x).
      { rewrite Ees in Hx, Hs. destruct Hx as [<-|Hx]; [lia|]. inversion Hs as [|? ? _ Hall0]; subst.
        rewrite Forall_forall in Hall0. specialize (Hall0 x Hx). destruct Hall0 as [Hq|[Hq _]]; lia. }
      lia. }
    pose proof (runs_block (e_chr e0) es [] ltac:(rewrite Ees; discriminate) Hsame I) as Hb.
    rewrite app_nil_r in Hb. rewrite Hb. reflexivity. }
  rewrite Hgroups, Hruns.
  unfold chromosome_order, flatnonzero. rewrite flatnonzero_all by assumption. rewrite Hlen.
  destruct (arange_from 0 (length szs)) as [|o0 orest] eqn:Eo.
  { destruct (length szs); [lia|discriminate]. }
  rewrite <- Eo.
  pose proof (walk_blocks (fun c => on_chr es c) (length szs) 0 [] ltac:(intros s [])) as Hw. cbv zeta in Hw.
  rewrite Hw.
  assert (Hsortedchunks : forallb starts_sorted (map (fun c => on_chr es c) (arange_from 0 (length szs))) = true).
  { apply forallb_forall. intros l Hl. apply in_map_iff in Hl. destruct Hl as [c [<- _]].
    apply (starts_sorted_block _ c); [apply StronglySorted_filter; assumption|apply on_chr_chr]. }
  rewrite Hsortedchunks. cbn [negb].
  set (outs := map (merge1 d) (map (fun c => on_chr es c) (arange_from 0 (length szs)))).
  assert (Hne : forall o, In o outs -> o <> []).
  { intros o Ho. unfold outs in Ho. rewrite map_map in Ho. apply in_map_iff in Ho. destruct Ho as [c [<- Hc]].
    apply merge1_nonempty. apply Hall. apply In_arange_from in Hc. unfold len. lia. }
  assert (Hex : existsb (fun o : list entry => match o with [] => true | _ => false end) outs = false).
  { apply not_true_is_false. intros Hx. apply existsb_exists in Hx. destruct Hx as [o [Ho Hemp]].
    specialize (Hne o Ho). destruct o; [congruence|discriminate]. }
  assert (Hfa : forallb (fun o : list entry => match o with [] => true | _ => false end) outs = false).
  { unfold outs. rewrite Eo. cbn [map forallb].
    assert (H0 : merge1 d (on_chr es o0) <> []).
    { apply Hne. unfold outs. rewrite Eo. left. reflexivity. }
    destruct (merge1 d (on_chr es o0)); [congruence|reflexivity]. }
  rewrite Hfa, Hex. f_equal. f_equal. unfold outs, spec_merged, arange, len. rewrite Nat2Z.id, map_map. reflexivity.
Qed.

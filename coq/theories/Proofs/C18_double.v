(* Proofs/C18_double.v — the double-precision evaluation of str_to_float (Model: str_to_float_double).
   (1) The double result of a row is a function of that row's own decomposition (sign, digits, exponents, number of
       fraction digits, exponent) and of the platform power function P only — row independence also for doubles.
   (2) The decomposition is exact: read in exact arithmetic it is the rational the Spec denotes.
   (3) When the digit string, read as an integer, is below 2^53 and P is exact on 0..22, the whole integer
       mantissa step (digit*power terms and the pairwise row sum, in NumPy's order) is exact. *)
From Coq Require Import ZArith List Bool Lia.
From BNP Require Import Base.Prims Base.PrimsFacts Model.C18 Proofs.C18_power Proofs.C18_int Proofs.C18_float.
Import ListNotations.
Open Scope Z_scope.

(* ---------- (1)+(2): the decomposition of grammar texts ---------- *)
Definition dec_pre_of (plus : bool) (x : ftext) : bool * list Z * list Z * Z :=
  (f_neg x, map dig (dec_prepare plus (mant_of x)), row_powers (len (mant_of x), dot_cols (mant_of x)), len (ff x)).
Definition pre_of (plus : bool) (x : ftext) : pre_row :=
  (f_neg x, map dig (dec_prepare plus (mant_of x)), row_powers (len (mant_of x), dot_cols (mant_of x)), len (ff x),
   match fe x with Some _ => Some (f_ev x) | None => None end).

Lemma decimal_pre_mants plus xs : Forall (ftext_wf plus) xs ->
  decimal_pre plus (map mant_of xs) = Some (map (dec_pre_of plus) xs).
Proof.
  intros H. unfold decimal_pre.
  rewrite encode_rows_ok.
  2:{ apply Forall_map. apply Forall_map. eapply Forall_impl; [|exact H]. intros x Hx.
      exact (prepared_digits plus x Hx). }
  rewrite power_rows_spec.
  2:{ apply Forall_map. apply Forall_map. eapply Forall_impl; [|exact H]. intros x Hx.
      exact (mant_row_ok plus x Hx). }
  f_equal. rewrite !map_map.
  rewrite <- (map_map mant_of (fun t => map dig (dec_prepare plus t))).
  rewrite <- (map_map mant_of (fun t => row_powers (len t, dot_cols t))).
  rewrite zip3_map, !map_map.
  apply map_ext_in. intros x Hx. rewrite Forall_forall in H. specialize (H x Hx).
  unfold dec_pre_of, m_frac_digits. rewrite (mant_head_neg plus x H), (mant_frac_digits plus x H). reflexivity.
Qed.
Lemma scientific_pre_ok plus xs : Forall (ftext_wf plus) xs -> Forall (fun x => is_sci x = true) xs ->
  scientific_pre plus (map text_of xs) = Some (map (pre_of plus) xs).
Proof.
  intros Hwf Hsci. unfold scientific_pre. rewrite map_map.
  assert (E1 : map (fun x => fst (split_first 101 (text_of x))) xs = map mant_of xs).
  { apply map_ext_in. intros x Hx. rewrite Forall_forall in Hwf. rewrite (split_e plus x (Hwf x Hx)). reflexivity. }
  assert (E2 : map (fun x => exp_part (split_first 101 (text_of x))) xs = map exp_text xs).
  { apply map_ext_in. intros x Hx. rewrite Forall_forall in Hwf. rewrite (split_e plus x (Hwf x Hx)). reflexivity. }
  rewrite !map_map. rewrite E1, E2.
  rewrite (decimal_pre_mants plus xs Hwf).
  rewrite (str_to_int_exact (map exp_text xs) (map f_ev xs)).
  - f_equal. clear E1 E2 Hwf. induction xs as [|x xs IH]; [reflexivity|].
    inversion Hsci as [|? ? Sx Sxs]; subst. cbn [map combine]. rewrite (IH Sxs). f_equal.
    unfold pre_of, dec_pre_of, is_sci in *. destruct (fe x); [reflexivity|discriminate].
  - clear E1 E2. induction xs as [|x xs IH]; [constructor|].
    inversion Hwf as [|? ? Hx Hxs]; inversion Hsci as [|? ? Sx Sxs]; subst. cbn [map]. constructor; [|apply IH; assumption].
    unfold exp_text, f_ev, is_sci in *. destruct Hx as [_ [_ [_ [_ [_ He]]]]].
    destruct (fe x) as [e|]; [|discriminate]. destruct He as [v [Hv Hr]]. rewrite Hv. split; [reflexivity|exact Hr].
Qed.
Theorem float_pre_ok plus xs : Forall (ftext_wf plus) xs ->
  float_pre plus (map text_of xs) = Some (map (pre_of plus) xs).
Proof.
  intros Hwf. unfold float_pre.
  assert (Emask : map has_e (map text_of xs) = map is_sci xs).
  { rewrite map_map. apply map_ext_in. intros x Hx. rewrite Forall_forall in Hwf.
    rewrite (has_e_text plus x (Hwf x Hx)). reflexivity. }
  rewrite Emask. rewrite (mask_select_map is_sci text_of xs).
  assert (Eneg : mask_select (map negb (map is_sci xs)) (map text_of xs)
                 = map text_of (filter (fun x => negb (is_sci x)) xs)).
  { rewrite map_map. apply (mask_select_map (fun x => negb (is_sci x)) text_of xs). }
  rewrite Eneg.
  set (A := filter is_sci xs). set (B := filter (fun x => negb (is_sci x)) xs).
  assert (HA : (match map text_of A with [] => Some [] | _ => scientific_pre plus (map text_of A) end)
               = Some (map (pre_of plus) A)).
  { destruct A as [|a A'] eqn:EA; [reflexivity|]. rewrite <- EA.
    assert (S : scientific_pre plus (map text_of A) = Some (map (pre_of plus) A)).
    { apply scientific_pre_ok; [apply Forall_filter; exact Hwf|apply filter_fe_some]. }
    rewrite <- S. rewrite EA. reflexivity. }
  assert (HB : (match map text_of B with [] => Some [] | _ => decimal_pre plus (map text_of B) end)
               = Some (map (dec_pre_of plus) B)).
  { assert (EB : map text_of B = map mant_of B).
    { apply map_ext_in. intros x Hx. apply filter_In in Hx. destruct Hx as [_ Hx].
      apply text_of_plain. unfold is_sci in Hx. destruct (fe x); [discriminate|reflexivity]. }
    rewrite EB.
    assert (D : decimal_pre plus (map mant_of B) = Some (map (dec_pre_of plus) B)).
    { apply decimal_pre_mants. apply Forall_filter. exact Hwf. }
    destruct B as [|b B']; [reflexivity|]. exact D. }
  rewrite HA, HB. f_equal. subst A B.
  transitivity (merge_mask (map is_sci xs) (map (pre_of plus) (filter is_sci xs))
                  (map (fun x => (f_neg x, map dig (dec_prepare plus (mant_of x)),
                                  row_powers (len (mant_of x), dot_cols (mant_of x)), len (ff x), @None Z))
                       (filter (fun x => negb (is_sci x)) xs))).
  { f_equal. rewrite map_map. reflexivity. }
  rewrite (merge_mask_map is_sci (pre_of plus)).
  apply map_ext_in. intros x Hx. unfold pre_of, is_sci. destruct (fe x); reflexivity.
Qed.
(* read in exact arithmetic, the decomposition is what the exact-rational model returns, hence (C18_float) the Spec's value *)
Lemma exact_of_pre_of plus x : ftext_wf plus x -> exact_of_pre (pre_of plus x) = model_row x.
Proof.
  intros H. unfold exact_of_pre, pre_of, model_row. rewrite (mant_base plus x H).
  unfold f_ev. destruct (fe x); reflexivity.
Qed.
(* (1) the double result, row by row *)
Theorem float_double_rowwise P plus xs : Forall (ftext_wf plus) xs ->
  str_to_float_double P plus (map text_of xs) = all_some (map (fun x => eval_row P (pre_of plus x)) xs).
Proof. intros H. unfold str_to_float_double. rewrite (float_pre_ok plus xs H). rewrite map_map. reflexivity. Qed.

(* ---------- (3) exactness of the integer mantissa step ---------- *)
Definition isint (a : dy) (n : Z) : Prop := a = (n, 0) /\ 0 <= n.
Lemma canon_int n : canon n 0 = (n, 0).
Proof. unfold canon. destruct (Z.eqb_spec n 0) as [E|E]; [subst; reflexivity|]. cbn. rewrite Z.mul_1_r. reflexivity. Qed.
Lemma rnd_int n : 0 <= n < 2 ^ 53 -> rnd (n, 0) = (n, 0).
Proof.
  intros [H0 H1]. unfold rnd. destruct (Z.eqb_spec n 0) as [E|E]; [subst; reflexivity|].
  assert (L : Z.log2 (Z.abs n) < 53).
  { rewrite Z.abs_eq by lia. apply Z.log2_lt_pow2; lia. }
  destruct (Z.leb_spec (Z.max (Z.log2 (Z.abs n) - 52 + 0) (-1074)) 0); [reflexivity|lia].
Qed.
Lemma dadd_int a b x y : isint a x -> isint b y -> x + y < 2 ^ 53 -> isint (dadd a b) (x + y).
Proof.
  intros [Ea Hx] [Eb Hy] H. subst a b. split; [|lia].
  unfold dadd, dy_add. cbn [fst snd]. rewrite Z.min_id, Z.sub_diag. cbn [Z.pow]. rewrite !Z.mul_1_r.
  rewrite canon_int. apply rnd_int. lia.
Qed.
Lemma dmul_int d q : 0 <= d -> 0 <= q -> d * q < 2 ^ 53 -> isint (dmul (d, 0) (q, 0)) (d * q).
Proof.
  intros Hd Hq H. split; [|nia]. unfold dmul, dy_mul. cbn [fst snd]. rewrite Z.add_0_r, canon_int. apply rnd_int. nia.
Qed.
Lemma sumZ_cons x l : sumZ (x :: l) = x + sumZ l. Proof. reflexivity. Qed.
Lemma isint_nonneg_sum : forall l ns, Forall2 isint l ns -> 0 <= sumZ ns.
Proof.
  induction 1 as [|a n l ns [_ Hn] _ IH]; [cbn; lia|]. rewrite sumZ_cons. lia.
Qed.
Lemma fold_dadd_int : forall l ns, Forall2 isint l ns -> forall acc a,
  isint acc a -> a + sumZ ns < 2 ^ 53 -> isint (fold_left dadd l acc) (a + sumZ ns).
Proof.
  induction 1 as [|x n l ns Hx Hl IH]; intros acc a Ha Hb.
  - cbn [fold_left]. replace (a + sumZ []) with a by (cbn; lia). exact Ha.
  - cbn [fold_left]. rewrite sumZ_cons in *. pose proof (isint_nonneg_sum l ns Hl) as Hs.
    replace (a + (n + sumZ ns)) with ((a + n) + sumZ ns) by lia.
    apply IH; [|lia]. apply dadd_int; try assumption. destruct Ha as [_ Ha]. destruct Hx as [_ Hn]. lia.
Qed.
Fixpoint zadd2 (r a : list Z) : list Z :=
  match r, a with x :: r', y :: a' => (x + y) :: zadd2 r' a' | _, _ => r end.
Lemma map2_dadd_int : forall r rs, Forall2 isint r rs -> forall a ns, Forall2 isint a ns ->
  (length a <= length r)%nat -> sumZ rs + sumZ ns < 2 ^ 53 ->
  Forall2 isint (map2_dadd r a) (zadd2 rs ns) /\ sumZ (zadd2 rs ns) = sumZ rs + sumZ ns
  /\ length (map2_dadd r a) = length r.
Proof.
  induction 1 as [|x n r rs Hx Hr IH]; intros a ns Ha Hlen Hb.
  - inversion Ha; subst; [|simpl in Hlen; lia]. split; [constructor|split; [cbn; lia|reflexivity]].
  - inversion Ha as [|y m a' ns' Hy Ha']; subst.
    + cbn [map2_dadd zadd2]. split; [constructor; assumption|split; [unfold sumZ; cbn; lia|reflexivity]].
    + cbn [map2_dadd zadd2]. rewrite !sumZ_cons in *.
      pose proof (isint_nonneg_sum _ _ Hr) as S1. pose proof (isint_nonneg_sum _ _ Ha') as S2.
      destruct Hx as [Ex Hn]. destruct Hy as [Ey Hm].
      destruct (IH a' ns' Ha') as [F [S L]]; [simpl in Hlen; lia|lia|].
      split; [|split].
      * constructor; [|exact F]. apply dadd_int; [split; assumption|split; assumption|lia].
      * rewrite S. lia.
      * cbn [length]. rewrite L. reflexivity.
Qed.
Lemma Forall2_firstn {A B} (R : A -> B -> Prop) n : forall l1 l2, Forall2 R l1 l2 -> Forall2 R (firstn n l1) (firstn n l2).
Proof. induction n as [|n IH]; intros l1 l2 H; [constructor|]. destruct H; [constructor|]. cbn [firstn]. constructor; auto. Qed.
Lemma Forall2_skipn {A B} (R : A -> B -> Prop) n : forall l1 l2, Forall2 R l1 l2 -> Forall2 R (skipn n l1) (skipn n l2).
Proof. induction n as [|n IH]; intros l1 l2 H; [exact H|]. destruct H; [constructor|]. cbn [skipn]. auto. Qed.
Lemma sumZ_firstn_skipn n l : sumZ l = sumZ (firstn n l) + sumZ (skipn n l).
Proof. rewrite <- (firstn_skipn n l) at 1. apply sumZ_app. Qed.
Lemma acc_blocks_int : forall fuel r rs rest ns, Forall2 isint r rs -> Forall2 isint rest ns ->
  length r = 8%nat -> sumZ rs + sumZ ns < 2 ^ 53 ->
  exists rs' ns', Forall2 isint (fst (acc_blocks fuel r rest)) rs' /\ Forall2 isint (snd (acc_blocks fuel r rest)) ns'
    /\ length (fst (acc_blocks fuel r rest)) = 8%nat /\ sumZ rs' + sumZ ns' = sumZ rs + sumZ ns.
Proof.
  induction fuel as [|fuel IH]; intros r rs rest ns Hr Hn L Hb.
  - exists rs, ns. cbn. repeat split; assumption.
  - cbn [acc_blocks]. destruct (8 <=? length rest)%nat eqn:E.
    + apply Nat.leb_le in E.
      pose proof (Forall2_firstn isint 8 _ _ Hn) as F1. pose proof (Forall2_skipn isint 8 _ _ Hn) as F2.
      pose proof (sumZ_firstn_skipn 8 ns) as S.
      pose proof (isint_nonneg_sum _ _ F2) as P2.
      destruct (map2_dadd_int r rs Hr (firstn 8 rest) (firstn 8 ns) F1) as [G [S2 L2]];
        [rewrite firstn_length; lia|lia|].
      destruct (IH (map2_dadd r (firstn 8 rest)) (zadd2 rs (firstn 8 ns)) (skipn 8 rest) (skipn 8 ns) G F2)
        as [rs' [ns' [A [B [C D]]]]]; [lia|lia|].
      exists rs', ns'. repeat split; try assumption. lia.
    + exists rs, ns. cbn. repeat split; assumption.
Qed.
Lemma tree8_int r rs : Forall2 isint r rs -> length r = 8%nat -> sumZ rs < 2 ^ 53 -> isint (tree8 r) (sumZ rs).
Proof.
  intros H L Hb.
  do 8 (destruct H as [|? ? ? ? ?x H]; [simpl in L; lia|]). destruct H; [|simpl in L; lia].
  cbn [tree8]. unfold sumZ. cbn [fold_right].
  repeat match goal with H : isint _ _ |- _ => pose proof (proj2 H); revert H end. intros.
  replace (y + (y0 + (y1 + (y2 + (y3 + (y4 + (y5 + (y6 + 0))))))))
    with (((y + y0) + (y1 + y2)) + ((y3 + y4) + (y5 + y6))) by lia.
  unfold sumZ in Hb. cbn [fold_right] in Hb.
  repeat (apply dadd_int; [| |lia]); assumption.
Qed.
Lemma pairwise_sum_int l ns : Forall2 isint l ns -> (length l <= 128)%nat -> sumZ ns < 2 ^ 53 ->
  exists res, pairwise_sum l = Some res /\ isint res (sumZ ns).
Proof.
  intros H L Hb. unfold pairwise_sum. destruct (length l <? 8)%nat eqn:E8.
  - eexists. split; [reflexivity|]. replace (sumZ ns) with (0 + sumZ ns) by lia.
    apply fold_dadd_int; [exact H|split; [reflexivity|lia]|lia].
  - apply Nat.ltb_ge in E8. destruct (length l <=? 128)%nat eqn:E128; [|apply Nat.leb_gt in E128; lia].
    pose proof (Forall2_firstn isint 8 _ _ H) as F1. pose proof (Forall2_skipn isint 8 _ _ H) as F2.
    pose proof (sumZ_firstn_skipn 8 ns) as S.
    destruct (acc_blocks_int (length l) (firstn 8 l) (firstn 8 ns) (skipn 8 l) (skipn 8 ns) F1 F2)
      as [rs' [ns' [A [B [C D]]]]]; [rewrite firstn_length; lia|lia|].
    destruct (acc_blocks (length l) (firstn 8 l) (skipn 8 l)) as [r rest]. cbn [fst snd] in *.
    eexists. split; [reflexivity|].
    pose proof (isint_nonneg_sum _ _ A) as P1. pose proof (isint_nonneg_sum _ _ B) as P2.
    replace (sumZ ns) with (sumZ rs' + sumZ ns') by lia.
    apply fold_dadd_int; [exact B| |lia]. apply tree8_int; [exact A|exact C|lia].
Qed.
Lemma reduce_row_int ts ns : Forall2 isint ts ns -> (length ts <= 129)%nat -> sumZ ns < 2 ^ 53 ->
  exists res, reduce_row ts = Some res /\ isint res (sumZ ns).
Proof.
  intros H L Hb. destruct H as [|t n ts ns Ht H].
  - eexists. split; [reflexivity|]. split; [reflexivity|cbn; lia].
  - destruct H as [|t2 n2 ts ns Ht2 H].
    + eexists. split; [reflexivity|]. replace (sumZ [n]) with n by (cbn; lia). exact Ht.
    + assert (H' : Forall2 isint (t2 :: ts) (n2 :: ns)) by (constructor; assumption).
      rewrite sumZ_cons in Hb. pose proof (isint_nonneg_sum _ _ H') as P. destruct Ht as [Et Hn].
      destruct (pairwise_sum_int _ _ H') as [res [E R]]; [simpl in L |- *; lia|lia|].
      cbn [reduce_row]. rewrite E. cbn [option_map]. eexists. split; [reflexivity|].
      rewrite sumZ_cons. apply dadd_int; [split; assumption|exact R|lia].
Qed.

(* digit * power terms *)
Lemma dbl_terms_int (P : Z -> option dy) : forall ds ps,
  length ds = length ps ->
  Forall (fun d => 0 <= d) ds -> Forall (fun p => 0 <= p /\ P p = Some (10 ^ p, 0)) ps ->
  dotp ds (map (Z.pow 10) ps) < 2 ^ 53 ->
  exists ts ns, dbl_terms P ds ps = Some ts /\ Forall2 isint ts ns /\ sumZ ns = dotp ds (map (Z.pow 10) ps)
                /\ length ts = length ds.
Proof.
  unfold dbl_terms. induction ds as [|d ds IH]; intros ps L Hd Hp Hb.
  - exists [], []. destruct ps; repeat split; constructor.
  - destruct ps as [|p ps]; [discriminate|]. inversion Hd as [|? ? Hd0 Hds]; inversion Hp as [|? ? [Hp0 HP] Hps]; subst.
    cbn [map dotp] in Hb.
    assert (Hq : 0 < 10 ^ p) by (apply Z.pow_pos_nonneg; lia).
    assert (Hrest : 0 <= dotp ds (map (Z.pow 10) ps)).
    { clear - Hds Hps. revert ps Hps. induction Hds as [|x ds Hx _ IH]; intros ps Hps; [cbn; lia|].
      destruct ps as [|q ps]; [cbn; lia|]. inversion Hps as [|? ? [Hq _] Hps']; subst. cbn [map dotp].
      specialize (IH ps Hps'). assert (0 < 10 ^ q) by (apply Z.pow_pos_nonneg; lia). nia. }
    destruct (IH ps) as [ts [ns [E [F [S Ln]]]]]; [simpl in L; lia|assumption|assumption|nia|].
    cbn [combine map all_some]. rewrite HP. cbn [option_map].
    rewrite E. cbn [option_map].
    exists (dmul (d, 0) (10 ^ p, 0) :: ts), (d * 10 ^ p :: ns). repeat split.
    + constructor; [|exact F]. apply dmul_int; nia.
    + cbn [map dotp]. rewrite sumZ_cons, S. reflexivity.
    + cbn [length]. rewrite Ln. reflexivity.
Qed.
Theorem dbl_base_exact (P : Z -> option dy) ds ps :
  length ds = length ps -> (length ds <= 129)%nat ->
  Forall (fun d => 0 <= d) ds -> Forall (fun p => 0 <= p /\ P p = Some (10 ^ p, 0)) ps ->
  dotp ds (map (Z.pow 10) ps) < 2 ^ 53 ->
  dbl_base P ds ps = Some (dotp ds (map (Z.pow 10) ps), 0).
Proof.
  intros L L2 Hd Hp Hb. unfold dbl_base.
  destruct (dbl_terms_int P ds ps L Hd Hp Hb) as [ts [ns [E [F [S Ln]]]]]. rewrite E.
  destruct (reduce_row_int ts ns F) as [res [R [I _]]]; [lia|lia|]. rewrite R, I, S. reflexivity.
Qed.

(* ---------- (3) for grammar texts ---------- *)
Lemma In_map_add k l p : In p (map (Z.add k) l) -> exists q, In q l /\ p = k + q.
Proof. intros H. apply in_map_iff in H. destruct H as [q [E Hq]]. exists q. split; [exact Hq|lia]. Qed.
Lemma row_powers_range r p : row_ok r -> In p (row_powers r) -> 0 <= p < fst r.
Proof.
  intros [Hl Hd] Hin. destruct r as [l dots]. cbn [fst snd] in *. unfold row_powers in Hin. cbn [fst snd] in Hin.
  destruct Hd as [Hd|[c [Hd Hc]]]; subst dots.
  - apply In_down in Hin. lia.
  - apply in_app_or in Hin. destruct Hin as [Hin|[E|Hin]].
    + apply In_map_add in Hin. destruct Hin as [q [Hq E]]. apply In_down in Hq. lia.
    + lia.
    + apply In_down in Hin. lia.
Qed.
Lemma dig_nonneg t : all_digits t -> Forall (fun d => 0 <= d) (map dig t).
Proof.
  intros H. apply Forall_map. apply Forall_forall. intros c Hc.
  pose proof (all_digits_In t c H Hc) as D. unfold is_digit in D. apply andb_true_iff in D.
  destruct D as [D _]. apply Z.leb_le in D. unfold dig. lia.
Qed.
Lemma len_prepared plus x : ftext_wf plus x -> len (dec_prepare plus (mant_of x)) = len (mant_of x).
Proof.
  intros H. rewrite (dec_prepare_mant plus x H), (len_mant plus x H).
  rewrite !len_app, (len_lead plus x H). destruct (fd x); [rewrite len_cons|rewrite len_nil]; lia.
Qed.
Theorem float_mantissa_exact (P : Z -> option dy) plus x :
  ftext_wf plus x -> f_N x < 2 ^ 53 -> len (mant_of x) <= 23 ->
  (forall p, 0 <= p <= 22 -> P p = Some (10 ^ p, 0)) ->
  dbl_base P (map dig (dec_prepare plus (mant_of x))) (row_powers (len (mant_of x), dot_cols (mant_of x)))
  = Some (f_N x, 0).
Proof.
  intros H HN HL HP. rewrite <- (mant_base plus x H) in *.
  pose proof (mant_row_ok plus x H) as Hrow. pose proof (len_row_powers _ Hrow) as Lp. cbn [fst] in Lp.
  pose proof (len_prepared plus x H) as Ld.
  apply dbl_base_exact.
  - rewrite map_length. unfold len in *. lia.
  - rewrite map_length. unfold len in *. lia.
  - apply dig_nonneg. exact (prepared_digits plus x H).
  - apply Forall_forall. intros p Hp. pose proof (row_powers_range _ p Hrow Hp) as R. cbn [fst] in R.
    split; [lia|apply HP; lia].
  - exact HN.
Qed.
(* a plain decimal text whose digits form an integer below 2^53, at most 22 digits after the point: the model double is
   ONE correctly rounded division of the exact integers (so: the double nearest to the text's value) *)
Theorem float_short_decimal (P : Z -> option dy) plus x :
  ftext_wf plus x -> fe x = None -> f_N x < 2 ^ 53 -> len (mant_of x) <= 23 ->
  (forall p, 0 <= p <= 22 -> P p = Some (10 ^ p, 0)) ->
  eval_row P (pre_of plus x)
  = Some (f_neg x, ddiv (if f_neg x then (- f_N x, 0) else (f_N x, 0)) (10 ^ len (ff x), 0)).
Proof.
  intros H He HN HL HP. unfold eval_row, pre_of. rewrite He.
  rewrite (float_mantissa_exact P plus x H HN HL HP).
  assert (Hf : 0 <= len (ff x) <= 22).
  { pose proof (len_mant plus x H) as LM. pose proof (len_nonneg (fs x)). pose proof (len_nonneg (fi x)).
    pose proof (len_nonneg (ff x)). destruct (fd x) eqn:Ed; [lia|].
    destruct H as [_ [_ [_ [Hd _]]]]. rewrite (Hd Ed). cbn. lia. }
  rewrite (HP _ Hf). cbn [fst snd]. reflexivity.
Qed.

(* Proofs/C19_prog.v — typed well-formedness of stored tables, its preservation by every operation, and the
   refinement of the list-of-rows specification by the columnar model over whole programs. *)
From Coq Require Import ZArith List Bool Lia Arith Permutation.
From BNP Require Import Base.Prims Base.PrimsFacts Model.C19 Proofs.C19 Proofs.C19_rows.
Import ListNotations.
Open Scope Z_scope.

(* ====================================================================== typed well-formedness *)
Definition ascii (c : Z) : Prop := 0 < c < 128.
Definition padded_row (w : Z) (r : list Z) : Prop := exists s, Forall ascii s /\ len s <= w /\ r = pad w s.
Definition num_typed (d : dt) (v : list Z) : Prop := match d with DF => True | _ => Forall int_ok v end.
Definition bcol_typed (k : kind) (b : bcol) : Prop :=
  match k, b with
  | (KInt | KOpt | KFloat | KBool), ColNum d v => num_typed d v
  | KStr, ColRag RStr data lens => rag_wf data lens /\ Forall ascii data
  | KDna, ColRag RDna data lens => rag_wf data lens /\ Forall (fun c => 0 <= c < 4) data
  | KStrand, ColFlat v => Forall (fun c => 0 <= c < 3) v
  | KId, ColPad w m => Forall (padded_row w) m
  | KList, ColRag (RNum d) data lens => rag_wf data lens /\ num_typed d data
  | _, _ => False
  end.
Definition col_typed (f : fk) (c : col) : Prop :=
  match f, c with
  | FB k, CBase b => bcol_typed k b
  | FN ks, CNest cs => ks <> [] /\ Forall2 (fun kk b => bcol_typed (snd kk) b) ks cs
  | _, _ => False
  end.
Definition twf (sch : schema) (t : ctable) : Prop :=
  sch <> [] /\ Forall2 (fun f c => col_typed (snd f) c) sch t.
Definition Inv (sch : schema) (t : ctable) : Prop := twf sch t /\ aligned t = true.

(* ---------- typed => well formed (the guard of the concatenation theorem) ---------- *)
Lemma padded_row_len w r : padded_row w r -> len r = w.
Proof. intros [s [_ [Hl ->]]]. apply len_pad. exact Hl. Qed.
Lemma num_typed_ok d v : num_typed d v -> num_ok d v.
Proof. destruct d; simpl; auto. Qed.
Lemma bcol_typed_wf k b : bcol_typed k b -> bcol_wf b.
Proof.
  destruct k, b as [d v|[| |d] x l|w m|v]; simpl; try contradiction; try tauto; intros H;
    try (apply num_typed_ok; exact H); try (destruct H; split; [assumption|apply num_typed_ok; assumption]).
  eapply Forall_impl; [|exact H]. intros r. apply padded_row_len.
Qed.
Lemma col_typed_wf f c : col_typed f c -> col_wf c.
Proof.
  destruct f as [k|ks], c as [b|cs]; simpl; try contradiction.
  - apply bcol_typed_wf.
  - intros [_ H]. induction H as [|kk b ks cs Hb _ IH]; [constructor|constructor; [eapply bcol_typed_wf; exact Hb|exact IH]].
Qed.
Lemma twf_wf sch t : twf sch t -> Forall col_wf t.
Proof. intros [_ H]. induction H as [|f c sch t Hc _ IH]; [constructor|constructor; [eapply col_typed_wf; exact Hc|exact IH]]. Qed.

(* ---------- selection keeps the typing ---------- *)
Lemma Forall_sel {A} (P : A -> Prop) ix l : Forall P l -> Forall P (sel ix l).
Proof.
  intros H. induction ix as [|i ix IH]; [constructor|].
  rewrite sel_cons. apply Forall_app. split; [|exact IH].
  destruct (nth_error l i) eqn:E; [|constructor]. constructor; [|constructor].
  rewrite Forall_forall in H. apply H. eapply nth_error_In. exact E.
Qed.
Lemma Forall_firstn {A} (P : A -> Prop) n l : Forall P l -> Forall P (firstn n l).
Proof. intros H. revert n. induction H as [|x l Hx _ IH]; intros [|n]; simpl; constructor; auto. Qed.
Lemma Forall_skipn {A} (P : A -> Prop) n l : Forall P l -> Forall P (skipn n l).
Proof. intros H. revert n. induction H as [|x l Hx H IH]; intros [|n]; simpl; auto. Qed.
Lemma Forall_rag_rows (P : Z -> Prop) data lens : Forall P data -> Forall (Forall P) (rag_rows data lens).
Proof.
  revert data. induction lens as [|n r IH]; intros data H; simpl; constructor.
  - apply Forall_firstn. exact H.
  - apply IH. apply Forall_skipn. exact H.
Qed.
Lemma rag_wf_of_rows rs : rag_wf (concat rs) (map len rs).
Proof.
  split.
  - rewrite Forall_map. apply Forall_forall. intros r _. apply len_nonneg.
  - induction rs as [|r rs IH]; [reflexivity|]. simpl. rewrite len_app, <- IH. reflexivity.
Qed.
Lemma Forall_concat_sel (P : Z -> Prop) ix data lens :
  Forall P data -> Forall P (concat (sel ix (rag_rows data lens))).
Proof. intros H. apply Forall_concat. apply Forall_sel. apply Forall_rag_rows. exact H. Qed.
Lemma num_ok_sub d (v v' : list Z) : (forall P : Z -> Prop, Forall P v -> Forall P v') -> num_typed d v -> num_typed d v'.
Proof. intros H. destruct d; simpl; auto. Qed.

Lemma bcol_typed_select k ix b : bcol_typed k b -> bcol_typed k (bcol_select ix b).
Proof.
  destruct k, b as [d v|[| |d] x l|w m|v]; simpl; try contradiction; intros H;
    try (apply (num_ok_sub d v); [intros P HP; apply Forall_sel; exact HP|exact H]);
    try (destruct H as [_ H]; split; [apply rag_wf_of_rows|]);
    try (apply Forall_concat_sel; exact H);
    try (apply Forall_sel; exact H).
  apply (num_ok_sub d x); [intros P HP; apply Forall_concat_sel; exact HP|exact H].
Qed.
Lemma col_typed_select f ix c : col_typed f c -> col_typed f (col_select ix c).
Proof.
  destruct f as [k|ks], c as [b|cs]; simpl; try contradiction.
  - apply bcol_typed_select.
  - intros [Hne H]. split; [exact Hne|]. clear Hne.
    induction H as [|kk b ks' cs Hb _ IH]; simpl.
    + constructor.
    + constructor; [apply bcol_typed_select; exact Hb|exact IH].
Qed.
Lemma twf_select sch ix t : twf sch t -> twf sch (m_select ix t).
Proof.
  intros [Hne H]. split; [exact Hne|]. unfold m_select. clear Hne.
  induction H as [|f c sch' t Hc _ IH]; simpl.
  - constructor.
  - constructor; [apply col_typed_select; exact Hc|exact IH].
Qed.
Lemma Inv_select sch ix t : Inv sch t -> Inv sch (m_select ix t).
Proof. intros [H1 H2]. split; [apply twf_select; exact H1|apply aligned_select; exact H2]. Qed.

(* ====================================================================== concatenation: total on equally typed tables *)
Lemma repeat_app' {A} (x : A) n m : repeat x n ++ repeat x m = repeat x (n + m).
Proof. induction n as [|n IH]; simpl; [reflexivity|]. rewrite IH. reflexivity. Qed.
Lemma pad_pad w w' s : len s <= w -> w <= w' -> pad w' (pad w s) = pad w' s.
Proof.
  intros H1 H2. rewrite (pad_fits w s H1).
  rewrite pad_fits by (unfold len in *; rewrite app_length, repeat_length; lia).
  rewrite (pad_fits w' s) by lia. rewrite <- app_assoc, repeat_app'. do 2 f_equal.
  unfold len in *. rewrite app_length, repeat_length. lia.
Qed.
Lemma padded_row_widen w w' r : w <= w' -> padded_row w r -> padded_row w' (pad w' r).
Proof.
  intros Hw [s [Ha [Hl ->]]]. exists s. split; [exact Ha|]. split; [lia|]. apply pad_pad; assumption.
Qed.
Lemma rag_wf_app x1 l1 x2 l2 : rag_wf x1 l1 -> rag_wf x2 l2 -> rag_wf (x1 ++ x2) (l1 ++ l2).
Proof.
  intros [A1 B1] [A2 B2]. split; [apply Forall_app; split; assumption|].
  rewrite len_app, <- B1, <- B2. clear. induction l1 as [|n l1 IH]; simpl; [reflexivity|]. rewrite IH. lia.
Qed.
Lemma num_typed_join d1 d2 v1 v2 :
  num_typed d1 v1 -> num_typed d2 v2 ->
  map (cast d1 (dt_join d1 d2)) v1 = v1 /\ map (cast d2 (dt_join d1 d2)) v2 = v2 /\ num_typed (dt_join d1 d2) (v1 ++ v2).
Proof.
  intros H1 H2. split; [apply map_cast_exact, num_typed_ok; exact H1|].
  split; [apply map_cast_exact, num_typed_ok; exact H2|].
  destruct d1, d2; simpl in *; try exact I; apply Forall_app; split; assumption.
Qed.

Lemma bcol_cat_typed k a b :
  bcol_typed k a -> bcol_typed k b -> exists c, bcol_cat a b = Some c /\ bcol_typed k c.
Proof.
  destruct k, a as [d1 v1|[| |d1] x1 l1|w1 m1|v1], b as [d2 v2|[| |d2] x2 l2|w2 m2|v2]; simpl; try contradiction;
    intros Ha Hb; eexists; (split; [reflexivity|]); simpl.
  1-4: destruct (num_typed_join d1 d2 v1 v2 Ha Hb) as [E1 [E2 N]]; rewrite E1, E2; exact N.
  - destruct Ha as [W1 A1], Hb as [W2 A2]. split; [apply rag_wf_app; assumption|apply Forall_app; split; assumption].
  - apply Forall_app. split; rewrite Forall_map.
    + eapply Forall_impl; [|exact Ha]. intros r Hr. apply (padded_row_widen w1); [lia|exact Hr].
    + eapply Forall_impl; [|exact Hb]. intros r Hr. apply (padded_row_widen w2); [lia|exact Hr].
  - destruct Ha as [W1 A1], Hb as [W2 A2].
    destruct (num_typed_join d1 d2 x1 x2 A1 A2) as [E1 [E2 N]]. rewrite E1, E2.
    split; [apply rag_wf_app; assumption|exact N].
  - destruct Ha as [W1 A1], Hb as [W2 A2]. split; [apply rag_wf_app; assumption|apply Forall_app; split; assumption].
  - apply Forall_app. split; assumption.
Qed.

Lemma col_cat_typed f a b :
  col_typed f a -> col_typed f b -> exists c, col_cat a b = Some c /\ col_typed f c.
Proof.
  destruct f as [k|ks], a as [x|xs], b as [y|ys]; simpl; try contradiction.
  - intros Ha Hb. destruct (bcol_cat_typed k x y Ha Hb) as [c [E T]]. rewrite E. eexists; split; [reflexivity|exact T].
  - intros [Hne Ha] [_ Hb].
    assert (X : exists cs, map2o bcol_cat xs ys = Some cs /\ Forall2 (fun kk b => bcol_typed (snd kk) b) ks cs).
    { clear Hne. revert ys Hb. induction Ha as [|kk x ks' xs Hx _ IH]; intros ys Hb; inversion Hb as [|? y ? ys' Hy Hb']; subst.
      - exists []. split; [reflexivity|constructor].
      - destruct (bcol_cat_typed _ x y Hx Hy) as [c [E T]]. destruct (IH ys' Hb') as [cs [E' T']].
        exists (c :: cs). simpl. rewrite E, E'. split; [reflexivity|constructor; assumption]. }
    destruct X as [cs [E T]]. rewrite E. eexists; split; [reflexivity|]. split; assumption.
Qed.

Lemma col_cat_aligned n1 n2 a b c :
  col_cat a b = Some c -> col_aligned n1 a = true -> col_aligned n2 b = true -> col_aligned (n1 + n2) c = true.
Proof.
  destruct a as [x|xs], b as [y|ys]; simpl; try discriminate.
  - destruct (bcol_cat x y) as [z|] eqn:E; [|discriminate]. intros H A B. injection H as <-. simpl.
    apply Nat.eqb_eq in A. apply Nat.eqb_eq in B. apply Nat.eqb_eq. rewrite (bcol_cat_len _ _ _ E). lia.
  - destruct (map2o bcol_cat xs ys) as [cs|] eqn:E; [|discriminate]. intros H A B. injection H as <-. simpl.
    apply andb_prop in A. destruct A as [NA A]. apply andb_prop in B. destruct B as [_ B].
    apply aligned_b_Forall in A. apply aligned_b_Forall in B.
    apply andb_true_intro. split.
    + destruct xs as [|x xs]; [discriminate|]. destruct ys as [|y ys]; [discriminate|]. simpl in E.
      destruct (bcol_cat x y); [|discriminate]. destruct (map2o bcol_cat xs ys); [|discriminate]. injection E as <-. reflexivity.
    + apply aligned_b_Forall. clear NA. revert ys cs E B.
      induction A as [|x xs Hx _ IH]; intros [|y ys] cs E B; simpl in E; try discriminate.
      * injection E as <-. constructor.
      * destruct (bcol_cat x y) as [z|] eqn:Ez; [|discriminate].
        destruct (map2o bcol_cat xs ys) as [cs'|] eqn:E'; [|discriminate]. injection E as <-.
        inversion B as [|? ? Hy B']; subst. constructor; [rewrite (bcol_cat_len _ _ _ Ez); lia|].
        eapply IH; [exact E'|exact B'].
Qed.

Theorem cat_total sch a b :
  Inv sch a -> Inv sch b -> exists t, m_cat a b = Some t /\ Inv sch t.
Proof.
  intros [[Hne Ta] Aa] [[_ Tb] Ab].
  assert (X : exists t, map2o col_cat a b = Some t /\ Forall2 (fun f c => col_typed (snd f) c) sch t
                        /\ Forall (fun c => col_aligned (m_len a + m_len b) c = true) t).
  { apply aligned_Forall in Aa. apply aligned_Forall in Ab.
    generalize dependent (m_len a). generalize dependent (m_len b). intros nb Ab na Aa.
    clear Hne. revert b Tb Ab. induction Ta as [|f x sch' a' Hx _ IH]; intros b Tb Ab; inversion Tb as [|? y ? b' Hy Tb']; subst.
    - exists []. repeat split; constructor.
    - inversion Aa as [|? ? Ax Aa']; inversion Ab as [|? ? Ay Ab']; subst.
      destruct (col_cat_typed _ x y Hx Hy) as [c [E T]]. destruct (IH Aa' b' Tb' Ab') as [t [E' [T' A']]].
      exists (c :: t). simpl. rewrite E, E'. repeat split; constructor; try assumption.
      eapply col_cat_aligned; eassumption. }
  destruct X as [t [E [T A]]]. unfold m_cat, check_aligned. rewrite E.
  assert (At : aligned t = true).
  { apply aligned_Forall. destruct t as [|c t]; [constructor|].
    inversion A as [|? ? Ac _]; subst. simpl m_len. rewrite (col_len_aligned _ _ Ac). exact A. }
  rewrite At. eexists; split; [reflexivity|]. split; [split; assumption|exact At].
Qed.

(* ====================================================================== construction yields typed columns *)
Definition mb_fine (b : mb) : Prop :=
  match b with
  | MZ DF _ => True | MZ _ z => int_ok z
  | ML DF _ => True | ML _ l => Forall int_ok l
  | MS _ => True
  end.
Lemma mb_fine_small b : mb_fine b -> mb_small b.
Proof. destruct b as [[| |] z|s|[| |] l]; simpl; auto. Qed.
Definition mb_nice (k : kind) (b : mb) : Prop := mb_ok k b = true /\ mb_fine b.
Lemma mb_nice_good k b : mb_nice k b -> mb_good k b.
Proof. intros [H1 H2]. split; [exact H1|apply mb_fine_small; exact H2]. Qed.

Lemma fold_join_not_DF r d : fold_left dt_join r d <> DF -> d <> DF /\ Forall (fun x => x <> DF) r.
Proof.
  revert d. induction r as [|x r IH]; intros d H; simpl in H; [split; [exact H|constructor]|].
  destruct (IH _ H) as [H1 H2]. split; [destruct d, x; simpl in H1; congruence|].
  constructor; [destruct d, x; simpl in H1; congruence|exact H2].
Qed.
Lemma infer_dt_not_DF ds : infer_dt ds <> DF -> Forall (fun x => x <> DF) ds.
Proof.
  destruct ds as [|d r]; simpl; [constructor|]. intros H. destruct (fold_join_not_DF r d H). constructor; assumption.
Qed.
Lemma cast_to_nonfloat a d z : d <> DF -> cast a d z = z.
Proof. destruct a, d; simpl; congruence. Qed.

Lemma encode_dna_range c k : encode_dna c = Some k -> 0 <= k < 4.
Proof.
  unfold encode_dna, dna_alphabet. simpl.
  repeat match goal with |- context [if ?x then _ else _] => destruct x end; intros H; inversion H; lia.
Qed.
Lemma encode_strand_range c k : encode_strand c = Some k -> 0 <= k < 3.
Proof.
  unfold encode_strand, strand_alphabet. simpl.
  repeat match goal with |- context [if ?x then _ else _] => destruct x end; intros H; inversion H; lia.
Qed.
Lemma map_opt_range {A B} (f : A -> option B) (P : B -> Prop) l r :
  (forall a b, f a = Some b -> P b) -> map_opt f l = Some r -> Forall P r.
Proof.
  intros Hf H. apply map_opt_Forall2 in H. induction H as [|a b l r Hab _ IH]; constructor; [eapply Hf; exact Hab|exact IH].
Qed.

Lemma all_MS_inv l ss : all_MS l = Some ss -> l = map MS ss.
Proof.
  intros H. apply map_opt_Forall2 in H. induction H as [|c b l ss Hc H IH]; [reflexivity|].
  destruct c; try discriminate. injection Hc as <-. simpl. rewrite IH. reflexivity.
Qed.

Theorem construct_typed fx5 fx6 k l c :
  bcol_of_cells_gen fx5 fx6 k l = Some c -> Forall (mb_nice k) l -> bcol_typed k c.
Proof.
  intros H Hn.
  assert (NUM : forall d0, (match all_MZ l with
            | Some ps => let d := d0 (map fst ps) in Some (ColNum d (map (fun p => cast (fst p) d (snd p)) ps))
            | None => None end) = Some c ->
            (forall ds, d0 ds <> DF -> Forall (fun x => x <> DF) ds) -> exists d v, c = ColNum d v /\ num_typed d v).
  { clear H. intros d0 H Hd0. destruct (all_MZ l) as [ps|] eqn:E; [|discriminate]. injection H as <-.
    eexists _, _. split; [reflexivity|].
    destruct (d0 (map fst ps)) eqn:Ed; simpl; try exact I.
    - assert (Hnf := Hd0 (map fst ps) ltac:(rewrite Ed; discriminate)).
      apply map_opt_Forall2 in E. clear Ed Hd0. induction E as [|b p l ps Hb E IH]; [constructor|].
      inversion Hn as [|? ? [_ Hf] Hn']; inversion Hnf as [|? ? Hp Hnf']; subst. simpl. constructor; [|apply IH; assumption].
      destruct b as [d1 z| |]; try discriminate. injection Hb as <-. simpl in *. destruct d1; simpl; try congruence; exact Hf.
    - assert (Hnf := Hd0 (map fst ps) ltac:(rewrite Ed; discriminate)).
      apply map_opt_Forall2 in E. clear Ed Hd0. induction E as [|b p l ps Hb E IH]; [constructor|].
      inversion Hn as [|? ? [_ Hf] Hn']; inversion Hnf as [|? ? Hp Hnf']; subst. simpl. constructor; [|apply IH; assumption].
      destruct b as [d1 z| |]; try discriminate. injection Hb as <-. simpl in *. destruct d1; simpl; try congruence; exact Hf. }
  assert (Hnum : forall fx k0 ds, num_dt fx k0 ds <> DF -> Forall (fun x => x <> DF) ds).
  { intros fx k0 ds. unfold num_dt. destruct ds; [constructor|]. apply infer_dt_not_DF. }
  destruct k; simpl in H;
    try (destruct (NUM _ H (Hnum _ _)) as [d [v [-> T]]]; exact T); clear NUM Hnum.
  - (* KStr *)
    destruct (all_MS l) as [ss|] eqn:E; [|discriminate]. injection H as <-. apply all_MS_inv in E. subst l.
    simpl. split; [apply rag_wf_of_rows|]. apply Forall_concat.
    rewrite Forall_map in Hn. eapply Forall_impl; [|exact Hn]. intros s [Hs _]. simpl in Hs.
    rewrite forallb_forall in Hs. apply Forall_forall. intros c Hc. specialize (Hs c Hc).
    apply andb_prop in Hs. destruct Hs as [A B]. apply Z.ltb_lt in A. apply Z.ltb_lt in B. split; assumption.
  - (* KId *)
    destruct (all_MS l) as [ss|] eqn:E; [|discriminate]. injection H as <-. apply all_MS_inv in E. subst l.
    unfold pad_all. simpl. rewrite Forall_map. rewrite Forall_map in Hn.
    apply Forall_forall. intros s Hs. exists s.
    rewrite Forall_forall in Hn. destruct (Hn s Hs) as [Hok _]. simpl in Hok. split; [|split; [|reflexivity]].
    + rewrite forallb_forall in Hok. apply Forall_forall. intros c Hc. specialize (Hok c Hc).
      apply andb_prop in Hok. destruct Hok as [A B]. apply Z.ltb_lt in A. apply Z.ltb_lt in B. split; assumption.
    + apply max_len_ge in Hs. lia.
  - (* KList *)
    destruct (all_ML l) as [ps|] eqn:E; [|discriminate]. injection H as <-.
    simpl. split; [apply rag_wf_of_rows|].
    set (ne := filter (fun p : dt * list Z => negb (match snd p with [] => true | _ => false end)) ps).
    set (d := match ne with [] => list_empty_dt | _ => infer_dt (map fst ne) end).
    assert (Hd : d <> DF -> Forall (fun p : dt * list Z => snd p <> [] -> fst p <> DF) ps).
    { intros Hd. apply Forall_forall. intros p Hp Hne.
      assert (Hin : In p ne) by (unfold ne; apply filter_In; split; [exact Hp|destruct (snd p); [congruence|reflexivity]]).
      unfold d in Hd. destruct ne as [|q ne'] eqn:Ene; [destruct Hin|].
      apply infer_dt_not_DF in Hd. rewrite Forall_map in Hd. rewrite Forall_forall in Hd. apply Hd. exact Hin. }
    destruct d eqn:Ed; simpl; try exact I.
    + specialize (Hd ltac:(discriminate)). apply map_opt_Forall2 in E. apply Forall_concat. rewrite Forall_map.
      clear Ed. induction E as [|b p l ps' Hb E IH]; [constructor|].
      inversion Hn as [|? ? [_ Hf] Hn']; inversion Hd as [|? ? Hp Hd']; subst. constructor; [|apply IH; assumption].
      destruct b as [|?|d0 x]; try discriminate. injection Hb as <-. simpl in *.
      destruct x as [|z x]; [constructor|]. specialize (Hp ltac:(discriminate)).
      rewrite Forall_map. destruct d0; try congruence; simpl in Hf;
        (eapply Forall_impl; [|exact Hf]; intros a Ha; rewrite cast_to_nonfloat by discriminate; exact Ha).
    + specialize (Hd ltac:(discriminate)). apply map_opt_Forall2 in E. apply Forall_concat. rewrite Forall_map.
      clear Ed. induction E as [|b p l ps' Hb E IH]; [constructor|].
      inversion Hn as [|? ? [_ Hf] Hn']; inversion Hd as [|? ? Hp Hd']; subst. constructor; [|apply IH; assumption].
      destruct b as [|?|d0 x]; try discriminate. injection Hb as <-. simpl in *.
      destruct x as [|z x]; [constructor|]. specialize (Hp ltac:(discriminate)).
      rewrite Forall_map. destruct d0; try congruence; simpl in Hf;
        (eapply Forall_impl; [|exact Hf]; intros a Ha; rewrite cast_to_nonfloat by discriminate; exact Ha).
  - (* KDna *)
    destruct (all_MS l) as [ss|] eqn:E; [|discriminate].
    destruct (map_opt (map_opt encode_dna) ss) as [cs|] eqn:E2; [|discriminate]. injection H as <-.
    simpl. split; [apply rag_wf_of_rows|]. apply Forall_concat.
    eapply (map_opt_range (map_opt encode_dna)); [|exact E2].
    intros s r Hs. eapply (map_opt_range encode_dna); [|exact Hs]. apply encode_dna_range.
  - (* KStrand *)
    destruct (all_MS l) as [ss|] eqn:E; [|discriminate].
    destruct (fx6 && negb (forallb (fun s => Nat.eqb (length s) 1) ss)); [discriminate|].
    destruct (map_opt encode_strand (concat ss)) as [cs|] eqn:E2; [|discriminate]. injection H as <-.
    simpl. eapply (map_opt_range encode_strand); [|exact E2]. apply encode_strand_range.
Qed.

(* ====================================================================== the cells of a typed column are acceptable *)
Lemma ascii_forallb s : Forall ascii s -> forallb (fun c => (0 <? c) && (c <? 128)) s = true.
Proof.
  intros H. apply forallb_forall. intros c Hc. rewrite Forall_forall in H. destruct (H c Hc) as [A B].
  apply andb_true_intro. split; apply Z.ltb_lt; assumption.
Qed.
Lemma ascii_nulfree s : Forall ascii s -> Forall (fun c => c <> 0) s.
Proof. intros H. eapply Forall_impl; [|exact H]. intros c [A _]. lia. Qed.
Lemma decode_dna_in c : 0 <= c < 4 -> existsb (Z.eqb (decode dna_alphabet c)) dna_alphabet = true.
Proof. intros H. assert (c = 0 \/ c = 1 \/ c = 2 \/ c = 3) as [->|[->|[->| ->]]] by lia; reflexivity. Qed.
Lemma decode_strand_in c : 0 <= c < 3 -> existsb (Z.eqb (decode strand_alphabet c)) strand_alphabet = true.
Proof. intros H. assert (c = 0 \/ c = 1 \/ c = 2) as [->|[->| ->]] by lia; reflexivity. Qed.

Lemma typed_cells_nice k b : bcol_typed k b -> Forall (mb_nice k) (bcol_cells b).
Proof.
  destruct k, b as [d v|[| |d] x l|w m|v]; simpl; try contradiction; intros H; rewrite Forall_map.
  1-4: (destruct d; simpl in H; apply Forall_forall; intros z Hz; split; simpl; auto;
        rewrite Forall_forall in H; apply H; exact Hz).
  - destruct H as [_ H]. eapply Forall_impl; [|apply (Forall_rag_rows _ x l H)]. intros r Hr.
    split; [simpl; apply ascii_forallb; exact Hr|exact I].
  - apply Forall_forall. intros r Hr. rewrite Forall_forall in H. destruct (H r Hr) as [s [Ha [Hl ->]]].
    rewrite strip_pad, strip_nul_nulfree by (assumption || apply ascii_nulfree; assumption).
    split; [simpl; apply ascii_forallb; exact Ha|exact I].
  - destruct H as [_ H]. apply Forall_forall. intros r Hr. split; [reflexivity|].
    destruct d; simpl in *; try exact I;
      (assert (X := Forall_rag_rows _ x l H); rewrite Forall_forall in X; apply X; exact Hr).
  - destruct H as [_ H]. eapply Forall_impl; [|apply (Forall_rag_rows _ x l H)]. intros r Hr.
    split; [|exact I]. simpl. apply forallb_forall. intros c Hc. apply in_map_iff in Hc. destruct Hc as [c0 [<- Hc0]].
    apply decode_dna_in. rewrite Forall_forall in Hr. apply Hr. exact Hc0.
  - eapply Forall_impl; [|exact H]. intros c Hc. split; [|exact I]. simpl. apply decode_strand_in. exact Hc.
Qed.

(* ====================================================================== construction is total on acceptable cells *)
Lemma all_MS_map ss : all_MS (map MS ss) = Some ss.
Proof.
  induction ss as [|s ss IH]; [reflexivity|].
  change (all_MS (map MS (s :: ss))) with (match all_MS (map MS ss) with Some r => Some (s :: r) | None => None end).
  rewrite IH. reflexivity.
Qed.
Lemma mb_ok_shape k b : mb_ok k b = true ->
  match k with
  | KInt | KOpt | KFloat | KBool => exists d z, b = MZ d z
  | KList => exists d l, b = ML d l
  | _ => exists s, b = MS s
  end.
Proof. destruct k, b; simpl; intros H; try discriminate; eauto. Qed.

Lemma map_opt_total {A B} (f : A -> option B) l : Forall (fun a => f a <> None) l -> exists r, map_opt f l = Some r.
Proof.
  induction 1 as [|a l Ha _ [r IH]]; [exists []; reflexivity|].
  simpl. destruct (f a) as [b|]; [|congruence]. rewrite IH. eexists; reflexivity.
Qed.
Lemma encode_dna_total c : existsb (Z.eqb c) dna_alphabet = true -> encode_dna c <> None.
Proof. intros H. apply existsb_In in H. simpl in H. destruct H as [<-|[<-|[<-|[<-|[]]]]]; discriminate. Qed.
Lemma encode_strand_total c : existsb (Z.eqb c) strand_alphabet = true -> encode_strand c <> None.
Proof. intros H. apply existsb_In in H. simpl in H. destruct H as [<-|[<-|[<-|[]]]]; discriminate. Qed.

Theorem construct_total fx5 fx6 k l :
  Forall (fun b => mb_ok k b = true) l -> exists c, bcol_of_cells_gen fx5 fx6 k l = Some c.
Proof.
  intros H.
  assert (MZs : (match k with KInt | KOpt | KFloat | KBool => True | _ => False end) -> exists ps, all_MZ l = Some ps).
  { intros Hk. apply map_opt_total. eapply Forall_impl; [|exact H]. intros b Hb. apply mb_ok_shape in Hb.
    destruct k; try contradiction; destruct Hb as [d [z ->]]; discriminate. }
  assert (MSs : (match k with KStr | KId | KDna | KStrand => True | _ => False end) -> exists ss, l = map MS ss).
  { intros Hk. clear MZs. induction H as [|b l Hb _ IH]; [exists []; reflexivity|]. destruct IH as [ss ->].
    apply mb_ok_shape in Hb. destruct k; try contradiction; destruct Hb as [s ->]; exists (s :: ss); reflexivity. }
  destruct k; simpl;
    try (destruct (MZs I) as [ps ->]; eexists; reflexivity);
    try (destruct (MSs I) as [ss ->]; rewrite all_MS_map).
  - eexists; reflexivity.
  - eexists; reflexivity.
  - assert (X : exists ps, all_ML l = Some ps).
    { apply map_opt_total. eapply Forall_impl; [|exact H]. intros b Hb. apply mb_ok_shape in Hb.
      destruct Hb as [d [x ->]]. discriminate. }
    destruct X as [ps ->]. eexists; reflexivity.
  - assert (X : exists cs, map_opt (map_opt encode_dna) ss = Some cs).
    { apply map_opt_total. rewrite Forall_map in H. eapply Forall_impl; [|exact H]. intros s Hs. simpl in Hs.
      destruct (map_opt_total encode_dna s) as [r Hr]; [|rewrite Hr; discriminate].
      rewrite forallb_forall in Hs. apply Forall_forall. intros c Hc. apply encode_dna_total. apply Hs. exact Hc. }
    destruct X as [cs ->]. eexists; reflexivity.
  - rewrite Forall_map in H.
    assert (L1 : forallb (fun s : list Z => Nat.eqb (length s) 1) ss = true).
    { apply forallb_forall. intros s Hs. rewrite Forall_forall in H. specialize (H s Hs). simpl in H.
      destruct s as [|c [|c' s]]; try discriminate. reflexivity. }
    rewrite L1. simpl. rewrite andb_false_r.
    assert (X : exists cs, map_opt encode_strand (concat ss) = Some cs).
    { apply map_opt_total. apply Forall_concat. eapply Forall_impl; [|exact H]. intros s Hs. simpl in Hs.
      destruct s as [|c [|c' s]]; try discriminate. constructor; [|constructor]. apply encode_strand_total. exact Hs. }
    destruct X as [cs ->]. eexists; reflexivity.
Qed.

(* rebuilding a typed column from its own cells: same values, same length, typed again *)
Lemma rebuild_bcol fx5 fx6 k b :
  bcol_typed k b ->
  exists c, bcol_of_cells_gen fx5 fx6 k (bcol_cells b) = Some c /\ bcol_typed k c /\ ecells c = ecells b /\ bcol_len c = bcol_len b.
Proof.
  intros H. assert (N := typed_cells_nice k b H).
  assert (Hok : Forall (fun x => mb_ok k x = true) (bcol_cells b)) by (eapply Forall_impl; [|exact N]; intros x [A _]; exact A).
  assert (Hsm : Forall mb_small (bcol_cells b)) by (eapply Forall_impl; [|exact N]; intros x [_ A]; apply mb_fine_small; exact A).
  destruct (construct_total fx5 fx6 k _ Hok) as [c E]. exists c. split; [exact E|].
  split; [eapply construct_typed; eassumption|].
  destruct (column_roundtrip _ _ _ _ _ E Hok Hsm) as [R1 R2]. split; [exact R1|]. rewrite R2. apply bcol_cells_length.
Qed.

(* ====================================================================== rebuilding a table from its own rows *)
Lemma all_MB_map l : all_MB (map MB l) = Some l.
Proof.
  induction l as [|b l IH]; [reflexivity|].
  change (all_MB (map MB (b :: l))) with (match all_MB (map MB l) with Some r => Some (b :: r) | None => None end).
  rewrite IH. reflexivity.
Qed.
Lemma all_MN_map l : all_MN (map MN l) = Some l.
Proof.
  induction l as [|b l IH]; [reflexivity|].
  change (all_MN (map MN (b :: l))) with (match all_MN (map MN l) with Some r => Some (b :: r) | None => None end).
  rewrite IH. reflexivity.
Qed.

Lemma rebuild_bcols ks cs n :
  Forall2 (fun kk b => bcol_typed (snd kk) b) ks cs -> Forall (fun c => bcol_len c = n) cs ->
  exists cs', map2o (fun (kk : list Z * kind) l => bcol_of_cells (snd kk) l) ks (map bcol_cells cs) = Some cs'
    /\ Forall2 (fun kk b => bcol_typed (snd kk) b) ks cs' /\ map ecells cs' = map ecells cs
    /\ Forall (fun c => bcol_len c = n) cs'.
Proof.
  intros H. induction H as [|kk b ks cs Hb _ IH]; intros Hl.
  - exists []. repeat split; constructor.
  - inversion Hl as [|? ? L1 L2]; subst. destruct (IH L2) as [cs' [E [T [M L]]]].
    destruct (rebuild_bcol fix5_empty_dtype fix6_flat_cells _ _ Hb) as [c [Ec [Tc [Mc Lc]]]].
    exists (c :: cs'). simpl. unfold bcol_of_cells at 1. rewrite Ec, E. repeat split.
    + constructor; assumption.
    + simpl. rewrite Mc, M. reflexivity.
    + constructor; [exact Lc|exact L].
Qed.

Lemma rebuild_col f c n :
  (0 < n)%nat -> col_typed f c -> col_aligned n c = true ->
  exists a c', arg_of_cells f (col_cells c) = Some a /\ col_of_arg f a = Some c'
    /\ col_typed f c' /\ ecol c' = ecol c /\ col_aligned n c' = true.
Proof.
  intros Hn. destruct f as [k|ks], c as [b|cs]; simpl; try contradiction.
  - intros Hb Hl. rewrite all_MB_map.
    destruct (rebuild_bcol fix5_empty_dtype fix6_flat_cells _ _ Hb) as [c [Ec [Tc [Mc Lc]]]].
    exists (ABase (bcol_cells b)), (CBase c). simpl. unfold bcol_of_cells. rewrite Ec.
    repeat split; try assumption.
    + rewrite !ecol_base, Mc. reflexivity.
    + simpl. rewrite Lc. exact Hl.
  - intros [Hks Hb] Hl. rewrite all_MN_map.
    apply andb_prop in Hl. destruct Hl as [Hne Hl]. apply aligned_b_Forall in Hl.
    assert (Hcs : cs <> []) by (destruct cs; [discriminate|congruence]).
    assert (HM : Forall (fun r => length r = n) (map bcol_cells cs)).
    { rewrite Forall_map. eapply Forall_impl; [|exact Hl]. intros x Hx. rewrite bcol_cells_length. exact Hx. }
    assert (HMne : map bcol_cells cs <> []) by (destruct cs; [congruence|discriminate]).
    assert (Lz : length (zip_rows (map bcol_cells cs)) = n) by (apply zip_rows_length; assumption).
    assert (Inv' : zip_rows (zip_rows (map bcol_cells cs)) = map bcol_cells cs)
      by (apply (zip_rows_involutive _ n); assumption).
    destruct (rebuild_bcols ks cs n Hb Hl) as [cs' [E [T [M L]]]].
    exists (ANest (map bcol_cells cs)).
    destruct cs' as [|c0 cs'].
    { exfalso. inversion T; subst. apply Hks. reflexivity. }
    exists (CNest (c0 :: cs')).
    assert (Al : aligned_b (bcol_len c0) (c0 :: cs') = true).
    { apply aligned_b_Forall. inversion L as [|? ? L0 _]; subst. rewrite L0. exact L. }
    repeat split.
    + destruct (zip_rows (map bcol_cells cs)) as [|r rs] eqn:Ez; [simpl in Lz; lia|]. rewrite Inv'. reflexivity.
    + simpl. rewrite E, Al. reflexivity.
    + exact Hks.
    + exact T.
    + rewrite !ecol_nest, M. reflexivity.
    + apply andb_true_intro. split; [reflexivity|]. apply aligned_b_Forall. exact L.
Qed.

Lemma rebuild_cols sch t n :
  (0 < n)%nat -> Forall2 (fun f c => col_typed (snd f) c) sch t -> Forall (fun c => col_aligned n c = true) t ->
  exists args t', map2o (fun (f : list Z * fk) c => arg_of_cells (snd f) c) sch (map col_cells t) = Some args
    /\ map2o (fun (f : list Z * fk) a => col_of_arg (snd f) a) sch args = Some t'
    /\ Forall2 (fun f c => col_typed (snd f) c) sch t' /\ map ecol t' = map ecol t
    /\ Forall (fun c => col_aligned n c = true) t'.
Proof.
  intros Hn H. induction H as [|f c sch t Hc _ IH]; intros Hl.
  - exists [], []. repeat split; constructor.
  - inversion Hl as [|? ? L1 L2]; subst. destruct (IH L2) as [args [t' [E1 [E2 [T [M L]]]]]].
    destruct (rebuild_col _ _ n Hn Hc L1) as [a [c' [A1 [A2 [Tc [Mc Lc]]]]]].
    exists (a :: args), (c' :: t'). simpl. rewrite A1, E1, A2, E2. repeat split.
    + constructor; assumption.
    + simpl. rewrite Mc, M. reflexivity.
    + constructor; assumption.
Qed.

Lemma aligned_of_Forall n t : t <> [] -> Forall (fun c => col_aligned n c = true) t -> aligned t = true /\ m_len t = n.
Proof.
  intros Hne H. destruct t as [|c t]; [congruence|]. inversion H as [|? ? Hc _]; subst.
  assert (L : m_len (c :: t) = n) by (simpl; apply col_len_aligned; exact Hc).
  split; [|exact L]. apply aligned_Forall. rewrite L. exact H.
Qed.
Lemma twf_nonempty sch t : twf sch t -> t <> [].
Proof. intros [Hne H]. destruct H; congruence. Qed.

Theorem rebuild_from_rows sch t :
  Inv sch t -> (0 < m_len t)%nat ->
  exists t', m_from_rows_nonempty sch (m_to_rows t) = Some t' /\ Inv sch t'
    /\ erase_rows (m_to_rows t') = erase_rows (m_to_rows t) /\ m_to_rows t <> [].
Proof.
  intros [[Hs T] A] Hn. assert (Ht := twf_nonempty sch t (conj Hs T)).
  assert (Al := A). apply aligned_Forall in Al.
  assert (HM : Forall (fun r => length r = m_len t) (map col_cells t)).
  { rewrite Forall_map. eapply Forall_impl; [|exact Al]. intros c Hc. apply col_cells_length. exact Hc. }
  assert (HMne : map col_cells t <> []) by (destruct t; [congruence|discriminate]).
  assert (Inv' : zip_rows (m_to_rows t) = map col_cells t) by (apply (zip_rows_involutive _ (m_len t)); assumption).
  destruct (rebuild_cols sch t (m_len t) Hn T Al) as [args [t' [E1 [E2 [T' [M L]]]]]].
  assert (Ht' : t' <> []).
  { intro; subst t'. inversion T'; subst. apply Hs. reflexivity. }
  destruct (aligned_of_Forall _ _ Ht' L) as [A' _].
  exists t'. unfold m_from_rows_nonempty, m_construct, check_aligned. rewrite Inv', E1, E2, A'.
  repeat split; try assumption.
  - rewrite !erase_rows_zip, M. reflexivity.
  - intro E. assert (X := m_to_rows_length t A). rewrite E in X. simpl in X. lia.
Qed.

(* zero rows: cls.empty() *)
Lemma empty_col_typed fx5 k : exists c, empty_col fx5 k = Some c /\ bcol_typed k c /\ bcol_len c = O.
Proof. destruct k, fx5; simpl; eexists; (split; [reflexivity|]); simpl; repeat split; try constructor; try reflexivity. Qed.

Lemma empty_cols_typed fx5 (ks : list (list Z * kind)) :
  exists cs, map_opt (fun kk => empty_col fx5 (snd kk)) ks = Some cs
    /\ Forall2 (fun kk b => bcol_typed (snd kk) b) ks cs /\ Forall (fun c => bcol_len c = O) cs.
Proof.
  induction ks as [|kk ks [cs [E [T L]]]]; [exists []; repeat split; constructor|].
  destruct (empty_col_typed fx5 (snd kk)) as [c [Ec [Tc Lc]]].
  exists (c :: cs). simpl. rewrite Ec, E. repeat split; constructor; assumption.
Qed.

Theorem empty_table fx5 sch t0 :
  twf sch t0 -> exists t', m_empty fx5 sch = Some t' /\ Inv sch t' /\ m_len t' = O.
Proof.
  intros [Hs T].
  assert (X : exists t', map_opt (fun f : list Z * fk => match snd f with
                    | FB k => match empty_col fx5 k with Some c => Some (CBase c) | None => None end
                    | FN ks => match map_opt (fun kk => empty_col fx5 (snd kk)) ks with
                               | Some (c :: cs) => Some (CNest (c :: cs))
                               | _ => None
                               end
                    end) sch = Some t'
              /\ Forall2 (fun f c => col_typed (snd f) c) sch t' /\ Forall (fun c => col_aligned O c = true) t').
  { clear Hs. induction T as [|f c sch t Hc _ [t' [E [T' L]]]]; [exists []; repeat split; constructor|].
    destruct f as [name [k|ks]]; simpl in *.
    - destruct (empty_col_typed fx5 k) as [b [Eb [Tb Lb]]]. exists (CBase b :: t'). rewrite Eb, E.
      repeat split; constructor; try assumption. simpl. rewrite Lb. reflexivity.
    - destruct c as [|cs0]; [contradiction|]. destruct Hc as [Hks _].
      destruct (empty_cols_typed fx5 ks) as [cs [Ecs [Tcs Lcs]]]. rewrite Ecs.
      destruct cs as [|c1 cs]; [inversion Tcs; subst; congruence|].
      exists (CNest (c1 :: cs) :: t'). rewrite E. split; [reflexivity|]. split.
      + constructor; [|exact T']. simpl. split; [exact Hks|exact Tcs].
      + constructor; [|exact L]. unfold col_aligned. apply andb_true_intro. split; [reflexivity|]. apply aligned_b_Forall. exact Lcs. }
  destruct X as [t' [E [T' L]]].
  assert (Ht' : t' <> []) by (intro; subst t'; inversion T'; subst; apply Hs; reflexivity).
  destruct (aligned_of_Forall _ _ Ht' L) as [A' L'].
  exists t'. unfold m_empty, check_aligned. rewrite E, A'. repeat split; assumption.
Qed.

Lemma rows_of_empty t : aligned t = true -> m_len t = O -> m_to_rows t = [].
Proof. intros A L. assert (X := m_to_rows_length t A). rewrite L in X. destruct (m_to_rows t); [reflexivity|discriminate]. Qed.

(* ====================================================================== sorting: argsort by any comparator = stable sort *)
Lemma sel_insert_idx_by {A K} (leb : K -> K -> bool) (d : K) (key : A -> K) (l : list A) k x J :
  nth_error l k = Some x ->
  Forall (fun j => (j < length l)%nat) J ->
  sel (insert_idx_by leb (fun i => nth i (map key l) d) k J) l
  = insert_by (fun a b => leb (key a) (key b)) x (sel J l)
  /\ Forall (fun j => (j < length l)%nat) (insert_idx_by leb (fun i => nth i (map key l) d) k J).
Proof.
  intros Hk. assert (Hkl : (k < length l)%nat) by (apply nth_error_Some; congruence).
  assert (Kk : nth k (map key l) d = key x).
  { rewrite (nth_indep _ d (key x)) by (rewrite map_length; exact Hkl). rewrite map_nth.
    f_equal. apply nth_error_nth. exact Hk. }
  induction J as [|j J IH]; intros HJ.
  - simpl. rewrite Hk. split; [reflexivity|repeat constructor; exact Hkl].
  - inversion HJ as [|? ? Hj HJ']; subst.
    destruct (nth_error l j) as [y|] eqn:Ej; [|apply nth_error_None in Ej; lia].
    assert (Kj : nth j (map key l) d = key y).
    { rewrite (nth_indep _ d (key y)) by (rewrite map_length; exact Hj). rewrite map_nth.
      f_equal. apply nth_error_nth. exact Ej. }
    simpl insert_idx_by. rewrite Kk, Kj. rewrite (sel_cons j J), Ej. simpl app. simpl insert_by.
    destruct (leb (key x) (key y)).
    + split; [|constructor; [exact Hkl|exact HJ]].
      rewrite sel_cons, Hk. rewrite (sel_cons j J), Ej. reflexivity.
    + destruct (IH HJ') as [IH1 IH2]. split; [|constructor; assumption].
      rewrite sel_cons, Ej. simpl. rewrite IH1. reflexivity.
Qed.

Lemma argsort_by_suffix {A K} (leb : K -> K -> bool) (d : K) (key : A -> K) (pre suf : list A) :
  let l := pre ++ suf in
  sel (fold_right (insert_idx_by leb (fun i => nth i (map key l) d)) [] (seq (length pre) (length suf))) l
  = isort_by (fun a b => leb (key a) (key b)) suf
  /\ Forall (fun j => (j < length l)%nat) (fold_right (insert_idx_by leb (fun i => nth i (map key l) d)) [] (seq (length pre) (length suf))).
Proof.
  revert pre. induction suf as [|x suf IH]; intros pre l.
  - simpl. split; [reflexivity|constructor].
  - simpl seq. simpl fold_right.
    specialize (IH (pre ++ [x])). simpl in IH.
    replace (length (pre ++ [x])) with (S (length pre)) in IH by (rewrite app_length; simpl; lia).
    replace ((pre ++ [x]) ++ suf) with l in IH by (unfold l; rewrite <- app_assoc; reflexivity).
    destruct IH as [IH1 IH2].
    assert (Hk : nth_error l (length pre) = Some x).
    { unfold l. rewrite nth_error_app2 by lia. rewrite Nat.sub_diag. reflexivity. }
    destruct (sel_insert_idx_by leb d key l (length pre) x _ Hk IH2) as [S1 S2].
    split; [|exact S2]. rewrite S1, IH1. reflexivity.
Qed.

Theorem argsort_by_is_stable_sort {A K} (leb : K -> K -> bool) (d : K) (key : A -> K) (l : list A) :
  sel (argsort_by leb d (map key l)) l = isort_by (fun a b => leb (key a) (key b)) l.
Proof. unfold argsort_by. rewrite map_length. exact (proj1 (argsort_by_suffix leb d key [] l)). Qed.

Lemma insert_idx_is_by key i l : insert_idx key i l = insert_idx_by Z.leb key i l.
Proof. induction l as [|j l IH]; [reflexivity|]. simpl. rewrite IH. reflexivity. Qed.
Lemma argsort_is_by v : argsort v = argsort_by Z.leb 0 v.
Proof.
  unfold argsort, argsort_by. generalize (seq 0 (length v)). intros s.
  induction s as [|i s IH]; [reflexivity|]. simpl. rewrite IH. apply insert_idx_is_by.
Qed.

Lemma lex_leb_total a b : lex_leb a b = false -> lex_leb b a = true.
Proof.
  revert b. induction a as [|x a IH]; intros [|y b] H; simpl in *; try discriminate; try reflexivity.
  destruct (x <? y) eqn:E1; [discriminate|]. destruct (y <? x) eqn:E2; [reflexivity|]. apply IH. exact H.
Qed.
Lemma lex_leb_single x y : lex_leb [x] [y] = (x <=? y).
Proof.
  simpl. destruct (x <? y) eqn:E1; [apply Z.ltb_lt in E1; symmetry; apply Z.leb_le; lia|].
  destruct (y <? x) eqn:E2; [apply Z.ltb_lt in E2; symmetry; apply Z.leb_gt; lia|].
  apply Z.ltb_ge in E1. apply Z.ltb_ge in E2. symmetry. apply Z.leb_le. lia.
Qed.
Lemma sorted_b_ext {A} (l1 l2 : A -> A -> bool) l :
  (forall a b, In a l -> In b l -> l1 a b = l2 a b) -> sorted_b l1 l = true -> sorted_b l2 l = true.
Proof.
  induction l as [|a l IH]; intros H S; [reflexivity|]. destruct l as [|b l]; [reflexivity|].
  simpl in *. apply andb_prop in S. destruct S as [S1 S2].
  rewrite <- (H a b) by (simpl; auto). rewrite S1. simpl. apply IH; [|exact S2].
  intros x y Hx Hy. apply H; right; assumption.
Qed.
Lemma sorted_b_map {A B} (f : A -> B) (leb : B -> B -> bool) l :
  sorted_b leb (map f l) = sorted_b (fun a b => leb (f a) (f b)) l.
Proof.
  induction l as [|a l IH]; [reflexivity|]. destruct l as [|b l]; [reflexivity|].
  simpl in *. rewrite IH. reflexivity.
Qed.

Lemma insert_by_In {A} (leb : A -> A -> bool) x l y : In y (insert_by leb x l) -> y = x \/ In y l.
Proof.
  induction l as [|z l IH]; simpl; [intros [<-|[]]; auto|].
  destruct (leb x z); simpl; [intros [<-|[<-|H]]; auto|intros [<-|H]; auto].
  destruct (IH H); auto.
Qed.
Lemma isort_by_In {A} (leb : A -> A -> bool) l y : In y (isort_by leb l) -> In y l.
Proof.
  unfold isort_by. induction l as [|x l IH]; simpl; [auto|]. intros H.
  destruct (insert_by_In _ _ _ _ H) as [->|H']; auto.
Qed.
Lemma insert_by_map_in {A B} (g : A -> B) (l1 : A -> A -> bool) (l2 : B -> B -> bool) x l :
  (forall b, In b l -> l2 (g x) (g b) = l1 x b) ->
  map g (insert_by l1 x l) = insert_by l2 (g x) (map g l).
Proof.
  induction l as [|y l IH]; intros H; [reflexivity|].
  simpl. rewrite (H y) by (left; reflexivity). destruct (l1 x y); [reflexivity|].
  simpl. rewrite IH; [reflexivity|]. intros b Hb. apply H. right. exact Hb.
Qed.
Lemma isort_by_map_in {A B} (g : A -> B) (l1 : A -> A -> bool) (l2 : B -> B -> bool) l :
  (forall a b, In a l -> In b l -> l2 (g a) (g b) = l1 a b) ->
  map g (isort_by l1 l) = isort_by l2 (map g l).
Proof.
  unfold isort_by. induction l as [|x l IH]; intros H; [reflexivity|].
  simpl. rewrite (insert_by_map_in g l1 l2).
  - rewrite IH; [reflexivity|]. intros a b Ha Hb. apply H; right; assumption.
  - intros b Hb. apply H; [left; reflexivity|right]. eapply (isort_by_In l1). exact Hb.
Qed.

Lemma key_of_erase f (r : list mcell) : key_of f (erase_row r) = erase (nth f r (MN [])).
Proof. unfold key_of, erase_row. change (CN []) with (erase (MN [])). apply map_nth. Qed.

(* the generic step: selecting with argsort_by of the key column = the specification's stable sort of the rows *)
Lemma sort_generic {K} (leb : K -> K -> bool) (d : K) (key : list mcell -> K) f t keys :
  aligned t = true ->
  map key (m_to_rows t) = keys ->
  (forall a b, In a (m_to_rows t) -> In b (m_to_rows t) ->
     row_leb f (erase_row a) (erase_row b) = leb (key a) (key b)) ->
  erase_rows (m_to_rows (m_select (argsort_by leb d keys) t)) = s_sort_by f (erase_rows (m_to_rows t)).
Proof.
  intros A Hk Hleb. rewrite m_to_rows_select by exact A. rewrite <- Hk.
  rewrite argsort_by_is_stable_sort. unfold erase_rows, s_sort_by.
  apply isort_by_map_in. exact Hleb.
Qed.

(* f-th cells of the rows of an aligned table are the cells of column f *)
Lemma column_cells f t c :
  aligned t = true -> nth_error t f = Some c ->
  map (fun r => nth f r (MN [])) (m_to_rows t) = col_cells c.
Proof.
  intros A Hf. unfold m_to_rows. apply aligned_Forall in A.
  apply (zip_rows_column (MN []) _ (m_len t)).
  - rewrite Forall_map. eapply Forall_impl; [|exact A]. intros x Hx. apply col_cells_length. exact Hx.
  - rewrite nth_error_map, Hf. reflexivity.
Qed.
Lemma row_cell_in f t c a :
  aligned t = true -> nth_error t f = Some c -> In a (m_to_rows t) -> In (nth f a (MN [])) (col_cells c).
Proof. intros A Hf Ha. rewrite <- (column_cells f t c A Hf). apply (in_map (fun r => nth f r (MN []))). exact Ha. Qed.

Lemma Forall2_nth_error {A B} (P : A -> B -> Prop) l1 l2 i a :
  Forall2 P l1 l2 -> nth_error l1 i = Some a -> exists b, nth_error l2 i = Some b /\ P a b.
Proof.
  intros H. revert i. induction H as [|x y l1 l2 Hxy _ IH]; intros [|i] Hi; simpl in *; try discriminate.
  - injection Hi as <-. eauto.
  - apply IH. exact Hi.
Qed.

Lemma base_row_cell f t b a :
  aligned t = true -> nth_error t f = Some (CBase b) -> In a (m_to_rows t) ->
  exists x, In x (bcol_cells b) /\ nth f a (MN []) = MB x.
Proof.
  intros A Hf Ha. assert (H := row_cell_in f t _ a A Hf Ha). simpl in H. apply in_map_iff in H.
  destruct H as [x [E Hx]]. exists x. split; [exact Hx|symmetry; exact E].
Qed.

Definition skey (f : nat) (r : list mcell) : Z :=
  match nth f r (MN []) with
  | MB (MS [ch]) => match encode_strand ch with Some k => k | None => 0 end
  | _ => 0
  end.
Definition strkey (f : nat) (r : list mcell) : list Z := match nth f r (MN []) with MB (MS s) => s | _ => [] end.

Lemma encode_decode_strand_inv c : 0 <= c < 3 -> encode_strand (decode strand_alphabet c) = Some c.
Proof. intros H. assert (c = 0 \/ c = 1 \/ c = 2) as [->|[->| ->]] by lia; reflexivity. Qed.
Lemma decode_strand_mono c c' : 0 <= c < 3 -> 0 <= c' < 3 ->
  (decode strand_alphabet c <=? decode strand_alphabet c') = (c <=? c').
Proof.
  intros H H'. assert (c = 0 \/ c = 1 \/ c = 2) as [->|[->| ->]] by lia;
    assert (c' = 0 \/ c' = 1 \/ c' = 2) as [->|[->| ->]] by lia; reflexivity.
Qed.
Lemma str_keys_cells b ks : str_keys b = Some ks -> bcol_cells b = map MS ks.
Proof.
  destruct b as [d v|[| |d] x l|w m|v]; simpl; intros H; try discriminate; injection H as <-; try rewrite !map_map; reflexivity.
Qed.

(* T4 for every sortable column kind (numbers, strand symbols, strings, identifiers, encoded strings): with the
   stable sort_by of the repaired code the result is EXACTLY the specification's stable sort of the rows *)
Theorem sort_step sch f t name k :
  Inv sch t -> nth_error sch f = Some (name, FB k) -> k <> KList ->
  exists t', m_sort_by_gen true f t = Some t' /\ Inv sch t'
    /\ erase_rows (m_to_rows t') = s_sort_by f (erase_rows (m_to_rows t)).
Proof.
  intros HI Hf Hk. assert (HI' := HI). destruct HI as [[Hs T] A].
  destruct (Forall2_nth_error _ _ _ _ _ T Hf) as [c [Hc Tc]]. simpl in Tc.
  destruct c as [b|]; [|contradiction].
  unfold m_sort_by_gen. rewrite Hc.
  destruct k, b as [d v|[| |d] x l|w m|v]; simpl in Tc; try contradiction; try congruence; simpl.
  1-4: (eexists; split; [reflexivity|]; split; [apply Inv_select; exact HI'|];
        rewrite argsort_is_by; apply (sort_generic Z.leb 0 (rowkey f)); [exact A| |]).
  (* numeric keys *)
  1,3,5,7: (unfold rowkey;
     rewrite <- (map_map (fun r => nth f r (MN [])) (fun c => match c with MB (MZ _ z) => z | _ => 0 end));
     rewrite (column_cells f t _ A Hc); simpl; rewrite !map_map; simpl; apply map_id).
  1-4: (intros a b0 Ha Hb; destruct (base_row_cell f t _ a A Hc Ha) as [xa [Ia Ea]];
        destruct (base_row_cell f t _ b0 A Hc Hb) as [xb [Ib Eb]];
        simpl in Ia, Ib; apply in_map_iff in Ia; apply in_map_iff in Ib;
        destruct Ia as [za [<- _]]; destruct Ib as [zb [<- _]];
        unfold row_leb, rowkey; rewrite !key_of_erase, Ea, Eb; reflexivity).
  - (* KStr *)
    eexists; split; [reflexivity|]; split; [apply Inv_select; exact HI'|].
    apply (sort_generic lex_leb [] (strkey f)); [exact A| |].
    + unfold strkey. rewrite <- (map_map (fun r => nth f r (MN [])) (fun c => match c with MB (MS s) => s | _ => [] end)).
      rewrite (column_cells f t _ A Hc). simpl. rewrite !map_map. simpl. apply map_id.
    + intros a b0 Ha Hb. destruct (base_row_cell f t _ a A Hc Ha) as [xa [Ia Ea]].
      destruct (base_row_cell f t _ b0 A Hc Hb) as [xb [Ib Eb]].
      simpl in Ia, Ib. apply in_map_iff in Ia. apply in_map_iff in Ib.
      destruct Ia as [za [<- _]]. destruct Ib as [zb [<- _]].
      unfold row_leb, strkey. rewrite !key_of_erase, Ea, Eb. reflexivity.
  - (* KId *)
    eexists; split; [reflexivity|]; split; [apply Inv_select; exact HI'|].
    apply (sort_generic lex_leb [] (strkey f)); [exact A| |].
    + unfold strkey. rewrite <- (map_map (fun r => nth f r (MN [])) (fun c => match c with MB (MS s) => s | _ => [] end)).
      rewrite (column_cells f t _ A Hc). simpl. rewrite !map_map. simpl. reflexivity.
    + intros a b0 Ha Hb. destruct (base_row_cell f t _ a A Hc Ha) as [xa [Ia Ea]].
      destruct (base_row_cell f t _ b0 A Hc Hb) as [xb [Ib Eb]].
      simpl in Ia, Ib. apply in_map_iff in Ia. apply in_map_iff in Ib.
      destruct Ia as [za [<- _]]. destruct Ib as [zb [<- _]].
      unfold row_leb, strkey. rewrite !key_of_erase, Ea, Eb. reflexivity.
  - (* KDna *)
    eexists; split; [reflexivity|]; split; [apply Inv_select; exact HI'|].
    apply (sort_generic lex_leb [] (strkey f)); [exact A| |].
    + unfold strkey. rewrite <- (map_map (fun r => nth f r (MN [])) (fun c => match c with MB (MS s) => s | _ => [] end)).
      rewrite (column_cells f t _ A Hc). simpl. rewrite !map_map. simpl. reflexivity.
    + intros a b0 Ha Hb. destruct (base_row_cell f t _ a A Hc Ha) as [xa [Ia Ea]].
      destruct (base_row_cell f t _ b0 A Hc Hb) as [xb [Ib Eb]].
      simpl in Ia, Ib. apply in_map_iff in Ia. apply in_map_iff in Ib.
      destruct Ia as [za [<- _]]. destruct Ib as [zb [<- _]].
      unfold row_leb, strkey. rewrite !key_of_erase, Ea, Eb. reflexivity.
  - (* KStrand *)
    eexists; split; [reflexivity|]; split; [apply Inv_select; exact HI'|].
    rewrite argsort_is_by. apply (sort_generic Z.leb 0 (skey f)); [exact A| |].
    + unfold skey. rewrite <- (map_map (fun r => nth f r (MN []))
         (fun c => match c with MB (MS [ch]) => match encode_strand ch with Some k => k | None => 0 end | _ => 0 end)).
      rewrite (column_cells f t _ A Hc). simpl. rewrite !map_map. simpl.
      rewrite <- (map_id v) at 2. apply map_ext_in. intros c Hcin. rewrite Forall_forall in Tc.
      rewrite encode_decode_strand_inv by (apply Tc; exact Hcin). reflexivity.
    + intros a b0 Ha Hb. destruct (base_row_cell f t _ a A Hc Ha) as [xa [Ia Ea]].
      destruct (base_row_cell f t _ b0 A Hc Hb) as [xb [Ib Eb]].
      simpl in Ia, Ib. apply in_map_iff in Ia. apply in_map_iff in Ib.
      destruct Ia as [za [<- Za]]. destruct Ib as [zb [<- Zb]].
      rewrite Forall_forall in Tc.
      unfold row_leb, skey. rewrite !key_of_erase, Ea, Eb. cbn [erase erase_b cell_leb bcell_leb].
      rewrite lex_leb_single.
      rewrite !encode_decode_strand_inv by (apply Tc; assumption).
      apply decode_strand_mono; apply Tc; assumption.
Qed.

(* ====================================================================== todict / from_dict round trip *)
Lemma zlist_eqb_refl a : zlist_eqb a a = true.
Proof. unfold zlist_eqb. induction a as [|x a IH]; [reflexivity|]. simpl. rewrite Z.eqb_refl. exact IH. Qed.
Lemma zlist_eqb_eq a b : zlist_eqb a b = true -> a = b.
Proof.
  unfold zlist_eqb. revert b. induction a as [|x a IH]; intros [|y b] H; simpl in H; try discriminate; [reflexivity|].
  apply andb_prop in H. destruct H as [H1 H2]. apply Z.eqb_eq in H1. subst. f_equal. apply IH. exact H2.
Qed.
Lemma zlist_eqb_neq a b : a <> b -> zlist_eqb a b = false.
Proof. intros H. destruct (zlist_eqb a b) eqn:E; [|reflexivity]. apply zlist_eqb_eq in E. congruence. Qed.

Lemma lookup_app name D1 D2 :
  lookup name (D1 ++ D2) = match lookup name D1 with Some v => Some v | None => lookup name D2 end.
Proof. induction D1 as [|[n v] D1 IH]; [reflexivity|]. simpl. destruct (zlist_eqb n name); [reflexivity|exact IH]. Qed.
Lemma sub_dict_app name D1 D2 : sub_dict name (D1 ++ D2) = sub_dict name D1 ++ sub_dict name D2.
Proof. unfold sub_dict. apply flat_map_app. Qed.

(* what a typed column becomes in the dictionary is converted back to a column with the same values *)
Lemma rebuild_dval k b :
  bcol_typed k b ->
  exists c, bcol_of_dval k (dval_of b) = Some c /\ bcol_typed k c /\ ecells c = ecells b /\ bcol_len c = bcol_len b.
Proof.
  intros H.
  assert (VIA : forall ss, dval_of b = VStrs ss -> bcol_cells b = map MS ss ->
            exists c, bcol_of_dval k (dval_of b) = Some c /\ bcol_typed k c /\ ecells c = ecells b /\ bcol_len c = bcol_len b).
  { intros ss E1 E2. rewrite E1. simpl. rewrite <- E2. apply rebuild_bcol. exact H. }
  destruct k, b as [d v|[| |d] x l|w m|v]; simpl in H; try contradiction;
    try (eexists; split; [reflexivity|]; repeat split; assumption).
  - apply (VIA (rag_rows x l)); reflexivity.
  - apply (VIA (map strip_nul m)); [reflexivity|]. simpl. rewrite map_map. reflexivity.
  - (* KList *)
    destruct H as [W N]. simpl.
    set (d' := match concat (rag_rows x l) with [] => list_empty_dt | _ => d end).
    exists (rag_of_rows (RNum d') (rag_rows x l)). split; [reflexivity|].
    split; [split|split].
    + apply rag_wf_of_rows.
    + unfold d'. destruct (concat (rag_rows x l)) as [|z zs] eqn:Ec.
      * destruct list_empty_dt; simpl; constructor.
      * rewrite <- Ec. destruct d; simpl in *; try exact I; apply Forall_concat; apply Forall_rag_rows; exact N.
    + unfold ecells, rag_of_rows. simpl. rewrite rag_rows_of_rows, !map_map. reflexivity.
    + simpl. rewrite map_length. apply rag_rows_length.
  - apply (VIA (map (map (decode dna_alphabet)) (rag_rows x l))); [reflexivity|]. simpl. rewrite map_map. reflexivity.
  - apply (VIA (map (fun c => [decode strand_alphabet c]) v)); [reflexivity|]. simpl. rewrite map_map. reflexivity.
Qed.

(* the dictionary block one field contributes *)
Definition dict_block (p : (list Z * fk) * col) : list (list Z * dval) :=
  match snd (fst p), snd p with
  | FN ks, CNest cs => map (fun q => (m_dict_join (fst (fst p)) (fst (fst q)), dval_of (snd q))) (combine ks cs)
  | _, CBase b => [(fst (fst p), dval_of b)]
  | _, _ => []
  end.
Lemma m_todict_blocks sch t : m_todict sch t = flat_map dict_block (combine sch t).
Proof. reflexivity. Qed.

Lemma join_has_dot name sub : In dot (m_dict_join name sub).
Proof. unfold m_dict_join. apply in_or_app. right. left. reflexivity. Qed.

Lemma block_other name p :
  fst (fst p) <> name -> ~ In dot name -> ~ In dot (fst (fst p)) ->
  lookup name (dict_block p) = None /\ sub_dict name (dict_block p) = [].
Proof.
  destruct p as [[n fd] c]. simpl. intros Hn Hd Hd'. unfold dict_block. simpl.
  destruct fd as [k|ks], c as [b|cs]; simpl; try (split; reflexivity).
  - rewrite (zlist_eqb_neq n name Hn). rewrite (split_dot_nodot n Hd'). split; reflexivity.
  - rewrite (zlist_eqb_neq n name Hn). rewrite (split_dot_nodot n Hd'). split; reflexivity.
  - generalize (combine ks cs). intros qs. induction qs as [|q qs [I1 I2]]; [split; reflexivity|]. simpl. split.
    + rewrite zlist_eqb_neq; [exact I1|]. intros E. apply Hd. rewrite <- E. apply join_has_dot.
    + unfold sub_dict in *. simpl. unfold m_dict_join at 1. rewrite (split_dot_join n _ Hd').
      rewrite (zlist_eqb_neq n name Hn). simpl. exact I2.
Qed.

Definition names_ok (sch : schema) : Prop :=
  NoDup (map fst sch) /\ Forall (fun f => ~ In dot (fst f)) sch
  /\ Forall (fun f => match snd f with FN ks => NoDup (map fst ks) | _ => True end) sch.

Lemma blocks_other name ps :
  ~ In dot name -> Forall (fun p : (list Z * fk) * col => fst (fst p) <> name /\ ~ In dot (fst (fst p))) ps ->
  lookup name (flat_map dict_block ps) = None /\ sub_dict name (flat_map dict_block ps) = [].
Proof.
  intros Hd H. induction H as [|p ps [H1 H2] _ [I1 I2]]; [split; reflexivity|].
  simpl. rewrite lookup_app, sub_dict_app. destruct (block_other name p H1 Hd H2) as [B1 B2].
  rewrite B1, B2, I1, I2. split; reflexivity.
Qed.

Lemma lookup_not_in name (D : list (list Z * dval)) : ~ In name (map fst D) -> lookup name D = None.
Proof.
  induction D as [|[n v] D IH]; intros H; [reflexivity|]. simpl in *.
  rewrite zlist_eqb_neq by (intros E; apply H; left; exact E). apply IH. intros Hin. apply H. right. exact Hin.
Qed.

Definition sub_entries (ks : list (list Z * kind)) (cs : list bcol) : list (list Z * dval) :=
  map (fun q => (fst (fst q), dval_of (snd q))) (combine ks cs).

Lemma sub_lookup pre ks cs n :
  NoDup (map fst ks) -> (forall kk, In kk ks -> ~ In (fst kk) (map fst pre)) ->
  Forall2 (fun kk b => bcol_typed (snd kk) b) ks cs -> Forall (fun c => bcol_len c = n) cs ->
  exists cs', map_opt (fun kk : list Z * kind =>
                 match lookup (fst kk) (pre ++ sub_entries ks cs) with Some v => bcol_of_dval (snd kk) v | None => None end) ks
              = Some cs'
    /\ Forall2 (fun kk b => bcol_typed (snd kk) b) ks cs' /\ map ecells cs' = map ecells cs
    /\ Forall (fun c => bcol_len c = n) cs'.
Proof.
  intros Hnd Hpre H. revert pre Hnd Hpre. induction H as [|kk b ks cs Hb _ IH]; intros pre Hnd Hpre Hl.
  - exists []. repeat split; constructor.
  - inversion Hl as [|b0 cs0 L1 L2]; subst b0 cs0. simpl in Hnd. inversion Hnd as [|n0 l0 Hnot Hnd']; subst n0 l0.
    destruct (rebuild_dval _ _ Hb) as [c [Ec [Tc [Mc Lc]]]].
    destruct (IH (pre ++ [(fst kk, dval_of b)]) Hnd') as [cs' [E [T [M L]]]].
    { intros kk' Hin. rewrite map_app, in_app_iff. simpl. intros [H1|[H1|[]]].
      - eapply Hpre; [right; exact Hin|exact H1].
      - apply Hnot. rewrite H1. apply in_map. exact Hin. }
    { exact L2. }
    exists (c :: cs').
    assert (Eapp : pre ++ sub_entries (kk :: ks) (b :: cs) = (pre ++ [(fst kk, dval_of b)]) ++ sub_entries ks cs)
      by (unfold sub_entries; simpl; rewrite <- app_assoc; reflexivity).
    rewrite Eapp. cbn [map_opt].
    rewrite !lookup_app, (lookup_not_in (fst kk) pre) by (apply Hpre; left; reflexivity).
    cbn [lookup]. rewrite zlist_eqb_refl, Ec.
    rewrite E. repeat split.
    + constructor; assumption.
    + simpl. rewrite Mc, M. reflexivity.
    + constructor; [rewrite Lc; exact L1|exact L].
Qed.

Definition from_dict_field (d : list (list Z * dval)) (f : list Z * fk) : option col :=
  match snd f with
  | FB k => match lookup (fst f) d with Some v => match bcol_of_dval k v with Some c => Some (CBase c) | None => None end | None => None end
  | FN ks =>
      let sd := sub_dict (fst f) d in
      match map_opt (fun kk => match lookup (fst kk) sd with Some v => bcol_of_dval (snd kk) v | None => None end) ks with
      | Some cs => match cs with [] => None | c :: _ => if aligned_b (bcol_len c) cs then Some (CNest cs) else None end
      | None => None
      end
  end.
Lemma m_from_dict_fields sch d :
  m_from_dict sch d = match map_opt (from_dict_field d) sch with Some t => check_aligned t | None => None end.
Proof. reflexivity. Qed.

Lemma own_block_nested name ks cs :
  ~ In dot name ->
  sub_dict name (dict_block ((name, FN ks), CNest cs)) = sub_entries ks cs.
Proof.
  intros Hd. unfold dict_block, sub_entries. simpl.
  transitivity (sub_dict name (map (fun e : list Z * dval => (name ++ [dot] ++ fst e, snd e))
                  (map (fun q : (list Z * kind) * bcol => (fst (fst q), dval_of (snd q))) (combine ks cs)))).
  - f_equal. rewrite map_map. reflexivity.
  - apply sub_dict_of_todict. exact Hd.
Qed.

Lemma field_from_dict ps1 ps2 f c n :
  ~ In dot (fst f) ->
  Forall (fun p : (list Z * fk) * col => fst (fst p) <> fst f /\ ~ In dot (fst (fst p))) ps1 ->
  Forall (fun p : (list Z * fk) * col => fst (fst p) <> fst f /\ ~ In dot (fst (fst p))) ps2 ->
  match snd f with FN ks => NoDup (map fst ks) | _ => True end ->
  col_typed (snd f) c -> col_aligned n c = true ->
  exists c', from_dict_field (flat_map dict_block (ps1 ++ (f, c) :: ps2)) f = Some c'
    /\ col_typed (snd f) c' /\ ecol c' = ecol c /\ col_aligned n c' = true.
Proof.
  intros Hd H1 H2 Hnd Hc Hl. destruct f as [name fd]. simpl in *.
  destruct (blocks_other name ps1 Hd H1) as [A1 A2]. destruct (blocks_other name ps2 Hd H2) as [B1 B2].
  unfold from_dict_field. simpl.
  rewrite flat_map_app. simpl flat_map.
  destruct fd as [k|ks], c as [b|cs]; simpl in Hc; try contradiction.
  - rewrite !lookup_app, A1. unfold dict_block at 1. simpl. rewrite zlist_eqb_refl.
    destruct (rebuild_dval _ _ Hc) as [c [Ec [Tc [Mc Lc]]]]. rewrite Ec.
    exists (CBase c). repeat split; [exact Tc|rewrite !ecol_base, Mc; reflexivity|simpl in *; rewrite Lc; exact Hl].
  - destruct Hc as [Hks Hc]. rewrite !sub_dict_app, A2, B2, own_block_nested, app_nil_r by exact Hd. simpl app.
    apply andb_prop in Hl. destruct Hl as [_ Hl]. apply aligned_b_Forall in Hl.
    destruct (sub_lookup [] ks cs n Hnd ltac:(intros ? ? []) Hc Hl) as [cs' [E [T [M L]]]]. simpl in E. rewrite E.
    destruct cs' as [|c0 cs']; [inversion T; subst; congruence|].
    assert (Al : aligned_b (bcol_len c0) (c0 :: cs') = true).
    { apply aligned_b_Forall. inversion L as [|c0' cs0' L0 LL]; subst c0' cs0'. rewrite L0. exact L. }
    rewrite Al. exists (CNest (c0 :: cs')). repeat split; [exact Hks|exact T|rewrite !ecol_nest, M; reflexivity|].
    apply andb_true_intro. split; [reflexivity|]. apply aligned_b_Forall. exact L.
Qed.

Lemma fields_from_dict n sch2 t2 :
  Forall2 (fun f c => col_typed (snd f) c) sch2 t2 ->
  forall ps1,
  NoDup (map (fun p : (list Z * fk) * col => fst (fst p)) ps1 ++ map fst sch2) ->
  Forall (fun p : (list Z * fk) * col => ~ In dot (fst (fst p))) ps1 ->
  Forall (fun f : list Z * fk => ~ In dot (fst f)) sch2 ->
  Forall (fun f : list Z * fk => match snd f with FN ks => NoDup (map fst ks) | _ => True end) sch2 ->
  Forall (fun c => col_aligned n c = true) t2 ->
  exists t2', map_opt (from_dict_field (flat_map dict_block (ps1 ++ combine sch2 t2))) sch2 = Some t2'
    /\ Forall2 (fun f c => col_typed (snd f) c) sch2 t2' /\ map ecol t2' = map ecol t2
    /\ Forall (fun c => col_aligned n c = true) t2'.
Proof.
  intros H. induction H as [|f c sch2 t2 Hc HT IH]; intros ps1 Hnd Hd1 Hd2 Hsub Hal.
  - exists []. repeat split; constructor.
  - simpl in Hnd. inversion Hd2 as [|? ? Df Hd2']; inversion Hsub as [|? ? Sf Hsub']; inversion Hal as [|? ? Lc Hal']; subst.
    assert (Hnot := NoDup_remove_2 _ _ _ Hnd). assert (Hnd' := NoDup_remove_1 _ _ _ Hnd).
    assert (O1 : Forall (fun p : (list Z * fk) * col => fst (fst p) <> fst f /\ ~ In dot (fst (fst p))) ps1).
    { apply Forall_forall. intros p Hp. split; [|rewrite Forall_forall in Hd1; apply Hd1; exact Hp].
      intros E. apply Hnot. apply in_or_app. left. rewrite <- E. apply (in_map (fun p => fst (fst p))). exact Hp. }
    assert (O2 : Forall (fun p : (list Z * fk) * col => fst (fst p) <> fst f /\ ~ In dot (fst (fst p))) (combine sch2 t2)).
    { apply Forall_forall. intros [f' c'] Hp. apply in_combine_l in Hp. simpl. split.
      - intros E. apply Hnot. apply in_or_app. right. rewrite <- E. apply in_map. exact Hp.
      - rewrite Forall_forall in Hd2'. apply Hd2'. exact Hp. }
    destruct (field_from_dict ps1 (combine sch2 t2) f c n Df O1 O2 Sf Hc Lc) as [c' [E [Tc [Mc Lc']]]].
    destruct (IH (ps1 ++ [(f, c)])) as [t2' [E' [T' [M' L']]]]; try assumption.
    { rewrite map_app, <- app_assoc. simpl. exact Hnd. }
    { apply Forall_app. split; [exact Hd1|constructor; [exact Df|constructor]]. }
    exists (c' :: t2'). simpl combine.
    replace (ps1 ++ (f, c) :: combine sch2 t2) with ((ps1 ++ [(f, c)]) ++ combine sch2 t2) in E
      by (rewrite <- app_assoc; reflexivity).
    replace (ps1 ++ (f, c) :: combine sch2 t2) with ((ps1 ++ [(f, c)]) ++ combine sch2 t2)
      by (rewrite <- app_assoc; reflexivity).
    simpl. rewrite E, E'. repeat split.
    + constructor; assumption.
    + simpl. rewrite Mc, M'. reflexivity.
    + constructor; assumption.
Qed.

(* from_dict(todict t) = t at the level of values: every field, nested tables included, for field names without
   '.' that are pairwise different (dataclass fields always are) *)
Theorem dict_roundtrip sch t :
  Inv sch t -> names_ok sch ->
  exists t', m_from_dict sch (m_todict sch t) = Some t' /\ Inv sch t'
    /\ erase_rows (m_to_rows t') = erase_rows (m_to_rows t).
Proof.
  intros [[Hs T] A] [N1 [N2 N3]]. assert (Al := A). apply aligned_Forall in Al.
  destruct (fields_from_dict (m_len t) sch t T [] N1 ltac:(constructor) N2 N3 Al) as [t' [E [T' [M L]]]].
  simpl in E.
  assert (Ht' : t' <> []) by (intro; subst t'; inversion T'; subst; apply Hs; reflexivity).
  destruct (aligned_of_Forall _ _ Ht' L) as [A' _].
  exists t'. rewrite m_from_dict_fields, m_todict_blocks, E. unfold check_aligned. rewrite A'.
  repeat split; try assumption. rewrite !erase_rows_zip, M. reflexivity.
Qed.

(* ====================================================================== spec operations commute with erasing the python types *)
Lemma s_index_map {A B} (g : A -> B) l i : s_index (map g l) i = option_map g (s_index l i).
Proof.
  unfold s_index, len. rewrite map_length. destruct (norm_index _ i); [|reflexivity].
  rewrite nth_error_map. reflexivity.
Qed.
Lemma s_take_map {A B} (g : A -> B) l ix : s_take (map g l) ix = option_map (map g) (s_take l ix).
Proof.
  induction ix as [|i ix IH]; [reflexivity|]. simpl. rewrite s_index_map, IH.
  destruct (s_index l i); simpl; [|reflexivity]. destruct (s_take l ix); reflexivity.
Qed.
Lemma mask_select_map {A B} (g : A -> B) m l : mask_select m (map g l) = map g (mask_select m l).
Proof.
  revert l. induction m as [|b m IH]; intros [|x l]; simpl; try reflexivity.
  rewrite IH, map_app. destruct b; reflexivity.
Qed.
Lemma s_mask_map {A B} (g : A -> B) l m : s_mask (map g l) m = option_map (map g) (s_mask l m).
Proof. unfold s_mask. rewrite map_length. destruct (_ || _); [|reflexivity]. simpl. rewrite mask_select_map. reflexivity. Qed.
Lemma s_slice_map {A B} (g : A -> B) l a b st : s_slice (map g l) a b st = option_map (map g) (s_slice l a b st).
Proof. unfold s_slice. destruct (st =? 0); [reflexivity|]. unfold len. rewrite map_length. apply s_take_map. Qed.

(* ====================================================================== replace / add_fields: exact *)
Lemma set_nth_same {A} f (x : A) l l' : set_nth f x l = Some l' -> nth_error l' f = Some x.
Proof.
  revert l l'. induction f as [|f IH]; intros [|y l] l' H; simpl in H; try discriminate.
  - injection H as <-. reflexivity.
  - destruct (set_nth f x l) eqn:E; [|discriminate]. injection H as <-. simpl. eapply IH. exact E.
Qed.
Lemma set_nth_other {A} f g (x : A) l l' : set_nth f x l = Some l' -> g <> f -> nth_error l' g = nth_error l g.
Proof.
  revert g l l'. induction f as [|f IH]; intros g [|y l] l' H Hg; simpl in H; try discriminate.
  - injection H as <-. destruct g; [congruence|reflexivity].
  - destruct (set_nth f x l) eqn:E; [|discriminate]. injection H as <-. destruct g; [reflexivity|]. simpl.
    eapply IH; [exact E|congruence].
Qed.
Lemma set_nth_total {A} f (x : A) l : (f < length l)%nat -> exists l', set_nth f x l = Some l'.
Proof.
  revert l. induction f as [|f IH]; intros [|y l] H; simpl in *; try lia; [eexists; reflexivity|].
  destruct (IH l ltac:(lia)) as [l' E]. rewrite E. eexists; reflexivity.
Qed.
Lemma set_nth_Forall {A} (P : A -> Prop) f x l l' : set_nth f x l = Some l' -> P x -> Forall P l -> Forall P l'.
Proof.
  revert l l'. induction f as [|f IH]; intros [|y l] l' H Hx Hl; simpl in H; try discriminate.
  - injection H as <-. inversion Hl; subst. constructor; assumption.
  - destruct (set_nth f x l) eqn:E; [|discriminate]. injection H as <-. inversion Hl; subst.
    constructor; [assumption|]. eapply IH; eassumption.
Qed.
Lemma set_nth_Forall2 {A B} (P : A -> B -> Prop) f a x l1 l l' :
  set_nth f x l = Some l' -> nth_error l1 f = Some a -> P a x -> Forall2 P l1 l -> Forall2 P l1 l'.
Proof.
  intros H Ha Hx HF. revert f l' H Ha. induction HF as [|a0 y l1 l Hay HF IH]; intros f l' H Ha; [destruct f; discriminate|].
  destruct f as [|f]; simpl in *.
  - injection H as <-. injection Ha as ->. constructor; assumption.
  - destruct (set_nth f x l) eqn:E; [|discriminate]. injection H as <-. constructor; [assumption|].
    eapply IH; [exact E|exact Ha].
Qed.
Lemma map2o_length_none {A B C} (f : A -> B -> option C) a b : length a <> length b -> map2o f a b = None.
Proof.
  revert b. induction a as [|x a IH]; intros [|y b] H; simpl in *; try congruence.
  rewrite IH by lia. destruct (f x y); reflexivity.
Qed.

Lemma aligned_set_nth f c' t t0 :
  aligned t = true -> set_nth f c' t = Some t0 -> col_aligned (m_len t) c' = true -> aligned t0 = true /\ m_len t0 = m_len t.
Proof.
  intros A H Hc. apply aligned_Forall in A.
  assert (F0 : Forall (fun c => col_aligned (m_len t) c = true) t0) by (eapply set_nth_Forall; eassumption).
  assert (Ht0 : t0 <> []) by (destruct f, t; simpl in H; try discriminate; [injection H as <-; congruence|
    destruct (set_nth f c' t); [injection H as <-; congruence|discriminate]]).
  apply aligned_of_Forall; assumption.
Qed.

(* acceptable constructor arguments (stronger than the boolean arg_ok only in asking for integers below 2^53) *)
Definition arg_nice (f : fk) (a : colarg) : Prop :=
  match f, a with
  | FB k, ABase l => Forall (mb_nice k) l
  | FN ks, ANest cols => ks <> [] /\ Forall2 (fun kk col => Forall (mb_nice (snd kk)) col) ks cols
                         /\ Forall (fun c => length c = length (hd [] cols)) cols
  | _, _ => False
  end.
Lemma mb_nice_ok_forallb k l : Forall (mb_nice k) l -> forallb (mb_ok k) l = true.
Proof. intros H. apply forallb_forall. intros b Hb. rewrite Forall_forall in H. apply H. exact Hb. Qed.
Lemma arg_nice_ok f a : arg_nice f a -> arg_ok f a = true.
Proof.
  destruct f as [k|ks], a as [l|cols|v|v]; simpl; try contradiction.
  - apply mb_nice_ok_forallb.
  - intros [Hks [H2 H3]]. rewrite (Forall2_length' _ _ _ H2), Nat.eqb_refl. simpl.
    assert (Hc : cols <> []) by (destruct H2; congruence).
    replace (is_nil cols) with false by (destruct cols; [congruence|reflexivity]). simpl.
    apply andb_true_intro. split.
    + clear H3 Hks Hc. induction H2 as [|kk col ks cols Hk _ IH]; [reflexivity|]. simpl.
      rewrite (mb_nice_ok_forallb _ _ Hk). exact IH.
    + apply forallb_forall. intros c Hc'. rewrite Forall_forall in H3. apply Nat.eqb_eq. apply H3. exact Hc'.
Qed.
Lemma arg_nice_good f a : arg_nice f a -> arg_good f a.
Proof.
  destruct f as [k|ks], a as [l|cols|v|v]; simpl; try contradiction.
  - intros H. eapply Forall_impl; [|exact H]. intros b. apply mb_nice_good.
  - intros [_ [H _]]. induction H as [|kk col ks cols Hk _ IH]; constructor; [|exact IH].
    eapply Forall_impl; [|exact Hk]. intros b. apply mb_nice_good.
Qed.

(* the constructor accepts an acceptable argument and builds a typed column with as many entries as the argument *)
Lemma col_of_arg_total f a :
  arg_nice f a -> exists c, col_of_arg f a = Some c /\ col_typed f c /\ col_aligned (length (arg_cells a)) c = true.
Proof.
  destruct f as [k|ks], a as [l|cols|v|v]; simpl; try contradiction.
  - intros H.
    assert (Hok : Forall (fun b => mb_ok k b = true) l) by (eapply Forall_impl; [|exact H]; intros b [X _]; exact X).
    assert (Hsm : Forall mb_small l) by (eapply Forall_impl; [|exact H]; intros b [_ X]; apply mb_fine_small; exact X).
    destruct (construct_total fix5_empty_dtype fix6_flat_cells k l Hok) as [c E]. unfold bcol_of_cells. rewrite E.
    exists (CBase c). split; [reflexivity|]. split; [eapply construct_typed; eassumption|].
    simpl. rewrite map_length. apply Nat.eqb_eq. exact (proj2 (column_roundtrip _ _ _ _ _ E Hok Hsm)).
  - intros [Hks [H2 H3]].
    set (n := length (hd [] cols)).
    assert (X : exists cs, map2o (fun (kk : list Z * kind) l => bcol_of_cells (snd kk) l) ks cols = Some cs
                /\ Forall2 (fun kk b => bcol_typed (snd kk) b) ks cs /\ Forall (fun c => bcol_len c = n) cs).
    { fold n in H3. clearbody n. clear Hks. induction H2 as [|kk col ks cols Hk _ IH]; [exists []; repeat split; constructor|].
      inversion H3 as [|? ? L1 L2]; subst. destruct (IH L2) as [cs [E [T L]]].
      assert (Hok : Forall (fun b => mb_ok (snd kk) b = true) col) by (eapply Forall_impl; [|exact Hk]; intros b [X _]; exact X).
      assert (Hsm : Forall mb_small col) by (eapply Forall_impl; [|exact Hk]; intros b [_ X]; apply mb_fine_small; exact X).
      destruct (construct_total fix5_empty_dtype fix6_flat_cells _ col Hok) as [c Ec].
      exists (c :: cs). simpl. unfold bcol_of_cells at 1. rewrite Ec, E. repeat split.
      - constructor; [eapply construct_typed; eassumption|exact T].
      - constructor; [exact (proj2 (column_roundtrip _ _ _ _ _ Ec Hok Hsm))|exact L]. }
    destruct X as [cs [E [T L]]]. rewrite E.
    destruct cs as [|c0 cs]; [inversion T; subst; congruence|].
    assert (Al : aligned_b (bcol_len c0) (c0 :: cs) = true).
    { apply aligned_b_Forall. inversion L as [|c0' cs0' L0 LL]; subst c0' cs0'. rewrite L0. exact L. }
    rewrite Al. exists (CNest (c0 :: cs)). split; [reflexivity|]. split; [split; assumption|].
    apply andb_true_intro. split; [reflexivity|]. apply aligned_b_Forall.
    rewrite map_length.
    assert (Hc : cols <> []) by (destruct H2; congruence).
    rewrite (zip_rows_length cols n Hc H3). exact L.
Qed.

Definition E (t : ctable) : table := erase_rows (m_to_rows t).
Lemma E_length t : aligned t = true -> length (E t) = m_len t.
Proof. intros A. unfold E, erase_rows. rewrite map_length. apply m_to_rows_length. exact A. Qed.
Lemma twf_length sch t : twf sch t -> length t = length sch.
Proof. intros [_ H]. symmetry. eapply Forall2_length'. exact H. Qed.

Definition replace_want (sch : schema) (f : nat) (a : colarg) (rows : table) : sres :=
  match sch with
  | [_] => STab (map (fun c => [erase c]) (arg_cells a))
  | _ => s_opt (s_replace f (map erase (arg_cells a)) rows)
  end.

Theorem replace_step sch f a t fd :
  Inv sch t -> nth_error sch f = Some fd -> arg_nice (snd fd) a ->
  match m_replace sch f a t with
  | Some t' => Inv sch t' /\ replace_want sch f a (E t) = STab (E t')
  | None => replace_want sch f a (E t) = SErr
  end.
Proof.
  intros [[Hs T] A] Hf Hn. assert (TT := T).
  destruct (col_of_arg_total _ _ Hn) as [c' [Ec [Tc Lc]]].
  assert (Hlen := twf_length sch t (conj Hs T)).
  assert (Hft : (f < length t)%nat) by (rewrite Hlen; apply nth_error_Some; congruence).
  destruct (set_nth_total f c' t Hft) as [t0 Es].
  assert (T0 : Forall2 (fun f c => col_typed (snd f) c) sch t0) by (eapply set_nth_Forall2; eassumption).
  assert (Hcells : ecol c' = map erase (arg_cells a)) by (eapply col_of_arg_cells; [apply arg_nice_good; exact Hn|exact Ec]).
  assert (Hn' : col_len c' = length (arg_cells a)) by (apply col_len_aligned; exact Lc).
  unfold m_replace. rewrite Hf, Ec, Es. unfold check_aligned.
  (* single field: the table is replaced wholesale *)
  destruct sch as [|f0 [|f1 sch']]; [congruence| |].
  - destruct t as [|c [|c1 t]]; simpl in Hlen; try discriminate.
    destruct f as [|f]; [|simpl in Hft; lia]. simpl in Es. injection Es as <-.
    assert (A0 : aligned [c'] = true).
    { apply aligned_Forall. simpl. constructor; [|constructor]. rewrite Hn'. exact Lc. }
    rewrite A0. split; [split; [split; [exact Hs|exact T0]|exact A0]|].
    unfold replace_want, E. rewrite erase_rows_zip. simpl. rewrite Hcells, !map_map. reflexivity.
  - destruct (Nat.eq_dec (length (arg_cells a)) (m_len t)) as [Heq|Hne].
    + rewrite Heq in Lc. destruct (aligned_set_nth f c' t t0 A Es Lc) as [A0 L0]. rewrite A0.
      split; [split; [split; [exact Hs|exact T0]|exact A0]|].
      unfold replace_want.
      assert (R := replace_rows (f0 :: f1 :: sch') f a t t0 fd A Hf (arg_nice_good _ _ Hn)).
      unfold m_replace in R. rewrite Hf, Ec, Es in R. unfold check_aligned in R. rewrite A0 in R.
      destruct (R eq_refl) as [_ R2]. unfold E. rewrite (R2 L0). reflexivity.
    + assert (A0 : aligned t0 = false).
      { destruct (aligned t0) eqn:A0; [|reflexivity]. exfalso.
        apply aligned_Forall in A0. rewrite Forall_forall in A0.
        set (g := match f with O => 1%nat | S _ => O end).
        assert (Hg : g <> f) by (destruct f; unfold g; lia).
        assert (Hgt : (g < length t)%nat) by (rewrite Hlen; destruct f; unfold g; simpl; lia).
        destruct (nth_error t g) as [c1|] eqn:E1; [|apply nth_error_None in E1; lia].
        assert (I1 : In c1 t0) by (eapply nth_error_In; rewrite (set_nth_other f g c' t t0 Es Hg); exact E1).
        assert (I2 : In c' t0) by (eapply nth_error_In; eapply set_nth_same; exact Es).
        apply aligned_Forall in A. rewrite Forall_forall in A.
        assert (Lc1 := col_len_aligned _ _ (A c1 (nth_error_In _ _ E1))).
        assert (X1 := col_len_aligned _ _ (A0 c1 I1)). assert (X2 := col_len_aligned _ _ (A0 c' I2)).
        apply Hne. rewrite <- Hn'. congruence. }
      rewrite A0. unfold replace_want, s_replace. rewrite map2o_length_none; [reflexivity|].
      rewrite map_length, E_length by exact A. exact Hne.
Qed.

Theorem add_step sch name k l t :
  Inv sch t -> Forall (mb_nice k) l ->
  match m_add_gen true k l t with
  | Some t' => Inv (sch ++ [(name, FB k)]) t' /\ s_add (map (fun b => CB (erase_b b)) l) (E t) = Some (E t')
  | None => s_add (map (fun b => CB (erase_b b)) l) (E t) = None
  end.
Proof.
  intros [[Hs T] A] Hn.
  assert (Hok : Forall (fun b => mb_ok k b = true) l) by (eapply Forall_impl; [|exact Hn]; intros b [X _]; exact X).
  assert (Hsm : Forall mb_small l) by (eapply Forall_impl; [|exact Hn]; intros b [_ X]; apply mb_fine_small; exact X).
  assert (Ht := twf_nonempty sch t (conj Hs T)).
  destruct (m_add_gen true k l t) as [t'|] eqn:Em.
  - destruct (add_rows true k l t t' Ht A Hok Hsm Em) as [A' R]. split; [|exact R].
    split; [|exact A']. unfold m_add_gen in Em. rewrite andb_false_r in Em.
    destruct (bcol_of_cells k l) as [c|] eqn:Ec; [|discriminate]. unfold check_aligned in Em.
    destruct (aligned (t ++ [CBase c])); [|discriminate]. injection Em as <-.
    split; [destruct sch; simpl; congruence|]. apply Forall2_app; [exact T|].
    constructor; [|constructor]. simpl. unfold bcol_of_cells in Ec. eapply construct_typed; eassumption.
  - unfold s_add. apply map2o_length_none. rewrite map_length, E_length by exact A.
    intros Heq. unfold m_add_gen in Em. rewrite andb_false_r in Em.
    destruct (construct_total fix5_empty_dtype fix6_flat_cells k l Hok) as [c Ec].
    unfold bcol_of_cells in Em. rewrite Ec in Em. unfold check_aligned in Em.
    assert (Al : aligned (t ++ [CBase c]) = true).
    { apply aligned_Forall. assert (L : m_len (t ++ [CBase c]) = m_len t) by (destruct t; [congruence|reflexivity]).
      rewrite L. apply Forall_app. split; [apply aligned_Forall; exact A|]. constructor; [|constructor].
      simpl. apply Nat.eqb_eq. rewrite (proj2 (column_roundtrip _ _ _ _ _ Ec Hok Hsm)). exact Heq. }
    rewrite Al in Em. discriminate.
Qed.

(* ====================================================================== one step of any program: the model refines the spec *)
Definition op_good (sch sch1 : schema) (o : op) : Prop :=
  match o with
  | OCatR | OCatL | OCat3 => sch1 = sch
  | OReplace f a => match nth_error sch f with Some fd => arg_nice (snd fd) a | None => True end
  | OAdd _ k l => Forall (mb_nice k) l
  | ODict | OPandas => names_ok sch
  | OAddT1 s1 _ k l => s1 = sch1 /\ Forall (mb_nice k) l
  | _ => True
  end.
(* what the specification demands (s_step) against what the model does (m_step); exact: a table where a table is
   demanded with exactly the demanded rows (for sort_by: the stable sort), an error exactly where one is demanded *)
Definition sres_ok (want : sres) (m : mres) : Prop :=
  match want, m with
  | STab r, MTab _ t' => E t' = r
  | SSorted f r, MTab _ t' => E t' = s_sort_by f r
  | SRows r, MRows rs => erase_rows rs = r
  | SErr, MErr => True
  | SAny, _ => True
  | _, _ => False
  end.
Definition mres_inv (m : mres) : Prop := match m with MTab sch' t' => Inv sch' t' | _ => True end.

Lemma m_sort_by_gen_select fx f t t' : m_sort_by_gen fx f t = Some t' -> exists ix, t' = m_select ix t.
Proof.
  unfold m_sort_by_gen. destruct (nth_error t f) as [c|]; [|discriminate]. destruct (sort_key_pinned c).
  - intros H. injection H as <-. eauto.
  - destruct (negb fx); [discriminate|]. destruct c as [b|]; [|discriminate]. destruct (str_keys b); [|discriminate].
    intros H. injection H as <-. eauto.
Qed.

Theorem step_refines sch sch1 cur t1 o :
  Inv sch cur -> Inv sch1 t1 -> op_good sch sch1 o ->
  sres_ok (s_step sch (E cur) (E t1) o) (m_step sch cur t1 o) /\ mres_inv (m_step sch cur t1 o).
Proof.
  intros HI HI1 Hg. assert (A := proj2 HI). assert (A1 := proj2 HI1).
  destruct o; simpl in Hg |- *.
  - (* take *)
    unfold E at 1, erase_rows. rewrite s_take_map. assert (R := take_refines ix cur A).
    destruct (take_indices (Z.of_nat (m_len cur)) ix) as [k|]; rewrite R; simpl;
      [split; [reflexivity|apply Inv_select; exact HI]|split; exact I].
  - (* mask *)
    unfold E at 1, erase_rows. rewrite s_mask_map. assert (R := mask_refines m cur A).
    destruct (mask_indices (m_len cur) m) as [k|]; rewrite R; simpl;
      [split; [reflexivity|apply Inv_select; exact HI]|split; exact I].
  - (* slice *)
    unfold E at 1, erase_rows. rewrite s_slice_map. destruct (st =? 0) eqn:Est.
    + unfold s_slice. rewrite Est. simpl. split; exact I.
    + assert (R := slice_refines a b st cur A ltac:(apply Z.eqb_neq; exact Est)).
      destruct (take_indices (Z.of_nat (m_len cur)) _) as [k|]; rewrite R; simpl;
        [split; [reflexivity|apply Inv_select; exact HI]|split; exact I].
  - (* catr *)
    subst sch1. destruct (cat_total sch cur t1 HI HI1) as [t [Ec It]]. rewrite Ec. simpl.
    destruct (cat_rows_partial cur t1 t Ec A A1 (twf_wf _ _ (proj1 HI)) (twf_wf _ _ (proj1 HI1))) as [_ R].
    split; [exact R|exact It].
  - (* catl *)
    subst sch1. destruct (cat_total sch t1 cur HI1 HI) as [t [Ec It]]. rewrite Ec. simpl.
    destruct (cat_rows_partial t1 cur t Ec A1 A (twf_wf _ _ (proj1 HI1)) (twf_wf _ _ (proj1 HI))) as [_ R].
    split; [exact R|exact It].
  - (* cat self *)
    destruct (cat_total sch cur cur HI HI) as [t [Ec It]]. rewrite Ec. simpl.
    destruct (cat_rows_partial cur cur t Ec A A (twf_wf _ _ (proj1 HI)) (twf_wf _ _ (proj1 HI))) as [_ R].
    split; [exact R|exact It].
  - (* cat3 *)
    subst sch1. destruct (cat_total sch cur t1 HI HI1) as [x [Ex Ix]]. rewrite Ex.
    destruct (cat_total sch x cur Ix HI) as [y [Ey Iy]]. rewrite Ey. simpl.
    destruct (cat_rows_partial cur t1 x Ex A A1 (twf_wf _ _ (proj1 HI)) (twf_wf _ _ (proj1 HI1))) as [_ R1].
    destruct (cat_rows_partial x cur y Ey (proj2 Ix) A (twf_wf _ _ (proj1 Ix)) (twf_wf _ _ (proj1 HI))) as [_ R2].
    split; [|exact Iy]. unfold E in *. rewrite R2, R1, app_assoc. reflexivity.
  - (* sort *)
    unfold m_sort_by, fix4_sort_strings. unfold sortable.
    destruct (nth_error sch f) as [[name [k|ks]]|] eqn:Ef.
    + destruct k; try (destruct (sort_step sch f cur name _ HI Ef ltac:(discriminate)) as [t' [Es [It R]]];
                        rewrite Es; simpl; split; [exact R|exact It]).
      destruct (m_sort_by_gen true f cur) as [t'|] eqn:Es; simpl; [|split; exact I].
      split; [exact I|]. destruct (m_sort_by_gen_select _ _ _ _ Es) as [ix ->]. apply Inv_select. exact HI.
    + destruct (m_sort_by_gen true f cur) as [t'|] eqn:Es; simpl; [|split; exact I].
      split; [exact I|]. destruct (m_sort_by_gen_select _ _ _ _ Es) as [ix ->]. apply Inv_select. exact HI.
    + destruct (m_sort_by_gen true f cur) as [t'|] eqn:Es; simpl; [|split; exact I].
      split; [exact I|]. destruct (m_sort_by_gen_select _ _ _ _ Es) as [ix ->]. apply Inv_select. exact HI.
  - (* replace *)
    destruct (nth_error sch f) as [fd|] eqn:Ef.
    + rewrite (arg_nice_ok _ _ Hg). assert (R := replace_step sch f a cur fd HI Ef Hg).
      change (match sch with
              | [_] => STab (map (fun c : mcell => [erase c]) (arg_cells a))
              | _ => s_opt (s_replace f (map erase (arg_cells a)) (E cur))
              end) with (replace_want sch f a (E cur)).
      destruct (m_replace sch f a cur) as [t'|]; simpl.
      * destruct R as [It R]. rewrite R. simpl. split; [reflexivity|exact It].
      * rewrite R. simpl. split; exact I.
    + unfold m_replace. rewrite Ef. simpl. split; exact I.
  - (* add *)
    rewrite (mb_nice_ok_forallb _ _ Hg). unfold m_add, fix3_add_empty.
    assert (R := add_step sch name k l cur HI Hg).
    destruct (m_add_gen true k l cur) as [t'|]; simpl.
    + destruct R as [It R]. rewrite R. simpl. split; [reflexivity|exact It].
    + rewrite R. simpl. split; exact I.
  - (* rows *)
    unfold m_from_rows, m_from_rows_gen, fix1_from_rows_empty, fix2_from_rows_nested.
    destruct (m_len cur) as [|n] eqn:En.
    + rewrite (rows_of_empty cur A En).
      destruct (empty_table fix5_empty_dtype sch cur (proj1 HI)) as [t' [Ee [It L]]]. rewrite Ee. simpl.
      split; [|exact It]. unfold E. rewrite (rows_of_empty cur A En), (rows_of_empty t' (proj2 It) L). reflexivity.
    + destruct (rebuild_from_rows sch cur HI ltac:(lia)) as [t' [Er [It [R Hne]]]].
      destruct (m_to_rows cur) as [|r rs] eqn:Erows; [congruence|].
      rewrite andb_false_r. rewrite Er. simpl. split; [unfold E; rewrite Erows; exact R|exact It].
  - (* dict *)
    destruct (dict_roundtrip sch cur HI Hg) as [t' [Ed [It R]]]. rewrite Ed. simpl. split; [exact R|exact It].
  - (* pandas: the same dictionary (modelling assumption on DataFrame) *)
    destruct (dict_roundtrip sch cur HI Hg) as [t' [Ed [It R]]]. rewrite Ed. simpl. split; [exact R|exact It].
  - (* index *)
    unfold E at 1, erase_rows. rewrite s_index_map. destruct (s_index (m_to_rows cur) i); simpl; split; try exact I. reflexivity.
  - (* iter *)
    split; [reflexivity|exact I].
  - (* add_fields on the other operand *)
    destruct Hg as [-> Hg]. rewrite (mb_nice_ok_forallb _ _ Hg). unfold m_add, fix3_add_empty.
    assert (R := add_step sch1 name k l t1 HI1 Hg).
    destruct (m_add_gen true k l t1) as [t'|]; simpl.
    + destruct R as [It R]. rewrite R. simpl. split; [reflexivity|exact It].
    + rewrite R. simpl. split; exact I.
Qed.

(* ====================================================================== whole programs *)
Fixpoint run_good (sch sch1 : schema) (cur t1 : ctable) (p : list op) : Prop :=
  match p with
  | [] => True
  | o :: r => op_good sch sch1 o /\
              match m_step sch cur t1 o with
              | MTab sch' t' => run_good sch' sch1 t' t1 r
              | _ => run_good sch sch1 cur t1 r
              end
  end.
Fixpoint run_refines (sch : schema) (cur t1 : ctable) (p : list op) : Prop :=
  match p with
  | [] => True
  | o :: r => sres_ok (s_step sch (E cur) (E t1) o) (m_step sch cur t1 o) /\
              match m_step sch cur t1 o with
              | MTab sch' t' => Inv sch' t' /\ run_refines sch' t' t1 r
              | _ => run_refines sch cur t1 r
              end
  end.

Theorem program_refines p : forall sch sch1 cur t1,
  Inv sch cur -> Inv sch1 t1 -> run_good sch sch1 cur t1 p -> run_refines sch cur t1 p.
Proof.
  induction p as [|o p IH]; intros sch sch1 cur t1 HI HI1 Hg; [exact I|].
  destruct Hg as [Hg Hr]. simpl.
  destruct (step_refines sch sch1 cur t1 o HI HI1 Hg) as [S1 S2]. split; [exact S1|].
  destruct (m_step sch cur t1 o) as [sch' t'| |] eqn:Es.
  - split; [exact S2|]. apply (IH sch' sch1); assumption.
  - apply (IH sch sch1); assumption.
  - apply (IH sch sch1); assumption.
Qed.

(* ====================================================================== construction *)
Lemma zip_rows_empty_cols {A} (ls : list (list A)) : ls <> [] -> Forall (fun l => length l = O) ls -> zip_rows ls = [].
Proof.
  intros Hne H. assert (L := zip_rows_length ls O Hne H). destruct (zip_rows ls); [reflexivity|discriminate].
Qed.

Definition args_nice (sch : schema) (args : list colarg) : Prop := Forall2 (fun f a => arg_nice (snd f) a) sch args.

Theorem construct_refines sch args :
  sch <> [] -> args_nice sch args ->
  let same := forallb (fun a => Nat.eqb (length (arg_cells a)) (length (arg_cells (hd (ABase []) args)))) args in
  match m_construct sch args with
  | Some t => Inv sch t /\ same = true /\ E t = erase_rows (zip_rows (map arg_cells args))
  | None => same = false
  end.
Proof.
  intros Hs Hn same.
  assert (X : exists t0, map2o (fun (f : list Z * fk) a => col_of_arg (snd f) a) sch args = Some t0
              /\ Forall2 (fun f c => col_typed (snd f) c) sch t0
              /\ Forall2 (fun a c => col_aligned (length (arg_cells a)) c = true /\ ecol c = map erase (arg_cells a)) args t0).
  { clear Hs same. induction Hn as [|f a sch' args' Ha _ IH]; [exists []; repeat split; constructor|].
    destruct (col_of_arg_total _ _ Ha) as [c [Ec [Tc Lc]]].
    destruct IH as [t0 [E0 [T0 L0]]]. exists (c :: t0). simpl. rewrite Ec, E0.
    repeat split; constructor; try assumption. split; [exact Lc|].
    eapply col_of_arg_cells; [apply arg_nice_good; exact Ha|exact Ec]. }
  destruct X as [t0 [E0 [T0 L0]]]. unfold m_construct. rewrite E0. unfold check_aligned.
  assert (Ht0 : t0 <> []) by (intro; subst t0; inversion T0; subst; congruence).
  assert (Hargs : args <> []) by (intro; subst args; inversion L0; subst; congruence).
  destruct args as [|a0 args']; [congruence|]. destruct t0 as [|c0 t0']; [congruence|].
  inversion L0 as [|? ? ? ? [L00 M00] L0']; subst.
  set (n := length (arg_cells a0)) in *.
  assert (Hm : m_len (c0 :: t0') = n) by (simpl; apply col_len_aligned; exact L00).
  assert (Hrows : map ecol (c0 :: t0') = map (map erase) (map arg_cells (a0 :: args'))).
  { clear - L0. induction L0 as [|a c args t [_ M] _ IH]; [reflexivity|]. simpl. rewrite M, IH. reflexivity. }
  destruct (aligned (c0 :: t0')) eqn:Al.
  - split; [split; [split; assumption|exact Al]|]. split.
    + unfold same. simpl hd. apply forallb_forall. intros a Ha. apply Nat.eqb_eq.
      apply aligned_Forall in Al. rewrite Hm in Al.
      assert (F : Forall2 (fun a c => length (arg_cells a) = n) (a0 :: args') (c0 :: t0')).
      { clear - L0 Al. induction L0 as [|a c args t [L _] _ IH]; [constructor|]. inversion Al as [|? ? Ac Al']; subst.
        constructor; [|apply IH; exact Al'].
        rewrite <- (col_len_aligned _ _ L). apply col_len_aligned. exact Ac. }
      clear - F Ha. induction F as [|x y l1 l2 Hx _ IH]; [destruct Ha|]. destruct Ha as [<-|Ha]; [exact Hx|apply IH; exact Ha].
    + unfold E. rewrite erase_rows_zip, Hrows. unfold erase_rows, erase_row. apply zip_rows_map.
  - unfold same. simpl hd. destruct (forallb _ (a0 :: args')) eqn:Ef; [|reflexivity]. exfalso.
    rewrite forallb_forall in Ef.
    assert (Ef' : forall x, In x (a0 :: args') -> length (arg_cells x) = n)
      by (intros x Hx; apply Nat.eqb_eq; apply Ef; exact Hx).
    assert (Al' : aligned (c0 :: t0') = true); [|congruence].
    apply aligned_Forall. rewrite Hm. clear - L0 Ef'. clearbody n.
    induction L0 as [|a c args t [L _] _ IH]; [constructor|].
    constructor; [rewrite <- (Ef' a (or_introl eq_refl)); exact L|apply IH; intros x Hx; apply Ef'; right; exact Hx].
Qed.

(* Proofs/C04_session.v — named tables: expanding a reference to an earlier table is sound.  In the model a table is a
   value: running p on the table that q produced is running the expanded program from the source, so whatever is derived
   later cannot change an earlier table (the correspondence then exposes any aliasing in the implementation). *)
From Coq Require Import ZArith List Bool Lia.
From BNP Require Import Base.Prims Model.C04 Proofs.C04.
Import ListNotations.
Open Scope Z_scope.

Theorem run_subst f src q s : run f src q = Some s -> forall p, run f src (subst_src q p) = run f s p.
Proof.
  intros Hq p. induction p as [|sel p IH|ps IH|j txt p IH|p IH] using prog_ind'; simpl; auto.
  - rewrite IH. reflexivity.
  - rewrite map_map.
    assert (E : map (fun x => run f src (subst_src q x)) ps = map (run f s) ps) by (apply map_ext_Forall; exact IH).
    rewrite E. reflexivity.
  - rewrite IH. reflexivity.
  - rewrite IH. reflexivity.
Qed.

Theorem spec_eval_subst f src q p :
  spec_eval f src (subst_src q p)
  = (fst (spec_eval f (fst (spec_eval f src q)) p), snd (spec_eval f src q) && snd (spec_eval f (fst (spec_eval f src q)) p)).
Proof.
  induction p as [|sel p IH|ps IH|j txt p IH|p IH] using prog_ind'; simpl.
  - destruct (spec_eval f src q) as [r b]. simpl. rewrite andb_true_r. reflexivity.
  - rewrite IH. destruct (spec_eval f (fst (spec_eval f src q)) p) as [r b]. reflexivity.
  - rewrite andb_false_r. f_equal. f_equal. rewrite map_map. apply map_ext_Forall.
    eapply Forall_impl; [|exact IH]. intros x Hx. rewrite Hx. reflexivity.
  - rewrite IH. destruct (spec_eval f (fst (spec_eval f src q)) p) as [r b]. simpl. rewrite andb_false_r. reflexivity.
  - exact IH.
Qed.

(* the written bytes of a table derived by p from the table of q: write (run p on q's table) *)
Corollary session_table v f data q p s0 s :
  read v f data = Some s0 -> run f s0 q = Some s ->
  model_out_v v f data (subst_src q p) = match run f s p with Some t => write v f t | None => None end.
Proof. intros Hr Hq. unfold model_out_v. rewrite Hr. rewrite (run_subst f s0 q s Hq). reflexivity. Qed.

(* Proofs/C14.v — lemmas and main proofs for C14.
   Finite tables (symbol x encoding grid, the 512 codon spellings) are settled by complete computation
   ([grid_ok], [codon_grid]); everything about sequences, rows and interval sets is by induction. *)
From Coq Require Import ZArith List Bool Lia.
From BNP Require Import Base.Prims Base.PrimsFacts Model.C14.
Import ListNotations.
Open Scope Z_scope.

(* ---------- ragged plumbing ---------- *)
Lemma to_nat_len {A} (l : list A) : Z.to_nat (len l) = length l.
Proof. unfold len. apply Nat2Z.id. Qed.

Lemma split_lens_concat {A} (rows : list (list A)) : split_lens (concat rows) (map len rows) = rows.
Proof.
  induction rows as [|r rows IH]; [reflexivity|].
  cbn [map concat split_lens]. rewrite to_nat_len.
  rewrite firstn_app, Nat.sub_diag, firstn_all. cbn [firstn]. rewrite app_nil_r.
  rewrite skipn_app, Nat.sub_diag, skipn_all. cbn [skipn app]. rewrite IH. reflexivity.
Qed.

Lemma split_lens_map {A B} (f : A -> B) lens : forall flat,
  split_lens (map f flat) lens = map (map f) (split_lens flat lens).
Proof.
  induction lens as [|n lens IH]; intros flat; [reflexivity|].
  cbn [split_lens map]. rewrite firstn_map, skipn_map, IH. reflexivity.
Qed.

Lemma len_map {A B} (f : A -> B) l : len (map f l) = len l.
Proof. unfold len. rewrite map_length. reflexivity. Qed.
Lemma len_rev {A} (l : list A) : len (rev l) = len l.
Proof. unfold len. rewrite rev_length. reflexivity. Qed.

(* rows rebuilt from a flat array keep their identity when the row operation preserves lengths *)
Lemma split_after {A} (k : list A -> list A) (rows : list (list A)) :
  (forall r, len (k r) = len r) -> split_lens (concat (map k rows)) (map len rows) = map k rows.
Proof.
  intros Hk. replace (map len rows) with (map len (map k rows)).
  - apply split_lens_concat.
  - rewrite map_map. apply map_ext. exact Hk.
Qed.

Lemma rows_of_flat_map {A} (h : A -> A) (rows : list (list A)) :
  concat (map (@rev A) (split_lens (map h (concat rows)) (map len rows)))
  = concat (map (fun r => rev (map h r)) rows).
Proof. rewrite split_lens_map, split_lens_concat, map_map. reflexivity. Qed.

Lemma concat_map_map {A B} (f : A -> B) (rows : list (list A)) :
  map f (concat rows) = concat (map (map f) rows).
Proof. apply concat_map. Qed.

Lemma existsb_false_Forall {A} (p : A -> bool) l : Forall (fun x => p x = false) l -> existsb p l = false.
Proof. induction 1 as [|x l Hx _ IH]; [reflexivity|]. simpl. rewrite Hx, IH. reflexivity. Qed.

Lemma Forall_concat {A} (P : A -> Prop) (rows : list (list A)) :
  Forall (Forall P) rows -> Forall P (concat rows).
Proof. induction 1 as [|r rows Hr _ IH]; [constructor|]. simpl. apply Forall_app. split; assumption. Qed.

Lemma Forall_firstn {A} (P : A -> Prop) n (l : list A) : Forall P l -> Forall P (firstn n l).
Proof. revert l. induction n; intros l H; [constructor|]. destruct H; simpl; constructor; auto. Qed.
Lemma Forall_skipn {A} (P : A -> Prop) n (l : list A) : Forall P l -> Forall P (skipn n l).
Proof. revert l. induction n; intros l H; [exact H|]. destruct H; simpl; [constructor|auto]. Qed.
Lemma Forall_slice {A} (P : A -> Prop) a b (l : list A) : Forall P l -> Forall P (slice a b l).
Proof. intros H. unfold slice. apply Forall_firstn, Forall_skipn, H. Qed.
Lemma slice_map {A B} (f : A -> B) a b l : slice a b (map f l) = map f (slice a b l).
Proof. unfold slice. rewrite skipn_map, firstn_map. reflexivity. Qed.

(* ---------- encoding a text whose symbols come from a finite set ---------- *)
Lemma alpha_encode_ok (a D bytes : list Z) :
  forallb (fun c => nthZ (alpha_table a) c <? len a) D = true ->
  Forall (fun c => In c D) bytes ->
  alpha_encode a bytes = Ok (map (nthZ (alpha_table a)) bytes).
Proof.
  intros HD Hb. unfold alpha_encode.
  rewrite existsb_false_Forall; [reflexivity|].
  rewrite Forall_map. eapply Forall_impl; [|exact Hb].
  intros c Hc. rewrite forallb_forall in HD. specialize (HD c Hc). cbv beta in *. lia.
Qed.

(* ---------- the symbol x encoding grid ---------- *)
Definition enc1 (e : encoding) (c : Z) : Z :=
  match e with Ascii => c | Alpha a => nthZ (alpha_table a) c end.
Definition enc1_ok (e : encoding) (c : Z) : bool :=
  match e with Ascii => true | Alpha a => nthZ (alpha_table a) c <? len a end.
Definition dec1 (e : encoding) (x : Z) : Z := match e with Ascii => x | Alpha a => nthZ a x end.
Definition values_of (keys : list (Z * Z)) (e : encoding) : option (list Z) :=
  match e with
  | Ascii => Some (ascii_values keys)
  | Alpha a => match alpha_values keys a with Ok v => Some v | Err _ => None end
  end.
Definition in_range (v : list Z) (x : Z) : bool := (0 <=? x) && (x <? len v).
(* everything the sequence-level proofs need to know about one symbol, as a boolean *)
Definition sym_ok (ez : Z) (e : encoding) (v : list Z) (c : Z) : bool :=
  let x := enc1 e c in let y := nthZ v x in
  enc1_ok e c && in_range v x && in_range v y
  && (dec1 e x =? canon ez c)                       (* decoding the code gives the (case-folded) symbol *)
  && (dec1 e y =? comp10 (canon ez c))              (* the looked-up code decodes to the complement *)
  && (dec1 e (nthZ v y) =? canon ez c).             (* looked up twice: back to the symbol *)
Definition grid_ok (keys : list (Z * Z)) (ez : Z) (D : list Z) : bool :=
  match values_of keys (enc_of ez) with
  | None => false
  | Some v => forallb (sym_ok ez (enc_of ez) v) D
  end.

Lemma encode_ok e D bytes :
  forallb (enc1_ok e) D = true -> Forall (fun c => In c D) bytes -> encode e bytes = Ok (map (enc1 e) bytes).
Proof.
  destruct e as [|a]; intros HD Hb; cbn [encode enc1].
  - rewrite map_id. reflexivity.
  - apply alpha_encode_ok with (D := D); assumption.
Qed.
Lemma decode_map e l : decode e l = map (dec1 e) l.
Proof. destruct e; cbn [decode dec1]; [rewrite map_id|]; reflexivity. Qed.

Lemma lookup_take_ok v raw :
  Forall (fun x => in_range v x = true) raw -> lookup_take v raw = Ok (map (nthZ v) raw).
Proof.
  intros H. unfold lookup_take. rewrite existsb_false_Forall; [reflexivity|].
  eapply Forall_impl; [|exact H]. intros x Hx. unfold in_range in Hx. cbv beta. lia.
Qed.
Lemma complement_codes_ok keys e v codes :
  values_of keys e = Some v -> Forall (fun x => in_range v x = true) codes ->
  complement_codes keys e codes = Ok (map (nthZ v) codes).
Proof.
  intros Hv Hc. destruct e as [|a]; cbn [complement_codes values_of] in *.
  - injection Hv as <-. apply lookup_take_ok, Hc.
  - destruct (alpha_values keys a) as [v'|]; [|discriminate]. injection Hv as ->. apply lookup_take_ok, Hc.
Qed.

Section Grid.
  Variable keys : list (Z * Z).
  Variable ez : Z.
  Variable D : list Z.
  Variable v : list Z.
  Hypothesis Hv : values_of keys (enc_of ez) = Some v.
  Hypothesis HD : forallb (sym_ok ez (enc_of ez) v) D = true.
  Let e := enc_of ez.
  Let g (c : Z) : Z := nthZ v (enc1 e c).

  Lemma sym_facts c : In c D ->
    enc1_ok e c = true /\ in_range v (enc1 e c) = true /\ in_range v (g c) = true
    /\ dec1 e (enc1 e c) = canon ez c /\ dec1 e (g c) = comp10 (canon ez c) /\ dec1 e (nthZ v (g c)) = canon ez c.
  Proof.
    intros Hc. rewrite forallb_forall in HD. specialize (HD c Hc). unfold sym_ok in HD. fold e in HD.
    rewrite !andb_true_iff in HD. destruct HD as [[[[[H1 H2] H3] H4] H5] H6].
    unfold g. repeat split; first [assumption | apply Z.eqb_eq; assumption].
  Qed.
  Lemma enc_grid : forallb (enc1_ok e) D = true.
  Proof. apply forallb_forall. intros c Hc. apply sym_facts, Hc. Qed.

  (* complement-and-reverse at the level of codes, for any rows of valid codes *)
  Definition rc1 (r : list Z) : list Z := rev (map (nthZ v) r).
  Lemma len_rc1 r : len (rc1 r) = len r.
  Proof. unfold rc1. rewrite len_rev, len_map. reflexivity. Qed.
  Lemma revcomp_codes_any X : Forall (Forall (fun x => in_range v x = true)) X ->
    revcomp_codes keys e (concat X) (map len X) = Ok (concat (map rc1 X)).
  Proof.
    intros HX. unfold revcomp_codes.
    rewrite (complement_codes_ok keys e v _ Hv) by (apply Forall_concat; exact HX).
    rewrite rows_of_flat_map. reflexivity.
  Qed.

  Definition encrows (rows : list (list Z)) : list (list Z) := map (map (enc1 e)) rows.
  Lemma encrows_range rows : Forall (Forall (fun c => In c D)) rows ->
    Forall (Forall (fun x => in_range v x = true)) (encrows rows).
  Proof.
    intros H. unfold encrows. rewrite Forall_map. eapply Forall_impl; [|exact H].
    intros r Hr. rewrite Forall_map. eapply Forall_impl; [|exact Hr]. intros c Hc. apply sym_facts, Hc.
  Qed.
  Lemma rc1_range X : Forall (Forall (fun c => In c D)) X ->
    Forall (Forall (fun x => in_range v x = true)) (map rc1 (encrows X)).
  Proof.
    intros H. unfold encrows. rewrite map_map, Forall_map. eapply Forall_impl; [|exact H].
    intros r Hr. unfold rc1. apply Forall_rev. rewrite map_map, Forall_map.
    eapply Forall_impl; [|exact Hr]. intros c Hc. apply sym_facts, Hc.
  Qed.
  Lemma map_len_rows {A} (k : list A -> list A) (rows : list (list A)) :
    (forall r, len (k r) = len r) -> map len (map k rows) = map len rows.
  Proof. intros Hk. rewrite map_map. apply map_ext, Hk. Qed.
  Lemma map_len_encrows rows : map len (encrows rows) = map len rows.
  Proof. unfold encrows. rewrite map_map. apply map_ext. intros r. apply len_map. Qed.

  (* decoded rows *)
  Lemma dec_rc1 r : Forall (fun c => In c D) r ->
    map (dec1 e) (rc1 (map (enc1 e) r)) = spec_revcomp (map (canon ez) r).
  Proof.
    intros Hr. unfold rc1, spec_revcomp. rewrite map_rev. f_equal. rewrite !map_map.
    apply map_ext_in. intros c Hc. rewrite Forall_forall in Hr. apply sym_facts, Hr, Hc.
  Qed.
  Lemma dec_enc r : Forall (fun c => In c D) r -> map (dec1 e) (map (enc1 e) r) = map (canon ez) r.
  Proof.
    intros Hr. rewrite map_map. apply map_ext_in. intros c Hc. rewrite Forall_forall in Hr. apply sym_facts, Hr, Hc.
  Qed.
  Lemma dec_rc1_rc1 r : Forall (fun c => In c D) r ->
    map (dec1 e) (rc1 (rc1 (map (enc1 e) r))) = map (canon ez) r.
  Proof.
    intros Hr. unfold rc1. rewrite (map_rev (nthZ v)), rev_involutive, !map_map.
    apply map_ext_in. intros c Hc. rewrite Forall_forall in Hr. apply sym_facts, Hr, Hc.
  Qed.

  (* T2: reverse complement of any list of rows *)
  Lemma revcomp_generic rows : Forall (Forall (fun c => In c D)) rows ->
    model_revcomp keys ez rows = Ok (map (fun r => spec_revcomp (map (canon ez) r)) rows).
  Proof.
    intros Hrows. unfold model_revcomp. fold e.
    rewrite (encode_ok e D) by (try apply enc_grid; apply Forall_concat, Hrows).
    rewrite concat_map_map. fold (encrows rows). rewrite <- (map_len_encrows rows).
    rewrite revcomp_codes_any by (apply encrows_range, Hrows).
    f_equal. rewrite decode_map, concat_map_map, map_map. unfold encrows at 1. rewrite map_map.
    rewrite map_len_encrows.
    rewrite (split_after (fun r => map (dec1 e) (rc1 (map (enc1 e) r)))).
    - apply map_ext_in. intros r Hr. apply dec_rc1. rewrite Forall_forall in Hrows. apply Hrows, Hr.
    - intros r. rewrite len_map, len_rc1, len_map. reflexivity.
  Qed.

  (* applied twice on the encoded array: the input (case-folded by the encoding) comes back *)
  Lemma revcomp2_generic rows : Forall (Forall (fun c => In c D)) rows ->
    model_revcomp2 keys ez rows = Ok (map (map (canon ez)) rows).
  Proof.
    intros Hrows. unfold model_revcomp2. fold e.
    rewrite (encode_ok e D) by (try apply enc_grid; apply Forall_concat, Hrows).
    rewrite concat_map_map. fold (encrows rows). rewrite <- (map_len_encrows rows).
    rewrite revcomp_codes_any by (apply encrows_range, Hrows).
    rewrite <- (map_len_rows rc1 (encrows rows) len_rc1).
    rewrite revcomp_codes_any by (apply rc1_range, Hrows).
    f_equal. rewrite (map_len_rows rc1 (encrows rows) len_rc1), map_len_encrows.
    rewrite decode_map, concat_map_map, !map_map. unfold encrows. rewrite map_map.
    rewrite (split_after (fun r => map (dec1 e) (rc1 (rc1 (map (enc1 e) r))))).
    - apply map_ext_in. intros r Hr. apply dec_rc1_rc1. rewrite Forall_forall in Hrows. apply Hrows, Hr.
    - intros r. rewrite len_map, !len_rc1, len_map. reflexivity.
  Qed.

  (* T3: strand-aware extraction *)
  Lemma choose_rows_map {I} (p : I -> bool) (f h : I -> list Z) (ivs : list I) :
    choose_rows (map p ivs) (map f ivs) (map h ivs) = map (fun iv => if p iv then f iv else h iv) ivs.
  Proof. unfold choose_rows. induction ivs as [|iv ivs IH]; [reflexivity|]. simpl. f_equal. exact IH. Qed.

  Lemma iv_slice_map (f : Z -> Z) ref iv : iv_slice (map f ref) iv = map f (iv_slice ref iv).
  Proof. destruct iv as [[a b] s]. apply slice_map. Qed.
  Lemma iv_slice_dom ref iv : Forall (fun c => In c D) ref -> Forall (fun c => In c D) (iv_slice ref iv).
  Proof. destruct iv as [[a b] s]. apply Forall_slice. Qed.

  Lemma stranded_generic (wh : list bool -> list (list Z) -> list (list Z) -> result (list (list Z)))
        (minus : bool) ref ivs :
    Forall (fun c => In c D) ref ->
    Forall (fun iv => iv_strand iv = 43 \/ iv_strand iv = 45) ivs ->
    (forall m x y, len m = len ivs -> len (concat x) = len (concat (map (iv_slice ref) ivs)) ->
                   wh m x y = Ok (choose_rows m x y)) ->
    model_stranded keys wh minus ez ref ivs = Ok (map (spec_stranded (map (canon ez) ref)) ivs).
  Proof.
    intros Href Hst Hwh. unfold model_stranded. fold e.
    rewrite (encode_ok e D) by (try apply enc_grid; exact Href).
    set (srows := map (iv_slice ref) ivs).
    assert (Hs : Forall (Forall (fun c => In c D)) srows).
    { unfold srows. rewrite Forall_map. apply Forall_forall. intros iv _. apply iv_slice_dom, Href. }
    assert (Hrel : map (iv_slice (map (enc1 e) ref)) ivs = encrows srows).
    { unfold encrows, srows. rewrite map_map. apply map_ext. intros iv. apply iv_slice_map. }
    rewrite Hrel. rewrite revcomp_codes_any by (apply encrows_range, Hs).
    rewrite <- (map_len_rows rc1 (encrows srows) len_rc1). rewrite split_lens_concat.
    assert (Hlen1 : len (concat (map rc1 (encrows srows))) = len (concat srows)).
    { clear. induction srows as [|r rs IH]; [reflexivity|]. cbn [encrows map concat] in *.
      rewrite !len_app, len_rc1, len_map. unfold encrows in IH. rewrite IH. reflexivity. }
    assert (Hlen2 : len (concat (encrows srows)) = len (concat srows)).
    { clear. induction srows as [|r rs IH]; [reflexivity|]. cbn [encrows map concat] in *.
      rewrite !len_app, len_map. unfold encrows in IH. rewrite IH. reflexivity. }
    assert (Hres : forall iv, In iv ivs ->
       decode e (if iv_strand iv =? 45 then rc1 (map (enc1 e) (iv_slice ref iv)) else map (enc1 e) (iv_slice ref iv))
       = spec_stranded (map (canon ez) ref) iv).
    { intros iv Hiv. rewrite decode_map.
      assert (Hd := iv_slice_dom ref iv Href).
      destruct iv as [[a b] s]. cbn [iv_strand spec_stranded iv_slice] in *.
      rewrite slice_map. destruct (s =? 45); [apply dec_rc1|apply dec_enc]; exact Hd. }
    destruct minus.
    - rewrite Hwh.
      + f_equal. unfold encrows, srows. rewrite !map_map.
        rewrite (choose_rows_map (fun iv => iv_strand iv =? 45)
                   (fun iv => rc1 (map (enc1 e) (iv_slice ref iv))) (fun iv => map (enc1 e) (iv_slice ref iv))).
        rewrite map_map. apply map_ext_in. exact Hres.
      + apply len_map.
      + exact Hlen1.
    - rewrite Hwh.
      + f_equal. unfold encrows, srows. rewrite !map_map.
        rewrite (choose_rows_map (fun iv => iv_strand iv =? 43)
                   (fun iv => map (enc1 e) (iv_slice ref iv)) (fun iv => rc1 (map (enc1 e) (iv_slice ref iv)))).
        rewrite map_map. apply map_ext_in. intros iv Hiv. rewrite <- (Hres iv Hiv).
        rewrite Forall_forall in Hst. destruct (Hst iv Hiv) as [E|E]; rewrite E; reflexivity.
      + apply len_map.
      + exact Hlen2.
  Qed.
End Grid.

(* ---------- instantiating the grid: complete computation over symbols x encodings ---------- *)
Lemma values_of_some keys ez D : grid_ok keys ez D = true ->
  exists v, values_of keys (enc_of ez) = Some v /\ forallb (sym_ok ez (enc_of ez) v) D = true.
Proof.
  unfold grid_ok. destruct (values_of keys (enc_of ez)) as [v|]; [|discriminate].
  intros H. exists v. split; [reflexivity|exact H].
Qed.

(* the repaired complement table: all ten symbols in ASCII and ACGTN, the eight in ACGT *)
Lemma grid_fixed : forallb (fun ez => grid_ok complements_fixed ez (domain ez)) [0; 1; 2] = true.
Proof. vm_compute. reflexivity. Qed.
(* the table at HEAD: upper case only in ASCII *)
Definition domain_pinned (ez : Z) : list Z := if ez =? 0 then upper5 else domain ez.
Lemma grid_pinned : forallb (fun ez => grid_ok complements_pinned ez (domain_pinned ez)) [0; 1; 2] = true.
Proof. vm_compute. reflexivity. Qed.
Lemma grid_current : forallb (fun ez => grid_ok complements ez (domain_pinned ez)) [0; 1; 2] = true.
Proof. vm_compute. reflexivity. Qed.

Lemma grid_of (keys : list (Z * Z)) (dom : Z -> list Z) :
  forallb (fun ez => grid_ok keys ez (dom ez)) [0; 1; 2] = true ->
  forall ez, In ez [0; 1; 2] -> grid_ok keys ez (dom ez) = true.
Proof. intros H ez Hez. rewrite forallb_forall in H. apply (H ez Hez). Qed.

Definition in_dom (dom : Z -> list Z) (ez : Z) (c : Z) : Prop := In c (dom ez).

(* --- reverse complement --- *)
Lemma revcomp_all keys dom :
  forallb (fun ez => grid_ok keys ez (dom ez)) [0; 1; 2] = true ->
  forall ez rows, In ez [0; 1; 2] -> Forall (Forall (in_dom dom ez)) rows ->
    let out := map (fun r => spec_revcomp (map (canon ez) r)) rows in
    model_revcomp keys ez rows = Ok out
    /\ map len out = map len rows
    /\ model_revcomp2 keys ez rows = Ok (map (map (canon ez)) rows).
Proof.
  intros G ez rows Hez Hrows out.
  destruct (values_of_some _ _ _ (grid_of keys dom G ez Hez)) as [v [Hv HD]].
  split; [|split].
  - apply (revcomp_generic keys ez (dom ez) v Hv HD rows Hrows).
  - unfold out. rewrite map_map. apply map_ext. intros r. unfold spec_revcomp. rewrite len_rev, !len_map. reflexivity.
  - apply (revcomp2_generic keys ez (dom ez) v Hv HD rows Hrows).
Qed.

Lemma stranded_all keys dom wh :
  forallb (fun ez => grid_ok keys ez (dom ez)) [0; 1; 2] = true ->
  forall minus ez ref ivs, In ez [0; 1; 2] -> Forall (in_dom dom ez) ref ->
    Forall (fun iv => iv_strand iv = 43 \/ iv_strand iv = 45) ivs ->
    (forall m x y, len m = len ivs -> len (concat x) = len (concat (map (iv_slice ref) ivs)) ->
                   wh m x y = Ok (choose_rows m x y)) ->
    model_stranded keys wh minus ez ref ivs = Ok (map (spec_stranded (map (canon ez) ref)) ivs).
Proof.
  intros G minus ez ref ivs Hez Href Hst Hwh.
  destruct (values_of_some _ _ _ (grid_of keys dom G ez Hez)) as [v [Hv HD]].
  apply (stranded_generic keys ez (dom ez) v Hv HD wh minus ref ivs Href Hst Hwh).
Qed.

(* wrappers with the statements used in Props/C14.v *)
Definition iv_valid (ref : list Z) (iv : Z * Z * Z) : Prop :=
  let '(a, b, s) := iv in 0 <= a /\ a <= b /\ b <= len ref /\ (s = 43 \/ s = 45).
Lemma iv_valid_strand ref ivs : Forall (iv_valid ref) ivs -> Forall (fun iv => iv_strand iv = 43 \/ iv_strand iv = 45) ivs.
Proof. intros H. eapply Forall_impl; [|exact H]. intros [[a b] s] Hv. cbn in *. tauto. Qed.
(* number of bases the interval set extracts *)
Definition total_bases (ivs : list (Z * Z * Z)) : Z := sumZ (map (fun iv => let '(a, b, _) := iv in b - a) ivs).
Lemma total_bases_len ref ivs : Forall (iv_valid ref) ivs -> len (concat (map (iv_slice ref) ivs)) = total_bases ivs.
Proof.
  induction 1 as [|iv ivs Hiv _ IH]; [reflexivity|].
  unfold total_bases in *. cbn [map concat sumZ fold_right]. rewrite len_app, IH. f_equal.
  destruct iv as [[a b] s]. cbn in Hiv. cbn [iv_slice]. unfold slice.
  rewrite len_firstn, len_skipn. lia.
Qed.

Lemma revcomp_fixed_thm : forall ez rows, In ez [0; 1; 2] -> Forall (Forall (fun c => In c (domain ez))) rows ->
  let out := map (fun r => spec_revcomp (map (canon ez) r)) rows in
  model_revcomp complements_fixed ez rows = Ok out
  /\ map len out = map len rows
  /\ model_revcomp2 complements_fixed ez rows = Ok (map (map (canon ez)) rows).
Proof. exact (revcomp_all complements_fixed domain grid_fixed). Qed.
Lemma revcomp_partial_thm : forall ez rows, In ez [0; 1; 2] -> Forall (Forall (fun c => In c (domain_pinned ez))) rows ->
  let out := map (fun r => spec_revcomp (map (canon ez) r)) rows in
  model_revcomp complements ez rows = Ok out
  /\ map len out = map len rows
  /\ model_revcomp2 complements ez rows = Ok (map (map (canon ez)) rows).
Proof. exact (revcomp_all complements domain_pinned grid_current). Qed.
Lemma revcomp_pinned_refuted_thm :
  exists rows, Forall (Forall (fun c => In c (domain 0))) rows
    /\ model_revcomp complements_pinned 0 rows <> Ok (map (fun r => spec_revcomp (map (canon 0) r)) rows).
Proof.
  exists [[97]]. split.
  - apply Forall_forall; intros r [<-|[]]; apply Forall_forall; intros c [<-|[]]; vm_compute; tauto.
  - vm_compute. discriminate.
Qed.

Lemma stranded_fixed_thm : forall minus ez ref ivs, In ez [0; 1; 2] ->
  Forall (fun c => In c (domain ez)) ref -> Forall (iv_valid ref) ivs ->
  model_stranded complements_fixed where_fixed minus ez ref ivs = Ok (map (spec_stranded (map (canon ez) ref)) ivs).
Proof.
  intros minus ez ref ivs Hez Href Hiv.
  apply (stranded_all complements_fixed domain where_fixed grid_fixed minus ez ref ivs Hez Href (iv_valid_strand ref ivs Hiv)).
  intros; reflexivity.
Qed.
Lemma stranded_partial_thm : forall minus ez ref ivs, In ez [0; 1; 2] ->
  Forall (fun c => In c (domain_pinned ez)) ref -> Forall (iv_valid ref) ivs ->
  len ivs < total_bases ivs ->
  model_stranded complements where_rows minus ez ref ivs = Ok (map (spec_stranded (map (canon ez) ref)) ivs).
Proof.
  intros minus ez ref ivs Hez Href Hiv Hsz.
  apply (stranded_all complements domain_pinned where_rows grid_current minus ez ref ivs Hez Href (iv_valid_strand ref ivs Hiv)).
  intros m x y Hm Hx. unfold where_rows.
  (* holds for either definition of where_rows (the one-line switch in Model/C14.v) *)
  first [ reflexivity
        | unfold where_pinned; rewrite Hm, Hx, (total_bases_len ref ivs Hiv);
          apply Z.ltb_lt in Hsz; rewrite Hsz; reflexivity ].
Qed.
Lemma stranded_pinned_refuted_thm :
  exists ref ivs, Forall (fun c => In c upper5) ref /\ Forall (iv_valid ref) ivs
    /\ model_stranded complements_pinned where_pinned true 0 ref ivs = Err 5
    /\ model_stranded complements_pinned where_pinned false 2 ref ivs = Err 5.
Proof.
  exists [65; 67; 71; 84; 84], [(2, 3, 45)]. split; [|split; [|split]].
  - apply Forall_forall. intros c Hc. vm_compute in Hc. vm_compute. tauto.
  - apply Forall_forall; intros iv [<-|[]]. cbn. lia.
  - vm_compute. reflexivity.
  - vm_compute. reflexivity.
Qed.

(* ---------- translation ---------- *)
Definition t1 (c : Z) : Z := nthZ (alpha_table tcag) c.
Definition codon_ok (cd : list Z) : bool :=
  match spec_aa cd with
  | Some a => (nthZ amino_acids (codon_hash (map t1 cd)) =? a) && (len cd =? 3) && forallb (fun c => mem c acgt8) cd
  | None => false
  end.
(* all 512 spellings of the 64 codons: hash in TCAG order + 64-letter string = the amino-acid->codons table *)
Lemma codon_grid : forallb codon_ok all_codons = true.
Proof. vm_compute. reflexivity. Qed.
Lemma tcag_grid : forallb (fun c => nthZ (alpha_table tcag) c <? len tcag) acgt8 = true.
Proof. vm_compute. reflexivity. Qed.

Lemma mem_In c l : mem c l = true -> In c l.
Proof. unfold mem. intros H. apply existsb_exists in H. destruct H as [x [Hx E]]. apply Z.eqb_eq in E. subst. exact Hx. Qed.

Lemma codon_facts cd : In cd all_codons ->
  length cd = 3%nat /\ Forall (fun c => In c acgt8) cd
  /\ nthZ amino_acids (codon_hash (map t1 cd)) = aa_of cd /\ spec_aa cd <> None.
Proof.
  intros H. pose proof codon_grid as G. rewrite forallb_forall in G. specialize (G cd H).
  unfold codon_ok in G. unfold aa_of. destruct (spec_aa cd) as [a|]; [|discriminate].
  rewrite !andb_true_iff in G. destruct G as [[G1 G2] G3].
  apply Z.eqb_eq in G1, G2. repeat split.
  - unfold len in G2. lia.
  - apply Forall_forall. intros c Hc. rewrite forallb_forall in G3. apply mem_In, G3, Hc.
  - exact G1.
  - discriminate.
Qed.

Lemma concat_concat {A} (xss : list (list (list A))) : concat (map (@concat A) xss) = concat (concat xss).
Proof. induction xss as [|x xss IH]; [reflexivity|]. simpl. rewrite concat_app, IH. reflexivity. Qed.

Lemma chunks_codons {A} (codons : list (list A)) :
  Forall (fun cd => length cd = 3%nat) codons -> chunks_of 3 (concat codons) = codons.
Proof.
  induction 1 as [|cd codons Hcd _ IH]; [reflexivity|].
  simpl. rewrite chunks_of_app_exact by (try exact Hcd; lia). rewrite IH. reflexivity.
Qed.
Lemma len_concat_codons {A} (crow : list (list A)) :
  Forall (fun cd => length cd = 3%nat) crow -> len (concat crow) = len crow * 3.
Proof.
  induction 1 as [|cd crow Hcd _ IH]; [reflexivity|].
  cbn [concat]. rewrite len_app, IH, len_cons. unfold len at 1. rewrite Hcd. lia.
Qed.

Lemma translate_thm : forall crows : list (list (list Z)),
  Forall (Forall (fun cd => In cd all_codons)) crows ->
  model_translate (map (@concat Z) crows) = Ok (map (map aa_of) crows)
  /\ map spec_translate (map (@concat Z) crows) = map (map aa_of) crows
  /\ Forall (Forall (fun cd => spec_aa cd <> None)) crows.
Proof.
  intros crows H.
  assert (H3 : Forall (Forall (fun cd : list Z => length cd = 3%nat)) crows).
  { eapply Forall_impl; [|exact H]. intros r Hr. eapply Forall_impl; [|exact Hr]. intros cd Hcd. apply codon_facts, Hcd. }
  split; [|split].
  - unfold model_translate. rewrite concat_concat.
    rewrite (alpha_encode_ok tcag acgt8); [|exact tcag_grid|].
    2:{ apply Forall_concat. pose proof (Forall_concat _ _ H) as Hc.
        eapply Forall_impl; [|exact Hc]. intros cd Hcd. apply codon_facts, Hcd. }
    replace (forallb (fun l => l mod 3 =? 0) (map len (map (@concat Z) crows))) with true.
    2:{ symmetry. apply forallb_forall. intros l Hl. rewrite map_map in Hl. apply in_map_iff in Hl.
        destruct Hl as [crow [<- Hc]]. rewrite Forall_forall in H3. rewrite (len_concat_codons crow (H3 crow Hc)).
        rewrite Z_mod_mult. reflexivity. }
    cbn [negb]. f_equal.
    rewrite concat_map_map, chunks_codons.
    2:{ rewrite Forall_map. apply Forall_concat in H3. eapply Forall_impl; [|exact H3].
        intros cd Hcd. rewrite map_length. exact Hcd. }
    rewrite map_map.
    replace (map (fun l => l / 3) (map len (map (@concat Z) crows))) with (map len crows).
    2:{ rewrite !map_map. apply map_ext_in. intros crow Hc. rewrite Forall_forall in H3.
        rewrite (len_concat_codons crow (H3 crow Hc)). rewrite Z.div_mul by lia. reflexivity. }
    rewrite (map_ext_in _ aa_of).
    + rewrite split_lens_map, split_lens_concat. reflexivity.
    + intros cd Hcd. apply Forall_concat in H. rewrite Forall_forall in H. apply codon_facts, H, Hcd.
  - rewrite map_map. apply map_ext_in. intros crow Hc. unfold spec_translate.
    rewrite Forall_forall in H3. rewrite (chunks_codons crow (H3 crow Hc)). reflexivity.
  - eapply Forall_impl; [|exact H]. intros r Hr. eapply Forall_impl; [|exact Hr]. intros cd Hcd. apply codon_facts, Hcd.
Qed.

(* the 64 upper-case codons, one by one, against the amino acid -> codons table *)
Lemma codon_table_thm : forall cd, In cd upper_codons ->
  exists a, spec_aa cd = Some a /\ model_translate [cd] = Ok [[a]].
Proof.
  assert (G : forallb (fun cd => match spec_aa cd, model_translate [cd] with
                                 | Some a, Ok [[b]] => a =? b | _, _ => false end) upper_codons = true)
    by (vm_compute; reflexivity).
  intros cd Hcd. rewrite forallb_forall in G. specialize (G cd Hcd).
  destruct (spec_aa cd) as [a|]; [|discriminate].
  destruct (model_translate [cd]) as [[|[|b []] []]|]; try discriminate.
  apply Z.eqb_eq in G. subst b. exists a. split; reflexivity.
Qed.

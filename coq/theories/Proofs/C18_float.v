(* Proofs/C18_float.v — float texts: for every text of the grammar
     [+-]? digits* ( '.' digits* )? ( 'e' [+-]? digits+ )?      (at least one mantissa digit)
   the Spec denotation and the model of str_to_float (power array with the gap for the point, digit
   encoding, split at 'e', exponent by str_to_int, masks for the two row classes) yield the same
   exact rational.  The double-precision rounding of the real evaluation is NOT covered here. *)
From Coq Require Import ZArith List Bool Lia.
From BNP Require Import Base.Prims Base.PrimsFacts Model.C18 Proofs.C18_power Proofs.C18_int.
Import ListNotations.
Open Scope Z_scope.

(* ---------- the grammar, by components ---------- *)
Record ftext := { fs : list Z;            (* sign: [], "-" or "+" *)
                  fi : list Z;            (* digits before the point *)
                  fd : bool;              (* is there a point *)
                  ff : list Z;            (* digits after the point *)
                  fe : option (list Z) }. (* exponent text after 'e' *)
Definition dot_part (x : ftext) : list Z := if fd x then 46 :: ff x else [].
Definition mant_of (x : ftext) : list Z := fs x ++ fi x ++ dot_part x.
Definition exp_text (x : ftext) : list Z := match fe x with Some e => e | None => [] end.
Definition text_of (x : ftext) : list Z := mant_of x ++ match fe x with Some e => 101 :: e | None => [] end.
Definition all_digits (t : list Z) : Prop := forallb is_digit t = true.
Definition ftext_wf (plus : bool) (x : ftext) : Prop :=
  (fs x = [] \/ fs x = [45] \/ (plus = true /\ fs x = [43]))
  /\ all_digits (fi x) /\ all_digits (ff x) /\ (fd x = false -> ff x = []) /\ fi x ++ ff x <> []
  /\ match fe x with Some e => exists v, text_value e = Some v /\ int64 v | None => True end.
Definition f_neg (x : ftext) : bool := head_is 45 (fs x).
Definition f_N (x : ftext) : Z := horner 0 (fi x ++ ff x).
Definition f_ev (x : ftext) : Z :=
  match fe x with Some e => match text_value e with Some v => v | None => 0 end | None => 0 end.

(* ---------- generic list lemmas ---------- *)
Lemma all_digits_app a b : all_digits (a ++ b) <-> all_digits a /\ all_digits b.
Proof. unfold all_digits. rewrite forallb_app, andb_true_iff. tauto. Qed.
Lemma all_digits_In t c : all_digits t -> In c t -> is_digit c = true.
Proof. unfold all_digits. rewrite forallb_forall. auto. Qed.
Lemma all_digits_notin t c : all_digits t -> is_digit c = false -> ~ In c t.
Proof. intros H Hc Hin. rewrite (all_digits_In t c H Hin) in Hc. discriminate. Qed.
Lemma split_first_app c : forall a r, ~ In c a -> split_first c (a ++ c :: r) = (a, Some r).
Proof.
  induction a as [|x a IH]; intros r H.
  - cbn [app split_first]. rewrite Z.eqb_refl. reflexivity.
  - cbn [app split_first]. destruct (Z.eqb_spec x c) as [E|E]; [exfalso; apply H; left; exact E|].
    rewrite IH; [reflexivity|]. intros Hin. apply H. right. exact Hin.
Qed.
Lemma split_first_none c : forall a, ~ In c a -> split_first c a = (a, None).
Proof.
  induction a as [|x a IH]; intros H; [reflexivity|].
  cbn [split_first]. destruct (Z.eqb_spec x c) as [E|E]; [exfalso; apply H; left; exact E|].
  rewrite IH; [reflexivity|]. intros Hin. apply H. right. exact Hin.
Qed.
Lemma flatnonzero_from_app : forall a b i,
  flatnonzero_from i (a ++ b) = flatnonzero_from i a ++ flatnonzero_from (i + len a) b.
Proof.
  induction a as [|x a IH]; intros b i.
  - cbn [app flatnonzero_from]. rewrite len_nil, Z.add_0_r. reflexivity.
  - cbn [app flatnonzero_from]. rewrite IH, len_cons, <- app_assoc. do 3 f_equal. lia.
Qed.
Lemma positions_from_notin v : forall a i, ~ In v a -> flatnonzero_from i (map (Z.eqb v) a) = [].
Proof.
  induction a as [|x a IH]; intros i H; [reflexivity|].
  cbn [map flatnonzero_from]. destruct (Z.eqb_spec v x) as [E|E]; [exfalso; apply H; left; auto|].
  cbn [app]. apply IH. intros Hin. apply H. right. exact Hin.
Qed.
Lemma positions_one v a b : ~ In v a -> ~ In v b -> positions v (a ++ v :: b) = [len a].
Proof.
  intros Ha Hb. unfold positions, flatnonzero. rewrite map_app, flatnonzero_from_app.
  rewrite positions_from_notin by exact Ha. cbn [map flatnonzero_from app]. rewrite Z.eqb_refl.
  rewrite positions_from_notin by exact Hb. rewrite len_map. reflexivity.
Qed.
Lemma positions_none v a : ~ In v a -> positions v a = [].
Proof. intros H. unfold positions, flatnonzero. apply positions_from_notin. exact H. Qed.
Lemma existsb_notin v a : ~ In v a -> existsb (Z.eqb v) a = false.
Proof.
  intros H. destruct (existsb (Z.eqb v) a) eqn:E; [|reflexivity].
  apply existsb_exists in E. destruct E as [x [Hx Hv]]. apply Z.eqb_eq in Hv. subst x. contradiction.
Qed.
Lemma mask_select_map {A B} (p : A -> bool) (f : A -> B) : forall l,
  mask_select (map p l) (map f l) = map f (filter p l).
Proof.
  induction l as [|x l IH]; [reflexivity|].
  cbn [map mask_select filter]. rewrite IH. destruct (p x); reflexivity.
Qed.
Lemma merge_mask_map {A B} (p : A -> bool) (g h : A -> B) : forall l,
  merge_mask (map p l) (map g (filter p l)) (map h (filter (fun x => negb (p x)) l))
  = map (fun x => if p x then g x else h x) l.
Proof.
  induction l as [|x l IH]; [reflexivity|].
  cbn [map filter merge_mask]. destruct (p x); cbn [negb map]; rewrite IH; reflexivity.
Qed.
Lemma horner_shift : forall b acc, horner acc b = acc * 10 ^ len b + horner 0 b.
Proof. intros b acc. rewrite (horner_dotp b acc), (horner_dotp b 0). lia. Qed.
Lemma horner_app : forall a b acc, horner acc (a ++ b) = horner (horner acc a) b.
Proof. induction a as [|x a IH]; intros b acc; [reflexivity|]. cbn [app horner]. apply IH. Qed.
Lemma dotp_app : forall d1 p1 d2 p2, length d1 = length p1 ->
  dotp (d1 ++ d2) (p1 ++ p2) = dotp d1 p1 + dotp d2 p2.
Proof.
  induction d1 as [|d d1 IH]; intros p1 d2 p2 H; destruct p1 as [|p p1]; try discriminate.
  - reflexivity.
  - cbn [app dotp]. rewrite IH by (simpl in H; lia). lia.
Qed.
Lemma dotp_scale F : 0 <= F -> forall ds ps, Forall (fun p => 0 <= p) ps ->
  dotp ds (map (Z.pow 10) (map (Z.add F) ps)) = 10 ^ F * dotp ds (map (Z.pow 10) ps).
Proof.
  intros HF. induction ds as [|d ds IH]; intros ps Hps; [cbn; lia|].
  destruct ps as [|p ps]; [cbn; lia|]. inversion Hps; subst.
  cbn [map dotp]. rewrite IH by assumption. rewrite Z.pow_add_r by lia. lia.
Qed.
Lemma down_nonneg n : Forall (fun p => 0 <= p) (down n).
Proof. apply Forall_forall. intros p Hp. apply In_down in Hp. lia. Qed.
Lemma dotp_horner ds : dotp (map dig ds) (map (Z.pow 10) (down (length ds))) = horner 0 ds.
Proof. rewrite (horner_dotp ds 0). lia. Qed.

(* ---------- characters ---------- *)
Lemma not_digit_46 : is_digit 46 = false. Proof. reflexivity. Qed.
Lemma not_digit_101 : is_digit 101 = false. Proof. reflexivity. Qed.
Lemma not_digit_45 : is_digit 45 = false. Proof. reflexivity. Qed.
Lemma not_digit_43 : is_digit 43 = false. Proof. reflexivity. Qed.

Section OneText.
  Variable plus : bool.
  Variable x : ftext.
  Hypothesis Hwf : ftext_wf plus x.
  Ltac wf := match goal with H : ftext_wf _ _ |- _ => pose proof H as [Hs [Hi [Hf [Hd [Hne _]]]]] end.

  (* the unsigned mantissa starts with a digit or with the point *)
  Lemma body_head : exists c r, fi x ++ dot_part x = c :: r /\ (c =? 45) = false /\ (c =? 43) = false.
  Proof.
    wf.
    unfold dot_part. destruct (fi x) as [|c r] eqn:Ei.
    - destruct (fd x) eqn:Ed.
      + exists 46, (ff x). repeat split.
      + exfalso. apply Hne. rewrite (Hd eq_refl). reflexivity.
    - exists c, (r ++ (if fd x then 46 :: ff x else [])). split; [reflexivity|].
      apply is_digit_not_sign. apply (all_digits_In (c :: r) c Hi). left. reflexivity.
  Qed.
  Lemma body_no_e : ~ In 101 (fi x ++ dot_part x).
  Proof.
    wf.
    intros Hin. apply in_app_or in Hin. destruct Hin as [Hin|Hin].
    - exact (all_digits_notin _ _ Hi not_digit_101 Hin).
    - unfold dot_part in Hin. destruct (fd x); [|contradiction].
      destruct Hin as [E|Hin]; [discriminate|]. exact (all_digits_notin _ _ Hf not_digit_101 Hin).
  Qed.
  Lemma mant_no_e : ~ In 101 (mant_of x).
  Proof.
    wf.
    unfold mant_of. intros Hin. apply in_app_or in Hin. destruct Hin as [Hin|Hin]; [|exact (body_no_e Hin)].
    destruct Hs as [E|[E|[_ E]]]; rewrite E in Hin; cbn in Hin; intuition discriminate.
  Qed.
  Lemma split_e : split_first 101 (text_of x) = (mant_of x, fe x).
  Proof.
    wf.
    unfold text_of. destruct (fe x) as [e|].
    - apply split_first_app. exact mant_no_e.
    - rewrite app_nil_r. apply split_first_none. exact mant_no_e.
  Qed.
  Lemma has_e_text : has_e (text_of x) = match fe x with Some _ => true | None => false end.
  Proof.
    wf.
    unfold has_e, text_of. destruct (fe x) as [e|].
    - rewrite existsb_app. cbn [existsb]. rewrite Z.eqb_refl. rewrite orb_true_r. reflexivity.
    - rewrite app_nil_r. apply existsb_notin. exact mant_no_e.
  Qed.
  Lemma split_dot : split_first 46 (fi x ++ dot_part x) = (fi x, if fd x then Some (ff x) else None).
  Proof.
    wf.
    unfold dot_part. destruct (fd x).
    - apply split_first_app. exact (all_digits_notin _ _ Hi not_digit_46).
    - rewrite app_nil_r. apply split_first_none. exact (all_digits_notin _ _ Hi not_digit_46).
  Qed.
  Lemma digits_value_mant : digits_value (fi x ++ ff x) = Some (f_N x).
  Proof.
    wf.
    unfold digits_value. destruct (fi x ++ ff x) as [|c r] eqn:E; [exfalso; apply Hne; reflexivity|].
    assert (H : all_digits (c :: r)) by (rewrite <- E; apply all_digits_app; split; assumption).
    unfold all_digits in H. rewrite H. unfold f_N. rewrite E. reflexivity.
  Qed.
  Lemma mant_head_neg : head_is 45 (mant_of x) = f_neg x.
  Proof.
    wf.
    unfold mant_of, f_neg. destruct body_head as [c [r [E [H45 H43]]]].
    destruct Hs as [Es|[Es|[_ Es]]]; rewrite Es; cbn [app head_is]; try reflexivity.
    rewrite E. cbn [head_is]. exact H45.
  Qed.

  (* what the Spec says the text denotes *)
  Lemma spec_value :
    float_text_value (text_of x) = Some (f_neg x, f_N x, f_ev x - len (ff x)).
  Proof.
    wf.
    unfold float_text_value. rewrite split_e.
    destruct body_head as [c [r [E [H45 H43]]]].
    assert (Hm : (match mant_of x with c :: _ => c =? 45 | [] => false end) = f_neg x
                 /\ (match mant_of x with c :: r => if (c =? 45) || (c =? 43) then r else mant_of x | [] => [] end)
                    = fi x ++ dot_part x).
    { unfold mant_of, f_neg. destruct Hs as [Es|[Es|[_ Es]]]; rewrite Es; cbn [app head_is].
      - rewrite E, H45, H43. cbn [orb]. split; reflexivity.
      - split; reflexivity.
      - split; reflexivity. }
    destruct Hm as [Hm1 Hm2]. rewrite Hm1, Hm2. rewrite split_dot.
    assert (Hfp : (match (if fd x then Some (ff x) else None) with Some f => f | None => [] end) = ff x).
    { destruct (fd x) eqn:Ed; [reflexivity|]. rewrite (Hd eq_refl). reflexivity. }
    rewrite Hfp. rewrite digits_value_mant.
    unfold f_ev. destruct Hwf as [_ [_ [_ [_ [_ He]]]]].
    destruct (fe x) as [e|].
    - destruct He as [v [Hv _]]. rewrite Hv. reflexivity.
    - reflexivity.
  Qed.

  (* the model's decimal parser on the mantissa *)
  Definition lead : list Z := match fs x with [] => [] | _ => [48] end.
  Lemma dec_prepare_mant :
    dec_prepare plus (mant_of x) = lead ++ fi x ++ (if fd x then 48 :: ff x else []).
  Proof.
    wf.
    assert (Hmap : forall t, all_digits t -> map (fun c => if c =? 46 then 48 else c) t = t).
    { intros t Ht. rewrite <- (map_id t) at 2. apply map_ext_in. intros c Hc.
      destruct (Z.eqb_spec c 46) as [E|E]; [|reflexivity].
      subst c. exfalso. exact (all_digits_notin _ _ Ht not_digit_46 Hc). }
    assert (Hbody : map (fun c => if c =? 46 then 48 else c) (fi x ++ dot_part x)
                    = fi x ++ (if fd x then 48 :: ff x else [])).
    { rewrite map_app, (Hmap _ Hi). f_equal. unfold dot_part. destruct (fd x); [|reflexivity].
      cbn [map]. rewrite (Hmap _ Hf). reflexivity. }
    unfold dec_prepare, mant_of, lead. destruct body_head as [c [r [E [H45 H43]]]].
    destruct Hs as [Es|[Es|[Hp Es]]]; rewrite Es; cbn [app head_is].
    - rewrite E. cbn [head_is]. rewrite H45, H43. rewrite andb_false_r. cbn [orb]. rewrite <- E. exact Hbody.
    - rewrite Z.eqb_refl. cbn [orb set_head map]. replace (48 =? 46) with false by reflexivity.
      f_equal. exact Hbody.
    - rewrite Hp. rewrite Z.eqb_refl. replace (43 =? 45) with false by reflexivity.
      cbn [orb andb set_head map]. replace (48 =? 46) with false by reflexivity.
      f_equal. exact Hbody.
  Qed.
  Lemma lead_digits : all_digits lead.
  Proof. unfold lead. destruct (fs x); reflexivity. Qed.
  Lemma len_lead : len lead = len (fs x).
  Proof. wf. unfold lead. destruct Hs as [Es|[Es|[_ Es]]]; rewrite Es; reflexivity. Qed.
  Lemma prepared_digits : all_digits (dec_prepare plus (mant_of x)).
  Proof.
    wf.
    rewrite dec_prepare_mant. apply all_digits_app. split; [exact lead_digits|].
    apply all_digits_app. split; [exact Hi|]. destruct (fd x); [|reflexivity].
    unfold all_digits. cbn [forallb]. exact Hf.
  Qed.
  Lemma fs_no_dot : ~ In 46 (fs x).
  Proof. wf. destruct Hs as [Es|[Es|[_ Es]]]; rewrite Es; cbn; intuition discriminate. Qed.
  Lemma dot_cols_mant : dot_cols (mant_of x) = if fd x then [len (fs x) + len (fi x)] else [].
  Proof.
    wf.
    unfold dot_cols, mant_of, dot_part. destruct (fd x).
    - rewrite app_assoc. rewrite positions_one.
      + rewrite len_app. reflexivity.
      + intros Hin. apply in_app_or in Hin. destruct Hin as [Hin|Hin];
          [exact (fs_no_dot Hin)|exact (all_digits_notin _ _ Hi not_digit_46 Hin)].
      + exact (all_digits_notin _ _ Hf not_digit_46).
    - rewrite app_nil_r. apply positions_none.
      intros Hin. apply in_app_or in Hin. destruct Hin as [Hin|Hin];
        [exact (fs_no_dot Hin)|exact (all_digits_notin _ _ Hi not_digit_46 Hin)].
  Qed.
  Lemma len_mant : len (mant_of x) = len (fs x) + len (fi x) + (if fd x then 1 + len (ff x) else 0).
  Proof.
    wf.
    unfold mant_of, dot_part. rewrite !len_app. destruct (fd x); [rewrite len_cons|rewrite len_nil]; lia.
  Qed.
  Lemma len_pos_mant : 1 <= len (mant_of x).
  Proof.
    wf.
    rewrite len_mant. pose proof (len_nonneg (fs x)). pose proof (len_nonneg (fi x)). pose proof (len_nonneg (ff x)).
    destruct (fd x) eqn:Ed; [lia|].
    assert (fi x <> []). { intros E. apply Hne. rewrite E, (Hd eq_refl). reflexivity. }
    destruct (fi x); [congruence|]. rewrite len_cons. pose proof (len_nonneg l). lia.
  Qed.
  Lemma mant_row_ok : row_ok (len (mant_of x), dot_cols (mant_of x)).
  Proof.
    wf.
    split; cbn [fst snd]; [exact len_pos_mant|]. rewrite dot_cols_mant. destruct (fd x) eqn:Ed.
    - right. exists (len (fs x) + len (fi x)). split; [reflexivity|].
      rewrite len_mant, Ed. pose proof (len_nonneg (fs x)). pose proof (len_nonneg (fi x)). pose proof (len_nonneg (ff x)). lia.
    - left. reflexivity.
  Qed.
  Lemma to_nat_len {A} (l : list A) : Z.to_nat (len l) = length l.
  Proof. unfold len. apply Nat2Z.id. Qed.
  Lemma dotp_zero_head : forall ds ps, dotp (0 :: ds) ps = match ps with [] => 0 | _ :: ps' => dotp ds ps' end.
  Proof. intros ds [|p ps]; cbn [dotp]; lia. Qed.
  (* the base number: digits against the row's exponents *)
  Lemma mant_base :
    dotp (map dig (dec_prepare plus (mant_of x)))
         (map (Z.pow 10) (row_powers (len (mant_of x), dot_cols (mant_of x)))) = f_N x.
  Proof.
    wf.
    rewrite dec_prepare_mant. unfold row_powers. cbn [fst snd]. rewrite dot_cols_mant, len_mant.
    pose proof (len_nonneg (fs x)) as H1. pose proof (len_nonneg (fi x)) as H2. pose proof (len_nonneg (ff x)) as H3.
    unfold f_N. destruct (fd x) eqn:Ed.
    - set (c := len (fs x) + len (fi x)). set (F := len (ff x)).
      replace (c + (1 + F) - 1 - c) with F by lia.
      rewrite app_assoc. rewrite (map_app dig (lead ++ fi x)), (map_app (Z.pow 10)). cbn [map].
      rewrite dotp_app.
      2:{ rewrite !map_length, length_down. subst c. rewrite <- len_lead, <- len_app. unfold len. lia. }
      replace (dig 48) with 0 by reflexivity. rewrite dotp_zero_head.
      rewrite dotp_scale by (try apply down_nonneg; subst F; lia).
      assert (Ec : Z.to_nat c = length (lead ++ fi x)).
      { subst c. rewrite <- len_lead, <- len_app. apply to_nat_len. }
      rewrite Ec, dotp_horner. subst F. rewrite to_nat_len, dotp_horner.
      rewrite (horner_app lead (fi x) 0), (horner_app (fi x) (ff x) 0), (horner_shift (ff x) (horner 0 (fi x))).
      assert (El : horner 0 lead = 0).
      { unfold lead. destruct (fs x); reflexivity. }
      rewrite El. lia.
    - rewrite (Hd eq_refl), !app_nil_r. rewrite Z.add_0_r.
      assert (Ec : Z.to_nat (len (fs x) + len (fi x)) = length (lead ++ fi x)).
      { rewrite <- len_lead, <- len_app. apply to_nat_len. }
      rewrite Ec, dotp_horner. unfold lead. destruct (fs x); reflexivity.
  Qed.
  Lemma mant_frac_digits :
    (match rev (dot_cols (mant_of x)) with c :: _ => len (mant_of x) - c - 1 | [] => 0 end) = len (ff x).
  Proof.
    wf.
    rewrite dot_cols_mant, len_mant. destruct (fd x) eqn:Ed; cbn [rev app].
    - lia.
    - rewrite (Hd eq_refl). reflexivity.
  Qed.
End OneText.

(* ---------- decimal_rows on a batch of mantissas ---------- *)
Lemma decimal_rows_mants plus xs : Forall (ftext_wf plus) xs ->
  decimal_rows plus (map mant_of xs) = Some (map (fun x => (f_neg x, f_N x, len (ff x))) xs).
Proof.
  intros H. unfold decimal_rows.
  rewrite encode_rows_ok.
  2:{ apply Forall_map. apply Forall_map. eapply Forall_impl; [|exact H]. intros x Hx.
      exact (prepared_digits plus x Hx). }
  rewrite power_rows_spec.
  2:{ apply Forall_map. apply Forall_map. eapply Forall_impl; [|exact H]. intros x Hx.
      exact (mant_row_ok plus x Hx). }
  f_equal. rewrite !map_map.
  rewrite <- (map_map mant_of (fun t => map dig (dec_prepare plus t))).
  rewrite <- (map_map mant_of (fun t => row_powers (len t, dot_cols t))).
  rewrite zip3_map, !map_map.
  apply map_ext_in. intros x Hx. rewrite Forall_forall in H. specialize (H x Hx).
  unfold dec_row, m_frac_digits. rewrite (mant_head_neg plus x H), (mant_base plus x H), (mant_frac_digits plus x H).
  reflexivity.
Qed.

(* ---------- the whole str_to_float ---------- *)
Definition is_sci (x : ftext) : bool := match fe x with Some _ => true | None => false end.
Definition model_row (x : ftext) : bool * Z * Z * Z := (f_neg x, f_N x, len (ff x), f_ev x).

Lemma text_of_plain x : fe x = None -> text_of x = mant_of x.
Proof. intros E. unfold text_of. rewrite E. apply app_nil_r. Qed.
Lemma filter_fe_some xs : Forall (fun x => is_sci x = true) (filter is_sci xs).
Proof. apply Forall_forall. intros x Hx. apply filter_In in Hx. tauto. Qed.
Lemma Forall_filter {A} (P : A -> Prop) p (l : list A) : Forall P l -> Forall P (filter p l).
Proof. intros H. apply Forall_forall. intros x Hx. apply filter_In in Hx. rewrite Forall_forall in H. apply H. tauto. Qed.

Lemma scientific_rows_ok plus xs : Forall (ftext_wf plus) xs -> Forall (fun x => is_sci x = true) xs ->
  scientific_rows plus (map text_of xs) = Some (map model_row xs).
Proof.
  intros Hwf Hsci. unfold scientific_rows. rewrite map_map.
  assert (E1 : map (fun x => fst (split_first 101 (text_of x))) xs = map mant_of xs).
  { apply map_ext_in. intros x Hx. rewrite Forall_forall in Hwf. rewrite (split_e plus x (Hwf x Hx)). reflexivity. }
  assert (E2 : map (fun x => exp_part (split_first 101 (text_of x))) xs = map exp_text xs).
  { apply map_ext_in. intros x Hx. rewrite Forall_forall in Hwf. rewrite (split_e plus x (Hwf x Hx)). reflexivity. }
  rewrite !map_map. rewrite E1, E2.
  rewrite (decimal_rows_mants plus xs Hwf).
  rewrite (str_to_int_exact (map exp_text xs) (map f_ev xs)).
  - f_equal. rewrite <- (map_map (fun x => (f_neg x, f_N x, len (ff x), f_ev x)) (fun r => r)), map_id.
    clear. induction xs as [|x xs IH]; [reflexivity|]. cbn [map combine]. rewrite IH. reflexivity.
  - clear E1 E2. induction xs as [|x xs IH]; [constructor|].
    inversion Hwf as [|? ? Hx Hxs]; inversion Hsci as [|? ? Sx Sxs]; subst. cbn [map]. constructor; [|apply IH; assumption].
    unfold exp_text, f_ev, is_sci in *. destruct Hx as [_ [_ [_ [_ [_ He]]]]].
    destruct (fe x) as [e|]; [|discriminate]. destruct He as [v [Hv Hr]]. rewrite Hv. split; [reflexivity|exact Hr].
Qed.

Theorem str_to_float_gen_ok plus xs : Forall (ftext_wf plus) xs ->
  str_to_float_gen plus (map text_of xs) = Some (map model_row xs).
Proof.
  intros Hwf. unfold str_to_float_gen.
  assert (Emask : map has_e (map text_of xs) = map is_sci xs).
  { rewrite map_map. apply map_ext_in. intros x Hx. rewrite Forall_forall in Hwf.
    rewrite (has_e_text plus x (Hwf x Hx)). reflexivity. }
  rewrite Emask. rewrite map_map.
  rewrite (mask_select_map is_sci text_of xs).
  rewrite <- (map_map is_sci negb).
  assert (Eneg : mask_select (map negb (map is_sci xs)) (map text_of xs)
                 = map text_of (filter (fun x => negb (is_sci x)) xs)).
  { rewrite map_map. apply (mask_select_map (fun x => negb (is_sci x)) text_of xs). }
  rewrite Eneg.
  set (A := filter is_sci xs). set (B := filter (fun x => negb (is_sci x)) xs).
  assert (HA : (match map text_of A with [] => Some [] | _ => scientific_rows plus (map text_of A) end)
               = Some (map model_row A)).
  { destruct A as [|a A'] eqn:EA; [reflexivity|]. rewrite <- EA.
    assert (S : scientific_rows plus (map text_of A) = Some (map model_row A)).
    { apply scientific_rows_ok; [apply Forall_filter; exact Hwf|apply filter_fe_some]. }
    rewrite <- S. rewrite EA. reflexivity. }
  assert (HB : (match map text_of B with [] => Some [] | _ => decimal_rows plus (map text_of B) end)
               = Some (map (fun x => (f_neg x, f_N x, len (ff x))) B)).
  { assert (EB : map text_of B = map mant_of B).
    { apply map_ext_in. intros x Hx. apply filter_In in Hx. destruct Hx as [_ Hx].
      apply text_of_plain. unfold is_sci in Hx. destruct (fe x); [discriminate|reflexivity]. }
    rewrite EB.
    assert (D : decimal_rows plus (map mant_of B) = Some (map (fun x => (f_neg x, f_N x, len (ff x))) B)).
    { apply decimal_rows_mants. apply Forall_filter. exact Hwf. }
    destruct B as [|b B']; [reflexivity|]. exact D. }
  rewrite HA, HB. f_equal. subst A B.
  transitivity (merge_mask (map is_sci xs) (map model_row (filter is_sci xs))
                  (map (fun x => (f_neg x, f_N x, len (ff x), 0)) (filter (fun x => negb (is_sci x)) xs))).
  { f_equal. rewrite map_map. reflexivity. }
  rewrite (merge_mask_map is_sci model_row (fun x => (f_neg x, f_N x, len (ff x), 0)) xs).
  apply map_ext_in. intros x Hx. unfold model_row, is_sci, f_ev. destruct (fe x); reflexivity.
Qed.

(* model and Spec denote the same rational *)
Theorem float_model_matches_spec plus xs : Forall (ftext_wf plus) xs ->
  exists rs, str_to_float_gen plus (map text_of xs) = Some rs
    /\ Forall2 (fun x r => exists neg N E, float_text_value (text_of x) = Some (neg, N, E)
                                      /\ fst (fst (fst r)) = neg /\ model_frac r = frac_of neg N E) xs rs.
Proof.
  intros Hwf. exists (map model_row xs). split; [apply str_to_float_gen_ok; exact Hwf|].
  induction Hwf as [|x xs Hx _ IH]; [constructor|]. cbn [map]. constructor; [|exact IH].
  exists (f_neg x), (f_N x), (f_ev x - len (ff x)). split; [exact (spec_value plus x Hx)|].
  split; reflexivity.
Qed.

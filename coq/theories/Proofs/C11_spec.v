(* Proofs/C11_spec.v — the streamed genome pipelines equal their in-memory dense meaning:
   run_pipeline p ... = Some (spec_pipeline p ...) for data in genome order. *)
From Coq Require Import ZArith List Bool Lia Arith.
From BNP Require Import Base.Prims Base.PrimsFacts Model.C11 Proofs.C11 Proofs.C11_groupby Proofs.C11_graph Proofs.C11_pipeline.
Import ListNotations.
Open Scope Z_scope.

(* ---------- part A: the genome walk over the runs of genome-ordered data is the per-chromosome filter ---------- *)
Section Walk.
Context {A : Type}.
Notation pairs := (list (Z * A)).

(* the data visits the chromosomes in genome order (any of them may be absent) *)
Fixpoint ordered (order : list Z) (d : pairs) : Prop :=
  match order with
  | [] => d = []
  | name :: o => exists pre rest, d = pre ++ rest /\ Forall (fun e => fst e = name) pre /\ ordered o rest
  end.
Definition items_of (name : Z) (d : pairs) : list A := map snd (filter (fun e => fst e =? name) d).

Lemma ordered_keys : forall order (d : pairs), ordered order d -> forall e, In e d -> In (fst e) order.
Proof.
  induction order as [|name o IH]; intros d H e He.
  - simpl in H. subst. contradiction.
  - destruct H as (pre & rest & -> & Hpre & Hrest). apply in_app_or in He. destruct He as [He|He].
    + left. rewrite Forall_forall in Hpre. symmetry. apply Hpre. exact He.
    + right. apply (IH rest Hrest e He).
Qed.

Lemma filter_all (f : Z * A -> bool) l : Forall (fun e => f e = true) l -> filter f l = l.
Proof. induction 1 as [|x l Hx Hl IH]; simpl; [reflexivity|]. rewrite Hx, IH. reflexivity. Qed.
Lemma filter_none (f : Z * A -> bool) l : Forall (fun e => f e = false) l -> filter f l = [].
Proof. induction 1 as [|x l Hx Hl IH]; simpl; [reflexivity|]. rewrite Hx, IH. reflexivity. Qed.

Lemma walk_runs : forall order (d : pairs), NoDup order -> ordered order d ->
  walk order (runs d) = map (fun nm => items_of nm d) order.
Proof.
  induction order as [|name o IH]; intros d Hnd Hord; [reflexivity|].
  destruct Hord as (pre & rest & -> & Hpre & Hrest).
  inversion Hnd as [|? ? Hnotin Hnd']; subst.
  assert (Hrk : Forall (fun e => (fst e =? name) = false) rest).
  { apply Forall_forall. intros e He. apply Z.eqb_neq. intros Heq.
    apply Hnotin. rewrite <- Heq. apply (ordered_keys o rest Hrest e He). }
  assert (F1 : items_of name (pre ++ rest) = map snd pre).
  { unfold items_of. rewrite filter_app, (filter_none _ rest Hrk), app_nil_r.
    rewrite filter_all; [reflexivity|]. eapply Forall_impl; [|exact Hpre]. intros e He. apply Z.eqb_eq. exact He. }
  assert (F2 : map (fun nm => items_of nm (pre ++ rest)) o = map (fun nm => items_of nm rest) o).
  { apply map_ext_in. intros nm Hnm. unfold items_of. rewrite filter_app.
    rewrite (filter_none _ pre); [reflexivity|].
    eapply Forall_impl; [|exact Hpre]. intros e He. simpl in He. apply Z.eqb_neq. intros Heq.
    apply Hnotin. rewrite <- He, Heq. exact Hnm. }
  cbn [map]. rewrite F1, F2, <- (IH rest Hnd' Hrest).
  assert (Hso : starts_other name rest).
  { destruct rest as [|x r]; [exact I|]. simpl. inversion Hrk as [|? ? Hx _]; subst. apply Z.eqb_neq. exact Hx. }
  destruct pre as [|p pre'].
  - cbn [app map]. destruct rest as [|x r].
    + reflexivity.
    + destruct (runs_head x r) as (ys & t & E). rewrite E. cbn [walk].
      simpl in Hso. destruct (Z.eqb_spec (fst x) name) as [Heq|Hne]; [contradiction|reflexivity].
  - rewrite (runs_const_app (p :: pre') name rest ltac:(discriminate) Hpre Hso).
    cbn [walk]. rewrite Z.eqb_refl. reflexivity.
Qed.
End Walk.
Definition chrom_val (p : pipeline) (a b : list iv) (s : Z) : gval :=
  match p with
  | PPileup => GL (coverage s a)
  | PMask => GL (mask_of s a)
  | PPileupSum => GZ (sumZ (coverage s a))
  | PPileupHist k lo hi => GL (spec_hist k lo hi (coverage s a))
  | PHistAndSum k lo hi => GT [GL (spec_hist k lo hi (coverage s a)); GZ (sumZ (coverage s a))]
  | PValues => GR (values_under (coverage s a) b)
  | PValuesMean0 => op_sum_n0 [GR (values_under (coverage s a) b)]
  | PValuesSum => op_rowsums [GR (values_under (coverage s a) b)]
  | PValuesSum0 => op_colsums_fixed [GR (values_under (coverage s a) b)]
  | PValuesSum1 => op_rowsums [GR (values_under (coverage s a) b)]
  | PValuesSumPinned => op_rowsums [GR (values_under (coverage s a) b)]
  | PValuesSum0Pinned => op_colsums [GR (values_under (coverage s a) b)]
  end.

Lemma extract_values t (b : list iv) :
  map (fun '(x, y) => slice x y t) (combine (map fst b) (map snd b)) = values_under t b.
Proof. unfold values_under. induction b as [|[x y] b IH]; [reflexivity|]. simpl. rewrite IH. reflexivity. Qed.

Lemma arange_nth_error (n i : nat) : (i < n)%nat -> nth_error (arange (Z.of_nat n)) i = Some (Z.of_nat i).
Proof.
  intros H. unfold arange. rewrite Nat2Z.id.
  rewrite (nth_error_nth' _ 0) by (rewrite arange_from_length; exact H).
  rewrite arange_from_nth by exact H. f_equal; lia.
Qed.
Lemma arange_nth_error_none (n i : nat) : (n <= i)%nat -> nth_error (arange (Z.of_nat n)) i = None.
Proof. intros H. apply nth_error_None. unfold arange. rewrite Nat2Z.id, arange_from_length. exact H. Qed.

Ltac eval_val :=
  unfold val;
  cbn [pipeline_graph intervals_nodes fst snd app names_node value nth_error map forallb flat_map andb];
  rewrite ?nth_error_map.

Lemma val_root : forall p sizes (A B : list (list iv)) i,
  length A = length sizes -> length B = length sizes ->
  val (fst (pipeline_graph p sizes A B)) (snd (pipeline_graph p sizes A B)) i =
  if (i <? length sizes)%nat then Some (chrom_val p (nth i A []) (nth i B []) (nth i sizes 0)) else None.
Proof.
  intros p sizes A B i HA HB.
  destruct (Nat.ltb_spec i (length sizes)) as [Hlt|Hge].
  - destruct p; eval_val;
      rewrite ?(nth_error_nth' A [] (eq_ind_r (fun n => (i < n)%nat) Hlt HA)),
              ?(nth_error_nth' B [] (eq_ind_r (fun n => (i < n)%nat) Hlt HB)),
              ?(nth_error_nth' sizes 0 Hlt), ?(arange_nth_error _ _ Hlt);
      cbn [option_map app andb op_pileup op_mask op_data op_sum op_hist op_tuple op_start op_stop op_extract chrom_val];
      rewrite ?extract_values; reflexivity.
  - assert (EA : nth_error A i = None) by (apply nth_error_None; lia).
    assert (ES : nth_error sizes i = None) by (apply nth_error_None; lia).
    destruct p; eval_val; rewrite ?EA, ?ES, ?(arange_nth_error_none _ _ Hge); reflexivity.
Qed.

Lemma val_defined : forall p sizes (A B : list (list iv)) j i,
  length A = length sizes -> length B = length sizes -> (i < length sizes)%nat ->
  (j < length (fst (pipeline_graph p sizes A B)))%nat ->
  val (fst (pipeline_graph p sizes A B)) j i <> None.
Proof.
  intros p sizes A B j i HA HB Hpos Hj.
  destruct p; cbn [pipeline_graph intervals_nodes fst app length names_node] in Hj;
    do 15 (try (destruct j as [|j];
      [ eval_val;
        rewrite ?(nth_error_nth' A [] (eq_ind_r (fun n => (i < n)%nat) Hpos HA)),
                ?(nth_error_nth' B [] (eq_ind_r (fun n => (i < n)%nat) Hpos HB)),
                ?(nth_error_nth' sizes 0 Hpos), ?(arange_nth_error _ _ Hpos);
        cbn [option_map app andb]; discriminate | ]));
    exfalso; lia.
Qed.

Lemma max_stream_len_ge {V} (g : list (node V)) b : In (NStream b) g -> (length b <= max_stream_len g)%nat.
Proof.
  unfold max_stream_len. induction g as [|nd g IH]; intros H; [contradiction|].
  cbn [map fold_right]. destruct H as [->|H]; [lia|]. specialize (IH H). lia.
Qed.

Lemma map_Some_inj {A} (l1 l2 : list A) : map Some l1 = map Some l2 -> l1 = l2.
Proof.
  revert l2. induction l1 as [|x l1 IH]; intros [|y l2] H; simpl in H; try discriminate; [reflexivity|].
  injection H as -> H. f_equal. apply IH. exact H.
Qed.

Lemma run_graph_pipeline : forall p sizes (A B : list (list iv)),
  length A = length sizes -> length B = length sizes -> (0 < length sizes)%nat ->
  run_graph (fst (pipeline_graph p sizes A B)) (snd (pipeline_graph p sizes A B))
  = ROk (map (fun i => chrom_val p (nth i A []) (nth i B []) (nth i sizes 0)) (seq 0 (length sizes))).
Proof.
  intros p sizes A B HA HB Hpos.
  set (g := fst (pipeline_graph p sizes A B)). set (root := snd (pipeline_graph p sizes A B)).
  assert (Hroot : (root < length g)%nat).
  { subst g root. destruct p; cbn [pipeline_graph intervals_nodes fst snd app length names_node]; lia. }
  destruct (graph_lockstep_run g (pipeline_graph_wf p sizes A B) root Hroot (length sizes)) as (vs & E & Hvs).
  - intros j Hj. apply val_defined; assumption.
  - intros d Hd. subst g root. rewrite val_root by assumption.
    destruct (Nat.ltb_spec d (length sizes)); [discriminate|lia].
  - subst g root. rewrite val_root by assumption. rewrite Nat.ltb_irrefl. reflexivity.
  - assert (length (map GZ sizes) <= max_stream_len g)%nat.
    { apply max_stream_len_ge. subst g. destruct p; cbn [pipeline_graph intervals_nodes fst app]; auto 10 with datatypes. }
    rewrite map_length in H. lia.
  - rewrite E. f_equal. apply map_Some_inj. rewrite Hvs, map_map. apply map_ext_in.
    intros i Hi. apply in_seq in Hi. subst g root. rewrite val_root by assumption.
    destruct (Nat.ltb_spec i (length sizes)); [reflexivity|lia].
Qed.

(* ---------- part C: from per-chromosome values to the in-memory meaning ---------- *)
Lemma map_seq_combine {X Y C} (F : X -> Y -> C) dx dy : forall (l1 : list X) (l2 : list Y), length l1 = length l2 ->
  map (fun i => F (nth i l1 dx) (nth i l2 dy)) (seq 0 (length l2)) = map (fun '(x, y) => F x y) (combine l1 l2).
Proof.
  induction l1 as [|x l1 IH]; intros [|y l2] H; simpl in H; try discriminate; [reflexivity|].
  cbn [length seq map combine nth]. f_equal.
  rewrite <- seq_shift, map_map. cbn [nth]. apply IH. lia.
Qed.

Lemma combine_map_r {X Y C} (f : X * Y -> C) : forall (l1 : list X) (l2 : list Y),
  combine l1 (map f (combine l1 l2)) = map (fun '(x, y) => (x, f (x, y))) (combine l1 l2).
Proof.
  induction l1 as [|x l1 IH]; intros [|y l2]; try reflexivity. cbn [combine map]. rewrite IH. reflexivity.
Qed.

(* the values the graph yields, as a map over (chromosome, size) *)
Lemma graph_values : forall p order sizes (da db : list (Z * iv)),
  length order = length sizes -> (0 < length sizes)%nat ->
  let A := map (fun nm => ivs_of nm da) order in
  let B := map (fun nm => ivs_of nm db) order in
  run_graph (fst (pipeline_graph p sizes A B)) (snd (pipeline_graph p sizes A B))
  = ROk (map (fun '(nm, s) => chrom_val p (ivs_of nm da) (ivs_of nm db) s) (combine order sizes)).
Proof.
  intros p order sizes da db Hlen Hpos A B.
  rewrite run_graph_pipeline by (try exact Hpos; unfold A, B; rewrite map_length; exact Hlen).
  f_equal. rewrite <- (map_seq_combine (fun nm s => chrom_val p (ivs_of nm da) (ivs_of nm db) s) 0 0 order sizes Hlen).
  apply map_ext_in. intros i Hi. apply in_seq in Hi.
  unfold A, B.
  rewrite (nth_map_lt (fun nm => ivs_of nm da) order i [] 0) by lia.
  rewrite (nth_map_lt (fun nm => ivs_of nm db) order i [] 0) by lia. reflexivity.
Qed.

(* reductions over the per-chromosome tracks *)
Lemma reduce_sum (tracks : list (list Z)) : tracks <> [] ->
  reduce1 red_total (map (fun t => GZ (sumZ t)) tracks) = Some (GZ (sumZ (concat tracks))).
Proof.
  apply (reduce1_hom (fun t => GZ (sumZ t)) red_total). intros a b. rewrite sumZ_app. reflexivity.
Qed.
Lemma reduce_hist k lo hi (tracks : list (list Z)) : tracks <> [] ->
  reduce1 red_hist (map (fun t => GL (spec_hist k lo hi t)) tracks) = Some (GL (spec_hist k lo hi (concat tracks))).
Proof.
  apply (reduce1_hom (fun t => GL (spec_hist k lo hi t)) red_hist). intros a b. rewrite spec_hist_app. reflexivity.
Qed.
Lemma reduce_hist_sum k lo hi (tracks : list (list Z)) : tracks <> [] ->
  reduce1 (red_tuple [red_hist; red_total]) (map (fun t => GT [GL (spec_hist k lo hi t); GZ (sumZ t)]) tracks)
  = Some (GT [GL (spec_hist k lo hi (concat tracks)); GZ (sumZ (concat tracks))]).
Proof.
  apply (reduce1_hom (fun t => GT [GL (spec_hist k lo hi t); GZ (sumZ t)]) (red_tuple [red_hist; red_total])).
  intros a b. rewrite spec_hist_app, sumZ_app. reflexivity.
Qed.

(* ---------- column sums / counts of ragged rows ---------- *)
Lemma list_ext_nth_d {X} (d : X) (a b : list X) : length a = length b -> (forall i, nth i a d = nth i b d) -> a = b.
Proof.
  revert b. induction a as [|x a IH]; intros [|y b] Hlen Hnth; simpl in Hlen; try lia; [reflexivity|].
  f_equal; [exact (Hnth O)|]. apply IH; [lia|]. intros i. exact (Hnth (S i)).
Qed.

Lemma col_sum_app a b j : col_sum (a ++ b) j = col_sum a j + col_sum b j.
Proof. unfold col_sum. rewrite map_app, sumZ_app. reflexivity. Qed.
Lemma col_cnt_app a b j : col_cnt (a ++ b) j = col_cnt a j + col_cnt b j.
Proof. unfold col_cnt. rewrite filter_app, len_app. reflexivity. Qed.
Lemma ncols_app a b : ncols (a ++ b) = Z.max (ncols a) (ncols b).
Proof. unfold ncols. rewrite map_app. apply maxZ_app. Qed.

Lemma col_beyond rows j : ncols rows <= j -> 0 <= j -> col_sum rows j = 0 /\ col_cnt rows j = 0.
Proof.
  unfold ncols, col_sum, col_cnt. induction rows as [|r rows IH]; intros Hj Hj0; [split; reflexivity|].
  cbn [map maxZ fold_right] in Hj. fold (maxZ (map len rows)) in Hj.
  destruct IH as [IH1 IH2]; [lia|exact Hj0|].
  cbn [map filter]. split.
  - change (sumZ (nthZ r j :: map (fun r0 => nthZ r0 j) rows)) with (nthZ r j + sumZ (map (fun r0 => nthZ r0 j) rows)).
    rewrite IH1. unfold nthZ. rewrite nth_overflow; [reflexivity|]. unfold len in Hj. lia.
  - destruct (Z.ltb_spec j (len r)); [lia|exact IH2].
Qed.

Lemma length_spec_cols rows : length (spec_cols rows) = Z.to_nat (Z.max 0 (ncols rows)).
Proof. unfold spec_cols, arange. rewrite map_length, arange_from_length. reflexivity. Qed.

Lemma nth_spec_cols rows j : nth j (spec_cols rows) (0, 0) = (col_sum rows (Z.of_nat j), col_cnt rows (Z.of_nat j)).
Proof.
  destruct (Nat.ltb_spec j (Z.to_nat (Z.max 0 (ncols rows)))) as [Hlt|Hge].
  - unfold spec_cols, arange.
    rewrite (nth_map_lt _ _ _ (0, 0) 0) by (rewrite arange_from_length; exact Hlt).
    rewrite arange_from_nth by exact Hlt. reflexivity.
  - rewrite nth_overflow by (rewrite length_spec_cols; exact Hge).
    destruct (col_beyond rows (Z.of_nat j)) as [-> ->]; [lia|lia|reflexivity].
Qed.

Lemma nth_sn_padadd x y j : nth j (sn_padadd x y) (0, 0) = pair_add (nth j x (0, 0)) (nth j y (0, 0)).
Proof.
  revert y j. induction x as [|p x IH]; intros y j.
  - cbn [sn_padadd]. destruct (nth j y (0, 0)) as [a b] eqn:E. destruct j; cbn [nth]; unfold pair_add; cbn; f_equal; lia.
  - destruct y as [|q y].
    + cbn [sn_padadd]. destruct (nth j (p :: x) (0, 0)) as [a b] eqn:E. destruct j; cbn [nth]; unfold pair_add; cbn; f_equal; lia.
    + destruct j; cbn [sn_padadd nth]; [reflexivity|apply IH].
Qed.
Lemma length_sn_padadd x y : length (sn_padadd x y) = Nat.max (length x) (length y).
Proof.
  revert y. induction x as [|p x IH]; intros [|q y]; cbn [sn_padadd length]; try lia. rewrite IH. lia.
Qed.

Lemma spec_cols_app a b : spec_cols (a ++ b) = sn_padadd (spec_cols a) (spec_cols b).
Proof.
  apply (list_ext_nth_d (0, 0)).
  - rewrite length_sn_padadd, !length_spec_cols, ncols_app. lia.
  - intros j. rewrite nth_sn_padadd, !nth_spec_cols, col_sum_app, col_cnt_app. reflexivity.
Qed.

Lemma concat_empty_rows (rows : list (list Z)) : len (concat rows) = 0 -> Forall (fun r => len r = 0) rows.
Proof.
  induction rows as [|r rows IH]; intros H; [constructor|].
  cbn [concat] in H. rewrite len_app in H. pose proof (len_nonneg r). pose proof (len_nonneg (concat rows)).
  constructor; [lia|]. apply IH. lia.
Qed.
Lemma spec_cols_empty rows : len (concat rows) = 0 -> spec_cols rows = [].
Proof.
  intros H. apply concat_empty_rows in H.
  assert (ncols rows <= 0).
  { unfold ncols. induction H as [|r rows Hr Hrows IH]; cbn; [lia|]. fold (maxZ (map len rows)). lia. }
  apply length_zero_iff_nil. rewrite length_spec_cols. lia.
Qed.
Lemma sn_padadd_nil_r x : sn_padadd x [] = x.
Proof. destruct x; reflexivity. Qed.

(* sum_and_n(axis=0) of one chromosome's rows *)
Definition rows_sn (rows : list (list Z)) : gval := op_sum_n0 [GR rows].

Lemma rows_sn_app a b : rows_sn (a ++ b) = red_mean_fixed (rows_sn a) (rows_sn b).
Proof.
  unfold rows_sn, op_sum_n0. rewrite concat_app, len_app.
  pose proof (len_nonneg (concat a)). pose proof (len_nonneg (concat b)).
  destruct (Z.eqb_spec (len (concat a)) 0) as [Ha|Ha]; destruct (Z.eqb_spec (len (concat b)) 0) as [Hb|Hb].
  - rewrite Ha, Hb. reflexivity.
  - rewrite Ha. cbn [Z.add]. destruct (Z.eqb_spec (len (concat b)) 0); [contradiction|].
    cbn [red_mean_fixed]. rewrite spec_cols_app, (spec_cols_empty a Ha). reflexivity.
  - rewrite Hb, Z.add_0_r. destruct (Z.eqb_spec (len (concat a)) 0); [contradiction|].
    cbn [red_mean_fixed]. rewrite spec_cols_app, (spec_cols_empty b Hb), sn_padadd_nil_r. reflexivity.
  - destruct (Z.eqb_spec (len (concat a) + len (concat b)) 0); [lia|].
    cbn [red_mean_fixed]. rewrite spec_cols_app. reflexivity.
Qed.

Lemma reduce_mean_fixed (rowss : list (list (list Z))) : rowss <> [] ->
  reduce1 red_mean_fixed (map rows_sn rowss) = Some (rows_sn (concat rowss)).
Proof. apply (reduce1_hom rows_sn red_mean_fixed rows_sn_app). Qed.

(* the pinned mean_reduction agrees when every chromosome with values has the same number of columns *)
Definition equal_columns (c : nat) (rowss : list (list (list Z))) : Prop :=
  Forall (fun rows => len (concat rows) = 0 \/ length (spec_cols rows) = c) rowss.
Definition in_class (c : nat) (v : gval) : Prop := v = GZ 0 \/ exists x, v = GSN x /\ length x = c.

Lemma rows_sn_class c rows : len (concat rows) = 0 \/ length (spec_cols rows) = c -> in_class c (rows_sn rows).
Proof.
  intros H. unfold rows_sn, op_sum_n0. destruct (Z.eqb_spec (len (concat rows)) 0) as [E|E]; [left; reflexivity|].
  destruct H as [H|H]; [contradiction|]. right. eauto.
Qed.
Lemma red_mean_class c a b : in_class c a -> in_class c b ->
  red_mean a b = red_mean_fixed a b /\ in_class c (red_mean_fixed a b).
Proof.
  intros [->|(x & -> & Hx)] [->|(y & -> & Hy)].
  - split; [reflexivity|left; reflexivity].
  - split; [reflexivity|right; exists y; split; [reflexivity|exact Hy]].
  - split; [reflexivity|right; exists x; split; [reflexivity|exact Hx]].
  - split.
    + apply red_mean_equal_lengths. lia.
    + right. eexists. split; [reflexivity|]. rewrite length_sn_padadd. lia.
Qed.
Lemma fold_mean_class c : forall vs acc, Forall (in_class c) vs -> in_class c acc ->
  fold_left red_mean vs acc = fold_left red_mean_fixed vs acc.
Proof.
  induction vs as [|v vs IH]; intros acc Hvs Hacc; [reflexivity|].
  inversion Hvs as [|? ? Hv Hrest]; subst. cbn [fold_left].
  destruct (red_mean_class c acc v Hacc Hv) as [E Hc]. rewrite E. apply IH; assumption.
Qed.
Lemma reduce_mean_pinned c (rowss : list (list (list Z))) : equal_columns c rowss ->
  reduce1 red_mean (map rows_sn rowss) = reduce1 red_mean_fixed (map rows_sn rowss).
Proof.
  intros H. destruct rowss as [|r rs]; [reflexivity|]. inversion H as [|? ? Hr Hrs]; subst.
  cbn [map reduce1]. f_equal. apply (fold_mean_class c).
  - apply Forall_forall. intros v Hv. apply in_map_iff in Hv. destruct Hv as (rows & <- & Hin).
    rewrite Forall_forall in Hrs. apply rows_sn_class. apply Hrs. exact Hin.
  - apply rows_sn_class. exact Hr.
Qed.

(* column sums with operator.add on RunLengthArrays: needs every chromosome to have windows and equal column counts *)
Definition full_columns (c : nat) (rowss : list (list (list Z))) : Prop :=
  Forall (fun rows => rows <> [] /\ length (spec_cols rows) = c) rowss.
Definition cols_of (rows : list (list Z)) : gval := GL (map fst (spec_cols rows)).

Lemma map_fst_padadd : forall x y : list (Z * Z), length x = length y ->
  map fst (sn_padadd x y) = vadd (map fst x) (map fst y).
Proof.
  induction x as [|p x IH]; intros [|q y] H; simpl in H; try lia; [reflexivity|].
  cbn [sn_padadd map vadd]. rewrite IH by lia. reflexivity.
Qed.
Lemma cols_of_app c a b : length (spec_cols a) = c -> length (spec_cols b) = c ->
  cols_of (a ++ b) = red_strict (cols_of a) (cols_of b) /\ length (spec_cols (a ++ b)) = c.
Proof.
  intros Ha Hb. unfold cols_of. rewrite spec_cols_app. split.
  - cbn [red_strict]. rewrite !map_length, Ha, Hb, Nat.eqb_refl. rewrite map_fst_padadd by lia. reflexivity.
  - rewrite length_sn_padadd. lia.
Qed.
Lemma op_colsums_nonempty rows : rows <> [] -> op_colsums [GR rows] = cols_of rows.
Proof. destruct rows; [congruence|reflexivity]. Qed.
Lemma fold_colsums c : forall rs acc, full_columns c rs -> length (spec_cols acc) = c ->
  fold_left red_strict (map (fun rows => op_colsums [GR rows]) rs) (cols_of acc) = cols_of (acc ++ concat rs).
Proof.
  induction rs as [|r rs IH]; intros acc Hrs Hacc.
  - cbn. rewrite app_nil_r. reflexivity.
  - apply Forall_cons_iff in Hrs. destruct Hrs as [[Hne Hr] Hrest]. cbn [map fold_left concat].
    rewrite (op_colsums_nonempty r Hne).
    destruct (cols_of_app _ acc r Hacc Hr) as [E Hl]. rewrite <- E.
    rewrite IH by assumption. rewrite app_assoc. reflexivity.
Qed.
Lemma reduce_colsums c (rowss : list (list (list Z))) : rowss <> [] -> full_columns c rowss ->
  reduce1 red_strict (map (fun rows => op_colsums [GR rows]) rowss) = Some (cols_of (concat rowss)).
Proof.
  intros Hne H. destruct rowss as [|r rs]; [congruence|]. apply Forall_cons_iff in H. destruct H as [[Hr1 Hr2] Hrest].
  cbn [map reduce1 concat]. f_equal. rewrite (op_colsums_nonempty r Hr1). apply (fold_colsums _ rs r Hrest Hr2).
Qed.

(* ---------- the reductions of np.sum after fix-3 ---------- *)
Definition rowsums_of (rows : list (list Z)) : gval := op_rowsums [GR rows].
Lemma rowsums_app_total a b : rowsums_of (a ++ b) = red_total (rowsums_of a) (rowsums_of b).
Proof. unfold rowsums_of. cbn [op_rowsums red_total]. rewrite map_app. reflexivity. Qed.
Lemma rowsums_app_rows a b : rowsums_of (a ++ b) = red_rows (rowsums_of a) (rowsums_of b).
Proof. unfold rowsums_of. cbn [op_rowsums red_rows]. rewrite map_app. reflexivity. Qed.
Lemma reduce_rowsums_total (rowss : list (list (list Z))) : rowss <> [] ->
  reduce1 red_total (map rowsums_of rowss) = Some (rowsums_of (concat rowss)).
Proof. apply (reduce1_hom rowsums_of red_total rowsums_app_total). Qed.
Lemma reduce_rowsums_rows (rowss : list (list (list Z))) : rowss <> [] ->
  reduce1 red_rows (map rowsums_of rowss) = Some (rowsums_of (concat rowss)).
Proof. apply (reduce1_hom rowsums_of red_rows rowsums_app_rows). Qed.

Definition colsums_of (rows : list (list Z)) : gval := op_colsums_fixed [GR rows].
Lemma map_fst_padadd_z : forall x y : list (Z * Z), map fst (sn_padadd x y) = z_padadd (map fst x) (map fst y).
Proof.
  induction x as [|p x IH]; intros [|q y]; try reflexivity.
  cbn [sn_padadd map z_padadd]. rewrite IH. reflexivity.
Qed.
Lemma colsums_app a b : colsums_of (a ++ b) = red_cols (colsums_of a) (colsums_of b).
Proof.
  unfold colsums_of. destruct a as [|ra a]; [destruct b; reflexivity|].
  destruct b as [|rb b]; [rewrite app_nil_r; reflexivity|].
  change ((ra :: a) ++ rb :: b) with (ra :: (a ++ rb :: b)).
  cbn [op_colsums_fixed red_cols].
  change (ra :: (a ++ rb :: b)) with ((ra :: a) ++ rb :: b).
  rewrite spec_cols_app, map_fst_padadd_z. reflexivity.
Qed.
Lemma reduce_colsums_fixed (rowss : list (list (list Z))) : rowss <> [] ->
  reduce1 red_cols (map colsums_of rowss) = Some (colsums_of (concat rowss)).
Proof. apply (reduce1_hom colsums_of red_cols colsums_app). Qed.
Lemma colsums_of_nonempty rows : rows <> [] -> colsums_of rows = GL (map fst (spec_cols rows)).
Proof. destruct rows; [congruence|reflexivity]. Qed.

(* ---------- finish: per-chromosome values -> the in-memory meaning ---------- *)
Definition chrom_rows (da db : list (Z * iv)) (nm s : Z) : list (list Z) :=
  values_under (coverage s (ivs_of nm da)) (ivs_of nm db).
Definition all_rows (order sizes : list Z) (da db : list (Z * iv)) : list (list (list Z)) :=
  map (fun '(nm, s) => chrom_rows da db nm s) (combine order sizes).

Lemma spec_vals order sizes da db :
  concat (map (fun '(name, t) => values_under t (ivs_of name db))
              (combine order (map (fun '(name, size) => coverage size (ivs_of name da)) (combine order sizes))))
  = concat (all_rows order sizes da db).
Proof.
  unfold all_rows. f_equal. rewrite combine_map_r, map_map. apply map_ext. intros [nm s]. reflexivity.
Qed.

Lemma finish_spec : forall p order sizes da db mean_red,
  length order = length sizes -> (0 < length sizes)%nat ->
  (p = PValuesMean0 -> reduce1 mean_red (map rows_sn (all_rows order sizes da db))
                       = reduce1 red_mean_fixed (map rows_sn (all_rows order sizes da db))) ->
  (p = PValuesSum0 -> concat (all_rows order sizes da db) <> []) ->
  (p = PValuesSumPinned -> length sizes = 1%nat) ->
  (p = PValuesSum0Pinned -> exists c, full_columns c (all_rows order sizes da db)) ->
  finish p mean_red (map (fun '(nm, s) => chrom_val p (ivs_of nm da) (ivs_of nm db) s) (combine order sizes))
  = Some (spec_pipeline p order sizes da db).
Proof.
  intros p order sizes da db mean_red Hlen Hpos Hmean Hrows Hsum Hsum0.
  set (L := combine order sizes).
  assert (HL : L <> []).
  { unfold L. destruct order; destruct sizes; simpl in *; try lia; discriminate. }
  set (T := fun '(name, size) => coverage size (ivs_of name da)).
  assert (Htr : map T L <> []) by (destruct L; [congruence|discriminate]).
  destruct p; cbn [finish chrom_val spec_pipeline].
  - (* pileup *) f_equal. f_equal. rewrite map_map. apply map_ext. intros [nm s]. reflexivity.
  - (* mask *) f_equal. f_equal. rewrite map_map. apply map_ext. intros [nm s]. reflexivity.
  - (* sum *)
    replace (map (fun '(nm, s) => GZ (sumZ (coverage s (ivs_of nm da)))) L) with (map (fun t => GZ (sumZ t)) (map T L))
      by (rewrite map_map; apply map_ext; intros [nm s]; reflexivity).
    apply reduce_sum. exact Htr.
  - (* histogram *)
    replace (map (fun '(nm, s) => GL (spec_hist k lo hi (coverage s (ivs_of nm da)))) L)
      with (map (fun t => GL (spec_hist k lo hi t)) (map T L))
      by (rewrite map_map; apply map_ext; intros [nm s]; reflexivity).
    apply reduce_hist. exact Htr.
  - (* histogram and sum *)
    replace (map (fun '(nm, s) => GT [GL (spec_hist k lo hi (coverage s (ivs_of nm da))); GZ (sumZ (coverage s (ivs_of nm da)))]) L)
      with (map (fun t => GT [GL (spec_hist k lo hi t); GZ (sumZ t)]) (map T L))
      by (rewrite map_map; apply map_ext; intros [nm s]; reflexivity).
    apply reduce_hist_sum. exact Htr.
  - (* values under the windows *)
    subst T L. rewrite (spec_vals order sizes da db). unfold all_rows.
    destruct (combine order sizes) as [|[nm s] L']; [congruence|]. cbn [map gconcat]. do 3 f_equal.
    f_equal. rewrite map_map. apply map_ext. intros [nm' s']. reflexivity.
  - (* mean over axis 0 of those values *)
    subst T L. rewrite (spec_vals order sizes da db).
    replace (map (fun '(nm, s) => op_sum_n0 [GR (values_under (coverage s (ivs_of nm da)) (ivs_of nm db))]) (combine order sizes))
      with (map rows_sn (all_rows order sizes da db))
      by (unfold all_rows; rewrite map_map; apply map_ext; intros [nm s]; reflexivity).
    rewrite (Hmean eq_refl). rewrite reduce_mean_fixed; [reflexivity|].
    unfold all_rows. destruct (combine order sizes); [congruence|discriminate].
  - (* np.sum of the values (after fix-3): the per-window sums follow each other *)
    subst T L. rewrite (spec_vals order sizes da db).
    replace (map (fun '(nm, s) => op_rowsums [GR (values_under (coverage s (ivs_of nm da)) (ivs_of nm db))]) (combine order sizes))
      with (map rowsums_of (all_rows order sizes da db))
      by (unfold all_rows; rewrite map_map; apply map_ext; intros [nm s]; reflexivity).
    rewrite reduce_rowsums_total; [reflexivity|].
    unfold all_rows. destruct (combine order sizes); [congruence|discriminate].
  - (* column sums (after fix-3): added column by column, chromosomes without windows are neutral *)
    subst T L. rewrite (spec_vals order sizes da db).
    replace (map (fun '(nm, s) => op_colsums_fixed [GR (values_under (coverage s (ivs_of nm da)) (ivs_of nm db))]) (combine order sizes))
      with (map colsums_of (all_rows order sizes da db))
      by (unfold all_rows; rewrite map_map; apply map_ext; intros [nm s]; reflexivity).
    rewrite reduce_colsums_fixed; [rewrite (colsums_of_nonempty _ (Hrows eq_refl)); reflexivity|].
    unfold all_rows. destruct (combine order sizes); [congruence|discriminate].
  - (* sum(axis=-1) (after fix-3): concatenation *)
    subst T L. rewrite (spec_vals order sizes da db).
    replace (map (fun '(nm, s) => op_rowsums [GR (values_under (coverage s (ivs_of nm da)) (ivs_of nm db))]) (combine order sizes))
      with (map rowsums_of (all_rows order sizes da db))
      by (unfold all_rows; rewrite map_map; apply map_ext; intros [nm s]; reflexivity).
    rewrite reduce_rowsums_rows; [reflexivity|].
    unfold all_rows. destruct (combine order sizes); [congruence|discriminate].
  - (* history: np.sum of the values with operator.add: one chromosome only *)
    subst T L. rewrite (spec_vals order sizes da db). unfold all_rows.
    specialize (Hsum eq_refl).
    destruct order as [|o1 [|o2 order']]; destruct sizes as [|s1 [|s2 sizes']]; simpl in Hlen, Hsum; try lia.
    cbn [combine map reduce1 fold_left concat op_rowsums]. rewrite app_nil_r. reflexivity.
  - (* column sums *)
    subst T L. rewrite (spec_vals order sizes da db).
    replace (map (fun '(nm, s) => op_colsums [GR (values_under (coverage s (ivs_of nm da)) (ivs_of nm db))]) (combine order sizes))
      with (map (fun rows => op_colsums [GR rows]) (all_rows order sizes da db))
      by (unfold all_rows; rewrite map_map; apply map_ext; intros [nm s]; reflexivity).
    destruct (Hsum0 eq_refl) as (c & Hc). rewrite (reduce_colsums c); [reflexivity| |exact Hc].
    unfold all_rows. destruct (combine order sizes); [congruence|discriminate].
Qed.

(* ---------- the end-to-end theorem ---------- *)
Lemma per_chromosome_ordered : forall order (cs : list (list (Z * iv))), NoDup order ->
  cs <> [] -> Forall (fun c => c <> []) cs -> ordered order (concat cs) ->
  per_chromosome order cs = map (fun nm => ivs_of nm (concat cs)) order.
Proof.
  intros order cs Hnd Hne Hall Hord.
  destruct (per_chromosome_chunking order cs Hne Hall) as [-> _].
  apply (walk_runs order (concat cs) Hnd Hord).
Qed.

(* at least one window in genome-ordered data gives at least one row *)
Lemma in_combine_exists {X Y} : forall (l1 : list X) (l2 : list Y) x, length l1 = length l2 -> In x l1 ->
  exists y, In (x, y) (combine l1 l2).
Proof.
  induction l1 as [|a l1 IH]; intros [|b l2] x Hlen Hin; simpl in Hlen; try discriminate; [contradiction|].
  destruct Hin as [->|Hin]; [exists b; left; reflexivity|].
  destruct (IH l2 x ltac:(lia) Hin) as (y & Hy). exists y. right. exact Hy.
Qed.
Lemma all_rows_nonempty order sizes da (db : list (Z * iv)) :
  length order = length sizes -> db <> [] -> ordered order db -> concat (all_rows order sizes da db) <> [].
Proof.
  intros Hlen Hne Hord. destruct db as [|e db']; [congruence|].
  assert (Hin : In (fst e) order) by (apply (ordered_keys order (e :: db') Hord e); left; reflexivity).
  destruct (in_combine_exists order sizes (fst e) Hlen Hin) as (s & Hs).
  intros Hnil. unfold all_rows in Hnil.
  assert (Hall : forall rows, In rows (map (fun '(nm, s0) => chrom_rows da (e :: db') nm s0) (combine order sizes)) -> rows = []).
  { clear - Hnil. induction (map (fun '(nm, s0) => chrom_rows da (e :: db') nm s0) (combine order sizes)) as [|r l IH];
      intros rows Hr; [contradiction|]. cbn [concat] in Hnil. apply app_eq_nil in Hnil. destruct Hnil as [H1 H2].
    destruct Hr as [<-|Hr]; [exact H1|apply IH; assumption]. }
  specialize (Hall (chrom_rows da (e :: db') (fst e) s)).
  assert (Hc : chrom_rows da (e :: db') (fst e) s = []).
  { apply Hall. apply in_map_iff. exists (fst e, s). split; [reflexivity|exact Hs]. }
  unfold chrom_rows, values_under, ivs_of in Hc. cbn [filter] in Hc. rewrite Z.eqb_refl in Hc. discriminate.
Qed.

Theorem pipeline_spec_with : forall mean_red p order sizes (csa csb : list (list (Z * iv))),
  NoDup order -> length order = length sizes -> (0 < length sizes)%nat ->
  csa <> [] -> csb <> [] -> Forall (fun c => c <> []) csa -> Forall (fun c => c <> []) csb ->
  ordered order (concat csa) -> ordered order (concat csb) ->
  (p = PValuesMean0 ->
     reduce1 mean_red (map rows_sn (all_rows order sizes (concat csa) (concat csb)))
     = reduce1 red_mean_fixed (map rows_sn (all_rows order sizes (concat csa) (concat csb)))) ->
  (p = PValuesSumPinned -> length sizes = 1%nat) ->
  (p = PValuesSum0Pinned -> exists c, full_columns c (all_rows order sizes (concat csa) (concat csb))) ->
  run_pipeline_with mean_red p order sizes csa csb
  = Some (spec_pipeline p order sizes (concat csa) (concat csb)).
Proof.
  intros mean_red p order sizes csa csb Hnd Hlen Hpos Ha Hb Hna Hnb Hoa Hob Hmean Hsum Hsum0.
  unfold run_pipeline_with.
  rewrite (per_chromosome_ordered order csa Hnd Ha Hna Hoa), (per_chromosome_ordered order csb Hnd Hb Hnb Hob).
  rewrite (surjective_pairing (pipeline_graph p sizes _ _)).
  rewrite (graph_values p order sizes (concat csa) (concat csb) Hlen Hpos).
  apply finish_spec; try assumption.
  intros _. apply all_rows_nonempty; [exact Hlen| |exact Hob].
  apply concat_nonempty; assumption.
Qed.

(* what the reductions need beyond genome order: NOTHING for every pipeline of the current code (mean_reduction was repaired by
   fix-2, the reductions of np.sum by fix-3).  Only the two history constructors that keep the reductions of np.sum as they were
   before fix-3 (reductions_map[np.sum] = operator.add) have a guard. *)
Definition pipeline_guard (p : pipeline) (order sizes : list Z) (da db : list (Z * iv)) : Prop :=
  match p with
  | PValuesSumPinned => length sizes = 1%nat                                        (* operator.add on per-window sums *)
  | PValuesSum0Pinned => exists c, full_columns c (all_rows order sizes da db)      (* operator.add on column sums *)
  | _ => True
  end.
(* history: the mean_reduction of the pinned commit added the column sums with `+` *)
Definition pipeline_guard_pinned (p : pipeline) (order sizes : list Z) (da db : list (Z * iv)) : Prop :=
  match p with
  | PValuesMean0 => exists c, equal_columns c (all_rows order sizes da db)
  | _ => pipeline_guard p order sizes da db
  end.

(* the current code *)
Theorem pipeline_spec_current : forall p order sizes (csa csb : list (list (Z * iv))),
  NoDup order -> length order = length sizes -> (0 < length sizes)%nat ->
  csa <> [] -> csb <> [] -> Forall (fun c => c <> []) csa -> Forall (fun c => c <> []) csb ->
  ordered order (concat csa) -> ordered order (concat csb) ->
  pipeline_guard p order sizes (concat csa) (concat csb) ->
  run_pipeline p order sizes csa csb = Some (spec_pipeline p order sizes (concat csa) (concat csb)).
Proof.
  intros p order sizes csa csb Hnd Hlen Hpos Ha Hb Hna Hnb Hoa Hob Hg.
  unfold run_pipeline, red_mean_current. apply pipeline_spec_with; auto; intros ->; exact Hg.
Qed.

(* history: the pinned mean_reduction under its guard *)
Theorem pipeline_spec_pinned : forall p order sizes (csa csb : list (list (Z * iv))),
  NoDup order -> length order = length sizes -> (0 < length sizes)%nat ->
  csa <> [] -> csb <> [] -> Forall (fun c => c <> []) csa -> Forall (fun c => c <> []) csb ->
  ordered order (concat csa) -> ordered order (concat csb) ->
  pipeline_guard_pinned p order sizes (concat csa) (concat csb) ->
  run_pipeline_with red_mean p order sizes csa csb = Some (spec_pipeline p order sizes (concat csa) (concat csb)).
Proof.
  intros p order sizes csa csb Hnd Hlen Hpos Ha Hb Hna Hnb Hoa Hob Hg.
  apply pipeline_spec_with; auto; intros ->; try exact Hg.
  destruct Hg as (c & Hc). apply (reduce_mean_pinned c). exact Hc.
Qed.

(* history: without the guard the pinned mean_reduction fails: windows of length 1 on chromosome 0 and 2 on chromosome 1 *)
Lemma pipeline_mean_refuted :
  exists order sizes (csa csb : list (list (Z * iv))),
    NoDup order /\ length order = length sizes /\ ordered order (concat csa) /\ ordered order (concat csb)
    /\ run_pipeline_with red_mean PValuesMean0 order sizes csa csb = Some GErr
    /\ spec_pipeline PValuesMean0 order sizes (concat csa) (concat csb) <> GErr.
Proof.
  exists [0; 1], [4; 4], [[(0, (0, 2)); (1, (1, 3))]], [[(0, (0, 1))]; [(1, (1, 3))]].
  split; [repeat constructor; simpl; intuition lia|]. split; [reflexivity|].
  split; [exists [(0, (0, 2))], [(1, (1, 3))]; repeat split; [repeat constructor|];
          exists [(1, (1, 3))], []; repeat split; repeat constructor|].
  split; [exists [(0, (0, 1))], [(1, (1, 3))]; repeat split; [repeat constructor|];
          exists [(1, (1, 3))], []; repeat split; repeat constructor|].
  split; [vm_compute; reflexivity|vm_compute; discriminate].
Qed.

(* HISTORY (the reductions before fix-3).  np.sum of the values under the windows: two chromosomes with one window each -> the per-window sums are ADDED
   (3 + 2) instead of listed; column sums: a chromosome without windows makes the streamed evaluation raise *)
Lemma pipeline_sum_refuted :
  exists order sizes (csa csb : list (list (Z * iv))),
    NoDup order /\ length order = length sizes /\ ordered order (concat csa) /\ ordered order (concat csb)
    /\ run_pipeline PValuesSumPinned order sizes csa csb = Some (GL [4])
    /\ spec_pipeline PValuesSumPinned order sizes (concat csa) (concat csb) = GL [2; 2]
    /\ run_pipeline PValuesSum0Pinned [0; 1] [4; 4] [[(0, (0, 2)); (1, (1, 3))]] [[(0, (0, 2))]] = Some GErr
    /\ spec_pipeline PValuesSum0Pinned [0; 1] [4; 4] [(0, (0, 2)); (1, (1, 3))] [(0, (0, 2))] = GL [1; 1].
Proof.
  exists [0; 1], [4; 4], [[(0, (0, 2)); (1, (1, 3))]], [[(0, (0, 2))]; [(1, (1, 3))]].
  split; [repeat constructor; simpl; intuition lia|]. split; [reflexivity|].
  split; [exists [(0, (0, 2))], [(1, (1, 3))]; repeat split; [repeat constructor|];
          exists [(1, (1, 3))], []; repeat split; repeat constructor|].
  split; [exists [(0, (0, 2))], [(1, (1, 3))]; repeat split; [repeat constructor|];
          exists [(1, (1, 3))], []; repeat split; repeat constructor|].
  repeat split; vm_compute; reflexivity.
Qed.

(* the reductions of np.sum after fix-3, without any guard: every genome, every chunking, chromosomes without windows,
   windows of unequal lengths *)
Theorem pipeline_sum_spec : forall p order sizes (csa csb : list (list (Z * iv))),
  p = PValuesSum \/ p = PValuesSum0 \/ p = PValuesSum1 ->
  NoDup order -> length order = length sizes -> (0 < length sizes)%nat ->
  csa <> [] -> csb <> [] -> Forall (fun c => c <> []) csa -> Forall (fun c => c <> []) csb ->
  ordered order (concat csa) -> ordered order (concat csb) ->
  run_pipeline p order sizes csa csb = Some (spec_pipeline p order sizes (concat csa) (concat csb)).
Proof.
  intros p order sizes csa csb Hp Hnd Hlen Hpos Ha Hb Hna Hnb Hoa Hob.
  apply pipeline_spec_current; auto. destruct Hp as [ -> | [ -> | -> ] ]; exact I.
Qed.

(* the same genomes on which the old reductions failed (pipeline_sum_refuted) *)
Lemma pipeline_sum_fixed_witness :
  run_pipeline PValuesSum [0; 1] [4; 4] [[(0, (0, 2)); (1, (1, 3))]] [[(0, (0, 2))]; [(1, (1, 3))]] = Some (GL [2; 2])
  /\ run_pipeline PValuesSum1 [0; 1] [4; 4] [[(0, (0, 2)); (1, (1, 3))]] [[(0, (0, 2))]; [(1, (1, 3))]] = Some (GL [2; 2])
  /\ run_pipeline PValuesSum0 [0; 1] [4; 4] [[(0, (0, 2)); (1, (1, 3))]] [[(0, (0, 2))]] = Some (GL [1; 1])
  /\ run_pipeline PValuesSum0 [0; 1] [4; 4] [[(0, (0, 2)); (1, (1, 3))]] [[(1, (0, 3))]] = Some (GL [0; 1; 1])
  /\ run_pipeline PValuesSum0 [0; 1] [4; 4] [[(0, (0, 2)); (1, (1, 3))]] [[(0, (0, 1))]; [(1, (1, 4))]] = Some (GL [2; 1; 0]).
Proof. repeat split; vm_compute; reflexivity. Qed.

Lemma sum_reductions_chunked : forall rowss : list (list (list Z)), rowss <> [] ->
  reduce1 red_total (map (fun rows => op_rowsums [GR rows]) rowss) = Some (GL (map sumZ (concat rowss)))
  /\ reduce1 red_rows (map (fun rows => op_rowsums [GR rows]) rowss) = Some (GL (map sumZ (concat rowss)))
  /\ (concat rowss <> [] ->
      reduce1 red_cols (map (fun rows => op_colsums_fixed [GR rows]) rowss) = Some (GL (map fst (spec_cols (concat rowss))))).
Proof.
  intros rowss Hne. split; [exact (reduce_rowsums_total rowss Hne)|]. split; [exact (reduce_rowsums_rows rowss Hne)|].
  intros Hc. change (map (fun rows => op_colsums_fixed [GR rows]) rowss) with (map colsums_of rowss).
  rewrite (reduce_colsums_fixed rowss Hne), (colsums_of_nonempty _ Hc). reflexivity.
Qed.

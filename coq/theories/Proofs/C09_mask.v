(* Proofs/C09_mask.v — get_mask end to end without hypotheses on the merge step.
   The sort is C09's own stable insertion sort (permutation + ordered by start, proved here); the merge walk
   [merge_from] of Model/C09.v is literally the scan [go 0] of Proofs/C08_merge.v (which C08 proves equal to the
   vectorised maximum.accumulate / mask code of merge_intervals, lemma merge_model_go), so the C08 lemmas about that scan
   (go_sep, go_bounds_le, go0_covered_le, sep_filter, covered_filter_nonempty) are imported and discharge what
   C09_mask_end_to_end_partial had to assume. *)
From Coq Require Import ZArith List Bool Lia Arith Permutation.
From BNP Require Import Base.Prims Base.PrimsFacts Model.C09 Proofs.C09 Proofs.C09_depth Proofs.C09_genome.
From BNP Require Model.C08 Proofs.C08 Proofs.C08_merge.
Import ListNotations.
Open Scope Z_scope.

Module M8 := BNP.Model.C08.
Module P8 := BNP.Proofs.C08.
Module G8 := BNP.Proofs.C08_merge.

(* the interval of a record, in C08's vocabulary *)
Definition iv2 (r : Z * Z * (Z * Z)) : M8.iv := (st r, en r).

Lemma map_fst_iv2 l : map fst (map iv2 l) = map st l.
Proof. rewrite map_map. apply map_ext. intros r. reflexivity. Qed.

(* ---------- C09's merge walk is C08's scan ---------- *)
Lemma merge_from_go : forall l cs ce, merge_from cs ce l = G8.go 0 cs ce (map iv2 l).
Proof.
  induction l as [|[[s e] v] l IH]; intros cs ce; [reflexivity|].
  cbn [merge_from map]. unfold iv2 at 1. unfold st, en. cbn [fst snd G8.go]. rewrite Z.add_0_r.
  destruct (ce <? s); rewrite IH; reflexivity.
Qed.

(* ---------- C09's sort: a permutation ordered by start ---------- *)
Lemma insert_sorted_perm r : forall l, Permutation (insert_sorted r l) (r :: l).
Proof.
  induction l as [|x t IH]; [apply Permutation_refl|]. cbn [insert_sorted].
  destruct (fst (fst x) <=? fst (fst r)); [|apply Permutation_refl].
  eapply Permutation_trans; [apply perm_skip; exact IH|apply perm_swap].
Qed.
Lemma sort_by_start_perm l : Permutation (sort_by_start l) l.
Proof.
  unfold sort_by_start. apply Permutation_trans with (rev l); [|apply Permutation_sym; apply Permutation_rev].
  generalize (rev l). intros l'. induction l' as [|x t IH]; [constructor|]. cbn [fold_right].
  eapply Permutation_trans; [apply insert_sorted_perm|apply perm_skip; exact IH].
Qed.
Lemma insert_sorted_sorted r : forall l, M8.sortedb Z.leb (map st l) = true -> M8.sortedb Z.leb (map st (insert_sorted r l)) = true.
Proof.
  induction l as [|x t IH]; intros H; [reflexivity|]. cbn [insert_sorted].
  change (fst (fst x)) with (st x). change (fst (fst r)) with (st r).
  cbn [map] in H. apply (P8.sortedb_cons Z.leb) in H. destruct H as [H1 H2].
  destruct (Z.leb_spec (st x) (st r)) as [L|L].
  - cbn [map]. apply (P8.sortedb_cons Z.leb). split; [|apply IH; exact H2].
    destruct t as [|y t']; cbn [insert_sorted map]; [apply Z.leb_le; exact L|].
    change (fst (fst y)) with (st y). change (fst (fst r)) with (st r).
    destruct (st y <=? st r); cbn [map]; [exact H1|apply Z.leb_le; exact L].
  - cbn [map]. apply (P8.sortedb_cons Z.leb). split; [apply Z.leb_le; lia|].
    apply (P8.sortedb_cons Z.leb). split; assumption.
Qed.
Lemma sort_by_start_sorted l : M8.sortedb Z.leb (map st (sort_by_start l)) = true.
Proof.
  unfold sort_by_start. generalize (rev l). intros l'. induction l' as [|x t IH]; [reflexivity|].
  cbn [fold_right]. apply insert_sorted_sorted. exact IH.
Qed.

(* ---------- C09's covers / any_at in C08's words ---------- *)
Lemma existsb_covers_recs p : forall recs, existsb (covers p) recs = M8.covered (map iv2 recs) p.
Proof.
  intros recs. rewrite <- G8.existsb_covers. induction recs as [|[[s e] v] l IH]; [reflexivity|].
  cbn [existsb map]. rewrite IH. reflexivity.
Qed.
Lemma existsb_covers_iv p value : forall ivs, existsb (covers p) (iv_recs value ivs) = M8.covered ivs p.
Proof.
  intros ivs. rewrite <- G8.existsb_covers. induction ivs as [|[s e] l IH]; [reflexivity|].
  cbn [existsb iv_recs map]. fold (iv_recs value l). rewrite IH. reflexivity.
Qed.

(* separated non-empty intervals inside [lo, size] are a sorted non-overlapping record list *)
Lemma sep_sorted_disjoint size : forall fo lo, G8.sep 0 fo ->
  (forall o, In o fo -> fst o < snd o /\ lo <= fst o /\ snd o <= size) ->
  sorted_disjoint lo (iv_recs vone fo) = true /\ all_le size (iv_recs vone fo) = true.
Proof.
  induction fo as [|[s e] t IH]; intros lo Hs Hb; [split; reflexivity|].
  pose proof (Hb (s, e) (or_introl eq_refl)) as H0. cbn [fst snd] in H0.
  assert (Hb' : forall o, In o t -> fst o < snd o /\ e <= fst o /\ snd o <= size).
  { intros o Ho. pose proof (Hb o (or_intror Ho)) as H1.
    pose proof (G8.sep_after_le (s, e) t Hs (fun j Hj => Z.lt_le_incl _ _ (proj1 (Hb j (or_intror Hj)))) o Ho) as H2.
    cbn [fst snd] in H2. lia. }
  destruct (IH e (G8.sep_tail _ _ _ Hs) Hb') as [I1 I2].
  cbn [iv_recs map sorted_disjoint all_le]. fold (iv_recs vone t). rewrite I1, I2, !andb_true_r. split.
  - apply andb_true_intro. split; [apply Z.leb_le|apply Z.ltb_lt]; lia.
  - apply Z.leb_le. lia.
Qed.

(* ---------- the three facts C09_mask_end_to_end_partial assumed ---------- *)
Theorem mask_merge_facts : forall recs size, 0 <= size ->
  (forall r, In r recs -> 0 <= st r /\ st r <= en r /\ en r <= size) ->
  let m := filter (fun '(s, e) => negb (s =? e)) (merge_sorted (sort_by_start recs)) in
  sorted_disjoint 0 (iv_recs vone m) = true /\ all_le size (iv_recs vone m) = true
  /\ (forall p, any_at (iv_recs vone m) p = any_at recs p).
Proof.
  intros recs size Hsize Hwf m.
  pose proof (sort_by_start_perm recs) as Hperm. pose proof (sort_by_start_sorted recs) as Hsorted.
  unfold m. clear m. destruct (sort_by_start recs) as [|[[s0 e0] v0] rest] eqn:Es.
  - apply Permutation_nil in Hperm. subst recs. cbn. repeat split; reflexivity.
  - cbn [merge_sorted]. rewrite merge_from_go.
    assert (Hwf' : forall i, In i (map iv2 ((s0, e0, v0) :: rest)) -> 0 <= fst i /\ fst i <= snd i /\ snd i <= size).
    { intros i Hi. apply in_map_iff in Hi. destruct Hi as [r [<- Hr]]. apply Hwf. apply (Permutation_in _ Hperm). exact Hr. }
    pose proof (Hwf' (s0, e0) (or_introl eq_refl)) as H0. cbn [fst snd] in H0.
    set (out := G8.go 0 s0 e0 (map iv2 rest)).
    assert (Hb : forall o, In o out -> fst o <= snd o /\ 0 <= fst o /\ snd o <= size).
    { intros o Ho. apply (G8.go_bounds_le 0 (map iv2 rest) s0 e0 0 size); try lia; try exact Ho.
      intros i Hi. specialize (Hwf' i (or_intror Hi)). lia. }
    assert (Ef : filter (fun '(s, e) => negb (s =? e)) out = filter (fun i : M8.iv => negb (fst i =? snd i)) out).
    { apply filter_ext. intros [s e]. reflexivity. }
    rewrite Ef. set (fo := filter (fun i : M8.iv => negb (fst i =? snd i)) out).
    assert (Hsep : G8.sep 0 fo) by (apply G8.sep_filter; [apply G8.go_sep|intros o Ho; apply (Hb o Ho)]).
    assert (Hfb : forall o, In o fo -> fst o < snd o /\ 0 <= fst o /\ snd o <= size).
    { intros o Ho. unfold fo in Ho. apply filter_In in Ho. destruct Ho as [Ho Hn]. specialize (Hb o Ho).
      apply negb_true_iff in Hn. apply Z.eqb_neq in Hn. lia. }
    destruct (sep_sorted_disjoint size fo 0 Hsep Hfb) as [S1 S2].
    split; [exact S1|]. split; [exact S2|].
    intros p. unfold any_at. f_equal. rewrite existsb_covers_iv, existsb_covers_recs.
    unfold fo. rewrite G8.covered_filter_nonempty by (intros o Ho; apply (Hb o Ho)).
    unfold out. cbn [map] in Hsorted.
    rewrite (G8.go0_covered_le (map iv2 rest) s0 e0 p).
    + rewrite <- (G8.covered_cons (s0, e0)). change ((s0, e0) :: map iv2 rest) with (map iv2 ((s0, e0, v0) :: rest)).
      apply G8.covered_perm. apply Permutation_map. exact Hperm.
    + rewrite map_fst_iv2. exact Hsorted.
    + intros i Hi. specialize (Hwf' i (or_intror Hi)). lia.
Qed.

(* ---------- get_mask end to end, unconditional ---------- *)
(* an interval row the library accepts: known chromosome, 0 <= start < chromosome size, start <= stop <= chromosome size *)
Definition iv_ok (sizes : list Z) (r : Z * Z * Z * (Z * Z)) : Prop :=
  let '(c, s, e, _) := r in 0 <= c < len sizes /\ 0 <= s < nthZ sizes c /\ s <= e <= nthZ sizes c.
Lemma iv_ok_in sizes r : iv_ok sizes r -> iv_in sizes r.
Proof. destruct r as [[[c s] e] v]. unfold iv_ok, iv_in. lia. Qed.

Theorem mask_end_to_end : forall sizes recs,
  all_pos sizes = true -> sizes <> [] -> (forall r, In r recs -> iv_ok sizes r) ->
  exists r, to_global sizes recs = Some (glob sizes recs)
            /\ boolean_mask (glob sizes recs) (total_size sizes) = Some (KB, r)
            /\ model_to_dict sizes r = spec_mask sizes recs.
Proof.
  intros sizes recs Hp Hne Hin.
  assert (Ht : 0 <= total_size sizes).
  { rewrite <- off_total. apply off_nonneg; [exact Hp|pose proof (len_nonneg sizes); lia]. }
  assert (Hg : forall r, In r (glob sizes recs) -> 0 <= st r /\ st r <= en r /\ en r <= total_size sizes).
  { intros r Hr. unfold glob in Hr. apply in_map_iff in Hr. destruct Hr as [[[[c s] e] v] [<- Hx]].
    specialize (Hin _ Hx). unfold iv_ok in Hin. unfold st, en, m_go_shift. cbn [fst snd].
    pose proof (off_end_le_total sizes c Hp ltac:(lia)). pose proof (off_nonneg sizes c Hp ltac:(lia)). lia. }
  destruct (mask_merge_facts (glob sizes recs) (total_size sizes) Ht Hg) as (A & B & C).
  exact (mask_genome_full sizes recs Hp Hne (fun r Hr => iv_ok_in sizes r (Hin r Hr)) A B C).
Qed.

(* ---------- back-conversion of the mask: get_data() of get_mask() ---------- *)
Lemma In_expand_from : forall rest e0 vs v, increasing_from e0 rest = true -> length rest = length vs ->
  In v vs -> In v (expand_from e0 rest vs).
Proof.
  induction rest as [|e rest IH]; intros e0 vs v Hi Hl Hv; [destruct vs; [destruct Hv|discriminate]|].
  destruct vs as [|v0 vs]; [destruct Hv|]. cbn [increasing_from] in Hi. apply andb_prop in Hi. destruct Hi as [H1 H2].
  apply Z.ltb_lt in H1. cbn [expand_from]. apply in_or_app. destruct Hv as [<-|Hv].
  - left. destruct (Z.to_nat (e - e0)) as [|k] eqn:Ek; [lia|]. left. reflexivity.
  - right. apply IH; [exact H2|simpl in Hl; lia|exact Hv].
Qed.
Lemma bool_valued_of_expand r (f : Z -> bool) n : wf_rle r = true -> expand r = tabulate (fun p => vbool (f p)) 0 n -> bool_valued r.
Proof.
  intros W X v Hv. unfold wf_rle in W. unfold expand in X. destruct (fst r) as [|e0 rest]; [discriminate|].
  apply andb_prop in W. destruct W as [W W3]. apply andb_prop in W. destruct W as [_ W2]. apply Z.eqb_eq in W3.
  assert (Hin : In v (expand_from e0 rest (snd r))) by (apply In_expand_from; [exact W2|unfold len in W3; lia|exact Hv]).
  rewrite X in Hin. unfold tabulate in Hin. apply in_map_iff in Hin. destruct Hin as [p [<- _]].
  destruct (f p); [right|left]; reflexivity.
Qed.

Theorem mask_back_conversion : forall sizes recs,
  all_pos sizes = true -> sizes <> [] -> (forall r, In r recs -> iv_ok sizes r) ->
  exists r, boolean_mask (glob sizes recs) (total_size sizes) = Some (KB, r)
    /\ let rows := model_get_data sizes KB r in
       chroms_sorted rows = true
       /\ (forall c, 0 <= c < len sizes ->
             sorted_disjoint 0 (on_chrom c rows) = true /\ all_le (nthZ sizes c) (on_chrom c rows) = true)
       /\ spec_track vzero sizes rows = spec_mask sizes recs.
Proof.
  intros sizes recs Hp Hne Hin.
  assert (Ht : 0 < total_size sizes).
  { destruct sizes as [|x l]; [congruence|]. pose proof (off_end_le_total (x :: l) 0 Hp ltac:(rewrite len_cons; pose proof (len_nonneg l); lia)).
    pose proof (size_pos (x :: l) 0 Hp ltac:(rewrite len_cons; pose proof (len_nonneg l); lia)). rewrite off_0 in H. lia. }
  assert (Hg : forall r, In r (glob sizes recs) -> 0 <= st r /\ st r <= en r /\ en r <= total_size sizes).
  { intros r Hr. unfold glob in Hr. apply in_map_iff in Hr. destruct Hr as [[[[c s] e] v] [<- Hx]].
    specialize (Hin _ Hx). unfold iv_ok in Hin. unfold st, en, m_go_shift. cbn [fst snd].
    pose proof (off_end_le_total sizes c Hp ltac:(lia)). pose proof (off_nonneg sizes c Hp ltac:(lia)). lia. }
  destruct (mask_merge_facts (glob sizes recs) (total_size sizes) ltac:(lia) Hg) as (A & B & C).
  destruct (mask_flat (glob sizes recs) (total_size sizes) Ht (fun r Hr => proj2 (proj2 (Hg r Hr))) A B C) as (r & E & W & L & X).
  exists r. split; [exact E|].
  assert (Hb : bool_valued r) by (apply (bool_valued_of_expand r (fun p => existsb (covers p) (glob sizes recs)) (total_size sizes) W); exact X).
  destruct (get_data_genome sizes KB r W Hp L (fun _ => Hb)) as (G1 & G2 & G3).
  cbv zeta. split; [exact G1|]. split; [exact G2|]. rewrite G3.
  apply mask_genome; try assumption. intros x Hx. apply iv_in_rec_in, iv_ok_in. apply Hin. exact Hx.
Qed.

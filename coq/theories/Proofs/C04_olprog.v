(* Proofs/C04_olprog.v — round 6: FASTQ / two-line FASTA, EVERY accepted program down to bytes: selections, replaced fields
   (lazy table: get_buffer joins the replaced columns with the text of the untouched fields read off the record bytes) and
   np.concatenate (no buffer.concatenate for the one-line buffers: every operand is parsed, the result is an EAGER table of
   field texts which later selections / replacements act on row by row; from_data re-joins the rows).
   Invariant proved by induction on the program: the table's rows of field texts (lazy_rows of a lazy state, the rows of an
   eager one) are exactly the entry fields of the rows the Spec's evaluation denotes. *)
From Coq Require Import ZArith List Bool Lia.
From BNP Require Import Base.Prims Base.PrimsFacts Model.C04 Proofs.C04 Proofs.C04_raw Proofs.C04_oneline Proofs.C04_repl.
Import ListNotations.
Open Scope Z_scope.

(* the entry fields (name, sequence[, quality]) among the columns of a record *)
Definition efields (f : fmt) (cols : list (list Z)) : list (list Z) :=
  match f with FFastq => [nth 0 cols []; nth 1 cols []; nth 3 cols []] | _ => [nth 0 cols []; nth 1 cols []] end.
Definition field_row (f : fmt) (v : list arow) (sv : setv) (k : nat) : list (list Z) :=
  map (fun i => match sv_get sv i with Some c => nth k c [] | None => a_field_text f i (nth k v dummy_arow) end) (arange (n_fields f)).

Lemma ol_width f v : oneline f -> width_ok f v.
Proof. destruct f; try contradiction; intros; exact Logic.I. Qed.

Lemma lazy_rows_fields f x sv : Inv x -> width_ok f (view x) ->
  lazy_rows f x sv = map (field_row f (view x) sv) (seq 0 (length (view x))).
Proof.
  intros Ix W. unfold lazy_rows, lazy_columns. rewrite transpose_n_seq.
  rewrite view_length by (destruct Ix; auto). apply map_ext. intros k. unfold field_row.
  rewrite map_map. apply map_ext_in. intros i Hi. apply In_arange_bounds in Hi.
  destruct (sv_get sv i); auto.
  rewrite field_text_view by auto.
  rewrite <- (a_field_text_dummy f i) at 1. apply map_nth.
Qed.

Lemma length_lazy_rows f x sv : length (lazy_rows f x sv) = length (x_es x).
Proof. unfold lazy_rows. rewrite transpose_n_seq, map_length, seq_length. reflexivity. Qed.
Lemma frows_length f st : length (frows f st) = n_rows st.
Proof. destruct st; simpl; [apply length_lazy_rows|reflexivity]. Qed.

Lemma nth_map_seq {A} (F : nat -> A) n k d : (k < n)%nat -> nth k (map F (seq 0 n)) d = F k.
Proof.
  intros H. rewrite (nth_indep _ d (F 0%nat)) by (rewrite map_length, seq_length; lia).
  rewrite (map_nth F (seq 0 n) 0%nat k). rewrite seq_nth by lia. reflexivity.
Qed.

Lemma takeA_default {A} (d d' : A) l sel : in_range (length l) sel -> takeA d l sel = takeA d' l sel.
Proof.
  intros H. unfold takeA. apply map_ext_in. intros i Hi. unfold in_range in H. rewrite Forall_forall in H.
  specialize (H i Hi). apply nth_indep. lia.
Qed.

(* ---------------- the lazy steps, on rows of field texts ---------------- *)
Lemma lazy_rows_getitem f x sv sel : oneline f -> Inv x -> in_range (length (x_es x)) sel ->
  lazy_rows f (getitem sel x) (map (fun kc => (fst kc, takeA [] (snd kc) sel)) sv) = takeA [] (lazy_rows f x sv) sel.
Proof.
  intros Hf Ix Hr. pose proof Ix as (S & _).
  rewrite !lazy_rows_fields by (auto using Inv_getitem, ol_width).
  rewrite view_getitem by auto.
  assert (Lv : length (view x) = length (x_es x)) by (apply view_length; auto).
  apply (nth_ext _ _ [] []).
  - rewrite map_length, seq_length, !takeA_length. reflexivity.
  - intros k Hk. rewrite map_length, seq_length, takeA_length in Hk.
    assert (Hin : 0 <= nth k sel 0 < Z.of_nat (length (x_es x))).
    { unfold in_range in Hr. rewrite Forall_forall in Hr. apply Hr. apply nth_In. exact Hk. }
    rewrite (nth_takeA []) by lia. rewrite takeA_length.
    rewrite !nth_map_seq by lia.
    unfold field_row. apply map_ext. intros i.
    rewrite (sv_get_map (fun c => takeA [] c sel)). destruct (sv_get sv i); simpl.
    + apply (nth_takeA []). lia.
    + f_equal. apply (nth_takeA dummy_arow). lia.
Qed.

Lemma lazy_rows_set f x sv j txt : oneline f -> Inv x -> 0 <= j < n_fields f -> length txt = length (x_es x) ->
  lazy_rows f x (sv_set sv j txt) = zip_with (fun row t => set_nth j t row) (lazy_rows f x sv) txt.
Proof.
  intros Hf Ix Hj Hl. pose proof Ix as (S & _).
  rewrite !lazy_rows_fields by (auto using ol_width).
  assert (Lv : length (view x) = length (x_es x)) by (apply view_length; auto).
  apply (nth_ext _ _ [] []).
  - rewrite zip_with_length, !map_length, seq_length. lia.
  - intros k Hk. rewrite map_length, seq_length in Hk.
    rewrite (nth_zip_with _ _ _ _ [] []) by (rewrite ?map_length, ?seq_length; lia).
    rewrite !nth_map_seq by lia. unfold field_row.
    rewrite set_nth_map_arange by auto. apply map_ext. intros i.
    rewrite sv_get_set. destruct (i =? j); reflexivity.
Qed.

Lemma lazy_rows_contiguous f x : oneline f -> Inv x -> lazy_rows f (contiguous x) [] = lazy_rows f x [].
Proof.
  intros Hf Ix. rewrite !lazy_rows_fields by (auto using Inv_contiguous, ol_width).
  rewrite view_contiguous by auto. reflexivity.
Qed.

(* ---------------- the fields of a record as read, off its own bytes ---------------- *)
Lemma slice_at (pre l post : list Z) st : st = len pre -> slice st (st + len l) (pre ++ l ++ post) = l.
Proof.
  intros ->. pose proof (len_nonneg l). replace (len pre) with (len pre + 0) at 1 by lia.
  rewrite slice_mid by lia. apply slice_full; lia.
Qed.

Lemma fq_f0 n s p q e : a_field 0 (gview FFastq {| g_cols := [n; s; p; q]; g_eol := e |}) = n.
Proof.
  unfold a_field, gview, g_raw, raw_of, plus_of. cbn [a_rec a_rel g_cols g_eol nth fst snd]. change (Z.to_nat 0) with 0%nat. cbn [nth fst snd].
  apply (slice_at [64] n). reflexivity.
Qed.
Lemma fq_f1 n s p q e : a_field 1 (gview FFastq {| g_cols := [n; s; p; q]; g_eol := e |}) = s.
Proof.
  unfold a_field, gview, g_raw, raw_of, plus_of. cbn [a_rec a_rel g_cols g_eol nth fst snd]. change (Z.to_nat 1) with 1%nat. cbn [nth fst snd].
  replace ([64] ++ n ++ e ++ s ++ e ++ [43] ++ p ++ e ++ q ++ e)
    with (([64] ++ n ++ e) ++ s ++ (e ++ [43] ++ p ++ e ++ q ++ e)) by (rewrite <- !app_assoc; reflexivity).
  apply slice_at. rewrite !len_app. change (len [64]) with 1. lia.
Qed.
Lemma fq_f3 n s p q e : a_field 3 (gview FFastq {| g_cols := [n; s; p; q]; g_eol := e |}) = q.
Proof.
  unfold a_field, gview, g_raw, raw_of, plus_of. cbn [a_rec a_rel g_cols g_eol nth fst snd]. change (Z.to_nat 3) with 3%nat. cbn [nth fst snd].
  replace ([64] ++ n ++ e ++ s ++ e ++ [43] ++ p ++ e ++ q ++ e)
    with (([64] ++ n ++ e ++ s ++ e ++ [43] ++ p ++ e) ++ q ++ e) by (rewrite <- !app_assoc; reflexivity).
  apply slice_at. rewrite !len_app. change (len [64]) with 1. change (len [43]) with 1. lia.
Qed.
Lemma fa_f0 n s e : a_field 0 (gview FFasta {| g_cols := [n; s]; g_eol := e |}) = n.
Proof.
  unfold a_field, gview, g_raw, raw_of, plus_of. cbn [a_rec a_rel g_cols g_eol nth fst snd]. change (Z.to_nat 0) with 0%nat. cbn [nth fst snd].
  apply (slice_at [62] n). reflexivity.
Qed.
Lemma fa_f1 n s e : a_field 1 (gview FFasta {| g_cols := [n; s]; g_eol := e |}) = s.
Proof.
  unfold a_field, gview, g_raw, raw_of, plus_of. cbn [a_rec a_rel g_cols g_eol nth fst snd]. change (Z.to_nat 1) with 1%nat. cbn [nth fst snd].
  replace ([62] ++ n ++ e ++ s ++ e) with (([62] ++ n ++ e) ++ s ++ e) by (rewrite <- !app_assoc; reflexivity).
  apply slice_at. rewrite !len_app. change (len [62]) with 1. lia.
Qed.

Lemma ol_field_gview f cr g : oneline f -> ol_rec_wf f cr g ->
  map (fun i => a_field_text f i (gview f g)) (arange (n_fields f)) = efields f (g_cols g).
Proof.
  intros Hf (HL & _ & _). destruct g as [cols eol]. cbn [g_cols g_eol] in *. destruct f; try contradiction.
  - destruct cols as [|n [|s [|p [|q [|? ?]]]]]; try discriminate.
    change (arange (n_fields FFastq)) with [0; 1; 2]. cbn [map]. unfold a_field_text.
    change (0 =? 2) with false. change (1 =? 2) with false. change (2 =? 2) with true. cbv iota.
    rewrite fq_f0, fq_f1, fq_f3. reflexivity.
  - destruct cols as [|n [|s [|? ?]]]; try discriminate.
    change (arange (n_fields FFasta)) with [0; 1]. cbn [map]. unfold a_field_text.
    rewrite fa_f0, fa_f1. reflexivity.
Qed.

Lemma lazy_rows_src f cr recs x0 : oneline f -> Inv x0 -> view x0 = map (gview f) recs -> Forall (ol_rec_wf f cr) recs ->
  lazy_rows f x0 [] = map (fun g => efields f (g_cols g)) recs.
Proof.
  intros Hf I0 V0 H. rewrite lazy_rows_fields by (auto using ol_width). rewrite V0, map_length.
  rewrite <- (map_nth_seq (fun g => efields f (g_cols g)) dummy_grec recs).
  apply map_ext_in. intros k Hk. apply in_seq in Hk. unfold field_row. cbn [sv_get].
  assert (Hin : In (nth k recs dummy_grec) recs) by (apply nth_In; lia).
  replace (nth k (map (gview f) recs) dummy_arow) with (gview f (nth k recs dummy_grec)).
  - rewrite Forall_forall in H. apply (ol_field_gview f cr); auto.
  - rewrite (nth_indep _ dummy_arow (gview f dummy_grec)) by (rewrite map_length; lia). symmetry. apply map_nth.
Qed.

(* ---------------- rows at specification level ---------------- *)
Definition okrow (f : fmt) (e : list Z) (r : srow) : Prop :=
  length (s_cols r) = ol_k f /\ s_eol r = e /\ Forall (fun b => b <> LF) (plus_of f (s_cols r)).

Lemma efields_set f cols j t : oneline f -> length cols = ol_k f -> 0 <= j < n_fields f ->
  set_nth j t (efields f cols) = efields f (set_nth (col_of_field f j) t cols).
Proof.
  intros Hf HL Hj. destruct f; try contradiction; simpl in HL, Hj.
  - destruct cols as [|n [|s [|p [|q [|? ?]]]]]; try discriminate.
    assert (Hc : j = 0 \/ j = 1 \/ j = 2) by lia. destruct Hc as [-> | [-> | ->]]; reflexivity.
  - destruct cols as [|n [|s [|? ?]]]; try discriminate.
    assert (Hc : j = 0 \/ j = 1) by lia. destruct Hc as [-> | ->]; reflexivity.
Qed.

Lemma okrow_subst f e r j t : oneline f -> 0 <= j < n_fields f -> okrow f e r -> okrow f e (subst_row f j r t).
Proof.
  intros Hf Hj (HL & He & Hp). destruct r as [cols raw eol]. cbn [s_cols s_eol] in *.
  unfold okrow, subst_row; cbn [s_cols s_eol]. destruct f; try contradiction; simpl in HL, Hj.
  - destruct cols as [|n [|s [|p [|q [|? ?]]]]]; try discriminate.
    assert (Hc : j = 0 \/ j = 1 \/ j = 2) by lia. destruct Hc as [-> | [-> | ->]]; repeat split; auto.
  - destruct cols as [|n [|s [|? ?]]]; try discriminate.
    assert (Hc : j = 0 \/ j = 1) by lia. destruct Hc as [-> | ->]; repeat split; auto.
Qed.

Lemma zip_subst_fields f e j : oneline f -> 0 <= j < n_fields f -> forall r txt, Forall (okrow f e) r ->
  zip_with (fun row t => set_nth j t row) (map (fun r0 => efields f (s_cols r0)) r) txt
  = map (fun r0 => efields f (s_cols r0)) (zip_with (subst_row f j) r txt)
  /\ Forall (okrow f e) (zip_with (subst_row f j) r txt).
Proof.
  intros Hf Hj r. induction r as [|a r IH]; intros txt H; [split; [reflexivity|constructor]|].
  destruct txt as [|t txt]; [split; [reflexivity|constructor]|].
  inversion H as [|? ? Ha Hr]; subst. destruct (IH txt Hr) as (A & B). cbn [map zip_with]. split.
  - f_equal; [|exact A]. unfold subst_row; cbn [s_cols]. apply efields_set; auto. destruct Ha; auto.
  - constructor; [apply okrow_subst; auto|exact B].
Qed.

(* ---------------- np.concatenate of one-line tables: always an eager table of the operands' rows ---------------- *)
Lemma cat_lazy_rows f sts : forall lz, all_some (map as_lazy sts) = Some lz ->
  map (fun xs : ext * setv => lazy_rows f (fst xs) (snd xs)) lz = map (frows f) sts.
Proof.
  induction sts as [|s sts IH]; intros lz H; simpl in H.
  - inversion H; reflexivity.
  - destruct s as [x sv|r]; simpl in H; try discriminate.
    destruct (all_some (map as_lazy sts)) as [lz'|] eqn:E; try discriminate. inversion H; subst.
    simpl. f_equal. apply IH. reflexivity.
Qed.
Lemma cat_eager_rows f sts : forall es, all_some (map as_eager sts) = Some es -> es = map (frows f) sts.
Proof.
  induction sts as [|s sts IH]; intros es H; simpl in H.
  - inversion H; reflexivity.
  - destruct s as [x sv|r]; simpl in H; try discriminate.
    destruct (all_some (map as_eager sts)) as [es'|] eqn:E; try discriminate. inversion H; subst.
    simpl. f_equal. apply IH. reflexivity.
Qed.

Definition st_ok (st : state) : Prop := match st with SLazy x _ => Inv x | SEager _ => True end.
Definition modified (st : state) : bool := match st with SLazy _ [] => false | _ => true end.

Section OneLinePrograms.
Context (f : fmt) (e : list Z) (recs : list grec) (x0 : ext).
Hypothesis Hf : oneline f.
Hypothesis I0 : Inv x0.
Hypothesis R0 : lazy_rows f x0 [] = map (fun g => efields f (g_cols g)) recs.
Hypothesis K0 : Forall (okrow f e) (map (srow_of f) recs).
Let src := map (srow_of f) recs.
Let FR := fun r : srow => efields f (s_cols r).

Lemma ol_inplace : inplace_compaction f = true.
Proof. destruct f; try contradiction; reflexivity. Qed.
Lemma ol_nocat : has_concatenate f = false /\ is_oneline f = true.
Proof. destruct f; try contradiction; split; reflexivity. Qed.

Lemma ol_run : forall p st, fields_ok (n_fields f) p = true -> run f (SLazy x0 []) p = Some st ->
  frows f st = map FR (fst (spec_eval f src p)) /\ Forall (okrow f e) (fst (spec_eval f src p)) /\ st_ok st
  /\ (snd (spec_eval f src p) = false -> modified st = true).
Proof.
  induction p as [|sel p IH|ps IH|j txt p IH|p IH] using prog_ind'; intros st Hfo H.
  - simpl in H. inversion H; subst st. simpl. split; [|split; [exact K0|split; [exact I0|discriminate]]].
    rewrite R0. unfold src, FR. rewrite map_map. reflexivity.
  - simpl in H. destruct (run f (SLazy x0 []) p) as [s|] eqn:E; try discriminate.
    simpl in Hfo. destruct (IH s Hfo eq_refl) as (A & B & C & D).
    destruct (forallb _ sel) eqn:Hr; try discriminate. apply in_range_forallb in Hr.
    simpl. destruct (spec_eval f src p) as [r b]. cbn [fst snd] in *.
    assert (Lr : length r = n_rows s) by (rewrite <- frows_length with (f := f), A, map_length; reflexivity).
    assert (Hr' : in_range (length r) sel) by (rewrite Lr; exact Hr).
    assert (T : takeA [] (map FR r) sel = map FR (takeA dummy_srow r sel)).
    { rewrite map_takeA. apply takeA_default. rewrite map_length. exact Hr'. }
    split; [|split; [apply Forall_takeA; auto|]].
    + destruct s as [x sv|r0]; inversion H; subst st; cbn [frows] in *.
      * rewrite lazy_rows_getitem by auto. rewrite A. exact T.
      * rewrite A. exact T.
    + destruct s as [x sv|r0]; inversion H; subst st; cbn [st_ok modified] in *.
      * split; [apply Inv_getitem; auto|]. intros Hb. specialize (D Hb). destruct sv; [discriminate|reflexivity].
      * split; auto.
  - (* np.concatenate *)
    simpl in H. simpl in Hfo.
    destruct (all_some (map (run f (SLazy x0 [])) ps)) as [sts|] eqn:E; try discriminate.
    apply all_some_Forall2 in E.
    assert (G : Forall2 (fun q s => frows f s = map FR (fst (spec_eval f src q)) /\ Forall (okrow f e) (fst (spec_eval f src q))) ps sts).
    { clear H. induction E as [|q s ps sts Hq E IHE]; [constructor|].
      inversion IH as [|? ? IHq IHps]; subst. simpl in Hfo. apply andb_true_iff in Hfo. destruct Hfo as (Hq1 & Hq2).
      destruct (IHq s Hq1 Hq) as (A & B & _). constructor; [split; auto|]. apply IHE; auto. }
    assert (Hst : st = SEager (concat (map (frows f) sts))).
    { destruct ol_nocat as (Hc1 & Hc2). rewrite Hc1, Hc2 in H.
      destruct (all_some (map as_lazy sts)) as [lz|] eqn:EL.
      - inversion H. rewrite (cat_lazy_rows f sts lz EL). reflexivity.
      - destruct (all_some (map as_eager sts)) as [es|] eqn:EE.
        + inversion H. rewrite (cat_eager_rows f sts es EE). reflexivity.
        + inversion H. reflexivity. }
    subst st. cbn [frows st_ok modified spec_eval fst snd]. clear H E IH Hfo.
    split; [|split; [|split; auto]].
    + induction G as [|q s ps sts (A & _) _ IHG]; [reflexivity|]. cbn [map concat]. rewrite map_app, A, IHG. reflexivity.
    + induction G as [|q s ps sts (_ & B) _ IHG]; [constructor|]. cbn [map concat]. apply Forall_app. split; auto.
  - simpl in H. destruct (run f (SLazy x0 []) p) as [s|] eqn:E; try discriminate.
    simpl in Hfo. apply andb_true_iff in Hfo. destruct Hfo as (Hj & Hfo). apply andb_true_iff in Hj.
    assert (Hj' : 0 <= j < n_fields f) by lia.
    destruct (IH s Hfo eq_refl) as (A & B & C & D).
    destruct (Nat.eqb_spec (length txt) (n_rows s)) as [Hl|Hl]; simpl in H; try discriminate.
    simpl. destruct (spec_eval f src p) as [r b]. cbn [fst snd] in *.
    destruct (zip_subst_fields f e j Hf Hj' r txt B) as (Z1 & Z2). fold FR in Z1.
    split; [|split; [exact Z2|]].
    + destruct s as [x sv|r0]; inversion H; subst st; cbn [frows] in *.
      * rewrite lazy_rows_set by auto. rewrite A. exact Z1.
      * rewrite A. exact Z1.
    + destruct s as [x sv|r0]; inversion H; subst st; cbn [st_ok modified] in *; split; auto.
  - simpl in H. destruct (run f (SLazy x0 []) p) as [s|] eqn:E; try discriminate.
    simpl in Hfo. destruct (IH s Hfo eq_refl) as (A & B & C & D). inversion H; subst st.
    simpl. unfold touch. rewrite ol_inplace.
    destruct s as [x [|kc sv]|r0]; cbn [frows st_ok modified] in *.
    + rewrite lazy_rows_contiguous by auto. split; [exact A|]. split; [exact B|]. split; [apply Inv_contiguous; auto|exact D].
    + auto.
    + auto.
Qed.
End OneLinePrograms.

Lemma write_modified v f st out : oneline f -> modified st = true ->
  write v f st = Some out -> out = concat (map (join_row v f) (frows f st)).
Proof.
  intros Hf Hm H. destruct st as [x [|kc sv]|r]; try discriminate; destruct f; try contradiction; unfold write in H;
    try (destruct (negb (v_lazyqual v) && refused_lazy _ x (kc :: sv)); [discriminate|]); inversion H; reflexivity.
Qed.
(* with the repaired get_column (v_lazyqual) nothing is refused: every modified one-line table is written *)
Lemma write_modified_total v f st : oneline f -> v_lazyqual v = true -> modified st = true ->
  write v f st = Some (concat (map (join_row v f) (frows f st))).
Proof.
  intros Hf Hv Hm. destruct st as [x [|kc sv]|r]; try discriminate; destruct f; try contradiction; unfold write; rewrite ?Hv; reflexivity.
Qed.

Lemma write_total v f st : oneline f -> v_lazyqual v = true -> exists out, write v f st = Some out.
Proof.
  intros Hf Hv. destruct st as [x [|kc sv]|r]; destruct f; try contradiction; unfold write; rewrite ?Hv; eexists; reflexivity.
Qed.

(* ---------------- the Spec's matcher accepts the re-joined rows ---------------- *)
Lemma is_prefix_app_both A : forall B C, is_prefix (A ++ B) (A ++ C) = is_prefix B C.
Proof. induction A as [|a A IH]; intros B C; simpl; auto. rewrite Z.eqb_refl. apply IH. Qed.

Definition variant_of (J V : list Z) : Prop :=
  V = J \/ exists A c P Q, c <> LF /\ V = A ++ c :: P /\ J = A ++ LF :: Q.

Lemma variant_prefix J V rest : variant_of J V -> is_prefix V (J ++ rest) = Some rest \/ is_prefix V (J ++ rest) = None.
Proof.
  intros [-> | (A & c & P & Q & Hc & -> & ->)]; [left; apply is_prefix_app|right].
  rewrite <- app_assoc. rewrite is_prefix_app_both. simpl. destruct (Z.eqb_spec c LF); [contradiction|reflexivity].
Qed.

Lemma first_some_variants J rest vs : Forall (variant_of J) vs -> In J vs ->
  first_some (map (fun V => is_prefix V (J ++ rest)) vs) = Some rest.
Proof.
  induction 1 as [|V vs HV _ IH]; intros Hin; [contradiction|].
  cbn [map first_some]. destruct (variant_prefix J V rest HV) as [E | E]; rewrite E; [reflexivity|].
  destruct Hin as [-> | Hin]; [|auto].
  rewrite is_prefix_app in E. discriminate.
Qed.

Lemma ol_variants v f e r : oneline f -> (e = [LF] \/ e = [CR; LF]) -> okrow f e r ->
  Forall (variant_of (join_row v f (efields f (s_cols r)))) (row_variants f r)
  /\ In (join_row v f (efields f (s_cols r))) (row_variants f r).
Proof.
  intros Hf He (HL & Hee & Hp). destruct r as [cols raw eol]. cbn [s_cols s_eol] in *. subst eol.
  assert (CRLF : CR <> LF) by (unfold CR, LF; lia).
  destruct f; try contradiction; simpl in HL.
  - destruct cols as [|n [|s [|p [|q [|? ?]]]]]; try discriminate.
    unfold row_variants, efields, join_row, raw_of, plus_of in *. cbn [s_cols s_eol nth flat_map app] in *.
    set (J := [64] ++ n ++ [LF] ++ s ++ [LF] ++ [43] ++ [LF] ++ q ++ [LF]).
    assert (V3 : variant_of J ([64] ++ n ++ [LF] ++ s ++ [LF] ++ [43] ++ p ++ [LF] ++ q ++ [LF])).
    { destruct p as [|c p']; [left; reflexivity|right].
      exists ([64] ++ n ++ [LF] ++ s ++ [LF] ++ [43]), c, (p' ++ [LF] ++ q ++ [LF]), (q ++ [LF]).
      split; [inversion Hp; auto|]. split; unfold J; rewrite <- ?app_assoc; reflexivity. }
    assert (V4 : variant_of J ([64] ++ n ++ [LF] ++ s ++ [LF] ++ [43] ++ [] ++ [LF] ++ q ++ [LF])) by (left; reflexivity).
    destruct He as [-> | ->].
    + split; [constructor; [exact V3|constructor; [exact V4|constructor; [exact V3|constructor; [exact V4|constructor]]]]|].
      right; left. reflexivity.
    + split; [|right; right; right; left; reflexivity].
      constructor; [|constructor; [|constructor; [exact V3|constructor; [exact V4|constructor]]]]; right.
      * exists ([64] ++ n), CR, ([LF] ++ s ++ [CR; LF] ++ [43] ++ p ++ [CR; LF] ++ q ++ [CR; LF]), (s ++ [LF] ++ [43] ++ [LF] ++ q ++ [LF]).
        split; [exact CRLF|]. split; unfold J; rewrite <- ?app_assoc; reflexivity.
      * exists ([64] ++ n), CR, ([LF] ++ s ++ [CR; LF] ++ [43] ++ [] ++ [CR; LF] ++ q ++ [CR; LF]), (s ++ [LF] ++ [43] ++ [LF] ++ q ++ [LF]).
        split; [exact CRLF|]. split; unfold J; rewrite <- ?app_assoc; reflexivity.
  - destruct cols as [|n [|s [|? ?]]]; try discriminate.
    unfold row_variants, efields, join_row, raw_of in *. cbn [s_cols s_eol nth map] in *.
    set (J := [62] ++ n ++ [LF] ++ s ++ [LF]).
    destruct He as [-> | ->].
    + split; [constructor; [left; reflexivity|constructor; [left; reflexivity|constructor]]|left; reflexivity].
    + split; [|right; left; reflexivity].
      constructor; [|constructor; [left; reflexivity|constructor]]. right.
      exists ([62] ++ n), CR, ([LF] ++ s ++ [CR; LF]), (s ++ [LF]).
      split; [exact CRLF|]. split; unfold J; rewrite <- ?app_assoc; reflexivity.
Qed.

Lemma match_rows_ol v f e rows : oneline f -> (e = [LF] \/ e = [CR; LF]) -> Forall (okrow f e) rows ->
  match_rows f rows (concat (map (fun r => join_row v f (efields f (s_cols r))) rows)) = true.
Proof.
  intros Hf He H. induction H as [|r rows Hr _ IH]; [reflexivity|].
  cbn [match_rows map concat]. destruct (ol_variants v f e r Hf He Hr) as (A & B).
  rewrite (first_some_variants _ _ _ A B). exact IH.
Qed.

(* ---------------- FILE BYTES -> WRITTEN BYTES, every accepted program ---------------- *)
Theorem oneline_program_end_to_end v f cr recs p out :
  oneline f -> recs <> [] -> (cr = [] \/ cr = [CR]) -> Forall (ol_rec_wf f cr) recs ->
  fields_ok (n_fields f) p = true ->
  model_out_v v f (layout f recs) p = Some out -> spec_out_ok f recs p (Some out) = true.
Proof.
  intros Hf Hn Hcr H Hfo Hm.
  destruct (from_oneline_grec f cr recs Hf Hn Hcr H) as (x0 & Hx & I0 & V0 & _).
  assert (Hread : read v f (layout f recs) = Some (SLazy x0 [])).
  { destruct f; try contradiction; exact Hx. }
  unfold model_out_v in Hm. rewrite Hread in Hm.
  destruct (run f (SLazy x0 []) p) as [st|] eqn:Hrun; try discriminate.
  assert (He : cr ++ [LF] = [LF] \/ cr ++ [LF] = [CR; LF]) by (destruct Hcr as [-> | ->]; auto).
  assert (K0 : Forall (okrow f (cr ++ [LF])) (map (srow_of f) recs)).
  { rewrite Forall_map. eapply Forall_impl; [|exact H]. intros g (HL & Hc & Hee).
    unfold okrow, srow_of; cbn [s_cols s_eol]. split; [exact HL|]. split; [exact Hee|].
    destruct f; try contradiction; simpl; [|constructor].
    pose proof (clean_nth (g_cols g) 2 Hc) as Hcl. eapply Forall_impl; [|exact Hcl]. intros b (_ & Hb & _). exact Hb. }
  pose proof (lazy_rows_src f cr recs x0 Hf I0 V0 H) as R0.
  destruct (ol_run f (cr ++ [LF]) recs x0 Hf I0 R0 K0 p st Hfo Hrun) as (A & B & _ & D).
  unfold spec_out_ok.
  destruct (spec_eval f (map (srow_of f) recs) p) as [rows pure] eqn:Esp. cbn [fst snd] in *.
  destruct pure.
  - assert (Hp : snd (spec_eval f (map (srow_of f) recs) p) = true) by (rewrite Esp; reflexivity).
    destruct (pure_flag _ _ _ Hp) as (Hcf & Hrf).
    pose proof (selection_meets_spec v f recs x0 p out I0 (ol_width f _ Hf) V0 Hcf Hrf) as S. rewrite Hrun in S. specialize (S Hm).
    unfold spec_out_ok in S. rewrite Esp in S. exact S.
  - apply (write_modified v f st out Hf (D eq_refl)) in Hm. subst out.
    rewrite A, map_map. apply (match_rows_ol v f (cr ++ [LF])); auto.
Qed.

(* Proofs/C01_lines.v — the line-oriented reader theorem, generic in the format's cut function, and its
   instance for the n-lines-per-record formats (FASTQ, two-line FASTA). *)
From Coq Require Import ZArith List Bool Arith Lia.
From BNP Require Import Base.Prims Base.PrimsFacts Model.C01 Proofs.C01 Proofs.C01_delim.
Import ListNotations.

Section Generic.
Variable f : fmt.
Variable G : list Z -> Prop.      (* what every delivered chunk satisfies *)
Variable W : list Z -> Prop.      (* "the rest of the text is whole records" *)
Hypothesis Hm : marker f = [].
Hypothesis HcutG : forall chunk size nl, cut f chunk = CutOk size nl ->
  G (firstn size chunk) /\ ends_nl (firstn size chunk) = true.
Hypothesis Hfull : forall chunk size nl, cut f chunk = CutOk size nl ->
  ends_nl chunk = true -> W chunk -> size = length chunk.
Hypothesis Hcomp : forall Y, ends_nl Y = true -> W Y -> complete f [Y] <> CNo.
Hypothesis HW : forall D b, Forall G D -> W (concat D ++ b) -> W b.

Lemma norm_text_term_gen file : file <> [] -> norm_text file = file ++ terminator f file.
Proof.
  intros Hf. unfold norm_text, terminator, ends_nl. rewrite Hm, app_nil_r.
  destruct file; [congruence|]. destruct (last (z :: file) 0 =? 10)%Z; [rewrite app_nil_r|]; reflexivity.
Qed.

Lemma read_chunk_lines m k file st D : (1 <= k)%nat -> Inv m file st D -> Forall G D -> W (norm_text file) ->
  match read_chunk true f m k file st with
  | RChunk b dropped app st' =>
      G b /\ ends_nl b = true /\ (r_finished st' = true -> dropped = [] /\ concat D ++ b = norm_text file)
  | RNone dropped app st' => dropped = [] /\ app = []
  | _ => True
  end.
Proof.
  intros Hk HI HD HWf.
  pose proof (read_chunk_spec true f m k file st D Hk HI) as HGs.
  unfold read_chunk in *. unfold m_is_finished, m_reported, m_lines_after, m_incomplete_line, m_pending_incomplete_line, m_oneline_incomplete, m_oneline_kept, m_size_after, m_header_line, m_plus_line in *.
  set (temp0 := match r_prepend st with [] => [] | p => [p] end) in *.
  assert (Ht0 : concat temp0 = r_prepend st ++ []).
  { unfold temp0. destruct (r_prepend st); [reflexivity|]. cbn [concat]. reflexivity. }
  assert (Hne0 : Forall (fun c => c <> []) temp0).
  { unfold temp0. destruct (r_prepend st); [constructor|]. constructor; [discriminate|constructor]. }
  pose proof (accumulate_spec true f k file (r_lines st) Hk (length file + 2) (r_pos st) temp0 false [] (r_prepend st) Ht0 (or_introl eq_refl)) as HA.
  pose proof (accumulate_term f k file (r_lines st) Hm Hk (length file + 2) (r_pos st) temp0 false [] (r_prepend st) Ht0 Hne0 (or_introl eq_refl) ltac:(discriminate)) as HT.
  destruct (accumulate true (length file + 2) f k file (r_lines st) (r_pos st) temp0 false []) as [temp pos' fin app|pending app|l|];
    cbn [acc_post term_post] in *; try exact I.
  - destruct HA as (Hle & Hle2 & Hcc & Hf1 & Hf2).
    destruct (cut f (concat temp)) as [size nl| | |l] eqn:Ecut; try exact I.
    destruct (HcutG (concat temp) size nl Ecut) as [HGb Hb].
    destruct fin; cbn [andb] in HGs |- *.
    + revert HGs. destruct (negb (leftover_ok f (skipn size (concat temp)))); [intros _; exact I|intros HGs].
      split; [exact HGb|]. split; [exact Hb|].
      cbn [r_finished] in *. intros _. destruct HGs as [_ HGs]. specialize (HGs eq_refl).
      destruct (HT eq_refl) as [HS Happ]. cbv zeta in HS, Happ.
      set (S := r_prepend st ++ firstn (pos' - r_pos st) (skipn (r_pos st) file)) in *.
      assert (Hchunk : concat temp = S ++ terminator f S).
      { rewrite Hcc, Happ. unfold S. rewrite <- app_assoc. reflexivity. }
      assert (Hends : ends_nl (concat temp) = true) by (rewrite Hchunk; apply term_ends; [exact Hm|exact HS]).
      (* everything before this chunk plus its unterminated text is the file *)
      assert (HDS : concat D ++ S = file).
      { rewrite Hchunk, Happ in HGs. rewrite (firstn_skipn size) in HGs. rewrite app_assoc in HGs.
        apply app_inv_tail in HGs. exact HGs. }
      assert (Hfile : file <> []) by (rewrite <- HDS; destruct (concat D); [exact HS|discriminate]).
      assert (Hnorm : norm_text file = concat D ++ concat temp).
      { rewrite (norm_text_term_gen file Hfile). rewrite <- HDS at 2. rewrite (terminator_last _ (concat D) S HS).
        rewrite Hchunk, <- HDS, <- app_assoc. reflexivity. }
      assert (HWc : W (concat temp)) by (apply (HW D); [exact HD|rewrite <- Hnorm; exact HWf]).
      pose proof (Hfull (concat temp) size nl Ecut Hends HWc) as Hsz. subst size.
      rewrite firstn_all, skipn_all. split; [reflexivity|]. symmetry. exact Hnorm.
    + split; [exact HGb|]. split; [exact Hb|]. destruct m; cbn [r_finished]; discriminate.
  - cbn [andb] in HGs |- *. revert HGs.
    destruct (negb (leftover_ok f pending)); [intros _; exact I|intros HGs].
    destruct HT as [[Hp Ha]|(S & HS & Ha & Hp & Hcn)]; [split; assumption|].
    exfalso.
    (* the terminated pending text was still "incomplete": impossible for whole records *)
    assert (HDS : concat D ++ S = file).
    { rewrite Hp in HGs. rewrite app_assoc in HGs. apply app_inv_tail in HGs. exact HGs. }
    assert (Hfile : file <> []) by (rewrite <- HDS; destruct (concat D); [exact HS|discriminate]).
    assert (Hnorm : norm_text file = concat D ++ pending).
    { rewrite (norm_text_term_gen file Hfile). rewrite <- HDS at 2. rewrite (terminator_last _ (concat D) S HS).
      rewrite Hp, Ha, <- HDS, <- app_assoc. reflexivity. }
    apply (Hcomp pending); [rewrite Hp, Ha; apply term_ends; [exact Hm|exact HS]| |exact Hcn].
    apply (HW D); [exact HD|rewrite <- Hnorm; exact HWf].
Qed.

Lemma read_chunks_loop_lines m k file : (1 <= k)%nat -> W (norm_text file) ->
  forall fuel st acc chunks dropped app lines,
    r_finished st = false -> Inv m file st (rev acc) ->
    Forall G (rev acc) -> Forall (fun c => ends_nl c = true) (rev acc) ->
    read_chunks_loop true fuel f m k file st acc = Done chunks dropped app lines ->
    dropped = [] /\ concat chunks = norm_text file /\ Forall G chunks /\ Forall (fun c => ends_nl c = true) chunks.
Proof.
  intros Hk HWf. induction fuel as [|fuel IH]; intros st acc chunks dropped app lines Hnf HI HGa HE Hrun; [discriminate|].
  cbn [read_chunks_loop] in Hrun. rewrite Hnf in Hrun.
  pose proof (read_chunk_spec true f m k file st (rev acc) Hk HI) as HS.
  pose proof (read_chunk_lines m k file st (rev acc) Hk HI HGa HWf) as HD.
  destruct (read_chunk true f m k file st) as [b d a st'|d a st'|l| |]; try discriminate.
  - destruct HS as [HS1 HS2]. destruct HD as (HGb & Hb & HD).
    assert (HG' : Forall G (rev (b :: acc))).
    { cbn [rev]. apply Forall_app. split; [exact HGa|constructor; [exact HGb|constructor]]. }
    assert (HE' : Forall (fun c => ends_nl c = true) (rev (b :: acc))).
    { cbn [rev]. apply Forall_app. split; [exact HE|constructor; [exact Hb|constructor]]. }
    destruct (r_finished st') eqn:Ef.
    + injection Hrun as <- <- <- _. destruct (HD eq_refl) as [Hd Hc]. split; [exact Hd|]. split; [|split; assumption].
      cbn [rev]. rewrite concat_snoc. exact Hc.
    + destruct (HS1 eq_refl) as (HI' & _ & _).
      apply (IH st' (b :: acc) chunks dropped app lines Ef); [cbn [rev]; exact HI'|exact HG'|exact HE'|exact Hrun].
  - injection Hrun as <- <- <- _. destruct HD as [-> ->]. split; [reflexivity|]. split; [|split; assumption].
    rewrite !app_nil_r in HS. rewrite HS. symmetry. apply norm_text_fix.
    destruct (concat_ends (rev acc) HE) as [H|H]; [left; rewrite <- HS, H; reflexivity|right; rewrite <- HS; exact H].
Qed.

Theorem lines_chunks_exact m k file chunks dropped app lines :
  (1 <= k)%nat -> W (norm_text file) ->
  read_chunks true f m k file = Done chunks dropped app lines ->
  dropped = [] /\ concat chunks = norm_text file /\ Forall G chunks /\ Forall (fun c => ends_nl c = true) chunks.
Proof.
  intros Hk HWf Hrun. unfold read_chunks in Hrun.
  apply (read_chunks_loop_lines m k file Hk HWf (length file + 2) rinit [] chunks dropped app lines);
    [reflexivity|split; reflexivity|constructor|constructor|exact Hrun].
Qed.
End Generic.

(* ---------- the same reader theorem without any assumption on the text: what is not delivered at the end of the
   file is an ignorable tail (repaired code: __check_nothing_left raises otherwise) ---------- *)
Section GenericTail.
Variable f : fmt.
Variable G : list Z -> Prop.      (* what every delivered chunk satisfies *)
Variable T : list Z -> Prop.      (* what the undelivered tail satisfies besides being ignorable *)
Hypothesis Hm : marker f = [].
Hypothesis HcutG : forall chunk size nl, cut f chunk = CutOk size nl ->
  G (firstn size chunk) /\ ends_nl (firstn size chunk) = true.
Hypothesis HcutT : forall chunk size nl, cut f chunk = CutOk size nl -> T (skipn size chunk).
Hypothesis HcompT : forall Y, complete f [Y] = CNo -> T Y.
Hypothesis HT0 : T [].

Lemma read_chunk_tail m k file st D : (1 <= k)%nat -> Inv m file st D ->
  match read_chunk true f m k file st with
  | RChunk b dropped app st' =>
      G b /\ ends_nl b = true
      /\ (r_finished st' = true ->
          concat D ++ b ++ dropped = norm_text file /\ leftover_ok f dropped = true /\ T dropped)
  | RNone dropped app st' =>
      (dropped = [] /\ app = [])
      \/ (concat D ++ dropped = norm_text file /\ leftover_ok f dropped = true /\ T dropped)
  | _ => True
  end.
Proof.
  intros Hk HI.
  pose proof (read_chunk_spec true f m k file st D Hk HI) as HGs.
  unfold read_chunk in *. unfold m_is_finished, m_reported, m_lines_after, m_incomplete_line, m_pending_incomplete_line in *.
  set (temp0 := match r_prepend st with [] => [] | p => [p] end) in *.
  assert (Ht0 : concat temp0 = r_prepend st ++ []).
  { unfold temp0. destruct (r_prepend st); [reflexivity|]. cbn [concat]. reflexivity. }
  assert (Hne0 : Forall (fun c => c <> []) temp0).
  { unfold temp0. destruct (r_prepend st); [constructor|]. constructor; [discriminate|constructor]. }
  pose proof (accumulate_spec true f k file (r_lines st) Hk (length file + 2) (r_pos st) temp0 false [] (r_prepend st) Ht0 (or_introl eq_refl)) as HA.
  pose proof (accumulate_term f k file (r_lines st) Hm Hk (length file + 2) (r_pos st) temp0 false [] (r_prepend st) Ht0 Hne0 (or_introl eq_refl) ltac:(discriminate)) as HT.
  destruct (accumulate true (length file + 2) f k file (r_lines st) (r_pos st) temp0 false []) as [temp pos' fin app|pending app|l|];
    cbn [acc_post term_post] in *; try exact I.
  - destruct HA as (Hle & Hle2 & Hcc & Hf1 & Hf2).
    destruct (cut f (concat temp)) as [size nl| | |l] eqn:Ecut; try exact I.
    destruct (HcutG (concat temp) size nl Ecut) as [HGb Hb].
    pose proof (HcutT (concat temp) size nl Ecut) as HTr.
    destruct fin; cbn [andb] in HGs |- *.
    + revert HGs. destruct (leftover_ok f (skipn size (concat temp))) eqn:Eleft; cbn [negb]; [intros HGs|intros _; exact I].
      split; [exact HGb|]. split; [exact Hb|].
      cbn [r_finished] in *. intros _. destruct HGs as [_ HGs]. specialize (HGs eq_refl).
      destruct (HT eq_refl) as [HS Happ]. cbv zeta in HS, Happ.
      set (S := r_prepend st ++ firstn (pos' - r_pos st) (skipn (r_pos st) file)) in *.
      assert (Hchunk : concat temp = S ++ terminator f S).
      { rewrite Hcc, Happ. unfold S. rewrite <- app_assoc. reflexivity. }
      assert (HDS : concat D ++ S = file).
      { rewrite Hchunk, Happ in HGs. rewrite (firstn_skipn size) in HGs. rewrite app_assoc in HGs.
        apply app_inv_tail in HGs. exact HGs. }
      assert (Hfile : file <> []) by (rewrite <- HDS; destruct (concat D); [exact HS|discriminate]).
      assert (Hnorm : norm_text file = concat D ++ concat temp).
      { rewrite (norm_text_term_gen f Hm file Hfile). rewrite <- HDS at 2. rewrite (terminator_last _ (concat D) S HS).
        rewrite Hchunk, <- HDS, <- app_assoc. reflexivity. }
      split; [|split; [exact Eleft|exact HTr]].
      rewrite Hnorm. rewrite (firstn_skipn size). reflexivity.
    + split; [exact HGb|]. split; [exact Hb|]. destruct m; cbn [r_finished]; discriminate.
  - cbn [andb] in HGs |- *. revert HGs.
    destruct (leftover_ok f pending) eqn:Eleft; cbn [negb]; [intros HGs|intros _; exact I].
    destruct HT as [[Hp Ha]|(S & HS & Ha & Hp & Hcn)]; [left; split; assumption|right].
    assert (HDS : concat D ++ S = file).
    { rewrite Hp in HGs. rewrite app_assoc in HGs. apply app_inv_tail in HGs. exact HGs. }
    assert (Hfile : file <> []) by (rewrite <- HDS; destruct (concat D); [exact HS|discriminate]).
    assert (Hnorm : norm_text file = concat D ++ pending).
    { rewrite (norm_text_term_gen f Hm file Hfile). rewrite <- HDS at 2. rewrite (terminator_last _ (concat D) S HS).
      rewrite Hp, Ha, <- HDS, <- app_assoc. reflexivity. }
    split; [symmetry; exact Hnorm|]. split; [exact Eleft|]. apply HcompT. exact Hcn.
Qed.

Lemma read_chunks_loop_tail m k file : (1 <= k)%nat ->
  forall fuel st acc chunks dropped app lines,
    r_finished st = false -> Inv m file st (rev acc) ->
    Forall G (rev acc) -> Forall (fun c => ends_nl c = true) (rev acc) ->
    read_chunks_loop true fuel f m k file st acc = Done chunks dropped app lines ->
    concat chunks ++ dropped = norm_text file /\ leftover_ok f dropped = true /\ T dropped
    /\ Forall G chunks /\ Forall (fun c => ends_nl c = true) chunks.
Proof.
  intros Hk. induction fuel as [|fuel IH]; intros st acc chunks dropped app lines Hnf HI HGa HE Hrun; [discriminate|].
  cbn [read_chunks_loop] in Hrun. rewrite Hnf in Hrun.
  pose proof (read_chunk_spec true f m k file st (rev acc) Hk HI) as HS.
  pose proof (read_chunk_tail m k file st (rev acc) Hk HI) as HD.
  destruct (read_chunk true f m k file st) as [b d a st'|d a st'|l| |]; try discriminate.
  - destruct HS as [HS1 HS2]. destruct HD as (HGb & Hb & HD).
    assert (HG' : Forall G (rev (b :: acc))).
    { cbn [rev]. apply Forall_app. split; [exact HGa|constructor; [exact HGb|constructor]]. }
    assert (HE' : Forall (fun c => ends_nl c = true) (rev (b :: acc))).
    { cbn [rev]. apply Forall_app. split; [exact HE|constructor; [exact Hb|constructor]]. }
    destruct (r_finished st') eqn:Ef.
    + injection Hrun as <- <- <- _. destruct (HD eq_refl) as (Hc & Hl & Ht).
      split; [|split; [exact Hl|split; [exact Ht|split; assumption]]].
      cbn [rev]. rewrite concat_snoc, <- app_assoc. exact Hc.
    + destruct (HS1 eq_refl) as (HI' & _ & _).
      apply (IH st' (b :: acc) chunks dropped app lines Ef); [cbn [rev]; exact HI'|exact HG'|exact HE'|exact Hrun].
  - injection Hrun as <- <- <- _. destruct HD as [[-> ->]|(Hc & Hl & Ht)].
    + split; [|split; [reflexivity|split; [exact HT0|split; assumption]]].
      rewrite !app_nil_r in *. rewrite HS. symmetry. apply norm_text_fix.
      destruct (concat_ends (rev acc) HE) as [H|H]; [left; rewrite <- HS, H; reflexivity|right; rewrite <- HS; exact H].
    + split; [exact Hc|split; [exact Hl|split; [exact Ht|split; assumption]]].
Qed.

Theorem lines_chunks_tail m k file chunks dropped app lines :
  (1 <= k)%nat ->
  read_chunks true f m k file = Done chunks dropped app lines ->
  concat chunks ++ dropped = norm_text file /\ leftover_ok f dropped = true /\ T dropped
  /\ Forall G chunks /\ Forall (fun c => ends_nl c = true) chunks.
Proof.
  intros Hk Hrun. unfold read_chunks in Hrun.
  apply (read_chunks_loop_tail m k file Hk (length file + 2) rinit [] chunks dropped app lines);
    [reflexivity|split; reflexivity|constructor|constructor|exact Hrun].
Qed.
End GenericTail.

(* ---------- counting line breaks ---------- *)
Definition count_true (bs : list bool) : nat := length (filter (fun b => b) bs).
Lemma fnz_length i bs : length (flatnonzero_from i bs) = count_true bs.
Proof.
  revert i. induction bs as [|b bs IH]; intros i; [reflexivity|].
  cbn [flatnonzero_from]. rewrite app_length, IH. unfold count_true. destruct b; reflexivity.
Qed.
Lemma count_nl_app a b : count_nl (a ++ b) = (count_nl a + count_nl b)%nat.
Proof.
  unfold count_nl, nl_pos, positions, flatnonzero. rewrite map_app, flatnonzero_from_app, app_length.
  rewrite !fnz_length. reflexivity.
Qed.
Lemma count_nl_concat (D : list (list Z)) : count_nl (concat D) = fold_right (fun c a => (count_nl c + a)%nat) 0%nat D.
Proof. induction D as [|c D IH]; [reflexivity|]. cbn [concat fold_right]. rewrite count_nl_app, IH. reflexivity. Qed.

(* the k-th line break: where it is, and how many line breaks the text up to it contains *)
Lemma fnz_nth : forall (bs : list bool) i0 k, (1 <= k <= count_true bs)%nat ->
  exists q, nth (k - 1) (flatnonzero_from i0 bs) 0%Z = (i0 + Z.of_nat q)%Z /\ (q < length bs)%nat
            /\ nth q bs false = true /\ count_true (firstn (S q) bs) = k.
Proof.
  induction bs as [|b bs IH]; intros i0 k Hk; [unfold count_true in Hk; simpl in Hk; lia|].
  destruct b.
  - cbn [flatnonzero_from List.app]. destruct (Nat.eq_dec k 1) as [->|Hne].
    + exists 0%nat. cbn. split; [f_equal; lia|]. split; [lia|]. split; reflexivity.
    + assert (Hk' : (1 <= k - 1 <= count_true bs)%nat) by (unfold count_true in *; simpl in Hk; lia).
      destruct (IH (i0 + 1)%Z (k - 1)%nat Hk') as (q & Hq1 & Hq2 & Hq3 & Hq4).
      exists (S q). replace (k - 1)%nat with (S (k - 1 - 1)) by lia. cbn [nth]. rewrite Hq1.
      split; [lia|]. split; [simpl; lia|]. split; [exact Hq3|].
      change (firstn (S (S q)) (true :: bs)) with (true :: firstn (S q) bs).
      unfold count_true in *. cbn [filter length]. rewrite Hq4. lia.
  - cbn [flatnonzero_from List.app].
    assert (Hk' : (1 <= k <= count_true bs)%nat) by (unfold count_true in *; simpl in Hk; lia).
    destruct (IH (i0 + 1)%Z k Hk') as (q & Hq1 & Hq2 & Hq3 & Hq4).
    exists (S q). rewrite Hq1. split; [lia|]. split; [simpl; lia|]. split; [exact Hq3|].
    change (firstn (S (S q)) (false :: bs)) with (false :: firstn (S q) bs).
    unfold count_true in *. cbn [filter]. exact Hq4.
Qed.

Lemma kth_newline (l : list Z) (k : nat) : (1 <= k <= count_nl l)%nat ->
  let p := nth (k - 1) (nl_pos l) 0%Z in
  (0 <= p)%Z /\ count_nl (firstn (Z.to_nat (p + 1)) l) = k /\ ends_nl (firstn (Z.to_nat (p + 1)) l) = true.
Proof.
  intros Hk. unfold count_nl, nl_pos, positions, flatnonzero in *. rewrite fnz_length in Hk.
  destruct (fnz_nth (map (Z.eqb 10) l) 0%Z k Hk) as (q & Hq1 & Hq2 & Hq3 & Hq4).
  cbv zeta. rewrite Hq1. rewrite map_length in Hq2.
  replace (Z.to_nat (0 + Z.of_nat q + 1)) with (S q) by lia.
  split; [lia|]. split.
  - rewrite fnz_length. rewrite <- firstn_map. exact Hq4.
  - unfold ends_nl. rewrite last_nth_firstn by exact Hq2.
    rewrite (nth_indep _ false (10 =? 0)%Z) in Hq3 by (rewrite map_length; exact Hq2).
    rewrite map_nth in Hq3. apply Z.eqb_eq in Hq3. rewrite <- Hq3. reflexivity.
Qed.

Lemma last_firstn_nth (l : list Z) (m : nat) : (1 <= m <= length l)%nat -> last (firstn m l) 0%Z = nth (m - 1) l 0%Z.
Proof. intros H. replace m with (S (m - 1)) at 1 by lia. apply last_nth_firstn. lia. Qed.

(* ---------- the cut of an n-lines-per-record buffer ---------- *)
Lemma sub_mod_multiple (c n : nat) : (1 <= n)%nat -> ((c - c mod n) mod n = 0)%nat.
Proof.
  intros Hn. rewrite (Nat.div_mod c n) at 1 by lia. rewrite Nat.add_sub. rewrite Nat.mul_comm. apply Nat.mod_mul. lia.
Qed.

Lemma cut_oneline_shape n hdr plus chunk size nl : (1 <= n)%nat ->
  cut (OneLine n hdr plus) chunk = CutOk size nl ->
  let cnt := count_nl chunk in
  (n <= cnt)%nat /\ nl = (cnt - cnt mod n)%nat
  /\ size = Z.to_nat (nth (nl - 1) (nl_pos chunk) 0%Z + 1).
Proof.
  intros Hn H. unfold cut in H. unfold m_is_finished, m_reported, m_lines_after, m_oneline_incomplete, m_oneline_kept, m_size_after, m_header_line, m_plus_line in *. fold (count_nl chunk) in H.
  destruct (count_nl chunk <? n)%nat eqn:Ec; [discriminate|]. apply Nat.ltb_ge in Ec.
  cbv zeta in H.
  assert (Hm : (1 <= count_nl chunk - count_nl chunk mod n <= length (nl_pos chunk))%nat).
  { pose proof (Nat.mod_upper_bound (count_nl chunk) n ltac:(lia)). unfold count_nl in *. lia. }
  rewrite (last_firstn_nth (nl_pos chunk) _ Hm) in H.
  repeat match type of H with
         | (if ?c then _ else _) = _ => destruct c
         | match ?c with _ => _ end = _ => destruct c
         end; try discriminate; injection H as <- <-; cbv zeta; (split; [exact Ec|split; reflexivity]).
Qed.

Section OneLineInst.
Variables (n : nat) (hdr : Z) (plus : bool).
Hypothesis Hn : (1 <= n)%nat.
Let f := OneLine n hdr plus.
Definition whole (c : list Z) : Prop := (count_nl c mod n = 0)%nat.

Lemma ol_cutG chunk size nl : cut f chunk = CutOk size nl ->
  whole (firstn size chunk) /\ ends_nl (firstn size chunk) = true.
Proof.
  intros H. destruct (cut_oneline_shape n hdr plus chunk size nl Hn H) as (Hc & -> & ->).
  set (cnt := count_nl chunk) in *. set (m := (cnt - cnt mod n)%nat).
  assert (Hm : (1 <= m <= count_nl chunk)%nat).
  { pose proof (Nat.mod_upper_bound cnt n ltac:(lia)). unfold m, cnt in *. lia. }
  destruct (kth_newline chunk m Hm) as (_ & Hk & He). cbv zeta in Hk, He.
  split; [|exact He]. unfold whole. rewrite Hk. apply sub_mod_multiple. exact Hn.
Qed.

Lemma ol_full chunk size nl : cut f chunk = CutOk size nl -> ends_nl chunk = true -> whole chunk -> size = length chunk.
Proof.
  intros H He Hw. destruct (cut_oneline_shape n hdr plus chunk size nl Hn H) as (Hc & -> & ->).
  unfold whole in Hw. rewrite Hw, Nat.sub_0_r.
  pose proof (ends_nl_split chunk He) as Hs.
  unfold count_nl, nl_pos. rewrite Hs at 1 2. rewrite positions_snoc_hit, app_length. cbn [length].
  replace (length (positions 10 (removelast chunk)) + 1 - 1)%nat with (length (positions 10 (removelast chunk))) by lia.
  rewrite app_nth2 by lia. rewrite Nat.sub_diag. cbn [nth].
  rewrite Hs at 2. rewrite app_length. unfold len. cbn [length]. lia.
Qed.

Lemma ol_comp Y : ends_nl Y = true -> whole Y -> complete f [Y] <> CNo.
Proof.
  intros He Hw. unfold complete, f.
  assert (Hc : (n <= count_nl Y)%nat).
  { unfold whole in Hw. pose proof (ends_nl_split Y He) as Hs.
    assert (1 <= count_nl Y)%nat by (rewrite Hs, count_nl_app; unfold count_nl at 2, nl_pos, positions; cbn; lia).
    destruct (Nat.lt_ge_cases (count_nl Y) n) as [Hlt|Hge]; [|exact Hge].
    rewrite Nat.mod_small in Hw by exact Hlt. lia. }
  destruct (cut (OneLine n hdr plus) Y) eqn:Ecut; try discriminate.
  - unfold cut in Ecut. unfold m_is_finished, m_reported, m_lines_after, m_oneline_incomplete, m_oneline_kept, m_size_after, m_header_line, m_plus_line in *. fold (count_nl Y) in Ecut.
    replace (count_nl Y <? n)%nat with false in Ecut by (symmetry; apply Nat.ltb_ge; exact Hc).
    cbv zeta in Ecut.
    repeat match type of Ecut with
           | (if ?c then _ else _) = _ => destruct c
           | match ?c with _ => _ end = _ => destruct c
           end; discriminate.
  - unfold cut in Ecut. unfold m_is_finished, m_reported, m_lines_after, m_oneline_incomplete, m_oneline_kept, m_size_after, m_header_line, m_plus_line in *. fold (count_nl Y) in Ecut.
    replace (count_nl Y <? n)%nat with false in Ecut by (symmetry; apply Nat.ltb_ge; exact Hc).
    cbv zeta in Ecut.
    repeat match type of Ecut with
           | (if ?c then _ else _) = _ => destruct c
           | match ?c with _ => _ end = _ => destruct c
           end; discriminate.
Qed.

Lemma ol_W D b : Forall whole D -> whole (concat D ++ b) -> whole b.
Proof.
  intros HD. unfold whole. rewrite count_nl_app.
  assert (HDm : (count_nl (concat D) mod n = 0)%nat).
  { induction HD as [|c D Hc _ IH]; [cbn; apply Nat.mod_0_l; lia|]. cbn [concat]. rewrite count_nl_app.
    rewrite Nat.add_mod by lia. unfold whole in Hc. rewrite Hc, IH. cbn. apply Nat.mod_0_l. lia. }
  intros H. rewrite Nat.add_mod in H by lia. rewrite HDm in H. cbn [Nat.add] in H.
  rewrite Nat.mod_mod in H by lia. exact H.
Qed.

Theorem oneline_chunks_exact m k file chunks dropped app lines :
  (1 <= k)%nat -> whole (norm_text file) ->
  read_chunks true f m k file = Done chunks dropped app lines ->
  dropped = [] /\ concat chunks = norm_text file /\ Forall whole chunks /\ Forall (fun c => ends_nl c = true) chunks.
Proof.
  apply (lines_chunks_exact f whole whole eq_refl ol_cutG ol_full ol_comp ol_W).
Qed.
(* ---- no assumption on the text (repaired code): a completed read has delivered whole records and left an
   ignorable tail of fewer than n lines; anything else at the end of the file raises FormatException ---- *)
Lemma ol_cutT chunk size nl : cut f chunk = CutOk size nl -> (count_nl (skipn size chunk) < n)%nat.
Proof.
  intros H. destruct (cut_oneline_shape n hdr plus chunk size nl Hn H) as (Hc & Hnl & Hsz). cbv zeta in Hc, Hnl.
  set (cnt := count_nl chunk) in *.
  pose proof (Nat.mod_upper_bound cnt n ltac:(lia)) as Hub.
  pose proof (Nat.mod_le cnt n ltac:(lia)) as Hle.
  assert (Hm : (1 <= nl <= count_nl chunk)%nat) by (fold cnt; lia).
  destruct (kth_newline chunk nl Hm) as (_ & Hk & _). cbv zeta in Hk. rewrite <- Hsz in Hk.
  pose proof (count_nl_app (firstn size chunk) (skipn size chunk)) as Happ.
  rewrite (firstn_skipn size chunk) in Happ. fold cnt in Happ. lia.
Qed.

Lemma ol_compT Y : complete f [Y] = CNo -> (count_nl Y < n)%nat.
Proof.
  intros H. unfold complete, f in H.
  destruct (Nat.lt_ge_cases (count_nl Y) n) as [Hlt|Hge]; [exact Hlt|exfalso].
  destruct (cut (OneLine n hdr plus) Y) eqn:Ecut; try discriminate H;
    unfold cut in Ecut; unfold m_oneline_incomplete, m_oneline_kept, m_size_after in Ecut; fold (count_nl Y) in Ecut;
    (replace (count_nl Y <? n)%nat with false in Ecut by (symmetry; apply Nat.ltb_ge; exact Hge));
    cbv zeta in Ecut;
    repeat match type of Ecut with
           | (if ?c then _ else _) = _ => destruct c
           | match ?c with _ => _ end = _ => destruct c
           end; discriminate.
Qed.

Lemma ol_whole_concat (D : list (list Z)) : Forall whole D -> whole (concat D).
Proof.
  intros HD. unfold whole. induction HD as [|c D Hc _ IH]; [cbn; apply Nat.mod_0_l; lia|].
  cbn [concat]. rewrite count_nl_app, Nat.add_mod by lia. unfold whole in Hc. rewrite Hc, IH.
  cbn. apply Nat.mod_0_l. lia.
Qed.

Theorem oneline_chunks_tail m k file chunks dropped app lines :
  (1 <= k)%nat ->
  read_chunks true f m k file = Done chunks dropped app lines ->
  concat chunks ++ dropped = norm_text file /\ leftover_ok f dropped = true /\ (count_nl dropped < n)%nat
  /\ Forall whole chunks /\ Forall (fun c => ends_nl c = true) chunks.
Proof.
  apply (lines_chunks_tail f whole (fun t => (count_nl t < n)%nat) eq_refl ol_cutG ol_cutT ol_compT).
  change (count_nl []) with 0%nat. lia.
Qed.

(* a completed read means: whole records plus an ignorable tail *)
Theorem oneline_complete_or_error m k file chunks dropped app lines :
  (1 <= k)%nat ->
  read_chunks true f m k file = Done chunks dropped app lines ->
  exists body tail, norm_text file = body ++ tail /\ whole body /\ leftover_ok f tail = true
                    /\ (count_nl tail < n)%nat /\ concat chunks = body /\ dropped = tail.
Proof.
  intros Hk Hrun. destruct (oneline_chunks_tail m k file chunks dropped app lines Hk Hrun) as (Hc & Hl & Ht & HW & _).
  exists (concat chunks), dropped. repeat split; try assumption; try reflexivity.
  - symmetry. exact Hc.
  - apply ol_whole_concat. exact HW.
Qed.

(* the records (lines) of the chunks are the lines of the text up to that tail *)
Theorem oneline_records_tail m k file chunks dropped app lines_read :
  (1 <= k)%nat ->
  read_chunks true f m k file = Done chunks dropped app lines_read ->
  lines (norm_text file) = concat (map lines chunks) ++ lines dropped.
Proof.
  intros Hk Hrun. destruct (oneline_chunks_tail m k file chunks dropped app lines_read Hk Hrun) as (Hc & _ & _ & _ & HE).
  rewrite <- Hc. rewrite <- (lines_concat chunks HE).
  destruct (concat_ends chunks HE) as [->|He]; [reflexivity|]. apply lines_app. exact He.
Qed.
End OneLineInst.

(* Proofs/C10_e.v — C10 part 6: per case class, "the implementation agrees with the model" implies "the property holds
   on this case":  model_ok c = true -> spec_ok c = true  for every well-formed case of every operation. *)
From Coq Require Import ZArith List Bool Lia Arith Permutation Sorted.
From BNP Require Import Base.Prims Base.PrimsFacts Model.C10 Corr.C10 Proofs.C10 Proofs.C10_b Proofs.C10_d Proofs.C10_g.
Import ListNotations.
Open Scope Z_scope.

(* ------------------------------------------------------------------ the comparison functions decide equality *)
Lemma list_eqb_refl : forall {A} (eqb : A -> A -> bool), (forall x, eqb x x = true) -> forall l, list_eqb eqb l l = true.
Proof. intros A eqb H. induction l as [|x l IH]; [reflexivity|]. cbn. rewrite H, IH. reflexivity. Qed.
Lemma list_eqb_eq : forall {A} (eqb : A -> A -> bool), (forall x y, eqb x y = true -> x = y) ->
  forall a b, list_eqb eqb a b = true -> a = b.
Proof.
  intros A eqb H. induction a as [|x a IH]; intros [|y b] E; try discriminate; [reflexivity|].
  cbn in E. apply andb_prop in E. destruct E as [E1 E2]. f_equal; [apply H; assumption|apply IH; assumption].
Qed.
Lemma triple_eqb_refl : forall x, triple_eqb x x = true.
Proof. intros [[a b] c]. unfold triple_eqb. rewrite !Z.eqb_refl. reflexivity. Qed.
Lemma triple_eqb_eq : forall x y, triple_eqb x y = true -> x = y.
Proof.
  intros [[a b] c] [[a' b'] c']. unfold triple_eqb. intros H. apply andb_prop in H. destruct H as [H H3].
  apply andb_prop in H. destruct H as [H1 H2]. apply Z.eqb_eq in H1, H2, H3. subst. reflexivity.
Qed.
Lemma pair_eqb_refl : forall x, pair_eqb x x = true.
Proof. intros [a b]. unfold pair_eqb. cbn. rewrite !Z.eqb_refl. reflexivity. Qed.
Lemma pair_eqb_eq : forall x y, pair_eqb x y = true -> x = y.
Proof.
  intros [a b] [a' b']. unfold pair_eqb. cbn. intros H. apply andb_prop in H. destruct H as [H1 H2].
  apply Z.eqb_eq in H1, H2. subst. reflexivity.
Qed.
Lemma zlist_eqb_refl : forall l, zlist_eqb l l = true.
Proof. apply list_eqb_refl. apply Z.eqb_refl. Qed.
Lemma zlist_eqb_eq : forall a b, zlist_eqb a b = true -> a = b.
Proof. apply list_eqb_eq. intros x y H. apply Z.eqb_eq. exact H. Qed.
Lemma res_eqb_refl : forall r, res_eqb r r = true.
Proof.
  intros [c|a|l|l|l|f b r]; cbn.
  - apply Z.eqb_refl.
  - apply list_eqb_refl. apply zlist_eqb_refl.
  - apply list_eqb_refl. apply triple_eqb_refl.
  - apply list_eqb_refl. apply pair_eqb_refl.
  - apply list_eqb_refl. apply zlist_eqb_refl.
  - rewrite zlist_eqb_refl. rewrite (list_eqb_refl pair_eqb pair_eqb_refl). rewrite (list_eqb_refl Bool.eqb); [reflexivity|].
    intros []; reflexivity.
Qed.
Lemma res_eqb_eq : forall a b, res_eqb a b = true -> a = b.
Proof.
  intros [c|a|l|l|l|f b r] [c'|a'|l'|l'|l'|f' b' r'] H; try discriminate; cbn in H.
  - apply Z.eqb_eq in H. subst. reflexivity.
  - f_equal. apply (list_eqb_eq zlist_eqb zlist_eqb_eq). exact H.
  - f_equal. apply (list_eqb_eq triple_eqb triple_eqb_eq). exact H.
  - f_equal. apply (list_eqb_eq pair_eqb pair_eqb_eq). exact H.
  - f_equal. apply (list_eqb_eq zlist_eqb zlist_eqb_eq). exact H.
  - apply andb_prop in H. destruct H as [H H3]. apply andb_prop in H. destruct H as [H1 H2].
    f_equal; [apply zlist_eqb_eq; assumption|apply (list_eqb_eq pair_eqb pair_eqb_eq); assumption|].
    apply (list_eqb_eq Bool.eqb); [|assumption]. intros x y E. apply Bool.eqb_prop. exact E.
Qed.

(* ------------------------------------------------------------------ spec_ok as a predicate on a result *)
Definition accepts (fl : list bool) (e : expect) (x : res) : bool :=
  match e with
  | MustErr => is_err x
  | MustBe r => res_eqb x (uncode_res fl r)
  | Either r => is_err x || res_eqb x (uncode_res fl r)
  | Rel p => p (code_res fl x)
  end.
Lemma spec_ok_accepts : forall c, spec_ok c = accepts (flags c) (spec_run c) (k_obs c).
Proof. intros c. unfold spec_ok, accepts. destruct (spec_run c); reflexivity. Qed.
Lemma link_by_model : forall c,
  accepts (flags c) (spec_run c) (uncode_res (flags c) (model_run c)) = true ->
  model_ok c = true -> spec_ok c = true.
Proof. intros c H Hm. unfold model_ok in Hm. apply res_eqb_eq in Hm. rewrite spec_ok_accepts, Hm. exact H. Qed.
Lemma is_err_uncode : forall fl r, is_err (uncode_res fl r) = is_err r.
Proof. intros fl [ | | | | | ]; reflexivity. Qed.

(* ------------------------------------------------------------------ the codes of visible entries *)
Lemma ves_codes : forall fl es e, In e (visible fl es) ->
  exists n, nth n fl false = true /\ e_chr e = Z.of_nat (coden fl n).
Proof.
  intros fl es e He. unfold visible in He. apply in_map_iff in He. destruct He as [e0 [<- He0]].
  apply filter_In in He0. destruct He0 as [_ Hf]. exists (Z.to_nat (e_chr e0)). split; [exact Hf|].
  cbn [set_chr e_chr]. unfold code_of, coden, len. reflexivity.
Qed.
Lemma code_roundtrip : forall fl n, nth n fl false = true ->
  let c := Z.of_nat (coden fl n) in
  (if nthd false fl (uncode fl c) then code_of fl (uncode fl c) else -1 - uncode fl c) = c.
Proof.
  intros fl n H c. unfold c.
  assert (Hu : uncode fl (Z.of_nat (coden fl n)) = Z.of_nat n).
  { unfold uncode, incl_idx, flatnonzero, nthZ. rewrite Nat2Z.id. rewrite coden_uncode by assumption. lia. }
  rewrite Hu. unfold nthd. rewrite Nat2Z.id, H. apply code_of_nat.
Qed.
Lemma ves_in_range : forall c e, In e (ves c) -> 0 <= e_chr e < len (szs c).
Proof.
  intros c e He. destruct (ves_codes _ _ _ He) as [n [Hn Hc]]. rewrite Hc. unfold szs, len.
  rewrite ctx_sizes_length. pose proof (coden_lt _ n Hn). unfold flags in *. lia.
Qed.
Lemma ves_ordered : forall c, Forall (fun e => e_start e <= e_stop e) (k_entries c) ->
  Forall (fun e => e_start e <= e_stop e) (ves c).
Proof.
  intros c H. apply Forall_forall. intros e He. unfold ves, visible in He. apply in_map_iff in He.
  destruct He as [e0 [<- He0]]. apply filter_In in He0. rewrite Forall_forall in H. apply (H e0). tauto.
Qed.
(* chromosome codes back and forth leave the rows of visible entries unchanged *)
Lemma code_uncode_rows : forall c (l : list entry) (k : entry -> Z * Z * Z),
  (forall e, In e l -> In e (ves c)) -> (forall e, fst (fst (k e)) = e_chr e) ->
  code_res (flags c) (uncode_res (flags c) (RIvs (map k l))) = RIvs (map k l).
Proof.
  intros c l k Hl Hk. cbn [uncode_res code_res]. f_equal. rewrite map_map. rewrite map_map.
  apply map_ext_in. intros e He. specialize (Hk e). destruct (k e) as [[ch s] t]. cbn [fst] in Hk. subst ch.
  destruct (ves_codes _ _ _ (Hl e He)) as [n [Hn Hc]]. rewrite Hc. rewrite (code_roundtrip _ n Hn). reflexivity.
Qed.
Lemma code_uncode_pos : forall c (l : list entry) (k : entry -> Z * Z),
  (forall e, In e l -> In e (ves c)) -> (forall e, fst (k e) = e_chr e) ->
  code_res (flags c) (uncode_res (flags c) (RPos (map k l))) = RPos (map k l).
Proof.
  intros c l k Hl Hk. cbn [uncode_res code_res]. f_equal. rewrite map_map. rewrite map_map.
  apply map_ext_in. intros e He. specialize (Hk e). destruct (k e) as [ch p]. cbn [fst] in Hk. subst ch.
  destruct (ves_codes _ _ _ (Hl e He)) as [n [Hn Hc]]. rewrite Hc. rewrite (code_roundtrip _ n Hn). reflexivity.
Qed.

(* ------------------------------------------------------------------ good tables and the bounds checks *)
Lemma good_placed : forall s es, forallb (entry_good s) es = true -> Forall (entry_wf s) es.
Proof.
  intros s es H. apply Forall_forall. intros e He. rewrite forallb_forall in H. specialize (H e He).
  unfold entry_good, in_range in H. repeat (apply andb_prop in H; destruct H as [H ?]).
  repeat match goal with H : (_ <=? _) = true |- _ => apply Z.leb_le in H | H : (_ <? _) = true |- _ => apply Z.ltb_lt in H end.
  unfold entry_wf, entry_placed, entry_in. lia.
Qed.
Lemma wf_placed : forall s es, Forall (entry_wf s) es -> Forall (entry_placed s) es.
Proof. intros s es H. eapply Forall_impl; [|exact H]. intros e [He _]. exact He. Qed.
(* with codes in range and start <= stop, a table that is not good is refused by the bounds checks *)
Lemma not_good_refused : forall s es, checks_negative_start = true ->
  Forall (fun e => 0 <= e_chr e < len s) es -> Forall (fun e => e_start e <= e_stop e) es ->
  forallb (entry_good s) es = false -> exists code, check_bounds s es = Some code.
Proof.
  intros s es Hneg Hr Ho Hg. unfold check_bounds. rewrite Hneg. unfold check_bounds_gen.
  destruct (existsb (fun e => size_of s (e_chr e) <=? e_start e) es) eqn:E1; [eexists; reflexivity|].
  cbn [andb]. destruct (existsb (fun e => e_start e <? 0) es) eqn:E2; [eexists; reflexivity|].
  destruct (forallb (fun e => e_stop e <=? size_of s (e_chr e)) es) eqn:E3; [|eexists; reflexivity].
  exfalso. assert (forallb (entry_good s) es = true); [|congruence].
  apply forallb_forall. intros e He. rewrite Forall_forall in Hr, Ho. specialize (Hr e He). specialize (Ho e He).
  rewrite forallb_forall in E3. specialize (E3 e He). apply Z.leb_le in E3.
  assert (A1 : (size_of s (e_chr e) <=? e_start e) = false).
  { apply not_true_is_false. intros Hx. assert (existsb (fun e0 => size_of s (e_chr e0) <=? e_start e0) es = true)
      by (apply existsb_exists; exists e; tauto). congruence. }
  assert (A2 : (e_start e <? 0) = false).
  { apply not_true_is_false. intros Hx. assert (existsb (fun e0 => e_start e0 <? 0) es = true)
      by (apply existsb_exists; exists e; tauto). congruence. }
  apply Z.leb_gt in A1. apply Z.ltb_ge in A2. unfold entry_good, in_range.
  repeat (apply andb_true_intro; split); try (apply Z.leb_le; lia); apply Z.ltb_lt; lia.
Qed.

(* ------------------------------------------------------------------ order facts *)
Definition lex_le (a b : key3) : Prop :=
  let '(a1, a2, a3) := a in let '(b1, b2, b3) := b in a1 < b1 \/ (a1 = b1 /\ (a2 < b2 \/ (a2 = b2 /\ a3 <= b3))).
Lemma key_le_lex : forall a b, key_le a b = true <-> lex_le a b.
Proof.
  intros [[a1 a2] a3] [[b1 b2] b3]. unfold key_le, lex_le.
  destruct (Z.ltb_spec a1 b1), (Z.eqb_spec a1 b1), (Z.ltb_spec a2 b2), (Z.eqb_spec a2 b2), (Z.leb_spec a3 b3);
    cbn; split; intros Hq; try discriminate; try reflexivity; try lia.
Qed.
Lemma lex_le_trans : forall a b c, lex_le a b -> lex_le b c -> lex_le a c.
Proof. intros [[a1 a2] a3] [[b1 b2] b3] [[c1 c2] c3]. unfold lex_le. lia. Qed.
Lemma lex_le_antisym : forall a b, lex_le a b -> lex_le b a -> a = b.
Proof.
  intros [[a1 a2] a3] [[b1 b2] b3]. unfold lex_le. intros H1 H2.
  assert (E : a1 = b1 /\ a2 = b2 /\ a3 = b3) by lia. destruct E as [-> [-> ->]]. reflexivity.
Qed.
Lemma lex_le_refl : forall a, lex_le a a.
Proof. intros [[a1 a2] a3]. unfold lex_le. lia. Qed.

Lemma sorted_by_strong : forall {A} (k : A -> key3) l, sorted_by k l = true ->
  StronglySorted (fun x y => lex_le (k x) (k y)) l.
Proof.
  intros A k. induction l as [|x l IH]; intros H; [constructor|].
  destruct l as [|y l'].
  - constructor; constructor.
  - cbn [sorted_by] in H. apply andb_prop in H. destruct H as [Hxy Hs]. specialize (IH Hs).
    constructor; [exact IH|]. apply key_le_lex in Hxy. constructor; [exact Hxy|].
    inversion IH as [|? ? _ Hall]; subst. eapply Forall_impl; [|exact Hall]. intros z Hz. cbv beta in *.
    eapply lex_le_trans; eassumption.
Qed.
Lemma sorted_by_map : forall {A B} (k : B -> key3) (g : A -> B) l, sorted_by k (map g l) = sorted_by (fun x => k (g x)) l.
Proof.
  intros A B k g. induction l as [|x l IH]; [reflexivity|]. destruct l as [|y l']; [reflexivity|].
  cbn [map sorted_by] in *. rewrite IH. reflexivity.
Qed.
Lemma sorted_perm_eq : forall (l1 l2 : list key3), StronglySorted lex_le l1 -> StronglySorted lex_le l2 ->
  Permutation l1 l2 -> l1 = l2.
Proof.
  induction l1 as [|x l1 IH]; intros l2 H1 H2 P.
  - apply Permutation_nil in P. subst. reflexivity.
  - destruct l2 as [|y l2]; [apply Permutation_sym, Permutation_nil in P; discriminate|].
    inversion H1 as [|? ? S1 A1]; subst. inversion H2 as [|? ? S2 A2]; subst.
    assert (x = y).
    { assert (Hy : In y (x :: l1)) by (eapply Permutation_in; [apply Permutation_sym; exact P|left; reflexivity]).
      assert (Hx : In x (y :: l2)) by (eapply Permutation_in; [exact P|left; reflexivity]).
      destruct Hy as [Hy|Hy]; [exact Hy|]. destruct Hx as [Hx|Hx]; [symmetry; exact Hx|].
      rewrite Forall_forall in A1, A2. apply lex_le_antisym; [apply A1; exact Hy|apply A2; exact Hx]. }
    subst y. f_equal. apply IH; try assumption. eapply Permutation_cons_inv. exact P.
Qed.
Lemma same_rows_perm : forall a b, Permutation a b -> same_rows a b = true.
Proof.
  intros a b P. unfold same_rows.
  assert (E : sort_by (fun x : key3 => x) a = sort_by (fun x : key3 => x) b).
  { apply sorted_perm_eq.
    - apply (sorted_by_strong (fun x : key3 => x)). apply sort_by_sorted.
    - apply (sorted_by_strong (fun x : key3 => x)). apply sort_by_sorted.
    - eapply Permutation_trans; [apply sort_by_perm|]. eapply Permutation_trans; [exact P|].
      apply Permutation_sym. apply sort_by_perm. }
  rewrite E. apply list_eqb_refl. intros x. assert (H : key_le x x = true) by (apply key_le_lex, lex_le_refl).
  rewrite H. reflexivity.
Qed.
Lemma chr_start_sorted_strong : forall es, chr_start_sorted es = true -> StronglySorted cs_le es.
Proof.
  intros es H. apply sorted_by_strong in H.
  induction H as [|x l Hs IH Hall]; constructor; [exact IH|].
  eapply Forall_impl; [|exact Hall]. intros y Hy. unfold lex_le, cs_le in *. cbv beta in Hy. lia.
Qed.

(* ------------------------------------------------------------------ programs: steps, then a strand-aware consumer *)
Lemma good_wf : forall s es, forallb (entry_good s) es = true -> Forall (entry_wf s) es.
Proof.
  intros s es H. apply Forall_forall. intros e He. rewrite forallb_forall in H. specialize (H e He).
  unfold entry_good, in_range in H. repeat (apply andb_prop in H; destruct H as [H ?]).
  repeat match goal with H : (_ <=? _) = true |- _ => apply Z.leb_le in H | H : (_ <? _) = true |- _ => apply Z.ltb_lt in H end.
  unfold entry_wf, entry_placed, entry_in. lia.
Qed.
Lemma merged_entries_spec : forall szs d es, nonneg szs -> 0 <= d -> Forall (entry_wf szs) es -> StronglySorted cs_le es ->
  merged_entries szs d es = inr (spec_merged szs d es).
Proof.
  intros szs d es Hs Hd Hwf Hsorted. unfold merged_entries. destruct (Z.ltb_spec d 0); [lia|].
  unfold check_bounds. rewrite check_bounds_ok by (eapply Forall_impl; [|exact Hwf]; intros e [He _]; exact He).
  change (map (fun e => set_se e (e_start e + gap_shift szs d (e_chr e)) (e_stop e + gap_shift szs d (e_chr e))) es)
    with (map (sh szs d) es).
  rewrite starts_sorted_sh by assumption. f_equal.
  rewrite (merged_blocks szs d Hs Hd (length szs) 0 es); try assumption; try (unfold len; lia).
  - rewrite map_map. unfold spec_merged, arange, len. rewrite Nat2Z.id.
    rewrite <- (map_id (concat _)) at 2. apply map_ext. intros [c s t f]. unfold sh, tr, set_se. cbn [e_chr e_start e_stop e_fwd].
    f_equal; lia.
  - eapply Forall_impl; [|exact Hwf]. intros e [[[Hc _] _] _]. unfold len in *. cbv beta. lia.
Qed.
Lemma model_clip_spec : forall szs es, model_clip szs es = spec_clip szs es.
Proof. reflexivity. Qed.

Definition no_extend (ps : list pstep) : Prop := forall n, ~ In (PExtend n) ps.
(* every interval-producing operation hands the strandedness on (extended_to_size: when it passes the flag) *)
Lemma model_step_flag : forall keep szs fl rows p fl' rows',
  (keep = true \/ fl = false \/ (forall n, p <> PExtend n)) ->
  model_step_gen keep szs (fl, rows) p = inr (fl', rows') -> fl' = fl.
Proof.
  intros keep szs fl rows p fl' rows' Hc H. destruct p; cbn [model_step_gen] in H.
  - inversion H; reflexivity.
  - destruct (merged_entries szs d rows); inversion H; reflexivity.
  - inversion H; reflexivity.
  - inversion H. destruct Hc as [-> | [-> | Hn]]; [apply andb_true_r|reflexivity|exfalso; apply (Hn n); reflexivity].
  - inversion H; reflexivity.
  - destruct (len m =? len rows); inversion H; reflexivity.
  - inversion H; reflexivity.
Qed.
Theorem strandedness_preserved : forall szs ps fl rows fl' rows',
  (extend_keeps_strand = true \/ fl = false \/ no_extend ps) ->
  model_steps szs (fl, rows) ps = inr (fl', rows') -> fl' = fl.
Proof.
  intros szs. induction ps as [|p ps IH]; intros fl rows fl' rows' Hc H.
  - cbn in H. inversion H. reflexivity.
  - cbn [model_steps] in H. destruct (model_step szs (fl, rows) p) as [c|[fl1 rows1]] eqn:E; [discriminate|].
    assert (fl1 = fl).
    { apply (model_step_flag extend_keeps_strand szs fl rows p fl1 rows1); [|exact E].
      destruct Hc as [Hk|[Hf|Hn]]; [left; exact Hk|right; left; exact Hf|right; right].
      intros n Hp. apply (Hn n). left. exact Hp. }
    subst fl1. apply (IH fl rows1 fl' rows'); [|exact H].
    destruct Hc as [Hk|[Hf|Hn]]; [left; exact Hk|right; left; exact Hf|right; right].
    intros n Hin. apply (Hn n). right. exact Hin.
Qed.
(* an extended_to_size that does not pass the flag on loses it *)
Theorem strandedness_lost_refuted : exists szs rows n fl' rows',
  model_step_gen false szs (true, rows) (PExtend n) = inr (fl', rows') /\ fl' = false.
Proof. exists [3], [mk 0 0 1], 2. eexists. eexists. split; reflexivity. Qed.

Lemma spec_step_model : forall szs st rows p rows', nonneg szs ->
  (extend_keeps_strand = true \/ st = false \/ (forall n, p <> PExtend n)) ->
  spec_step szs st rows p = Some rows' -> model_step szs (st, rows) p = inr (st, rows').
Proof.
  intros szs st rows p rows' Hs Hc H. unfold model_step. destruct p; cbn [spec_step model_step_gen] in *.
  - inversion H. reflexivity.
  - destruct (sorted_by (fun e => (e_chr e, e_start e, 0)) rows) eqn:E1; [|discriminate].
    destruct (forallb (entry_good szs) rows) eqn:E2; [|discriminate]. destruct (Z.leb_spec 0 d); [|discriminate].
    cbn in H. inversion H. rewrite (merged_entries_spec szs d rows); try assumption; [reflexivity|apply good_wf; exact E2|].
    apply chr_start_sorted_strong. exact E1.
  - inversion H. reflexivity.
  - inversion H. f_equal. f_equal. destruct Hc as [-> | [-> | Hn]]; [apply andb_true_r|reflexivity|exfalso; apply (Hn n); reflexivity].
  - inversion H. reflexivity.
  - destruct (len m =? len rows); [|discriminate]. inversion H. reflexivity.
  - destruct (Z.leb_spec 0 w); [|discriminate]. destruct (Z.leb_spec w 2); [|discriminate]. cbn in H. inversion H.
    f_equal. f_equal. unfold model_clip. rewrite map_map. apply map_ext. intros e.
    rewrite location_fixed_spec by lia. reflexivity.
Qed.
Lemma spec_steps_model : forall szs st ps rows rows', nonneg szs ->
  (extend_keeps_strand = true \/ st = false \/ no_extend ps) ->
  spec_steps szs st rows ps = Some rows' -> model_steps szs (st, rows) ps = inr (st, rows').
Proof.
  intros szs st. induction ps as [|p ps IH]; intros rows rows' Hs Hc H.
  - cbn in *. inversion H. reflexivity.
  - cbn [spec_steps model_steps] in *. destruct (spec_step szs st rows p) as [rows1|] eqn:E; [|discriminate].
    rewrite (spec_step_model szs st rows p rows1 Hs); [|
      destruct Hc as [Hk|[Hf|Hn]]; [left; exact Hk|right; left; exact Hf|right; right; intros n Hp; apply (Hn n); left; exact Hp]
      |exact E].
    apply IH; [exact Hs| |exact H].
    destruct Hc as [Hk|[Hf|Hn]]; [left; exact Hk|right; left; exact Hf|right; right; intros n Hin; apply (Hn n); right; exact Hin].
Qed.
(* a program of the model is the composition of the per-chromosome operations on a table that stays as stranded as it
   was created *)
Theorem prog_spec : forall szs vals st es ps k r, nonneg szs ->
  (extend_keeps_strand = true \/ st = false \/ no_extend ps) ->
  (k = CExtract -> szs = map len vals) ->
  spec_prog szs vals st es ps k = Some r -> model_prog szs vals st es ps k = r.
Proof.
  intros szs vals st es ps k r Hs Hc Hx H. unfold spec_prog, model_prog in *.
  destruct (spec_steps szs st es ps) as [rows|] eqn:E; [|discriminate].
  rewrite (spec_steps_model szs st ps es rows Hs Hc E). destruct k; cbn [spec_cons model_cons] in *.
  - destruct (forallb (entry_good szs) rows) eqn:G; [|discriminate]. inversion H.
    apply extract_local; [apply Hx; reflexivity|apply good_wf; exact G].
  - destruct (forallb (entry_good szs) rows) eqn:G; [|discriminate]. inversion H. apply seq_full.
  - destruct (Z.leb_spec 0 w); [|discriminate]. destruct (Z.leb_spec w 2); [|discriminate]. cbn in H. inversion H.
    f_equal. apply map_ext. intros e. rewrite location_fixed_spec by lia. reflexivity.
Qed.

(* ------------------------------------------------------------------ the guard common to model_run and spec_run *)
Lemma geo_guard : forall c, (is_geo (k_op c) = true -> all_included c = true) ->
  is_geo (k_op c) && negb (all_included c) = false.
Proof. intros c H. destruct (is_geo (k_op c)); [rewrite H by reflexivity|]; reflexivity. Qed.

Lemma placed_accepts : forall c r m,
  (is_geo (k_op c) = true -> all_included c = true) ->
  (forallb (entry_good (szs c)) (ves c) = true -> m = r) ->
  (forallb (entry_good (szs c)) (ves c) = false -> is_err m = true) ->
  accepts (flags c) (placed c r) (uncode_res (flags c) m) = true.
Proof.
  intros c r m Hg Hgood Hbad. unfold placed. rewrite (geo_guard c Hg).
  destruct (forallb (entry_good (szs c)) (ves c)).
  - rewrite (Hgood eq_refl). cbn [accepts]. apply res_eqb_refl.
  - specialize (Hbad eq_refl). destruct (existsb (entry_bad (szs c)) (ves c)); cbn [accepts]; rewrite is_err_uncode, Hbad; reflexivity.
Qed.

(* the refusal of tables that are not good, in the shape the placing models have *)
Lemma refused : forall c, Forall (fun e => e_start e <= e_stop e) (k_entries c) ->
  forallb (entry_good (szs c)) (ves c) = false -> exists code, check_bounds (szs c) (ves c) = Some code.
Proof.
  intros c Ho Hg. apply not_good_refused; try assumption; [reflexivity| |apply ves_ordered; assumption].
  apply Forall_forall. intros e He. apply ves_in_range. exact He.
Qed.

(* ------------------------------------------------------------------ well-formed cases *)
Definition case_wf (c : case) : Prop :=
  nonneg (szs c)
  /\ Forall (fun e => e_start e <= e_stop e) (k_entries c)
  /\ (is_geo (k_op c) = true -> all_included c = true)
  /\ match k_op c with
     | OMerged _ d => chr_start_sorted (ves c) = true /\ 0 <= d
     | OClip false => Forall (fun e => e_start e <= size_of (szs c) (e_chr e) /\ 0 <= e_stop e) (ves c)
     | OLocation _ w => 0 <= w <= 2
     | OWindows l r => 0 <= l /\ 0 <= r /\ Forall (fun e => 0 <= e_start e < size_of (szs c) (e_chr e)) (ves c)
     | OExtract _ => szs c = map len (cvals c)
     | OSeq st => forallb (entry_good (szs c)) (ves c) = true
     | OProg st ps k =>
         (extend_keeps_strand = true \/ st = false \/ no_extend ps)
         /\ (k = CExtract -> szs c = map len (cvals c))
     | OUnder _ _ => False          (* values under a genome-wide mask: model and spec are compared per case, not proved equal *)
     | _ => True
     end.

Theorem model_accepts : forall c, case_wf c ->
  accepts (flags c) (spec_run c) (uncode_res (flags c) (model_run c)) = true.
Proof.
  intros c [Hs [Ho [Hg Hop]]]. unfold model_run, spec_run. rewrite (geo_guard c Hg). cbv zeta.
  pose proof (refused c Ho) as Href.
  destruct (k_op c) as [ |geo|geo|geo d| geo|geo n|geo|st w|l r| |st|st|st ps k|tk|ng sq] eqn:Eop.
  - (* coords *) rewrite (coords_spec (szs c) Hs). cbn [accepts]. apply res_eqb_refl.
  - (* pileup *) apply placed_accepts; [rewrite Eop; exact Hg| |].
    + intros Hgd. apply pileup_local; [exact Hs|apply wf_placed, good_placed; exact Hgd].
    + intros Hb. destruct (Href Hb) as [code E]. unfold model_pileup. rewrite E. reflexivity.
  - (* mask *) apply placed_accepts; [rewrite Eop; exact Hg| |].
    + intros Hgd. apply mask_local; [exact Hs|apply wf_placed, good_placed; exact Hgd].
    + intros Hb. destruct (Href Hb) as [code E]. unfold model_mask. rewrite E. reflexivity.
  - (* merged *) destruct Hop as [Hsorted Hd]. rewrite Hsorted. destruct (Z.leb_spec 0 d); [|lia]. cbn [andb].
    assert (Hgoodcase : forall m, (m = model_merged (szs c) (ctx_us (gx_keep (fctx c)) (gx_dict (fctx c))) d (ves c) \/ m = model_geo_merge (szs c) d (ves c)) ->
              forallb (entry_good (szs c)) (ves c) = true -> m = RIvs (map triple (spec_merged (szs c) d (ves c)))).
    { intros m Hm Hgd. destruct Hm as [-> | ->];
        [apply merged_local|apply geo_merge_local]; try assumption; try (apply good_placed; exact Hgd);
        apply chr_start_sorted_strong; exact Hsorted. }
    assert (Hbadcase : forall us, forallb (entry_good (szs c)) (ves c) = false ->
              is_err (model_merged_fixed (szs c) us d (ves c)) = true).
    { intros us Hb. destruct (Href Hb) as [code E]. unfold model_merged_fixed. destruct (Z.ltb_spec d 0); [reflexivity|].
      rewrite E. reflexivity. }
    destruct geo.
    + cbn [orb]. apply placed_accepts; [rewrite Eop; exact Hg| |].
      * intros Hgd. apply Hgoodcase; [right; reflexivity|exact Hgd].
      * intros Hb. apply (Hbadcase []). exact Hb.
    + cbn [orb]. destruct (forallb (entry_good (szs c)) (ves c)) eqn:Egood.
      * apply placed_accepts; [rewrite Eop; exact Hg| |].
        -- intros _. apply Hgoodcase; [left; reflexivity|reflexivity].
        -- intros Hb. congruence.
      * cbn [accepts]. rewrite is_err_uncode. unfold model_merged. rewrite (Hbadcase _ eq_refl). reflexivity.
  - (* clip *) destruct geo.
    + change (model_geo_clip (szs c) (ves c)) with (spec_clip (szs c) (ves c)). cbn [accepts]. apply res_eqb_refl.
    + rewrite (clip_partial (szs c) (ves c) Hs Hop). cbn [accepts]. apply res_eqb_refl.
  - (* extend *) change (model_extend (szs c) n (ves c)) with (spec_extend (szs c) n (ves c)). cbn [accepts]. apply res_eqb_refl.
  - (* sorted *) destruct geo.
    + (* Geometry.sort *)
      unfold placed. rewrite (geo_guard c) by (rewrite Eop; exact Hg).
      destruct (forallb (entry_good (szs c)) (ves c)) eqn:Egood.
      * destruct (geo_sort_spec (szs c) (ves c) Hs (wf_placed _ _ (good_placed _ _ Egood))) as [out [Em [Pm Sm]]].
        rewrite Em. cbn [accepts].
        rewrite (code_uncode_rows c out triple); [|intros e He; eapply Permutation_in; [exact Pm|exact He]|reflexivity].
        unfold spec_sorted_ok. rewrite same_rows_perm by (apply Permutation_map, Permutation_sym; exact Pm).
        rewrite sorted_by_map. cbn [andb]. rewrite <- Sm. f_equal.
      * destruct (Href eq_refl) as [code E]. unfold model_geo_sort. rewrite E.
        destruct (existsb (entry_bad (szs c)) (ves c)); cbn [accepts uncode_res code_res is_err]; reflexivity.
    + cbn [accepts]. rewrite (code_uncode_rows c (model_sorted (ves c)) triple);
        [|intros e He; eapply Permutation_in; [apply sort_by_perm|exact He]|reflexivity].
      destruct (sorted_spec (ves c)) as [Pm Sm]. unfold spec_sorted_ok.
      rewrite same_rows_perm by (apply Permutation_map, Permutation_sym; exact Pm).
      rewrite sorted_by_map. cbn [andb]. rewrite <- Sm. f_equal.
  - (* location *) cbn [accepts]. unfold model_location.
    replace (map (fun e => (e_chr e, model_location_fixed st w e)) (ves c))
      with (map (fun e => (e_chr e, spec_location st w e)) (ves c)); [apply res_eqb_refl|].
    apply map_ext. intros e. rewrite location_fixed_spec by exact Hop. reflexivity.
  - (* windows *) destruct Hop as [Hl [Hr Hloc]]. rewrite (windows_spec (szs c) l r (ves c) Hs Hl Hr Hloc).
    cbn [accepts]. apply res_eqb_refl.
  - (* locations sorted *) cbn [accepts].
    rewrite (code_uncode_pos c (model_loc_sorted (ves c)) (fun e => (e_chr e, e_start e)));
      [|intros e He; eapply Permutation_in; [apply sort_by_perm|exact He]|reflexivity].
    destruct (loc_sorted_spec (ves c)) as [Pm Sm]. rewrite map_map. unfold spec_sorted_ok.
    rewrite same_rows_perm by (apply Permutation_map, Permutation_sym; exact Pm).
    rewrite sorted_by_map. cbn [andb]. rewrite <- Sm. f_equal.
  - (* extract *) apply placed_accepts; [rewrite Eop; exact Hg| |].
    + intros Hgd. apply extract_local; [exact Hop|apply good_placed; exact Hgd].
    + intros Hb. destruct (Href Hb) as [code E]. unfold model_extract. rewrite E. reflexivity.
  - (* sequence *) rename Hop into Hgd. apply placed_accepts; [rewrite Eop; exact Hg| |].
    + intros _. apply seq_full.
    + intros Hb. congruence.
  - (* programs *) destruct Hop as [Hc Hx].
    destruct (spec_prog (szs c) (cvals c) st (ves c) ps k) as [r|] eqn:E; cbn [accepts]; [|reflexivity].
    rewrite (prog_spec _ _ _ _ _ _ r Hs Hc Hx E). apply res_eqb_refl.
  - (* run-length view *) apply placed_accepts; [rewrite Eop; exact Hg| |].
    + intros Hgd. apply runs_local; [exact Hs|apply wf_placed, good_placed; exact Hgd].
    + intros Hb. destruct (Href Hb) as [code E]. unfold model_runs. rewrite E. reflexivity.
  - (* values under a mask *) destruct Hop.
Qed.

Theorem model_ok_spec_ok : forall c, case_wf c -> model_ok c = true -> spec_ok c = true.
Proof. intros c H. apply link_by_model. apply model_accepts. exact H. Qed.

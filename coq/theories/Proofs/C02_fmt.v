(* Proofs/C02_fmt.v — list columns (the repaired split), per-type column correctness, and the generic end-to-end
   theorem for every TAB-delimited format parsed through delim_table. *)
From Coq Require Import ZArith List Bool Lia Arith.
From BNP Require Import Base.Prims Base.PrimsFacts Base.C02Lib Model.C02 Proofs.C02_table Proofs.C02_int Proofs.C02_misc Proofs.C02_e2e.
Import ListNotations.
Open Scope Z_scope.

(* ---------- list columns ---------- *)
Lemma split_on_ne sep l : split_on sep l <> [].
Proof.
  induction l as [|x l IH]; [discriminate|]. simpl. destruct (x =? sep); [discriminate|].
  destruct (split_on sep l); [congruence|discriminate].
Qed.
Definition nonempty (s : list Z) : bool := negb (len s =? 0).
Lemma nonempty_iff s : nonempty s = true <-> s <> [].
Proof.
  unfold nonempty. destruct s as [|x s]; [split; [discriminate|congruence]|].
  rewrite len_cons. pose proof (len_nonneg s). destruct (Z.eqb_spec (1 + len s) 0); [lia|]. split; [discriminate|reflexivity].
Qed.
Lemma filter_all {A} (p : A -> bool) l : (forall x, In x l -> p x = true) -> filter p l = l.
Proof.
  induction l as [|x l IH]; intros H; [reflexivity|]. simpl. rewrite (H x (or_introl eq_refl)).
  f_equal. apply IH. intros y Hy. apply H. right. exact Hy.
Qed.
(* dropping the empty strings of the split = the list items, as soon as no item is empty *)
Lemma filter_split_items f : (forall it, In it (list_items f) -> it <> []) ->
  filter nonempty (split_on 44 f) = list_items f.
Proof.
  intros H. unfold list_items in *. destruct (exists_last (split_on_ne 44 f)) as [l [x E]]. rewrite E in *.
  rewrite rev_app_distr in *. simpl rev in *. simpl app in *.
  destruct x as [|c x].
  - rewrite rev_involutive in *. rewrite filter_app. simpl. rewrite app_nil_r.
    apply filter_all. intros y Hy. apply nonempty_iff. apply H. exact Hy.
  - apply filter_all. intros y Hy. apply nonempty_iff. apply H. exact Hy.
Qed.
Lemma removelast_slice_sep (data : list Z) s e : 0 <= s -> e < len data ->
  removelast (slice s (e + 1) data) = slice s e data.
Proof.
  intros Hs He. unfold slice.
  destruct (Z_le_gt_dec s e) as [Hle|Hgt].
  - replace (Z.to_nat (e + 1 - s)) with (S (Z.to_nat (e - s))) by lia.
    remember (skipn (Z.to_nat s) data) as l.
    assert (Hl : (S (Z.to_nat (e - s)) <= length l)%nat).
    { subst l. rewrite skipn_length. unfold len in He. lia. }
    clear Heql. remember (Z.to_nat (e - s)) as k. clear Heqk.
    revert l Hl. induction k as [|k IH]; intros l Hl.
    + destruct l; [simpl in Hl; lia|]. reflexivity.
    + destruct l as [|x l]; [simpl in Hl; lia|]. simpl in Hl.
      change (firstn (S (S k)) (x :: l)) with (x :: firstn (S k) l).
      destruct l as [|y l]; [simpl in Hl; lia|].
      change (firstn (S k) (y :: l)) with (y :: firstn k l) at 1.
      change (removelast (x :: y :: firstn k l)) with (x :: removelast (y :: firstn k l)).
      change (y :: firstn k l) with (firstn (S k) (y :: l)). rewrite IH by (cbn [length] in *; lia). reflexivity.
  - replace (Z.to_nat (e + 1 - s)) with O by lia. replace (Z.to_nat (e - s)) with O by lia. reflexivity.
Qed.

(* B: the repaired list split, row by row = split each text on ',' and parse its items; trailing separators and
   empty lists included; whatever byte follows each field *)
Theorem intlist_fixed_correct : forall {A} (parser : list Z -> option A) (fields : list (list Z)) (after : list Z -> Z),
  (forall f, In f fields -> forall it, In it (list_items f) -> it <> []) ->
  parse_split_fixed parser (map (fun f => f ++ [after f]) fields) = mapM (fun f => mapM parser (list_items f)) fields.
Proof.
  intros A parser fields after H. unfold parse_split_fixed. rewrite mapM_map. apply mapM_ext_in. intros f Hf.
  rewrite removelast_app_single.
  replace (filter (fun s => negb (len s =? 0)) (split_on 44 f)) with (filter nonempty (split_on 44 f)) by reflexivity.
  rewrite filter_split_items by (apply H; exact Hf). reflexivity.
Qed.

(* ---------- per-type well-formedness of a field text ---------- *)
Definition wf_field (ty : ctype) (f : list Z) : bool :=
  match ty with
  | TStr | TSid => true
  | TInt | TIntM1 => numeral f
  | TOptInt => zlist_eqb f [46] || numeral f
  | TStrand => match f with [c] => is_strand c | _ => false end
  | TIntList => forallb numeral (list_items f)
  | TFloat | TQual | TRest => false
  end.

Lemma zlist_eqb_eq a b : zlist_eqb a b = true -> a = b.
Proof.
  unfold zlist_eqb. revert b. induction a as [|x a IH]; intros b H; destruct b as [|y b]; try discriminate; [reflexivity|].
  simpl in H. apply andb_true_iff in H. destruct H as [H1 H2]. apply Z.eqb_eq in H1. subst. f_equal. apply IH. exact H2.
Qed.
Lemma numeral_nonempty f : numeral f = true -> f <> [].
Proof. intros H E. subst. discriminate. Qed.

Lemma texts_sep_of_table t rows j : table_ok t rows -> 0 <= j -> (forall r, In r rows -> j < len r) ->
  map (fun x => removelast x) (texts_sep t j) = map (fun r => field r j) rows.
Proof.
  intros Hok Hj Hl. rewrite <- (texts_of_table t rows j (ok_fields _ _ Hok) Hj Hl).
  unfold texts_sep, texts, m_keep_end. rewrite map_map. apply map_ext_in. intros se Hse.
  destruct (bounds_ok t rows j se Hok Hse) as [A B]. unfold text_at. apply removelast_slice_sep; assumption.
Qed.

Lemma mapM_strand f : match f with [c] => is_strand c | _ => false end = true -> mapM strand_sym f = Some f.
Proof.
  destruct f as [|c [|d f]]; try discriminate. intros H. unfold is_strand in H. simpl. unfold strand_sym.
  destruct (Z.eqb_spec c 43); [subst; reflexivity|]. destruct (Z.eqb_spec c 45); [subst; reflexivity|].
  destruct (Z.eqb_spec c 46); [subst; reflexivity|]. discriminate.
Qed.

(* every supported column type: the parsed column is the column the format assigns *)
Theorem typed_col_correct : forall t rows j ty,
  table_ok t rows -> rows <> [] -> 0 <= j -> (forall r, In r rows -> j < len r) ->
  (forall r, In r rows -> wf_field ty (field r j) = true) ->
  typed_col t j ty = spec_col rows (j, ty).
Proof.
  intros t rows j ty Hok Hne Hj Hl Hwf.
  destruct ty; try (exfalso; destruct rows as [|r0 rows']; [congruence|specialize (Hwf r0 (or_introl eq_refl)); discriminate]).
  - apply str_col_correct; assumption.
  - apply sid_col_correct; assumption.
  - apply int_col_correct; assumption.
  - apply intm1_col_correct; assumption.
  - (* Optional[int], repaired wrapper *)
    unfold typed_col, spec_col, parse_with_missing_cur. cbn [fst snd].
    rewrite (texts_of_table t rows j (ok_fields _ _ Hok) Hj Hl).
    rewrite optint_fixed_correct.
    + rewrite mapM_map. unfold spec_cell.
      replace (mapM (fun r => if zlist_eqb (field r j) [46] then Some (CInt 0) else option_map CInt (int_of_text (field r j))) rows)
        with (mapM (fun r => option_map CInt (optint_value (field r j))) rows)
        by (apply mapM_ext_in; intros r Hr; unfold optint_value; destruct (zlist_eqb (field r j) [46]); reflexivity).
      rewrite (mapM_option_map (fun r => optint_value (field r j)) CInt).
      unfold opt_col. destruct (mapM (fun x => optint_value (field x j)) rows); reflexivity.
    + intros x Hx. apply in_map_iff in Hx. destruct Hx as [r [E Hr]]. subst x.
      specialize (Hwf r Hr). simpl in Hwf. apply orb_true_iff in Hwf. destruct Hwf as [E|E]; [left; apply zlist_eqb_eq; exact E|right; exact E].
  - (* strand *)
    unfold typed_col, spec_col. cbn [fst snd].
    rewrite (texts_of_table t rows j (ok_fields _ _ Hok) Hj Hl), mapM_map.
    replace (mapM (fun x => mapM strand_sym (field x j)) rows) with (Some (map (fun r => field r j) rows)).
    + replace (mapM (fun r => spec_cell TStrand r j) rows) with (Some (map (fun r => CBytes (field r j)) rows)).
      * simpl. rewrite map_map. reflexivity.
      * symmetry. rewrite <- mapM_some. apply mapM_ext_in. intros r Hr. specialize (Hwf r Hr). simpl in Hwf.
        unfold spec_cell. destruct (field r j) as [|c [|d f]]; try discriminate. rewrite Hwf. reflexivity.
    + symmetry. rewrite <- mapM_some. apply mapM_ext_in. intros r Hr. apply mapM_strand. apply (Hwf r Hr).
  - (* list of integers, repaired split *)
    unfold typed_col, spec_col, parse_split_cur, parse_split_fixed. cbn [fst snd].
    rewrite <- (map_id (texts_sep t j)) at 1.
    replace (mapM (fun r => mapM str_to_int_auto (filter (fun s => negb (len s =? 0)) (split_on 44 (removelast r)))) (map (fun x => x) (texts_sep t j)))
      with (mapM (fun x => mapM str_to_int_auto (filter nonempty (split_on 44 x))) (map (fun x => removelast x) (texts_sep t j)))
      by (rewrite !mapM_map; reflexivity).
    rewrite (texts_sep_of_table t rows j Hok Hj Hl), mapM_map.
    assert (E : forall r, In r rows -> mapM str_to_int_auto (filter nonempty (split_on 44 (field r j))) = mapM int_of_text (list_items (field r j))).
    { intros r Hr. specialize (Hwf r Hr). simpl in Hwf. rewrite forallb_forall in Hwf.
      rewrite filter_split_items by (intros it Hit; apply numeral_nonempty; apply Hwf; exact Hit).
      apply mapM_ext_in. intros it Hit. apply auto_correct. apply Hwf. exact Hit. }
    rewrite (mapM_ext_in _ _ _ E). unfold spec_cell.
    rewrite (mapM_option_map (fun r => mapM int_of_text (list_items (field r j))) CInts).
    unfold opt_col. destruct (mapM (fun r => mapM int_of_text (list_items (field r j))) rows); reflexivity.
Qed.

(* ---------- every format parsed through delim_table ---------- *)
Definition delim_format (f : format) : bool :=
  match f with Fbed3 | Fbed6 | Fbed12 | Fbdg | Fnpk | Fsizes | Fgtf | Fpairs | Fgfa | Fvcf => true | _ => false end.
(* the columns read besides the schema: the INFO text of a VCF without INFO declarations *)
Definition extra_cols (f : format) : list (Z * ctype) := match f with Fvcf => [(7, TStr)] | _ => [] end.
Definition all_cols (f : format) : list (Z * ctype) := schema f ++ extra_cols f.
(* what "well-formed for column (j, ty)" means for a list of records with n fields *)
Definition col_wf (rows : list (list (list Z))) (n : Z) (jt : Z * ctype) : Prop :=
  0 <= fst jt < n /\ (forall r, In r rows -> wf_field (snd jt) (field r (fst jt)) = true).

Lemma run_cols_delim f t : delim_format f = true ->
  run_cols f None t = map (fun jt => typed_col t (fst jt) (snd jt)) (all_cols f).
Proof. intros H. destruct f; try discriminate; unfold run_cols, all_cols, extra_cols; rewrite map_app; simpl; rewrite ?app_nil_r; reflexivity. Qed.
Lemma spec_cols_delim f rows : delim_format f = true ->
  spec_cols f None rows = map (spec_col rows) (all_cols f).
Proof. intros H. destruct f; try discriminate; unfold spec_cols, all_cols, extra_cols; rewrite map_app; simpl; rewrite ?app_nil_r; reflexivity. Qed.

(* Column by column: whatever the other columns look like (floats included), every supported, well-formed column
   of the file comes out as the format assigns, and there is one entry per record. *)
Theorem delimited_columns : forall (f : format) (crlf : bool) (hs : list (list Z)) (rows : list (list (list Z))) (n : Z),
  delim_format f = true -> eager_format f = false ->
  (forall h, In h hs -> hd0 h = 35 /\ ~ In 10 h) ->
  rows <> [] -> 1 <= n ->
  (forall r, In r rows -> len r = n /\ forall x, In x r -> clean x) ->
  hd0 (body_of crlf rows) <> 35 ->
  exists t, run f None (lay (eol_of crlf) hs ++ body_of crlf rows) = Obs (len rows) (run_cols f None t) true
            /\ forall jt, col_wf rows n jt -> typed_col t (fst jt) (snd jt) = spec_col rows jt.
Proof.
  intros f crlf hs rows n Hf He Hh Hne Hn H Hb.
  assert (Hc : comment_byte f = 35) by (destruct f; try discriminate; reflexivity).
  assert (Ht : forall b, table_of f b = delim_table 9 b) by (intro b; destruct f; try discriminate; reflexivity).
  destruct (table_of_rows crlf n rows Hn Hne H) as [t [Htab [Hok Hl]]].
  exists t. split.
  - unfold run. rewrite Hc, skip_header_correct by (try assumption; lia). rewrite Ht, Htab.
    destruct f; try discriminate; cbn [eager_format andb]; rewrite Hl; reflexivity.
  - intros [j ty] [Hj Hwf]. cbn [fst snd] in *.
    apply typed_col_correct; try assumption; try lia.
    intros r Hr. destruct (H r Hr) as [E _]. lia.
Qed.

(* Whole files: for every well-formed file of a float-free TAB-delimited format — BED3, BED6 (strand, optional
   score), BED12 (list columns), chrom.sizes, pairs, GFA S-lines, GTF, VCF fixed columns with INFO kept as text —
   the model returns one entry per record and exactly the columns the format assigns. *)
Theorem delimited_end_to_end : forall (f : format) (crlf : bool) (hs : list (list Z)) (rows : list (list (list Z))) (n : Z),
  delim_format f = true ->
  (forall h, In h hs -> hd0 h = 35 /\ ~ In 10 h) ->
  rows <> [] -> 1 <= n ->
  (forall r, In r rows -> len r = n /\ forall x, In x r -> clean x) ->
  (forall jt, In jt (all_cols f) -> col_wf rows n jt) ->
  hd0 (body_of crlf rows) <> 35 ->
  (eager_format f = true -> existsb is_err (spec_cols f None rows) = false) ->
  run f None (lay (eol_of crlf) hs ++ body_of crlf rows) = Obs (len rows) (spec_cols f None rows) true.
Proof.
  intros f crlf hs rows n Hf Hh Hne Hn H Hwf Hb Heager.
  assert (Hc : comment_byte f = 35) by (destruct f; try discriminate; reflexivity).
  assert (Ht : forall b, table_of f b = delim_table 9 b) by (intro b; destruct f; try discriminate; reflexivity).
  destruct (table_of_rows crlf n rows Hn Hne H) as [t [Htab [Hok Hl]]].
  assert (Hcols : run_cols f None t = spec_cols f None rows).
  { rewrite run_cols_delim, spec_cols_delim by assumption. apply map_ext_in. intros [j ty] Hin.
    destruct (Hwf _ Hin) as [Hj Hw]. cbn [fst snd] in *.
    apply typed_col_correct; try assumption; try lia.
    intros r Hr. destruct (H r Hr) as [E _]. lia. }
  unfold run. rewrite Hc, skip_header_correct by (try assumption; lia). rewrite Ht, Htab, Hcols, Hl.
  destruct (eager_format f) eqn:Ee.
  - rewrite (Heager eq_refl). destruct f; try discriminate; reflexivity.
  - destruct f; try discriminate; reflexivity.
Qed.

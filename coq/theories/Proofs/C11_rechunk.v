(* Proofs/C11_rechunk.v — re-chunking helpers: chunk_entries_pinned (pinned `if`, repaired `while`) and chunk_lines. *)
From Coq Require Import ZArith List Bool Lia Arith.
From BNP Require Import Base.Prims Base.PrimsFacts Model.C11.
Import ListNotations.
Open Scope Z_scope.

(* ---------- sizes_ok ---------- *)
Lemma sizes_ok_full lo n l : lo <= n -> Forall (fun x => x = n) l -> sizes_ok lo n l = true.
Proof.
  intros Hlo. induction l as [|x l IH]; intros H; [reflexivity|].
  inversion H as [|? ? Hx Hl]; subst. specialize (IH Hl).
  destruct l as [|y l].
  - simpl. lia.
  - change (sizes_ok lo n (n :: y :: l)) with ((n =? n) && sizes_ok lo n (y :: l)).
    rewrite IH, Z.eqb_refl. reflexivity.
Qed.
Lemma sizes_ok_app lo n l l' : lo <= n -> Forall (fun x => x = n) l -> sizes_ok lo n l' = true ->
  sizes_ok lo n (l ++ l') = true.
Proof.
  intros Hlo Hl Hl'. induction l as [|x l IH]; [exact Hl'|].
  inversion Hl as [|? ? Hx Hrest]; subst. specialize (IH Hrest).
  cbn [app]. destruct (l ++ l') as [|y r] eqn:E.
  - simpl. lia.
  - change (sizes_ok lo n (n :: y :: r)) with ((n =? n) && sizes_ok lo n (y :: r)).
    rewrite IH, Z.eqb_refl. reflexivity.
Qed.

Lemma zlist_eqb_refl l : zlist_eqb l l = true.
Proof. induction l as [|x l IH]; simpl; [reflexivity|]. unfold zlist_eqb in *. simpl. rewrite Z.eqb_refl, IH. reflexivity. Qed.

Section Rechunk.
Context {A : Type}.
Variable n : nat.
Hypothesis Hn : (1 <= n)%nat.

(* ---------- the pinned `if` version keeps content and order ---------- *)
Lemma chunk_entries_if_concat : forall (cs : list (list A)) buf,
  concat (chunk_entries_if n buf cs) = buf ++ concat cs.
Proof.
  induction cs as [|c r IH]; intros buf.
  - simpl. rewrite app_nil_r. destruct buf; simpl; [reflexivity|]. rewrite app_nil_r. reflexivity.
  - cbn [chunk_entries_if concat]. unfold m_ce_cond.
    destruct (n <=? length (buf ++ c))%nat.
    + cbn [concat]. rewrite IH. rewrite app_assoc. rewrite firstn_skipn. rewrite app_assoc. reflexivity.
    + rewrite IH. rewrite app_assoc. reflexivity.
Qed.

(* ---------- the inner `while` ---------- *)
Lemma drain_spec : forall fuel (total : list A), (length total <= fuel)%nat ->
  exists o rest, drain fuel n total = Some (o, rest)
    /\ concat o ++ rest = total /\ Forall (fun c => length c = n) o /\ (length rest < n)%nat.
Proof.
  induction fuel as [|f IH]; intros total Hlen.
  - destruct total; [|simpl in Hlen; lia].
    exists [], []. simpl. unfold m_ce_cond. destruct (Nat.leb_spec n 0); [lia|]. repeat split; auto; simpl; lia.
  - cbn [drain]. unfold m_ce_cond. destruct (Nat.leb_spec n (length total)) as [Hge|Hlt].
    + destruct (IH (skipn n total)) as (o & rest & E & Hc & Hf & Hr).
      { rewrite skipn_length. lia. }
      rewrite E. exists (firstn n total :: o), rest. repeat split.
      * cbn [concat]. rewrite <- app_assoc, Hc. apply firstn_skipn.
      * constructor; [|exact Hf]. rewrite firstn_length. lia.
      * exact Hr.
    + exists [], total. repeat split; auto.
Qed.

Lemma chunk_entries_while_spec : forall (cs : list (list A)) buf, (length buf < n)%nat ->
  exists out, chunk_entries_while n buf cs = Some out
    /\ concat out = buf ++ concat cs
    /\ sizes_ok 1 (Z.of_nat n) (map len out) = true
    /\ Forall (fun c => c <> []) out.
Proof.
  induction cs as [|c r IH]; intros buf Hbuf.
  - exists (match buf with [] => [] | _ => [buf] end). split; [reflexivity|].
    destruct buf as [|x b]; [simpl; auto|].
    cbn [concat map sizes_ok]. rewrite !app_nil_r. repeat split; auto.
    + apply andb_true_iff. split; apply Z.leb_le; unfold len; simpl length in *; lia.
    + constructor; [discriminate|constructor].
  - cbn [chunk_entries_while].
    destruct (drain_spec (length (buf ++ c)) (buf ++ c) (le_n _)) as (o & rest & E & Hc & Hf & Hr).
    rewrite E. destruct (IH rest Hr) as (o' & E' & Hc' & Hs' & Hne').
    rewrite E'. exists (o ++ o'). split; [reflexivity|]. repeat split.
    + rewrite concat_app, Hc'. cbn [concat]. rewrite app_assoc, Hc. rewrite app_assoc. reflexivity.
    + rewrite map_app. apply sizes_ok_app; [lia| |exact Hs'].
      apply Forall_forall. intros x Hx. apply in_map_iff in Hx. destruct Hx as (y & <- & Hy).
      rewrite Forall_forall in Hf. unfold len. rewrite (Hf y Hy). reflexivity.
    + apply Forall_app. split; [|exact Hne'].
      apply Forall_forall. intros y Hy. rewrite Forall_forall in Hf. specialize (Hf y Hy).
      destruct y; [simpl in Hf; lia|discriminate].
Qed.

(* ---------- when the `if` suffices: no incoming chunk leaves a full chunk behind ---------- *)
Fixpoint no_double (carried : nat) (cs : list (list A)) : Prop :=
  match cs with
  | [] => True
  | c :: r => let t := (carried + length c)%nat in
              (t < 2 * n)%nat /\ no_double (if (n <=? t)%nat then (t - n)%nat else t) r
  end.

Lemma drain_once fuel (total : list A) : (length total <= fuel)%nat -> (length total < 2 * n)%nat ->
  drain fuel n total = if (n <=? length total)%nat then Some ([firstn n total], skipn n total) else Some ([], total).
Proof.
  intros Hf Hlt. destruct fuel as [|f].
  - destruct total; [|simpl in Hf; lia]. simpl. unfold m_ce_cond. destruct (Nat.leb_spec n 0); [lia|reflexivity].
  - cbn [drain]. unfold m_ce_cond. destruct (Nat.leb_spec n (length total)) as [Hge|Hl]; [|reflexivity].
    assert (Hs : (length (skipn n total) < n)%nat) by (rewrite skipn_length; lia).
    destruct f as [|f']; cbn [drain]; unfold m_ce_cond;
      (destruct (Nat.leb_spec n (length (skipn n total))); [lia|reflexivity]).
Qed.

Lemma if_equals_while : forall (cs : list (list A)) buf, no_double (length buf) cs ->
  chunk_entries_while n buf cs = Some (chunk_entries_if n buf cs).
Proof.
  induction cs as [|c r IH]; intros buf Hnd; [reflexivity|].
  cbn [no_double] in Hnd. destruct Hnd as [Hlt Hrest].
  cbn [chunk_entries_while chunk_entries_if]. unfold m_ce_cond.
  rewrite <- app_length in Hlt, Hrest.
  rewrite drain_once by (try apply le_n; exact Hlt).
  destruct (Nat.leb_spec n (length (buf ++ c))) as [Hge|Hl].
  - rewrite IH; [reflexivity|]. rewrite skipn_length. exact Hrest.
  - rewrite IH; [reflexivity|exact Hrest].
Qed.

(* ---------- chunk_lines ---------- *)
Let N := Z.of_nat n.

Lemma lines_drain_spec : forall fuel (chunk cur : list A) remaining,
  (length chunk < fuel)%nat -> len cur + remaining = N -> 1 <= remaining ->
  exists o cur' chunk' rem',
    lines_drain fuel N cur chunk remaining = Some (o, cur', chunk', rem')
    /\ concat o ++ cur' ++ chunk' = cur ++ chunk
    /\ Forall (fun c => len c = N) o
    /\ len cur' + rem' = N /\ len chunk' < rem' /\ 1 <= rem'.
Proof.
  induction fuel as [|f IH]; intros chunk cur remaining Hf Hinv Hrem; [lia|].
  cbn [lines_drain]. unfold m_cl_cond. destruct (Z.geb_spec (len chunk) remaining) as [Hge|Hlt].
  - destruct (IH (skipn (Z.to_nat remaining) chunk) [] N) as (o & cur' & chunk' & rem' & E & Hc & Hfo & Hi & Hl & Hr).
    { rewrite skipn_length. unfold len in *. lia. }
    { rewrite len_nil. lia. }
    { unfold N. lia. }
    rewrite E. exists ((cur ++ firstn (Z.to_nat remaining) chunk) :: o), cur', chunk', rem'.
    split; [reflexivity|]. repeat split; try assumption.
    + cbn [concat]. rewrite <- !app_assoc. f_equal. simpl in Hc.
      rewrite Hc. apply firstn_skipn.
    + constructor; [|exact Hfo]. rewrite len_app, len_firstn. unfold len in *. lia.
  - exists [], cur, chunk, remaining. repeat split; auto; lia.
Qed.

Lemma chunk_lines_go_spec : forall (cs : list (list A)) cur remaining,
  len cur + remaining = N -> 1 <= remaining ->
  exists out, chunk_lines_go N cur remaining cs = Some out
    /\ concat out = cur ++ concat cs
    /\ sizes_ok 0 N (map len out) = true.
Proof.
  induction cs as [|c r IH]; intros cur remaining Hinv Hrem.
  - exists [cur]. split; [reflexivity|]. simpl. rewrite !app_nil_r. split; [reflexivity|].
    pose proof (len_nonneg cur). lia.
  - cbn [chunk_lines_go]. unfold m_cl_after.
    destruct (lines_drain_spec (S (length c)) c cur remaining) as (o & cur' & c' & rem' & E & Hc & Hfo & Hi & Hl & Hr);
      [lia|exact Hinv|exact Hrem|].
    rewrite E.
    destruct (IH (cur' ++ c') (rem' - len c')) as (o' & E' & Hc' & Hs').
    { rewrite len_app. lia. }
    { lia. }
    rewrite E'. exists (o ++ o'). split; [reflexivity|]. split.
    + rewrite concat_app, Hc'. cbn [concat]. rewrite !app_assoc. f_equal.
      rewrite <- app_assoc. exact Hc.
    + rewrite map_app. apply sizes_ok_app; [unfold N; lia| |exact Hs'].
      apply Forall_forall. intros x Hx. apply in_map_iff in Hx. destruct Hx as (y & <- & Hy).
      rewrite Forall_forall in Hfo. exact (Hfo y Hy).
Qed.
End Rechunk.

(* ---------- statements used in Props ---------- *)
Theorem rechunk_fixed : forall (n : nat) (cs : list (list Z)), (1 <= n)%nat ->
  exists out, chunk_entries_fixed n cs = Some out
    /\ rechunk_ok 1 (Z.of_nat n) (concat cs) out = true
    /\ Forall (fun c => c <> []) out.
Proof.
  intros n cs Hn. unfold chunk_entries_fixed.
  destruct (chunk_entries_while_spec n Hn cs []) as (out & E & Hc & Hs & Hne); [simpl; lia|].
  exists out. split; [exact E|]. split; [|exact Hne].
  unfold rechunk_ok. rewrite Hc. simpl. rewrite zlist_eqb_refl, Hs. reflexivity.
Qed.

Theorem rechunk_pinned_order : forall (n : nat) (cs : list (list Z)),
  exists out, chunk_entries_pinned n cs = Some out /\ concat out = concat cs.
Proof.
  intros n cs. exists (chunk_entries_if n [] cs). split; [reflexivity|].
  exact (chunk_entries_if_concat n cs []).
Qed.

Theorem rechunk_pinned_partial : forall (n : nat) (cs : list (list Z)), (1 <= n)%nat ->
  no_double n 0 cs ->
  exists out, chunk_entries_pinned n cs = Some out /\ rechunk_ok 1 (Z.of_nat n) (concat cs) out = true.
Proof.
  intros n cs Hn Hnd. destruct (rechunk_fixed n cs Hn) as (out & E & Hok & _).
  unfold chunk_entries_fixed in E. rewrite (if_equals_while n Hn cs []) in E by exact Hnd.
  injection E as <-. exists (chunk_entries_if n [] cs). split; [reflexivity|exact Hok].
Qed.

Theorem rechunk_pinned_refuted :
  exists (n : nat) (cs : list (list Z)), (1 <= n)%nat /\
    forall out, chunk_entries_pinned n cs = Some out -> rechunk_ok 1 (Z.of_nat n) (concat cs) out = false.
Proof.
  exists 3%nat, [[0; 1; 2; 3; 4; 5; 6; 7; 8; 9]]. split; [lia|].
  intros out E. injection E as <-. vm_compute. reflexivity.
Qed.

Theorem chunk_lines_ok : forall (n : nat) (cs : list (list Z)), (1 <= n)%nat -> cs <> [] ->
  exists out, chunk_lines (Z.of_nat n) cs = Some out /\ rechunk_ok 0 (Z.of_nat n) (concat cs) out = true.
Proof.
  intros n cs Hn Hne. unfold chunk_lines. destruct cs as [|c r]; [congruence|].
  destruct (chunk_lines_go_spec n Hn (c :: r) [] (Z.of_nat n)) as (out & E & Hc & Hs).
  { rewrite len_nil. lia. }
  { lia. }
  exists out. split; [exact E|]. unfold rechunk_ok. rewrite Hc. simpl app.
  rewrite zlist_eqb_refl, Hs. reflexivity.
Qed.

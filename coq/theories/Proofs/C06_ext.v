(* Proofs/C06_ext.v — numeric offset encodings, StringEncoding, KmerEncoding (C06 phase 3). *)
From Coq Require Import ZArith List Bool Lia Arith.
From BNP Require Import Base.Prims Base.PrimsFacts Model.C06 Proofs.C06.
Import ListNotations.
Open Scope Z_scope.

(* ------------------------------------------------------------------ numeric offset encodings *)
Lemma num_roundtrip_u8 b mc : byte b -> num_decode_u8 (num_encode_u8 b mc) mc = b.
Proof.
  unfold byte, num_decode_u8, num_encode_u8, num_decode, num_encode. intros H.
  rewrite Zplus_mod_idemp_l. replace (b - mc + mc) with b by ring. apply Z.mod_small. lia.
Qed.

Lemma num_encode_u8_in_range b mc : 0 <= mc -> mc <= b < 256 ->
  num_encode_u8 b mc = b - mc /\ 0 <= b - mc <= 255 - mc.
Proof.
  unfold num_encode_u8, num_encode. intros H0 H. split. apply Z.mod_small. lia. lia.
Qed.

(* below min_code the uint8 subtraction wraps: the byte is still given back by decode, but its code is not b - mc *)
Lemma num_encode_u8_below b mc : 0 <= b < mc -> mc < 256 -> num_encode_u8 b mc = b - mc + 256.
Proof.
  unfold num_encode_u8, num_encode. intros H H1.
  transitivity ((b - mc + 1 * 256) mod 256). symmetry; apply Z_mod_plus_full. rewrite Z.mod_small; lia.
Qed.

Lemma map_map_roundtrip mc rows : Forall (Forall byte) rows ->
  map (map (fun d => num_decode_u8 d mc)) (map (map (fun b => num_encode_u8 b mc)) rows) = rows.
Proof.
  induction 1 as [|r rows Hr _ IH]; simpl. reflexivity. rewrite IH. f_equal.
  induction Hr as [|b r Hb _ IHr]; simpl. reflexivity. rewrite IHr, num_roundtrip_u8 by exact Hb. reflexivity.
Qed.

Lemma num_rows_roundtrip route mc rows :
  Forall (Forall byte) rows -> route <> 9 ->
  is_str_route route && existsb (fun c => 128 <=? c) (concat rows) = false ->
  num_rows route mc rows = (Ok [], map (map (fun b => num_encode_u8 b mc)) rows, rows).
Proof.
  intros Hb Hr Hu. unfold num_rows. replace (route =? 9) with false by (symmetry; apply Z.eqb_neq; exact Hr).
  rewrite Hu. cbv zeta. rewrite map_map_roundtrip by exact Hb. reflexivity.
Qed.

(* ------------------------------------------------------------------ StringEncoding *)
Lemma find_from_some h hs : forall i j, find_from i h hs = Some j ->
  i <= j < i + len hs /\ nth (Z.to_nat (j - i)) hs (h + 1) = h.
Proof.
  induction hs as [|x r IH]; intros i j H; simpl in H. discriminate.
  rewrite len_cons. pose proof (len_nonneg r). destruct (x =? h) eqn:E.
  - assert (j = i) by congruence. subst j. apply Z.eqb_eq in E. replace (i - i) with 0 by lia. split. lia. exact E.
  - apply IH in H as [R N]. split. lia.
    replace (Z.to_nat (j - i)) with (S (Z.to_nat (j - (i + 1)))) by lia. exact N.
Qed.

Lemma nodupb_cons x r : nodupb (x :: r) = true -> ~ In x r /\ nodupb r = true.
Proof.
  simpl. intros H. apply andb_true_iff in H as [H1 H2]. split; [|exact H2].
  apply negb_true_iff in H1. intros Hin. assert (existsb (Z.eqb x) r = true).
  { apply existsb_exists. exists x. split. exact Hin. apply Z.eqb_refl. } congruence.
Qed.

Lemma find_from_nodup hs : nodupb hs = true -> forall (k : nat) i d, (k < length hs)%nat ->
  find_from i (nth k hs d) hs = Some (i + Z.of_nat k).
Proof.
  induction hs as [|x r IH]; intros Hn k i d Hk; simpl in Hk. lia.
  apply nodupb_cons in Hn as [Hx Hr]. destruct k as [|k]; simpl.
  - rewrite Z.eqb_refl. f_equal. lia.
  - destruct (x =? nth k r d) eqn:E.
    + apply Z.eqb_eq in E. exfalso. apply Hx. rewrite E. apply nth_In. lia.
    + rewrite (IH Hr k (i + 1) d) by lia. f_equal. lia.
Qed.

Lemma all_some_map_inv {A B} (f : A -> option B) qs : forall idx, all_some (map f qs) = Some idx ->
  length idx = length qs /\ forall n q, nth_error qs n = Some q -> exists i, nth_error idx n = Some i /\ f q = Some i.
Proof.
  induction qs as [|q qs IH]; intros idx H; simpl in H.
  - inversion H; subst. split. reflexivity. intros [|n] q' Hq; discriminate.
  - destruct (f q) as [i|] eqn:E; [|discriminate].
    destruct (all_some (map f qs)) as [t|] eqn:Et; [|discriminate]. inversion H; subst.
    destruct (IH t eq_refl) as [L P]. split. simpl. lia.
    intros [|n] q' Hq; simpl in *.
    + inversion Hq; subst. exists i. auto.
    + apply P. exact Hq.
Qed.

Lemma str_lookup_true_sound labels q i : str_lookup true labels q = Some i ->
  0 <= i < len labels /\ nth (Z.to_nat i) labels [] = q.
Proof.
  unfold str_lookup. destruct (find_from 0 (str_hash q) (map str_hash labels)) as [j|] eqn:E; [|discriminate].
  destruct (zlist_eqb (nth (Z.to_nat j) labels []) q) eqn:Eq; [|discriminate].
  intros H. inversion H; subst. apply find_from_some in E as [R _]. unfold len in R. rewrite map_length in R.
  split. unfold len. lia. apply zlist_eqb_eq. exact Eq.
Qed.

(* repaired StringEncoding: whatever is accepted decodes to exactly the queries *)
Lemma str_encode_true_sound labels : forall qs idx,
  str_encode true labels qs = Ok idx -> str_decode labels idx = Some qs.
Proof.
  intros qs idx H. unfold str_encode in H. destruct (negb (nodupb (map str_hash labels))); [discriminate|].
  destruct (all_some (map (str_lookup true labels) qs)) as [t|] eqn:E; [|discriminate]. inversion H; subst t. clear H.
  revert idx E. induction qs as [|q qs IH]; intros idx E; simpl in E.
  - inversion E. reflexivity.
  - destruct (str_lookup true labels q) as [i|] eqn:El; [|discriminate].
    destruct (all_some (map (str_lookup true labels) qs)) as [t|] eqn:Et; [|discriminate]. inversion E; subst.
    apply str_lookup_true_sound in El as [R N]. unfold str_decode in *. simpl.
    replace ((0 <=? i) && (i <? len labels)) with true
      by (symmetry; apply andb_true_iff; split; [apply Z.leb_le|apply Z.ltb_lt]; lia).
    rewrite (IH t eq_refl), N. reflexivity.
Qed.

(* every label is accepted with its own position (both variants) *)
Lemma str_lookup_label v labels (k : nat) : nodupb (map str_hash labels) = true -> (k < length labels)%nat ->
  str_lookup v labels (nth k labels []) = Some (Z.of_nat k).
Proof.
  intros Hn Hk. unfold str_lookup.
  assert (E : str_hash (nth k labels []) = nth k (map str_hash labels) (str_hash [])) by (symmetry; apply map_nth).
  rewrite E, (find_from_nodup _ Hn k 0) by (rewrite map_length; exact Hk). simpl.
  rewrite Nat2Z.id. destruct v; [|reflexivity].
  replace (zlist_eqb (nth k labels []) (nth k labels [])) with true by (symmetry; apply zlist_eqb_eq; reflexivity).
  reflexivity.
Qed.

Lemma str_encode_labels v labels (ks : list nat) : nodupb (map str_hash labels) = true ->
  Forall (fun k => (k < length labels)%nat) ks ->
  str_encode v labels (map (fun k => nth k labels []) ks) = Ok (map Z.of_nat ks)
  /\ str_decode labels (map Z.of_nat ks) = Some (map (fun k => nth k labels []) ks).
Proof.
  intros Hn Hk. unfold str_encode, str_decode. rewrite Hn. simpl.
  induction Hk as [|k ks Hk _ IH]; simpl. split; reflexivity.
  rewrite (str_lookup_label v labels k Hn Hk).
  destruct (all_some (map (str_lookup v labels) (map (fun k0 => nth k0 labels []) ks))) as [t|] eqn:Et;
    destruct IH as [I1 I2]; try discriminate.
  inversion I1; subst. split. reflexivity.
  replace ((0 <=? Z.of_nat k) && (Z.of_nat k <? len labels)) with true
    by (symmetry; apply andb_true_iff; split; [apply Z.leb_le|apply Z.ltb_lt]; unfold len; lia).
  rewrite Nat2Z.id, I2. reflexivity.
Qed.

(* repaired: a query that is not a label makes the whole call fail with EncodingError *)
Lemma str_encode_true_reject labels qs q : nodupb (map str_hash labels) = true ->
  In q qs -> ~ In q labels -> str_encode true labels qs = EncErr 0.
Proof.
  intros Hn Hq Hl. destruct (str_encode true labels qs) as [idx| | | |] eqn:E;
    try (unfold str_encode in E; rewrite Hn in E; simpl in E;
         destruct (all_some (map (str_lookup true labels) qs)); discriminate).
  - exfalso. apply str_encode_true_sound in E. unfold str_decode in E.
    apply all_some_map_inv in E as [L P]. apply (In_nth_error) in Hq as [n Hn'].
    assert (Hlen : (n < length idx)%nat) by (rewrite <- L; apply nth_error_Some; congruence).
    destruct (nth_error idx n) as [k|] eqn:Ek; [|apply nth_error_None in Ek; lia].
    destruct (P n k Ek) as [q' [Eq' Hk]]. rewrite Hn' in Eq'. inversion Eq'; subst q'.
    destruct ((0 <=? k) && (k <? len labels)) eqn:Er; [|discriminate]. inversion Hk as [Hq'].
    apply andb_true_iff in Er as [R1 R2]. apply Z.leb_le in R1. apply Z.ltb_lt in R2.
    apply Hl. rewrite <- Hq'. apply nth_In. unfold len in R2. lia.
  - unfold str_encode in E. rewrite Hn in E. simpl in E.
    destruct (all_some (map (str_lookup true labels) qs)); inversion E. reflexivity.
Qed.

(* the code at HEAD: only the hashes of what is accepted are right *)
Lemma str_lookup_false_hash labels q i : str_lookup false labels q = Some i ->
  0 <= i < len labels /\ str_hash (nth (Z.to_nat i) labels []) = str_hash q.
Proof.
  unfold str_lookup. destruct (find_from 0 (str_hash q) (map str_hash labels)) as [j|] eqn:E; [|discriminate].
  intros H. inversion H; subst. apply find_from_some in E as [R N]. unfold len in R. rewrite map_length in R.
  replace (i - 0) with i in N by lia. split. unfold len. lia.
  rewrite (nth_indep _ _ (str_hash [])) in N by (rewrite map_length; lia). rewrite map_nth in N. exact N.
Qed.

Lemma str_encode_pinned_partial labels qs q : nodupb (map str_hash labels) = true ->
  In q qs -> ~ In (str_hash q) (map str_hash labels) -> str_encode false labels qs = EncErr 0.
Proof.
  intros Hn Hq Hh. unfold str_encode. rewrite Hn. simpl.
  destruct (all_some (map (str_lookup false labels) qs)) as [idx|] eqn:E; [|reflexivity].
  exfalso. apply all_some_map_inv in E as [L P]. apply In_nth_error in Hq as [n Hn'].
  destruct (P n q Hn') as [i [_ Hi]]. apply str_lookup_false_hash in Hi as [R Hh'].
  apply Hh. rewrite <- Hh'. apply in_map. apply nth_In. unfold len in R. lia.
Qed.

Definition chr_labels : list (list Z) := [[99;104;114;49]; [99;104;114;50]; [65]; [99;104;114;88]].   (* chr1 chr2 A chrX *)
Lemma str_encode_pinned_refuted :
  exists labels q idx, nodupb (map str_hash labels) = true /\ ~ In q labels
    /\ str_encode false labels [q] = Ok idx /\ str_decode labels idx <> Some [q].
Proof.
  exists chr_labels, [118;106;80;97;99;57], [0].                                          (* "vjPac9" *)
  split. vm_compute. reflexivity. split.
  - intros H. repeat (destruct H as [H|H]; [discriminate|]). exact H.
  - split. vm_compute. reflexivity. vm_compute. discriminate.
Qed.

(* ------------------------------------------------------------------ KmerEncoding *)
Lemma kmer_digits_hash n codes : 0 < n -> Forall (fun c => 0 <= c < n) codes ->
  kmer_digits n (length codes) (kmer_hash n codes) = codes.
Proof.
  intros Hn H. induction H as [|c r Hc _ IH]; simpl. reflexivity.
  rewrite (Z.mul_comm n (kmer_hash n r)). rewrite Z_mod_plus_full, Z.div_add by lia.
  rewrite Z.mod_small, Z.div_small by lia. simpl. rewrite IH. reflexivity.
Qed.

Lemma spec_decode_range A codes t : spec_decode A codes = Some t ->
  Forall (fun c => 0 <= c < len A) codes /\ length t = length codes.
Proof.
  revert t. induction codes as [|k r IH]; intros t H; simpl in H. inversion H. split; constructor.
  destruct ((0 <=? k) && (k <? len A)) eqn:E; [|discriminate].
  destruct (spec_decode A r) as [t'|]; [|discriminate]. inversion H; subst.
  apply andb_true_iff in E as [E1 E2]. apply Z.leb_le in E1. apply Z.ltb_lt in E2.
  destruct (IH t' eq_refl) as [F L]. split. constructor. lia. exact F. simpl. lia.
Qed.

(* a k-mer text: accepted exactly when it has k letters of the alphabet; the number reads back as the upper-cased text *)
Lemma kmer_encode_exact A k s : alphabet_ok A -> Forall byte s ->
  (len s = k -> text_ok A s = true ->
     exists h, kmer_encode lower_fixed A k s = Ok [h] /\ kmer_to_string A k h = Some (map upper s))
  /\ (len s <> k \/ text_ok A s = false -> forall hs, kmer_encode lower_fixed A k s <> Ok hs).
Proof.
  intros HA Hs. destruct (encode_fixed_exact A s HA Hs) as [P1 P2]. split.
  - intros Hk Ht. destruct (P1 Ht) as [codes [E D]]. unfold kmer_encode.
    replace (len s =? k) with true by (symmetry; apply Z.eqb_eq; exact Hk). simpl. rewrite E.
    exists (kmer_hash (len A) codes). split. reflexivity.
    destruct (spec_decode_range A codes _ D) as [F L]. rewrite map_length in L.
    unfold kmer_to_string. assert (Ek : Z.to_nat k = length codes) by (unfold len in Hk; lia).
    rewrite Ek. destruct codes as [|c0 cr].
    + simpl. simpl in D. exact D.
    + assert (0 < len A) by (inversion F; lia).
      rewrite kmer_digits_hash by assumption. rewrite decode_flat_spec. exact D.
  - intros [Hk|Ht] hs; unfold kmer_encode.
    + replace (len s =? k) with false by (symmetry; apply Z.eqb_neq; exact Hk). simpl. discriminate.
    + destruct (negb (len s =? k)). discriminate. destruct (P2 Ht) as [o [E _]]. rewrite E. discriminate.
Qed.

(* two accepted k-mers with the same number are the same text (up to case) *)
Lemma kmer_injective A k s1 s2 h : alphabet_ok A -> Forall byte s1 -> Forall byte s2 ->
  kmer_encode lower_fixed A k s1 = Ok [h] -> kmer_encode lower_fixed A k s2 = Ok [h] -> map upper s1 = map upper s2.
Proof.
  intros HA H1 H2 E1 E2.
  destruct (kmer_encode_exact A k s1 HA H1) as [P1 N1]. destruct (kmer_encode_exact A k s2 HA H2) as [P2 N2].
  destruct (Z.eq_dec (len s1) k) as [K1|K1]; [|exfalso; apply (N1 (or_introl K1) [h]); exact E1].
  destruct (Z.eq_dec (len s2) k) as [K2|K2]; [|exfalso; apply (N2 (or_introl K2) [h]); exact E2].
  destruct (text_ok A s1) eqn:T1; [|exfalso; apply (N1 (or_intror eq_refl) [h]); exact E1].
  destruct (text_ok A s2) eqn:T2; [|exfalso; apply (N2 (or_intror eq_refl) [h]); exact E2].
  destruct (P1 K1 eq_refl) as [h1 [F1 D1]]. destruct (P2 K2 eq_refl) as [h2 [F2 D2]].
  rewrite E1 in F1. rewrite E2 in F2. inversion F1; inversion F2; subst. congruence.
Qed.

(* Proofs/C19_link.v — the two verdicts of the correspondence are linked: on the guarded class of cases, agreement of
   the implementation with the columnar model (model_ok) implies that the implementation satisfies the property
   as judged against the list-of-rows specification (spec_ok). *)
From Coq Require Import ZArith List Bool Lia Arith Permutation.
From BNP Require Import Base.Prims Base.PrimsFacts Model.C19 Corr.C19 Proofs.C19 Proofs.C19_rows Proofs.C19_prog.
Import ListNotations.
Open Scope Z_scope.

(* ---------- boolean equalities reflect ---------- *)
Lemma list_eqb_eq {A} (eqb : A -> A -> bool) a b :
  (forall x y, eqb x y = true -> x = y) -> list_eqb eqb a b = true -> a = b.
Proof.
  intros H. revert b. induction a as [|x a IH]; intros [|y b] E; simpl in E; try discriminate; [reflexivity|].
  apply andb_prop in E. destruct E as [E1 E2]. f_equal; [apply H; exact E1|apply IH; exact E2].
Qed.
Lemma list_eqb_refl {A} (eqb : A -> A -> bool) a : (forall x, eqb x x = true) -> list_eqb eqb a a = true.
Proof. intros H. induction a as [|x a IH]; [reflexivity|]. simpl. rewrite H, IH. reflexivity. Qed.
Lemma list_eqb_map {A B} (eqb : A -> A -> bool) (g : A -> B) a b :
  (forall x y, eqb x y = true -> g x = g y) -> list_eqb eqb a b = true -> map g a = map g b.
Proof.
  intros H. revert b. induction a as [|x a IH]; intros [|y b] E; simpl in E; try discriminate; [reflexivity|].
  apply andb_prop in E. destruct E as [E1 E2]. simpl. f_equal; [apply H; exact E1|apply IH; exact E2].
Qed.
Lemma Zeqb_eq' x y : (x =? y) = true -> x = y. Proof. apply Z.eqb_eq. Qed.
Lemma zll_eqb_eq a b : zll_eqb a b = true -> a = b.
Proof. apply list_eqb_eq. intros x y. apply zlist_eqb_eq. Qed.
Lemma dt_eqb_eq a b : dt_eqb a b = true -> a = b.
Proof. destruct a, b; simpl; congruence. Qed.
Lemma rtag_eqb_eq a b : rtag_eqb a b = true -> a = b.
Proof. destruct a, b; simpl; try congruence. intros H. apply dt_eqb_eq in H. congruence. Qed.
Lemma bcol_eqb_eq a b : bcol_eqb a b = true -> a = b.
Proof.
  destruct a, b; simpl; try discriminate; intros H;
    repeat (apply andb_prop in H; destruct H as [H ?]).
  - apply dt_eqb_eq in H. apply zlist_eqb_eq in H0. congruence.
  - apply rtag_eqb_eq in H. apply zlist_eqb_eq in H0. apply zlist_eqb_eq in H1. congruence.
  - apply Z.eqb_eq in H. apply zll_eqb_eq in H0. congruence.
  - apply zlist_eqb_eq in H. congruence.
Qed.
Lemma col_eqb_eq a b : col_eqb a b = true -> a = b.
Proof.
  destruct a, b; simpl; try discriminate; intros H.
  - apply bcol_eqb_eq in H. congruence.
  - f_equal. eapply list_eqb_eq; [|exact H]. apply bcol_eqb_eq.
Qed.
Lemma ctable_eqb_eq a b : ctable_eqb a b = true -> a = b.
Proof. apply list_eqb_eq. apply col_eqb_eq. Qed.
Lemma mb_eqb_erase a b : mb_eqb a b = true -> erase_b a = erase_b b.
Proof.
  destruct a, b; simpl; try discriminate; intros H.
  - apply andb_prop in H. destruct H as [_ H]. apply Z.eqb_eq in H. congruence.
  - apply zlist_eqb_eq in H. congruence.
  - apply andb_prop in H. destruct H as [_ H]. apply zlist_eqb_eq in H. congruence.
Qed.
Lemma mcell_eqb_erase a b : mcell_eqb a b = true -> erase a = erase b.
Proof.
  destruct a, b; simpl; try discriminate; intros H.
  - f_equal. apply mb_eqb_erase. exact H.
  - f_equal. eapply list_eqb_map; [|exact H]. apply mb_eqb_erase.
Qed.
Lemma mrows_eqb_erase a b : mrows_eqb a b = true -> erase_rows a = erase_rows b.
Proof.
  unfold mrows_eqb, erase_rows, erase_row. apply list_eqb_map. intros x y. apply list_eqb_map. apply mcell_eqb_erase.
Qed.
Lemma bcell_eqb_refl a : bcell_eqb a a = true.
Proof. destruct a; simpl; [apply Z.eqb_refl|apply zlist_eqb_refl|apply zlist_eqb_refl]. Qed.
Lemma cell_eqb_refl a : cell_eqb a a = true.
Proof. destruct a; simpl; [apply bcell_eqb_refl|apply list_eqb_refl; apply bcell_eqb_refl]. Qed.
Lemma row_eqb_refl a : row_eqb a a = true.
Proof. apply list_eqb_refl. apply cell_eqb_refl. Qed.
Lemma table_eqb_refl a : table_eqb a a = true.
Proof. apply list_eqb_refl. apply row_eqb_refl. Qed.
Lemma bcell_eqb_eq a b : bcell_eqb a b = true -> a = b.
Proof.
  destruct a, b; simpl; try discriminate; intros H;
    [apply Z.eqb_eq in H|apply zlist_eqb_eq in H|apply zlist_eqb_eq in H]; congruence.
Qed.
Lemma cell_eqb_eq a b : cell_eqb a b = true -> a = b.
Proof.
  destruct a, b; simpl; try discriminate; intros H.
  - apply bcell_eqb_eq in H. congruence.
  - f_equal. eapply list_eqb_eq; [|exact H]. apply bcell_eqb_eq.
Qed.
Lemma row_eqb_eq a b : row_eqb a b = true -> a = b.
Proof. apply list_eqb_eq. apply cell_eqb_eq. Qed.

(* ---------- the sorted-permutation test accepts the specification's sort ---------- *)
Lemma lex_leb_refl a : lex_leb a a = true.
Proof. induction a as [|x a IH]; [reflexivity|]. simpl. rewrite Z.ltb_irrefl. exact IH. Qed.
Lemma cell_leb_refl a : cell_leb a a = true.
Proof. destruct a as [[z|s|l]|r]; simpl; try reflexivity; [apply Z.leb_refl|apply lex_leb_refl]. Qed.
Lemma cell_leb_total a b : cell_leb a b = false -> cell_leb b a = true.
Proof.
  destruct a as [[z|s|l]|r], b as [[z'|s'|l']|r']; simpl; try discriminate; try reflexivity.
  - intros H. apply Z.leb_gt in H. apply Z.leb_le. lia.
  - apply lex_leb_total.
Qed.
Lemma remove_first_insert (leb : row -> row -> bool) x b :
  (forall y, leb y y = true) -> remove_first row_eqb x (insert_by leb x b) = Some b.
Proof.
  intros Hr. induction b as [|y b IH]; simpl; [rewrite row_eqb_refl; reflexivity|].
  destruct (leb x y) eqn:E; simpl.
  - rewrite row_eqb_refl. reflexivity.
  - destruct (row_eqb x y) eqn:Exy; [apply row_eqb_eq in Exy; subst; rewrite Hr in E; discriminate|].
    rewrite IH. reflexivity.
Qed.
Lemma perm_b_isort (leb : row -> row -> bool) l :
  (forall y, leb y y = true) -> perm_b row_eqb l (isort_by leb l) = true.
Proof.
  intros Hr. unfold isort_by. induction l as [|x l IH]; [reflexivity|].
  simpl. rewrite remove_first_insert by exact Hr. exact IH.
Qed.
Lemma sort_check f (rs : table) :
  perm_b row_eqb rs (s_sort_by f rs) = true /\ sorted_b (row_leb f) (s_sort_by f rs) = true.
Proof.
  split.
  - apply perm_b_isort. intros y. apply cell_leb_refl.
  - apply (isort_by_sorted (row_leb f)). intros a b. apply cell_leb_total.
Qed.

(* ---------- observations that equal a model result ---------- *)
Lemma mres_eqb_tab sch0 sch t ob :
  mres_eqb sch0 (MTab sch t) ob = true ->
  exists rows keys, ob = OTab t rows keys /\ erase_rows rows = E t.
Proof.
  destruct ob as [cols rows keys|rows|]; simpl; try discriminate. intros H.
  apply andb_prop in H. destruct H as [H _]. apply andb_prop in H. destruct H as [H1 H2].
  apply ctable_eqb_eq in H1. subst cols. exists rows, keys. split; [reflexivity|].
  symmetry. apply mrows_eqb_erase. exact H2.
Qed.
Lemma mres_eqb_rows sch0 rs ob : mres_eqb sch0 (MRows rs) ob = true -> exists rows, ob = ORowsO rows /\ erase_rows rows = erase_rows rs.
Proof.
  destruct ob as [cols rows keys|rows|]; simpl; try discriminate. intros H. exists rows. split; [reflexivity|].
  symmetry. apply mrows_eqb_erase. exact H.
Qed.
Lemma mres_eqb_err sch0 ob : mres_eqb sch0 MErr ob = true -> ob = OErrO.
Proof. destruct ob; simpl; try discriminate. reflexivity. Qed.

Lemma tab_aligned_ok t rows : aligned t = true -> erase_rows rows = E t -> tab_aligned t rows = true.
Proof.
  intros A H. unfold tab_aligned. rewrite A. simpl. apply Nat.eqb_eq.
  assert (L : length (erase_rows rows) = length (E t)) by (rewrite H; reflexivity).
  unfold erase_rows in L at 1. rewrite map_length, E_length in L by exact A. symmetry. exact L.
Qed.

Lemma m_step_schema sch cur t1 o sch' t' rows keys :
  m_step sch cur t1 o = MTab sch' t' -> sch' = sch_after sch o (OTab t' rows keys).
Proof.
  destruct o; simpl; unfold of_opt;
    repeat match goal with
           | |- context [match ?x with Some _ => _ | None => _ end] => destruct x
           | |- context [if ?x then _ else _] => destruct x
           end; simpl; intros H; try discriminate; injection H as <- <-; reflexivity.
Qed.

(* ---------- the steps ---------- *)
Lemma steps_link p : forall os sch sch1 cur t1,
  Inv sch cur -> Inv sch1 t1 -> run_good sch sch1 cur t1 p ->
  msteps_ok sch cur t1 p os = true -> steps_ok sch (E cur) (E t1) p os = true.
Proof.
  induction p as [|o p IH]; intros [|ob os] sch sch1 cur t1 HI HI1 Hg H; simpl in H; try discriminate; [reflexivity|].
  destruct Hg as [Hg Hr]. apply andb_prop in H. destruct H as [H1 H2]. unfold mstep_ok in H1.
  destruct (step_refines sch sch1 cur t1 o HI HI1 Hg) as [S1 S2].
  simpl. destruct (m_step sch cur t1 o) as [sch' t'|rs|] eqn:Es.
  - destruct (mres_eqb_tab _ _ _ _ H1) as [rows [keys [-> Er]]]. simpl in S2.
    assert (Hsch := m_step_schema _ _ _ _ _ _ rows keys Es).
    apply andb_true_intro. split.
    + assert (TA := tab_aligned_ok t' rows (proj2 S2) Er).
      destruct (s_step sch (E cur) (E t1) o) as [r|f r|r| |]; simpl in S1 |- *; try contradiction.
      * rewrite TA, Er, S1. apply table_eqb_refl.
      * rewrite TA, Er, S1. apply table_eqb_refl.
      * exact TA.
    + simpl obs_rows. simpl in H2. rewrite Er. rewrite <- Hsch. rewrite <- Hsch in H2.
      apply (IH os sch' sch1); assumption.
  - destruct (mres_eqb_rows _ _ _ H1) as [rows [-> Er]].
    apply andb_true_intro. split.
    + destruct (s_step sch (E cur) (E t1) o) as [r|f r|r| |]; simpl in S1 |- *; try contradiction; try reflexivity.
      rewrite Er, S1. apply table_eqb_refl.
    + simpl in H2 |- *. destruct o; simpl in *; apply (IH os sch sch1); assumption.
  - apply mres_eqb_err in H1. subst ob.
    apply andb_true_intro. split.
    + destruct (s_step sch (E cur) (E t1) o) as [r|f r|r| |]; simpl in S1 |- *; try contradiction; reflexivity.
    + simpl in H2 |- *. destruct o; simpl in *; apply (IH os sch sch1); assumption.
Qed.

(* ---------- construction ---------- *)
Lemma construct_link sch args ob :
  sch <> [] -> args_nice sch args -> mopt_eqb sch (m_construct sch args) ob = true ->
  construct_ok sch args ob = true
  /\ match m_construct sch args with
     | Some t => obs_rows ob = Some (E t) /\ Inv sch t
     | None => obs_rows ob = None
     end.
Proof.
  intros Hs Hn H. assert (R := construct_refines sch args Hs Hn). cbv zeta in R.
  assert (Hlen : length sch = length args) by (eapply Forall2_length'; exact Hn).
  assert (Hargs : args <> []) by (destruct Hn; congruence).
  assert (Hok : forallb (fun p : (list Z * fk) * colarg => arg_ok (snd (fst p)) (snd p)) (combine sch args) = true).
  { clear - Hn. induction Hn as [|f a sch args Ha _ IH]; [reflexivity|]. simpl. rewrite (arg_nice_ok _ _ Ha). exact IH. }
  unfold construct_ok, args_rows. rewrite Hlen, Nat.eqb_refl, Hok.
  replace (is_nil args) with false by (destruct args; [congruence|reflexivity]). simpl andb.
  unfold mopt_eqb in H. destruct (m_construct sch args) as [t|].
  - destruct R as [It [Same Rows]]. rewrite Same.
    destruct (mres_eqb_tab _ _ _ _ H) as [rows [keys [-> Er]]]. simpl obs_rows. rewrite Er.
    assert (V : (match arg_cells (hd (ABase []) args) with
                 | [] => []
                 | _ :: _ => erase_rows (zip_rows (map arg_cells args))
                 end) = E t).
    { rewrite Rows. destruct (arg_cells (hd (ABase []) args)) eqn:Eh; [|reflexivity].
      rewrite zip_rows_empty_cols; [reflexivity|destruct args; [congruence|discriminate]|].
      rewrite Forall_map. rewrite forallb_forall in Same. apply Forall_forall. intros a Ha.
      specialize (Same a Ha). apply Nat.eqb_eq in Same. rewrite Same. reflexivity. }
    rewrite V. split; [|split; [reflexivity|exact It]].
    rewrite (tab_aligned_ok t rows (proj2 It) Er). apply table_eqb_refl.
  - rewrite R. apply mres_eqb_err in H. subst ob. split; reflexivity.
Qed.

Lemma obs_eqb_same_rows a b : obs_eqb a b = true -> same_rows a b = true.
Proof.
  destruct a as [c r k|r|], b as [c' r' k'|r'|]; simpl; try discriminate; try reflexivity. intros H.
  apply andb_prop in H. destruct H as [H _]. apply andb_prop in H. destruct H as [_ H].
  unfold same_rows. simpl. rewrite (mrows_eqb_erase _ _ H). apply table_eqb_refl.
Qed.

(* ---------- the link ---------- *)
Definition case_good (c : case) : Prop :=
  k_sch c <> [] /\ args_nice (k_sch c) (k_a0 c) /\ args_nice (k_sch c) (k_a1 c)
  /\ (forall t0 t1, m_construct (k_sch c) (k_a0 c) = Some t0 -> m_construct (k_sch c) (k_a1 c) = Some t1 ->
       run_good (k_sch c) (k_sch c) t0 t1 (k_prog c))
  (* the case is outside the open finding: no single-row index while a ragged column is an unmaterialised view *)
  /\ lazy_pred (map (fun _ => false) (k_sch c)) (obs_cols (k_t0 c)) (k_prog c) (k_steps c) = step_errs (k_steps c).

Theorem model_ok_spec_ok c : case_good c -> model_ok c = true -> spec_ok c = true.
Proof.
  intros [Hs [N0 [N1 [Hg Hlz]]]] H. unfold model_ok in H. cbv zeta in H. rewrite Hlz in H.
  repeat (apply andb_prop in H; destruct H as [H ?]).
  rename H into M0. rename H0 into M1'. 
  destruct (construct_link _ _ _ Hs N0 M0) as [C0 R0].
  match goal with X : mopt_eqb _ (m_construct _ (k_a1 c)) _ = true |- _ => destruct (construct_link _ _ _ Hs N1 X) as [C1 R1] end.
  unfold spec_ok. rewrite C0, C1. simpl andb.
  repeat match goal with X : obs_eqb _ _ = true |- _ => apply obs_eqb_same_rows in X; rewrite X; clear X end.
  match goal with X : k_unchanged c = true |- _ => rewrite X end.
  match goal with X : list_eqb Bool.eqb _ _ = true |- _ => rewrite X end. rewrite !andb_true_r.
  destruct (m_construct (k_sch c) (k_a0 c)) as [t0|] eqn:E0; destruct (m_construct (k_sch c) (k_a1 c)) as [t1|] eqn:E1.
  - destruct R0 as [R0 I0]. destruct R1 as [R1 I1]. rewrite R0, R1.
    eapply steps_link; [exact I0|exact I1|apply Hg; reflexivity|assumption].
  - rewrite R1. destruct (obs_rows (k_t0 c)); assumption.
  - rewrite R0. assumption.
  - rewrite R0. assumption.
Qed.

Theorem operands_unchanged c :
  model_ok c = true ->
  same_rows (k_t0 c) (k_t0_after c) = true /\ same_rows (k_t1 c) (k_t1_after c) = true /\ k_unchanged c = true.
Proof.
  intros H. unfold model_ok in H. cbv zeta in H.
  repeat (apply andb_prop in H; destruct H as [H ?]).
  repeat match goal with X : obs_eqb _ _ = true |- _ => apply obs_eqb_same_rows in X end.
  repeat split; assumption.
Qed.

(* Proofs/C19_example.v — non-vacuity of the phase-3 hypotheses (Inv, args_nice, run_good): concrete operand tables
   and a 16-step program.  Every model evaluation is done by vm_compute on closed terms. *)
From Coq Require Import String ZArith List Bool.
From BNP Require Import Base.Prims Model.C19 Proofs.C19 Proofs.C19_rows Proofs.C19_prog.
Import ListNotations.
Open Scope Z_scope.

Definition exp_sch : schema :=
  [(unhex "63"%string, FB KId); (unhex "6e"%string, FB KInt); (unhex "73"%string, FB KStrand);
   (unhex "69"%string, FN [(unhex "61"%string, KInt); (unhex "71"%string, KStr)])].
Definition exp_a0 : list colarg :=
  [ABase [MS (unhex "6368723130"%string); MS (unhex "62"%string)]; ABase [MZ DI 28; MZ DI 8];
   ABase [MS (unhex "2d"%string); MS (unhex "2b"%string)];
   ANest [[MZ DI 4; MZ DI 8]; [MS (unhex "7878"%string); MS []]]].
Definition exp_a1 : list colarg :=
  [ABase [MS (unhex "61"%string)]; ABase [MZ DI 8]; ABase [MS (unhex "2e"%string)]; ANest [[MZ DI 12]; [MS (unhex "79"%string)]]].
Definition exp_prog : list op :=
  [OCatR; OSort 1; OSort 0; ODict; ORows ItGen; OSlice None None (-1); OMask [true; false; true];
   OAdd (unhex "7a"%string) KList [ML DI [4; 8]; ML DF []]; OReplace 1 (ABase [MZ DI 0; MZ DI 4]); OReplace 1 (ABase [MZ DI 0]);
   OIndex (-1); OIndex 5; OTake [0; -2; 7]; OCatSelf; OPandas; OIter].

Lemma int_ok_small z : z mod 4 = 0 -> Z.abs z < 1000 -> int_ok z.
Proof. intros H1 H2. split; [exact H1|]. assert (1000 < 4 * 2 ^ 53) by reflexivity. apply Z.lt_trans with 1000; assumption. Qed.
Ltac nice_cell := split; [reflexivity|]; simpl; try exact I; try (apply int_ok_small; reflexivity);
                  try (repeat constructor; apply int_ok_small; reflexivity).
Lemma exp_nice0 : args_nice exp_sch exp_a0.
Proof.
  unfold args_nice, exp_sch, exp_a0.
  constructor; [simpl; repeat constructor; nice_cell|].
  constructor; [simpl; repeat constructor; nice_cell|].
  constructor; [simpl; repeat constructor; nice_cell|].
  constructor; [|constructor].
  simpl. split; [discriminate|]. split; [|repeat constructor].
  constructor; [repeat constructor; nice_cell|]. constructor; [repeat constructor; nice_cell|constructor].
Qed.
Lemma exp_nice1 : args_nice exp_sch exp_a1.
Proof.
  unfold args_nice, exp_sch, exp_a1.
  constructor; [simpl; repeat constructor; nice_cell|].
  constructor; [simpl; repeat constructor; nice_cell|].
  constructor; [simpl; repeat constructor; nice_cell|].
  constructor; [|constructor].
  simpl. split; [discriminate|]. split; [|repeat constructor].
  constructor; [repeat constructor; nice_cell|]. constructor; [repeat constructor; nice_cell|constructor].
Qed.

Definition exp_t0 : ctable := Eval vm_compute in match m_construct exp_sch exp_a0 with Some t => t | None => [] end.
Definition exp_t1 : ctable := Eval vm_compute in match m_construct exp_sch exp_a1 with Some t => t | None => [] end.
Lemma exp_E0 : m_construct exp_sch exp_a0 = Some exp_t0. Proof. vm_compute. reflexivity. Qed.
Lemma exp_E1 : m_construct exp_sch exp_a1 = Some exp_t1. Proof. vm_compute. reflexivity. Qed.
Lemma exp_sch_ne : exp_sch <> []. Proof. discriminate. Qed.
Lemma exp_Inv0 : Inv exp_sch exp_t0.
Proof. assert (R := construct_refines exp_sch exp_a0 exp_sch_ne exp_nice0). cbv zeta in R. rewrite exp_E0 in R. apply R. Qed.
Lemma exp_Inv1 : Inv exp_sch exp_t1.
Proof. assert (R := construct_refines exp_sch exp_a1 exp_sch_ne exp_nice1). cbv zeta in R. rewrite exp_E1 in R. apply R. Qed.

Lemma run_good_step sch sch1 cur t1 o p r :
  m_step sch cur t1 o = r -> op_good sch sch1 o ->
  match r with MTab sch' t' => run_good sch' sch1 t' t1 p | _ => run_good sch sch1 cur t1 p end ->
  run_good sch sch1 cur t1 (o :: p).
Proof. intros <- H1 H2. split; assumption. Qed.

Ltac rg_step :=
  match goal with
  | |- run_good ?sch ?sch1 ?cur ?t1 (?o :: ?p) =>
      let r := eval vm_compute in (m_step sch cur t1 o) in
      apply (run_good_step sch sch1 cur t1 o p r); [vm_compute; reflexivity| |cbv beta iota]
  end.

Lemma exp_names : names_ok exp_sch.
Proof.
  unfold names_ok, exp_sch. split; [|split].
  - simpl. repeat constructor; simpl; intuition discriminate.
  - repeat constructor; simpl; intuition discriminate.
  - repeat constructor; simpl; intuition discriminate.
Qed.
Definition exp_sch2 : schema := exp_sch ++ [(unhex "7a"%string, FB KList)].
Lemma exp_names2 : names_ok exp_sch2.
Proof.
  unfold names_ok, exp_sch2, exp_sch. split; [|split].
  - simpl. repeat constructor; simpl; intuition discriminate.
  - repeat constructor; simpl; intuition discriminate.
  - repeat constructor; simpl; intuition discriminate.
Qed.

Lemma exp_run_good : run_good exp_sch exp_sch exp_t0 exp_t1 exp_prog.
Proof.
  unfold exp_prog.
  rg_step; [reflexivity|].                       (* catr *)
  rg_step; [exact I|].                           (* sort 1 *)
  rg_step; [exact I|].                           (* sort 0 *)
  rg_step; [exact exp_names|].                   (* dict *)
  rg_step; [exact I|].                           (* rows *)
  rg_step; [exact I|].                           (* slice *)
  rg_step; [exact I|].                           (* mask *)
  rg_step; [simpl; repeat constructor; nice_cell|].   (* add *)
  rg_step; [simpl; repeat constructor; nice_cell|].   (* replace, right length *)
  rg_step; [simpl; repeat constructor; nice_cell|].   (* replace, wrong length: raises *)
  rg_step; [exact I|].                           (* index -1 *)
  rg_step; [exact I|].                           (* index 5: raises *)
  rg_step; [exact I|].                           (* take with an index out of range: raises *)
  rg_step; [exact I|].                           (* cat self *)
  rg_step; [exact exp_names2|].                  (* pandas *)
  rg_step; [exact I|].                           (* iter *)
  exact I.
Qed.

Definition exp_trace : list Z :=
  map (fun r => match r with MTab _ t => Z.of_nat (m_len t) | MRows rs => 100 + len rs | MErr => -1 end)
      (m_run exp_sch exp_t0 exp_t1 exp_prog).
Lemma exp_trace_val : exp_trace = [3; 3; 3; 3; 3; 3; 2; 2; 2; -1; 101; -1; -1; 4; 4; 104].
Proof. vm_compute. reflexivity. Qed.

Theorem program_nonvacuous :
  m_construct exp_sch exp_a0 = Some exp_t0 /\ m_construct exp_sch exp_a1 = Some exp_t1
  /\ args_nice exp_sch exp_a0 /\ args_nice exp_sch exp_a1
  /\ Inv exp_sch exp_t0 /\ Inv exp_sch exp_t1 /\ run_good exp_sch exp_sch exp_t0 exp_t1 exp_prog
  /\ exp_trace = [3; 3; 3; 3; 3; 3; 2; 2; 2; -1; 101; -1; -1; 4; 4; 104].
Proof.
  exact (conj exp_E0 (conj exp_E1 (conj exp_nice0 (conj exp_nice1 (conj exp_Inv0 (conj exp_Inv1 (conj exp_run_good exp_trace_val))))))).
Qed.

(* ---------- phase-1 example: selection, concatenation with a wider identifier column, sort ---------- *)
Definition ex_t : ctable :=
  [CBase (ColPad 4 [unhex "61620000"%string; unhex "63000000"%string; unhex "64656667"%string]);
   CBase (ColRag (RNum DI) [4; 8; 12] [2; 0; 1]);
   CBase (ColNum DI [20; 12; 16]);
   CNest [ColNum DI [4; 8; 12]; ColRag RStr [113; 114; 115] [1; 0; 2]]].
Definition ex_u : ctable :=
  [CBase (ColPad 6 [unhex "787878787878"%string]); CBase (ColRag (RNum DF) [] [0]); CBase (ColNum DI [4]);
   CNest [ColNum DI [28]; ColRag RStr [] [0]]].
Lemma nonvacuous1 :
  aligned ex_t = true /\ Forall col_wf ex_t /\ Forall col_wf ex_u
  /\ m_to_rows (m_select [2%nat; 0%nat] ex_t) = sel [2%nat; 0%nat] (m_to_rows ex_t)
  /\ (exists t, m_cat ex_t ex_u = Some t /\ length (m_to_rows t) = 4%nat
        /\ nth 0 t (CNest []) = CBase (ColPad 6 [unhex "616200000000"%string; unhex "630000000000"%string; unhex "646566670000"%string; unhex "787878787878"%string]))
  /\ (exists t', m_sort_by_gen false 2 ex_t = Some t'
        /\ map (rowkey 2) (m_to_rows t') = [12; 16; 20]).
Proof.
  split; [reflexivity|]. split.
  { repeat constructor; vm_compute; try reflexivity; repeat constructor; intros H; discriminate H. }
  split.
  { repeat constructor; vm_compute; try reflexivity; repeat constructor; intros H; discriminate H. }
  split; [vm_compute; reflexivity|]. split.
  - eexists. split; [vm_compute; reflexivity|]. split; vm_compute; reflexivity.
  - eexists. split; [vm_compute; reflexivity|]. vm_compute. reflexivity.
Qed.


(* Proofs/C11_pipeline.v — the streamed genomic pipelines see the chunking only through the per-chromosome
   buffers, and those do not depend on the chunking. *)
From Coq Require Import ZArith List Bool Lia Arith.
From BNP Require Import Base.Prims Model.C11 Proofs.C11_groupby.
Import ListNotations.
Open Scope Z_scope.

Lemma concat_nonempty {A} (cs : list (list A)) : cs <> [] -> Forall (fun c => c <> []) cs -> concat cs <> [].
Proof.
  intros Hne Hall. destruct cs as [|c r]; [congruence|]. inversion Hall; subst.
  destruct c; [congruence|]. discriminate.
Qed.

Lemma per_chromosome_chunking : forall (order : list Z) (cs : list (list (Z * iv))),
  cs <> [] -> Forall (fun c => c <> []) cs ->
  per_chromosome order cs = walk order (runs (concat cs))
  /\ per_chromosome order cs = per_chromosome order [concat cs].
Proof.
  intros order cs Hne Hall. unfold per_chromosome.
  rewrite (groupby_chunked_slow cs Hall). split; [reflexivity|].
  rewrite (groupby_chunked_slow [concat cs]).
  - cbn [concat]. rewrite app_nil_r. reflexivity.
  - constructor; [apply concat_nonempty; assumption|constructor].
Qed.

Theorem pipeline_chunking_independent : forall mean_red p order sizes (csa csb : list (list (Z * iv))),
  csa <> [] -> csb <> [] -> Forall (fun c => c <> []) csa -> Forall (fun c => c <> []) csb ->
  run_pipeline_with mean_red p order sizes csa csb
  = run_pipeline_with mean_red p order sizes [concat csa] [concat csb].
Proof.
  intros mean_red p order sizes csa csb Ha Hb Hna Hnb. unfold run_pipeline_with.
  destruct (per_chromosome_chunking order csa Ha Hna) as [_ ->].
  destruct (per_chromosome_chunking order csb Hb Hnb) as [_ ->].
  reflexivity.
Qed.

(* Proofs/C02_infolist.v — list-valued INFO keys (Number=A / R / G / . ; Integer or Float).  The lookup is done with
   keep_sep=True: the text after "key=" comes with the byte that follows the item (';' or the byte after the INFO field),
   _parse_split_fields (the repaired split) removes that byte, splits on ',' and parses the items.  Row by row the result is
   the list of the parsed items of the key's value; rows without the key give the empty list. *)
From Coq Require Import ZArith List Bool Lia Arith.
From BNP Require Import Base.Prims Base.PrimsFacts Base.C02Lib Model.C02 Proofs.C02_table Proofs.C02_int Proofs.C02_misc
  Proofs.C02_e2e Proofs.C02_fmt Proofs.C02_info.
Import ListNotations.
Open Scope Z_scope.

Section LookupSep.
Variable key : list Z.
(* the value of the first item "key=value" together with the byte after the item *)
Fixpoint found_sep (c : list fcell) : list Z :=
  match c with
  | [] => []
  | p :: r => match strip_prefix (key ++ [61]) (fst p) with Some v => v ++ [snd p] | None => found_sep r end
  end.
Definition text_at_item_sep (flat : list Z) (its : list (Z * Z)) : list Z :=
  match its with
  | it :: _ => let st := m_value_start (fst it) (len key) in slice st (st + m_value_len (snd it) (len key) true) flat
  | [] => []
  end.
Lemma found_sep_removelast c : removelast (found_sep c) = found key c.
Proof.
  unfold found. induction c as [|p c IH]; [reflexivity|]. cbn [found_sep map info_value].
  destruct (strip_prefix (key ++ [61]) (fst p)) as [v|]; [apply removelast_app_single|exact IH].
Qed.
Lemma value_item_sep a v d b :
  let x := (key ++ [61]) ++ v in let st := m_value_start (len a) (len key) in
  slice st (st + m_value_len (len x) (len key) true) (a ++ x ++ d :: b) = v ++ [d].
Proof.
  intros x st. unfold st, m_value_start, m_value_len, m_line_len, x. rewrite !len_app, len_single.
  replace (len a + (len key + 1) + (len key + 1 + len v - (len key + 1) + 1)) with (len a + (len key + 1) + len (v ++ [d]))
    by (rewrite len_app, len_single; lia).
  replace (a ++ ((key ++ [61]) ++ v) ++ d :: b) with ((a ++ key ++ [61]) ++ (v ++ [d]) ++ b) by (rewrite <- !app_assoc; reflexivity).
  replace (len a + (len key + 1)) with (len (a ++ key ++ [61])) by (rewrite !len_app, len_single; lia).
  apply slice_mid.
Qed.
Lemma row_lookup_sep c : forall pre post, (forall p, In p c -> forall z, In z (key ++ [61]) -> z <> snd p) ->
  let flat := pre ++ flatten c ++ post in
  text_at_item_sep flat (filter (key_mask flat key) (itab (len pre) c)) = found_sep c.
Proof.
  induction c as [|p c IH]; intros pre post Hd flat; [reflexivity|].
  assert (Eflat : flat = pre ++ fst p ++ snd p :: (flatten c ++ post)).
  { unfold flat. rewrite flatten_cons, <- !app_assoc. reflexivity. }
  assert (Hm : key_mask flat key (len pre, len (fst p)) = has_prefix key (fst p)).
  { rewrite Eflat. apply mask_item. intros z Hz. apply (Hd p (or_introl eq_refl) z Hz). }
  cbn [itab filter found_sep]. rewrite Hm.
  specialize (IH (pre ++ fst p ++ [snd p]) post (fun q Hq => Hd q (or_intror Hq))).
  replace (len (pre ++ fst p ++ [snd p])) with (len pre + len (fst p) + 1) in IH by (rewrite !len_app, len_single; lia).
  replace ((pre ++ fst p ++ [snd p]) ++ flatten c ++ post) with flat in IH by (unfold flat; rewrite flatten_cons, <- !app_assoc; reflexivity).
  unfold has_prefix. destruct (strip_prefix (key ++ [61]) (fst p)) as [v|] eqn:E.
  - cbn [text_at_item_sep fst snd]. apply strip_prefix_some in E. rewrite Eflat, E. apply value_item_sep.
  - exact IH.
Qed.
End LookupSep.

Lemma rows_lookup_sep key crows : forall pre post,
  (forall c, In c crows -> forall p, In p c -> forall z, In z (key ++ [61]) -> z <> snd p) ->
  let flat := pre ++ flatten (concat crows) ++ post in
  map (fun its => text_at_item_sep key flat (filter (key_mask flat key) its)) (itab_rows (len pre) crows) = map (found_sep key) crows.
Proof.
  induction crows as [|c cs IH]; intros pre post Hd flat; [reflexivity|].
  assert (Eflat : flat = pre ++ flatten c ++ (flatten (concat cs) ++ post)).
  { unfold flat. simpl concat. rewrite flatten_app, <- !app_assoc. reflexivity. }
  pose proof (row_lookup_sep key c pre (flatten (concat cs) ++ post) (Hd c (or_introl eq_refl))) as R1.
  rewrite <- Eflat in R1.
  specialize (IH (pre ++ flatten c) post (fun q Hq => Hd q (or_intror Hq))). rewrite len_app in IH.
  replace ((pre ++ flatten c) ++ flatten (concat cs) ++ post) with flat in IH by (rewrite Eflat, <- !app_assoc; reflexivity).
  cbn [itab_rows map]. rewrite R1, IH. reflexivity.
Qed.

(* the lookup with keep_sep=True *)
Theorem info_lookup_sep_correct : forall (key : list Z) (crows : list (list fcell)),
  (forall c, In c crows -> crow_ok c /\ forall p, In p c -> forall z, In z (key ++ [61]) -> z <> snd p) ->
  (forall c, In c crows -> len (filter (has_prefix key) (map fst c)) <= 1) ->
  let rows := map flatten crows in
  info_texts true (concat rows) key (item_table 0 rows) = Some (map (found_sep key) crows).
Proof.
  intros key crows H Hone rows. unfold info_texts, rows.
  change (short_buffer_raises && all_ignored (concat (map flatten crows)) key (item_table 0 (map flatten crows))) with false.
  cbv iota. rewrite item_table_cells by (intros c Hc; apply (H c Hc)). rewrite flatten_concat.
  pose proof (rows_lookup_sep key crows [] [] (fun c Hc => proj2 (H c Hc))) as R1.
  destruct (rows_lookup key crows [] [] (fun c Hc => proj2 (H c Hc))) as [_ R2].
  rewrite len_nil, app_nil_r in R1, R2. change ([] ++ flatten (concat crows)) with (flatten (concat crows)) in R1, R2.
  set (flat := flatten (concat crows)) in *.
  replace (existsb (fun row => 1 <? len (filter (key_mask flat key) row)) (itab_rows 0 crows)) with false.
  - f_equal. rewrite <- R1. apply map_ext. intros its. unfold text_at_item_sep. destruct (filter (key_mask flat key) its); reflexivity.
  - symmetry. apply not_true_is_false. intro Hex. apply existsb_exists in Hex. destruct Hex as [its [Hin Hlt]].
    apply Z.ltb_lt in Hlt.
    assert (Hin' : In (len (filter (key_mask flat key) its)) (map (fun its => len (filter (key_mask flat key) its)) (itab_rows 0 crows)))
      by (apply in_map_iff; exists its; split; [reflexivity|exact Hin]).
    rewrite R2 in Hin'. apply in_map_iff in Hin'. destruct Hin' as [c [Ec Hc]]. specialize (Hone c Hc). lia.
Qed.

(* list-valued key, any item parser: row by row the parsed items of the value; absent key -> empty list *)
Theorem info_list_lookup_correct : forall {A} (parser : list Z -> option A) (key : list Z) (crows : list (list fcell)),
  (forall c, In c crows -> crow_ok c /\ forall p, In p c -> forall z, In z (key ++ [61]) -> z <> snd p) ->
  (forall c, In c crows -> len (filter (has_prefix key) (map fst c)) <= 1) ->
  (forall c, In c crows -> forall it, In it (list_items (found key c)) -> it <> []) ->
  let rows := map flatten crows in
  opt_bind (info_texts true (concat rows) key (item_table 0 rows)) (parse_split_cur parser)
  = mapM (fun c => mapM parser (list_items (found key c))) crows.
Proof.
  intros A parser key crows H Hone Hit rows. unfold rows. rewrite info_lookup_sep_correct by assumption.
  unfold opt_bind, parse_split_cur, parse_split_fixed. rewrite mapM_map. apply mapM_ext_in. intros c Hc.
  rewrite found_sep_removelast.
  replace (filter (fun s => negb (len s =? 0)) (split_on 44 (found key c))) with (filter nonempty (split_on 44 (found key c))) by reflexivity.
  rewrite filter_split_items by (apply Hit; exact Hc). reflexivity.
Qed.

(* Integer list: the values of the numerals, element by element *)
Theorem info_intlist_col_correct : forall (key : list Z) (crows : list (list fcell)),
  (forall c, In c crows -> crow_ok c /\ forall p, In p c -> forall z, In z (key ++ [61]) -> z <> snd p) ->
  (forall c, In c crows -> len (filter (has_prefix key) (map fst c)) <= 1) ->
  (forall c, In c crows -> forall it, In it (list_items (found key c)) -> numeral it = true) ->
  let rows := map flatten crows in
  info_col (concat rows) (item_table 0 rows) (key, IInteger, true)
  = match mapM (fun c => mapM int_of_text (list_items (found key c))) crows with Some l => Col (map CInts l) | None => ColErr end.
Proof.
  intros key crows H Hone Hnum rows. unfold info_col, rows.
  rewrite (info_list_lookup_correct str_to_int_auto key crows H Hone).
  - unfold opt_col.
    replace (mapM (fun c => mapM str_to_int_auto (list_items (found key c))) crows)
      with (mapM (fun c => mapM int_of_text (list_items (found key c))) crows); [reflexivity|].
    apply mapM_ext_in. intros c Hc. apply mapM_ext_in. intros it Hi. symmetry. apply auto_correct. exact (Hnum c Hc it Hi).
  - intros c Hc it Hi. apply numeral_nonempty. exact (Hnum c Hc it Hi).
Qed.
(* Float list: the list structure (which item belongs to which row, how many) is right; the items go through the model's
   decimal parser (floats are compared by value in the correspondence check) *)
Theorem info_floatlist_col_correct : forall (key : list Z) (crows : list (list fcell)),
  (forall c, In c crows -> crow_ok c /\ forall p, In p c -> forall z, In z (key ++ [61]) -> z <> snd p) ->
  (forall c, In c crows -> len (filter (has_prefix key) (map fst c)) <= 1) ->
  (forall c, In c crows -> forall it, In it (list_items (found key c)) -> it <> []) ->
  let rows := map flatten crows in
  info_col (concat rows) (item_table 0 rows) (key, IFloat, true)
  = match mapM (fun c => mapM str_to_float1 (list_items (found key c))) crows with Some l => Col (map CRats l) | None => ColErr end.
Proof.
  intros key crows H Hone Hit rows. unfold info_col, rows.
  rewrite (info_list_lookup_correct str_to_float1 key crows H Hone Hit). reflexivity.
Qed.

(* ... and that is what the specification reads off the INFO text for an Integer list key *)
Theorem info_intlist_spec : forall (key : list Z) (items : list (list Z)) (d : Z),
  items <> [] -> (forall it, In it items -> ~ In 59 it) ->
  spec_info_cell (key, IInteger, true) (intercalate [59] items)
  = option_map CInts (mapM int_of_text (list_items (found key (info_cells items d)))).
Proof.
  intros key items d Hne H. unfold spec_info_cell, found. rewrite info_cells_fst by exact Hne.
  unfold info_items. destruct (zlist_eqb (intercalate [59] items) [46]) eqn:E.
  - apply zlist_eqb_eq in E.
    assert (Ei : items = [[46]]).
    { rewrite <- (split_on_intercalate 59 items Hne H), E. reflexivity. }
    rewrite Ei. simpl. destruct (key ++ [61]) as [|c [|c2 P]] eqn:Ek; [destruct key; discriminate| |].
    + simpl. destruct (c =? 46); reflexivity.
    + simpl. destruct (c =? 46); reflexivity.
  - rewrite split_on_intercalate by assumption. destruct (info_value key items); reflexivity.
Qed.

(* Proofs/C18_power.v — the flat power-index array (_build_power_array): one scatter-add at the row starts
   and one cumulative sum over the whole flat array give, for every row, the descending exponents of its
   own digits — independently of the other rows; with one '.' in the row the exponents skip the point. *)
From Coq Require Import ZArith List Bool Lia.
From BNP Require Import Base.Prims Base.PrimsFacts Model.C18.
Import ListNotations.
Open Scope Z_scope.

(* ---------- small list facts ---------- *)
Lemma length_arange_from s n : length (arange_from s n) = n.
Proof. revert s. induction n as [|n IH]; intros s; simpl; [reflexivity|]. rewrite IH. reflexivity. Qed.
Lemma len_arange l : 0 <= l -> len (arange l) = l.
Proof. intros H. unfold len, arange. rewrite length_arange_from. lia. Qed.
Lemma len_map {A B} (f : A -> B) l : len (map f l) = len l.
Proof. unfold len. rewrite map_length. reflexivity. Qed.
Lemma arange_from_app s n m : arange_from s (n + m) = arange_from s n ++ arange_from (s + Z.of_nat n) m.
Proof.
  revert s. induction n as [|n IH]; intros s.
  - simpl. f_equal. lia.
  - cbn [Nat.add arange_from app]. f_equal. rewrite IH. do 2 f_equal. lia.
Qed.
Lemma length_down n : length (down n) = n.
Proof. induction n as [|n IH]; simpl; [reflexivity|]. rewrite IH. reflexivity. Qed.
Lemma len_down n : len (down n) = Z.of_nat n.
Proof. unfold len. rewrite length_down. reflexivity. Qed.
Lemma map_down : forall n s,
  map (fun j => s + Z.of_nat n - 1 - j) (arange_from s n) = down n.
Proof.
  induction n as [|n IH]; intros s; [reflexivity|].
  cbn [arange_from map down]. f_equal; [lia|].
  rewrite <- (IH (s + 1)). apply map_ext. intros j. lia.
Qed.
Lemma map_ext_arange (f g : Z -> Z) s n :
  (forall j, s <= j < s + Z.of_nat n -> f j = g j) -> map f (arange_from s n) = map g (arange_from s n).
Proof. intros H. apply map_ext_in. intros j Hj. apply H. apply In_arange_from. exact Hj. Qed.

(* ---------- cumsum ---------- *)
Lemma cumsum_from_app acc a b :
  cumsum_from acc (a ++ b) = cumsum_from acc a ++ cumsum_from (acc + sumZ a) b.
Proof.
  revert acc. induction a as [|x a IH]; intros acc; simpl.
  - f_equal. lia.
  - rewrite IH. do 3 f_equal. lia.
Qed.
Lemma cumsum_closed (f g : Z -> Z) : forall n s acc,
  (forall j, s <= j < s + Z.of_nat n -> g j = (if j =? s then acc else g (j - 1)) + f j) ->
  cumsum_from acc (map f (arange_from s n)) = map g (arange_from s n).
Proof.
  induction n as [|n IH]; intros s acc H; [reflexivity|].
  cbn [arange_from map cumsum_from].
  assert (Hs : g s = acc + f s). { rewrite (H s) by lia. rewrite Z.eqb_refl. reflexivity. }
  f_equal; [lia|].
  apply IH. intros j Hj. rewrite (H j) by lia.
  destruct (Z.eqb_spec j s); [lia|].
  destruct (Z.eqb_spec j (s + 1)) as [E|E].
  - subst j. replace (s + 1 - 1) with s by lia. lia.
  - reflexivity.
Qed.
Lemma sumZ_app a b : sumZ (a ++ b) = sumZ a + sumZ b.
Proof. induction a as [|x a IH]; simpl; [reflexivity|]. unfold sumZ in *. simpl. rewrite IH. lia. Qed.

(* ---------- scatter-add ---------- *)
Lemma lookup_last_none pos idx : forall vals found,
  ~ In pos idx -> lookup_last pos idx vals found = found.
Proof.
  induction idx as [|i idx IH]; intros vals found H; [reflexivity|].
  destruct vals as [|v vals]; [reflexivity|]. cbn [lookup_last].
  destruct (Z.eqb_spec i pos) as [E|E]; [exfalso; apply H; left; exact E|].
  apply IH. intros Hin. apply H. right. exact Hin.
Qed.
Lemma scatter_add_from_app pos idx vals a b :
  scatter_add_from pos idx vals (a ++ b)
  = scatter_add_from pos idx vals a ++ scatter_add_from (pos + len a) idx vals b.
Proof.
  revert pos. induction a as [|x a IH]; intros pos; simpl.
  - rewrite len_nil. f_equal. lia.
  - rewrite IH. rewrite len_cons. do 3 f_equal. lia.
Qed.
Lemma scatter_add_from_none idx vals : forall l pos,
  (forall j, In j idx -> j < pos \/ pos + len l <= j) -> scatter_add_from pos idx vals l = l.
Proof.
  induction l as [|x l IH]; intros pos H; [reflexivity|].
  cbn [scatter_add_from]. rewrite len_cons in H. pose proof (len_nonneg l).
  rewrite lookup_last_none.
  - f_equal; [lia|]. apply IH. intros j Hj. specialize (H j Hj). lia.
  - intros Hin. specialize (H pos Hin). lia.
Qed.
Lemma scatter_add_from_drop i v idx vals : forall l pos,
  i < pos -> scatter_add_from pos (i :: idx) (v :: vals) l = scatter_add_from pos idx vals l.
Proof.
  induction l as [|x l IH]; intros pos H; [reflexivity|].
  cbn [scatter_add_from lookup_last].
  destruct (Z.eqb_spec i pos); [lia|]. f_equal. apply IH. lia.
Qed.

Fixpoint starts_from (pos : Z) (ls : list Z) : list Z :=
  match ls with [] => [] | l :: r => pos :: starts_from (pos + l) r end.
Lemma starts_from_ge : forall ls pos j, Forall (fun l => 0 <= l) ls -> In j (starts_from pos ls) -> pos <= j.
Proof.
  induction ls as [|l ls IH]; intros pos j Hall Hin; [contradiction|].
  inversion Hall as [|? ? Hl Hls]; subst. destruct Hin as [E|Hin]; [lia|].
  specialize (IH (pos + l) j Hls Hin). lia.
Qed.
Lemma removelast_cumsum_from : forall ls pos, ls <> [] ->
  pos :: removelast (cumsum_from pos ls) = starts_from pos ls.
Proof.
  induction ls as [|l ls IH]; intros pos H; [congruence|].
  cbn [cumsum_from starts_from]. f_equal.
  destruct ls as [|l2 ls]; [reflexivity|].
  rewrite <- IH by discriminate.
  cbn [cumsum_from]. reflexivity.
Qed.
Lemma row_starts_eq ls : row_starts ls = starts_from 0 ls.
Proof.
  destruct ls as [|l ls]; [reflexivity|].
  unfold row_starts, cumsum. apply removelast_cumsum_from. discriminate.
Qed.

(* ---------- rows ---------- *)
Definition row_bump (r : Z * list Z) : Z := fst r - row_offset r.
Definition bump_head (b : Z) (l : list Z) : list Z := match l with x :: t => (x + b) :: t | [] => [] end.
Lemma len_row_init r : 0 <= fst r -> len (row_init r) = fst r.
Proof. intros H. unfold row_init. rewrite len_map. apply len_arange. exact H. Qed.

Lemma scatter_rows : forall rows pos,
  Forall (fun r => 1 <= fst r) rows ->
  scatter_add_from pos (starts_from pos (map fst rows)) (map row_bump rows) (concat (map row_init rows))
  = concat (map (fun r => bump_head (row_bump r) (row_init r)) rows).
Proof.
  induction rows as [|r rows IH]; intros pos Hall; [reflexivity|].
  inversion Hall as [|? ? Hr Hrows]; subst.
  cbn [map concat starts_from].
  rewrite scatter_add_from_app.
  assert (Hge : Forall (fun l => 0 <= l) (map fst rows)).
  { apply Forall_map. eapply Forall_impl; [|exact Hrows]. cbn. intros; lia. }
  assert (Hlen : len (row_init r) = fst r) by (apply len_row_init; lia).
  f_equal.
  - destruct (row_init r) as [|x t] eqn:E; [rewrite len_nil in Hlen; lia|].
    rewrite len_cons in Hlen.
    cbn [scatter_add_from bump_head lookup_last]. rewrite Z.eqb_refl.
    rewrite lookup_last_none.
    + f_equal. apply scatter_add_from_none.
      intros j [Hj|Hj]; [lia|]. apply starts_from_ge in Hj; [|exact Hge]. lia.
    + intros Hin. apply starts_from_ge in Hin; [|exact Hge]. lia.
  - rewrite scatter_add_from_drop by (pose proof (len_nonneg (row_init r)); lia).
    rewrite Hlen. apply IH. exact Hrows.
Qed.

(* the exponents of one row *)
Definition row_ok (r : Z * list Z) : Prop :=
  1 <= fst r /\ (snd r = [] \/ exists c, snd r = [c] /\ 0 <= c < fst r).
Definition row_powers (r : Z * list Z) : list Z :=
  match snd r with
  | [] => down (Z.to_nat (fst r))
  | c :: _ => map (Z.add (fst r - 1 - c)) (down (Z.to_nat c))
              ++ (fst r - 1 - c) :: down (Z.to_nat (fst r - 1 - c))
  end.

Lemma sumZ_const_m1 : forall n s, sumZ (map (fun _ : Z => -1) (arange_from s n)) = - Z.of_nat n.
Proof. induction n as [|n IH]; intros s; [reflexivity|]. cbn [arange_from map]. unfold sumZ in *. cbn [fold_right]. rewrite IH. lia. Qed.
Lemma sumZ_one_dot c : forall n s,
  sumZ (map (fun j => if (j =? c) || false then 0 else -1) (arange_from s n))
  = - Z.of_nat n + (if (s <=? c) && (c <? s + Z.of_nat n) then 1 else 0).
Proof.
  induction n as [|n IH]; intros s.
  - simpl. destruct (s <=? c) eqn:E1; destruct (c <? s + 0) eqn:E2; simpl; try reflexivity. lia.
  - cbn [arange_from map]. unfold sumZ in *. cbn [fold_right]. rewrite IH.
    destruct (Z.eqb_spec s c); destruct (Z.leb_spec s c); destruct (Z.leb_spec (s + 1) c);
      destruct (Z.ltb_spec c (s + 1 + Z.of_nat n)); destruct (Z.ltb_spec c (s + Z.of_nat (S n))); cbn [orb andb]; lia.
Qed.

Lemma bumped_row_sum r : row_ok r -> sumZ (bump_head (row_bump r) (row_init r)) = 0.
Proof.
  intros [Hl Hd]. destruct r as [l dots]. cbn [fst snd] in *.
  assert (E : forall b x t, sumZ (bump_head b (x :: t)) = b + sumZ (x :: t)).
  { intros. unfold sumZ. simpl. lia. }
  unfold row_init, row_bump, row_offset, arange, m_fill, m_dot_fill, m_dot_offset. cbn [fst snd].
  replace (Z.to_nat l) with (S (Z.to_nat (l - 1))) by lia.
  destruct Hd as [Hd|[c [Hd Hc]]]; subst dots.
  - cbn [arange_from map existsb]. rewrite E.
    unfold sumZ at 1. cbn [fold_right]. fold (sumZ (map (fun _ : Z => -1) (arange_from (0 + 1) (Z.to_nat (l - 1))))).
    rewrite sumZ_const_m1. lia.
  - pose proof (sumZ_one_dot c (S (Z.to_nat (l - 1))) 0) as HS.
    cbn [arange_from map] in HS. cbn [arange_from map existsb]. rewrite E. rewrite HS.
    destruct (Z.leb_spec 0 c); destruct (Z.ltb_spec c (0 + Z.of_nat (S (Z.to_nat (l - 1))))); cbn [orb andb]; lia.
Qed.

Lemma cumsum_bump_head b x t : cumsum_from 0 (bump_head b (x :: t)) = cumsum_from b (x :: t).
Proof. cbn [bump_head cumsum_from]. replace (0 + (x + b)) with (b + x) by lia. reflexivity. Qed.

Lemma bumped_row_cumsum r : row_ok r ->
  cumsum_from 0 (bump_head (row_bump r) (row_init r)) = row_powers r.
Proof.
  intros [Hl Hd]. destruct r as [l dots]. cbn [fst snd] in *.
  unfold row_init, row_bump, row_offset, row_powers, arange, m_fill, m_dot_fill, m_dot_offset. cbn [fst snd].
  destruct Hd as [Hd|[c [Hd Hc]]]; subst dots.
  - replace (Z.to_nat l) with (S (Z.to_nat (l - 1))) at 1 by lia.
    cbn [arange_from map]. rewrite cumsum_bump_head.
    change ((if existsb (Z.eqb 0) [] then 0 else -1) :: map (fun j => if existsb (Z.eqb j) [] then 0 else -1) (arange_from (0 + 1) (Z.to_nat (l - 1))))
      with (map (fun j => if existsb (Z.eqb j) [] then 0 else -1) (arange_from 0 (S (Z.to_nat (l - 1))))).
    replace (S (Z.to_nat (l - 1))) with (Z.to_nat l) by lia.
    rewrite (cumsum_closed _ (fun j => l - 1 - j)).
    + rewrite <- (map_down (Z.to_nat l) 0). apply map_ext. intros j. lia.
    + intros j Hj. cbn [existsb]. destruct (Z.eqb_spec j 0); lia.
  - replace (Z.to_nat l) with (S (Z.to_nat (l - 1))) at 1 by lia.
    cbn [arange_from map]. rewrite cumsum_bump_head.
    change ((if existsb (Z.eqb 0) [c] then 0 else -1) :: map (fun j => if existsb (Z.eqb j) [c] then 0 else -1) (arange_from (0 + 1) (Z.to_nat (l - 1))))
      with (map (fun j => if existsb (Z.eqb j) [c] then 0 else -1) (arange_from 0 (S (Z.to_nat (l - 1))))).
    replace (S (Z.to_nat (l - 1))) with (Z.to_nat l) by lia.
    rewrite (cumsum_closed _ (fun j => if j <? c then l - 2 - j else l - 1 - j)).
    + replace (Z.to_nat l) with (Z.to_nat c + S (Z.to_nat (l - 1 - c)))%nat by lia.
      rewrite arange_from_app. rewrite map_app. f_equal.
      * rewrite <- (map_down (Z.to_nat c) 0). rewrite map_map. apply map_ext_arange.
        intros j Hj. destruct (Z.ltb_spec j c); lia.
      * cbn [arange_from map]. f_equal.
        { destruct (Z.ltb_spec (0 + Z.of_nat (Z.to_nat c)) c); lia. }
        rewrite <- (map_down (Z.to_nat (l - 1 - c)) (0 + Z.of_nat (Z.to_nat c) + 1)). apply map_ext_arange.
        intros j Hj. destruct (Z.ltb_spec j c); lia.
    + intros j Hj. cbn [existsb]. rewrite orb_false_r.
      destruct (Z.eqb_spec j 0); destruct (Z.eqb_spec j c); destruct (Z.ltb_spec j c); destruct (Z.ltb_spec (j - 1) c); lia.
Qed.

Lemma cumsum_rows : forall rows, Forall row_ok rows ->
  cumsum_from 0 (concat (map (fun r => bump_head (row_bump r) (row_init r)) rows)) = concat (map row_powers rows).
Proof.
  induction rows as [|r rows IH]; intros Hall; [reflexivity|].
  inversion Hall as [|? ? Hr Hrows]; subst.
  cbn [map concat]. rewrite cumsum_from_app. rewrite bumped_row_sum by exact Hr.
  rewrite bumped_row_cumsum by exact Hr. f_equal. apply IH. exact Hrows.
Qed.

Lemma len_row_powers r : row_ok r -> len (row_powers r) = fst r.
Proof.
  intros [Hl Hd]. destruct r as [l dots]. cbn [fst snd] in *. unfold row_powers. cbn [fst snd].
  destruct Hd as [Hd|[c [Hd Hc]]]; subst dots.
  - rewrite len_down. lia.
  - rewrite len_app, len_map, len_cons, !len_down. lia.
Qed.
Lemma split_rows_concat {A} : forall (rs : list (list A)), split_rows (map len rs) (concat rs) = rs.
Proof.
  induction rs as [|r rs IH]; [reflexivity|].
  cbn [map concat split_rows].
  assert (E : Z.to_nat (len r) = length r) by (unfold len; apply Nat2Z.id). rewrite E.
  rewrite firstn_app, Nat.sub_diag, firstn_all, firstn_O, app_nil_r.
  rewrite skipn_app, Nat.sub_diag, skipn_all. cbn [skipn app]. rewrite IH. reflexivity.
Qed.

(* ---- main theorem of this file ---- *)
Theorem power_rows_spec : forall rows, Forall row_ok rows -> power_rows rows = map row_powers rows.
Proof.
  intros rows Hall. unfold power_rows, index_array.
  rewrite row_starts_eq. fold row_bump.
  change (map (fun r => fst r - row_offset r) rows) with (map row_bump rows).
  rewrite scatter_rows by (eapply Forall_impl; [|exact Hall]; intros r [H _]; exact H).
  unfold cumsum. rewrite cumsum_rows by exact Hall.
  replace (map fst rows) with (map len (map row_powers rows)).
  - apply split_rows_concat.
  - rewrite map_map. apply map_ext_in. intros r Hr. apply len_row_powers.
    rewrite Forall_forall in Hall. apply Hall. exact Hr.
Qed.

Lemma plain_shape_ok lengths : Forall (fun l => 1 <= l) lengths -> Forall row_ok (plain_shape lengths).
Proof.
  intros H. unfold plain_shape. apply Forall_map. eapply Forall_impl; [|exact H].
  intros l Hl. split; [exact Hl|left; reflexivity].
Qed.
Corollary power_rows_plain lengths : Forall (fun l => 1 <= l) lengths ->
  power_rows (plain_shape lengths) = map (fun l => down (Z.to_nat l)) lengths.
Proof.
  intros H. rewrite power_rows_spec by (apply plain_shape_ok; exact H).
  unfold plain_shape. rewrite map_map. reflexivity.
Qed.

(* Proofs/C02_int.v — T2: integer columns.  The right-aligned, zero-filled digit matrix dotted with the powers
   of ten, and the signed ragged path, both compute the value of every numeral — whatever the widths of the
   fields in the column and wherever they lie in the buffer.  Also: the missing-value wrapper, list columns,
   header skipping. *)
From Coq Require Import ZArith List Bool Lia Arith.
From BNP Require Import Base.Prims Base.PrimsFacts Base.C02Lib Model.C02.
Import ListNotations.
Open Scope Z_scope.

(* ---------- mapM ---------- *)
Lemma mapM_ext_in {A B} (f g : A -> option B) l : (forall x, In x l -> f x = g x) -> mapM f l = mapM g l.
Proof.
  induction l as [|x l IH]; intros H; [reflexivity|]. simpl.
  rewrite (H x) by (left; reflexivity). rewrite IH by (intros y Hy; apply H; right; exact Hy). reflexivity.
Qed.
Lemma mapM_map {A B C} (f : B -> option C) (g : A -> B) l : mapM f (map g l) = mapM (fun x => f (g x)) l.
Proof. induction l as [|x l IH]; [reflexivity|]. simpl. rewrite IH. reflexivity. Qed.
Lemma mapM_app {A B} (f : A -> option B) a b :
  mapM f (a ++ b) = match mapM f a, mapM f b with Some x, Some y => Some (x ++ y) | _, _ => None end.
Proof.
  induction a as [|x a IH]; simpl.
  - destruct (mapM f b); reflexivity.
  - rewrite IH. destruct (f x); [|reflexivity]. destruct (mapM f a); [|reflexivity]. destruct (mapM f b); reflexivity.
Qed.
Lemma mapM_length {A B} (f : A -> option B) l r : mapM f l = Some r -> length r = length l.
Proof.
  revert r. induction l as [|x l IH]; intros r H; simpl in H.
  - inversion H. reflexivity.
  - destruct (f x); [|discriminate]. destruct (mapM f l) eqn:E; [|discriminate]. inversion H. simpl. f_equal. apply IH. reflexivity.
Qed.

(* ---------- digits and powers of ten ---------- *)
Lemma dot_pow_cons d ds : dot_pow (d :: ds) = d * 10 ^ len ds + dot_pow ds.
Proof.
  unfold dot_pow, arange. rewrite len_cons.
  replace (Z.to_nat (1 + len ds)) with (S (length ds)) by (unfold len; lia).
  rewrite arange_from_snoc, rev_app_distr. simpl rev. simpl app.
  replace (Z.to_nat (len ds)) with (length ds) by (unfold len; lia).
  simpl combine. simpl map. simpl sumZ. unfold len. f_equal.
Qed.
Lemma dot_pow_nil : dot_pow [] = 0.
Proof. reflexivity. Qed.
Lemma dot_pow_zeros k ds : dot_pow (repeat 0 k ++ ds) = dot_pow ds.
Proof. induction k as [|k IH]; [reflexivity|]. simpl. rewrite dot_pow_cons, IH. lia. Qed.

Lemma digits_of_digits r : all_digits r = true -> exists ds, digits_of r = Some ds /\ len ds = len r /\
  forall acc, horner acc r = Some (acc * 10 ^ len r + dot_pow ds).
Proof.
  induction r as [|c r IH]; intros H.
  - exists []. split; [reflexivity|]. split; [reflexivity|]. intros acc. simpl. rewrite dot_pow_nil. change (len (@nil Z)) with 0. f_equal. lia.
  - simpl in H. apply andb_true_iff in H. destruct H as [Hc Hr].
    destruct (IH Hr) as [ds [Hd [Hl Hh]]].
    exists ((c - 48) :: ds). split; [|split].
    + unfold digits_of in *. cbn [mapM]. unfold digit_val at 1. rewrite Hc, Hd. reflexivity.
    + rewrite !len_cons; lia.
    + intros acc. cbn [horner]. rewrite Hc, Hh, dot_pow_cons, Hl, len_cons.
      f_equal. rewrite Z.pow_add_r by (pose proof (len_nonneg r); lia). lia.
Qed.
Lemma uint_dot r : all_digits r = true -> r <> [] -> exists ds, digits_of r = Some ds /\ uint_of_text r = Some (dot_pow ds).
Proof.
  intros H Hne. destruct (digits_of_digits r H) as [ds [Hd [_ Hh]]]. exists ds. split; [exact Hd|].
  unfold uint_of_text. destruct r; [congruence|]. rewrite Hh. f_equal; lia.
Qed.
Lemma digits_of_app a b : digits_of (a ++ b) =
  match digits_of a, digits_of b with Some x, Some y => Some (x ++ y) | _, _ => None end.
Proof. apply mapM_app. Qed.
Lemma digits_of_zeros k : digits_of (repeat 48 k) = Some (repeat 0 k).
Proof. induction k as [|k IH]; [reflexivity|]. unfold digits_of in *. simpl. rewrite IH. reflexivity. Qed.

Lemma len_zero_iff {A} (l : list A) : (len l =? 0) = true <-> l = [].
Proof.
  split; intros H.
  - apply Z.eqb_eq in H. apply len_zero_nil. exact H.
  - subst. reflexivity.
Qed.

(* the signed ragged path computes the value of a numeral *)
Lemma flag_core_correct txt : numeral txt = true ->
  str_to_int_core (hd0 txt =? 45) (hd0 txt =? 43) txt = int_of_text txt.
Proof.
  intros H. destruct txt as [|c r]; [discriminate|]. simpl hd0. unfold numeral in H. unfold int_of_text, str_to_int_core.
  destruct (Z.eqb_spec c 45) as [E45|N45].
  - simpl orb in *. apply andb_true_iff in H. destruct H as [Hne Hd].
    assert (r <> []) by (intro E; subst r; discriminate).
    destruct (uint_dot r Hd H) as [ds [Hds Hu]]. rewrite Hu.
    change (48 :: r) with ([48] ++ r). rewrite digits_of_app, Hds.
    replace (digits_of [48]) with (Some [0]) by reflexivity. cbn [option_map app].
    rewrite dot_pow_cons. f_equal; lia.
  - destruct (Z.eqb_spec c 43) as [E43|N43].
    + simpl orb in *. apply andb_true_iff in H. destruct H as [Hne Hd].
      assert (r <> []) by (intro E; subst r; discriminate).
      destruct (uint_dot r Hd H) as [ds [Hds Hu]]. rewrite Hu.
      change (48 :: r) with ([48] ++ r). rewrite digits_of_app, Hds.
      replace (digits_of [48]) with (Some [0]) by reflexivity. cbn [option_map app].
      rewrite dot_pow_cons. f_equal; lia.
    + simpl orb in *. cbv iota.
      destruct (uint_dot (c :: r) H) as [ds [Hds Hu]]; [discriminate|]. rewrite Hu, Hds. cbn [option_map]. f_equal; lia.
Qed.
Lemma flag_correct txt : numeral txt = true ->
  str_to_int_flag (hd0 txt =? 45) (hd0 txt =? 43) txt = int_of_text txt.
Proof.
  intros H. unfold str_to_int_flag. rewrite <- flag_core_correct by exact H.
  replace ((len txt =? 0) || ((hd0 txt =? 45) || (hd0 txt =? 43)) && (len txt =? 1)) with false; [reflexivity|].
  symmetry. destruct txt as [|c r]; [discriminate|].
  assert (L : len (c :: r) = 1 + len r) by apply len_cons. pose proof (len_nonneg r).
  apply orb_false_iff. split.
  - apply Z.eqb_neq. lia.
  - cbn [hd0]. unfold numeral in H. destruct ((c =? 45) || (c =? 43)); [|reflexivity].
    apply andb_true_iff in H. destruct H as [Hne _]. apply negb_true_iff in Hne. apply Z.eqb_neq in Hne.
    cbn [andb]. apply Z.eqb_neq. lia.
Qed.
Lemma auto_correct txt : numeral txt = true -> str_to_int_auto txt = int_of_text txt.
Proof. apply flag_correct. Qed.

(* ---------- the digit matrix ---------- *)
Lemma max_len_ge bs se : In se bs -> snd se - fst se <= max_len bs.
Proof.
  unfold max_len. induction bs as [|x bs IH]; intros H; [contradiction|].
  simpl. destruct H as [E|H]; [subst; lia|]. specialize (IH H). lia.
Qed.
Lemma max_len_nonneg bs : 0 <= max_len bs.
Proof. unfold max_len. induction bs; simpl; lia. Qed.
Lemma map_arange_from_shift {B} (f : Z -> B) c a n :
  map (fun j => f (j + c)) (arange_from a n) = map f (arange_from (a + c) n).
Proof.
  revert a. induction n as [|n IH]; intros a; [reflexivity|]. simpl. f_equal.
  rewrite IH. f_equal. f_equal. lia.
Qed.

(* one row of the matrix is the field text, left-padded with '0' to the width of the widest field *)
Lemma digit_row data s e mx : 0 <= s -> s <= e -> e <= len data -> e - s <= mx ->
  map (fun j => if j <? mx - (e - s) then 48 else py_get data (e - mx + j)) (arange mx)
  = repeat 48 (Z.to_nat (mx - (e - s))) ++ slice s e data.
Proof.
  intros Hs Hse He Hmx. unfold arange.
  replace (Z.to_nat mx) with (Z.to_nat (mx - (e - s)) + Z.to_nat (e - s))%nat by lia.
  rewrite arange_from_app, map_app. f_equal.
  - rewrite (map_arange_from_ext _ (fun _ => 48)).
    + apply map_arange_from_const.
    + intros j Hj. destruct (Z.ltb_spec j (mx - (e - s))); [reflexivity|lia].
  - rewrite Z2Nat.id by lia. replace (0 + (mx - (e - s))) with (mx - (e - s)) by lia.
    rewrite (map_arange_from_ext _ (fun j => nthZ data (j + (e - mx)))).
    + rewrite map_arange_from_shift. replace (mx - (e - s) + (e - mx)) with s by lia.
      rewrite map_nthZ_arange_from by lia. reflexivity.
    + intros j Hj. destruct (Z.ltb_spec j (mx - (e - s))); [lia|].
      unfold py_get. destruct (Z.ltb_spec (e - mx + j) 0); [lia|]. f_equal. lia.
Qed.

Lemma slice_head data s e x r : 0 <= s -> slice s e data = x :: r -> nthZ data s = x.
Proof.
  intros Hs H. unfold slice, nthZ in *.
  remember (Z.to_nat s) as k. clear Heqk Hs. remember (Z.to_nat (e - s)) as m. clear Heqm.
  revert k H. induction data as [|y data IH]; intros k H.
  - rewrite skipn_nil, firstn_nil in H. discriminate.
  - destruct k as [|k].
    + simpl in H. destruct m; [discriminate|]. simpl in H. inversion H. reflexivity.
    + simpl in H. simpl. apply IH. exact H.
Qed.
Lemma slice_bounds (data : list Z) s e x r : 0 <= s -> slice s e data = x :: r -> s < e /\ s < len data.
Proof.
  intros Hs H. unfold slice in H. split.
  - destruct (Z_lt_ge_dec s e); [assumption|]. replace (Z.to_nat (e - s)) with O in H by lia. discriminate.
  - destruct (Z_lt_ge_dec s (len data)); [assumption|]. rewrite skipn_all2 in H by (unfold len in *; lia).
    rewrite firstn_nil in H. discriminate.
Qed.

Lemma existsb_false {A} (f : A -> bool) l : existsb f l = false -> forall x, In x l -> f x = false.
Proof.
  induction l as [|y l IH]; intros H x Hx; [contradiction|]. simpl in H. apply orb_false_iff in H.
  destruct H as [Hy Hl]. destruct Hx as [E|Hx]; [subst; exact Hy|apply IH; assumption].
Qed.

(* ---------- T2 ---------- *)
Theorem int_column_correct : forall (data : list Z) (bs : list (Z * Z)),
  (forall se, In se bs -> 0 <= fst se /\ snd se <= len data /\ numeral (text_at data se) = true) ->
  parse_int_col data bs = mapM (fun se => int_of_text (text_at data se)) bs.
Proof.
  intros data bs H. unfold parse_int_col.
  assert (Hhd : forall se, In se bs -> nthZ data (fst se) = hd0 (text_at data se) /\ fst se < snd se).
  { intros se Hse. destruct (H se Hse) as [H0 [H1 Hn]]. unfold text_at in *.
    destruct (slice (fst se) (snd se) data) as [|x r] eqn:E; [discriminate|].
    split; [apply (slice_head data _ _ x r H0 E)|apply (slice_bounds data _ _ x r H0 E)]. }
  destruct (existsb (fun c => (c =? 45) || (c =? 43)) (map (fun se => nthZ data (fst se)) bs)) eqn:Ex.
  - (* some field carries a sign: ragged path for the whole column *)
    apply mapM_ext_in. intros se Hse. destruct (Hhd se Hse) as [E _]. rewrite E.
    apply flag_correct. apply H. exact Hse.
  - (* digit matrix *)
    unfold digit_matrix, m_mida_n_fill, m_mida_index. rewrite mapM_map. apply mapM_ext_in. intros se Hse.
    destruct (H se Hse) as [H0 [H1 Hn]]. destruct (Hhd se Hse) as [E Hlt].
    rewrite digit_row by (try lia; apply max_len_ge; exact Hse).
    rewrite digits_of_app, digits_of_zeros.
    assert (Hns : (hd0 (text_at data se) =? 45) || (hd0 (text_at data se) =? 43) = false).
    { rewrite <- E. apply (existsb_false _ _ Ex (nthZ data (fst se))). apply in_map_iff. exists se. split; [reflexivity|exact Hse]. }
    unfold text_at in *. destruct (slice (fst se) (snd se) data) as [|c r] eqn:Es; [discriminate|].
    simpl hd0 in Hns. unfold numeral in Hn. rewrite Hns in Hn.
    destruct (uint_dot (c :: r) Hn) as [ds [Hds Hu]]; [discriminate|].
    rewrite Hds. simpl option_map. rewrite dot_pow_zeros.
    unfold int_of_text. apply orb_false_iff in Hns. destruct Hns as [A B]. rewrite A, B. symmetry. exact Hu.
Qed.

(* Proofs/C18_lists.v — integer lists are joined and split element by element; and the pinned
   formatter agrees with the repaired one below the first value the float logarithm gets wrong. *)
From Coq Require Import ZArith List Bool Lia.
From BNP Require Import Base.Prims Base.PrimsFacts Model.C18 Proofs.C18_power Proofs.C18_int.
Import ListNotations.
Open Scope Z_scope.

(* ---------- split_rows against concat ---------- *)
Lemma split_rows_map_concat {A B} (g : A -> B) : forall (rs : list (list A)),
  split_rows (map len rs) (map g (concat rs)) = map (map g) rs.
Proof.
  intros rs. rewrite <- (split_rows_concat (map (map g) rs)).
  rewrite concat_map. f_equal. rewrite map_map. apply map_ext. intros r. symmetry. apply len_map.
Qed.
Lemma len_concat {A} : forall (ls : list (list A)), len (concat ls) = sumZ (map len ls).
Proof.
  induction ls as [|l ls IH]; [reflexivity|]. cbn [concat map]. rewrite len_app, IH. reflexivity.
Qed.
Lemma concat_concat' {A} : forall (l : list (list (list A))), concat (map (@concat A) l) = concat (concat l).
Proof. induction l as [|x l IH]; [reflexivity|]. cbn [map concat]. rewrite concat_app, IH. reflexivity. Qed.
Lemma removelast_snoc {A} (l : list A) x : removelast (l ++ [x]) = l.
Proof. apply removelast_last. Qed.

(* joining with a trailing separator and dropping the last byte = intercalate *)
Lemma removelast_join sep : forall ts, removelast (join_keep_last sep ts) = intercalate [sep] ts.
Proof.
  unfold join_keep_last. induction ts as [|t ts IH]; [reflexivity|].
  cbn [map concat]. destruct ts as [|t2 ts].
  - cbn [map concat intercalate]. rewrite app_nil_r. apply removelast_snoc.
  - change (intercalate [sep] (t :: t2 :: ts)) with (t ++ [sep] ++ intercalate [sep] (t2 :: ts)).
    rewrite <- IH. rewrite <- app_assoc.
    rewrite removelast_app.
    2:{ cbn [map concat]. destruct t2; discriminate. }
    rewrite removelast_app.
    2:{ cbn [map concat]. destruct t2; discriminate. }
    reflexivity.
Qed.

Lemma sum_join (f : Z -> list Z) sep : forall r,
  sumZ (map (fun n => len (f n ++ [sep])) r) = sumZ (map (fun n => len (f n)) r) + len r.
Proof.
  induction r as [|n r IH]; [reflexivity|].
  cbn [map]. rewrite len_cons. unfold sumZ in *. cbn [fold_right]. rewrite IH. rewrite len_app.
  change (len [sep]) with 1. lia.
Qed.

(* ---------- T3a: int_lists_to_strings ---------- *)
Theorem int_lists_rowwise (f : Z -> list Z) sep rows :
  int_lists_to_strings_gen (map f) sep rows = map (fun r => intercalate [sep] (map f r)) rows.
Proof.
  unfold int_lists_to_strings_gen, m_row_len.
  rewrite map_map. rewrite (split_rows_map_concat (fun n => len (f n)) rows).
  assert (Ej : join_keep_last sep (map f (concat rows))
               = concat (map (fun r => join_keep_last sep (map f r)) rows)).
  { unfold join_keep_last. rewrite map_map. rewrite concat_map, <- concat_concat', map_map.
    f_equal. apply map_ext. intros r. rewrite map_map. reflexivity. }
  rewrite Ej.
  assert (El : map (fun '(ls, r) => sumZ ls + len r) (combine (map (map (fun n => len (f n))) rows) rows)
               = map len (map (fun r => join_keep_last sep (map f r)) rows)).
  { rewrite map_map. clear. induction rows as [|r rows IH]; [reflexivity|].
    cbn [map combine]. rewrite IH. f_equal.
    unfold join_keep_last. rewrite len_concat, !map_map. symmetry. apply sum_join. }
  rewrite El. rewrite split_rows_concat. rewrite map_map. apply map_ext. intros r. apply removelast_join.
Qed.

(* ---------- the pinned width below the first failing value ---------- *)
Lemma ndigits_fuel_spec : forall f a, 1 <= a -> a < 2 ^ Z.of_nat f ->
  10 ^ (ndigits_fuel f a - 1) <= a < 10 ^ ndigits_fuel f a.
Proof.
  induction f as [|f IH]; intros a Ha Hf.
  - simpl in Hf. lia.
  - cbn [ndigits_fuel]. destruct (Z.ltb_spec a 10) as [Hlt|Hge].
    + simpl. lia.
    + assert (H1 : 1 <= a / 10) by (apply Z.div_le_lower_bound; lia).
      assert (H2 : a / 10 < 2 ^ Z.of_nat f).
      { apply Z.div_lt_upper_bound; [lia|].
        replace (Z.of_nat (S f)) with (Z.succ (Z.of_nat f)) in Hf by lia.
        rewrite Z.pow_succ_r in Hf by lia.
        assert (0 < 2 ^ Z.of_nat f) by (apply Z.pow_pos_nonneg; lia). lia. }
      specialize (IH (a / 10) H1 H2).
      pose proof (ndigits_fuel_ge1 f (a / 10)) as Hw.
      set (w := ndigits_fuel f (a / 10)) in *.
      replace (1 + w - 1) with (Z.succ (w - 1)) by lia.
      replace (1 + w) with (Z.succ w) by lia.
      rewrite !Z.pow_succ_r by lia.
      pose proof (Z.div_mod a 10 ltac:(lia)) as Hdm. pose proof (Z.mod_pos_bound a 10 ltac:(lia)) as Hm. lia.
Qed.
Lemma ndigits_spec a : 1 <= a -> 10 ^ (ndigits a - 1) <= a < 10 ^ ndigits a.
Proof.
  intros Ha. unfold ndigits. apply ndigits_fuel_spec; [exact Ha|].
  replace (Z.of_nat (S (Z.to_nat (Z.log2 a)))) with (Z.succ (Z.log2 a)).
  - apply Z.log2_spec. lia.
  - pose proof (Z.log2_nonneg a). lia.
Qed.
Lemma digits_unique a w1 w2 : 1 <= w1 -> 1 <= w2 ->
  10 ^ (w1 - 1) <= a < 10 ^ w1 -> 10 ^ (w2 - 1) <= a < 10 ^ w2 -> w1 = w2.
Proof.
  intros H1 H2 A1 A2.
  destruct (Z.lt_trichotomy w1 w2) as [L|[E|L]]; [|exact E|].
  - pose proof (pow10_mono w1 (w2 - 1) ltac:(lia)). lia.
  - pose proof (pow10_mono w2 (w1 - 1) ltac:(lia)). lia.
Qed.
Lemma abs_i64_small n : Z.abs n < 2 ^ 63 -> abs_i64 n = Z.abs n.
Proof. intros H. unfold abs_i64. apply wrap64_id. unfold int64. lia. Qed.
Lemma round53_small a : 1 <= a -> a < 2 ^ 53 -> round53 a = a.
Proof.
  intros Ha Hb. unfold round53.
  assert (Z.log2 a < 53) by (apply Z.log2_lt_pow2; lia).
  destruct (Z.leb_spec (Z.log2 a - 52) 0); [reflexivity|lia].
Qed.
Lemma log10_carry_small k x : 1 <= k -> x < 10 ^ k -> x < 10 ^ 15 - 2 -> (log10_carry k <=? x) = false.
Proof.
  intros Hk Hx Hs. apply Z.leb_gt. unfold log10_carry.
  destruct (Z.eqb_spec k 15); [lia|].
  destruct (Z.eqb_spec k 16) as [E|_]; [assert (10 ^ 15 < 10 ^ 16 - 20) by reflexivity; lia|].
  destruct (Z.eqb_spec k 17) as [E|_]; [assert (10 ^ 15 < 10 ^ 17 - 400) by reflexivity; lia|].
  destruct (Z.eqb_spec k 18) as [E|_]; [assert (10 ^ 15 < 10 ^ 18 - 3968) by reflexivity; lia|].
  exact Hx.
Qed.
Lemma small_bounds : 10 ^ 15 - 2 < 2 ^ 53 /\ 2 ^ 53 < 2 ^ 63 /\ 2 ^ 63 < 10 ^ 19.
Proof. repeat split; reflexivity. Qed.
Lemma width_log10_small n : Z.abs n < 10 ^ 15 - 2 -> width_log10 n = width_exact n.
Proof.
  intros Hn. destruct small_bounds as [B1 [B2 B3]].
  unfold width_log10. rewrite abs_i64_small by lia.
  destruct (Z.eq_dec (Z.abs n) 0) as [E0|E0].
  - rewrite E0. unfold width_exact. rewrite E0. reflexivity.
  - assert (Ha : 1 <= Z.abs n) by lia.
    rewrite Z.max_l by lia. rewrite round53_small by lia.
    pose proof (ndigits_spec (Z.abs n) Ha) as Hnd.
    pose proof (ndigits_fuel_ge1 (S (Z.to_nat (Z.log2 (Z.abs n)))) (Z.abs n)) as Hge. fold (ndigits (Z.abs n)) in Hge.
    rewrite log10_carry_small by lia.
    pose proof (width_exact_range n ltac:(lia)) as Hw.
    pose proof (width_exact_hi n ltac:(lia)) as Hhi.
    pose proof (width_exact_lo n ltac:(lia) ltac:(lia)) as Hlo.
    revert Hnd Hge Hw Hhi Hlo. generalize (ndigits (Z.abs n)) as w1. generalize (width_exact n) as w2.
    intros w2 w1 Hnd Hge Hw Hhi Hlo. apply (digits_unique (Z.abs n)); lia.
Qed.
Lemma pow10_i64_small p : 0 <= p <= 18 -> pow10_i64 p = 10 ^ p.
Proof.
  intros H. unfold pow10_i64. apply wrap64_id. unfold int64.
  pose proof (pow10_pos p ltac:(lia)). pose proof (pow10_mono p 18 ltac:(lia)).
  assert (10 ^ 18 < 2 ^ 63) by reflexivity. lia.
Qed.
Lemma digits_map_eq (a : Z) k : (k <= 19)%nat ->
  map (fun p => 48 + (a / pow10_i64 p) mod 10) (down k) = map (fun p => 48 + (a / pow10_u64 p) mod 10) (down k).
Proof.
  intros Hk. apply map_ext_in. intros p Hp. apply In_down in Hp.
  rewrite pow10_i64_small, pow10_u64_small by lia. reflexivity.
Qed.
Theorem int_text_pinned_small n : Z.abs n < 10 ^ 15 - 2 ->
  int_text width_log10 abs_i64 pow10_i64 n = int_text width_exact Z.abs pow10_u64 n.
Proof.
  intros Hn. destruct small_bounds as [B1 [B2 B3]].
  pose proof (width_log10_small n Hn) as Ew.
  pose proof (width_exact_range n ltac:(lia)) as Hw.
  pose proof (abs_i64_small n ltac:(lia)) as Ea.
  assert (Hw15 : width_exact n <= 15).
  { destruct (Z.eq_dec (Z.abs n) 0) as [E0|E0].
    - unfold width_exact. rewrite E0. cbn. lia.
    - pose proof (width_exact_lo n ltac:(lia) ltac:(lia)) as Hlo.
      destruct (Z_le_gt_dec (width_exact n) 15) as [L|G]; [exact L|].
      pose proof (pow10_mono 15 (width_exact n - 1) ltac:(lia)). lia. }
  destruct (Z.lt_ge_cases n 0) as [Hneg|Hpos].
  - rewrite !int_text_neg by exact Hneg. rewrite Ew, Ea. f_equal. apply digits_map_eq. lia.
  - rewrite !int_text_pos by exact Hpos. rewrite Ew, Ea. apply digits_map_eq. lia.
Qed.
Theorem format_pinned_partial : forall ns, Forall (fun n => Z.abs n < 10 ^ 15 - 2) ns ->
  ints_to_strings_pinned ns = ints_to_strings ns.
Proof.
  intros ns H. unfold ints_to_strings_pinned, ints_to_strings.
  rewrite !ints_to_strings_gen_map by (try apply width_exact_ge1; apply width_log10_ge1).
  apply map_ext_in. intros n Hn. rewrite Forall_forall in H. apply int_text_pinned_small. apply H. exact Hn.
Qed.

(* ---------- T3b: the list column parser splits element by element ---------- *)
Lemma split_on_nosep sep : forall a, ~ In sep a -> split_on sep a = [a].
Proof.
  induction a as [|x a IH]; intros H; [reflexivity|].
  cbn [split_on]. destruct (Z.eqb_spec x sep) as [E|E]; [exfalso; apply H; left; exact E|].
  rewrite IH; [reflexivity|]. intros Hin. apply H. right. exact Hin.
Qed.
Lemma split_on_app sep : forall a rest, ~ In sep a -> split_on sep (a ++ sep :: rest) = a :: split_on sep rest.
Proof.
  induction a as [|x a IH]; intros rest H.
  - cbn [app split_on]. rewrite Z.eqb_refl. reflexivity.
  - cbn [app split_on]. destruct (Z.eqb_spec x sep) as [E|E]; [exfalso; apply H; left; exact E|].
    rewrite IH; [reflexivity|]. intros Hin. apply H. right. exact Hin.
Qed.
Lemma split_on_intercalate sep : forall ts, ts <> [] -> Forall (fun t => ~ In sep t) ts ->
  split_on sep (intercalate [sep] ts) = ts.
Proof.
  induction ts as [|t ts IH]; intros Hne H; [congruence|].
  inversion H as [|? ? Ht Hts]; subst. destruct ts as [|t2 ts].
  - cbn [intercalate]. apply split_on_nosep. exact Ht.
  - change (intercalate [sep] (t :: t2 :: ts)) with (t ++ sep :: intercalate [sep] (t2 :: ts)).
    rewrite split_on_app by exact Ht. rewrite IH; [reflexivity|discriminate|exact Hts].
Qed.
Lemma join_of_intercalate sep ts : ts <> [] -> intercalate [sep] ts ++ [sep] = join_keep_last sep ts.
Proof.
  intros Hne. rewrite <- removelast_join.
  unfold join_keep_last. destruct ts as [|t ts]; [congruence|].
  assert (E : exists l, concat (map (fun t0 => t0 ++ [sep]) (t :: ts)) = l ++ [sep]).
  { clear. revert t. induction ts as [|t2 ts IH]; intros t.
    - exists t. cbn [map concat]. rewrite app_nil_r. reflexivity.
    - destruct (IH t2) as [l El]. exists ((t ++ [sep]) ++ l).
      change (concat (map (fun t0 => t0 ++ [sep]) (t :: t2 :: ts)))
        with ((t ++ [sep]) ++ concat (map (fun t0 => t0 ++ [sep]) (t2 :: ts))).
      rewrite El, app_assoc. reflexivity. }
  destruct E as [l El]. rewrite El, removelast_last. reflexivity.
Qed.
Lemma count_eq_app c a b : count_eq c (a ++ b) = count_eq c a + count_eq c b.
Proof. unfold count_eq. rewrite filter_app, len_app. reflexivity. Qed.
Lemma count_eq_nosep c a : ~ In c a -> count_eq c a = 0.
Proof.
  intros H. unfold count_eq. induction a as [|x a IH]; [reflexivity|].
  cbn [filter]. destruct (Z.eqb_spec c x) as [E|E]; [exfalso; apply H; left; auto|].
  apply IH. intros Hin. apply H. right. exact Hin.
Qed.
Lemma count_join sep : forall ts, Forall (fun t => ~ In sep t) ts -> count_eq sep (join_keep_last sep ts) = len ts.
Proof.
  unfold join_keep_last. induction ts as [|t ts IH]; intros H; [reflexivity|].
  inversion H as [|? ? Ht Hts]; subst. cbn [map concat]. rewrite !count_eq_app, IH by exact Hts.
  rewrite count_eq_nosep by exact Ht. rewrite len_cons. unfold count_eq. cbn [filter]. rewrite Z.eqb_refl. reflexivity.
Qed.
Lemma text_value_no_comma t v : text_value t = Some v -> ~ In 44 t /\ t <> [].
Proof.
  intros H. pose proof (text_value_strip t v H) as [Hl [Hd _]].
  split; [|intros E; subst t; discriminate].
  intros Hin. assert (F : forall c, In c (strip_sign t) -> is_digit c = true) by (apply forallb_forall; exact Hd).
  destruct t as [|c r]; [contradiction|]. unfold strip_sign, head_is in F.
  destruct Hin as [E|Hin].
  - subst c. cbn [orb] in F. replace (44 =? 45) with false in F by reflexivity.
    replace (44 =? 43) with false in F by reflexivity. cbn [orb] in F.
    specialize (F 44 (or_introl eq_refl)). discriminate.
  - assert (In 44 (if (c =? 45) || (c =? 43) then set_head 48 (c :: r) else c :: r)).
    { destruct ((c =? 45) || (c =? 43)); cbn [set_head]; right; exact Hin. }
    specialize (F 44 H0). discriminate.
Qed.
Lemma filter_nonempty_all (ts : list (list Z)) : Forall (fun t => t <> []) ts ->
  filter nonempty_piece ts = ts.
Proof.
  intros H. induction H as [|t ts Ht _ IH]; [reflexivity|].
  cbn [filter]. unfold nonempty_piece at 1. destruct t as [|c r]; [congruence|]. rewrite len_cons.
  pose proof (len_nonneg r). destruct (Z.eqb_spec (1 + len r) 0); [lia|]. cbn [negb]. rewrite IH. reflexivity.
Qed.

Definition valid_int (t : list Z) (v : Z) : Prop := text_value t = Some v /\ int64 v.
Theorem parse_split_ints_exact : forall fixed tss vss,
  Forall2 (Forall2 valid_int) tss vss -> Forall (fun ts => ts <> []) tss ->
  parse_split_ints_gen fixed 44 (map (intercalate [44]) tss) = Some vss.
Proof.
  intros fixed tss vss H Hne. unfold parse_split_ints_gen.
  set (all := concat tss).
  assert (Hall : Forall2 valid_int all (concat vss)).
  { subst all. clear Hne. induction H as [|ts vs tss vss Hr _ IH]; [constructor|].
    cbn [concat]. apply Forall2_app; assumption. }
  assert (Hsep : Forall (fun t => ~ In 44 t) all /\ Forall (fun t => t <> []) all).
  { clear - Hall. induction Hall as [|t v ts vs [Hv _] _ [IH1 IH2]]; [split; constructor|].
    pose proof (text_value_no_comma t v Hv) as [A B]. split; constructor; assumption. }
  destruct Hsep as [Hsep Hnonempty].
  assert (Etext : map (fun f => f ++ [44]) (map (intercalate [44]) tss) = map (join_keep_last 44) tss).
  { rewrite map_map. apply map_ext_in. intros ts Hin. apply join_of_intercalate.
    rewrite Forall_forall in Hne. apply Hne. exact Hin. }
  rewrite Etext.
  assert (Ecat : concat (map (join_keep_last 44) tss) = join_keep_last 44 all).
  { subst all. unfold join_keep_last. rewrite concat_map, <- concat_concat', map_map. reflexivity. }
  rewrite Ecat, removelast_join.
  assert (Ecount : map (count_eq 44) (map (join_keep_last 44) tss) = map len tss).
  { rewrite map_map. clear - Hsep. subst all. revert Hsep.
    induction tss as [|ts tss IH]; intros Hsep; [reflexivity|].
    cbn [concat] in Hsep. apply Forall_app in Hsep. destruct Hsep as [S1 S2].
    cbn [map]. rewrite (IH S2). f_equal. apply count_join. exact S1. }
  rewrite Ecount.
  assert (Elen : map len tss = map len vss).
  { clear - H. induction H as [|ts vs tss vss Hr _ IH]; [reflexivity|]. cbn [map]. rewrite IH. f_equal.
    clear - Hr. induction Hr as [|? ? ? ? _ _ IH]; [reflexivity|]. rewrite !len_cons, IH. reflexivity. }
  destruct all as [|t0 all'] eqn:Eall.
  - (* no numbers at all: every row is empty — excluded, so there are no rows *)
    assert (Ev : concat vss = []) by (inversion Hall; reflexivity).
    assert (Et : tss = []).
    { destruct tss as [|ts tss']; [reflexivity|]. exfalso. inversion Hne as [|? ? Hts _]; subst.
      destruct ts; [congruence|]. subst all. discriminate. }
    subst tss. inversion H; subst. destruct fixed; reflexivity.
  - rewrite <- Eall in *. rewrite split_on_intercalate by (try exact Hsep; rewrite Eall; discriminate).
    fold nonempty_piece. rewrite filter_nonempty_all by exact Hnonempty.
    rewrite (str_to_int_exact all (concat vss) Hall).
    assert (Eitems : (if fixed then map (fun ps => len (filter nonempty_piece ps)) (split_rows (map len tss) all)
                      else map len tss) = map len vss).
    { destruct fixed; [|exact Elen]. subst all. rewrite split_rows_concat. rewrite <- Elen.
      apply map_ext_in. intros ts Hin. f_equal. apply filter_nonempty_all.
      clear - Hnonempty Hin. apply Forall_forall. intros t Ht. rewrite Forall_forall in Hnonempty. apply Hnonempty.
      apply in_concat. exists ts. split; assumption. }
    rewrite Eitems. rewrite Eall at 1. rewrite split_rows_concat. reflexivity.
Qed.

(* ---------- T3a for the two formatters ---------- *)
Lemma int_lists_gen_ext fmt1 fmt2 sep rows : fmt1 (concat rows) = fmt2 (concat rows) ->
  int_lists_to_strings_gen fmt1 sep rows = int_lists_to_strings_gen fmt2 sep rows.
Proof. intros E. unfold int_lists_to_strings_gen. rewrite E. reflexivity. Qed.
Theorem int_lists_join sep rows :
  int_lists_to_strings sep rows = map (fun r => intercalate [sep] (ints_to_strings r)) rows.
Proof.
  unfold int_lists_to_strings.
  rewrite (int_lists_gen_ext ints_to_strings (map (int_text width_exact Z.abs pow10_u64)) sep rows)
    by (apply ints_to_strings_gen_map; apply width_exact_ge1).
  rewrite int_lists_rowwise. apply map_ext. intros r. f_equal. symmetry.
  apply ints_to_strings_gen_map. apply width_exact_ge1.
Qed.
Theorem int_lists_join_pinned sep rows :
  int_lists_to_strings_pinned sep rows = map (fun r => intercalate [sep] (ints_to_strings_pinned r)) rows.
Proof.
  unfold int_lists_to_strings_pinned.
  rewrite (int_lists_gen_ext ints_to_strings_pinned (map (int_text width_log10 abs_i64 pow10_i64)) sep rows)
    by (apply ints_to_strings_gen_map; apply width_log10_ge1).
  rewrite int_lists_rowwise. apply map_ext. intros r. f_equal. symmetry.
  apply ints_to_strings_gen_map. apply width_log10_ge1.
Qed.

(* ---------- T3b, full: the repaired list-column parser on columns that may contain empty lists ---------- *)
Definition pieces_of (ts : list (list Z)) : list (list Z) := match ts with [] => [[]] | _ => ts end.
Lemma field_join ts : intercalate [44] ts ++ [44] = join_keep_last 44 (pieces_of ts).
Proof. destruct ts as [|t ts]; [reflexivity|]. apply join_of_intercalate. discriminate. Qed.
Lemma filter_pieces_of ts : Forall (fun t => t <> []) ts -> filter nonempty_piece (pieces_of ts) = ts.
Proof. intros H. destruct ts as [|t ts]; [reflexivity|]. apply filter_nonempty_all. exact H. Qed.
Lemma filter_concat {A} (p : A -> bool) : forall (ls : list (list A)), filter p (concat ls) = concat (map (filter p) ls).
Proof. induction ls as [|l ls IH]; [reflexivity|]. cbn [concat map]. rewrite filter_app, IH. reflexivity. Qed.
Lemma pieces_nosep ts : Forall (fun t => ~ In 44 t) ts -> Forall (fun t => ~ In 44 t) (pieces_of ts).
Proof. intros H. destruct ts; [constructor; [intros []|constructor]|exact H]. Qed.
Lemma Forall_concat {A} (P : A -> Prop) (ls : list (list A)) : Forall (Forall P) ls -> Forall P (concat ls).
Proof. induction 1 as [|l ls Hl _ IH]; [constructor|]. cbn [concat]. apply Forall_app. split; assumption. Qed.

Theorem parse_split_ints_fixed_exact : forall tss vss,
  Forall2 (Forall2 valid_int) tss vss ->
  parse_split_ints 44 (map (intercalate [44]) tss) = Some vss.
Proof.
  intros tss vss H. unfold parse_split_ints, parse_split_ints_gen.
  destruct tss as [|ts0 tss0] eqn:Etss.
  { inversion H; subst. reflexivity. }
  assert (Hnil : tss <> []) by (rewrite Etss; discriminate).
  rewrite <- Etss in *. clear Etss.
  assert (Hrows : Forall (fun ts => Forall (fun t => ~ In 44 t) ts /\ Forall (fun t => t <> []) ts) tss).
  { clear - H. induction H as [|ts vs tss vss Hr _ IH]; constructor; [|exact IH].
    clear - Hr. induction Hr as [|t v ts vs [Hv _] _ [I1 I2]]; [split; constructor|].
    pose proof (text_value_no_comma t v Hv) as [A B]. split; constructor; assumption. }
  set (pss := map pieces_of tss).
  assert (Etext : map (fun f => f ++ [44]) (map (intercalate [44]) tss) = map (join_keep_last 44) pss).
  { subst pss. rewrite !map_map. apply map_ext. intros ts. apply field_join. }
  rewrite Etext.
  assert (Ecat : concat (map (join_keep_last 44) pss) = join_keep_last 44 (concat pss)).
  { unfold join_keep_last. rewrite concat_map, <- concat_concat', map_map. reflexivity. }
  rewrite Ecat, removelast_join.
  assert (Hps : Forall (fun t => ~ In 44 t) (concat pss)).
  { apply Forall_concat. subst pss. apply Forall_map. eapply Forall_impl; [|exact Hrows].
    intros ts [A _]. apply pieces_nosep. exact A. }
  assert (Hne : concat pss <> []).
  { subst pss. destruct tss as [|ts tss']; [congruence|].
    cbn [map concat]. destruct ts; discriminate. }
  rewrite split_on_intercalate by assumption.
  assert (Ecount : map (count_eq 44) (map (join_keep_last 44) pss) = map len pss).
  { rewrite map_map. apply map_ext_in. intros ps Hin. apply count_join.
    subst pss. apply in_map_iff in Hin. destruct Hin as [ts [E Hin]]. subst ps.
    rewrite Forall_forall in Hrows. apply pieces_nosep. apply (Hrows ts Hin). }
  rewrite Ecount. rewrite split_rows_concat.
  assert (Efilter : filter nonempty_piece (concat pss) = concat tss).
  { rewrite filter_concat. subst pss. rewrite map_map. f_equal.
    rewrite <- (map_id tss) at 2. apply map_ext_in. intros ts Hin.
    rewrite Forall_forall in Hrows. apply filter_pieces_of. apply (Hrows ts Hin). }
  rewrite Efilter.
  assert (Eitems : map (fun ps => len (filter nonempty_piece ps)) pss = map len vss).
  { subst pss. rewrite map_map. clear - H Hrows.
    induction H as [|ts vs tss vss Hr _ IH]; [reflexivity|].
    inversion Hrows as [|? ? [_ Hn] Hrows']; subst. cbn [map]. rewrite (IH Hrows'). f_equal.
    rewrite filter_pieces_of by exact Hn.
    clear - Hr. induction Hr as [|? ? ? ? _ _ IH]; [reflexivity|]. rewrite !len_cons, IH. reflexivity. }
  rewrite Eitems.
  assert (Hall : Forall2 valid_int (concat tss) (concat vss)).
  { clear - H. induction H as [|ts vs tss vss Hr _ IH]; [constructor|]. cbn [concat]. apply Forall2_app; assumption. }
  assert (Evals : (match concat tss with [] => Some [] | _ => str_to_int_rows (concat tss) end) = Some (concat vss)).
  { destruct (concat tss) eqn:E; [inversion Hall; reflexivity|]. rewrite <- E in *. apply str_to_int_exact. exact Hall. }
  rewrite Evals. rewrite split_rows_concat. reflexivity.
Qed.

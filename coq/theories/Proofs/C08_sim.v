(* Proofs/C08_sim.v — T7: contingency table, Jaccard, Forbes and unique_intersect equal the values
   computed from per-base coverage (corollaries of T2). *)
From Coq Require Import ZArith List Bool Lia Arith Permutation.
From BNP Require Import Base.Prims Base.PrimsFacts Model.C08 Proofs.C08 Proofs.C08_merge.
Import ListNotations.
Open Scope Z_scope.

Lemma zip_with_map2 {X U V W} (g : U -> V -> W) (f : X -> U) (h : X -> V) l :
  zip_with g (map f l) (map h l) = map (fun x => g (f x) (h x)) l.
Proof. induction l as [|a l IH]; simpl; [reflexivity|]. rewrite IH. reflexivity. Qed.
Lemma count_true_map {X} (f : X -> bool) l : count_true (map f l) = sumZ (map (fun x => b2z (f x)) l).
Proof. unfold count_true. rewrite map_map. reflexivity. Qed.

Lemma sumZ_cons a l : sumZ (a :: l) = a + sumZ l. Proof. reflexivity. Qed.

Section Counts.
Variables (f g : Z -> bool) (l : list Z).
Let cnt (h : Z -> bool) := sumZ (map (fun x => b2z (h x)) l).
Lemma cnt_split_l : cnt (fun x => f x && g x) + cnt (fun x => f x && negb (g x)) = cnt f.
Proof. unfold cnt. induction l as [|a t IH]; [reflexivity|]. cbv zeta in IH. cbn [map]. rewrite !sumZ_cons. destruct (f a), (g a); cbn [andb negb orb b2z]; lia. Qed.
Lemma cnt_split_r : cnt (fun x => f x && g x) + cnt (fun x => negb (f x) && g x) = cnt g.
Proof. unfold cnt. induction l as [|a t IH]; [reflexivity|]. cbv zeta in IH. cbn [map]. rewrite !sumZ_cons. destruct (f a), (g a); cbn [andb negb orb b2z]; lia. Qed.
Lemma cnt_union : cnt (fun x => f x && g x) + cnt (fun x => f x && negb (g x)) + cnt (fun x => negb (f x) && g x)
                  = cnt (fun x => f x || g x).
Proof. unfold cnt. induction l as [|a t IH]; [reflexivity|]. cbv zeta in IH. cbn [map]. rewrite !sumZ_cons. destruct (f a), (g a); cbn [andb negb orb b2z]; lia. Qed.
Lemma cnt_total : cnt (fun x => f x && g x) + cnt (fun x => f x && negb (g x)) + cnt (fun x => negb (f x) && g x)
                  + cnt (fun x => negb (f x) && negb (g x)) = len l.
Proof. unfold cnt, len. induction l as [|a t IH]; [reflexivity|]. cbv zeta in IH. cbn [map length]. rewrite !sumZ_cons. destruct (f a), (g a); cbn [andb negb orb b2z]; lia. Qed.
End Counts.

Lemma len_bases size : 0 <= size -> len (bases size) = size.
Proof. intros H. unfold len, bases, arange. rewrite arange_from_length. lia. Qed.

(* inside the contig; an interval may be empty (start = stop) *)
Definition wf_set (I : list iv) (size : Z) : Prop := forall i, In i I -> 0 <= fst i /\ fst i <= snd i /\ snd i <= size.

Lemma contingency_is_counts A B size : 0 <= size -> wf_set A size -> wf_set B size ->
  contingency_model A B size =
  Some (count_bases (fun x => covered A x && covered B x) size,
        count_bases (fun x => covered A x && negb (covered B x)) size,
        count_bases (fun x => negb (covered A x) && covered B x) size,
        count_bases (fun x => negb (covered A x) && negb (covered B x)) size).
Proof.
  intros Hs HA HB. unfold contingency_model.
  rewrite (mask_is_positive_coverage_gen A size Hs HA), (mask_is_positive_coverage_gen B size Hs HB).
  unfold mask_spec, count_bases. rewrite !zip_with_map2, !count_true_map. reflexivity.
Qed.

Lemma jaccard_is_per_base A B size : 0 <= size -> wf_set A size -> wf_set B size ->
  jaccard_model A B size = Some (jaccard_spec A B size).
Proof.
  intros Hs HA HB. unfold jaccard_model. rewrite (contingency_is_counts A B size Hs HA HB).
  unfold jaccard_spec, count_bases, m_jaccard_num, m_jaccard_den. f_equal. f_equal.
  rewrite <- (cnt_union (covered A) (covered B) (bases size)). lia.
Qed.
Lemma forbes_is_per_base A B size : 0 <= size -> wf_set A size -> wf_set B size ->
  forbes_model A B size = Some (forbes_spec A B size).
Proof.
  intros Hs HA HB. unfold forbes_model. rewrite (contingency_is_counts A B size Hs HA HB).
  unfold forbes_spec, count_bases, m_forbes_num, m_forbes_den. f_equal.
  pose proof (cnt_total (covered A) (covered B) (bases size)) as Ht. rewrite (len_bases size Hs) in Ht.
  pose proof (cnt_split_l (covered A) (covered B) (bases size)) as Hl.
  pose proof (cnt_split_r (covered A) (covered B) (bases size)) as Hr.
  cbv zeta in Ht, Hl, Hr. rewrite Ht, Hl, Hr. reflexivity.
Qed.

(* unique_intersect keeps exactly the intervals of A that share a base with B *)
Lemma nth_map_arange_from {T} (f : Z -> T) d : forall n p k, (k < n)%nat ->
  nth k (map f (arange_from p n)) d = f (p + Z.of_nat k).
Proof.
  induction n as [|n IH]; intros p k Hk; [lia|].
  destruct k as [|k]; cbn [arange_from map nth].
  - f_equal. lia.
  - rewrite IH by lia. f_equal. lia.
Qed.
Lemma filter_filter {T} (p q : T -> bool) l : filter p (filter q l) = filter (fun x => q x && p x) l.
Proof.
  induction l as [|a l IH]; [reflexivity|]. cbn [filter]. destruct (q a); cbn [filter andb]; [destruct (p a)|]; rewrite IH; reflexivity.
Qed.
(* unique_intersect: among the rows of A that have bases, exactly those sharing a base with B are kept (in order);
   every returned row is a row of A.  Rows without bases follow npstructures (see Model) and are outside the property. *)
Lemma unique_intersect_is_per_base A B size : 0 <= size -> wf_set B size -> wf_set A size ->
  exists out, unique_intersect_model A B size = Some out
    /\ filter (fun i => fst i <? snd i) out = unique_intersect_spec A B
    /\ (forall o, In o out -> In o A).
Proof.
  intros Hs HB HA. unfold unique_intersect_model. rewrite (mask_is_positive_coverage_gen B size Hs HB).
  eexists. split; [reflexivity|]. split; [|intros o Ho; apply filter_In in Ho; tauto].
  rewrite filter_filter. unfold unique_intersect_spec. apply filter_ext_in. intros a Ha. specialize (HA a Ha).
  unfold unique_keep. destruct (Z.eqb_spec (fst a) (snd a)) as [E|E].
  - replace (fst a <? snd a) with false by (symmetry; apply Z.ltb_ge; lia). rewrite andb_false_r.
    unfold span. replace (Z.to_nat (snd a - fst a)) with O by lia. reflexivity.
  - replace (fst a <? snd a) with true by (symmetry; apply Z.ltb_lt; lia). rewrite andb_true_r.
    apply bool_eq_iff. rewrite !existsb_exists. split; intros [x [Hx Hc]]; exists x; split; try exact Hx.
    + unfold span in Hx. apply In_arange_from in Hx.
      unfold nthd, mask_spec, bases, arange in Hc. rewrite nth_map_arange_from in Hc by lia.
      replace (0 + Z.of_nat (Z.to_nat x)) with x in Hc by lia. exact Hc.
    + unfold span in Hx. apply In_arange_from in Hx.
      unfold nthd, mask_spec, bases, arange. rewrite nth_map_arange_from by lia.
      replace (0 + Z.of_nat (Z.to_nat x)) with x by lia. exact Hc.
Qed.
(* the per-base reading "a row without bases shares no base, so it is not returned" is false of the library: *)
Lemma unique_intersect_empty_row_refuted :
  exists A B size, wf_set A size /\ wf_set B size /\ unique_intersect_model A B size <> Some (unique_intersect_spec A B).
Proof.
  exists [(4, 4)], [(3, 6)], 8. split; [|split].
  - intros i [E|[]]. subst. simpl. lia.
  - intros i [E|[]]. subst. simpl. lia.
  - vm_compute. discriminate.
Qed.

(* ---------- several contigs: the summed contingency tables are the genome-wide per-base counts ---------- *)
Definition genome_ok_prop (g : list contig) : Prop :=
  forall size a b, In (size, a, b) g -> 0 <= size /\ wf_set a size /\ wf_set b size.
Lemma genome_count_cons f size a b g : genome_count f ((size, a, b) :: g) = count_bases (f a b) size + genome_count f g.
Proof. reflexivity. Qed.
Lemma genome_size_cons size a b g : genome_size ((size, a, b) :: g) = size + genome_size g.
Proof. reflexivity. Qed.
Lemma genome_table_counts g : genome_ok_prop g ->
  genome_table g = Some (genome_count (fun a b x => covered a x && covered b x) g,
                         genome_count (fun a b x => covered a x && negb (covered b x)) g,
                         genome_count (fun a b x => negb (covered a x) && covered b x) g,
                         genome_count (fun a b x => negb (covered a x) && negb (covered b x)) g).
Proof.
  induction g as [|[[size a] b] g IH]; intros H; [reflexivity|].
  destruct (H size a b (or_introl eq_refl)) as [Hs [Ha Hb]].
  cbn [genome_table]. rewrite (contingency_is_counts a b size Hs Ha Hb).
  rewrite IH by (intros s' a' b' Hin; apply H; right; exact Hin). rewrite !genome_count_cons. reflexivity.
Qed.
Lemma genome_count_union g :
  genome_count (fun a b x => covered a x && covered b x) g + genome_count (fun a b x => covered a x && negb (covered b x)) g
  + genome_count (fun a b x => negb (covered a x) && covered b x) g = genome_count (fun a b x => covered a x || covered b x) g.
Proof.
  induction g as [|[[size a] b] g IH]; [reflexivity|]. rewrite !genome_count_cons. rewrite <- IH.
  pose proof (cnt_union (covered a) (covered b) (bases size)) as H. cbv beta zeta in H. unfold count_bases. cbv beta. lia.
Qed.
Lemma genome_count_left g :
  genome_count (fun a b x => covered a x && covered b x) g + genome_count (fun a b x => covered a x && negb (covered b x)) g
  = genome_count (fun a b x => covered a x) g.
Proof.
  induction g as [|[[size a] b] g IH]; [reflexivity|]. rewrite !genome_count_cons. rewrite <- IH.
  pose proof (cnt_split_l (covered a) (covered b) (bases size)) as H. cbv beta zeta in H. unfold count_bases. cbv beta. lia.
Qed.
Lemma genome_count_right g :
  genome_count (fun a b x => covered a x && covered b x) g + genome_count (fun a b x => negb (covered a x) && covered b x) g
  = genome_count (fun a b x => covered b x) g.
Proof.
  induction g as [|[[size a] b] g IH]; [reflexivity|]. rewrite !genome_count_cons. rewrite <- IH.
  pose proof (cnt_split_r (covered a) (covered b) (bases size)) as H. cbv beta zeta in H. unfold count_bases. cbv beta. lia.
Qed.
Lemma genome_count_total g : (forall size a b, In (size, a, b) g -> 0 <= size) ->
  genome_count (fun a b x => covered a x && covered b x) g + genome_count (fun a b x => covered a x && negb (covered b x)) g
  + genome_count (fun a b x => negb (covered a x) && covered b x) g
  + genome_count (fun a b x => negb (covered a x) && negb (covered b x)) g = genome_size g.
Proof.
  induction g as [|[[size a] b] g IH]; intros Hs; [reflexivity|]. rewrite !genome_count_cons, genome_size_cons.
  rewrite <- IH by (intros s' a' b' Hin; apply (Hs s' a' b'); right; exact Hin).
  pose proof (cnt_total (covered a) (covered b) (bases size)) as H. cbv zeta in H.
  rewrite (len_bases size (Hs size a b (or_introl eq_refl))) in H. cbv beta in H. unfold count_bases. cbv beta. lia.
Qed.
Lemma jaccard_genome_is_per_base g : genome_ok_prop g -> jaccard_genome_model g = Ret (jaccard_genome_spec g).
Proof.
  intros H. unfold jaccard_genome_model. rewrite (genome_table_counts g H). unfold of_option, jaccard_genome_spec, m_jaccard_num, m_jaccard_den.
  f_equal. f_equal. rewrite <- genome_count_union. lia.
Qed.
Lemma forbes_genome_is_per_base g : genome_ok_prop g -> forbes_genome_model g = Ret (forbes_genome_spec g).
Proof.
  intros H. unfold forbes_genome_model. rewrite (genome_table_counts g H). unfold of_option, forbes_genome_spec, m_forbes_num, m_forbes_den.
  assert (Hs : forall size a b, In (size, a, b) g -> 0 <= size) by (intros s a b Hin; apply (H s a b Hin)).
  rewrite (genome_count_total g Hs), genome_count_left, genome_count_right. reflexivity.
Qed.

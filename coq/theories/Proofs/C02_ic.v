(* Proofs/C02_ic.v — GFF3 / wig: DelimitedBufferWithInernalComments (Model.ic_table, the repaired code 8e02024 / 635f0b1).
   Comment lines ('#' first, any bytes but LF, TABs included) interleaved with records of n TAB-separated fields: the
   delimiter scan ignores TABs of comment lines, the LF before a comment line is deleted from the start delimiters and the
   LF that ends it from the end delimiters; what is left is the start / end table of the records alone. *)
From Coq Require Import ZArith List Bool Lia Arith.
From BNP Require Import Base.Prims Base.PrimsFacts Base.C02Lib Model.C02 Proofs.C02_table Proofs.C02_int Proofs.C02_misc
  Proofs.C02_e2e Proofs.C02_fmt Proofs.C02_lines Proofs.C02_fasta.
Import ListNotations.
Open Scope Z_scope.

Definition hd0c (p : fcell) : Z := hd0 (fst p ++ [snd p]).
(* which cells are comment lines: the cell starts a line and its first byte is '#' *)
Fixpoint tags_of (prev_lf : bool) (cells : list fcell) : list bool :=
  match cells with [] => [] | c :: r => (prev_lf && (hd0c c =? 35)) :: tags_of (snd c =? 10) r end.
Fixpoint wf_cells (prev_lf : bool) (cells : list fcell) : Prop :=
  match cells with
  | [] => True
  | c :: r => (if prev_lf && (hd0c c =? 35) then ~ In 10 (fst c) /\ snd c = 10
               else (forall x, In x (fst c) -> x <> 9 /\ x <> 10) /\ (snd c = 9 \/ snd c = 10))
              /\ wf_cells (snd c =? 10) r
  end.

(* ---------- part 1: the delimiter scan ---------- *)
Lemma ic_scan_comment f : forall i rest, ~ In 10 f -> ic_scan i false true (f ++ rest) = ic_scan (i + len f) false true rest.
Proof.
  induction f as [|c f IH]; intros i rest H.
  - simpl. rewrite len_nil. f_equal. lia.
  - simpl app. cbn [ic_scan]. destruct (Z.eqb_spec c 10) as [E|_]; [subst c; exfalso; apply H; left; reflexivity|].
    simpl negb. rewrite andb_false_r. simpl orb. cbv iota. simpl app. rewrite IH by (intro Hin; apply H; right; exact Hin).
    rewrite len_cons. f_equal. lia.
Qed.
Lemma ic_scan_clean f : forall i rest, (forall x, In x f -> x <> 9 /\ x <> 10) ->
  ic_scan i false false (f ++ rest) = ic_scan (i + len f) false false rest.
Proof.
  induction f as [|c f IH]; intros i rest H.
  - simpl. rewrite len_nil. f_equal. lia.
  - simpl app. cbn [ic_scan]. destruct (H c (or_introl eq_refl)) as [H9 H10].
    destruct (Z.eqb_spec c 10) as [E|_]; [congruence|]. destruct (Z.eqb_spec c 9) as [E|_]; [congruence|].
    simpl. rewrite IH by (intros x Hx; apply H; right; exact Hx). rewrite len_cons. f_equal. lia.
Qed.
Lemma ic_scan_start i prev inc l : l <> [] -> (prev = false -> inc = false) -> (prev = true -> hd0 l <> 35) ->
  ic_scan i prev inc l = ic_scan i false false l.
Proof.
  destruct l as [|c r]; [congruence|]. intros _ H1 H2. cbn [ic_scan].
  destruct prev.
  - simpl in H2. destruct (Z.eqb_spec c 35) as [E|_]; [exfalso; apply H2; auto|]. reflexivity.
  - rewrite H1 by reflexivity. reflexivity.
Qed.
Lemma hd0_app_ne (a b : list Z) : a <> [] -> hd0 (a ++ b) = hd0 a.
Proof. destruct a; [congruence|reflexivity]. Qed.

Lemma ic_scan_cells cells : forall o prev inc, (prev = false -> inc = false) -> wf_cells prev cells ->
  ic_scan o prev inc (flatten cells) = dpos o cells.
Proof.
  induction cells as [|c cells IH]; intros o prev inc Hinc Hwf; [reflexivity|].
  rewrite flatten_cons. cbn [wf_cells] in Hwf. destruct Hwf as [Hc Hwf]. cbn [dpos].
  destruct (prev && (hd0c c =? 35)) eqn:T.
  - apply andb_true_iff in T. destruct T as [Tp T35]. subst prev. apply Z.eqb_eq in T35. destruct Hc as [Hno Hd].
    unfold hd0c in T35. destruct (fst c) as [|x f] eqn:Ef.
    + simpl in T35. rewrite Hd in T35. discriminate.
    + simpl in T35. subst x. simpl app. cbn [ic_scan]. simpl.
      rewrite ic_scan_comment by (intro Hin; apply Hno; right; exact Hin).
      rewrite Hd. simpl app. cbn [ic_scan]. simpl. rewrite len_cons. f_equal; [lia|].
      rewrite (IH (o + 1 + len f + 1) true true) by (try discriminate; rewrite Hd in Hwf; exact Hwf). f_equal. lia.
  - destruct Hc as [Hcl Hd].
    rewrite (ic_scan_start o prev inc).
    + rewrite ic_scan_clean by exact Hcl. simpl app. cbn [ic_scan].
      assert (Hdel : (snd c =? 10) || (snd c =? 9) && negb false = true) by (destruct Hd as [E|E]; rewrite E; reflexivity).
      rewrite Hdel. simpl app. f_equal.
      rewrite (IH (o + len (fst c) + 1) (snd c =? 10) false) by (auto). reflexivity.
    + destruct (fst c); discriminate.
    + exact Hinc.
    + intros Ep. subst prev. simpl in T. apply Z.eqb_neq in T. unfold hd0c in T.
      rewrite app_assoc, hd0_app_ne by (destruct (fst c); discriminate). exact T.
Qed.

(* ---------- part 2: "this line break is followed by '#'" along the delimiter list ---------- *)
Definition Pd (data : list Z) (d : Z) : bool := (nthZ data d =? 10) && (nthZ data (d + 1) =? 35).
Lemma nthZ_hd (A B C : list Z) : B <> [] -> nthZ (A ++ B ++ C) (len A) = hd0 B.
Proof. destruct B as [|b B]; [congruence|]. intros _. simpl. apply nthZ_mid. Qed.

Lemma P_scan cells : forall pre post prev,
  map (Pd (pre ++ flatten cells ++ post)) (removelast (dpos (len pre) cells)) = tl (tags_of prev cells).
Proof.
  induction cells as [|c cells IH]; intros pre post prev; [reflexivity|].
  destruct cells as [|c' rest]; [reflexivity|].
  remember (c' :: rest) as cs eqn:Ecs.
  cbn [dpos tags_of tl].
  assert (Hne : dpos (len pre + len (fst c) + 1) cs <> []) by (subst cs; discriminate).
  replace (removelast (len pre + len (fst c) :: dpos (len pre + len (fst c) + 1) cs))
    with (len pre + len (fst c) :: removelast (dpos (len pre + len (fst c) + 1) cs))
    by (destruct (dpos (len pre + len (fst c) + 1) cs); [congruence|reflexivity]).
  cbn [map].
  specialize (IH (pre ++ fst c ++ [snd c]) post (snd c =? 10)).
  replace (len (pre ++ fst c ++ [snd c])) with (len pre + len (fst c) + 1) in IH by (rewrite !len_app, len_single; lia).
  rewrite flatten_cons.
  replace (pre ++ (fst c ++ [snd c] ++ flatten cs) ++ post) with ((pre ++ fst c ++ [snd c]) ++ flatten cs ++ post)
    by (rewrite <- !app_assoc; reflexivity).
  rewrite IH. subst cs. cbn [tags_of tl]. f_equal.
  unfold Pd. f_equal.
  - f_equal. rewrite flatten_cons.
    replace ((pre ++ fst c ++ [snd c]) ++ (fst c' ++ [snd c'] ++ flatten rest) ++ post)
      with ((pre ++ fst c) ++ snd c :: ((fst c' ++ [snd c'] ++ flatten rest) ++ post)) by (rewrite <- !app_assoc; reflexivity).
    rewrite <- len_app. apply nthZ_mid.
  - f_equal. rewrite flatten_cons.
    replace ((pre ++ fst c ++ [snd c]) ++ (fst c' ++ [snd c'] ++ flatten rest) ++ post)
      with ((pre ++ fst c ++ [snd c]) ++ (fst c' ++ [snd c']) ++ (flatten rest ++ post)) by (rewrite <- !app_assoc; reflexivity).
    replace (len pre + len (fst c) + 1) with (len (pre ++ fst c ++ [snd c])) by (rewrite !len_app, len_single; lia).
    rewrite nthZ_hd by (destruct (fst c'); discriminate). reflexivity.
Qed.

(* ---------- part 3: np.delete by those indices ---------- *)
Fixpoint dropt (tags : list bool) (l : list Z) : list Z :=
  match tags, l with
  | t :: ts, x :: r => (if t then [] else [x]) ++ dropt ts r
  | [], _ => l
  | _, [] => []
  end.
Lemma delete_from_lt l : forall o idx, (forall x, In x idx -> x < o) -> delete_from o idx l = l.
Proof.
  induction l as [|x l IH]; intros o idx H; [reflexivity|]. cbn [delete_from].
  rewrite existsb_eqb_false by (intros y Hy; apply H in Hy; lia). simpl. f_equal. apply IH. intros y Hy. apply H in Hy. lia.
Qed.
Lemma del_fnz l : forall bs o extra, (forall x, In x extra -> x < o) ->
  delete_from o (extra ++ flatnonzero_from o bs) l = dropt bs l.
Proof.
  induction l as [|x l IH]; intros bs o extra Hex.
  - destruct bs; reflexivity.
  - destruct bs as [|b bs].
    + simpl flatnonzero_from. rewrite app_nil_r. apply delete_from_lt. exact Hex.
    + cbn [delete_from flatnonzero_from dropt].
      assert (Htest : existsb (Z.eqb o) (extra ++ (if b then [o] else []) ++ flatnonzero_from (o + 1) bs) = b).
      { rewrite !existsb_app. rewrite (existsb_eqb_false o extra) by (intros y Hy; apply Hex in Hy; lia).
        rewrite (existsb_eqb_false o (flatnonzero_from (o + 1) bs)) by (intros y Hy; apply fnz_ge in Hy; lia).
        destruct b; simpl; [rewrite Z.eqb_refl; reflexivity|reflexivity]. }
      rewrite Htest. rewrite app_assoc. rewrite IH.
      * destruct b; reflexivity.
      * intros y Hy. apply in_app_or in Hy. destruct Hy as [Hy|Hy]; [apply Hex in Hy; lia|].
        destruct b; [destruct Hy as [E|[]]; lia|contradiction].
Qed.
Lemma dropt_ne bs : forall l, length l = S (length bs) -> dropt bs l <> [].
Proof.
  induction bs as [|b bs IH]; intros l H.
  - destruct l; [discriminate|]. simpl. discriminate.
  - destruct l as [|x l]; [discriminate|]. simpl in H. cbn [dropt]. intro E. apply app_eq_nil in E. destruct E as [_ E].
    apply (IH l); [lia|exact E].
Qed.
Lemma dropt_removelast bs : forall l, length l = S (length bs) -> removelast (dropt bs l) = dropt bs (removelast l).
Proof.
  induction bs as [|b bs IH]; intros l H.
  - destruct l as [|x [|y l]]; try discriminate. reflexivity.
  - destruct l as [|x l]; [discriminate|]. simpl in H. cbn [dropt].
    assert (Hl : l <> []) by (destruct l; [simpl in H; lia|discriminate]).
    rewrite removelast_app by (apply dropt_ne; lia). rewrite IH by lia.
    replace (removelast (x :: l)) with (x :: removelast l) by (destruct l; [congruence|reflexivity]). reflexivity.
Qed.
Lemma dropt_map (f : Z -> Z) bs : forall l, map f (dropt bs l) = dropt bs (map f l).
Proof.
  induction bs as [|b bs IH]; intros l; [destruct l; reflexivity|]. destruct l as [|x l]; [reflexivity|].
  cbn [dropt map]. rewrite map_app, IH. destruct b; reflexivity.
Qed.
Lemma dropt_app t1 t2 l1 l2 : length t1 = length l1 -> dropt (t1 ++ t2) (l1 ++ l2) = dropt t1 l1 ++ dropt t2 l2.
Proof.
  revert l1. induction t1 as [|t t1 IH]; intros l1 H.
  - destruct l1; [|discriminate]. simpl. destruct t2; reflexivity.
  - destruct l1 as [|x l1]; [discriminate|]. simpl in H. simpl app. cbn [dropt]. rewrite IH by lia. rewrite app_assoc. reflexivity.
Qed.
Lemma dropt_true k : forall l, length l = k -> dropt (repeat true k) l = [].
Proof. induction k as [|k IH]; intros l H; destruct l; try discriminate; [reflexivity|]. simpl. apply IH. simpl in H. lia. Qed.
Lemma dropt_false k : forall l, length l = k -> dropt (repeat false k) l = l.
Proof. induction k as [|k IH]; intros l H; destruct l; try discriminate; [reflexivity|]. simpl. f_equal. apply IH. simpl in H. lia. Qed.

(* ---------- part 4: comment lines and records as cells ---------- *)
Definition ccells (crlf : bool) (cs : list (list Z)) : list fcell := map (fun c => (c ++ crb crlf, 10)) cs.
Definition group := (list (list Z) * list (list Z))%type.     (* comment lines before the record, the record's fields *)
Definition gcells (crlf : bool) (g : group) : list fcell := ccells crlf (fst g) ++ row_cells crlf (snd g).
Definition acells (crlf : bool) (gs : list group) (tr : list (list Z)) : list fcell :=
  concat (map (gcells crlf) gs) ++ ccells crlf tr.
Definition comment_ok (c : list Z) : Prop := hd0 c = 35 /\ forall x, In x c -> x <> 10 /\ x <> 13.
Definition row_ok (r : list (list Z)) : Prop := r <> [] /\ (forall f, In f r -> clean f) /\ hd0 (hd [] r) <> 35.

Lemma acells_cons crlf g gs tr : acells crlf (g :: gs) tr = ccells crlf (fst g) ++ row_cells crlf (snd g) ++ acells crlf gs tr.
Proof. unfold acells, gcells. simpl. rewrite <- !app_assoc. reflexivity. Qed.
Lemma crb_in crlf x : In x (crb crlf) -> x = 13.
Proof. destruct crlf; simpl; [intros [E|[]]; auto|contradiction]. Qed.

Lemma tags_ccells crlf cs rest : (forall c, In c cs -> comment_ok c) ->
  tags_of true (ccells crlf cs ++ rest) = repeat true (length cs) ++ tags_of true rest.
Proof.
  induction cs as [|c cs IH]; intros H; [reflexivity|]. simpl. destruct (H c (or_introl eq_refl)) as [H35 _].
  unfold hd0c. cbn [fst snd]. destruct c as [|x c]; [simpl in H35; discriminate|]. simpl in *. subst x. simpl. f_equal.
  apply IH. intros q Hq. apply H. right. exact Hq.
Qed.
Lemma wf_ccells crlf cs rest : (forall c, In c cs -> comment_ok c) -> wf_cells true rest -> wf_cells true (ccells crlf cs ++ rest).
Proof.
  induction cs as [|c cs IH]; intros H Hr; [exact Hr|]. simpl. destruct (H c (or_introl eq_refl)) as [H35 Hcl].
  unfold hd0c. cbn [fst snd]. destruct c as [|x c]; [simpl in H35; discriminate|]. simpl in H35. subst x. simpl. split.
  - split; [|reflexivity]. intros [E|Hin]; [discriminate|]. apply in_app_or in Hin. destruct Hin as [Hin|Hin].
    + exact (proj1 (Hcl 10 (or_intror Hin)) eq_refl).
    + apply crb_in in Hin. discriminate.
  - apply IH; [intros q Hq; apply H; right; exact Hq|exact Hr].
Qed.

(* a record line: TAB cells, then the cell closed by LF; none of them is a comment *)
Lemma tags_tabrow fs : forall prev lastc rest,
  prev && (hd0c (hd lastc (map (fun f => (f, 9)) fs)) =? 35) = false ->
  tags_of prev (map (fun f => (f, 9)) fs ++ lastc :: rest) = repeat false (length fs + 1) ++ tags_of (snd lastc =? 10) rest.
Proof.
  induction fs as [|f fs IH]; intros prev lastc rest H.
  - simpl in *. rewrite H. reflexivity.
  - simpl map in *. simpl hd in H. simpl app. cbn [tags_of]. rewrite H. cbn [snd]. change (9 =? 10) with false.
    rewrite IH by reflexivity. reflexivity.
Qed.
Lemma wf_tabrow fs : forall prev lastc rest,
  prev && (hd0c (hd lastc (map (fun f => (f, 9)) fs)) =? 35) = false ->
  (forall f, In f fs -> clean f) -> (forall x, In x (fst lastc) -> x <> 9 /\ x <> 10) -> snd lastc = 10 ->
  wf_cells true rest -> wf_cells prev (map (fun f => (f, 9)) fs ++ lastc :: rest).
Proof.
  induction fs as [|f fs IH]; intros prev lastc rest H Hfs Hl Hd Hr.
  - simpl in *. rewrite H. split; [split; [exact Hl|right; exact Hd]|]. rewrite Hd. exact Hr.
  - simpl map in *. simpl hd in H. simpl app. cbn [wf_cells]. rewrite H. cbn [fst snd]. split.
    + split; [|left; reflexivity]. intros x Hx. destruct (Hfs f (or_introl eq_refl) x Hx) as [A [B _]]. split; assumption.
    + change (9 =? 10) with false. apply IH; try assumption; [reflexivity|]. intros q Hq. apply Hfs. right. exact Hq.
Qed.
Lemma row_first crlf r : row_ok r ->
  hd0c (hd (last r [] ++ crb crlf, 10) (map (fun f => (f, 9)) (removelast r))) =? 35 = false.
Proof.
  intros [Hne [_ H35]]. apply Z.eqb_neq. destruct r as [|f0 [|f1 r']]; [congruence| |].
  - simpl in *. unfold hd0c. cbn [fst snd]. destruct f0 as [|x f0]; [simpl; destruct crlf; simpl; discriminate|exact H35].
  - simpl hd in *. cbn [removelast map hd]. unfold hd0c. cbn [fst snd]. destruct f0 as [|x f0]; [simpl; discriminate|exact H35].
Qed.
Lemma tags_row crlf r rest : row_ok r ->
  tags_of true (row_cells crlf r ++ rest) = repeat false (length r) ++ tags_of true rest.
Proof.
  intros H. unfold row_cells. rewrite <- app_assoc. simpl app.
  rewrite tags_tabrow by (rewrite row_first by exact H; reflexivity). cbn [snd]. change (10 =? 10) with true.
  f_equal. f_equal. destruct H as [Hne _]. rewrite <- (removelast_last r []) at 2 by exact Hne. rewrite app_length. reflexivity.
Qed.
Lemma wf_row crlf r rest : row_ok r -> wf_cells true rest -> wf_cells true (row_cells crlf r ++ rest).
Proof.
  intros H Hr. unfold row_cells. rewrite <- app_assoc. simpl app. destruct H as [Hne [Hcl H35]].
  apply wf_tabrow; try assumption.
  - rewrite row_first by exact (conj Hne (conj Hcl H35)). reflexivity.
  - intros f Hf. apply Hcl. rewrite <- (removelast_last r []) by exact Hne. apply in_or_app. left. exact Hf.
  - cbn [fst]. intros x Hx. apply in_app_or in Hx. destruct Hx as [Hx|Hx].
    + assert (Hin : In (last r []) r) by (apply last_In; exact Hne). destruct (Hcl _ Hin x Hx) as [A [B _]]. split; assumption.
    + apply crb_in in Hx. subst x. split; discriminate.
  - reflexivity.
Qed.

Definition groups_ok (gs : list group) (tr : list (list Z)) : Prop :=
  (forall g, In g gs -> (forall c, In c (fst g) -> comment_ok c) /\ row_ok (snd g)) /\ (forall c, In c tr -> comment_ok c).

Fixpoint g_tags (gs : list group) (tr : list (list Z)) : list bool :=
  match gs with
  | [] => repeat true (length tr)
  | g :: rest => repeat true (length (fst g)) ++ repeat false (length (snd g)) ++ g_tags rest tr
  end.
Lemma tags_acells crlf gs tr : groups_ok gs tr -> tags_of true (acells crlf gs tr) = g_tags gs tr.
Proof.
  intros [Hg Ht]. induction gs as [|g gs IH].
  - unfold acells. simpl. rewrite <- (app_nil_r (ccells crlf tr)), tags_ccells by exact Ht. simpl. apply app_nil_r.
  - rewrite acells_cons. destruct (Hg g (or_introl eq_refl)) as [Hc Hr].
    rewrite tags_ccells by exact Hc. rewrite tags_row by exact Hr. rewrite IH by (intros q Hq; apply Hg; right; exact Hq). reflexivity.
Qed.
Lemma wf_acells crlf gs tr : groups_ok gs tr -> wf_cells true (acells crlf gs tr).
Proof.
  intros [Hg Ht]. induction gs as [|g gs IH].
  - unfold acells. simpl. rewrite <- (app_nil_r (ccells crlf tr)). apply wf_ccells; [exact Ht|exact I].
  - rewrite acells_cons. destruct (Hg g (or_introl eq_refl)) as [Hc Hr].
    apply wf_ccells; [exact Hc|]. apply wf_row; [exact Hr|]. apply IH. intros q Hq. apply Hg. right. exact Hq.
Qed.

(* positions (starts or delimiters) of the record cells only, row by row *)
Fixpoint g_rows (F : Z -> list fcell -> list Z) (crlf : bool) (o : Z) (gs : list group) : list (list Z) :=
  match gs with
  | [] => []
  | g :: rest => let o' := o + len (flatten (ccells crlf (fst g))) in
                 F o' (row_cells crlf (snd g)) :: g_rows F crlf (o' + len (flatten (row_cells crlf (snd g)))) rest
  end.
Section Positions.
  Variable F : Z -> list fcell -> list Z.
  Hypothesis F_app : forall o a b, F o (a ++ b) = F o a ++ F (o + len (flatten a)) b.
  Hypothesis F_len : forall o a, length (F o a) = length a.
  Lemma dropt_positions crlf gs tr : (forall g, In g gs -> snd g <> []) -> forall o,
    dropt (g_tags gs tr) (F o (acells crlf gs tr)) = concat (g_rows F crlf o gs).
  Proof.
    intros Hne. induction gs as [|g gs IH]; intros o.
    - unfold acells. simpl. apply dropt_true. rewrite F_len. unfold ccells. apply map_length.
    - rewrite acells_cons. cbn [g_tags g_rows concat]. rewrite !F_app.
      rewrite dropt_app by (rewrite F_len; unfold ccells; rewrite map_length, repeat_length; reflexivity).
      rewrite dropt_true by (rewrite F_len; unfold ccells; apply map_length). simpl app.
      rewrite dropt_app by (rewrite F_len, repeat_length, row_cells_length by (apply Hne; left; reflexivity); reflexivity).
      rewrite dropt_false by (rewrite F_len; apply row_cells_length; apply Hne; left; reflexivity).
      f_equal. apply IH. intros q Hq. apply Hne. right. exact Hq.
  Qed.
End Positions.

(* ---------- part 5: rows of the table ---------- *)
Lemma tags_length cells : forall p, length (tags_of p cells) = length cells.
Proof. induction cells as [|c cells IH]; intros p; [reflexivity|]. simpl. rewrite IH. reflexivity. Qed.

(* every row of g_rows is the position list of one record's cells inside the whole buffer *)
Lemma g_rows_in F crlf gs tr : forall pre post row, In row (g_rows F crlf (len pre) gs) ->
  exists g pre' post', In g gs /\ row = F (len pre') (row_cells crlf (snd g))
    /\ pre ++ flatten (acells crlf gs tr) ++ post = pre' ++ flatten (row_cells crlf (snd g)) ++ post'.
Proof.
  induction gs as [|g gs IH]; intros pre post row Hrow; [contradiction|].
  cbn [g_rows] in Hrow. rewrite acells_cons, !flatten_app. destruct Hrow as [E|Hrow].
  - exists g, (pre ++ flatten (ccells crlf (fst g))), (flatten (acells crlf gs tr) ++ post).
    split; [left; reflexivity|]. split; [rewrite len_app; symmetry; exact E|]. rewrite <- !app_assoc. reflexivity.
  - specialize (IH (pre ++ flatten (ccells crlf (fst g)) ++ flatten (row_cells crlf (snd g))) post row).
    rewrite !len_app in IH. rewrite Z.add_assoc in IH. destruct (IH Hrow) as [g' [pre' [post' [Hin [E1 E2]]]]].
    exists g', pre', post'. split; [right; exact Hin|]. split; [exact E1|]. rewrite <- E2, <- !app_assoc. reflexivity.
Qed.

Lemma row_cr r pre post : r <> [] ->
  let e := lastz (dpos (len pre) (row_cells true r)) in
  1 <= e /\ nthZ (pre ++ flatten (row_cells true r) ++ post) (e - 1) = 13.
Proof.
  intros Hne e. unfold e. rewrite dpos_row_split by exact Hne.
  set (init := map (fun f => (f, 9)) (removelast r)). unfold lastz. rewrite last_app_single.
  unfold crb. rewrite len_app, len_single.
  pose proof (len_nonneg pre). pose proof (len_nonneg (flatten init)). pose proof (len_nonneg (last r [])). split; [lia|].
  unfold row_cells. fold init. rewrite flatten_app, flatten_single. unfold crb.
  replace (pre ++ (flatten init ++ (last r [] ++ [13]) ++ [10]) ++ post)
    with ((pre ++ flatten init ++ last r []) ++ 13 :: ([10] ++ post)) by (rewrite <- !app_assoc; reflexivity).
  replace (len pre + len (flatten init) + (len (last r []) + 1) - 1) with (len (pre ++ flatten init ++ last r []))
    by (rewrite !len_app; lia).
  apply nthZ_mid.
Qed.

Lemma in_acells crlf gs tr p : In p (acells crlf gs tr) ->
  (exists c, (In c tr \/ exists g, In g gs /\ In c (fst g)) /\ p = (c ++ crb crlf, 10))
  \/ (exists g, In g gs /\ In p (row_cells crlf (snd g))).
Proof.
  unfold acells. intros H. apply in_app_or in H. destruct H as [H|H].
  - apply in_concat in H. destruct H as [x [Hx Hp]]. apply in_map_iff in Hx. destruct Hx as [g [E Hg]]. subst x.
    unfold gcells in Hp. apply in_app_or in Hp. destruct Hp as [Hp|Hp].
    + left. unfold ccells in Hp. apply in_map_iff in Hp. destruct Hp as [c [E Hc]]. exists c. split; [right; exists g; auto|auto].
    + right. exists g. auto.
  - left. unfold ccells in H. apply in_map_iff in H. destruct H as [c [E Hc]]. exists c. split; [left; exact Hc|auto].
Qed.
Lemma acells_lf_no_cr gs tr : groups_ok gs tr -> forall c, In c (flatten (acells false gs tr)) -> c <> 13.
Proof.
  intros [Hg Ht] c Hc. apply in_flatten in Hc. destruct Hc as [p [Hp Hc]].
  apply in_acells in Hp. destruct Hp as [[cm [Hcm E]]|[g [Hgin Hp]]].
  - subst p. cbn [fst snd] in Hc. destruct Hc as [Hc|Hc]; [|subst c; discriminate]. simpl in Hc. rewrite app_nil_r in Hc.
    assert (Hok : comment_ok cm) by (destruct Hcm as [Hcm|[g [Hgin Hcm]]]; [apply Ht; exact Hcm|apply (Hg g Hgin); exact Hcm]).
    exact (proj2 (proj2 Hok c Hc)).
  - destruct (Hg g Hgin) as [_ [Hne [Hcl _]]].
    apply (lf_no_cr [snd g]).
    + intros r [E|[]]. subst r. split; assumption.
    + unfold all_cells. simpl. rewrite app_nil_r. unfold flatten. apply in_concat. exists (fst p ++ [snd p]). split.
      * apply in_map_iff. exists p. split; [reflexivity|exact Hp].
      * apply in_or_app. destruct Hc as [Hc|Hc]; [left; exact Hc|right; left; symmetry; exact Hc].
Qed.

Lemma cr_adjust_groups crlf gs tr : gs <> [] -> groups_ok gs tr ->
  cr_adjust (flatten (acells crlf gs tr)) (g_rows dpos crlf 0 gs) = map (adj crlf) (g_rows dpos crlf 0 gs).
Proof.
  intros Hgs Hok. destruct crlf.
  - assert (Hall : forall row, In row (g_rows dpos true 0 gs) ->
               1 <= lastz row /\ nthZ (flatten (acells true gs tr)) (lastz row - 1) = 13).
    { intros row Hin. destruct (g_rows_in dpos true gs tr [] [] row Hin) as [g [pre' [post' [Hg [E1 E2]]]]].
      rewrite app_nil_r in E2. simpl app in E2. rewrite E2, E1. apply row_cr. apply (proj1 Hok g Hg). }
    unfold cr_adjust, m_cr_probe, m_cr_adjust, m_cr_byte. destruct gs as [|g gs]; [congruence|].
    cbn [g_rows]. cbn [g_rows] in Hall.
    destruct (Hall _ (or_introl eq_refl)) as [H1 H13].
    set (file := flatten (acells true (g :: gs) tr)) in *.
    set (r0 := dpos (0 + len (flatten (ccells true (fst g)))) (row_cells true (snd g))) in *.
    assert (Hlen : len file <> 0).
    { intro E. apply len_zero_nil in E. unfold nthZ in H13. rewrite E in H13. destruct (Z.to_nat (lastz r0 - 1)); discriminate. }
    destruct (Z.eqb_spec (len file) 0); [congruence|].
    destruct (Z.eqb_spec (lastz r0) 0); [lia|]. simpl orb. cbv iota.
    rewrite H13. rewrite Z.eqb_refl.
    apply map_ext_in. intros row Hin. destruct (Hall row Hin) as [Ha Hb].
    unfold adj, py_get. destruct (Z.ltb_spec (lastz row - 1) 0); [lia|]. rewrite Hb, Z.eqb_refl. reflexivity.
  - unfold adj. rewrite map_id. unfold cr_adjust, m_cr_probe, m_cr_byte.
    destruct (g_rows dpos false 0 gs) as [|r0 rest] eqn:E; [reflexivity|].
    destruct ((len (flatten (acells false gs tr)) =? 0) || (lastz r0 =? 0)); [reflexivity|].
    destruct (Z.eqb_spec (nthZ (flatten (acells false gs tr)) (lastz r0 - 1)) 13) as [E13|]; [|reflexivity].
    exfalso. destruct (nthZ_In_or_0 (flatten (acells false gs tr)) (lastz r0 - 1)) as [Hin|H0]; [|lia].
    apply (acells_lf_no_cr gs tr Hok _ Hin). exact E13.
Qed.

Lemma groups_texts crlf gs tr : (forall g, In g gs -> snd g <> []) -> forall pre post,
  map (fun se => map (fun p => slice (fst p) (snd p) (pre ++ flatten (acells crlf gs tr) ++ post)) (combine (fst se) (snd se)))
      (combine (g_rows spos crlf (len pre) gs) (map (adj crlf) (g_rows dpos crlf (len pre) gs))) = map snd gs.
Proof.
  induction gs as [|g gs IH]; intros H pre post; [reflexivity|].
  assert (Hne : snd g <> []) by (apply H; left; reflexivity).
  cbn [g_rows map combine fst snd]. f_equal.
  - rewrite acells_cons, !flatten_app.
    replace (pre ++ (flatten (ccells crlf (fst g)) ++ flatten (row_cells crlf (snd g)) ++ flatten (acells crlf gs tr)) ++ post)
      with ((pre ++ flatten (ccells crlf (fst g))) ++ flatten (row_cells crlf (snd g)) ++ (flatten (acells crlf gs tr) ++ post))
      by (rewrite <- !app_assoc; reflexivity).
    rewrite <- len_app. apply row_texts. exact Hne.
  - specialize (IH (fun q Hq => H q (or_intror Hq)) (pre ++ flatten (ccells crlf (fst g)) ++ flatten (row_cells crlf (snd g))) post).
    rewrite !len_app, Z.add_assoc in IH. rewrite acells_cons, !flatten_app.
    replace (pre ++ (flatten (ccells crlf (fst g)) ++ flatten (row_cells crlf (snd g)) ++ flatten (acells crlf gs tr)) ++ post)
      with ((pre ++ flatten (ccells crlf (fst g)) ++ flatten (row_cells crlf (snd g))) ++ flatten (acells crlf gs tr) ++ post)
      by (rewrite <- !app_assoc; reflexivity).
    exact IH.
Qed.

Lemma find_index_app p l1 : forall i x l2, (forall y, In y l1 -> p y = false) -> p x = true ->
  find_index p i (l1 ++ x :: l2) = Some (i + len l1).
Proof.
  induction l1 as [|y l1 IH]; intros i x l2 H Hx.
  - simpl. rewrite Hx, len_nil. f_equal. lia.
  - simpl. rewrite (H y (or_introl eq_refl)). rewrite IH by (try exact Hx; intros z Hz; apply H; right; exact Hz).
    rewrite len_cons. f_equal. lia.
Qed.

Lemma acells_last crlf gs tr : gs <> [] -> (forall g, In g gs -> snd g <> []) ->
  exists cs' fl, acells crlf gs tr = cs' ++ [(fl, 10)].
Proof.
  intros Hgs Hne. destruct (exists_last Hgs) as [gs' [g E]]. subst gs.
  destruct tr as [|c0 tr0].
  - unfold acells. simpl ccells. rewrite app_nil_r, map_app, concat_app. simpl. rewrite app_nil_r.
    unfold gcells, row_cells. eexists. eexists. rewrite !app_assoc. reflexivity.
  - assert (Htr : c0 :: tr0 <> []) by discriminate. destruct (exists_last Htr) as [tr' [c E]]. rewrite E.
    exists (concat (map (gcells crlf) (gs' ++ [g])) ++ map (fun c => (c ++ crb crlf, 10)) tr'), (c ++ crb crlf).
    unfold acells, ccells. rewrite (map_app _ tr'), <- app_assoc. reflexivity.
Qed.

Lemma g_rows_length F crlf gs : forall o, length (g_rows F crlf o gs) = length gs.
Proof. induction gs as [|g gs IH]; intros o; [reflexivity|]. cbn [g_rows length]. rewrite IH. reflexivity. Qed.

(* ---------- the table ---------- *)
Theorem ic_table_correct : forall (crlf : bool) (n : Z) (gs : list group) (tr : list (list Z)),
  1 <= n -> gs <> [] -> groups_ok gs tr -> (forall g, In g gs -> len (snd g) = n) -> fst (hd ([], []) gs) = [] ->
  let file := flatten (acells crlf gs tr) in
  exists t, ic_table file = Some t /\ t_data t = file /\ table_fields t = map snd gs /\ len (t_starts t) = len gs
            /\ (forall row s, In row (t_starts t) -> In s row -> 0 <= s)
            /\ (forall row e, In row (t_ends t) -> In e row -> e < len file).
Proof.
  intros crlf n gs tr Hn Hgs Hok Hlen Hfirst file.
  assert (Hrne : forall g, In g gs -> snd g <> []) by (intros g Hg; apply (proj1 Hok g Hg)).
  set (cells := acells crlf gs tr).
  pose proof (tags_acells crlf gs tr Hok) as Htags. pose proof (wf_acells crlf gs tr Hok) as Hwf. fold cells in Htags, Hwf.
  set (D := dpos 0 cells). set (S := spos 0 cells).
  assert (Hscan : ic_scan 0 true false file = D) by (apply ic_scan_cells; [discriminate|exact Hwf]).
  destruct (acells_last crlf gs tr Hgs Hrne) as [cs' [fl Ecells]]. fold cells in Ecells.
  assert (Hcne : cells <> []) by (rewrite Ecells; destruct cs'; discriminate).
  assert (HfileA : file = (flatten cs' ++ fl) ++ [10]).
  { unfold file. fold cells. rewrite Ecells, flatten_app, flatten_single, app_assoc. reflexivity. }
  assert (Hpos : rev (positions 10 file) = (len file - 1) :: rev (positions 10 (flatten cs' ++ fl))).
  { rewrite HfileA. unfold positions, flatnonzero. rewrite map_app, flatnonzero_from_app, len_map.
    simpl map. simpl flatnonzero_from. rewrite rev_unit. f_equal.
    unfold len. rewrite !app_length. simpl. lia. }
  assert (Hfile1 : 1 <= len file) by (apply flatten_len_pos; exact Hcne).
  assert (HP : map (fun d => (nthZ file d =? 10) && (nthZ file (d + 1) =? 35)) (removelast D) = tl (tags_of true cells)).
  { pose proof (P_scan cells [] [] true) as P. rewrite app_nil_r in P. exact P. }
  set (bs := tl (tags_of true cells)) in *.
  assert (Htb : tags_of true cells = false :: bs).
  { unfold bs. rewrite Htags. destruct gs as [|g0 gs']; [congruence|]. simpl in Hfirst. cbn [g_tags]. rewrite Hfirst.
    destruct (snd g0) as [|f r] eqn:E; [exfalso; apply (Hrne g0 (or_introl eq_refl)); exact E|reflexivity]. }
  assert (HlenD : length D = Datatypes.S (length bs)).
  { unfold D. rewrite dpos_length, <- (tags_length cells true), Htb. reflexivity. }
  assert (HD0 : exists d0 D', D = d0 :: D' /\ length D' = length bs).
  { destruct D as [|d0 D'] eqn:ED; [discriminate|]. exists d0, D'. split; [reflexivity|]. simpl in HlenD. lia. }
  assert (Hc0 : nthZ file 0 =? 35 = false).
  { destruct cells as [|c0 cs] eqn:EC; [congruence|]. cbn [tags_of] in Htb. injection Htb as H0. simpl in H0.
    unfold file. fold cells. rewrite EC, flatten_cons.
    pose proof (nthZ_hd [] (fst c0 ++ [snd c0]) (flatten cs)) as N. change (len (@nil Z)) with 0 in N.
    change ([] ++ (fst c0 ++ [snd c0]) ++ flatten cs) with ((fst c0 ++ [snd c0]) ++ flatten cs) in N. rewrite <- app_assoc in N.
    rewrite N by (destruct (fst c0); discriminate). exact H0. }
  (* start / end delimiters after the deletions *)
  assert (Hsd : map (Z.add 1) ((-1) :: removelast (np_delete D (flatnonzero_from 0 bs))) = concat (g_rows spos crlf 0 gs)).
  { unfold np_delete. pose proof (del_fnz D bs 0 [] ltac:(intros x [])) as X. simpl app in X. rewrite X. clear X.
    rewrite dropt_removelast by exact HlenD. cbn [map]. rewrite dropt_map.
    rewrite <- (dropt_positions spos spos_app spos_length crlf gs tr Hrne 0). fold cells. fold S. rewrite <- Htags, Htb.
    pose proof (spos_dpos 0 cells Hcne) as Hs. fold D S in Hs. replace (0 - 1) with (-1) in Hs by lia.
    destruct HD0 as [d0 [D' [ED _]]].
    replace (removelast (-1 :: D)) with (-1 :: removelast D) in Hs by (rewrite ED; reflexivity).
    cbn [map] in Hs. rewrite <- Hs. reflexivity. }
  assert (Hed : np_delete D (map (Z.add 1) (flatnonzero_from 0 bs)) = concat (g_rows dpos crlf 0 gs)).
  { rewrite <- (dropt_positions dpos dpos_app dpos_length crlf gs tr Hrne 0). fold cells. fold D. rewrite <- Htags, Htb.
    assert (Hsh : map (Z.add 1) (flatnonzero_from 0 bs) = flatnonzero_from 1 bs).
    { pose proof (fnz_shift bs 0 1) as X. change (0 + 1) with 1 in X. rewrite <- X. apply map_ext. intros x. lia. }
    rewrite Hsh.
    destruct HD0 as [d0 [D' [ED _]]]. rewrite ED. unfold np_delete. cbn [delete_from dropt].
    rewrite existsb_eqb_false by (intros x Hx; apply fnz_ge in Hx; lia). simpl app. f_equal.
    exact (del_fnz D' bs 1 [] ltac:(intros x [])). }
  (* the first row *)
  destruct gs as [|g0 gs']; [congruence|]. simpl in Hfirst.
  assert (Hr0 : snd g0 <> []) by (apply Hrne; left; reflexivity).
  assert (Hn0 : length (snd g0) = Z.to_nat n) by (specialize (Hlen g0 (or_introl eq_refl)); unfold len in Hlen; lia).
  assert (Hfind : find_index (fun e => nthZ file e =? 10) 0 (concat (g_rows dpos crlf 0 (g0 :: gs'))) = Some (n - 1)).
  { cbn [g_rows concat]. rewrite Hfirst. change (0 + len (flatten (ccells crlf []))) with 0.
    rewrite dpos_row_split by exact Hr0. set (init := map (fun f => (f, 9)) (removelast (snd g0))).
    rewrite <- app_assoc. simpl app.
    assert (Hfl : file = flatten init ++ (last (snd g0) [] ++ crb crlf) ++ 10 :: flatten (acells crlf gs' tr)).
    { unfold file. rewrite acells_cons, Hfirst. simpl app. unfold row_cells. fold init.
      rewrite !flatten_app, flatten_single, <- !app_assoc. reflexivity. }
    rewrite find_index_app.
    - f_equal. unfold len, init. rewrite dpos_length, map_length.
      assert (length (removelast (snd g0)) = (length (snd g0) - 1)%nat).
      { rewrite <- (removelast_last (snd g0) []) at 2 by exact Hr0. rewrite app_length. simpl. lia. }
      lia.
    - intros y Hy. pose proof (cells_delims init [] ((last (snd g0) [] ++ crb crlf) ++ 10 :: flatten (acells crlf gs' tr))) as Pc.
      change (len (@nil Z)) with 0 in Pc. simpl app in Pc. rewrite <- Hfl in Pc.
      assert (Hin : In (nthZ file y) (map snd init)) by (rewrite <- Pc; apply in_map; exact Hy).
      unfold init in Hin. rewrite map_map in Hin. apply in_map_iff in Hin. destruct Hin as [f [E _]]. simpl in E. rewrite <- E. reflexivity.
    - rewrite Hfl.
      replace (flatten init ++ (last (snd g0) [] ++ crb crlf) ++ 10 :: flatten (acells crlf gs' tr))
        with ((flatten init ++ last (snd g0) [] ++ crb crlf) ++ 10 :: flatten (acells crlf gs' tr)) by (rewrite <- !app_assoc; reflexivity).
      match goal with |- (nthZ _ ?i =? 10) = true =>
        replace i with (len (flatten init ++ last (snd g0) [] ++ crb crlf)) by (rewrite !len_app; lia) end.
      rewrite nthZ_mid. reflexivity. }
  assert (Hrowlen : forall F, (forall o a, length (F o a) = length a) -> forall x, In x (g_rows F crlf 0 (g0 :: gs')) -> length x = Z.to_nat n).
  { intros F FL x Hx. destruct (g_rows_in F crlf (g0 :: gs') tr [] [] x Hx) as [g [pre' [post' [Hg [E _]]]]]. subst x.
    rewrite FL. rewrite row_cells_length by (apply Hrne; exact Hg). specialize (Hlen g Hg). unfold len in Hlen.
 lia. }
  assert (Hgl : forall F, length (g_rows F crlf 0 (g0 :: gs')) = length (g0 :: gs')).
  { intros F. apply g_rows_length. }
  assert (Hmod : forall F, (forall o a, length (F o a) = length a) ->
            (0 <? n - 1 + 1) && (len (concat (g_rows F crlf 0 (g0 :: gs'))) mod (n - 1 + 1) =? 0) = true).
  { intros F FL. replace (n - 1 + 1) with n by lia. destruct (Z.ltb_spec 0 n); [|lia]. cbn [andb]. unfold len at 1.
    rewrite (length_concat_const (Z.to_nat n)) by (apply Hrowlen; exact FL).
    rewrite Nat2Z.inj_mul, Z2Nat.id by lia. rewrite Z.mul_comm, Z.mod_mul by lia. reflexivity. }
  (* run the model *)
  unfold ic_table, m_ic_probe, m_ic_end_del, m_ic_sentinel, m_ic_start, m_ic_n_fields. rewrite Hpos. cbv beta iota zeta.
  replace (len file - 1 + 1) with (len file) by lia.
  rewrite (firstn_all2 file) by (unfold len; lia).
  unfold ic_delims. unfold ic_comment_tabs_ignored. cbv iota. rewrite Hscan.
  unfold flatnonzero. rewrite HP, Hc0, Hsd, Hed, Hfind.
  unfold reshape. rewrite (Hmod spos spos_length), (Hmod dpos dpos_length).
  replace (Z.to_nat (n - 1 + 1)) with (Z.to_nat n) by lia.
  rewrite !chunks_of_concat by (try lia; apply Hrowlen; first [exact spos_length | exact dpos_length]).
  unfold ic_cr_adjusts. cbv iota.
  eexists. split; [reflexivity|]. cbn [t_data t_starts t_ends]. split; [reflexivity|]. split; [|split; [|split]].
  - unfold table_fields. cbn [t_data t_starts t_ends]. unfold file. rewrite cr_adjust_groups by (try exact Hok; discriminate).
    pose proof (groups_texts crlf (g0 :: gs') tr Hrne [] []) as P. change (len (@nil Z)) with 0 in P. rewrite app_nil_r in P. exact P.
  - unfold len. rewrite Hgl. reflexivity.
  - intros row s Hrow Hs. destruct (g_rows_in spos crlf (g0 :: gs') tr [] [] row Hrow) as [g [pre' [post' [Hg [E _]]]]]. subst row.
    apply spos_ge in Hs. pose proof (len_nonneg pre'). lia.
  - intros row e Hrow He. unfold file in Hrow. rewrite cr_adjust_groups in Hrow by (try exact Hok; discriminate).
    apply in_map_iff in Hrow. destruct Hrow as [row0 [E Hrow0]]. subst row.
    enough (e <= len file - 1) by lia. revert e He. apply adj_le; [lia|].
    intros e He. destruct (g_rows_in dpos crlf (g0 :: gs') tr [] [] row0 Hrow0) as [g [pre' [post' [Hg [E1 E2]]]]]. subst row0.
    apply dpos_le in He. rewrite app_nil_r in E2. simpl app in E2. unfold file. rewrite E2, !len_app.
    pose proof (len_nonneg post'). lia.
Qed.

(* ---------- whole files ---------- *)
Definition ic_format (f : format) : bool := match f with Fgff | Fwig => true | _ => false end.

Lemma eol_crb crlf : eol_of crlf = crb crlf ++ [10].
Proof. destruct crlf; reflexivity. Qed.
Lemma lay_ccells crlf cs : lay (eol_of crlf) cs = flatten (ccells crlf cs).
Proof.
  induction cs as [|c cs IH]; [reflexivity|]. change (lay (eol_of crlf) (c :: cs)) with ((c ++ eol_of crlf) ++ lay (eol_of crlf) cs).
  rewrite IH. unfold ccells. simpl map. rewrite flatten_cons. cbn [fst snd]. rewrite eol_crb, <- !app_assoc. reflexivity.
Qed.
(* the Spec's layout of records and interior comment lines is the cell list the proofs work on *)
Lemma ic_file f crlf gs tr : ic_format f = true -> (forall g, In g gs -> snd g <> []) ->
  lay (eol_of crlf) (body_lines f 0 (map snd gs) (map fst gs ++ [tr])) = flatten (acells crlf gs tr).
Proof.
  intros Hf Hne. induction gs as [|g gs IH].
  - unfold acells. simpl. rewrite app_nil_r. apply lay_ccells.
  - simpl map. simpl app. cbn [body_lines]. rewrite acells_cons, !flatten_app, !lay_app.
    rewrite IH by (intros q Hq; apply Hne; right; exact Hq). f_equal; [apply lay_ccells|]. f_equal.
    rewrite row_flat by (apply Hne; left; reflexivity).
    destruct f; try discriminate; unfold lay; simpl; rewrite app_nil_r; reflexivity.
Qed.

Lemma hd0_flatten_cons c cs : hd0 (flatten (c :: cs)) = hd0c c.
Proof. rewrite flatten_cons, app_assoc. unfold hd0c. apply hd0_app_ne. destruct (fst c); discriminate. Qed.
Lemma acells_first crlf gs tr : gs <> [] -> groups_ok gs tr -> fst (hd ([], []) gs) = [] ->
  hd0 (flatten (acells crlf gs tr)) <> 35.
Proof.
  intros Hgs Hok Hfirst. destruct gs as [|g0 gs]; [congruence|]. simpl in Hfirst.
  pose proof (tags_acells crlf (g0 :: gs) tr Hok) as T. destruct (proj1 Hok g0 (or_introl eq_refl)) as [_ [Hne _]].
  cbn [g_tags] in T. rewrite Hfirst in T. simpl app in T.
  destruct (acells crlf (g0 :: gs) tr) as [|c cs] eqn:E.
  - destruct (snd g0); [congruence|discriminate].
  - rewrite hd0_flatten_cons. cbn [tags_of] in T. destruct (snd g0) as [|x r]; [congruence|]. simpl in T.
    injection T as T _. apply Z.eqb_neq. exact T.
Qed.

Lemma ic_table_ok crlf n gs tr : 1 <= n -> gs <> [] -> groups_ok gs tr -> (forall g, In g gs -> len (snd g) = n) ->
  fst (hd ([], []) gs) = [] ->
  exists t, ic_table (flatten (acells crlf gs tr)) = Some t /\ table_ok t (map snd gs) /\ len (t_starts t) = len gs.
Proof.
  intros Hn Hgs Hok Hlen Hfirst.
  destruct (ic_table_correct crlf n gs tr Hn Hgs Hok Hlen Hfirst) as [t [Ht [Hd [Hf [Hl [Hs He]]]]]].
  exists t. split; [exact Ht|]. split; [|exact Hl]. constructor; [exact Hf|exact Hs|rewrite Hd; exact He|].
  rewrite Hd. apply flatten_len_pos. intro E. destruct gs as [|g0 gs']; [congruence|]. rewrite acells_cons in E.
  apply app_eq_nil in E. destruct E as [_ E]. apply app_eq_nil in E. destruct E as [E _].
  destruct (proj1 Hok g0 (or_introl eq_refl)) as [_ [Hne _]].
  apply (f_equal (@length _)) in E. rewrite row_cells_length in E by exact Hne. destruct (snd g0); [congruence|discriminate].
Qed.

(* Column by column (wig has a float column): the count is right and every supported, well-formed column is the Spec's,
   whatever comment lines are interleaved. *)
Theorem ic_columns : forall (f : format) (crlf : bool) (hs : list (list Z)) (gs : list group) (tr : list (list Z)) (n : Z),
  ic_format f = true ->
  (forall h, In h hs -> hd0 h = 35 /\ ~ In 10 h) ->
  gs <> [] -> 1 <= n -> groups_ok gs tr -> (forall g, In g gs -> len (snd g) = n) -> fst (hd ([], []) gs) = [] ->
  let rows := map snd gs in
  let file := lay (eol_of crlf) hs ++ lay (eol_of crlf) (body_lines f 0 rows (map fst gs ++ [tr])) in
  exists t, ic_table (flatten (acells crlf gs tr)) = Some t
            /\ run f None file = (let cols := run_cols f None t in
                                  if eager_format f && existsb is_err cols then ObsErr else Obs (len rows) cols true)
            /\ forall jt, col_wf rows n jt -> typed_col t (fst jt) (snd jt) = spec_col rows jt.
Proof.
  intros f crlf hs gs tr n Hf Hh Hgs Hn Hok Hlen Hfirst rows file.
  assert (Hrne : forall g, In g gs -> snd g <> []) by (intros g Hg; apply (proj1 Hok g Hg)).
  destruct (ic_table_ok crlf n gs tr Hn Hgs Hok Hlen Hfirst) as [t [Htab [Htok Hl]]].
  exists t. split; [exact Htab|]. split.
  - unfold file, rows, run. rewrite (ic_file f crlf gs tr Hf Hrne).
    assert (Hc : comment_byte f = 35) by (destruct f; try discriminate; reflexivity).
    rewrite Hc, skip_header_correct by (try assumption; try lia; apply acells_first; assumption).
    assert (Ht : table_of f (flatten (acells crlf gs tr)) = ic_table (flatten (acells crlf gs tr))) by (destruct f; try discriminate; reflexivity).
    rewrite Ht, Htab, Hl, len_map. destruct f; try discriminate; reflexivity.
  - intros [j ty] [Hj Hwf]. cbn [fst snd] in *.
    apply typed_col_correct; try assumption; try lia.
    + unfold rows. destruct gs; [congruence|discriminate].
    + intros r Hr. unfold rows in Hr. apply in_map_iff in Hr. destruct Hr as [g [E Hg]]. subst r. rewrite (Hlen g Hg). lia.
Qed.

(* GFF3 (all nine columns are supported types): the whole parsed table is the Spec's table of the records alone *)
Theorem gff_end_to_end : forall (crlf : bool) (hs : list (list Z)) (gs : list group) (tr : list (list Z)),
  (forall h, In h hs -> hd0 h = 35 /\ ~ In 10 h) ->
  gs <> [] -> groups_ok gs tr -> (forall g, In g gs -> len (snd g) = 9) -> fst (hd ([], []) gs) = [] ->
  let rows := map snd gs in
  (forall jt, In jt (schema Fgff) -> col_wf rows 9 jt) ->
  existsb is_err (spec_cols Fgff None rows) = false ->
  run Fgff None (lay (eol_of crlf) hs ++ lay (eol_of crlf) (body_lines Fgff 0 rows (map fst gs ++ [tr])))
  = Obs (len rows) (spec_cols Fgff None rows) true.
Proof.
  intros crlf hs gs tr Hh Hgs Hok Hlen Hfirst rows Hwf Herr.
  destruct (ic_columns Fgff crlf hs gs tr 9 eq_refl Hh Hgs ltac:(lia) Hok Hlen Hfirst) as [t [_ [Hrun Hcols]]].
  fold rows in Hrun, Hcols. rewrite Hrun.
  assert (Hc : run_cols Fgff None t = spec_cols Fgff None rows).
  { unfold run_cols, spec_cols. cbn [has_geno has_geno2]. rewrite !app_nil_r. apply map_ext_in. intros jt Hin.
    destruct jt as [j ty]. exact (Hcols (j, ty) (Hwf _ Hin)). }
  cbv zeta. rewrite Hc. cbn [eager_format andb]. rewrite Herr. reflexivity.
Qed.

(* "the parsed table equals the table of the file with the comment lines removed" *)
Theorem ic_table_same_as_stripped : forall (crlf : bool) (n : Z) (gs : list group) (tr : list (list Z)),
  1 <= n -> gs <> [] -> groups_ok gs tr -> (forall g, In g gs -> len (snd g) = n) -> fst (hd ([], []) gs) = [] ->
  let rows := map snd gs in
  exists t t', ic_table (lay (eol_of crlf) (body_lines Fgff 0 rows (map fst gs ++ [tr]))) = Some t
               /\ delim_table 9 (lay (eol_of crlf) (map (intercalate [9]) rows)) = Some t'
               /\ table_fields t = table_fields t' /\ table_fields t' = rows /\ len (t_starts t) = len (t_starts t').
Proof.
  intros crlf n gs tr Hn Hgs Hok Hlen Hfirst rows.
  assert (Hrne : forall g, In g gs -> snd g <> []) by (intros g Hg; apply (proj1 Hok g Hg)).
  destruct (ic_table_correct crlf n gs tr Hn Hgs Hok Hlen Hfirst) as [t [Ht [_ [Hf [Hl _]]]]].
  destruct (field_table_correct crlf n rows Hn) as [t' [Ht' [_ [Hf' [Hl' _]]]]].
  - unfold rows. destruct gs; [congruence|discriminate].
  - intros r Hr. unfold rows in Hr. apply in_map_iff in Hr. destruct Hr as [g [E Hg]]. subst r. split; [apply Hlen; exact Hg|].
    apply (proj1 Hok g Hg).
  - exists t, t'. unfold rows at 1. rewrite (ic_file Fgff crlf gs tr eq_refl Hrne). split; [exact Ht|]. split; [exact Ht'|].
    split; [rewrite Hf, Hf'; reflexivity|]. split; [exact Hf'|]. rewrite Hl, Hl'. unfold rows. rewrite len_map. reflexivity.
Qed.

(* the same two statements with the file written as the Spec lays it out *)
Theorem ic_table_correct_lay : forall (f : format) (crlf : bool) (n : Z) (gs : list group) (tr : list (list Z)),
  ic_format f = true ->
  1 <= n -> gs <> [] -> groups_ok gs tr -> (forall g, In g gs -> len (snd g) = n) -> fst (hd ([], []) gs) = [] ->
  let rows := map snd gs in
  let file := lay (eol_of crlf) (body_lines f 0 rows (map fst gs ++ [tr])) in
  exists t, ic_table file = Some t /\ t_data t = file /\ table_fields t = rows /\ len (t_starts t) = len rows
            /\ (forall row s, In row (t_starts t) -> In s row -> 0 <= s)
            /\ (forall row e, In row (t_ends t) -> In e row -> e < len file).
Proof.
  intros f crlf n gs tr Hf Hn Hgs Hok Hlen Hfirst rows file.
  assert (Hrne : forall g, In g gs -> snd g <> []) by (intros g Hg; apply (proj1 Hok g Hg)).
  unfold file, rows. rewrite (ic_file f crlf gs tr Hf Hrne), len_map.
  exact (ic_table_correct crlf n gs tr Hn Hgs Hok Hlen Hfirst).
Qed.
Theorem ic_columns_run : forall (f : format) (crlf : bool) (hs : list (list Z)) (gs : list group) (tr : list (list Z)) (n : Z),
  ic_format f = true ->
  (forall h, In h hs -> hd0 h = 35 /\ ~ In 10 h) ->
  gs <> [] -> 1 <= n -> groups_ok gs tr -> (forall g, In g gs -> len (snd g) = n) -> fst (hd ([], []) gs) = [] ->
  let rows := map snd gs in
  let file := lay (eol_of crlf) hs ++ lay (eol_of crlf) (body_lines f 0 rows (map fst gs ++ [tr])) in
  exists t, run f None file = (let cols := run_cols f None t in
                               if eager_format f && existsb is_err cols then ObsErr else Obs (len rows) cols true)
            /\ forall jt, col_wf rows n jt -> typed_col t (fst jt) (snd jt) = spec_col rows jt.
Proof.
  intros f crlf hs gs tr n Hf Hh Hgs Hn Hok Hlen Hfirst rows file.
  destruct (ic_columns f crlf hs gs tr n Hf Hh Hgs Hn Hok Hlen Hfirst) as [t [_ [A B]]]. exists t. split; [exact A|exact B].
Qed.

(* Proofs/C14_fasta_call.v — round 6: a whole call GenomicSequence(indexed FASTA)[intervals] on a wrapped multi-record
   file returns, row by row, what the property asks; built on the fetch theorem (Proofs/C14_fasta.v) and the symbol grid of
   Proofs/C14.v. *)
From Coq Require Import ZArith List Bool Lia.
From BNP Require Import Base.Prims Base.PrimsFacts Model.C14 Proofs.C14 Proofs.C14_link Proofs.C14_fasta.
Import ListNotations.
Open Scope Z_scope.

Definition rec_valid (r : fa_rec) : Prop := 0 < fa_w r /\ Forall (fun c => In c dna10) (fa_seq r).
Definition iv4_valid (recs : list fa_rec) (iv : iv4) : Prop :=
  let '(c, a, b, s) := iv in
  0 <= c /\ (exists r, nth_error recs (Z.to_nat c) = Some r /\ 0 <= a <= b /\ b <= len (fa_seq r)) /\ (s = 43 \/ s = 45).
Definition fa_row (recs : list fa_rec) (iv : iv4) : list Z :=
  let '(c, a, b, _) := iv in slice a b (fa_seq (nth (Z.to_nat c) recs ([], [], 1))).

Lemma len_slice_in {A} a b (l : list A) : 0 <= a <= b -> b <= len l -> len (slice a b l) = b - a.
Proof. intros H1 H2. unfold slice. rewrite len_firstn, len_skipn. lia. Qed.

Section Call.
  Variable recs : list fa_rec.
  Hypothesis Hrecs : Forall rec_valid recs.

  Lemma fetch_row iv : iv4_valid recs iv ->
    fa_fetch_iv (fa_file recs true) (fa_index_from 0 recs) iv = fa_row recs iv
    /\ Forall (fun c => In c dna10) (fa_row recs iv) /\ fa_sized (fa_row recs iv, iv) = true.
  Proof.
    destruct iv as [[[c a] b] s]. intros [Hc [[r [Hn [Hab Hb]]] _]].
    assert (Hr : rec_valid r) by (rewrite Forall_forall in Hrecs; apply Hrecs; eapply nth_error_In; exact Hn).
    destruct Hr as [Hw Hdom].
    cbn [fa_row]. rewrite (nth_error_nth _ _ _ Hn). split; [|split].
    - replace c with (Z.of_nat (Z.to_nat c)) at 1 by lia. apply fa_fetch_file; assumption.
    - apply Forall_slice, Hdom.
    - unfold fa_sized. cbn [fst snd]. apply Z.eqb_eq. apply len_slice_in; assumption.
  Qed.

  Theorem fa_call_thm : forall stranded ivs, Forall (iv4_valid recs) ivs ->
    model_fa_call complements where_rows (fa_file recs true) (fa_index_from 0 recs) stranded ivs
    = Ok (map (fa_want recs stranded) ivs).
  Proof.
    intros stranded ivs Hiv.
    destruct (values_of_some _ _ _ (grid_of complements domain grid_head 2 in2)) as [v [Hv HD]].
    change (domain 2) with dna10 in HD.
    set (srows := map (fa_row recs) ivs).
    assert (Hraw : map (fa_fetch_iv (fa_file recs true) (fa_index_from 0 recs)) ivs = srows).
    { unfold srows. apply map_ext_in. intros iv Hi. rewrite Forall_forall in Hiv. apply fetch_row, Hiv, Hi. }
    assert (Hs : Forall (Forall (fun c => In c dna10)) srows).
    { unfold srows. rewrite Forall_map. apply Forall_forall. intros iv Hi. rewrite Forall_forall in Hiv.
      apply fetch_row, Hiv, Hi. }
    assert (Hsz : forallb fa_sized (combine srows ivs) = true).
    { unfold srows. clear Hraw Hs. induction ivs as [|iv ivs IH]; [reflexivity|].
      inversion Hiv; subst. cbn [map combine forallb]. rewrite IH by assumption.
      destruct (fetch_row iv H1) as [_ [_ E]]. rewrite E. reflexivity. }
    unfold model_fa_call. rewrite Hraw, Hsz. cbn [negb].
    rewrite (encode_ok (enc_of 2) dna10) by (try apply (enc_grid 2 dna10 v HD); apply Forall_concat; exact Hs).
    rewrite concat_map_map. fold (encrows 2 srows).
    rewrite <- (map_len_encrows 2 srows). rewrite split_lens_concat.
    assert (Hdec : forall iv, In iv ivs ->
      decode (enc_of 2) (map (enc1 (enc_of 2)) (fa_row recs iv)) = fa_want recs false iv).
    { intros iv Hi. rewrite decode_map. rewrite (dec_enc 2 dna10 v HD).
      - destruct iv as [[[c a] b] s]. cbn [fa_row fa_want]. rewrite slice_map. reflexivity.
      - rewrite Forall_forall in Hiv. apply fetch_row, Hiv, Hi. }
    destruct stranded.
    - rewrite (revcomp_codes_any complements 2 v Hv) by (apply (encrows_range 2 dna10 v HD), Hs).
      rewrite (split_after (rc1 v) (encrows 2 srows) (len_rc1 v)).
      unfold where_rows, where_fixed. f_equal. unfold encrows, srows. rewrite !map_map.
      rewrite (choose_rows_map (fun iv : iv4 => iv4_strand iv =? 43)
                 (fun iv => map (enc1 (enc_of 2)) (fa_row recs iv))
                 (fun iv => rc1 v (map (enc1 (enc_of 2)) (fa_row recs iv)))).
      rewrite map_map. apply map_ext_in. intros iv Hi.
      assert (Hrow : Forall (fun c => In c dna10) (fa_row recs iv)).
      { rewrite Forall_forall in Hiv. apply fetch_row, Hiv, Hi. }
      assert (Hst : iv4_strand iv = 43 \/ iv4_strand iv = 45).
      { rewrite Forall_forall in Hiv. specialize (Hiv iv Hi). destruct iv as [[[c a] b] s]. cbn in *. tauto. }
      specialize (Hdec iv Hi).
      destruct iv as [[[c a] b] s]. cbn [iv4_strand snd] in *. cbn [fa_want spec_stranded]. cbn [fa_want] in Hdec.
      destruct Hst as [->| ->]; cbn [Z.eqb Pos.eqb].
      + exact Hdec.
      + rewrite decode_map. rewrite (dec_rc1 2 dna10 v HD) by exact Hrow. cbn [fa_row]. rewrite slice_map. reflexivity.
    - f_equal. unfold encrows, srows. rewrite !map_map. apply map_ext_in. exact Hdec.
  Qed.
End Call.

(* ---------- model agrees => property holds, for the indexed-FASTA case class of Corr/C14.v ---------- *)
From BNP Require Import Corr.C14.
Definition rec_valid_b (r : fa_rec) : bool := (0 <? fa_w r) && forallb (fun c => mem c dna10) (fa_seq r).
Definition iv4_valid_b (recs : list fa_rec) (iv : iv4) : bool :=
  let '(c, a, b, s) := iv in
  (0 <=? c)
  && match nth_error recs (Z.to_nat c) with
     | Some r => (0 <=? a) && (a <=? b) && (b <=? len (fa_seq r))
     | None => false
     end
  && ((s =? 43) || (s =? 45)).
Definition idx_eqb (x y : fa_idx) : bool :=
  let '(a1, b1, c1, d1) := x in let '(a2, b2, c2, d2) := y in (a1 =? a2) && (b1 =? b2) && (c1 =? c2) && (d1 =? d2).
(* well-formed: every line of the file is terminated, records are wrapped to a positive width and hold DNA symbols, the
   index on disk is the standard one, every interval of every call lies inside its record and has strand + or - *)
Definition fa_wf (recs : list fa_rec) (nl_end : bool) (fai : list fa_idx) (calls : list (list iv4 * bool * obs)) : bool :=
  nl_end && forallb rec_valid_b recs && list_eqb idx_eqb fai (fa_index_from 0 recs)
  && forallb (fun cl : list iv4 * bool * obs => forallb (iv4_valid_b recs) (fst (fst cl))) calls.
Definition case_wf_fa (c : case) : bool :=
  match c with CFa recs nl _ fai calls => fa_wf recs nl fai calls | _ => case_wf c end.

Lemma idx_list_eq (a : list fa_idx) : forall b, list_eqb idx_eqb a b = true -> a = b.
Proof.
  induction a as [|x a IH]; intros [|y b] H; try reflexivity; try discriminate.
  cbn in H. apply andb_prop in H. destruct H as [H1 H2]. rewrite (IH b H2). f_equal.
  destruct x as [[[a1 b1] c1] d1], y as [[[a2 b2] c2] d2]. cbn in H1.
  rewrite !andb_true_iff, !Z.eqb_eq in H1. destruct H1 as [[[-> ->] ->] ->]. reflexivity.
Qed.
Lemma rec_valid_of_b recs : forallb rec_valid_b recs = true -> Forall rec_valid recs.
Proof.
  intros H. rewrite forallb_forall in H. apply Forall_forall. intros r Hr. specialize (H r Hr).
  unfold rec_valid_b in H. rewrite andb_true_iff, Z.ltb_lt in H. destruct H as [H1 H2]. split; [exact H1|].
  apply forallb_mem_Forall, H2.
Qed.
Lemma iv4_valid_of_b recs ivs : forallb (iv4_valid_b recs) ivs = true -> Forall (iv4_valid recs) ivs.
Proof.
  intros H. rewrite forallb_forall in H. apply Forall_forall. intros [[[c a] b] s] Hi. specialize (H _ Hi).
  cbn in H. rewrite !andb_true_iff in H. destruct H as [[H1 H2] H3].
  destruct (nth_error recs (Z.to_nat c)) as [r|] eqn:E; [|discriminate].
  rewrite !andb_true_iff, !Z.leb_le in H2. rewrite orb_true_iff, !Z.eqb_eq in H3. apply Z.leb_le in H1.
  cbn. split; [exact H1|]. split; [|exact H3]. exists r. split; [exact E|]. lia.
Qed.

Lemma link_fa recs nl fsize fai calls : fa_wf recs nl fai calls = true ->
  model_ok (CFa recs nl fsize fai calls) = true -> prop_ok (CFa recs nl fsize fai calls) = true.
Proof.
  unfold fa_wf. intros Hw Hm. rewrite !andb_true_iff in Hw. destruct Hw as [[[Hnl Hr] Hf] Hc].
  subst nl. apply idx_list_eq in Hf. subst fai. apply rec_valid_of_b in Hr.
  cbn [model_ok prop_ok] in *. cbv zeta in Hm. apply andb_prop in Hm. destruct Hm as [_ Hm].
  revert Hm Hc. induction calls as [|cl calls IH]; [reflexivity|].
  cbn [map all_true forallb]. intros Hm Hc. apply andb_prop in Hm. apply andb_prop in Hc.
  destruct Hm as [M1 M2], Hc as [C1 C2]. rewrite (IH M2 C2), andb_true_r.
  destruct cl as [[ivs st] o]. cbn [fst snd] in *.
  rewrite (fa_call_thm recs Hr st ivs (iv4_valid_of_b recs ivs C1)) in M1. exact M1.
Qed.

Theorem link_all_fa : forall c, case_wf_fa c = true -> model_ok c = true -> prop_ok c = true.
Proof.
  intros c Hw Hm. destruct c; try (apply link_all; assumption).
  apply link_fa; assumption.
Qed.

(* Proofs/C02_geno.v — the genotype string matrix (VCFBuffer2): a sample cell's value is the text before its own first
   ':' — it depends on the cell's own bytes only, not on the width of the widest cell of the file nor on what follows
   the cell in the buffer. *)
From Coq Require Import ZArith List Bool Lia Arith.
From BNP Require Import Base.Prims Base.PrimsFacts Base.C02Lib Model.C02 Proofs.C02_int.
Import ListNotations.
Open Scope Z_scope.

Lemma split_first_some c l a b : split_first c l = (a, Some b) -> l = a ++ c :: b /\ ~ In c a.
Proof.
  revert a b. induction l as [|x l IH]; intros a b H; [discriminate|].
  simpl in H. destruct (Z.eqb_spec x c) as [E|N].
  - inversion H. subst. split; [reflexivity|intros []].
  - destruct (split_first c l) as [a' b'] eqn:E'. inversion H. subst. destruct (IH a' b eq_refl) as [A B].
    split; [simpl; f_equal; exact A|]. intros [E|Hin]; [congruence|exact (B Hin)].
Qed.
Lemma split_first_none c l a : split_first c l = (a, None) -> a = l /\ ~ In c l.
Proof.
  revert a. induction l as [|x l IH]; intros a H; [inversion H; split; [reflexivity|intros []]|].
  simpl in H. destruct (Z.eqb_spec x c) as [E|N]; [discriminate|].
  destruct (split_first c l) as [a' b'] eqn:E'. inversion H. subst. destruct (IH a' eq_refl) as [A B].
  split; [f_equal; exact A|]. intros [E|Hin]; [congruence|exact (B Hin)].
Qed.
Lemma argmax_eq_skip c a : ~ In c a -> forall i rest, argmax_eq c i (a ++ rest) = argmax_eq c (i + len a) rest.
Proof.
  induction a as [|x a IH]; intros H i rest.
  - simpl. rewrite len_nil. f_equal. lia.
  - simpl. destruct (Z.eqb_spec x c) as [E|_]; [exfalso; apply H; left; exact E|].
    rewrite IH by (intro Hin; apply H; right; exact Hin). rewrite len_cons. f_equal. lia.
Qed.
Lemma argmax_eq_range c l : forall i, 0 <= i -> argmax_eq c i l = 0 \/ i <= argmax_eq c i l.
Proof.
  induction l as [|x l IH]; intros i Hi; [left; reflexivity|]. simpl.
  destruct (x =? c); [right; lia|]. destruct (IH (i + 1) ltac:(lia)); [left; assumption|right; lia].
Qed.
Lemma strip_nul_id l : (forall c, In c l -> c <> 0) -> strip_nul l = l.
Proof.
  intros H. unfold strip_nul. remember (rev l) as r. assert (Hr : forall c, In c r -> c <> 0) by (intros c Hc; apply H; rewrite in_rev, <- Heqr; exact Hc).
  replace (drop_nul_front r) with r; [subst r; apply rev_involutive|].
  destruct r as [|x r]; [reflexivity|]. specialize (Hr x (or_introl eq_refl)). destruct x; [congruence|reflexivity|reflexivity].
Qed.

(* the window read for a cell starts with the cell's own bytes *)
Lemma window_prefix (data : list Z) s e mx : 0 <= s -> s <= e -> e <= len data -> e - s <= mx ->
  exists rest, map (fun j => nthZ data (Z.min (s + j) (len data - 1))) (arange mx) = slice s e data ++ rest.
Proof.
  intros Hs Hse He Hmx. unfold arange.
  replace (Z.to_nat mx) with (Z.to_nat (e - s) + Z.to_nat (mx - (e - s)))%nat by lia.
  rewrite arange_from_app, map_app. eexists. f_equal.
  rewrite (map_arange_from_ext _ (fun j => nthZ data (j + s))).
  - rewrite map_arange_from_shift. replace (0 + s) with s by lia. rewrite map_nthZ_arange_from by lia. reflexivity.
  - intros j Hj. f_equal. lia.
Qed.

(* ---------- the cell value ---------- *)
Theorem padded_cell_correct : forall (data : list Z) (mx s e : Z),
  0 <= s -> s < e -> e <= len data -> e - s <= mx ->
  let cell := slice s e data in
  hd0 cell <> 58 -> (forall c, In c cell -> c <> 0) ->
  padded_cell data mx (s, e) = gt_subfield cell.
Proof.
  intros data mx s e Hs Hse He Hmx cell Hhd Hnz.
  unfold padded_cell. cbn [fst snd].
  destruct (window_prefix data s e mx Hs ltac:(lia) He Hmx) as [rest Ew]. fold cell in Ew. rewrite Ew.
  assert (Hlen : len cell = e - s).
  { unfold cell, slice, len. rewrite firstn_length, skipn_length. unfold len in He. lia. }
  unfold gt_subfield. destruct (split_first 58 cell) as [a [b|]] eqn:Es; cbn [fst].
  - (* the cell has its own ':' at position len a >= 1 *)
    destruct (split_first_some 58 cell a b Es) as [Ec Hna].
    assert (Ha : 1 <= len a).
    { destruct a as [|x a]; [rewrite Ec in Hhd; simpl in Hhd; congruence|rewrite len_cons; pose proof (len_nonneg a); lia]. }
    assert (Hlt : len a < e - s) by (rewrite <- Hlen, Ec, len_app, len_cons; pose proof (len_nonneg b); lia).
    assert (Hp : argmax_eq 58 0 (cell ++ rest) = len a).
    { rewrite Ec, <- app_assoc, argmax_eq_skip by exact Hna. simpl. lia. }
    rewrite Hp. unfold m_stop_len. destruct (Z.gtb_spec (len a) 0); [|lia].
    replace (Z.min (e - s) (len a)) with (len a) by lia.
    replace (cell ++ rest) with (a ++ (58 :: b) ++ rest) by (rewrite Ec, <- app_assoc; reflexivity).
    replace (Z.to_nat (len a)) with (length a) by (unfold len; lia).
    rewrite firstn_app, Nat.sub_diag, firstn_all. simpl. rewrite app_nil_r.
    apply strip_nul_id. intros c Hc. apply Hnz. rewrite Ec. apply in_or_app. left. exact Hc.
  - (* no ':' inside the cell: whatever the window shows beyond it is ignored *)
    destruct (split_first_none 58 cell a Es) as [Ea Hn]. subst a.
    rewrite argmax_eq_skip by exact Hn.
    assert (Hl : m_stop_len (e - s) (argmax_eq 58 (0 + len cell) rest) = e - s).
    { unfold m_stop_len. destruct (argmax_eq_range 58 rest (0 + len cell) ltac:(pose proof (len_nonneg cell); lia)) as [E0|Hge].
      - rewrite E0. reflexivity.
      - destruct (Z.gtb_spec (argmax_eq 58 (0 + len cell) rest) 0); lia. }
    rewrite Hl, <- Hlen. replace (Z.to_nat (len cell)) with (length cell) by (unfold len; lia).
    rewrite firstn_app, Nat.sub_diag, firstn_all. simpl. rewrite app_nil_r. apply strip_nul_id. exact Hnz.
Qed.

(* row-locality: two cells with the same bytes get the same value, wherever they lie, whatever surrounds them and
   however wide the widest cell of either file is *)
Theorem padded_cell_local : forall data mx s e data' mx' s' e',
  0 <= s -> s < e -> e <= len data -> e - s <= mx ->
  0 <= s' -> s' < e' -> e' <= len data' -> e' - s' <= mx' ->
  slice s e data = slice s' e' data' ->
  hd0 (slice s e data) <> 58 -> (forall c, In c (slice s e data) -> c <> 0) ->
  padded_cell data mx (s, e) = padded_cell data' mx' (s', e').
Proof.
  intros. rewrite !padded_cell_correct by (try assumption; try (rewrite <- H7; assumption)). rewrite H7. reflexivity.
Qed.

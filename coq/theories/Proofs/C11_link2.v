(* Proofs/C11_link2.v — link theorem for the stranded-window and arithmetic-expression runs of a genome case. *)
From Coq Require Import ZArith List Bool Lia Arith.
From BNP Require Import Base.Prims Base.PrimsFacts Model.C11 Corr.C11
  Proofs.C11 Proofs.C11_groupby Proofs.C11_graph Proofs.C11_pipeline Proofs.C11_spec Proofs.C11_link
  Proofs.C11_expr Proofs.C11_expr_spec Proofs.C11_stranded Proofs.C11_windows.
Import ListNotations.
Open Scope Z_scope.

Definition gen_extra_mem_ok (g : gen) : bool :=
  all_true (map (fun '(p, _, mem) =>
     obs_matches (g_sizes g) (spec_stranded p (gen_order g) (g_sizes g) (concat (g_a g)) (concat (g_w g))) mem) (g_sruns g))
  && all_true (map (fun '(e, q, _, mem) =>
     obs_matches (g_sizes g) (spec_expr e q (gen_order g) (g_sizes g) (concat (g_a g)) (concat (g_b g))) mem) (g_eruns g))
  && all_true (map (fun '(a, q, _, mem) =>
     obs_matches (g_sizes g) (spec_windows a q (gen_order g) (g_sizes g) (concat (g_a g))) mem) (g_wruns g)).

Theorem gen_extra_link : forall g, gen_wellformed g = true ->
  forallb (fun c => negb (len c =? 0)) (g_w g) = true ->
  ordered (gen_order g) (concat (g_a g)) -> ordered (gen_order g) (concat (g_b g)) -> ordered (gen_order g) (concat (g_w g)) ->
  (forall e q s m, In (e, q, s, m) (g_eruns g) -> exists nodes t, compile e 5 12 = (nodes, ONode t)) ->
  gen_extra_mem_ok g = true -> gen_extra_model_ok g = true -> gen_extra_spec_ok g = true.
Proof.
  intros g Hwf Hw Hoa Hob How Heg Hmem Hm.
  unfold gen_extra_spec_ok. rewrite Hw. cbn [andb].
  unfold gen_wellformed in Hwf. rewrite !andb_true_iff in Hwf. destruct Hwf as [[[[Ha Hb] Hane] Hbne] Hsne].
  assert (Hnd : NoDup (gen_order g)) by apply NoDup_arange_from.
  assert (Hlen : length (gen_order g) = length (g_sizes g)).
  { unfold gen_order, arange, len. rewrite Nat2Z.id. apply arange_from_length. }
  assert (Hpos : (0 < length (g_sizes g))%nat) by (destruct (g_sizes g); [discriminate Hsne|simpl; lia]).
  assert (Hane' : g_a g <> []) by (destruct (g_a g); [discriminate Hane|discriminate]).
  assert (Hbne' : g_b g <> []) by (destruct (g_b g); [discriminate Hbne|discriminate]).
  assert (Hna : Forall (fun c : list (Z * iv) => c <> []) (g_a g)).
  { apply forallb_Forall in Ha. eapply Forall_impl; [|exact Ha]. intros c Hc Hnil. subst c. discriminate Hc. }
  assert (Hnb : Forall (fun c : list (Z * iv) => c <> []) (g_b g)).
  { apply forallb_Forall in Hb. eapply Forall_impl; [|exact Hb]. intros c Hc Hnil. subst c. discriminate Hc. }
  assert (Hnw : Forall (fun c : list (Z * swin) => c <> []) (g_w g)).
  { apply forallb_Forall in Hw. eapply Forall_impl; [|exact Hw]. intros c Hc Hnil. subst c. discriminate Hc. }
  unfold gen_extra_model_ok in Hm. unfold gen_extra_mem_ok in Hmem.
  rewrite !andb_true_iff in Hm. destruct Hm as [[Hm1 Hm2] Hm3]. rewrite !andb_true_iff in Hmem. destruct Hmem as [[Hmem1 Hmem2] Hmem3].
  rewrite !andb_true_iff. split; [split|].
  - rewrite all_true_forall in *. intros [[p streamed] mem] Hin.
    specialize (Hm1 _ Hin). specialize (Hmem1 _ Hin). cbn in Hm1, Hmem1. fold (gen_order g) in Hm1.
    rewrite (stranded_spec_current p (gen_order g) (g_sizes g) (g_a g) (g_w g) Hnd Hlen Hpos Hane' Hna Hnw Hoa How) in Hm1.
    fold (gen_order g). rewrite Hmem1, Hm1. reflexivity.
  - rewrite all_true_forall in *. intros [[[e q] streamed] mem] Hin.
    specialize (Hm2 _ Hin). specialize (Hmem2 _ Hin). cbn in Hm2, Hmem2. fold (gen_order g) in Hm2.
    rewrite (expr_pipeline_spec e q (gen_order g) (g_sizes g) (g_a g) (g_b g) Hnd Hlen Hpos Hane' Hbne' Hna Hnb Hoa Hob
               (Heg e q streamed mem Hin)) in Hm2.
    fold (gen_order g). rewrite Hmem2, Hm2. reflexivity.
  - rewrite all_true_forall in *. intros [[[a q] streamed] mem] Hin.
    specialize (Hm3 _ Hin). specialize (Hmem3 _ Hin). cbn in Hm3, Hmem3. fold (gen_order g) in Hm3.
    rewrite (windows_spec a q (gen_order g) (g_sizes g) (g_a g) Hnd Hlen Hpos Hane' Hna Hoa) in Hm3.
    fold (gen_order g). rewrite Hmem3, Hm3. reflexivity.
Qed.

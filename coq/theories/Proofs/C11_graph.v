(* Proofs/C11_graph.v — the computation graph as a pull machine: all nodes reachable from the root move in lock
   step (the `assert self._buffer_index in (i, i-1)` never fires), and iterating the root yields, for every
   buffer number, the plain per-buffer application of the node functions to the stream buffers. *)
From Coq Require Import ZArith List Bool Lia Arith.
From BNP Require Import Base.Prims Model.C11.
Import ListNotations.

Section Graph.
Context {V : Type}.
Variable g : list (node V).

Definition wf : Prop :=
  forall k f args, nth_error g k = Some (NComp f args) -> Forall (fun a => (a < k)%nat) args.
Hypothesis Hwf : wf.

(* ---------- denotation ---------- *)
Definition val (k i : nat) : option V := value (S k) g k i.

Lemma value_fuel i : forall f1 f2 k, (k < f1)%nat -> (k < f2)%nat -> value f1 g k i = value f2 g k i.
Proof.
  induction f1 as [|f1 IH]; intros f2 k H1 H2; [lia|]. destruct f2 as [|f2]; [lia|].
  cbn [value]. destruct (nth_error g k) as [[bufs|fn args]|] eqn:E; try reflexivity.
  assert (Hm : map (fun a => value f1 g a i) args = map (fun a => value f2 g a i) args).
  { apply map_ext_in. intros a Ha. pose proof (Hwf k fn args E) as Hlt. rewrite Forall_forall in Hlt.
    specialize (Hlt a Ha). apply IH; lia. }
  rewrite Hm. reflexivity.
Qed.

Fixpoint opt_all (l : list (option V)) : option (list V) :=
  match l with
  | [] => Some []
  | Some v :: r => match opt_all r with Some vs => Some (v :: vs) | None => None end
  | None :: _ => None
  end.
Definition is_some (o : option V) : bool := match o with Some _ => true | None => false end.
Definition unwrap (o : option V) : list V := match o with Some v => [v] | None => [] end.
Lemma opt_all_some l vs : opt_all l = Some vs -> forallb is_some l = true /\ flat_map unwrap l = vs.
Proof.
  revert vs. induction l as [|[v|] r IH]; intros vs H; simpl in *.
  - injection H as <-. auto.
  - destruct (opt_all r) as [ws|]; [|discriminate]. injection H as <-.
    destruct (IH ws eq_refl) as [H1 H2]. rewrite H1, H2. auto.
  - discriminate.
Qed.
Lemma opt_all_none l : opt_all l = None -> forallb is_some l = false.
Proof.
  induction l as [|[v|] r IH]; intros H; simpl in *; [discriminate| |reflexivity].
  destruct (opt_all r); [discriminate|]. apply IH. reflexivity.
Qed.

Lemma val_stream k bufs i : nth_error g k = Some (NStream bufs) -> val k i = nth_error bufs i.
Proof. intros E. unfold val. cbn [value]. rewrite E. reflexivity. Qed.

Lemma val_comp k fn args i : nth_error g k = Some (NComp fn args) ->
  val k i = match opt_all (map (fun a => val a i) args) with Some vs => Some (fn vs) | None => None end.
Proof.
  intros E. unfold val at 1. cbn [value]. rewrite E.
  assert (Hm : map (fun a => value k g a i) args = map (fun a => val a i) args).
  { apply map_ext_in. intros a Ha. pose proof (Hwf k fn args E) as Hlt. rewrite Forall_forall in Hlt.
    specialize (Hlt a Ha). unfold val. apply value_fuel; lia. }
  rewrite Hm. fold is_some. fold unwrap.
  destruct (opt_all (map (fun a => val a i) args)) as [vs|] eqn:Eo.
  - destruct (opt_all_some _ _ Eo) as [H1 H2]. rewrite H1, H2. reflexivity.
  - rewrite (opt_all_none _ Eo). reflexivity.
Qed.

(* ---------- state invariant ---------- *)
Definition idx_of (st : list (nstate V)) (k : nat) : nat :=
  match nth_error st k with Some s => ns_idx s | None => 0%nat end.

Definition node_ok (k : nat) (s : nstate V) : Prop :=
  (forall j, ns_idx s = S j -> exists v, ns_cur s = Some v /\ val k j = Some v)
  /\ (forall bufs, nth_error g k = Some (NStream bufs) -> ns_rest s = skipn (ns_idx s) bufs).

Variable R : nat -> Prop.
Hypothesis Rclosed : forall k f args a, R k -> nth_error g k = Some (NComp f args) -> In a args -> R a.
Hypothesis Rrange : forall k, R k -> (k < length g)%nat.

Definition Inv (i : nat) (st : list (nstate V)) : Prop :=
  length st = length g
  /\ (forall k, R k -> exists s, nth_error st k = Some s /\ (ns_idx s = i \/ ns_idx s = S i) /\ node_ok k s)
  /\ (forall k f args a, R k -> nth_error g k = Some (NComp f args) -> In a args ->
        idx_of st k = S i -> idx_of st a = S i).

Lemma set_nth_length {B} n (x : B) l : length (set_nth n x l) = length l.
Proof. revert n. induction l as [|y l IH]; intros [|n]; simpl; auto. Qed.
Lemma nth_error_set_nth_eq {B} n (x : B) l : (n < length l)%nat -> nth_error (set_nth n x l) n = Some x.
Proof. revert n. induction l as [|y l IH]; intros [|n] H; simpl in *; try lia; auto. apply IH. lia. Qed.
Lemma nth_error_set_nth_neq {B} n m (x : B) l : n <> m -> nth_error (set_nth n x l) m = nth_error l m.
Proof.
  revert n m. induction l as [|y l IH]; intros [|n] [|m] H; simpl; auto; try congruence.
Qed.

Lemma idx_of_set_eq st k s : (k < length st)%nat -> idx_of (set_nth k s st) k = ns_idx s.
Proof. intros H. unfold idx_of. rewrite nth_error_set_nth_eq by exact H. reflexivity. Qed.
Lemma idx_of_set_neq st k j s : k <> j -> idx_of (set_nth k s st) j = idx_of st j.
Proof. intros H. unfold idx_of. rewrite nth_error_set_nth_neq by exact H. reflexivity. Qed.

Lemma Inv_idx_le i st k : Inv i st -> R k -> (idx_of st k <= S i)%nat.
Proof.
  intros (_ & Hn & _) Hk. destruct (Hn k Hk) as (s & E & [H|H] & _); unfold idx_of; rewrite E; lia.
Qed.

Lemma skipn_nil_nth {B} i (l : list B) : skipn i l = [] -> nth_error l i = None.
Proof.
  revert i. induction l as [|x l IH]; intros [|i] H; simpl in *; auto; try discriminate.
Qed.
Lemma skipn_cons_nth {B} i (l : list B) b r : skipn i l = b :: r -> nth_error l i = Some b /\ skipn (S i) l = r.
Proof.
  revert i. induction l as [|x l IH]; intros [|i] H; simpl in *; try discriminate.
  - injection H as -> ->. auto.
  - apply IH. exact H.
Qed.

(* updating node k (which is at i) to S i with a coherent state keeps the invariant *)
Lemma Inv_update i st k s' :
  Inv i st -> R k -> ns_idx s' = S i -> node_ok k s' ->
  (forall f args a, nth_error g k = Some (NComp f args) -> In a args -> idx_of st a = S i) ->
  Inv i (set_nth k s' st).
Proof.
  intros (Hlen & Hn & Hc) Hk Hidx Hok Hargs.
  assert (Hkl : (k < length st)%nat) by (rewrite Hlen; apply Rrange; exact Hk).
  split; [rewrite set_nth_length; exact Hlen|]. split.
  - intros j Hj. destruct (Nat.eq_dec k j) as [<-|Hne].
    + exists s'. rewrite nth_error_set_nth_eq by exact Hkl. auto.
    + rewrite nth_error_set_nth_neq by exact Hne. apply Hn. exact Hj.
  - intros m f args a Hm E Ha Hidxm.
    destruct (Nat.eq_dec k a) as [<-|Hne].
    + rewrite idx_of_set_eq by exact Hkl. exact Hidx.
    + rewrite idx_of_set_neq by exact Hne.
      destruct (Nat.eq_dec k m) as [<-|Hnm].
      * apply (Hargs f args a E Ha).
      * rewrite idx_of_set_neq in Hidxm by exact Hnm. apply (Hc m f args a Hm E Ha Hidxm).
Qed.

Definition mono (st st' : list (nstate V)) : Prop := forall j, (idx_of st j <= idx_of st' j)%nat.

(* ---------- one pull ---------- *)
Lemma get_buffer_ok i : forall fuel k st, (k < fuel)%nat -> R k -> Inv i st ->
  match val k i with
  | Some v => exists st', get_buffer fuel g st k i = ROk (st', v) /\ Inv i st' /\ mono st st' /\ idx_of st' k = S i
  | None => get_buffer fuel g st k i = RStop
  end.
Proof.
  induction fuel as [|fuel IH]; intros k st Hk HR HInv; [lia|].
  (* the argument loop, given the induction hypothesis for smaller node numbers *)
  assert (Hargs : forall args st, Forall (fun a => (a < fuel)%nat /\ R a) args -> Inv i st ->
            match opt_all (map (fun a => val a i) args) with
            | Some vs => exists st', pull_args (fun st0 a => get_buffer fuel g st0 a i) args st = ROk (st', vs)
                           /\ Inv i st' /\ mono st st' /\ Forall (fun a => idx_of st' a = S i) args
            | None => pull_args (fun st0 a => get_buffer fuel g st0 a i) args st = RStop
            end).
  { clear k st Hk HR HInv. induction args as [|a more IHa]; intros st Hall HI.
    - cbn [map opt_all pull_args]. exists st. split; [reflexivity|]. split; [exact HI|]. split; [intros j; lia|constructor].
    - inversion Hall as [|? ? [Ha HRa] Hmore]; subst.
      cbn [map opt_all pull_args]. specialize (IH a st Ha HRa HI).
      destruct (val a i) as [v|].
      + destruct IH as (st1 & E1 & HI1 & Hm1 & Hidx1). rewrite E1.
        specialize (IHa st1 Hmore HI1).
        destruct (opt_all (map (fun a0 => val a0 i) more)) as [vs|].
        * destruct IHa as (st2 & E2 & HI2 & Hm2 & Hidx2). rewrite E2.
          exists st2. split; [reflexivity|]. split; [exact HI2|]. split.
          -- intros j. specialize (Hm1 j). specialize (Hm2 j). lia.
          -- constructor; [|exact Hidx2].
             pose proof (Inv_idx_le i st2 a HI2 HRa). specialize (Hm2 a). lia.
        * rewrite IHa. reflexivity.
      + rewrite IH. reflexivity. }
  cbn [get_buffer]. unfold m_node_cached, m_node_pull.
  pose proof HInv as (Hlen & Hn & Hc).
  destruct (Hn k HR) as (s & Es & Hidx & Hok1 & Hok2).
  assert (Hkg : (k < length g)%nat) by (apply Rrange; exact HR).
  destruct (nth_error g k) as [nd|] eqn:Eg; [|apply nth_error_None in Eg; lia].
  rewrite Es.
  destruct (Nat.eqb_spec (ns_idx s) (S i)) as [Hcached|Hnot].
  - (* already at buffer i *)
    destruct (Hok1 i Hcached) as (v & Ecur & Ev). rewrite Ev, Ecur.
    exists st. split; [reflexivity|]. split; [exact HInv|]. split; [intros j; lia|].
    unfold idx_of. rewrite Es. exact Hcached.
  - destruct Hidx as [Hat|Hbad]; [|congruence].
    rewrite Hat, Nat.eqb_refl.
    destruct nd as [bufs|fn args].
    + (* StreamNode: next(self._stream) *)
      rewrite (val_stream k bufs i Eg).
      pose proof (Hok2 bufs eq_refl) as Hrest. rewrite Hat in Hrest.
      destruct (ns_rest s) as [|b r] eqn:Er.
      * symmetry in Hrest. rewrite (skipn_nil_nth _ _ Hrest). reflexivity.
      * symmetry in Hrest. destruct (skipn_cons_nth _ _ _ _ Hrest) as [Hb Hr]. rewrite Hb.
        eexists. split; [reflexivity|].
        assert (Hkl : (k < length st)%nat) by lia.
        split; [|split].
        -- apply Inv_update; auto.
           ++ split.
              ** intros j Hj. cbn in Hj. injection Hj as <-. exists b. split; [reflexivity|].
                 rewrite (val_stream k bufs i Eg). exact Hb.
              ** intros bufs' E'. rewrite Eg in E'. injection E' as <-. cbn. symmetry. exact Hr.
           ++ intros f args a E'. rewrite Eg in E'. discriminate.
        -- intros j. destruct (Nat.eq_dec k j) as [<-|Hne].
           ++ rewrite idx_of_set_eq by exact Hkl. unfold idx_of. rewrite Es. cbn. lia.
           ++ rewrite idx_of_set_neq by exact Hne. lia.
        -- rewrite idx_of_set_eq by exact Hkl. reflexivity.
    + (* ComputationNode: pull every argument, apply the function *)
      rewrite (val_comp k fn args i Eg).
      assert (Hall : Forall (fun a => (a < fuel)%nat /\ R a) args).
      { pose proof (Hwf k fn args Eg) as Hlt. rewrite Forall_forall in *. intros a Ha. split.
        - specialize (Hlt a Ha). lia.
        - apply (Rclosed k fn args a HR Eg Ha). }
      specialize (Hargs args st Hall HInv).
      destruct (opt_all (map (fun a => val a i) args)) as [vs|] eqn:Eo.
      * destruct Hargs as (st1 & E1 & HI1 & Hm1 & Hidx1). rewrite E1.
        eexists. split; [reflexivity|].
        pose proof HI1 as (Hlen1 & _ & _).
        assert (Hkl : (k < length st1)%nat) by lia.
        split; [|split].
        -- apply Inv_update; auto.
           ++ split.
              ** intros j Hj. cbn in Hj. injection Hj as <-. eexists. split; [reflexivity|].
                 rewrite (val_comp k fn args i Eg), Eo. reflexivity.
              ** intros bufs' E'. rewrite Eg in E'. discriminate.
           ++ intros f args' a E' Ha. rewrite Eg in E'. injection E' as <- <-. rewrite Forall_forall in Hidx1. apply Hidx1. exact Ha.
        -- intros j. destruct (Nat.eq_dec k j) as [<-|Hne].
           ++ rewrite idx_of_set_eq by exact Hkl. cbn.
              pose proof (Inv_idx_le i st k HInv HR). lia.
           ++ rewrite idx_of_set_neq by exact Hne. apply Hm1.
        -- rewrite idx_of_set_eq by exact Hkl. reflexivity.
      * rewrite Hargs. reflexivity.
Qed.

(* ---------- reachability and the step to the next buffer ---------- *)
Inductive reach (root : nat) : nat -> Prop :=
| reach_refl : reach root root
| reach_arg k f args a : reach root k -> nth_error g k = Some (NComp f args) -> In a args -> reach root a.

Lemma Inv_reach_idx i st root : Inv i st -> R root -> idx_of st root = S i ->
  forall j, reach root j -> R j /\ idx_of st j = S i.
Proof.
  intros HI HR Hidx j Hj. induction Hj as [|k f args a Hk [IHR IHi] E Ha]; [auto|].
  split.
  - apply (Rclosed k f args a IHR E Ha).
  - destruct HI as (_ & _ & Hc). apply (Hc k f args a IHR E Ha IHi).
Qed.

Lemma Inv_next i st : Inv i st -> (forall j, R j -> idx_of st j = S i) -> Inv (S i) st.
Proof.
  intros (Hlen & Hn & Hc) Hall. split; [exact Hlen|]. split.
  - intros k Hk. destruct (Hn k Hk) as (s & E & _ & Hok). exists s. split; [exact E|]. split; [|exact Hok].
    left. specialize (Hall k Hk). unfold idx_of in Hall. rewrite E in Hall. exact Hall.
  - intros k f args a Hk E Ha Hidx. specialize (Hall k Hk). lia.
Qed.
End Graph.

(* ---------- construction and iteration ---------- *)
Section Run.
Context {V : Type}.
Variable g : list (node V).
Hypothesis Hwf : wf g.

Definition Rall (k : nat) : Prop := (k < length g)%nat.
Lemma Rall_closed : forall k f args a, Rall k -> nth_error g k = Some (NComp f args) -> In a args -> Rall a.
Proof.
  intros k f args a Hk E Ha. pose proof (Hwf k f args E) as Hlt. rewrite Forall_forall in Hlt.
  specialize (Hlt a Ha). unfold Rall in *. lia.
Qed.
Lemma Rall_range : forall k, Rall k -> (k < length g)%nat.
Proof. auto. Qed.

Lemma Inv_raw : Inv g Rall 0 (map raw_state g).
Proof.
  split; [apply map_length|]. split.
  - intros k Hk. unfold Rall in Hk. destruct (nth_error g k) as [nd|] eqn:E; [|apply nth_error_None in E; lia].
    exists (raw_state nd). split; [rewrite nth_error_map, E; reflexivity|]. split.
    + left. destruct nd; reflexivity.
    + split.
      * intros j Hj. destruct nd; discriminate.
      * intros bufs E'. rewrite E in E'. injection E' as ->. reflexivity.
  - intros k f args a Hk E Ha Hidx. unfold idx_of in Hidx. rewrite nth_error_map, E in Hidx. discriminate.
Qed.

Lemma construct_from_ok : forall todo k st, (k + todo = length g)%nat ->
  Inv g Rall 0 st -> (forall j, (j < k)%nat -> idx_of st j = 1%nat) ->
  (forall j, (j < length g)%nat -> val g j 0 <> None) ->
  exists st', construct_from g st k todo = ROk st' /\ Inv g Rall 0 st'
              /\ forall j, (j < length g)%nat -> idx_of st' j = 1%nat.
Proof.
  induction todo as [|t IH]; intros k st Hsum HI Hdone Hval.
  - exists st. split; [reflexivity|]. split; [exact HI|]. intros j Hj. apply Hdone. lia.
  - cbn [construct_from].
    pose proof (get_buffer_ok g Hwf Rall Rall_closed Rall_range 0 (S k) k st (Nat.lt_succ_diag_r k)) as H.
    assert (Hk : Rall k) by (unfold Rall; lia).
    specialize (H Hk HI). destruct (val g k 0) as [v|] eqn:Ev; [|exfalso; apply (Hval k); [lia|exact Ev]].
    destruct H as (st1 & E1 & HI1 & Hm1 & Hidx1). rewrite E1.
    apply (IH (S k) st1); [lia|exact HI1| |exact Hval].
    intros j Hj. destruct (Nat.eq_dec j k) as [->|Hne]; [exact Hidx1|].
    pose proof (Inv_idx_le g Rall 0 st1 j HI1 ltac:(unfold Rall; lia)).
    specialize (Hm1 j). rewrite (Hdone j) in Hm1 by lia. lia.
Qed.

Variable root : nat.
Hypothesis Hroot : (root < length g)%nat.
Definition Rr := reach g root.
Lemma Rr_closed : forall k f args a, Rr k -> nth_error g k = Some (NComp f args) -> In a args -> Rr a.
Proof. intros k f args a Hk E Ha. exact (reach_arg g root k f args a Hk E Ha). Qed.
Lemma Rr_range : forall k, Rr k -> (k < length g)%nat.
Proof.
  intros k Hk. induction Hk as [|k f args a Hk IH E Ha]; [exact Hroot|].
  pose proof (Hwf k f args E) as Hlt. rewrite Forall_forall in Hlt. specialize (Hlt a Ha). lia.
Qed.

Lemma Inv_weaken i st : Inv g Rall i st -> Inv g Rr i st.
Proof.
  intros (Hlen & Hn & Hc). split; [exact Hlen|]. split.
  - intros k Hk. apply Hn. apply Rr_range. exact Hk.
  - intros k f args a Hk. apply Hc. apply Rr_range. exact Hk.
Qed.

Lemma iter_from_ok : forall m i rounds st, Inv g Rr i st ->
  (forall d, (d < m)%nat -> val g root (i + d) <> None) -> val g root (i + m) = None -> (m < rounds)%nat ->
  exists vs, iter_from rounds g st root i = ROk vs
             /\ map Some vs = map (fun d => val g root (i + d)) (seq 0 m).
Proof.
  induction m as [|m IH]; intros i rounds st HI Hsome Hnone Hr; (destruct rounds as [|r]; [lia|]); cbn [iter_from].
  - pose proof (get_buffer_ok g Hwf Rr Rr_closed Rr_range i (S root) root st (Nat.lt_succ_diag_r root)
                  (reach_refl g root) HI) as H.
    rewrite Nat.add_0_r in Hnone. rewrite Hnone in H. rewrite H. exists []. auto.
  - pose proof (get_buffer_ok g Hwf Rr Rr_closed Rr_range i (S root) root st (Nat.lt_succ_diag_r root)
                  (reach_refl g root) HI) as H.
    destruct (val g root i) as [v|] eqn:Ev.
    2:{ exfalso. apply (Hsome 0%nat); [lia|]. rewrite Nat.add_0_r. exact Ev. }
    destruct H as (st1 & E1 & HI1 & Hm1 & Hidx1). rewrite E1.
    assert (HI2 : Inv g Rr (S i) st1).
    { apply Inv_next; [exact HI1|]. intros j Hj.
      apply (Inv_reach_idx g Rr Rr_closed i st1 root HI1 (reach_refl g root) Hidx1 j Hj). }
    destruct (IH (S i) r st1 HI2) as (vs & E2 & Hvs).
    + intros d Hd. replace (S i + d)%nat with (i + S d)%nat by lia. apply Hsome. lia.
    + replace (S i + m)%nat with (i + S m)%nat by lia. exact Hnone.
    + lia.
    + rewrite E2. exists (v :: vs). split; [reflexivity|].
      cbn [seq map]. rewrite Nat.add_0_r, Ev. f_equal.
      rewrite Hvs. rewrite <- seq_shift, map_map. apply map_ext. intros d. f_equal. lia.
Qed.

Theorem graph_lockstep_run : forall m,
  (forall j, (j < length g)%nat -> val g j 0 <> None) ->
  (forall d, (d < m)%nat -> val g root d <> None) -> val g root m = None -> (m <= S (max_stream_len g))%nat ->
  exists vs, run_graph g root = ROk vs /\ map Some vs = map (val g root) (seq 0 m).
Proof.
  intros m Hfirst Hsome Hnone Hm. unfold run_graph, construct.
  destruct (construct_from_ok (length g) 0 (map raw_state g) eq_refl Inv_raw) as (st0 & E0 & HI0 & Hall0).
  { intros j Hj. lia. }
  { exact Hfirst. }
  rewrite E0.
  destruct (iter_from_ok m 0 (S (S (max_stream_len g))) st0 (Inv_weaken 0 st0 HI0)) as (vs & E & Hvs).
  - exact Hsome.
  - exact Hnone.
  - lia.
  - exists vs. split; [exact E|exact Hvs].
Qed.
End Run.

(* ---------- the pipeline graphs are well-formed; the mean reduction ---------- *)
Lemma pipeline_graph_wf : forall p sizes a b, wf (fst (pipeline_graph p sizes a b)).
Proof.
  intros p sizes a b k f args E.
  destruct p; cbn [pipeline_graph fst intervals_nodes app] in E;
    do 15 (try (destruct k as [|k]; cbn [nth_error] in E;
                [try discriminate; try (injection E as <- <-; repeat constructor; lia)|]));
    try (destruct k; discriminate).
Qed.

Lemma sn_padadd_combine : forall a b, length a = length b ->
  map (fun '(p, q) => pair_add p q) (combine a b) = sn_padadd a b.
Proof.
  induction a as [|x a IH]; intros [|y b] H; simpl in H; try lia; [reflexivity|].
  cbn [combine map sn_padadd]. rewrite IH by lia. reflexivity.
Qed.
Lemma red_mean_equal_lengths : forall a b, length a = length b ->
  red_mean (GSN a) (GSN b) = red_mean_fixed (GSN a) (GSN b).
Proof.
  intros a b H. cbn [red_mean red_mean_fixed]. rewrite H, Nat.eqb_refl. rewrite sn_padadd_combine by exact H.
  reflexivity.
Qed.

(* Proofs/C04_sam.v — T1 for SAM (LF): SAMBuffer.from_raw_buffer / _get_buffer_extractor on the layout of ANY >= 1
   records with >= 11 clean columns each (ragged: any number of optional tag columns) yields a well-formed, contiguous
   extractor whose abstraction is the records' (11 common columns; the tags are reached as rest-of-line). *)
From Coq Require Import ZArith List Bool Lia.
From BNP Require Import Base.Prims Base.PrimsFacts Model.C04 Proofs.C04 Proofs.C04_raw Proofs.C04_lines.
Import ListNotations.
Open Scope Z_scope.

(* per-line column table: (start, length) of every column, absolute *)
Fixpoint offs_tbl (pos : Z) (L : list (list (list Z))) : list (list (Z * Z)) :=
  match L with [] => [] | cols :: rest => col_offsets pos cols :: offs_tbl (pos + len (lrawL cols)) rest end.

Lemma sblocks_offs L : forall pos, Forall line_ok L ->
  map (map (Z.add 1)) (sblocksL (pos - 1) pos L) = map (map fst) (offs_tbl pos L).
Proof.
  induction L as [|cols L IH]; intros pos H; [reflexivity|].
  inversion H as [|? ? (Hc & _) HL]; subst.
  change (sblocksL (pos - 1) pos (cols :: L)) with
    (((pos - 1) :: removelast (delims_rec pos cols)) :: sblocksL (pos + len (lrawL cols) - 1) (pos + len (lrawL cols)) L).
  change (offs_tbl pos (cols :: L)) with (col_offsets pos cols :: offs_tbl (pos + len (lrawL cols)) L).
  rewrite (map_cons (map (Z.add 1))), (map_cons (map (@fst Z Z))). rewrite starts_offsets by auto. f_equal. apply IH; auto.
Qed.

Lemma blocks_offs L : forall pos, blocksL pos L = map (map (fun sl => fst sl + snd sl)) (offs_tbl pos L).
Proof.
  induction L as [|cols L IH]; intros pos; [reflexivity|].
  simpl. rewrite delims_rec_offsets. f_equal. apply IH.
Qed.

Lemma split_counts_concat (bs : list (list Z)) : split_counts (map (fun b => len b) bs) (concat bs) = bs.
Proof.
  induction bs as [|b bs IH]; [reflexivity|].
  assert (E : Z.to_nat (len b) = length b) by (unfold len; apply Nat2Z.id).
  change (split_counts (map (fun b0 : list Z => len b0) (b :: bs)) (concat (b :: bs)))
    with (firstn (Z.to_nat (len b)) (b ++ concat bs) :: split_counts (map (fun b0 : list Z => len b0) bs) (skipn (Z.to_nat (len b)) (b ++ concat bs))).
  rewrite E. rewrite firstn_app, Nat.sub_diag, firstn_all. simpl firstn. rewrite app_nil_r.
  f_equal. rewrite skipn_app, Nat.sub_diag, skipn_all. simpl. exact IH.
Qed.

Lemma diff_ends_idx L : forall i c, diff (ends_idxL i (c :: L)) = map (fun cols : list (list Z) => len cols) L.
Proof.
  induction L as [|c' L IH]; intros i c; [reflexivity|].
  change (ends_idxL i (c :: c' :: L)) with ((i + len c - 1) :: ends_idxL (i + len c) (c' :: L)).
  change (ends_idxL (i + len c) (c' :: L)) with ((i + len c + len c' - 1) :: ends_idxL (i + len c + len c') L) at 1.
  change (diff ((i + len c - 1) :: (i + len c + len c' - 1) :: ends_idxL (i + len c + len c') L))
    with ((i + len c + len c' - 1 - (i + len c - 1)) :: diff ((i + len c + len c' - 1) :: ends_idxL (i + len c + len c') L)).
  change ((i + len c + len c' - 1) :: ends_idxL (i + len c + len c') L) with (ends_idxL (i + len c) (c' :: L)).
  rewrite IH. simpl. f_equal. lia.
Qed.

Lemma zip_with_firstn {A B C} (f : A -> B -> C) n : forall a b,
  zip_with f (firstn n a) (firstn n b) = firstn n (zip_with f a b).
Proof. induction n; intros [|x a] [|y b]; simpl; auto. f_equal; auto. Qed.

Definition samrow (pos : Z) (cols : list (list Z)) : xrow :=
  {| r_s := pos; r_e := pos + len (lrawL cols);
     r_fs := firstn 11 (map fst (col_offsets pos cols)); r_fl := firstn 11 (map snd (col_offsets pos cols)) |}.
Fixpoint samrows (pos : Z) (L : list (list (list Z))) : list xrow :=
  match L with [] => [] | cols :: rest => samrow pos cols :: samrows (pos + len (lrawL cols)) rest end.

Definition sam_expected (L : list (list (list Z))) : ext :=
  let st := map (map fst) (offs_tbl 0 L) in
  let en := blocksL 0 L in
  let starts := map (firstn 11) st in
  let ends := map (firstn 11) en in
  {| x_data := concat (map lrawL L); x_fs := starts; x_fl := zip_with vsub ends starts;
     x_es := map hd0 starts; x_ee := map (fun r => last0 r + 1) en; x_contig := true |}.

Lemma rows_sam_gen L : forall pos, Forall line_ok L ->
  let starts := map (firstn 11) (map (map fst) (offs_tbl pos L)) in
  let ends := map (firstn 11) (blocksL pos L) in
  zip4 (map hd0 starts) (map (fun r => last0 r + 1) (blocksL pos L)) starts (zip_with vsub ends starts) = samrows pos L.
Proof.
  induction L as [|cols L IH]; intros pos H; [reflexivity|].
  inversion H as [|? ? (Hc & _) HL]; subst. specialize (IH (pos + len (lrawL cols)) HL). cbv zeta in *.
  change (offs_tbl pos (cols :: L)) with (col_offsets pos cols :: offs_tbl (pos + len (lrawL cols)) L).
  change (blocksL pos (cols :: L)) with (delims_rec pos cols :: blocksL (pos + len (lrawL cols)) L).
  rewrite !map_cons.
  set (ST := map (firstn 11) (map (map fst) (offs_tbl (pos + len (lrawL cols)) L))) in *.
  set (BB := blocksL (pos + len (lrawL cols)) L) in *.
  change (zip_with vsub (firstn 11 (delims_rec pos cols) :: map (firstn 11) BB) (firstn 11 (map fst (col_offsets pos cols)) :: ST))
    with (vsub (firstn 11 (delims_rec pos cols)) (firstn 11 (map fst (col_offsets pos cols))) :: zip_with vsub (map (firstn 11) BB) ST).
  unfold vsub at 1. rewrite zip_with_firstn. fold (vsub (delims_rec pos cols) (map fst (col_offsets pos cols))).
  rewrite lens_offsets.
  change (samrows pos (cols :: L)) with (samrow pos cols :: samrows (pos + len (lrawL cols)) L).
  rewrite <- IH. unfold samrow.
  assert (Hh : hd0 (firstn 11 (map fst (col_offsets pos cols))) = pos) by (destruct cols; [congruence|reflexivity]).
  assert (Hl : last0 (delims_rec pos cols) + 1 = pos + len (lrawL cols)).
  { unfold last0. rewrite last_delims_rec by auto. rewrite len_lrawL. lia. }
  rewrite Hh, Hl. reflexivity.
Qed.

Definition gvS (cols : list (list Z)) : arow := {| a_rec := lrawL cols; a_rel := firstn 11 (col_offsets 0 cols) |}.

Lemma combine_firstn {A B} n : forall (a : list A) (b : list B), combine (firstn n a) (firstn n b) = firstn n (combine a b).
Proof. induction n; intros [|x a] [|y b]; simpl; auto. f_equal; auto. Qed.
Lemma map_firstn {A B} (f : A -> B) n : forall l, map f (firstn n l) = firstn n (map f l).
Proof. induction n; intros [|x l]; simpl; auto. f_equal; auto. Qed.

Lemma view_samrows L : forall (pre post : list Z),
  map (arow_of (pre ++ concat (map lrawL L) ++ post)) (samrows (len pre) L) = map gvS L.
Proof.
  induction L as [|cols L IH]; intros pre post; [reflexivity|].
  change (samrows (len pre) (cols :: L)) with (samrow (len pre) cols :: samrows (len pre + len (lrawL cols)) L).
  rewrite !map_cons. f_equal.
  - unfold arow_of, samrow, gvS; cbn [r_s r_e r_fs r_fl]. f_equal.
    + rewrite concat_cons, <- app_assoc. pose proof (len_nonneg (lrawL cols)).
      replace (len pre) with (len pre + 0) at 1 by lia. rewrite slice_mid by lia. apply slice_full; lia.
    + rewrite map_firstn, combine_firstn. f_equal. apply col_offsets_shift.
  - specialize (IH (pre ++ lrawL cols) post). rewrite len_app in IH. rewrite <- IH.
    rewrite concat_cons, <- !app_assoc. reflexivity.
Qed.

Lemma Forall_firstn {A} (P : A -> Prop) n : forall l, Forall P l -> Forall P (firstn n l).
Proof. induction n; intros [|x l] H; simpl; auto. inversion H; subst. constructor; auto. Qed.

Lemma samrows_ok L : forall pos total, Forall line_ok L ->
  0 <= pos -> pos + len (concat (map lrawL L)) <= total -> Forall (row_ok total) (samrows pos L).
Proof.
  induction L as [|cols L IH]; intros pos total H Hp Ht; [constructor|].
  inversion H as [|? ? (Hc & _) HL]; subst.
  change (samrows pos (cols :: L)) with (samrow pos cols :: samrows (pos + len (lrawL cols)) L).
  rewrite map_cons, concat_cons, len_app in Ht.
  pose proof (len_nonneg (lrawL cols)). pose proof (len_nonneg (concat (map lrawL L))).
  constructor.
  - unfold row_ok, samrow; cbn [r_s r_e r_fs r_fl]. repeat split; try lia.
    + rewrite !firstn_length, !map_length. reflexivity.
    + rewrite combine_firstn, combine_fst_snd. apply Forall_firstn.
      pose proof (col_offsets_ok cols pos) as G. rewrite <- len_intercalate in G by auto. rewrite len_lrawL. exact G.
  - apply (IH (pos + len (lrawL cols)) total); auto; lia.
Qed.

Lemma length_offs_tbl L : forall pos, length (offs_tbl pos L) = length L.
Proof. induction L; intros; simpl; auto. Qed.
Lemma length_blocksL' L : forall pos, length (blocksL pos L) = length L.
Proof. induction L; intros; simpl; auto. Qed.

Lemma rows_sam_expected L : Forall line_ok L -> rows (sam_expected L) = samrows 0 L.
Proof. intros H. unfold rows, sam_expected; simpl. apply (rows_sam_gen L 0 H). Qed.

Lemma view_sam_expected L : Forall line_ok L -> view (sam_expected L) = map gvS L.
Proof.
  intros H. unfold view. rewrite rows_sam_expected by auto. simpl x_data.
  pose proof (view_samrows L [] []) as G. simpl in G. rewrite app_nil_r in G. exact G.
Qed.

Lemma Inv_sam_expected L : Forall line_ok L -> Inv (sam_expected L).
Proof.
  intros H. split; [|split].
  - unfold shape_ok, sam_expected; simpl.
    rewrite !map_length, zip_with_length, !map_length, length_offs_tbl, length_blocksL'. repeat split; lia.
  - rewrite rows_sam_expected by auto. simpl x_data. apply samrows_ok; auto; lia.
  - intros _. rewrite view_sam_expected by auto. simpl x_data. rewrite map_map. reflexivity.
Qed.

Definition sam_line_ok (cols : list (list Z)) : Prop := (11 <= length cols)%nat /\ Forall clean cols.

Lemma sam_line_line cols : sam_line_ok cols -> line_ok cols.
Proof.
  intros (H11 & Hc). split; [destruct cols; simpl in *; [lia|discriminate]|].
  eapply Forall_impl; [|exact Hc]. intros c Hcc. eapply Forall_impl; [|exact Hcc]. intros b (A & B & _). auto.
Qed.

Lemma no_cr_lines L : Forall sam_line_ok L -> Forall (fun b => b <> CR) (concat (map lrawL L)).
Proof.
  induction 1 as [|cols L (_ & Hc) HL IH]; simpl; [constructor|].
  apply Forall_app; split; auto. unfold lrawL. apply Forall_app; split; [apply no_cr_intercalate; auto|].
  constructor; [unfold LF, CR; lia|constructor].
Qed.

(* the pipeline on lines with >= 11 columns each (columns may contain CR), carriage-return adjustment left symbolic *)
Definition sam_pre (L : list (list (list Z))) : ext :=
  let data := concat (map lrawL L) in
  let st := map (map fst) (offs_tbl 0 L) in
  let en := blocksL 0 L in
  let starts := map (firstn 11) st in
  let ends := map (firstn 11) (modify_cr_last data en) in
  {| x_data := data; x_fs := starts; x_fl := zip_with vsub ends starts;
     x_es := map hd0 starts; x_ee := map (fun r => last0 r + 1) en; x_contig := true |}.

Lemma from_sam_lines L : L <> [] -> Forall line_ok L -> Forall (fun cols : list (list Z) => (11 <= length cols)%nat) L ->
  from_sam (concat (map lrawL L)) = Some (sam_pre L).
Proof.
  intros Hn HL H.
  destruct (table_prefix L Hn HL) as (HD & HE & HF & HC). cbv zeta in *.
  unfold from_sam. cbv zeta. rewrite HF, HC. rewrite HE at 1.
  destruct L as [|c L']; [congruence|].
  change (ends_idxL 0 (c :: L')) with ((0 + len c - 1) :: ends_idxL (0 + len c) L') at 1. cbv iota.
  rewrite HE. rewrite diff_ends_idx.
  replace (0 + len c - 1 + 1) with (len c) by lia.
  change (len c :: map (fun cols : list (list Z) => len cols) L') with (map (fun cols : list (list Z) => len cols) (c :: L')).
  set (LL := c :: L') in *.
  rewrite HD. cbn [tl].
  rewrite removelast_blocksL by auto.
  assert (Hcounts : map (fun cols : list (list Z) => len cols) LL = map (fun b : list Z => len b) (blocksL 0 LL)).
  { clear. generalize 0. induction LL as [|cols LL IH]; intros p; [reflexivity|]. simpl. f_equal; [|apply IH].
    unfold len. rewrite length_delims_rec. reflexivity. }
  pose proof (sblocks_offs LL 0 HL) as Hso. change (0 - 1) with (-1) in Hso.
  assert (Hcounts2 : map (fun cols : list (list Z) => len cols) LL = map (fun b : list Z => len b) (map (map (Z.add 1)) (sblocksL (-1) 0 LL))).
  { rewrite Hso. clear. generalize 0. induction LL as [|cols LL IH]; intros p; [reflexivity|]. simpl. f_equal; [|apply IH].
    unfold len. rewrite map_length, length_col_offsets. reflexivity. }
  assert (Hst : split_counts (map (fun cols : list (list Z) => len cols) LL) (map (Z.add 1) (concat (sblocksL (-1) 0 LL)))
                = map (map fst) (offs_tbl 0 LL)).
  { rewrite concat_map. rewrite Hcounts2 at 1. rewrite split_counts_concat. exact Hso. }
  assert (Hen : split_counts (map (fun cols : list (list Z) => len cols) LL) (concat (blocksL 0 LL)) = blocksL 0 LL).
  { rewrite Hcounts at 1. apply split_counts_concat. }
  rewrite Hst, Hen.
  assert (H11 : forallb (fun c0 => 11 <=? c0) (map (fun cols : list (list Z) => len cols) LL) = true).
  { rewrite forallb_forall. intros z Hz. apply in_map_iff in Hz. destruct Hz as (cols & <- & Hin).
    rewrite Forall_forall in H. pose proof (H cols Hin) as Hk. unfold len. apply Z.leb_le. lia. }
  rewrite H11. reflexivity.
Qed.

Theorem from_sam_layout L : L <> [] -> Forall sam_line_ok L ->
  from_sam (concat (map lrawL L)) = Some (sam_expected L).
Proof.
  intros Hn H.
  assert (HL : Forall line_ok L) by (eapply Forall_impl; [|exact H]; apply sam_line_line).
  rewrite from_sam_lines; auto.
  - unfold sam_pre, sam_expected. rewrite modify_cr_none by (apply no_cr_lines; auto). reflexivity.
  - eapply Forall_impl; [|exact H]. intros cols (A & _); auto.
Qed.

(* ---- in terms of the generator's records ---- *)
Definition sam_rec_wf (r : grec) : Prop := sam_line_ok (g_cols r) /\ g_eol r = [LF].

Theorem from_sam_correct recs : recs <> [] -> Forall sam_rec_wf recs ->
  exists x, from_sam (layout FSam recs) = Some x /\ Inv x /\ view x = map (gview FSam) recs /\ x_contig x = true
            /\ width_ok FSam (view x).
Proof.
  intros Hn H. set (L := map g_cols recs).
  assert (HLn : L <> []) by (destruct recs; [congruence|discriminate]).
  assert (HL : Forall sam_line_ok L) by (unfold L; rewrite Forall_map; eapply Forall_impl; [|exact H]; intros r (A & _); auto).
  assert (HLo : Forall line_ok L) by (eapply Forall_impl; [|exact HL]; apply sam_line_line).
  assert (Hlay : layout FSam recs = concat (map lrawL L)).
  { unfold layout, L. rewrite map_map. f_equal. apply map_ext_Forall. eapply Forall_impl; [|exact H].
    intros r (_ & He). unfold g_raw, raw_of, lrawL. rewrite He. reflexivity. }
  assert (HV : map (gview FSam) recs = map gvS L).
  { unfold L. rewrite map_map. apply map_ext_Forall. eapply Forall_impl; [|exact H].
    intros r (_ & He). unfold gview, gvS, g_raw, raw_of, lrawL. rewrite He. reflexivity. }
  exists (sam_expected L). rewrite Hlay, HV.
  split; [apply from_sam_layout; auto|]. split; [apply Inv_sam_expected; auto|].
  split; [apply view_sam_expected; auto|]. split; [reflexivity|].
  rewrite view_sam_expected by auto. simpl. unfold width_gt. rewrite !Forall_map. split.
  - eapply Forall_impl; [|exact HL]. intros cols (H11 & _). unfold gvS. cbn [a_rel]. rewrite firstn_length, length_col_offsets. lia.
  - eapply Forall_impl; [|exact HL]. intros cols (H11 & _). unfold gvS. cbn [a_rec]. rewrite len_lrawL.
    destruct cols as [|c [|c' r]]; simpl in H11; try lia. rewrite intercalate_cons2, !len_app. change (len [TAB]) with 1.
    pose proof (len_nonneg c). pose proof (len_nonneg (intercalate [TAB] (c' :: r))). lia.
Qed.

(* ---- end to end for the tabular formats (BED.., VCF, SAM): programs without replacement ---- *)
Definition tabular (f : fmt) : Prop := match f with FDelim _ | FVcf _ | FSam => True | _ => False end.

Lemma match_rows_raw_tab f rows : tabular f -> Forall (raw_row f) rows ->
  match_rows f rows (concat (map s_raw rows)) = true.
Proof.
  intros Hf. induction 1 as [|r rows Hr Hrs IH]; [reflexivity|].
  simpl. assert (E : row_variants f r = [raw_of f (s_cols r) [] (s_eol r); raw_of f (s_cols r) [] [LF]])
    by (destruct f; try contradiction; reflexivity).
  rewrite E. simpl. rewrite <- Hr. rewrite is_prefix_app. exact IH.
Qed.

Lemma spec_eval_repl_free_tab f recs p : tabular f -> repl_free p = true ->
  Forall (raw_row f) (fst (spec_eval f (map (srow_of f) recs) p)) /\
  map s_raw (fst (spec_eval f (map (srow_of f) recs) p)) = map a_rec (aeval (map (gview f) recs) p).
Proof.
  intros Hf. induction p as [|sel p IH|ps IH|j txt p IH|p IH] using prog_ind'; simpl; intros Hr; try discriminate.
  - split.
    + rewrite Forall_map. apply Forall_forall. intros r _. unfold raw_row, srow_of; simpl. unfold g_raw.
      destruct f; try contradiction; reflexivity.
    + rewrite !map_map. reflexivity.
  - destruct (IH Hr) as (A & B). destruct (spec_eval f (map (srow_of f) recs) p) as [r b]. simpl in *. split.
    + unfold takeA. rewrite Forall_map. apply Forall_forall. intros i _.
      destruct (nth_in_or_default (Z.to_nat i) r dummy_srow) as [Hin|Hd].
      * rewrite Forall_forall in A. apply A; auto.
      * rewrite Hd. unfold raw_row, dummy_srow; simpl. destruct f; try contradiction; reflexivity.
    + rewrite !map_takeA. simpl. rewrite B. reflexivity.
  - assert (G : Forall (fun p => Forall (raw_row f) (fst (spec_eval f (map (srow_of f) recs) p)) /\
                                 map s_raw (fst (spec_eval f (map (srow_of f) recs) p)) = map a_rec (aeval (map (gview f) recs) p)) ps).
    { rewrite Forall_forall in *. intros p Hp. apply IH; auto. rewrite forallb_forall in Hr. apply Hr; auto. }
    clear IH Hr. induction G as [|p ps (A & B) Hps (IA & IB)]; simpl; [split; [constructor|reflexivity]|].
    split.
    + apply Forall_app; split; auto.
    + rewrite !map_app. f_equal; auto.
  - apply IH; auto.
Qed.

(* generic composition: any tabular format whose reader yields a well-formed extractor with the records' abstraction *)
Lemma tabular_end_to_end v f recs x0 p out :
  tabular f -> read v f (layout f recs) = Some (SLazy x0 []) ->
  Inv x0 -> width_ok f (view x0) -> view x0 = map (gview f) recs -> repl_free p = true ->
  model_out_v v f (layout f recs) p = Some out -> spec_out_ok f recs p (Some out) = true.
Proof.
  intros Hf Hread I0 W V0 Hr Hm. unfold model_out_v in Hm. rewrite Hread in Hm.
  assert (Hc : has_concatenate f = true) by (destruct f; try contradiction; reflexivity).
  apply (selection_write v f x0 p out I0 W (or_introl Hc) Hr) in Hm. subst out.
  unfold spec_out_ok. destruct (spec_eval_repl_free_tab f recs p Hf Hr) as (A & B).
  destruct (spec_eval f (map (srow_of f) recs) p) as [rows pure]. simpl in *.
  rewrite V0, <- B. destruct pure.
  - apply zlist_eqb_refl.
  - apply match_rows_raw_tab; auto.
Qed.

Theorem sam_selection_end_to_end v recs p out :
  recs <> [] -> Forall sam_rec_wf recs -> repl_free p = true ->
  model_out_v v FSam (layout FSam recs) p = Some out -> spec_out_ok FSam recs p (Some out) = true.
Proof.
  intros Hn H Hr Hm. destruct (from_sam_correct recs Hn H) as (x0 & Hx & I0 & V0 & _ & W).
  eapply (tabular_end_to_end v FSam recs x0); eauto. - exact I. - simpl. rewrite Hx. reflexivity.
Qed.

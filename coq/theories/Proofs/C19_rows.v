(* Proofs/C19_rows.v — T3 at table level: building a table from rows and reading the rows back. *)
From Coq Require Import ZArith List Bool Lia Arith.
From BNP Require Import Base.Prims Base.PrimsFacts Model.C19 Proofs.C19.
Import ListNotations.
Open Scope Z_scope.

(* a predicate that holds row-wise (cell j of every row against key j) holds column-wise after transposition *)
Lemma zip_rows_Forall2 {A K} (P : K -> A -> Prop) (ks : list K) (M : list (list A)) :
  M <> [] -> Forall (fun r => Forall2 P ks r) M ->
  Forall2 (fun k col => Forall (P k) col /\ length col = length M) ks (zip_rows M).
Proof.
  induction M as [|r M IH]; intros Hne Hall; [congruence|].
  inversion Hall as [|? ? Hr HM]; subst.
  destruct M as [|r' M].
  - rewrite zip_rows_single. clear - Hr. induction Hr as [|k x ks r Hk Hr IH]; simpl; constructor; auto.
  - rewrite zip_rows_cons2.
    specialize (IH ltac:(congruence) HM). remember (zip_rows (r' :: M)) as Z eqn:EZ. clear EZ.
    remember (length (r' :: M)) as n eqn:En.
    replace (length (r :: r' :: M)) with (S n) by (subst n; reflexivity). clear En HM Hall Hne.
    revert Z IH. induction Hr as [|k x ks r Hk Hr IHr]; intros Z IH; inversion IH as [|? z ? Z' [Hz Hl] IH']; subst; simpl; constructor.
    + split; [constructor; assumption|simpl; lia].
    + apply IHr. exact IH'.
Qed.

Lemma Forall2_length' {A B} (P : A -> B -> Prop) l1 l2 : Forall2 P l1 l2 -> length l1 = length l2.
Proof. induction 1; simpl; congruence. Qed.

(* acceptable python cells for a field *)
Definition mb_good (k : kind) (b : mb) : Prop := mb_ok k b = true /\ mb_small b.
Definition cell_good (f : list Z * fk) (c : mcell) : Prop :=
  match snd f, c with
  | FB k, MB b => mb_good k b
  | FN ks, MN r => ks <> [] /\ Forall2 (fun kk b => mb_good (snd kk) b) ks r
  | _, _ => False
  end.

Lemma all_MB_inv cells l : all_MB cells = Some l -> cells = map MB l.
Proof.
  intros H. apply map_opt_Forall2 in H. induction H as [|c b cells l Hc H IH]; [reflexivity|].
  destruct c; try discriminate. injection Hc as <-. simpl. rewrite IH. reflexivity.
Qed.
Lemma all_MN_inv cells l : all_MN cells = Some l -> cells = map MN l.
Proof.
  intros H. apply map_opt_Forall2 in H. induction H as [|c b cells l Hc H IH]; [reflexivity|].
  destruct c; try discriminate. injection Hc as <-. simpl. rewrite IH. reflexivity.
Qed.

Lemma map2o_Forall2 {A B C} (f : A -> B -> option C) a b c :
  map2o f a b = Some c -> Forall2 (fun x z => exists y, f (fst x) (snd x) = Some z /\ y = tt) (combine a b) c /\ length a = length b.
Proof.
  revert b c. induction a as [|x a IH]; intros [|y b] c H; simpl in H; try discriminate.
  - injection H as <-. split; [constructor|reflexivity].
  - destruct (f x y) as [z|] eqn:E; [|discriminate]. destruct (map2o f a b) as [r|] eqn:Er; [|discriminate].
    injection H as <-. destruct (IH b r Er) as [I1 I2]. split; [|simpl; lia].
    simpl. constructor; [exists tt; auto|exact I1].
Qed.

(* one field: the column the constructor builds from the cells of that field holds exactly those cells *)
Lemma field_roundtrip f cells a c n :
  cells <> [] -> length cells = n -> Forall (cell_good f) cells ->
  arg_of_cells (snd f) cells = Some a -> col_of_arg (snd f) a = Some c ->
  ecol c = map erase cells /\ col_aligned n c = true.
Proof.
  intros Hne Hn Hg Ha Hc. destruct f as [name [k|ks]]; simpl in *.
  - destruct (all_MB cells) as [l|] eqn:E; [|discriminate]. injection Ha as <-. simpl in Hc.
    destruct (bcol_of_cells k l) as [b|] eqn:Eb; [|discriminate]. injection Hc as <-.
    apply all_MB_inv in E. subst cells.
    assert (G : Forall (fun b => mb_ok k b = true) l /\ Forall mb_small l).
    { clear - Hg. induction l as [|b l IH]; [split; constructor|].
      inversion Hg as [|? ? H12 Hg']; subst. destruct H12 as [H1 H2]. destruct (IH Hg'). split; constructor; assumption. }
    destruct G as [G1 G2]. unfold bcol_of_cells in Eb.
    destruct (column_roundtrip _ _ k l b Eb G1 G2) as [R1 R2].
    split.
    + rewrite ecol_base, R1, !map_map. reflexivity.
    + simpl. apply Nat.eqb_eq. rewrite R2, <- Hn, map_length. reflexivity.
  - destruct (all_MN cells) as [rs|] eqn:E; [|discriminate]. apply all_MN_inv in E. subst cells.
    rewrite map_length in *.
    assert (Hrs : rs <> []) by (destruct rs; [exfalso; apply Hne; reflexivity|congruence]).
    assert (Ea : a = ANest (zip_rows rs)) by (destruct rs; [congruence|injection Ha as <-; reflexivity]).
    subst a. simpl in Hc.
    destruct (map2o (fun kk l => bcol_of_cells (snd kk) l) ks (zip_rows rs)) as [cs|] eqn:Ecs; [|discriminate].
    assert (Hks : ks <> []).
    { destruct rs as [|r rs]; [congruence|]. inversion Hg as [|? ? Hg1 _]; subst. simpl in Hg1. apply Hg1. }
    assert (HF : Forall (fun r => Forall2 (fun kk b => mb_good (snd kk) b) ks r) rs).
    { clear - Hg. induction rs as [|r rs IH]; [constructor|]. inversion Hg as [|? ? Hg1 Hg']; subst.
      constructor; [apply Hg1|apply IH; exact Hg']. }
    assert (Hcols := zip_rows_Forall2 _ ks rs Hrs HF).
    (* every nested column round-trips *)
    assert (Key : map ecells cs = map (map erase_b) (zip_rows rs) /\ Forall (fun c => bcol_len c = length rs) cs /\ cs <> []).
    { clear Hc Ha Hg HF. revert cs Ecs. generalize dependent (zip_rows rs). intros Z HZ.
      induction HZ as [|kk col ks Z [Hcol Hlen] HZ IH]; intros cs Ecs.
      - congruence.
      - simpl in Ecs. destruct (bcol_of_cells (snd kk) col) as [b|] eqn:Eb; [|discriminate].
        destruct (map2o (fun kk0 l => bcol_of_cells (snd kk0) l) ks Z) as [cs'|] eqn:E'; [|discriminate].
        injection Ecs as <-.
        assert (G1 : Forall (fun b => mb_ok (snd kk) b = true) col) by (eapply Forall_impl; [|exact Hcol]; intros ? [? ?]; assumption).
        assert (G2 : Forall mb_small col) by (eapply Forall_impl; [|exact Hcol]; intros ? [? ?]; assumption).
        unfold bcol_of_cells in Eb. destruct (column_roundtrip _ _ _ _ _ Eb G1 G2) as [R1 R2].
        destruct ks as [|kk' ks].
        + inversion HZ; subst. simpl in E'. injection E' as <-. simpl. rewrite R1.
          repeat split; [repeat constructor; congruence|congruence].
        + destruct (IH ltac:(congruence) cs' eq_refl) as [I1 [I2 _]].
          simpl. rewrite R1, I1. repeat split; [constructor; [congruence|exact I2]|congruence]. }
    destruct Key as [K1 [K2 K3]].
    destruct cs as [|c0 cs]; [congruence|].
    assert (Hal : aligned_b (bcol_len c0) (c0 :: cs) = true).
    { apply aligned_b_Forall. inversion K2 as [|? ? H0 H1]; subst. rewrite H0. exact K2. }
    rewrite Hal in Hc. injection Hc as <-.
    split.
    + rewrite ecol_nest, K1, zip_rows_map.
      destruct ks as [|kk ks]; [congruence|].
      assert (Hk : (0 < length (kk :: ks))%nat) by (simpl; lia).
      rewrite (zip_rows_involutive rs (length (kk :: ks)) Hrs Hk).
      * rewrite !map_map. reflexivity.
      * eapply Forall_impl; [|exact HF]. intros r Hr. symmetry. eapply Forall2_length'. exact Hr.
    + unfold col_aligned. apply andb_true_intro. split; [reflexivity|]. apply aligned_b_Forall. rewrite <- Hn. exact K2.
Qed.

Lemma fields_roundtrip n sch cols :
  (0 < n)%nat ->
  Forall2 (fun f col => Forall (cell_good f) col /\ length col = n) sch cols ->
  forall args t,
    map2o (fun f c => arg_of_cells (snd f) c) sch cols = Some args ->
    map2o (fun f a => col_of_arg (snd f) a) sch args = Some t ->
    map ecol t = map (map erase) cols.
Proof.
  intros Hn H. induction H as [|f col sch cols [Hg Hl] H IH]; intros args t Ha Ht; simpl in Ha.
  - injection Ha as <-. simpl in Ht. injection Ht as <-. reflexivity.
  - destruct (arg_of_cells (snd f) col) as [a|] eqn:Ea; [|discriminate].
    destruct (map2o (fun f0 c => arg_of_cells (snd f0) c) sch cols) as [args'|] eqn:Eargs; [|discriminate].
    injection Ha as <-. simpl in Ht.
    destruct (col_of_arg (snd f) a) as [c|] eqn:Ec; [|discriminate].
    destruct (map2o (fun f0 a0 => col_of_arg (snd f0) a0) sch args') as [t'|] eqn:Et; [|discriminate].
    injection Ht as <-. simpl. rewrite (IH args' t' eq_refl Et). f_equal.
    assert (Hne : col <> []) by (destruct col; [simpl in Hl; lia|congruence]).
    exact (proj1 (field_roundtrip f col a c n Hne Hl Hg Ea Ec)).
Qed.

(* T3: from_entry_tuples(rows).tolist() = rows, for at least one row of acceptable cells (any mix of column
   kinds including nested tables — i.e. of the code with fix-2 where a nested field is present) *)
Theorem from_rows_roundtrip sch rows t :
  rows <> [] -> sch <> [] -> Forall (fun r => Forall2 cell_good sch r) rows ->
  m_from_rows_nonempty sch rows = Some t ->
  aligned t = true /\ erase_rows (m_to_rows t) = erase_rows rows.
Proof.
  intros Hr Hs Hg H. unfold m_from_rows_nonempty in H.
  destruct (map2o (fun f c => arg_of_cells (snd f) c) sch (zip_rows rows)) as [args|] eqn:Ea; [|discriminate].
  unfold m_construct in H.
  destruct (map2o (fun f a => col_of_arg (snd f) a) sch args) as [t0|] eqn:Et; [|discriminate].
  assert (At := check_aligned_ok _ _ H). unfold check_aligned in H. destruct (aligned t0); [|discriminate].
  injection H as <-. split; [exact At|].
  assert (Hn : (0 < length rows)%nat) by (destruct rows; [congruence|simpl; lia]).
  assert (Hcols := zip_rows_Forall2 cell_good sch rows Hr Hg).
  rewrite erase_rows_zip, (fields_roundtrip (length rows) sch (zip_rows rows) Hn Hcols args t0 Ea Et).
  rewrite zip_rows_map.
  rewrite (zip_rows_involutive rows (length sch) Hr).
  - reflexivity.
  - destruct sch; [congruence|simpl; lia].
  - eapply Forall_impl; [|exact Hg]. intros r Hr2. symmetry. eapply Forall2_length'. exact Hr2.
Qed.

(* the pinned code agrees with this on tables without nested fields *)
Corollary from_rows_roundtrip_pinned_partial fx1 fx5 sch rows t :
  rows <> [] -> sch <> [] -> has_nested sch = false -> Forall (fun r => Forall2 cell_good sch r) rows ->
  m_from_rows_gen fx1 false fx5 sch rows = Some t ->
  aligned t = true /\ erase_rows (m_to_rows t) = erase_rows rows.
Proof.
  intros Hr Hs Hn Hg H. unfold m_from_rows_gen in H. destruct rows as [|r rows]; [congruence|].
  rewrite Hn in H. simpl in H. apply (from_rows_roundtrip sch (r :: rows) t); assumption.
Qed.
(* ... and is refuted in general: zero rows, and a nested-table field *)
Theorem from_rows_pinned_refuted :
  (exists sch, sch <> [] /\ m_from_rows_gen false false false sch [] = None)
  /\ (exists sch rows, rows <> [] /\ Forall (fun r => Forall2 cell_good sch r) rows
        /\ m_from_rows_gen false false false sch rows = None).
Proof.
  split.
  - exists [([102], FB KInt)]. split; [congruence|reflexivity].
  - exists [([102], FN [([97], KInt)])], [[MN [MZ DI 4]]]. split; [congruence|]. split; [|reflexivity].
    repeat constructor; try congruence; vm_compute; intros; discriminate.
Qed.

(* ====================================================================== add_fields (T2) *)
Definition snocp {A} (p : list A * A) : list A := fst p ++ [snd p].
Lemma zip2_snoc_single {A} (a l : list A) :
  map consp (combine a (map (fun x => [x]) l)) = map snocp (combine (map (fun x => [x]) a) l).
Proof. revert l. induction a as [|x a IH]; intros [|y l]; simpl; try reflexivity. f_equal. apply IH. Qed.
Lemma zip2_snoc_multi {A} (a : list A) (Z : list (list A)) (l : list A) :
  map consp (combine a (map snocp (combine Z l))) = map snocp (combine (map consp (combine a Z)) l).
Proof.
  revert Z l. induction a as [|x a IH]; intros [|z Z] [|y l]; simpl; try reflexivity.
  all: try (f_equal; apply IH).
  all: try (destruct a; reflexivity).
Qed.
Lemma zip_rows_snoc {A} (ls : list (list A)) (l : list A) :
  ls <> [] -> zip_rows (ls ++ [l]) = map snocp (combine (zip_rows ls) l).
Proof.
  induction ls as [|a r IH]; intros Hne; [congruence|].
  destruct r as [|b r].
  - simpl app. rewrite zip_rows_cons2, !zip_rows_single. apply zip2_snoc_single.
  - change ((a :: b :: r) ++ [l]) with (a :: b :: (r ++ [l])).
    rewrite zip_rows_cons2. change (b :: r ++ [l]) with ((b :: r) ++ [l]).
    rewrite IH by congruence. rewrite zip_rows_cons2. apply zip2_snoc_multi.
Qed.

Lemma s_add_combine {A} (newc : list A) (rs : list (list A)) :
  length newc = length rs -> s_add newc rs = Some (map snocp (combine rs newc)).
Proof.
  unfold s_add. revert rs. induction newc as [|x newc IH]; intros [|r rs] H; simpl in H; try discriminate; [reflexivity|].
  simpl. rewrite IH by lia. reflexivity.
Qed.

Theorem add_rows fx3 k l t t' :
  t <> [] -> aligned t = true -> Forall (fun b => mb_ok k b = true) l -> Forall mb_small l ->
  m_add_gen fx3 k l t = Some t' ->
  aligned t' = true
  /\ s_add (map (fun b => CB (erase_b b)) l) (erase_rows (m_to_rows t)) = Some (erase_rows (m_to_rows t')).
Proof.
  intros Hne Ha Hok Hsm H. assert (At := m_add_gen_aligned _ _ _ _ _ H). split; [exact At|].
  unfold m_add_gen in H. destruct (is_nil l && negb fx3); [discriminate|].
  destruct (bcol_of_cells k l) as [c|] eqn:Ec; [|discriminate].
  unfold check_aligned in H. destruct (aligned (t ++ [CBase c])) eqn:E; [|discriminate]. injection H as <-.
  unfold bcol_of_cells in Ec. destruct (column_roundtrip _ _ _ _ _ Ec Hok Hsm) as [R1 R2].
  (* the new column has as many entries as the table has rows *)
  assert (Hlen : length l = m_len t).
  { apply aligned_Forall in E. rewrite Forall_forall in E.
    assert (Hin : In (CBase c) (t ++ [CBase c])) by (apply in_or_app; right; left; reflexivity).
    specialize (E _ Hin). simpl in E. apply Nat.eqb_eq in E. rewrite <- R2, E.
    destruct t; [congruence|reflexivity]. }
  rewrite !erase_rows_zip, map_app. simpl map.
  rewrite zip_rows_snoc by (destruct t; [congruence|simpl; congruence]).
  rewrite ecol_base, R1, map_map.
  apply s_add_combine. rewrite map_length, <- erase_rows_zip. unfold erase_rows. rewrite map_length.
  rewrite m_to_rows_length by exact Ha. exact Hlen.
Qed.

(* ====================================================================== replace (T2) *)
Lemma replace_single {A} (l a : list A) :
  length l = length a ->
  map2o (fun x r => set_nth 0 x r) l (map (fun x => [x]) a) = Some (map (fun x => [x]) l).
Proof.
  revert a. induction l as [|x l IH]; intros [|y a] H; simpl in H; try discriminate; [reflexivity|].
  simpl. rewrite IH by lia. reflexivity.
Qed.
Lemma replace_head {A} (l a : list A) (Z : list (list A)) :
  length l = length a -> length a = length Z ->
  map2o (fun x r => set_nth 0 x r) l (map consp (combine a Z)) = Some (map consp (combine l Z)).
Proof.
  revert a Z. induction l as [|x l IH]; intros [|y a] [|z Z] H1 H2; simpl in *; try discriminate; [reflexivity|].
  rewrite IH by lia. reflexivity.
Qed.
Lemma replace_tail {A} f (l a : list A) (Z Z' : list (list A)) :
  length a = length Z ->
  map2o (fun x r => set_nth f x r) l Z = Some Z' ->
  map2o (fun x r => set_nth (S f) x r) l (map consp (combine a Z)) = Some (map consp (combine a Z')).
Proof.
  unfold consp. revert a Z Z'. induction l as [|x l IH]; intros [|y a] [|z Z] Z' H1 H2; simpl in *; try discriminate.
  - injection H2 as <-. reflexivity.
  - destruct (set_nth f x z) as [z'|] eqn:E; [|discriminate].
    destruct (map2o (fun x0 r => set_nth f x0 r) l Z) as [Z0|] eqn:E0; [|discriminate].
    injection H2 as <-.
    rewrite (IH a Z Z0) by (lia || assumption). reflexivity.
Qed.
Lemma set_nth_length {A} f (x : A) l l' : set_nth f x l = Some l' -> length l' = length l.
Proof.
  revert l l'. induction f as [|f IH]; intros [|y l] l' H; simpl in H; try discriminate.
  - injection H as <-. reflexivity.
  - destruct (set_nth f x l) as [r|] eqn:E; [|discriminate]. injection H as <-. simpl. rewrite (IH _ _ E). reflexivity.
Qed.

Lemma zip_rows_set_nth {A} f (l : list A) (ls ls' : list (list A)) n :
  set_nth f l ls = Some ls' -> Forall (fun c => length c = n) ls -> length l = n ->
  map2o (fun x r => set_nth f x r) l (zip_rows ls) = Some (zip_rows ls').
Proof.
  revert f ls'. induction ls as [|a r IH]; intros f ls' Hs Hall Hl; [destruct f; discriminate|].
  inversion Hall as [|a' r' Ha Hr]; subst a' r'.
  destruct r as [|b r].
  - destruct f as [|f]; simpl in Hs; [|destruct f; discriminate].
    injection Hs as <-. rewrite !zip_rows_single. apply replace_single. congruence.
  - assert (LZ : length a = length (zip_rows (b :: r))).
    { rewrite (zip_rows_length (b :: r) n); [exact Ha|congruence|exact Hr]. }
    destruct f as [|f]; simpl in Hs.
    + injection Hs as <-. rewrite !zip_rows_cons2. apply replace_head; congruence.
    + destruct (set_nth f l (b :: r)) as [r'|] eqn:E; [|discriminate]. injection Hs as <-.
      assert (Lr : length r' = length (b :: r)) by (eapply set_nth_length; exact E).
      destruct r' as [|b' r']; [simpl in Lr; discriminate|].
      rewrite !zip_rows_cons2. apply replace_tail; [exact LZ|].
      apply IH; assumption.
Qed.

Definition arg_good (f : fk) (a : colarg) : Prop :=
  match f, a with
  | FB k, ABase l => Forall (mb_good k) l
  | FN ks, ANest cols => Forall2 (fun kk col => Forall (mb_good (snd kk)) col) ks cols
  | _, _ => False
  end.

Lemma Forall_mb_good k l : Forall (mb_good k) l -> Forall (fun b => mb_ok k b = true) l /\ Forall mb_small l.
Proof. induction 1 as [|b l [H1 H2] _ [I1 I2]]; split; constructor; assumption. Qed.

(* the column the constructor makes of an acceptable argument holds the argument's cells *)
Lemma col_of_arg_cells f a c :
  arg_good f a -> col_of_arg f a = Some c -> ecol c = map erase (arg_cells a).
Proof.
  destruct f as [k|ks], a as [l|cols|v|v]; simpl; intros Hg H; try contradiction.
  - destruct (bcol_of_cells k l) as [b|] eqn:E; [|discriminate]. injection H as <-.
    destruct (Forall_mb_good _ _ Hg) as [G1 G2]. unfold bcol_of_cells in E.
    destruct (column_roundtrip _ _ _ _ _ E G1 G2) as [R1 _].
    rewrite ecol_base, R1, !map_map. reflexivity.
  - destruct (map2o (fun kk l => bcol_of_cells (snd kk) l) ks cols) as [cs|] eqn:E; [|discriminate].
    assert (K : map ecells cs = map (map erase_b) cols).
    { clear H. revert cs E. induction Hg as [|kk col ks cols Hc Hg IH]; intros cs E; simpl in E.
      - injection E as <-. reflexivity.
      - destruct (bcol_of_cells (snd kk) col) as [b|] eqn:Eb; [|discriminate].
        destruct (map2o (fun kk0 l => bcol_of_cells (snd kk0) l) ks cols) as [cs'|] eqn:E'; [|discriminate].
        injection E as <-. destruct (Forall_mb_good _ _ Hc) as [G1 G2]. unfold bcol_of_cells in Eb.
        destruct (column_roundtrip _ _ _ _ _ Eb G1 G2) as [R1 _]. simpl. rewrite R1, (IH cs' eq_refl). reflexivity. }
    destruct cs as [|c0 cs]; [discriminate|]. destruct (aligned_b (bcol_len c0) (c0 :: cs)); [|discriminate].
    injection H as <-. rewrite ecol_nest, K, zip_rows_map, !map_map. reflexivity.
Qed.

Theorem replace_rows sch f a t t' fd :
  aligned t = true -> nth_error sch f = Some fd -> arg_good (snd fd) a ->
  m_replace sch f a t = Some t' ->
  aligned t' = true
  /\ (m_len t' = m_len t ->
      s_replace f (map erase (arg_cells a)) (erase_rows (m_to_rows t)) = Some (erase_rows (m_to_rows t'))).
Proof.
  intros Ha Hf Hg H. assert (At := m_replace_aligned _ _ _ _ _ H). split; [exact At|]. intros Hlen.
  unfold m_replace in H. rewrite Hf in H.
  destruct (col_of_arg (snd fd) a) as [c|] eqn:Ec; [|discriminate].
  destruct (set_nth f c t) as [t0|] eqn:Es; [|discriminate].
  unfold check_aligned in H. destruct (aligned t0) eqn:E0; [|discriminate]. injection H as <-.
  assert (Hc := col_of_arg_cells _ _ _ Hg Ec).
  rewrite !erase_rows_zip. unfold s_replace. rewrite <- Hc.
  assert (Hmap : set_nth f (ecol c) (map ecol t) = Some (map ecol t0)).
  { clear - Es. revert t t0 Es. induction f as [|f IH]; intros [|y t] t0 Es; simpl in Es; try discriminate.
    - injection Es as <-. reflexivity.
    - destruct (set_nth f c t) as [r|] eqn:E; [|discriminate]. injection Es as <-. simpl. rewrite (IH _ _ E). reflexivity. }
  apply (zip_rows_set_nth f (ecol c) (map ecol t) (map ecol t0) (m_len t) Hmap).
  - apply aligned_Forall in Ha. rewrite Forall_map. eapply Forall_impl; [|exact Ha]. intros x Hx. apply ecol_length. exact Hx.
  - (* the new column sits in the aligned result, whose length is that of t *)
    apply aligned_Forall in E0. rewrite Forall_forall in E0. rewrite <- Hlen. apply ecol_length. apply E0.
    clear - Es. revert t t0 Es. induction f as [|f IH]; intros [|y t] t0 Es; simpl in Es; try discriminate.
    + injection Es as <-. left; reflexivity.
    + destruct (set_nth f c t) as [r|] eqn:E; [|discriminate]. injection Es as <-. right. eapply IH. exact E.
Qed.

(* ====================================================================== dotted names of nested fields (T5, names only) *)
Lemma split_dot_nodot s : ~ In dot s -> split_dot s = (s, None).
Proof.
  induction s as [|c s IH]; intros H; [reflexivity|].
  simpl. destruct (c =? dot) eqn:E; [apply Z.eqb_eq in E; exfalso; apply H; left; exact E|].
  rewrite IH by (intros Hin; apply H; right; exact Hin). reflexivity.
Qed.
Lemma split_dot_join name sub : ~ In dot name -> split_dot (name ++ [dot] ++ sub) = (name, Some sub).
Proof.
  induction name as [|c name IH]; intros H; [reflexivity|].
  simpl. destruct (c =? dot) eqn:E; [apply Z.eqb_eq in E; exfalso; apply H; left; exact E|].
  simpl in IH. rewrite IH by (intros Hin; apply H; right; exact Hin). reflexivity.
Qed.
(* so the sub-dictionary from_dict builds for a nested field holds exactly the entries todict made for it *)
Lemma sub_dict_of_todict name (entries : list (list Z * dval)) :
  ~ In dot name ->
  sub_dict name (map (fun q => (name ++ [dot] ++ fst q, snd q)) entries) = entries.
Proof.
  intros H. unfold sub_dict. induction entries as [|[n v] es IH]; [reflexivity|].
  simpl. change (name ++ dot :: n) with (name ++ [dot] ++ n). rewrite (split_dot_join name n H).
  assert (Hn : zlist_eqb name name = true).
  { clear. unfold zlist_eqb. induction name as [|c s IH]; [reflexivity|]. simpl. rewrite Z.eqb_refl. exact IH. }
  rewrite Hn. simpl. f_equal. exact IH.
Qed.

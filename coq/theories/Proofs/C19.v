(* Proofs/C19.v — lemmas and main proofs for C19 (tables of entries as column-aligned records). *)
From Coq Require Import ZArith List Bool Lia Arith Permutation Sorted.
From BNP Require Import Base.Prims Base.PrimsFacts Model.C19.
Import ListNotations.
Open Scope Z_scope.

(* ====================================================================== sel *)
Lemma sel_nil {A} ix : sel ix (@nil A) = [].
Proof. induction ix as [|i ix IH]; simpl; [reflexivity|]. destruct i; simpl; exact IH. Qed.

Lemma sel_cons {A} i ix (l : list A) :
  sel (i :: ix) l = (match nth_error l i with Some x => [x] | None => [] end) ++ sel ix l.
Proof. reflexivity. Qed.

Lemma sel_map {A B} (f : A -> B) ix l : sel ix (map f l) = map f (sel ix l).
Proof.
  induction ix as [|i ix IH]; [reflexivity|].
  rewrite !sel_cons, map_app, IH. f_equal.
  rewrite nth_error_map. destruct (nth_error l i); reflexivity.
Qed.

Lemma sel_length_eq {A B} ix (l1 : list A) (l2 : list B) :
  length l1 = length l2 -> length (sel ix l1) = length (sel ix l2).
Proof.
  intros H. induction ix as [|i ix IH]; [reflexivity|].
  rewrite !sel_cons, !app_length, IH. f_equal.
  destruct (nth_error l1 i) eqn:E1, (nth_error l2 i) eqn:E2; try reflexivity.
  - apply nth_error_None in E2. assert (i < length l1)%nat by (apply nth_error_Some; congruence). lia.
  - apply nth_error_None in E1. assert (i < length l2)%nat by (apply nth_error_Some; congruence). lia.
Qed.

Lemma nth_error_combine {A B} (l1 : list A) (l2 : list B) i :
  nth_error (combine l1 l2) i =
  match nth_error l1 i, nth_error l2 i with Some a, Some b => Some (a, b) | _, _ => None end.
Proof.
  revert l2 i. induction l1 as [|a l1 IH]; intros l2 i.
  - destruct i; reflexivity.
  - destruct l2 as [|b l2].
    + destruct i; simpl; [reflexivity|]. destruct (nth_error l1 i); reflexivity.
    + destruct i; simpl; [reflexivity|]. apply IH.
Qed.

Lemma sel_combine {A B} ix (l1 : list A) (l2 : list B) :
  length l1 = length l2 -> sel ix (combine l1 l2) = combine (sel ix l1) (sel ix l2).
Proof.
  intros H. induction ix as [|i ix IH]; [reflexivity|].
  rewrite !sel_cons, IH, nth_error_combine.
  destruct (nth_error l1 i) eqn:E1, (nth_error l2 i) eqn:E2; simpl; try reflexivity.
  - apply nth_error_None in E2. assert (i < length l1)%nat by (apply nth_error_Some; congruence). lia.
  - apply nth_error_None in E1. assert (i < length l2)%nat by (apply nth_error_Some; congruence). lia.
Qed.

Lemma sel_all_valid_length {A} ix (l : list A) :
  Forall (fun i => (i < length l)%nat) ix -> length (sel ix l) = length ix.
Proof.
  induction 1 as [|i ix Hi _ IH]; [reflexivity|].
  rewrite sel_cons, app_length, IH.
  destruct (nth_error l i) eqn:E; [reflexivity|]. apply nth_error_None in E. lia.
Qed.

(* ====================================================================== zip_rows *)
Definition consp {A} (p : A * list A) : list A := fst p :: snd p.
Lemma zip_rows_cons2 {A} (l r0 : list A) r :
  zip_rows (l :: r0 :: r) = map consp (combine l (zip_rows (r0 :: r))).
Proof. reflexivity. Qed.
Lemma zip_rows_single {A} (l : list A) : zip_rows [l] = map (fun x => [x]) l.
Proof. reflexivity. Qed.

Lemma zip_rows_length {A} (ls : list (list A)) n :
  ls <> [] -> Forall (fun l => length l = n) ls -> length (zip_rows ls) = n.
Proof.
  induction ls as [|l r IH]; intros Hne Hall; [congruence|].
  inversion Hall as [|? ? Hl Hr]; subst.
  destruct r as [|r0 r].
  - rewrite zip_rows_single, map_length. reflexivity.
  - rewrite zip_rows_cons2, map_length, combine_length, IH by (congruence || assumption). lia.
Qed.

Lemma zip_rows_sel {A} ix (ls : list (list A)) n :
  Forall (fun l => length l = n) ls -> zip_rows (map (sel ix) ls) = sel ix (zip_rows ls).
Proof.
  induction ls as [|l r IH]; intros Hall.
  - simpl. rewrite sel_nil. reflexivity.
  - inversion Hall as [|? ? Hl Hr]; subst.
    destruct r as [|r0 r].
    + simpl map. rewrite !zip_rows_single, sel_map. reflexivity.
    + change (map (sel ix) (l :: r0 :: r)) with (sel ix l :: sel ix r0 :: map (sel ix) r).
      rewrite !zip_rows_cons2.
      change (sel ix r0 :: map (sel ix) r) with (map (sel ix) (r0 :: r)).
      rewrite IH by assumption.
      rewrite <- sel_combine by (rewrite (zip_rows_length (r0 :: r) (length l)); [reflexivity|congruence|assumption]).
      rewrite sel_map. reflexivity.
Qed.

Lemma combine_app {A B} (a1 a2 : list A) (b1 b2 : list B) :
  length a1 = length b1 -> combine (a1 ++ a2) (b1 ++ b2) = combine a1 b1 ++ combine a2 b2.
Proof.
  revert b1. induction a1 as [|x a1 IH]; intros [|y b1] H; simpl in *; try discriminate; [reflexivity|].
  f_equal. apply IH. lia.
Qed.

(* zip of column-wise concatenations = concatenation of the zips (aligned operands) *)
Fixpoint map2 {A B C} (f : A -> B -> C) (a : list A) (b : list B) : list C :=
  match a, b with x :: a', y :: b' => f x y :: map2 f a' b' | _, _ => [] end.
Lemma zip_rows_app {A} (ls1 ls2 : list (list A)) n1 n2 :
  length ls1 = length ls2 ->
  Forall (fun l => length l = n1) ls1 -> Forall (fun l => length l = n2) ls2 ->
  zip_rows (map2 (@app A) ls1 ls2) = zip_rows ls1 ++ zip_rows ls2.
Proof.
  revert ls2. induction ls1 as [|l1 r1 IH]; intros [|l2 r2] Hlen H1 H2; simpl in Hlen; try discriminate; [reflexivity|].
  inversion H1 as [|? ? Hl1 Hr1]; inversion H2 as [|? ? Hl2 Hr2]; subst.
  destruct r1 as [|a1 r1], r2 as [|a2 r2]; simpl in Hlen; try discriminate.
  - simpl. rewrite map_app. reflexivity.
  - change (map2 (@app A) (l1 :: a1 :: r1) (l2 :: a2 :: r2)) with ((l1 ++ l2) :: (a1 ++ a2) :: map2 (@app A) r1 r2).
    rewrite !zip_rows_cons2.
    change ((a1 ++ a2) :: map2 (@app A) r1 r2) with (map2 (@app A) (a1 :: r1) (a2 :: r2)).
    rewrite IH by (simpl; try lia; assumption).
    rewrite combine_app by (rewrite (zip_rows_length (a1 :: r1) (length l1)); [reflexivity|congruence|assumption]).
    rewrite map_app. reflexivity.
Qed.

(* transposition is an involution on rectangular, non-degenerate matrices *)
Lemma zip_rows_map_consp {A} (r : list A) (X : list (list A)) :
  length r = length X -> X <> [] ->
  zip_rows (map consp (combine r X)) = r :: zip_rows X.
Proof.
  revert X. induction r as [|a r IH]; intros [|x X] Hlen Hne; simpl in Hlen; try discriminate; [congruence|].
  destruct r as [|a' r], X as [|x' X]; simpl in Hlen; try discriminate.
  - reflexivity.
  - change (map consp (combine (a :: a' :: r) (x :: x' :: X)))
      with ((a :: x) :: map consp (combine (a' :: r) (x' :: X))).
    assert (IH' := IH (x' :: X) ltac:(simpl; lia) ltac:(congruence)).
    destruct (map consp (combine (a' :: r) (x' :: X))) as [|y Y] eqn:E; [simpl in E; discriminate|].
    rewrite zip_rows_cons2, IH'. rewrite zip_rows_cons2. reflexivity.
Qed.

Lemma zip_rows_involutive {A} (M : list (list A)) k :
  M <> [] -> (0 < k)%nat -> Forall (fun r => length r = k) M -> zip_rows (zip_rows M) = M.
Proof.
  induction M as [|r M IH]; intros Hne Hk Hall; [congruence|].
  inversion Hall as [|? ? Hr HM]; subst.
  destruct M as [|r' M].
  - rewrite zip_rows_single.
    destruct r as [|a r]; [simpl in Hk; lia|]. clear.
    revert a. induction r as [|b r IH]; intros a; [reflexivity|].
    change (map (fun x : A => [x]) (a :: b :: r)) with ([a] :: map (fun x : A => [x]) (b :: r)).
    specialize (IH b).
    destruct (map (fun x : A => [x]) (b :: r)) as [|y Y] eqn:E; [discriminate|].
    rewrite zip_rows_cons2, IH. reflexivity.
  - rewrite zip_rows_cons2.
    rewrite zip_rows_map_consp.
    + rewrite IH by (congruence || assumption). reflexivity.
    + rewrite (zip_rows_length (r' :: M) (length r)); [reflexivity|congruence|assumption].
    + intro E. assert (L := zip_rows_length (r' :: M) (length r) ltac:(congruence) HM). rewrite E in L. simpl in L. lia.
Qed.

(* ====================================================================== columns: length and cells *)
Lemma rag_rows_length data lens : length (rag_rows data lens) = length lens.
Proof. revert data. induction lens as [|n r IH]; intros data; simpl; [reflexivity|]. rewrite IH. reflexivity. Qed.

Lemma rag_rows_of_rows (rs : list (list Z)) : rag_rows (concat rs) (map len rs) = rs.
Proof.
  induction rs as [|r rs IH]; [reflexivity|].
  simpl. unfold len at 1 2. rewrite !Nat2Z.id.
  rewrite firstn_app, Nat.sub_diag, firstn_all, firstn_O, app_nil_r.
  rewrite skipn_app, Nat.sub_diag, skipn_all. simpl. rewrite IH. reflexivity.
Qed.

Lemma bcol_cells_length c : length (bcol_cells c) = bcol_len c.
Proof. destruct c; simpl; rewrite map_length; try reflexivity. apply rag_rows_length. Qed.

Lemma bcol_cells_select ix c : bcol_cells (bcol_select ix c) = sel ix (bcol_cells c).
Proof.
  destruct c as [d v|t data lens|w m|v]; simpl.
  - symmetry. apply sel_map.
  - rewrite rag_rows_of_rows. symmetry. apply sel_map.
  - symmetry. apply sel_map.
  - symmetry. apply sel_map.
Qed.

Lemma bcol_len_select ix c : bcol_len (bcol_select ix c) = length (sel ix (bcol_cells c)).
Proof. rewrite <- bcol_cells_length, bcol_cells_select. reflexivity. Qed.

(* Prop view of the boolean alignment checks *)
Lemma aligned_b_Forall n cs : aligned_b n cs = true <-> Forall (fun c => bcol_len c = n) cs.
Proof.
  unfold aligned_b. rewrite forallb_forall, Forall_forall.
  split; intros H c Hc; specialize (H c Hc); [apply Nat.eqb_eq|apply Nat.eqb_eq]; exact H.
Qed.

Lemma col_cells_length n c : col_aligned n c = true -> length (col_cells c) = n.
Proof.
  destruct c as [b|cs]; simpl; intros H.
  - rewrite map_length, bcol_cells_length. apply Nat.eqb_eq. exact H.
  - apply andb_prop in H. destruct H as [Hne Hal].
    rewrite map_length. apply zip_rows_length.
    + destruct cs; [discriminate|]. simpl. congruence.
    + apply aligned_b_Forall in Hal. rewrite Forall_map.
      eapply Forall_impl; [|exact Hal]. intros c Hc. rewrite bcol_cells_length. exact Hc.
Qed.

Lemma col_len_aligned n c : col_aligned n c = true -> col_len c = n.
Proof.
  destruct c as [b|cs]; simpl; intros H.
  - apply Nat.eqb_eq. exact H.
  - apply andb_prop in H. destruct H as [Hne Hal]. destruct cs as [|b cs]; [discriminate|].
    apply aligned_b_Forall in Hal. inversion Hal; assumption.
Qed.

Lemma aligned_Forall t : aligned t = true <-> Forall (fun c => col_aligned (m_len t) c = true) t.
Proof. unfold aligned. rewrite forallb_forall, Forall_forall. reflexivity. Qed.

(* T2 (selection): the rows of a column-wise selection are the selected rows *)
Lemma col_cells_select n ix c :
  col_aligned n c = true -> col_cells (col_select ix c) = sel ix (col_cells c).
Proof.
  destruct c as [b|cs]; simpl; intros H.
  - rewrite bcol_cells_select. symmetry. apply sel_map.
  - apply andb_prop in H. destruct H as [_ Hal]. apply aligned_b_Forall in Hal.
    rewrite map_map.
    rewrite (map_ext _ (fun c => sel ix (bcol_cells c))) by (intros; apply bcol_cells_select).
    rewrite <- (map_map bcol_cells (sel ix)).
    rewrite (zip_rows_sel ix (map bcol_cells cs) n).
    + symmetry. apply sel_map.
    + rewrite Forall_map. eapply Forall_impl; [|exact Hal]. intros c Hc. rewrite bcol_cells_length. exact Hc.
Qed.

Theorem m_to_rows_select ix t :
  aligned t = true -> m_to_rows (m_select ix t) = sel ix (m_to_rows t).
Proof.
  intros H. apply aligned_Forall in H. unfold m_to_rows, m_select.
  rewrite map_map.
  rewrite (map_ext_in _ (fun c => sel ix (col_cells c))).
  - rewrite <- (map_map col_cells (sel ix)). apply (zip_rows_sel ix _ (m_len t)).
    rewrite Forall_map. eapply Forall_impl; [|exact H]. intros c Hc. apply col_cells_length. exact Hc.
  - intros c Hc. rewrite Forall_forall in H. apply (col_cells_select (m_len t)). apply H. exact Hc.
Qed.

(* T1 (selection): selection keeps the columns aligned, whatever the index list *)
Lemma col_aligned_select n ix c :
  col_aligned n c = true -> col_aligned (length (sel ix (repeat tt n))) (col_select ix c) = true.
Proof.
  destruct c as [b|cs]; simpl; intros H.
  - apply Nat.eqb_eq in H. apply Nat.eqb_eq. rewrite bcol_len_select.
    apply sel_length_eq. rewrite bcol_cells_length, repeat_length. exact H.
  - apply andb_prop in H. destruct H as [Hne Hal]. apply andb_true_intro. split.
    + destruct cs; [discriminate|reflexivity].
    + apply aligned_b_Forall in Hal. apply aligned_b_Forall. rewrite Forall_map.
      eapply Forall_impl; [|exact Hal]. intros c Hc. simpl. rewrite bcol_len_select.
      apply sel_length_eq. rewrite bcol_cells_length, repeat_length. exact Hc.
Qed.

Theorem aligned_select ix t : aligned t = true -> aligned (m_select ix t) = true.
Proof.
  intros H. destruct t as [|c0 t]; [reflexivity|].
  apply aligned_Forall in H. apply aligned_Forall.
  set (n := m_len (c0 :: t)) in *.
  assert (Hn : m_len (m_select ix (c0 :: t)) = length (sel ix (repeat tt n))).
  { simpl. inversion H as [|? ? H0 _]; subst. apply col_len_aligned. apply col_aligned_select. exact H0. }
  rewrite Hn. unfold m_select. rewrite Forall_map.
  eapply Forall_impl; [|exact H]. intros c Hc. apply col_aligned_select. exact Hc.
Qed.

(* ====================================================================== index resolution: take / mask / slice *)
Lemma norm_index_lt n i k : norm_index n i = Some k -> (Z.of_nat k < n).
Proof.
  unfold norm_index. intros H.
  destruct ((0 <=? i) && (i <? n)) eqn:E1.
  - injection H as <-. apply andb_prop in E1. destruct E1 as [A B]. apply Z.leb_le in A. apply Z.ltb_lt in B. lia.
  - destruct ((- n <=? i) && (i <? 0)) eqn:E2; [|discriminate].
    injection H as <-. apply andb_prop in E2. destruct E2 as [A B]. apply Z.leb_le in A. apply Z.ltb_lt in B. lia.
Qed.

Lemma m_to_rows_length t : aligned t = true -> length (m_to_rows t) = m_len t.
Proof.
  intros H. destruct t as [|c0 t]; [reflexivity|].
  apply aligned_Forall in H. unfold m_to_rows. apply zip_rows_length; [simpl; congruence|].
  rewrite Forall_map. eapply Forall_impl; [|exact H]. intros c Hc. apply col_cells_length. exact Hc.
Qed.

(* integer-array indexing: the model resolves the indices first and then selects column-wise; the specification
   walks the index list over the rows.  Same rows, and an error exactly when an index is out of range. *)
Lemma take_indices_s_take {A} (rs : list A) ix :
  match take_indices (len rs) ix with
  | Some k => s_take rs ix = Some (sel k rs) /\ Forall (fun i => (i < length rs)%nat) k
  | None => s_take rs ix = None
  end.
Proof.
  unfold take_indices. induction ix as [|i ix IH]; simpl; [split; [reflexivity|constructor]|].
  unfold s_index.
  destruct (norm_index (len rs) i) as [k|] eqn:E; [|reflexivity].
  assert (Hk : (k < length rs)%nat) by (apply norm_index_lt in E; unfold len in E; lia).
  destruct (nth_error rs k) as [x|] eqn:En; [|apply nth_error_None in En; lia].
  destruct (map_opt (norm_index (len rs)) ix) as [ks|].
  - destruct IH as [IH1 IH2]. rewrite IH1. split.
    + rewrite sel_cons, En. reflexivity.
    + constructor; assumption.
  - rewrite IH. reflexivity.
Qed.

Theorem take_refines ix t :
  aligned t = true ->
  match take_indices (Z.of_nat (m_len t)) ix with
  | Some k => s_take (m_to_rows t) ix = Some (m_to_rows (m_select k t))
  | None => s_take (m_to_rows t) ix = None
  end.
Proof.
  intros H. assert (L := m_to_rows_length t H).
  assert (X := take_indices_s_take (m_to_rows t) ix). unfold len in X. rewrite L in X.
  destruct (take_indices (Z.of_nat (m_len t)) ix) as [k|]; [|exact X].
  destruct X as [X _]. rewrite X, m_to_rows_select by assumption. reflexivity.
Qed.

Lemma sel_app {A} a b (l : list A) : sel (a ++ b) l = sel a l ++ sel b l.
Proof. unfold sel. apply flat_map_app. Qed.

Lemma sel_flatnonzero {A} (m : list bool) (pre rs : list A) :
  length m = length rs ->
  sel (map Z.to_nat (flatnonzero_from (Z.of_nat (length pre)) m)) (pre ++ rs) = mask_select m rs.
Proof.
  revert pre rs. induction m as [|b m IH]; intros pre [|x rs] H; simpl in H; try discriminate; [reflexivity|].
  simpl. rewrite map_app, sel_app.
  replace (Z.of_nat (length pre) + 1) with (Z.of_nat (length (pre ++ [x]))) by (rewrite app_length; simpl; lia).
  replace (pre ++ x :: rs) with ((pre ++ [x]) ++ rs) at 2 by (rewrite <- app_assoc; reflexivity).
  rewrite IH by lia. f_equal.
  destruct b; [|reflexivity]. simpl. rewrite Nat2Z.id.
  rewrite nth_error_app2 by lia. rewrite Nat.sub_diag. reflexivity.
Qed.

Theorem mask_refines m t :
  aligned t = true ->
  match mask_indices (m_len t) m with
  | Some k => s_mask (m_to_rows t) m = Some (m_to_rows (m_select k t))
  | None => s_mask (m_to_rows t) m = None
  end.
Proof.
  intros H. assert (L := m_to_rows_length t H). unfold mask_indices, s_mask. rewrite L.
  destruct (Nat.eqb (length m) (m_len t)) eqn:E1; simpl.
  - apply Nat.eqb_eq in E1. rewrite m_to_rows_select by assumption. f_equal.
    symmetry. apply (sel_flatnonzero m [] (m_to_rows t)). lia.
  - destruct (Nat.eqb (length m) 0) eqn:E2; [|reflexivity].
    apply Nat.eqb_eq in E2. destruct m; [|discriminate]. simpl.
    rewrite m_to_rows_select by assumption. reflexivity.
Qed.

Theorem slice_refines a b st t :
  aligned t = true -> st <> 0 ->
  match take_indices (Z.of_nat (m_len t)) (slice_indices (Z.of_nat (m_len t)) a b st) with
  | Some k => s_slice (m_to_rows t) a b st = Some (m_to_rows (m_select k t))
  | None => s_slice (m_to_rows t) a b st = None
  end.
Proof.
  intros H Hst. unfold s_slice. apply Z.eqb_neq in Hst. rewrite Hst.
  assert (L := m_to_rows_length t H). unfold len. rewrite L. apply take_refines. exact H.
Qed.

(* a slice never raises: every index it generates is within range *)
Lemma In_arange_from s n k : In k (arange_from s n) <-> s <= k < s + Z.of_nat n.
Proof.
  revert s. induction n as [|n IH]; intros s; simpl.
  - split; [intros []|lia].
  - rewrite IH. lia.
Qed.
Lemma range_bound s e st k : 0 < st -> 0 <= k < (e - s + st - 1) / st -> s <= s + k * st <= e - 1.
Proof.
  intros Hst Hk. assert (st * ((e - s + st - 1) / st) <= e - s + st - 1) by (apply Z.mul_div_le; lia). nia.
Qed.
Lemma slice_indices_in_range n a b st i :
  0 <= n -> In i (slice_indices n a b st) -> 0 <= i < n.
Proof.
  intros Hn. unfold slice_indices.
  destruct (0 <? st) eqn:E1; [apply Z.ltb_lt in E1|destruct (st <? 0) eqn:E2; [apply Z.ltb_lt in E2|intros []]];
    rewrite in_map_iff; intros [k [<- Hk]]; unfold arange in Hk; apply In_arange_from in Hk.
  - set (s := slice_bound n 0 n 0 a) in *. set (e := slice_bound n 0 n n b) in *.
    assert (Hs : 0 <= s <= n) by (unfold s, slice_bound, clampZ; destruct a; lia).
    assert (He : 0 <= e <= n) by (unfold e, slice_bound, clampZ; destruct b; lia).
    destruct (Z_le_gt_dec ((e - s + st - 1) / st) 0) as [Hle|Hgt]; [lia|].
    assert (B := range_bound s e st k E1 ltac:(lia)). lia.
  - set (s := slice_bound n (-1) (n - 1) (n - 1) a) in *. set (e := slice_bound n (-1) (n - 1) (-1) b) in *.
    assert (Hs : -1 <= s <= n - 1) by (unfold s, slice_bound, clampZ; destruct a; lia).
    assert (He : -1 <= e <= n - 1) by (unfold e, slice_bound, clampZ; destruct b; lia).
    destruct (Z_le_gt_dec ((s - e + - st - 1) / - st) 0) as [Hle|Hgt]; [lia|].
    assert (B := range_bound (- s) (- e) (- st) k ltac:(lia)
                   ltac:(replace (- e - - s + - st - 1) with (s - e + - st - 1) by lia; lia)). lia.
Qed.

Lemma take_indices_valid n ix : (forall i, In i ix -> 0 <= i < n) -> take_indices n ix <> None.
Proof.
  unfold take_indices. induction ix as [|i ix IH]; intros H; simpl; [discriminate|].
  assert (Hi := H i (or_introl eq_refl)). unfold norm_index at 1.
  replace ((0 <=? i) && (i <? n)) with true
    by (symmetry; apply andb_true_intro; split; [apply Z.leb_le|apply Z.ltb_lt]; lia).
  destruct (map_opt (norm_index n) ix) eqn:E; [discriminate|].
  exfalso. apply IH; [intros; apply H; right; assumption|reflexivity].
Qed.

Theorem slice_never_raises a b st t :
  take_indices (Z.of_nat (m_len t)) (slice_indices (Z.of_nat (m_len t)) a b st) <> None.
Proof. apply take_indices_valid. intros i Hi. apply (slice_indices_in_range _ a b st); [lia|exact Hi]. Qed.

(* ====================================================================== StringArray padding (T5) *)
Lemma strip_nul_zeros k : strip_nul (repeat 0 k) = [].
Proof. induction k as [|k IH]; [reflexivity|]. simpl. rewrite IH. reflexivity. Qed.

Lemma strip_nul_app_zeros s k : strip_nul (s ++ repeat 0 k) = strip_nul s.
Proof.
  induction s as [|c s IH]; simpl.
  - apply strip_nul_zeros.
  - rewrite IH. reflexivity.
Qed.

Lemma strip_nul_nulfree s : Forall (fun c => c <> 0) s -> strip_nul s = s.
Proof.
  induction 1 as [|c s Hc _ IH]; [reflexivity|].
  simpl. rewrite IH. apply Z.eqb_neq in Hc. rewrite Hc. reflexivity.
Qed.

Lemma pad_fits w s : len s <= w -> pad w s = s ++ repeat 0 (Z.to_nat (w - len s)).
Proof.
  intros H. unfold pad. apply firstn_all2. rewrite app_length, repeat_length. unfold len in *. lia.
Qed.

Lemma len_pad w s : len s <= w -> len (pad w s) = w.
Proof. intros H. rewrite pad_fits by assumption. unfold len in *. rewrite app_length, repeat_length. lia. Qed.

Lemma strip_pad w s : len s <= w -> strip_nul (pad w s) = strip_nul s.
Proof. intros H. rewrite pad_fits by assumption. apply strip_nul_app_zeros. Qed.

Lemma max_len_ge ss s : In s ss -> len s <= max_len ss.
Proof.
  induction ss as [|x ss IH]; intros H; [destruct H|].
  simpl. destruct H as [<-|H]; [lia|]. specialize (IH H). lia.
Qed.

(* strings (pad ss) = ss for every list of NUL-free strings *)
Theorem pad_all_cells ss :
  Forall (Forall (fun c => c <> 0)) ss -> bcol_cells (pad_all ss) = map MS ss.
Proof.
  intros H. unfold pad_all. simpl. rewrite map_map. apply map_ext_in. intros s Hs. f_equal.
  rewrite strip_pad by (apply max_len_ge in Hs; lia).
  apply strip_nul_nulfree. rewrite Forall_forall in H. apply H. exact Hs.
Qed.

(* ====================================================================== concatenation (T2) *)
(* well-formed stored columns: ragged lengths consume the data exactly; StringArray rows have the dtype width;
   int64 values are integers (multiples of 4 quarter units) below 2^53 in magnitude — the guard under which
   int -> float promotion is exact *)
Definition int_ok (z : Z) : Prop := z mod 4 = 0 /\ Z.abs z < 4 * 2 ^ 53.
Definition num_ok (d : dt) (v : list Z) : Prop := match d with DI => Forall int_ok v | _ => True end.
Definition rag_wf (data lens : list Z) : Prop := Forall (fun n => 0 <= n) lens /\ sumZ lens = len data.
Definition bcol_wf (c : bcol) : Prop :=
  match c with
  | ColNum d v => num_ok d v
  | ColRag t data lens => rag_wf data lens /\ match t with RNum d => num_ok d data | _ => True end
  | ColPad w m => Forall (fun r => len r = w) m
  | ColFlat _ => True
  end.
Definition col_wf (c : col) : Prop := match c with CBase b => bcol_wf b | CNest cs => Forall bcol_wf cs end.

Lemma cast_exact a b z : int_ok z -> cast a b z = z.
Proof.
  intros [Hm Hb]. destruct a, b; try reflexivity. unfold cast, to_double.
  pose proof (Z.div_mod z 4 ltac:(lia)) as Hdm. rewrite Hm in Hdm.
  assert (Hq : Z.abs (z / 4) < 2 ^ 53) by lia.
  apply Z.ltb_lt in Hq. rewrite Hq. lia.
Qed.

Lemma map_cast_exact a b v : num_ok a v -> map (cast a b) v = v.
Proof.
  destruct a; simpl; intros H; try (destruct b; apply map_id).
  rewrite <- (map_id v) at 2. apply map_ext_in. intros z Hz. apply cast_exact.
  rewrite Forall_forall in H. apply H. exact Hz.
Qed.

Lemma rag_rows_app x1 l1 x2 l2 :
  rag_wf x1 l1 -> rag_rows (x1 ++ x2) (l1 ++ l2) = rag_rows x1 l1 ++ rag_rows x2 l2.
Proof.
  revert x1. induction l1 as [|n l1 IH]; intros x1 [Hnn Hsum]; simpl in *.
  - destruct x1; [reflexivity|]. rewrite len_cons in Hsum. pose proof (len_nonneg x1). lia.
  - inversion Hnn as [|? ? Hn Hnn']; subst.
    assert (Hs : 0 <= sumZ l1).
    { clear - Hnn'. induction Hnn'; simpl; lia. }
    change (sumZ (n :: l1)) with (n + sumZ l1) in Hsum.
    assert (Hle : (Z.to_nat n <= length x1)%nat) by (unfold len in Hsum; lia).
    rewrite firstn_app. replace (Z.to_nat n - length x1)%nat with O by lia. rewrite firstn_O, app_nil_r.
    rewrite skipn_app. replace (Z.to_nat n - length x1)%nat with O by lia. simpl skipn at 2.
    rewrite IH; [reflexivity|]. split; [assumption|].
    rewrite len_skipn. lia.
Qed.

Definition ecells (c : bcol) : list bcell := map erase_b (bcol_cells c).

Lemma erase_wrap_rag t t' r :
  match t, t' with RNum _, RNum _ | RStr, RStr | RDna, RDna => True | _, _ => False end ->
  erase_b (wrap_rag t r) = erase_b (wrap_rag t' r).
Proof. destruct t, t'; simpl; intros H; try destruct H; reflexivity. Qed.

Lemma bcol_cat_cells a b c :
  bcol_cat a b = Some c -> bcol_wf a -> bcol_wf b -> ecells c = ecells a ++ ecells b.
Proof.
  unfold ecells.
  destruct a as [d1 v1|t1 x1 l1|w1 m1|v1], b as [d2 v2|t2 x2 l2|w2 m2|v2]; simpl; try discriminate; intros H Ha Hb.
  - injection H as <-. simpl.
    rewrite (map_cast_exact d1 _ v1 Ha), (map_cast_exact d2 _ v2 Hb).
    rewrite !map_app, !map_map. reflexivity.
  - destruct (rtag_join t1 t2) as [t|] eqn:Ej; [|discriminate]. injection H as <-. simpl.
    destruct Ha as [Hw1 Hn1], Hb as [Hw2 Hn2].
    assert (E1 : cast_rag t1 t x1 = x1).
    { destruct t1, t; try reflexivity. apply map_cast_exact. exact Hn1. }
    assert (E2 : cast_rag t2 t x2 = x2).
    { destruct t2, t; try reflexivity. apply map_cast_exact. exact Hn2. }
    rewrite E1, E2, rag_rows_app by assumption.
    rewrite !map_app, !map_map. f_equal; apply map_ext; intros r; apply erase_wrap_rag;
      destruct t1, t2; simpl in Ej; try discriminate; injection Ej as <-; exact I.
  - injection H as <-. simpl. rewrite !map_app, !map_map. f_equal; apply map_ext_in; intros r Hr; simpl; f_equal.
    + apply strip_pad. rewrite Forall_forall in Ha. rewrite (Ha r Hr). lia.
    + apply strip_pad. rewrite Forall_forall in Hb. rewrite (Hb r Hr). lia.
  - injection H as <-. simpl. rewrite !map_app, !map_map. reflexivity.
Qed.

Lemma bcol_cat_len a b c : bcol_cat a b = Some c -> bcol_len c = (bcol_len a + bcol_len b)%nat.
Proof.
  destruct a as [d1 v1|t1 x1 l1|w1 m1|v1], b as [d2 v2|t2 x2 l2|w2 m2|v2]; simpl; try discriminate; intros H.
  - injection H as <-. simpl. rewrite app_length, !map_length. reflexivity.
  - destruct (rtag_join t1 t2); [|discriminate]. injection H as <-. simpl. apply app_length.
  - injection H as <-. simpl. rewrite app_length, !map_length. reflexivity.
  - injection H as <-. simpl. apply app_length.
Qed.

Lemma zip_rows_map {A B} (f : A -> B) (ls : list (list A)) :
  zip_rows (map (map f) ls) = map (map f) (zip_rows ls).
Proof.
  induction ls as [|l r IH]; [reflexivity|].
  destruct r as [|r0 r].
  - simpl. rewrite !map_map. reflexivity.
  - change (map (map f) (l :: r0 :: r)) with (map f l :: map (map f) (r0 :: r)).
    destruct (map (map f) (r0 :: r)) as [|y Y] eqn:E; [discriminate|].
    rewrite zip_rows_cons2, IH, zip_rows_cons2.
    rewrite !map_map.
    revert l. generalize (zip_rows (r0 :: r)). clear.
    intros Z l. revert Z. induction l as [|a l IHl]; intros [|z Z]; simpl; try reflexivity.
    f_equal. apply IHl.
Qed.

Lemma map2o_map2 {A B C T} (f : A -> B -> option C) (g : C -> list T) (ga : A -> list T) (gb : B -> list T) a b c :
  map2o f a b = Some c ->
  (forall x y z, In x a -> In y b -> f x y = Some z -> g z = ga x ++ gb y) ->
  length a = length b /\ map g c = map2 (@app T) (map ga a) (map gb b).
Proof.
  revert b c. induction a as [|x a IH]; intros [|y b] c H Hf; simpl in H; try discriminate.
  - injection H as <-. split; reflexivity.
  - destruct (f x y) as [z|] eqn:E; [|discriminate].
    destruct (map2o f a b) as [r|] eqn:Er; [|discriminate]. injection H as <-.
    destruct (IH b r Er) as [L M]; [intros; eapply Hf; try right; eassumption|].
    split; [simpl; lia|]. simpl. rewrite M. f_equal. eapply Hf; [left; reflexivity|left; reflexivity|exact E].
Qed.

Definition ecol (c : col) : list cell := map erase (col_cells c).
Lemma ecol_base b : ecol (CBase b) = map CB (ecells b).
Proof. unfold ecol, ecells. simpl. rewrite !map_map. reflexivity. Qed.
Lemma ecol_nest cs : ecol (CNest cs) = map CN (zip_rows (map ecells cs)).
Proof.
  unfold ecol. simpl. rewrite map_map.
  replace (map ecells cs) with (map (map erase_b) (map bcol_cells cs)) by (rewrite map_map; reflexivity).
  rewrite zip_rows_map, map_map. reflexivity.
Qed.
Lemma ecells_length c : length (ecells c) = bcol_len c.
Proof. unfold ecells. rewrite map_length. apply bcol_cells_length. Qed.
Lemma ecol_length n c : col_aligned n c = true -> length (ecol c) = n.
Proof. intros H. unfold ecol. rewrite map_length. apply col_cells_length. exact H. Qed.

Lemma col_cat_cells a b c n1 n2 :
  col_cat a b = Some c -> col_wf a -> col_wf b -> col_aligned n1 a = true -> col_aligned n2 b = true ->
  ecol c = ecol a ++ ecol b.
Proof.
  destruct a as [x|xs], b as [y|ys]; simpl; try discriminate; intros H Wa Wb Aa Ab.
  - destruct (bcol_cat x y) as [z|] eqn:E; [|discriminate]. injection H as <-.
    rewrite !ecol_base, (bcol_cat_cells x y z E Wa Wb), map_app. reflexivity.
  - destruct (map2o bcol_cat xs ys) as [cs|] eqn:E; [|discriminate]. injection H as <-.
    rewrite !ecol_nest.
    destruct (map2o_map2 bcol_cat ecells ecells ecells xs ys cs E) as [L M].
    { intros x y z Hx Hy Hz. apply bcol_cat_cells; [exact Hz| |].
      - rewrite Forall_forall in Wa. apply Wa. exact Hx.
      - rewrite Forall_forall in Wb. apply Wb. exact Hy. }
    rewrite M.
    apply andb_prop in Aa. destruct Aa as [_ Aa]. apply andb_prop in Ab. destruct Ab as [_ Ab].
    apply aligned_b_Forall in Aa. apply aligned_b_Forall in Ab.
    rewrite (zip_rows_app (map ecells xs) (map ecells ys) n1 n2).
    + apply map_app.
    + rewrite !map_length. exact L.
    + rewrite Forall_map. eapply Forall_impl; [|exact Aa]. intros c Hc. rewrite ecells_length. exact Hc.
    + rewrite Forall_map. eapply Forall_impl; [|exact Ab]. intros c Hc. rewrite ecells_length. exact Hc.
Qed.

Lemma erase_rows_zip t : erase_rows (m_to_rows t) = zip_rows (map ecol t).
Proof.
  unfold erase_rows, erase_row, m_to_rows.
  replace (map ecol t) with (map (map erase) (map col_cells t)) by (rewrite map_map; reflexivity).
  symmetry. apply zip_rows_map.
Qed.

(* T2 (concatenation), guarded: int64 columns hold values below 2^53 *)
Theorem cat_rows_partial a b t :
  m_cat a b = Some t -> aligned a = true -> aligned b = true -> Forall col_wf a -> Forall col_wf b ->
  aligned t = true /\ erase_rows (m_to_rows t) = erase_rows (m_to_rows a) ++ erase_rows (m_to_rows b).
Proof.
  unfold m_cat, check_aligned. intros H Aa Ab Wa Wb.
  destruct (map2o col_cat a b) as [t'|] eqn:E; [|discriminate].
  destruct (aligned t') eqn:At; [|discriminate]. injection H as <-. split; [exact At|].
  rewrite !erase_rows_zip.
  apply aligned_Forall in Aa. apply aligned_Forall in Ab.
  destruct (map2o_map2 col_cat ecol ecol ecol a b t' E) as [L M].
  { intros x y z Hx Hy Hz. rewrite Forall_forall in Wa, Wb, Aa, Ab.
    apply (col_cat_cells x y z (m_len a) (m_len b)); auto. }
  rewrite M. apply (zip_rows_app (map ecol a) (map ecol b) (m_len a) (m_len b)).
  - rewrite !map_length. exact L.
  - rewrite Forall_map. eapply Forall_impl; [|exact Aa]. intros c Hc. apply ecol_length. exact Hc.
  - rewrite Forall_map. eapply Forall_impl; [|exact Ab]. intros c Hc. apply ecol_length. exact Hc.
Qed.

(* without the guard the statement is false: 2^53+1 concatenated with an empty (float64) column *)
Theorem cat_rows_refuted :
  exists a b t, m_cat a b = Some t /\ aligned a = true /\ aligned b = true
    /\ erase_rows (m_to_rows t) <> erase_rows (m_to_rows a) ++ erase_rows (m_to_rows b).
Proof.
  exists [CBase (ColNum DI [4 * (2 ^ 53 + 1)])], [CBase (ColNum DF [])], [CBase (ColNum DF [4 * 2 ^ 53])].
  split; [vm_compute; reflexivity|]. split; [reflexivity|]. split; [reflexivity|].
  vm_compute. discriminate.
Qed.

(* ====================================================================== sorting (T4) *)
Lemma insert_by_perm {A} (leb : A -> A -> bool) x l : Permutation (insert_by leb x l) (x :: l).
Proof.
  induction l as [|y r IH]; simpl; [apply Permutation_refl|].
  destruct (leb x y); [apply Permutation_refl|].
  eapply perm_trans; [apply perm_skip; exact IH|apply perm_swap].
Qed.
Theorem isort_by_perm {A} (leb : A -> A -> bool) l : Permutation (isort_by leb l) l.
Proof.
  unfold isort_by. induction l as [|x l IH]; simpl; [constructor|].
  eapply perm_trans; [apply insert_by_perm|]. apply perm_skip. exact IH.
Qed.

Lemma insert_by_sorted {A} (leb : A -> A -> bool) x l :
  (forall a b, leb a b = false -> leb b a = true) ->
  sorted_b leb l = true -> sorted_b leb (insert_by leb x l) = true.
Proof.
  intros Htot. induction l as [|y r IH]; intros Hs; [reflexivity|].
  simpl. destruct (leb x y) eqn:E.
  - simpl. rewrite E. exact Hs.
  - assert (Hr : sorted_b leb r = true).
    { destruct r as [|z r]; [reflexivity|]. simpl in Hs. apply andb_prop in Hs. apply Hs. }
    specialize (IH Hr). destruct r as [|z r].
    + simpl. rewrite (Htot _ _ E). reflexivity.
    + simpl in *. destruct (leb x z).
      * rewrite (Htot _ _ E). simpl. exact IH.
      * apply andb_prop in Hs. destruct Hs as [Hyz _]. rewrite Hyz. simpl. exact IH.
Qed.
Theorem isort_by_sorted {A} (leb : A -> A -> bool) l :
  (forall a b, leb a b = false -> leb b a = true) -> sorted_b leb (isort_by leb l) = true.
Proof.
  intros Htot. unfold isort_by. induction l as [|x l IH]; [reflexivity|].
  simpl. apply insert_by_sorted; assumption.
Qed.

(* stability: rows with equal key keep their relative order *)
Lemma insert_by_stable {A} (key : A -> Z) k x l :
  sorted_b (fun a b => key a <=? key b) l = true ->
  filter (fun y => key y =? k) (insert_by (fun a b => key a <=? key b) x l)
  = filter (fun y => key y =? k) (x :: l).
Proof.
  induction l as [|y r IH]; intros Hs; [reflexivity|].
  simpl insert_by. destruct (key x <=? key y) eqn:E; [reflexivity|].
  assert (Hr : sorted_b (fun a b => key a <=? key b) r = true).
  { destruct r as [|z r]; [reflexivity|]. simpl in Hs. apply andb_prop in Hs. apply Hs. }
  simpl filter at 1. rewrite (IH Hr). simpl.
  apply Z.leb_gt in E.
  destruct (key x =? k) eqn:Ex, (key y =? k) eqn:Ey; try reflexivity.
  apply Z.eqb_eq in Ex. apply Z.eqb_eq in Ey. lia.
Qed.
Theorem isort_by_stable {A} (key : A -> Z) k l :
  filter (fun y => key y =? k) (isort_by (fun a b => key a <=? key b) l) = filter (fun y => key y =? k) l.
Proof.
  unfold isort_by. induction l as [|x l IH]; [reflexivity|].
  simpl fold_right. rewrite insert_by_stable.
  - simpl. rewrite IH. reflexivity.
  - apply (isort_by_sorted (fun a b => key a <=? key b)). intros a b H. apply Z.leb_gt in H. apply Z.leb_le. lia.
Qed.

(* the model sorts by selecting with argsort(key column); that is the stable sort of the rows *)
Lemma sel_insert_idx {A} (key : A -> Z) (l : list A) k x J :
  nth_error l k = Some x ->
  Forall (fun j => (j < length l)%nat) J ->
  sel (insert_idx (fun i => nth i (map key l) 0) k J) l
  = insert_by (fun a b => key a <=? key b) x (sel J l)
  /\ Forall (fun j => (j < length l)%nat) (insert_idx (fun i => nth i (map key l) 0) k J).
Proof.
  intros Hk. assert (Hkl : (k < length l)%nat) by (apply nth_error_Some; congruence).
  assert (Kk : nth k (map key l) 0 = key x).
  { rewrite (nth_indep _ 0 (key x)) by (rewrite map_length; exact Hkl). rewrite map_nth.
    f_equal. apply nth_error_nth. exact Hk. }
  induction J as [|j J IH]; intros HJ.
  - simpl. rewrite Hk. split; [reflexivity|repeat constructor; exact Hkl].
  - inversion HJ as [|? ? Hj HJ']; subst.
    destruct (nth_error l j) as [y|] eqn:Ej; [|apply nth_error_None in Ej; lia].
    assert (Kj : nth j (map key l) 0 = key y).
    { rewrite (nth_indep _ 0 (key y)) by (rewrite map_length; exact Hj). rewrite map_nth.
      f_equal. apply nth_error_nth. exact Ej. }
    simpl insert_idx. rewrite Kk, Kj. rewrite (sel_cons j J), Ej. simpl app. simpl insert_by.
    destruct (key x <=? key y).
    + split; [|constructor; [exact Hkl|exact HJ]].
      rewrite sel_cons, Hk. rewrite (sel_cons j J), Ej. reflexivity.
    + destruct (IH HJ') as [IH1 IH2]. split; [|constructor; assumption].
      rewrite sel_cons, Ej. simpl. rewrite IH1. reflexivity.
Qed.

Lemma argsort_isort_suffix {A} (key : A -> Z) (pre suf : list A) :
  let l := pre ++ suf in
  sel (fold_right (insert_idx (fun i => nth i (map key l) 0)) [] (seq (length pre) (length suf))) l
  = isort_by (fun a b => key a <=? key b) suf
  /\ Forall (fun j => (j < length l)%nat) (fold_right (insert_idx (fun i => nth i (map key l) 0)) [] (seq (length pre) (length suf))).
Proof.
  revert pre. induction suf as [|x suf IH]; intros pre l.
  - simpl. split; [reflexivity|constructor].
  - simpl seq. simpl fold_right.
    specialize (IH (pre ++ [x])). simpl in IH.
    replace (length (pre ++ [x])) with (S (length pre)) in IH by (rewrite app_length; simpl; lia).
    replace ((pre ++ [x]) ++ suf) with l in IH by (unfold l; rewrite <- app_assoc; reflexivity).
    destruct IH as [IH1 IH2].
    assert (Hk : nth_error l (length pre) = Some x).
    { unfold l. rewrite nth_error_app2 by lia. rewrite Nat.sub_diag. reflexivity. }
    destruct (sel_insert_idx key l (length pre) x _ Hk IH2) as [S1 S2].
    split; [|exact S2]. rewrite S1, IH1. reflexivity.
Qed.

Theorem argsort_is_stable_sort {A} (key : A -> Z) (l : list A) :
  sel (argsort (map key l)) l = isort_by (fun a b => key a <=? key b) l.
Proof.
  unfold argsort. rewrite map_length.
  exact (proj1 (argsort_isort_suffix key [] l)).
Qed.

(* extracting column f from the rows of an aligned table *)
Lemma map_fst_combine' {A B} (l : list A) (Z : list B) : length l = length Z -> map fst (combine l Z) = l.
Proof. revert Z. induction l as [|a l IH]; intros [|z Z] H; simpl in *; try discriminate; [reflexivity|]. f_equal. apply IH. lia. Qed.
Lemma map_snd_combine' {A B} (l : list A) (Z : list B) : length l = length Z -> map snd (combine l Z) = Z.
Proof. revert Z. induction l as [|a l IH]; intros [|z Z] H; simpl in *; try discriminate; [reflexivity|]. f_equal. apply IH. lia. Qed.

Lemma zip_rows_column {A} (d : A) (ls : list (list A)) n f col :
  Forall (fun l => length l = n) ls -> nth_error ls f = Some col ->
  map (fun r => nth f r d) (zip_rows ls) = col.
Proof.
  revert f. induction ls as [|l r IH]; intros f Hall Hf; [destruct f; discriminate|].
  inversion Hall as [|? ? Hl Hr]; subst.
  destruct r as [|r0 r].
  - destruct f; [|destruct f; discriminate]. injection Hf as <-.
    rewrite zip_rows_single, map_map. simpl. apply map_id.
  - rewrite zip_rows_cons2, map_map.
    assert (L : length l = length (zip_rows (r0 :: r))).
    { rewrite (zip_rows_length (r0 :: r) (length l)); [reflexivity|congruence|assumption]. }
    destruct f as [|f].
    + injection Hf as <-. rewrite (map_ext _ fst) by reflexivity. apply map_fst_combine'. exact L.
    + simpl in Hf. rewrite (map_ext _ (fun x => nth f (snd x) d)) by reflexivity.
      rewrite <- (map_map snd (fun r => nth f r d)). rewrite map_snd_combine' by exact L.
      apply IH; assumption.
Qed.

Definition rowkey (f : nat) (r : list mcell) : Z := match nth f r (MN []) with MB (MZ _ z) => z | _ => 0 end.

(* T4 for numeric key columns: sort_by = stable sort of the rows by that column *)
Theorem sort_by_refines f d v t :
  aligned t = true -> nth_error t f = Some (CBase (ColNum d v)) ->
  exists t', m_sort_by_gen false f t = Some t' /\ aligned t' = true
    /\ m_to_rows t' = isort_by (fun a b => rowkey f a <=? rowkey f b) (m_to_rows t).
Proof.
  intros H Hf. unfold m_sort_by_gen. rewrite Hf. simpl.
  eexists; split; [reflexivity|]. split; [apply aligned_select; exact H|].
  rewrite m_to_rows_select by exact H.
  rewrite <- (argsort_is_stable_sort (rowkey f) (m_to_rows t)). f_equal. f_equal.
  unfold m_to_rows, rowkey.
  assert (Hc : nth_error (map col_cells t) f = Some (map MB (map (MZ d) v))).
  { rewrite nth_error_map, Hf. reflexivity. }
  apply aligned_Forall in H.
  assert (Hall : Forall (fun l => length l = m_len t) (map col_cells t)).
  { rewrite Forall_map. eapply Forall_impl; [|exact H]. intros c Hcc. apply col_cells_length. exact Hcc. }
  rewrite <- (map_map (fun r => nth f r (MN [])) (fun c => match c with MB (MZ _ z) => z | _ => 0 end)).
  rewrite (zip_rows_column (MN []) _ _ f _ Hall Hc).
  rewrite !map_map. simpl. symmetry. apply map_id.
Qed.

(* ====================================================================== T1: every table a program produces is aligned *)
Lemma check_aligned_ok t t' : check_aligned t = Some t' -> aligned t' = true.
Proof. unfold check_aligned. destruct (aligned t) eqn:E; [|discriminate]. intros H. injection H as <-. exact E. Qed.

Lemma m_cat_aligned a b t : m_cat a b = Some t -> aligned t = true.
Proof. unfold m_cat. destruct (map2o col_cat a b); [apply check_aligned_ok|discriminate]. Qed.
Lemma m_construct_aligned sch args t : m_construct sch args = Some t -> aligned t = true.
Proof. unfold m_construct. destruct (map2o _ sch args); [apply check_aligned_ok|discriminate]. Qed.
Lemma m_replace_aligned sch f a t t' : m_replace sch f a t = Some t' -> aligned t' = true.
Proof.
  unfold m_replace. destruct (nth_error sch f); [|discriminate]. destruct (col_of_arg _ a); [|discriminate].
  destruct (set_nth f c t); [apply check_aligned_ok|discriminate].
Qed.
Lemma m_add_gen_aligned fx k l t t' : m_add_gen fx k l t = Some t' -> aligned t' = true.
Proof.
  unfold m_add_gen. destruct (is_nil l && negb fx); [discriminate|].
  destruct (bcol_of_cells k l); [apply check_aligned_ok|discriminate].
Qed.
Lemma m_from_rows_gen_aligned fx1 fx2 fx5 sch rows t : m_from_rows_gen fx1 fx2 fx5 sch rows = Some t -> aligned t = true.
Proof.
  unfold m_from_rows_gen. destruct rows as [|r rows].
  - destruct fx1; [|discriminate]. unfold m_empty. destruct (map_opt _ sch); [apply check_aligned_ok|discriminate].
  - destruct (has_nested sch && negb fx2); [discriminate|]. unfold m_from_rows_nonempty.
    destruct (map2o _ sch _); [apply m_construct_aligned|discriminate].
Qed.
Lemma m_from_dict_aligned sch d t : m_from_dict sch d = Some t -> aligned t = true.
Proof. unfold m_from_dict. destruct (map_opt _ sch); [apply check_aligned_ok|discriminate]. Qed.
Lemma m_sort_by_gen_aligned fx f t t' : aligned t = true -> m_sort_by_gen fx f t = Some t' -> aligned t' = true.
Proof.
  intros H. unfold m_sort_by_gen. destruct (nth_error t f) as [c|]; [|discriminate].
  destruct (sort_key_pinned c).
  - intros E. injection E as <-. apply aligned_select. exact H.
  - destruct (negb fx); [discriminate|]. destruct c as [b|]; [|discriminate].
    destruct (str_keys b); [|discriminate]. intros E. injection E as <-. apply aligned_select. exact H.
Qed.

Definition mres_aligned (r : mres) : Prop := match r with MTab _ t => aligned t = true | _ => True end.
Lemma m_step_aligned sch cur t1 o :
  aligned cur = true -> aligned t1 = true -> mres_aligned (m_step sch cur t1 o).
Proof.
  intros Hc H1.
  assert (Hopt : forall sch' x, (forall t, x = Some t -> aligned t = true) -> mres_aligned (of_opt sch' x)).
  { intros sch' [t|] Hx; simpl; [apply Hx; reflexivity|exact I]. }
  destruct o; simpl.
  - destruct (take_indices _ ix); simpl; [apply aligned_select; exact Hc|exact I].
  - destruct (mask_indices _ m); simpl; [apply aligned_select; exact Hc|exact I].
  - destruct (st =? 0); [exact I|]. destruct (take_indices _ _); simpl; [apply aligned_select; exact Hc|exact I].
  - apply Hopt. intros t. apply m_cat_aligned.
  - apply Hopt. intros t. apply m_cat_aligned.
  - apply Hopt. intros t. apply m_cat_aligned.
  - destruct (m_cat cur t1); [|exact I]. apply Hopt. intros t. apply m_cat_aligned.
  - apply Hopt. intros t. unfold m_sort_by. apply m_sort_by_gen_aligned. exact Hc.
  - apply Hopt. intros t. apply m_replace_aligned.
  - apply Hopt. intros t. unfold m_add. apply m_add_gen_aligned.
  - apply Hopt. intros t. unfold m_from_rows. apply m_from_rows_gen_aligned.
  - apply Hopt. intros t. apply m_from_dict_aligned.
  - apply Hopt. intros t. apply m_from_dict_aligned.
  - destruct (s_index _ i); exact I.
  - exact I.
  - apply Hopt. intros t. unfold m_add. apply m_add_gen_aligned.
Qed.

Theorem m_run_aligned p : forall sch cur t1,
  aligned cur = true -> aligned t1 = true -> Forall mres_aligned (m_run sch cur t1 p).
Proof.
  induction p as [|o p IH]; intros sch cur t1 Hc H1; [constructor|].
  simpl. assert (S := m_step_aligned sch cur t1 o Hc H1).
  destruct (m_step sch cur t1 o) as [sch' t'| |] eqn:E; constructor; try exact S; apply IH; assumption.
Qed.

(* ====================================================================== T3: construction keeps the values *)
Lemma map_opt_Forall2 {A B} (f : A -> option B) l r :
  map_opt f l = Some r -> Forall2 (fun a b => f a = Some b) l r.
Proof.
  revert r. induction l as [|a l IH]; intros r H; simpl in H.
  - injection H as <-. constructor.
  - destruct (f a) as [b|] eqn:E; [|discriminate]. destruct (map_opt f l) as [r'|]; [|discriminate].
    injection H as <-. constructor; [exact E|apply IH; reflexivity].
Qed.

(* the value guard: python ints handed to a numeric / list column are below 2^53 in magnitude *)
Definition mb_small (b : mb) : Prop :=
  match b with MZ DI z => int_ok z | ML DI l => Forall int_ok l | _ => True end.

Lemma encode_decode_dna c k : In c dna_alphabet -> encode_dna c = Some k -> decode dna_alphabet k = c.
Proof.
  simpl. intros [<-|[<-|[<-|[<-|[]]]]]; vm_compute; intros H; injection H as <-; reflexivity.
Qed.
Lemma encode_decode_strand c k : In c strand_alphabet -> encode_strand c = Some k -> decode strand_alphabet k = c.
Proof.
  simpl. intros [<-|[<-|[<-|[]]]]; vm_compute; intros H; injection H as <-; reflexivity.
Qed.
Lemma existsb_In c l : existsb (Z.eqb c) l = true -> In c l.
Proof. intros H. apply existsb_exists in H. destruct H as [x [Hx E]]. apply Z.eqb_eq in E. subst. exact Hx. Qed.

Theorem column_roundtrip fx5 fx6 k l c :
  bcol_of_cells_gen fx5 fx6 k l = Some c -> Forall (fun b => mb_ok k b = true) l -> Forall mb_small l ->
  ecells c = map erase_b l /\ bcol_len c = length l.
Proof.
  intros H Hok Hsm.
  assert (NUM : forall d0, (match all_MZ l with
            | Some ps => let d := d0 (map fst ps) in Some (ColNum d (map (fun p => cast (fst p) d (snd p)) ps))
            | None => None end) = Some c -> ecells c = map erase_b l /\ bcol_len c = length l).
  { clear H. intros d0 H. destruct (all_MZ l) as [ps|] eqn:E; [|discriminate]. injection H as <-.
    apply map_opt_Forall2 in E. unfold ecells. simpl. rewrite !map_map, map_length.
    generalize (d0 (map fst ps)). intros d.
    clear Hok. induction E as [|b p l ps Hb E IH]; [split; reflexivity|].
    inversion Hsm as [|? ? Hs Hsm']; subst. destruct (IH Hsm') as [IH1 IH2]. cbn [map length]. rewrite IH1, IH2. split; [|reflexivity].
    f_equal. destruct b as [d1 z| |]; try discriminate. injection Hb as <-. simpl.
    destruct d1; try (destruct d; reflexivity). f_equal. apply cast_exact. exact Hs. }
  destruct k; simpl in H; try (apply (NUM _ H)); clear NUM.
  - (* KStr *)
    destruct (all_MS l) as [ss|] eqn:E; [|discriminate]. injection H as <-.
    apply map_opt_Forall2 in E. unfold ecells, rag_of_rows. simpl. rewrite rag_rows_of_rows, map_map, map_length.
    clear - E. induction E as [|b s l ss Hb E IH]; [split; reflexivity|]. destruct IH as [I1 I2].
    destruct b; try discriminate. injection Hb as <-. cbn [map length]. rewrite I1, I2. split; reflexivity.
  - (* KId *)
    destruct (all_MS l) as [ss|] eqn:E; [|discriminate]. injection H as <-.
    apply map_opt_Forall2 in E. unfold ecells.
    assert (NF : Forall (Forall (fun c => c <> 0)) ss /\ map erase_b (map MS ss) = map erase_b l /\ length ss = length l).
    { clear - E Hok. induction E as [|b s l ss Hb E IH]; [repeat split; constructor|].
      inversion Hok as [|? ? Hk Hok']; subst. destruct (IH Hok') as [I1 [I2 I3]].
      destruct b; try discriminate. injection Hb as <-. simpl in *. rewrite I2, I3. repeat split; try reflexivity.
      constructor; [|exact I1]. rewrite forallb_forall in Hk. rewrite Forall_forall. intros c Hc.
      specialize (Hk c Hc). apply andb_prop in Hk. destruct Hk as [Hk _]. apply Z.ltb_lt in Hk. lia. }
    destruct NF as [N1 [N2 N3]]. rewrite pad_all_cells by exact N1. split; [exact N2|].
    unfold pad_all. simpl. rewrite map_length. exact N3.
  - (* KList *)
    destruct (all_ML l) as [ps|] eqn:E; [|discriminate]. injection H as <-.
    apply map_opt_Forall2 in E. unfold ecells, rag_of_rows. simpl. rewrite rag_rows_of_rows, !map_map, map_length.
    match goal with |- context [cast _ ?d] => generalize d end. intros d.
    clear Hok. induction E as [|b p l ps Hb E IH]; [split; reflexivity|].
    inversion Hsm as [|? ? Hs Hsm']; subst. destruct (IH Hsm') as [IH1 IH2]. cbn [map length]. rewrite IH1, IH2. split; [|reflexivity].
    f_equal. destruct b as [|?|d0 x]; try discriminate. injection Hb as <-. simpl. f_equal.
    destruct d0; try (destruct d; apply map_id). apply map_cast_exact. exact Hs.
  - (* KDna *)
    destruct (all_MS l) as [ss|] eqn:E; [|discriminate].
    destruct (map_opt (map_opt encode_dna) ss) as [cs|] eqn:E2; [|discriminate]. injection H as <-.
    apply map_opt_Forall2 in E. apply map_opt_Forall2 in E2.
    unfold ecells, rag_of_rows. simpl. rewrite rag_rows_of_rows, map_map, map_length.
    revert cs E2. induction E as [|b s l ss Hb E IH]; intros cs E2; inversion E2 as [|? s' ? cs' Hs E2']; subst; [split; reflexivity|].
    inversion Hok as [|? ? Hk Hok']; inversion Hsm as [|? ? _ Hsm']; subst.
    destruct (IH Hok' Hsm' cs' E2') as [I1 I2]. destruct b; try discriminate. injection Hb as <-.
    cbn [map length]. rewrite I1, I2. split; [|reflexivity]. simpl. do 2 f_equal.
    simpl in Hk. apply map_opt_Forall2 in Hs. clear - Hk Hs.
    induction Hs as [|c k s ks Hc Hs IH]; [reflexivity|]. simpl in Hk. apply andb_prop in Hk. destruct Hk as [Hk1 Hk2].
    simpl. rewrite (IH Hk2). f_equal. apply encode_decode_dna; [apply existsb_In; exact Hk1|exact Hc].
  - (* KStrand *)
    destruct (all_MS l) as [ss|] eqn:E; [|discriminate].
    destruct (fx6 && negb (forallb (fun s => Nat.eqb (length s) 1) ss)); [discriminate|].
    destruct (map_opt encode_strand (concat ss)) as [cs|] eqn:E2; [|discriminate]. injection H as <-.
    apply map_opt_Forall2 in E. apply map_opt_Forall2 in E2.
    unfold ecells. simpl. rewrite map_map.
    revert cs E2. induction E as [|b s l ss Hb E IH]; intros cs E2.
    + simpl in E2. inversion E2; subst. split; reflexivity.
    + inversion Hok as [|? ? Hk Hok']; inversion Hsm as [|? ? _ Hsm']; subst.
      destruct b as [|s0|]; try discriminate. injection Hb as <-. simpl in Hk.
      destruct s0 as [|c [|c' s0]]; try discriminate.
      simpl in E2. inversion E2 as [|? k ? cs' Hc E2']; subst.
      destruct (IH Hok' Hsm' cs' E2') as [I1 I2]. cbn [map length]. rewrite I1, I2. split; [|reflexivity].
      simpl. do 3 f_equal. apply encode_decode_strand; [apply existsb_In; exact Hk|exact Hc].
Qed.

Theorem sort_spec {A} (key : A -> Z) (rs : list A) :
  let srt := isort_by (fun a b => key a <=? key b) rs in
  Permutation srt rs
  /\ sorted_b (fun a b => key a <=? key b) srt = true
  /\ forall k, filter (fun r => key r =? k) srt = filter (fun r => key r =? k) rs.
Proof.
  split; [apply isort_by_perm|]. split.
  - apply (isort_by_sorted (fun a b => key a <=? key b)). intros a b H. apply Z.leb_gt in H. apply Z.leb_le. lia.
  - intros k. apply isort_by_stable.
Qed.

(* Proofs/C11_expr.v — arithmetic on a streamed track: the nodes that Node.__array_ufunc__ creates for an expression
   compute, for every buffer, the expression applied position by position to the track's buffer — with the operands in
   the order they were written (`c - x` and `x - c` are different terms and different nodes). *)
From Coq Require Import ZArith List Bool Lia Arith.
From BNP Require Import Base.Prims Base.PrimsFacts Model.C11 Proofs.C11 Proofs.C11_graph.
Import ListNotations.
Open Scope Z_scope.

Lemma value_extend {V} (g ext : list (node V)) i : wf g ->
  forall f k, (k < length g)%nat -> value f (g ++ ext) k i = value f g k i.
Proof.
  intros Hwf. induction f as [|f IH]; intros k Hk; [reflexivity|].
  cbn [value]. rewrite nth_error_app1 by exact Hk.
  destruct (nth_error g k) as [[bufs|fn args]|] eqn:E; try reflexivity.
  assert (Hm : map (fun a => value f (g ++ ext) a i) args = map (fun a => value f g a i) args).
  { apply map_ext_in. intros a Ha. apply IH. pose proof (Hwf k fn args E) as Hlt. rewrite Forall_forall in Hlt.
    specialize (Hlt a Ha). lia. }
  rewrite Hm. reflexivity.
Qed.
Lemma val_extend {V} (g ext : list (node V)) k i : wf g -> (k < length g)%nat -> val (g ++ ext) k i = val g k i.
Proof. intros Hwf Hk. unfold val. apply value_extend; assumption. Qed.

Lemma wf_app_node {V} (g : list (node V)) (nd : node V) : wf g ->
  (forall f args, nd = NComp f args -> Forall (fun a => (a < length g)%nat) args) -> wf (g ++ [nd]).
Proof.
  intros Hwf Hnd k f args E.
  destruct (Nat.lt_ge_cases k (length g)) as [Hlt|Hge].
  - rewrite nth_error_app1 in E by exact Hlt. exact (Hwf k f args E).
  - rewrite nth_error_app2 in E by exact Hge.
    destruct (k - length g)%nat as [|m] eqn:Em; [|destruct m; discriminate].
    cbn in E. injection E as E. specialize (Hnd f args E).
    eapply Forall_impl; [|exact Hnd]. intros a Ha. cbn in Ha. lia.
Qed.

Lemma map2_map (f : Z -> Z -> Z) (fa fb : Z -> Z) t : map2 f (map fa t) (map fb t) = map (fun x => f (fa x) (fb x)) t.
Proof. induction t as [|x t IH]; [reflexivity|]. cbn [map map2]. rewrite IH. reflexivity. Qed.

Section Expr.
Variable track : nat.
Variable tv : nat -> option (list Z).         (* buffer i of the track, if the stream is that long *)

Definition denotes (g : list (node gval)) (k : nat) (e : texpr) : Prop :=
  forall i, val g k i = option_map (fun t => GL (map (teval e) t)) (tv i).
Definition graph_ok (g : list (node gval)) : Prop :=
  wf g /\ (track < length g)%nat /\ denotes g track TTrack.

Lemma denotes_extend g ext k e : wf g -> (k < length g)%nat -> denotes g k e -> denotes (g ++ ext) k e.
Proof. intros Hwf Hk H i. rewrite val_extend by assumption. apply H. Qed.
Lemma graph_ok_extend g ext : graph_ok g -> wf (g ++ ext) -> graph_ok (g ++ ext).
Proof.
  intros (Hwf & Ht & Hd) Hwf'. split; [exact Hwf'|]. split; [rewrite app_length; lia|].
  apply denotes_extend; assumption.
Qed.

(* what the operand of a compiled sub-expression stands for *)
Definition operand_ok (g : list (node gval)) (e : texpr) (o : operand) : Prop :=
  match o with
  | ONode k => (k < length g)%nat /\ denotes g k e
  | OConst c => forall x, teval e x = c
  end.

(* value of a freshly appended ufunc node with two operands *)
Lemma ufunc_node_denotes g o ea eb oa ob :
  wf g -> operand_ok g ea oa -> operand_ok g eb ob ->
  (match oa, ob with OConst _, OConst _ => False | _, _ => True end) ->
  wf (g ++ [ufunc_node o [oa; ob]]) /\ denotes (g ++ [ufunc_node o [oa; ob]]) (length g) (TBin o ea eb).
Proof.
  intros Hwf Ha Hb Hnode.
  assert (Hwf' : wf (g ++ [ufunc_node o [oa; ob]])).
  { apply wf_app_node; [exact Hwf|]. intros f args E. unfold ufunc_node in E. injection E as _ <-.
    destruct oa as [ka|ca]; destruct ob as [kb|cb]; cbn [node_args flat_map app];
      repeat constructor; try (destruct Ha as [Ha _]; exact Ha); try (destruct Hb as [Hb _]; exact Hb). }
  split; [exact Hwf'|]. intros i.
  assert (En : nth_error (g ++ [ufunc_node o [oa; ob]]) (length g) = Some (ufunc_node o [oa; ob])).
  { rewrite nth_error_app2 by lia. rewrite Nat.sub_diag. reflexivity. }
  unfold ufunc_node in En. rewrite (val_comp _ Hwf' _ _ _ i En).
  destruct oa as [ka|ca]; destruct ob as [kb|cb]; cbn [node_args flat_map app map]; try contradiction.
  - destruct Ha as [Hka Hda]. destruct Hb as [Hkb Hdb].
    rewrite !val_extend by assumption. rewrite (Hda i), (Hdb i).
    destruct (tv i) as [t|]; cbn [option_map opt_all]; [|reflexivity].
    cbn [fill_args apply_ufunc lift2 teval]. rewrite !map_length, Nat.eqb_refl, map2_map. reflexivity.
  - destruct Ha as [Hka Hda]. rewrite val_extend by assumption. rewrite (Hda i).
    destruct (tv i) as [t|]; cbn [option_map opt_all]; [|reflexivity].
    cbn [fill_args apply_ufunc lift2 teval]. rewrite map_map. do 2 f_equal. apply map_ext. intros x. rewrite (Hb x). reflexivity.
  - destruct Hb as [Hkb Hdb]. rewrite val_extend by assumption. rewrite (Hdb i).
    destruct (tv i) as [t|]; cbn [option_map opt_all]; [|reflexivity].
    cbn [fill_args apply_ufunc lift2 teval]. rewrite map_map. do 2 f_equal. apply map_ext. intros x. rewrite (Ha x). reflexivity.
Qed.

(* every node appended for an expression denotes some sub-expression; the result operand denotes the expression *)
Definition new_nodes_ok (g g' : list (node gval)) : Prop :=
  forall j, (length g <= j < length g')%nat -> exists e', denotes g' j e'.

Lemma operand_ok_extend g ext e o : wf g -> operand_ok g e o -> operand_ok (g ++ ext) e o.
Proof.
  intros Hwf H. destruct o as [k|c]; [|exact H]. destruct H as [Hk Hd]. split; [rewrite app_length; lia|].
  apply denotes_extend; assumption.
Qed.

Lemma compile_bin_step g' g0 o a b oa ob :
  graph_ok g' -> new_nodes_ok g0 g' -> operand_ok g' a oa -> operand_ok g' b ob ->
  (match oa, ob with OConst _, OConst _ => False | _, _ => True end) ->
  graph_ok (g' ++ [ufunc_node o [oa; ob]]) /\ new_nodes_ok g0 (g' ++ [ufunc_node o [oa; ob]])
  /\ operand_ok (g' ++ [ufunc_node o [oa; ob]]) (TBin o a b) (ONode (length g')).
Proof.
  intros Hg Hnew Ha Hb Hnode. pose proof Hg as (Hwf & _ & _).
  destruct (ufunc_node_denotes g' o a b oa ob Hwf Ha Hb Hnode) as (Hwf' & Hden).
  split; [apply graph_ok_extend; assumption|]. split.
  - intros j Hj. rewrite app_length in Hj. cbn [length] in Hj.
    destruct (Nat.lt_ge_cases j (length g')) as [Hlt|Hge].
    + destruct (Hnew j ltac:(lia)) as (e' & He'). exists e'. apply denotes_extend; assumption.
    + replace j with (length g') by lia. eexists. exact Hden.
  - split; [rewrite app_length; cbn [length]; lia|exact Hden].
Qed.

Theorem compile_ok : forall e g nodes opd, graph_ok g -> compile e track (length g) = (nodes, opd) ->
  graph_ok (g ++ nodes) /\ new_nodes_ok g (g ++ nodes) /\ operand_ok (g ++ nodes) e opd.
Proof.
  induction e as [|c|o a IHa b IHb]; intros g nodes opd Hg E.
  - cbn in E. injection E as <- <-. rewrite app_nil_r. split; [exact Hg|]. split.
    + intros j Hj. lia.
    + destruct Hg as (Hwf & Ht & Hd). split; assumption.
  - cbn in E. injection E as <- <-. rewrite app_nil_r. split; [exact Hg|]. split.
    + intros j Hj. lia.
    + intros x. reflexivity.
  - cbn [compile] in E.
    destruct (compile a track (length g)) as [na oa] eqn:Ea.
    destruct (IHa g na oa Hg Ea) as (Hga & Hna & Hoa).
    assert (Elen : (length g + length na)%nat = length (g ++ na)) by (rewrite app_length; reflexivity).
    rewrite Elen in E.
    destruct (compile b track (length (g ++ na))) as [nb ob] eqn:Eb.
    destruct (IHb (g ++ na) nb ob Hga Eb) as (Hgb & Hnb & Hob).
    pose proof Hga as (Hwfa & _ & _). pose proof Hgb as (Hwfb & _ & _).
    assert (Hoa' : operand_ok ((g ++ na) ++ nb) a oa) by (apply operand_ok_extend; assumption).
    assert (Hnew_ab : new_nodes_ok g ((g ++ na) ++ nb)).
    { intros j Hj. destruct (Nat.lt_ge_cases j (length (g ++ na))) as [Hlt|Hge].
      - destruct (Hna j ltac:(lia)) as (e' & He'). exists e'. apply denotes_extend; assumption.
      - apply Hnb. lia. }
    assert (Hidx : (length (g ++ na) + length nb)%nat = length ((g ++ na) ++ nb)) by (rewrite !app_length; lia).
    destruct oa as [ka|ca]; destruct ob as [kb|cb].
    1-3: (injection E as <- <-; rewrite Hidx; rewrite !app_assoc;
          apply (compile_bin_step ((g ++ na) ++ nb) g o a b _ _ Hgb Hnew_ab Hoa' Hob I)).
    injection E as <- <-. rewrite app_assoc. split; [exact Hgb|]. split; [exact Hnew_ab|].
    intros x. cbn [teval]. rewrite (Hoa' x), (Hob x). reflexivity.
Qed.
End Expr.

(* the two operand orders are different nodes with different values: `c - x` versus `x - c` *)
Corollary scalar_left_and_right : forall track tv g c,
  graph_ok track tv g ->
  let '(n1, o1) := compile (TBin BSub (TConst c) TTrack) track (length g) in
  let '(n2, o2) := compile (TBin BSub TTrack (TConst c)) track (length g) in
  operand_ok tv (g ++ n1) (TBin BSub (TConst c) TTrack) o1 /\ operand_ok tv (g ++ n2) (TBin BSub TTrack (TConst c)) o2.
Proof.
  intros track tv g c Hg.
  destruct (compile (TBin BSub (TConst c) TTrack) track (length g)) as [n1 o1] eqn:E1.
  destruct (compile (TBin BSub TTrack (TConst c)) track (length g)) as [n2 o2] eqn:E2.
  split; [exact (proj2 (proj2 (compile_ok track tv _ g n1 o1 Hg E1)))|exact (proj2 (proj2 (compile_ok track tv _ g n2 o2 Hg E2)))].
Qed.

(* Proofs/C10_f.v — C10 part 7: Genome.with_ignored_added.  A context built by from_dict and any number of
   with_ignored_added steps includes exactly the chromosomes of the original dict that the filter keeps and that were
   never added as ignored, in the original order and with their original sizes; names added on the way (existing ones
   get size 0 in the dict, new ones are appended) never count as chromosomes, and nothing that was ignored comes back. *)
From Coq Require Import ZArith List Bool Lia Arith.
From BNP Require Import Base.Prims Base.PrimsFacts Model.C10 Proofs.C10_e.
Import ListNotations.
Open Scope Z_scope.

Lemma name_in_app : forall n a b, name_in n (a ++ b) = name_in n a || name_in n b.
Proof. intros. unfold name_in. apply existsb_app. Qed.
Lemma name_in_true : forall n l, name_in n l = true <-> In n l.
Proof.
  intros n l. unfold name_in. rewrite existsb_exists. split.
  - intros [m [Hm E]]. apply zlist_eqb_eq in E. subst. exact Hm.
  - intros H. exists n. split; [exact H|apply zlist_eqb_refl].
Qed.

(* one with_ignored_added step, as a predicate *)
Lemma with_added_keep : forall x a c,
  gx_keep (ctx_with_ignored_added x a) c = gx_keep x c && negb (name_in (c_name c) a).
Proof.
  intros x a c. unfold gx_keep, ctx_with_ignored_added. cbn [gx_ign]. rewrite name_in_app.
  destruct (name_in (c_name c) a), (name_in (c_name c) (gx_ign x)); reflexivity.
Qed.

(* updating the dict with names on which a name-predicate is false does not change what the predicate selects *)
Lemma filter_set_size0 : forall (r : list Z -> bool) n d, r n = false ->
  filter (fun c => r (c_name c)) (set_size0 n d) = filter (fun c => r (c_name c)) d.
Proof.
  intros r n. induction d as [|c d IH]; intros Hr; [reflexivity|]. cbn [set_size0 filter].
  destruct (zlist_eqb (c_name c) n) eqn:E.
  - apply zlist_eqb_eq in E. cbn [c_name]. rewrite E, Hr. apply IH. exact Hr.
  - rewrite IH by exact Hr. reflexivity.
Qed.
Lemma filter_dict_add : forall (r : list Z -> bool) n d, r n = false ->
  filter (fun c => r (c_name c)) (dict_add d n) = filter (fun c => r (c_name c)) d.
Proof.
  intros r n d Hr. unfold dict_add. destruct (name_in n (map c_name d)).
  - apply filter_set_size0. exact Hr.
  - rewrite filter_app. cbn [filter c_name]. rewrite Hr. apply app_nil_r.
Qed.
Lemma filter_dict_update : forall (r : list Z -> bool) names d, (forall n, In n names -> r n = false) ->
  filter (fun c => r (c_name c)) (dict_update d names) = filter (fun c => r (c_name c)) d.
Proof.
  intros r. unfold dict_update. induction names as [|n names IH]; intros d H; [reflexivity|]. cbn [fold_left].
  rewrite IH by (intros m Hm; apply H; right; exact Hm). apply filter_dict_add. apply H. left. reflexivity.
Qed.

(* any number of steps *)
Definition never_added (steps : list (list (list Z))) (n : list Z) : bool := forallb (fun s => negb (name_in n s)) steps.
Lemma steps_keep : forall steps x c,
  gx_keep (fold_left ctx_with_ignored_added steps x) c = gx_keep x c && never_added steps (c_name c).
Proof.
  induction steps as [|s steps IH]; intros x c; [cbn; rewrite andb_true_r; reflexivity|].
  cbn [fold_left never_added forallb]. rewrite IH, with_added_keep. unfold never_added. rewrite andb_assoc. reflexivity.
Qed.
Lemma steps_included : forall steps x,
  let x' := fold_left ctx_with_ignored_added steps x in
  filter (gx_keep x') (gx_dict x') = filter (fun c => gx_keep x c && never_added steps (c_name c)) (gx_dict x).
Proof.
  induction steps as [|s steps IH]; intros x; cbv zeta.
  - cbn [fold_left never_added forallb]. apply filter_ext. intros c. rewrite andb_true_r. reflexivity.
  - cbn [fold_left]. specialize (IH (ctx_with_ignored_added x s)). cbv zeta in IH. rewrite IH.
    cbn [ctx_with_ignored_added gx_dict].
    rewrite (filter_ext _ (fun c => (fun n => negb (name_in n (gx_ign x)) && negb (name_in n s) && never_added steps n) (c_name c))).
    2:{ intros c. rewrite with_added_keep. reflexivity. }
    rewrite (filter_dict_update (fun n => negb (name_in n (gx_ign x)) && negb (name_in n s) && never_added steps n)).
    + apply filter_ext. intros c. unfold gx_keep. cbn [never_added forallb]. rewrite andb_assoc. reflexivity.
    + intros n Hn. apply name_in_true in Hn. rewrite Hn. cbn [negb]. rewrite andb_false_r. reflexivity.
Qed.

(* from_dict: the ignored set is what the filter rejects — the filter looks at the name only *)
Lemma keeps_name : forall f c c', c_name c = c_name c' -> keeps f c = keeps f c'.
Proof. intros f c c' H. unfold keeps. rewrite H. reflexivity. Qed.
Lemma from_dict_keep : forall f g c, In c g -> gx_keep (ctx_from_dict f g) c = keeps f c.
Proof.
  intros f g c Hc. unfold gx_keep, ctx_from_dict. cbn [gx_ign].
  destruct (keeps f c) eqn:K.
  - apply negb_true_iff. apply not_true_is_false. intros H. apply name_in_true in H. apply in_map_iff in H.
    destruct H as [c' [Hn Hc']]. apply filter_In in Hc'. destruct Hc' as [_ Hk]. apply negb_true_iff in Hk.
    rewrite (keeps_name f c' c Hn) in Hk. congruence.
  - apply negb_false_iff. apply name_in_true. apply in_map_iff. exists c. split; [reflexivity|].
    apply filter_In. split; [exact Hc|]. rewrite K. reflexivity.
Qed.

Theorem with_ignored_added_spec : forall f g steps,
  let x := ctx_steps f g steps in
  (* the included chromosomes, their order and sizes *)
  filter (gx_keep x) (gx_dict x) = filter (fun c => keeps f c && never_added steps (c_name c)) g
  /\ ctx_sizes (gx_keep x) (gx_dict x) = ctx_sizes (fun c => keeps f c && never_added steps (c_name c)) g
  /\ ctx_us (gx_keep x) (gx_dict x) = ctx_us (fun c => keeps f c && never_added steps (c_name c)) g
  (* which names count as chromosomes at all *)
  /\ (forall c, In c g -> gx_keep x c = keeps f c && never_added steps (c_name c))
  /\ (forall c s, In s steps -> In (c_name c) s -> gx_keep x c = false).
Proof.
  intros f g steps x.
  assert (E : filter (gx_keep x) (gx_dict x) = filter (fun c => keeps f c && never_added steps (c_name c)) g).
  { unfold x, ctx_steps. rewrite (steps_included steps (ctx_from_dict f g)). cbn [ctx_from_dict gx_dict].
    apply filter_ext_in. intros c Hc. rewrite (from_dict_keep f g c Hc). reflexivity. }
  split; [exact E|]. split; [unfold ctx_sizes; rewrite E; reflexivity|]. split; [unfold ctx_us; rewrite E; reflexivity|].
  split.
  - intros c Hc. unfold x, ctx_steps. rewrite steps_keep. rewrite (from_dict_keep f g c Hc). reflexivity.
  - intros c s Hs Hn. unfold x, ctx_steps. rewrite steps_keep.
    replace (never_added steps (c_name c)) with false; [apply andb_false_r|].
    symmetry. apply not_true_is_false. intros H. unfold never_added in H. rewrite forallb_forall in H.
    specialize (H s Hs). apply negb_true_iff in H. apply name_in_true in Hn. congruence.
Qed.

(* dropping the old ignored set (the names the filter rejected come back) is not the same thing *)
Theorem with_ignored_added_dropping_refuted :
  exists f g a, let x := ctx_from_dict f g in
    filter (gx_keep {| gx_dict := dict_update (gx_dict x) a; gx_ign := a |}) (dict_update (gx_dict x) a)
    <> filter (gx_keep (ctx_with_ignored_added x a)) (gx_dict (ctx_with_ignored_added x a)).
Proof.
  exists IgnoreUnderscore, [ {| c_name := [99; 104; 114]; c_size := 3 |}; {| c_name := [99; 104; 95]; c_size := 2 |} ], [[120]].
  vm_compute. discriminate.
Qed.

(* Proofs/C14_link.v — phase 3: (1) strand-aware extraction for arbitrary items (intervals, multi-exon transcripts) with the
   exact success / failure condition of npstructures' np.where; (2) translation: exact dichotomy translate / raise;
   (3) the link  case_wf c -> model_ok c -> prop_ok c  for every case class of Corr/C14.v. *)
From Coq Require Import ZArith List Bool Lia.
From BNP Require Import Base.Prims Base.PrimsFacts Model.C14 Proofs.C14 Corr.C14.
Import ListNotations.
Open Scope Z_scope.

(* ---------- (1) extraction ---------- *)
Section Extract.
  Variable keys : list (Z * Z).
  Variable ez : Z.
  Variable D : list Z.
  Variable v : list Z.
  Hypothesis Hv : values_of keys (enc_of ez) = Some v.
  Hypothesis HD : forallb (sym_ok ez (enc_of ez) v) D = true.
  Let e := enc_of ez.
  Context {I : Type}.
  Variable ext : list Z -> I -> list Z.
  Variable strand : I -> Z.
  Hypothesis ext_map : forall (f : Z -> Z) ref it, ext (map f ref) it = map f (ext ref it).
  Hypothesis ext_dom : forall ref it, Forall (fun c => In c D) ref -> Forall (fun c => In c D) (ext ref it).

  Definition spec_item (ref : list Z) (it : I) : list Z :=
    if strand it =? 45 then spec_revcomp (ext ref it) else ext ref it.

  Lemma len_concat_rc1 (X : list (list Z)) : len (concat (map (rc1 v) X)) = len (concat X).
  Proof. induction X as [|r X IH]; [reflexivity|]. cbn [map concat]. rewrite !len_app, len_rc1, IH. reflexivity. Qed.
  Lemma len_concat_encrows (X : list (list Z)) : len (concat (encrows ez X)) = len (concat X).
  Proof. unfold encrows. induction X as [|r X IH]; [reflexivity|]. cbn [map concat]. rewrite !len_app, len_map, IH. reflexivity. Qed.

  (* the model, with the encoded rows and their reverse complements made explicit *)
  Lemma extract_unfold wh site ref items : Forall (fun c => In c D) ref ->
    model_extract keys wh site ez ref ext strand items
    = let rel := encrows ez (map (ext ref) items) in
      let rc := map (rc1 v) rel in
      let mask := map (fun it => strand it =? fst site) items in
      match (if snd site then wh mask rc rel else wh mask rel rc) with
      | Err c => Err c
      | Ok rows => Ok (map (decode e) rows)
      end.
  Proof.
    intros Href. unfold model_extract. fold e.
    rewrite (encode_ok e D) by (try apply (enc_grid ez D v HD); exact Href).
    set (srows := map (ext ref) items).
    assert (Hs : Forall (Forall (fun c => In c D)) srows).
    { unfold srows. rewrite Forall_map. apply Forall_forall. intros it _. apply ext_dom, Href. }
    assert (Hrel : map (ext (map (enc1 e) ref)) items = encrows ez srows).
    { unfold encrows, srows. rewrite map_map. apply map_ext. intros it. apply ext_map. }
    rewrite Hrel. unfold e. rewrite (revcomp_codes_any keys ez v Hv) by (apply (encrows_range ez D v HD), Hs).
    rewrite <- (map_len_rows (rc1 v) (encrows ez srows) (len_rc1 v)). rewrite split_lens_concat. reflexivity.
  Qed.

  Lemma decode_choice ref it : Forall (fun c => In c D) ref ->
    decode e (if strand it =? 45 then rc1 v (map (enc1 e) (ext ref it)) else map (enc1 e) (ext ref it))
    = spec_item (map (canon ez) ref) it.
  Proof.
    intros Href. rewrite decode_map. unfold spec_item. rewrite ext_map.
    destruct (strand it =? 45); [apply (dec_rc1 ez D v HD)|apply (dec_enc ez D v HD)]; apply ext_dom, Href.
  Qed.

  (* where the np.where succeeds: the specified rows *)
  Lemma extract_ok wh minus ref items : Forall (fun c => In c D) ref ->
    Forall (fun it => strand it = 43 \/ strand it = 45) items ->
    (forall m x y, len m = len items -> len (concat x) = len (concat (map (ext ref) items)) ->
                   wh m x y = Ok (choose_rows m x y)) ->
    model_extract keys wh (where_site minus) ez ref ext strand items = Ok (map (spec_item (map (canon ez) ref)) items).
  Proof.
    intros Href Hst Hwh. rewrite extract_unfold by exact Href. cbv zeta.
    destruct minus; cbn [where_site fst snd].
    - rewrite Hwh; [|apply len_map|rewrite len_concat_rc1; apply len_concat_encrows].
      f_equal. unfold encrows. rewrite !map_map.
      rewrite (choose_rows_map (fun it => strand it =? 45)
                 (fun it => rc1 v (map (enc1 (enc_of ez)) (ext ref it))) (fun it => map (enc1 (enc_of ez)) (ext ref it))).
      rewrite map_map. apply map_ext_in. intros it _. apply decode_choice, Href.
    - rewrite Hwh; [|apply len_map|apply len_concat_encrows].
      f_equal. unfold encrows. rewrite !map_map.
      rewrite (choose_rows_map (fun it => strand it =? 43)
                 (fun it => map (enc1 (enc_of ez)) (ext ref it)) (fun it => rc1 v (map (enc1 (enc_of ez)) (ext ref it)))).
      rewrite map_map. apply map_ext_in. intros it Hit. rewrite <- (decode_choice ref it Href).
      rewrite Forall_forall in Hst. destruct (Hst it Hit) as [E|E]; rewrite E; reflexivity.
  Qed.
  (* where it fails: the same error, whatever the strands *)
  Lemma extract_err wh minus ref items c : Forall (fun c => In c D) ref ->
    (forall m x y, len m = len items -> len (concat x) = len (concat (map (ext ref) items)) -> wh m x y = Err c) ->
    model_extract keys wh (where_site minus) ez ref ext strand items = Err c.
  Proof.
    intros Href Hwh. rewrite extract_unfold by exact Href. cbv zeta.
    destruct minus; cbn [where_site fst snd].
    - rewrite Hwh; [reflexivity|apply len_map|rewrite len_concat_rc1; apply len_concat_encrows].
    - rewrite Hwh; [reflexivity|apply len_map|apply len_concat_encrows].
  Qed.
End Extract.

(* npstructures' np.where, exactly *)
Lemma where_pinned_ok n total m x y : n < total -> len m = n -> len (concat x) = total ->
  where_pinned m x y = Ok (choose_rows m x y).
Proof. intros H Hm Hx. unfold where_pinned. rewrite Hm, Hx. apply Z.ltb_lt in H. rewrite H. reflexivity. Qed.
Lemma where_pinned_err n total m x y : total <= n -> len m = n -> len (concat x) = total ->
  where_pinned m x y = Err 5.
Proof. intros H Hm Hx. unfold where_pinned. rewrite Hm, Hx. apply Z.ltb_ge in H. rewrite H. reflexivity. Qed.

(* the code at HEAD: the repaired complement table is the current one, on the full domain *)
Lemma grid_head : forallb (fun ez => grid_ok complements ez (domain ez)) [0; 1; 2] = true.
Proof. vm_compute. reflexivity. Qed.
(* since the repair (broadcast_row_mask) the model in force uses the row-wise choice; [where_pinned] below is history *)
Lemma head_where : where_rows = where_fixed.
Proof. reflexivity. Qed.

(* intervals as items *)
Lemma model_stranded_extract keys wh minus ez ref ivs :
  model_stranded keys wh minus ez ref ivs = model_extract keys wh (where_site minus) ez ref iv_slice iv_strand ivs.
Proof. destruct minus; reflexivity. Qed.
Lemma iv_slice_map' (f : Z -> Z) ref iv : iv_slice (map f ref) iv = map f (iv_slice ref iv).
Proof. destruct iv as [[a b] s]. apply slice_map. Qed.
Lemma iv_slice_dom' D ref iv : Forall (fun c => In c D) ref -> Forall (fun c => In c D) (iv_slice ref iv).
Proof. destruct iv as [[a b] s]. apply Forall_slice. Qed.
Lemma spec_item_stranded ref iv : spec_item iv_slice iv_strand ref iv = spec_stranded ref iv.
Proof. destruct iv as [[a b] s]. reflexivity. Qed.

(* transcripts as items *)
Lemma tx_ext_map (f : Z -> Z) ref t : tx_ext (map f ref) t = map f (tx_ext ref t).
Proof.
  unfold tx_ext. rewrite concat_map, map_map. f_equal. apply map_ext. intros p. apply slice_map.
Qed.
Lemma tx_ext_dom D ref t : Forall (fun c => In c D) ref -> Forall (fun c => In c D) (tx_ext ref t).
Proof.
  intros H. unfold tx_ext. apply Forall_concat. rewrite Forall_map. apply Forall_forall. intros p _. apply Forall_slice, H.
Qed.
Lemma spec_item_transcript ref t : spec_item tx_ext tx_strand ref t = spec_transcript ref t.
Proof. reflexivity. Qed.

Definition tx_valid (ref : list Z) (t : transcript) : Prop :=
  Forall (fun p => 0 <= fst p /\ fst p <= snd p /\ snd p <= len ref) (fst t) /\ (tx_strand t = 43 \/ tx_strand t = 45).
Lemma tx_bases_len ref txs : Forall (tx_valid ref) txs -> len (concat (map (tx_ext ref) txs)) = tx_bases txs.
Proof.
  induction 1 as [|t txs Ht _ IH]; [reflexivity|].
  unfold tx_bases in *. cbn [map concat sumZ fold_right]. rewrite len_app, IH. f_equal.
  destruct Ht as [Hex _]. unfold tx_ext. induction Hex as [|p ps Hp _ IHp]; [reflexivity|].
  cbn [map concat sumZ fold_right]. rewrite len_app, IHp. f_equal.
  unfold slice. rewrite len_firstn, len_skipn. lia.
Qed.

Section Head.
  (* HISTORY — the code BEFORE the np.where repair: [complements] (repaired table) with npstructures' conditional-broadcast
     np.where [where_pinned] (mask handed over as `(..)[:, np.newaxis]`).  Props: C14_stranded_pinned_where{,_fails}. *)
  Variable ez : Z.
  Hypothesis Hez : In ez [0; 1; 2].

  Lemma stranded_head_ok minus ref ivs :
    Forall (fun c => In c (domain ez)) ref -> Forall (iv_valid ref) ivs -> len ivs < total_bases ivs ->
    model_stranded complements where_pinned minus ez ref ivs = Ok (map (spec_stranded (map (canon ez) ref)) ivs).
  Proof.
    intros Href Hiv Hsz.
    destruct (values_of_some _ _ _ (grid_of complements domain grid_head ez Hez)) as [v [Hv HD]].
    rewrite model_stranded_extract.
    rewrite (extract_ok complements ez (domain ez) v Hv HD iv_slice iv_strand iv_slice_map' (iv_slice_dom' (domain ez))
               where_pinned minus ref ivs Href (iv_valid_strand ref ivs Hiv)).
    - f_equal. apply map_ext. intros iv. apply spec_item_stranded.
    - intros m x y Hm Hx. apply (where_pinned_ok (len ivs) (total_bases ivs)); try assumption.
      rewrite Hx. apply total_bases_len, Hiv.
  Qed.
  Lemma stranded_head_err minus ref ivs :
    Forall (fun c => In c (domain ez)) ref -> Forall (iv_valid ref) ivs -> total_bases ivs <= len ivs ->
    model_stranded complements where_pinned minus ez ref ivs = Err 5.
  Proof.
    intros Href Hiv Hsz.
    destruct (values_of_some _ _ _ (grid_of complements domain grid_head ez Hez)) as [v [Hv HD]].
    rewrite model_stranded_extract.
    apply (extract_err complements ez (domain ez) v Hv HD iv_slice iv_strand iv_slice_map' (iv_slice_dom' (domain ez))
             where_pinned minus ref ivs 5 Href).
    intros m x y Hm Hx. apply (where_pinned_err (len ivs) (total_bases ivs)); try assumption.
    rewrite Hx. apply total_bases_len, Hiv.
  Qed.
End Head.

Lemma in2 : In 2 [0; 1; 2]. Proof. cbn. tauto. Qed.
Lemma tx_valid_strand ref txs : Forall (tx_valid ref) txs -> Forall (fun t => tx_strand t = 43 \/ tx_strand t = 45) txs.
Proof. intros H. eapply Forall_impl; [|exact H]. intros t [_ Hs]. exact Hs. Qed.

Lemma transcripts_gen keys wh ref txs :
  forallb (fun ez => grid_ok keys ez (domain ez)) [0; 1; 2] = true ->
  Forall (fun c => In c dna10) ref -> Forall (tx_valid ref) txs ->
  (forall m x y, len m = len txs -> len (concat x) = tx_bases txs -> wh m x y = Ok (choose_rows m x y)) ->
  model_transcripts keys wh ref txs = Ok (map (spec_transcript (map (canon 2) ref)) txs).
Proof.
  intros G Href Htx Hwh.
  destruct (values_of_some _ _ _ (grid_of keys domain G 2 in2)) as [v [Hv HD]].
  unfold model_transcripts.
  apply (extract_ok keys 2 (domain 2) v Hv HD tx_ext tx_strand tx_ext_map (tx_ext_dom (domain 2))
           wh true ref txs Href (tx_valid_strand ref txs Htx)).
  intros m x y Hm Hx. apply Hwh; [exact Hm|]. rewrite Hx. apply tx_bases_len, Htx.
Qed.
Lemma transcripts_head_ok ref txs :
  Forall (fun c => In c dna10) ref -> Forall (tx_valid ref) txs -> len txs < tx_bases txs ->
  model_transcripts complements where_pinned ref txs = Ok (map (spec_transcript (map (canon 2) ref)) txs).
Proof.
  intros Href Htx Hsz. apply (transcripts_gen complements where_pinned ref txs grid_head Href Htx).
  intros m x y Hm Hx. apply (where_pinned_ok (len txs) (tx_bases txs)); assumption.
Qed.
Lemma transcripts_fixed_ok ref txs :
  Forall (fun c => In c dna10) ref -> Forall (tx_valid ref) txs ->
  model_transcripts complements_fixed where_fixed ref txs = Ok (map (spec_transcript (map (canon 2) ref)) txs).
Proof.
  intros Href Htx. apply (transcripts_gen complements_fixed where_fixed ref txs grid_fixed Href Htx).
  intros; reflexivity.
Qed.
(* ---- the code in force (round 6): [complements] and [where_rows] = row-wise choice; no size guard ---- *)
Lemma stranded_head_full ez minus ref ivs : In ez [0; 1; 2] ->
  Forall (fun c => In c (domain ez)) ref -> Forall (iv_valid ref) ivs ->
  model_stranded complements where_rows minus ez ref ivs = Ok (map (spec_stranded (map (canon ez) ref)) ivs).
Proof.
  intros Hez Href Hiv.
  apply (stranded_all complements domain where_rows grid_head minus ez ref ivs Hez Href (iv_valid_strand ref ivs Hiv)).
  intros; reflexivity.
Qed.
Lemma transcripts_head_full ref txs :
  Forall (fun c => In c dna10) ref -> Forall (tx_valid ref) txs ->
  model_transcripts complements where_rows ref txs = Ok (map (spec_transcript (map (canon 2) ref)) txs).
Proof.
  intros Href Htx. apply (transcripts_gen complements where_rows ref txs grid_head Href Htx).
  intros; reflexivity.
Qed.

Lemma transcripts_head_err ref txs :
  Forall (fun c => In c dna10) ref -> Forall (tx_valid ref) txs -> tx_bases txs <= len txs ->
  model_transcripts complements where_pinned ref txs = Err 5.
Proof.
  intros Href Htx Hsz.
  destruct (values_of_some _ _ _ (grid_of complements domain grid_head 2 in2)) as [v [Hv HD]].
  unfold model_transcripts.
  apply (extract_err complements 2 (domain 2) v Hv HD tx_ext tx_strand tx_ext_map (tx_ext_dom (domain 2))
           where_pinned true ref txs 5 Href).
  intros m x y Hm Hx. apply (where_pinned_err (len txs) (tx_bases txs)); try assumption.
  rewrite Hx. apply tx_bases_len, Htx.
Qed.

(* ---------- (2) translation: translate or raise, exactly ---------- *)
Lemma list_eqb_eq (a : list Z) : forall b, zlist_eqb a b = true -> a = b.
Proof.
  induction a as [|x a IH]; intros [|y b] H; try reflexivity; try discriminate.
  cbn in H. apply andb_prop in H. destruct H as [H1 H2]. apply Z.eqb_eq in H1. subst y. f_equal. apply IH, H2.
Qed.
Lemma zll_eqb_eq (a : list (list Z)) : forall b, zll_eqb a b = true -> a = b.
Proof.
  induction a as [|x a IH]; intros [|y b] H; try reflexivity; try discriminate.
  cbn in H. apply andb_prop in H. destruct H as [H1 H2]. apply list_eqb_eq in H1. subst y. f_equal. apply IH, H2.
Qed.
Lemma zlist_eqb_refl (a : list Z) : zlist_eqb a a = true.
Proof. induction a as [|x a IH]; [reflexivity|]. cbn. rewrite Z.eqb_refl. exact IH. Qed.
Lemma zll_eqb_refl (a : list (list Z)) : zll_eqb a a = true.
Proof. induction a as [|x a IH]; [reflexivity|]. cbn. fold (zlist_eqb x x). rewrite zlist_eqb_refl. exact IH. Qed.

Lemma concat_chunks_fuel {A} (n : nat) : (1 <= n)%nat -> forall f (l : list A), (length l <= f)%nat ->
  concat (chunks_of_fuel f n l) = l.
Proof.
  intros Hn. induction f as [|f IH]; intros l Hl.
  - destruct l; [reflexivity|simpl in Hl; lia].
  - destruct l as [|x l]; [reflexivity|]. cbn [chunks_of_fuel concat].
    rewrite IH by (rewrite skipn_length; simpl length in *; lia). apply firstn_skipn.
Qed.
Lemma concat_chunks {A} (n : nat) (l : list A) : (1 <= n)%nat -> concat (chunks_of n l) = l.
Proof. intros Hn. unfold chunks_of. apply concat_chunks_fuel; [exact Hn|lia]. Qed.

Lemma chunks_exact {A} (n : nat) : (1 <= n)%nat -> forall k (l : list A), length l = (k * n)%nat ->
  Forall (fun ch => length ch = n) (chunks_of n l).
Proof.
  intros Hn. induction k as [|k IH]; intros l Hl.
  - destruct l; [constructor|simpl in Hl; lia].
  - assert (l <> []) by (destruct l; [simpl in Hl; lia|discriminate]).
    rewrite chunks_of_cons by assumption. constructor.
    + rewrite firstn_length. lia.
    + apply IH. rewrite skipn_length. lia.
Qed.
Lemma chunks_sub {A} (P : A -> Prop) (n : nat) (l : list A) : (1 <= n)%nat -> Forall P l ->
  Forall (Forall P) (chunks_of n l).
Proof.
  intros Hn Hl. unfold chunks_of. generalize (length l) at 1. intros f. revert l Hl.
  induction f as [|f IH]; intros l Hl; [constructor|].
  destruct l as [|x l]; [constructor|]. cbn [chunks_of_fuel]. constructor.
  - apply Forall_firstn, Hl.
  - apply IH, Forall_skipn, Hl.
Qed.

Lemma codon_of_acgt cd : length cd = 3%nat -> Forall (fun c => In c acgt8) cd -> In cd all_codons.
Proof.
  intros Hl Hc. destruct cd as [|a [|b [|c [|]]]]; try discriminate.
  inversion Hc as [|? ? Ha Hc1]; subst. inversion Hc1 as [|? ? Hb Hc2]; subst. inversion Hc2 as [|? ? Hcc _]; subst.
  unfold all_codons. apply in_flat_map. exists a. split; [exact Ha|].
  apply in_flat_map. exists b. split; [exact Hb|]. apply (in_map (fun c => [a; b; c])), Hcc.
Qed.
Lemma existsb_codon cd : existsb (zlist_eqb cd) all_codons = true <-> In cd all_codons.
Proof.
  split.
  - intros H. apply existsb_exists in H. destruct H as [x [Hx E]]. apply list_eqb_eq in E. subst. exact Hx.
  - intros H. apply existsb_exists. exists cd. split; [exact H|apply zlist_eqb_refl].
Qed.

(* the TCAG table accepts exactly the eight symbols ACGTacgt among the bytes *)
Lemma tcag_bytes : forallb (fun c => Bool.eqb (nthZ (alpha_table tcag) c <? len tcag) (mem c acgt8)) (arange 256) = true.
Proof. vm_compute. reflexivity. Qed.
Lemma tcag_byte c : 0 <= c < 256 -> (nthZ (alpha_table tcag) c <? len tcag) = mem c acgt8.
Proof.
  intros Hc. pose proof tcag_bytes as G. rewrite forallb_forall in G.
  specialize (G c (proj2 (In_arange 256 c) Hc)). apply Bool.eqb_prop in G. exact G.
Qed.
Lemma In_mem c l : In c l -> mem c l = true.
Proof. intros H. unfold mem. apply existsb_exists. exists c. split; [exact H|apply Z.eqb_refl]. Qed.

Definition bytes_ok (rows : list (list Z)) : Prop := Forall (Forall (fun c => 0 <= c < 256)) rows.

Lemma wellformed_rows rows : tr_wellformed rows = true ->
  Forall (Forall (fun cd => In cd all_codons)) (map (chunks_of 3) rows).
Proof.
  intros H. unfold tr_wellformed in H. rewrite forallb_forall in H. rewrite Forall_map. apply Forall_forall.
  intros r Hr. specialize (H r Hr). rewrite forallb_forall in H. apply Forall_forall. intros cd Hcd.
  apply existsb_codon, H, Hcd.
Qed.
Lemma rows_of_chunks (rows : list (list Z)) : map (@concat Z) (map (chunks_of 3) rows) = rows.
Proof. rewrite map_map. rewrite <- (map_id rows) at 2. apply map_ext. intros r. apply concat_chunks. lia. Qed.

(* well-formed input: translated codon by codon *)
Lemma translate_wellformed rows : tr_wellformed rows = true -> model_translate rows = Ok (map spec_translate rows).
Proof.
  intros H. pose proof (translate_thm _ (wellformed_rows rows H)) as [T1 [T2 _]].
  rewrite rows_of_chunks in T1, T2. rewrite T2. exact T1.
Qed.
(* anything else among byte strings: EncodingError (a symbol outside ACGTacgt) or AssertionError (a row length that is
   not a multiple of three) — never a protein *)
Lemma translate_rejects rows : bytes_ok rows -> tr_wellformed rows = false ->
  (model_translate rows = Err 1 /\ exists c, In c (concat rows) /\ ~ In c acgt8)
  \/ (model_translate rows = Err 2 /\ Forall (fun c => In c acgt8) (concat rows) /\ exists r, In r rows /\ len r mod 3 <> 0).
Proof.
  intros Hb Hw. unfold model_translate, alpha_encode.
  destruct (existsb (fun x => len tcag <=? x) (map (nthZ (alpha_table tcag)) (concat rows))) eqn:E.
  - left. split; [reflexivity|]. apply existsb_exists in E. destruct E as [x [Hx Hle]].
    apply in_map_iff in Hx. destruct Hx as [c [<- Hc]]. exists c. split; [exact Hc|].
    intros Hin. assert (Hr : 0 <= c < 256).
    { pose proof (Forall_concat _ _ Hb) as Hbb. rewrite Forall_forall in Hbb. apply Hbb, Hc. }
    pose proof (tcag_byte c Hr) as T. rewrite (In_mem _ _ Hin) in T. apply Z.ltb_lt in T. apply Z.leb_le in Hle. lia.
  - assert (Hall : Forall (fun c => In c acgt8) (concat rows)).
    { apply Forall_forall. intros c Hc.
      assert (Hr : 0 <= c < 256).
      { pose proof (Forall_concat _ _ Hb) as Hbb. rewrite Forall_forall in Hbb. apply Hbb, Hc. }
      apply mem_In. rewrite <- (tcag_byte c Hr).
      destruct (nthZ (alpha_table tcag) c <? len tcag) eqn:L; [reflexivity|].
      assert (existsb (fun x => len tcag <=? x) (map (nthZ (alpha_table tcag)) (concat rows)) = true).
      { apply existsb_exists. exists (nthZ (alpha_table tcag) c). split; [apply in_map, Hc|].
        apply Z.ltb_ge in L. apply Z.leb_le. exact L. }
      congruence. }
    destruct (forallb (fun l => l mod 3 =? 0) (map len rows)) eqn:F.
    + (* all symbols fine and all lengths multiples of three: the input would be well-formed *)
      exfalso. assert (tr_wellformed rows = true); [|congruence].
      unfold tr_wellformed. apply forallb_forall. intros r Hr. apply forallb_forall. intros cd Hcd.
      apply existsb_codon. rewrite forallb_forall in F.
      assert (Hm : len r mod 3 = 0) by (apply Z.eqb_eq, F, in_map, Hr).
      assert (Hra : Forall (fun c => In c acgt8) r).
      { apply Forall_forall. intros c Hc. rewrite Forall_forall in Hall. apply Hall. apply in_concat. exists r. split; assumption. }
      apply codon_of_acgt.
      * assert (Hk : length r = ((length r / 3) * 3)%nat).
        { unfold len in Hm. pose proof (Nat.div_mod (length r) 3 ltac:(lia)). 
          assert ((length r mod 3)%nat = 0%nat) by (apply Nat2Z.inj; rewrite Nat2Z.inj_mod; exact Hm). lia. }
        pose proof (chunks_exact 3 ltac:(lia) _ r Hk) as Hch. rewrite Forall_forall in Hch. apply Hch, Hcd.
      * pose proof (chunks_sub _ 3 r ltac:(lia) Hra) as Hch. rewrite Forall_forall in Hch. apply Hch, Hcd.
    + right. cbn [negb]. split; [reflexivity|]. split; [exact Hall|].
      (* pick the offending row *)
      clear - F. induction rows as [|r rows IH]; [discriminate|].
      cbn [map forallb] in F. destruct (len r mod 3 =? 0) eqn:E.
      * cbn in F. destruct (IH F) as [r' [Hr' Hm]]. exists r'. split; [right; exact Hr'|exact Hm].
      * exists r. split; [left; reflexivity|]. apply Z.eqb_neq, E.
Qed.

(* ---------- (3) model agrees  =>  property holds, for every case class ---------- *)
Definition rev_wf (e : Z) (rows : list (list Z)) : bool :=
  mem e [0; 1; 2] && forallb (forallb (fun c => mem c (domain e))) rows.
Definition iv_valid_b (ref : list Z) (iv : Z * Z * Z) : bool :=
  let '(a, b, s) := iv in (0 <=? a) && (a <=? b) && (b <=? len ref) && ((s =? 43) || (s =? 45)).
(* the size condition is the exact complement of the known npstructures failure class *)
Definition str_wf (route e : Z) (ref : list Z) (ivs : list (Z * Z * Z)) : bool :=
  let e' := if route =? 0 then e else 2 in
  mem e' [0; 1; 2] && forallb (fun c => mem c (domain e')) ref && forallb (iv_valid_b ref) ivs.
Definition tx_valid_b (ref : list Z) (t : transcript) : bool :=
  forallb (fun p => (0 <=? fst p) && (fst p <=? snd p) && (snd p <=? len ref)) (fst t)
  && ((tx_strand t =? 43) || (tx_strand t =? 45)).
Definition gen_wf (ref : list Z) (txs : list transcript) : bool :=
  forallb (fun c => mem c dna10) ref && forallb (tx_valid_b ref) txs.
Definition tr_wf (rows : list (list Z)) : bool := forallb (forallb (fun c => (0 <=? c) && (c <? 256))) rows.
(* multi-step cases: codon rows whose reverse complements are codon rows again (both decided by computation per case) *)
Definition seq_wf (rows : list (list Z)) : bool :=
  tr_wellformed rows && tr_wellformed (map spec_revcomp rows) && forallb (forallb (fun c => mem c (domain 0))) rows.
Definition case_wf (c : case) : bool :=
  match c with
  | CRev e rows _ _ _ => rev_wf e rows
  | CStr route e ref ivs _ _ => str_wf route e ref ivs
  | CTr rows _ _ => tr_wf rows
  | CGen ref txs _ _ => gen_wf ref txs
  | CSeq rows _ => seq_wf rows
  | CFa _ _ _ _ _ => false      (* round 6: the link for the indexed-FASTA class needs the fetch theorem, which is proved after
                                   this file: see [case_wf_fa] / [link_all_fa] in Proofs/C14_fasta_call.v (Props: C14_link_fasta) *)
  end.

Lemma forallb_mem_Forall l D : forallb (fun c => mem c D) l = true -> Forall (fun c => In c D) l.
Proof. intros H. rewrite forallb_forall in H. apply Forall_forall. intros c Hc. apply mem_In, H, Hc. Qed.
Lemma iv_valid_of_b ref ivs : forallb (iv_valid_b ref) ivs = true -> Forall (iv_valid ref) ivs.
Proof.
  intros H. rewrite forallb_forall in H. apply Forall_forall. intros [[a b] s] Hi. specialize (H _ Hi).
  cbn in H. rewrite !andb_true_iff, orb_true_iff, !Z.leb_le, !Z.eqb_eq in H. cbn. tauto.
Qed.
Lemma tx_valid_of_b ref txs : forallb (tx_valid_b ref) txs = true -> Forall (tx_valid ref) txs.
Proof.
  intros H. rewrite forallb_forall in H. apply Forall_forall. intros t Ht. specialize (H _ Ht).
  unfold tx_valid_b in H. rewrite andb_true_iff, orb_true_iff, !Z.eqb_eq in H. destruct H as [H1 H2].
  split; [|exact H2]. rewrite forallb_forall in H1. apply Forall_forall. intros p Hp. specialize (H1 p Hp).
  rewrite !andb_true_iff, !Z.leb_le in H1. tauto.
Qed.
Lemma rows_ok_refl ivs (f : Z * Z * Z -> list Z) : rows_ok ivs (map f ivs) (map f ivs) = true.
Proof. induction ivs as [|iv ivs IH]; [reflexivity|]. cbn [map rows_ok]. rewrite zlist_eqb_refl, orb_true_r. exact IH. Qed.
Lemma obs_eqb_ok (o : obs) rows : obs_eqb o (Ok rows) = obs_is o rows.
Proof. reflexivity. Qed.
Lemma all_true_ext {A} (f g : A -> bool) l : (forall x, f x = g x) -> all_true (map f l) = all_true (map g l).
Proof. intros H. induction l as [|x l IH]; [reflexivity|]. cbn. rewrite H, IH. reflexivity. Qed.
Lemma all_true_impl {A} (f g : A -> bool) l : (forall x, f x = true -> g x = true) ->
  all_true (map f l) = true -> all_true (map g l) = true.
Proof.
  intros H. induction l as [|x l IH]; [reflexivity|]. cbn. intros E. apply andb_prop in E. destruct E as [E1 E2].
  rewrite (H x E1), (IH E2). reflexivity.
Qed.

Lemma link_rev e rows once twice bio : rev_wf e rows = true ->
  model_ok (CRev e rows once twice bio) = true -> prop_ok (CRev e rows once twice bio) = true.
Proof.
  unfold rev_wf. intros Hw Hm. apply andb_prop in Hw. destruct Hw as [He Hr].
  assert (Hrows : Forall (Forall (fun c => In c (domain e))) rows).
  { rewrite forallb_forall in Hr. apply Forall_forall. intros r Hin. apply forallb_mem_Forall, Hr, Hin. }
  destruct (revcomp_all complements domain grid_head e rows (mem_In _ _ He) Hrows) as [R1 [R2 R3]].
  cbn [model_ok prop_ok] in *. rewrite R1, R3 in Hm. apply andb_prop in Hm. destruct Hm as [M1 M2].
  rewrite (all_true_ext _ _ once (fun o => obs_eqb_ok o _)) in M1.
  rewrite (all_true_ext _ _ twice (fun o => obs_eqb_ok o _)) in M2.
  cbv zeta. rewrite M1, M2, R2, zlist_eqb_refl. reflexivity.
Qed.

Lemma link_str route e ref ivs o bio : str_wf route e ref ivs = true ->
  model_ok (CStr route e ref ivs o bio) = true -> prop_ok (CStr route e ref ivs o bio) = true.
Proof.
  unfold str_wf. intros Hw Hm. cbv zeta in Hw. rewrite !andb_true_iff in Hw. destruct Hw as [[He Hr] Hi].
  apply forallb_mem_Forall in Hr. apply iv_valid_of_b in Hi. apply mem_In in He.
  cbn [model_ok prop_ok] in *. cbv zeta.
  destruct (route =? 0).
  - rewrite (stranded_head_full e true ref ivs He Hr Hi) in Hm.
    cbn [obs_eqb] in Hm. apply andb_prop in Hm. destruct Hm as [M1 M2]. apply zll_eqb_eq in M2.
    rewrite M1, M2. apply rows_ok_refl.
  - rewrite (stranded_head_full 2 false ref ivs He Hr Hi) in Hm.
    cbn [obs_eqb] in Hm. apply andb_prop in Hm. destruct Hm as [M1 M2]. apply zll_eqb_eq in M2.
    rewrite M1, M2. apply rows_ok_refl.
Qed.

Lemma link_gen ref txs o bio : gen_wf ref txs = true ->
  model_ok (CGen ref txs o bio) = true -> prop_ok (CGen ref txs o bio) = true.
Proof.
  unfold gen_wf. intros Hw Hm. rewrite !andb_true_iff in Hw. destruct Hw as [Hr Ht].
  apply forallb_mem_Forall in Hr. apply tx_valid_of_b in Ht.
  cbn [model_ok prop_ok] in *.
  rewrite (transcripts_head_full ref txs Hr Ht) in Hm. exact Hm.
Qed.

Lemma link_tr rows outs bio : tr_wf rows = true ->
  model_ok (CTr rows outs bio) = true -> prop_ok (CTr rows outs bio) = true.
Proof.
  intros Hw Hm. cbn [model_ok prop_ok] in *.
  destruct (tr_wellformed rows) eqn:W.
  - rewrite (translate_wellformed rows W) in Hm. exact Hm.
  - assert (Hb : bytes_ok rows).
    { unfold tr_wf in Hw. rewrite forallb_forall in Hw. apply Forall_forall. intros r Hr. specialize (Hw r Hr).
      rewrite forallb_forall in Hw. apply Forall_forall. intros c Hc. specialize (Hw c Hc).
      rewrite andb_true_iff, Z.leb_le, Z.ltb_lt in Hw. exact Hw. }
    destruct (translate_rejects rows Hb W) as [[E _]|[E _]]; rewrite E in Hm;
      (eapply all_true_impl; [|exact Hm]); intros o Ho; cbn [obs_eqb] in Ho; apply Z.eqb_eq in Ho; rewrite Ho; reflexivity.
Qed.

Lemma canon0_rows (rows : list (list Z)) : map (map (canon 0)) rows = rows.
Proof.
  rewrite <- (map_id rows) at 2. apply map_ext. intros r. rewrite <- (map_id r) at 2. apply map_ext. intros c. reflexivity.
Qed.
Lemma link_seq rows steps : seq_wf rows = true ->
  model_ok (CSeq rows steps) = true -> prop_ok (CSeq rows steps) = true.
Proof.
  unfold seq_wf. intros Hw Hm. rewrite !andb_true_iff in Hw. destruct Hw as [[W1 W2] Hr].
  assert (Hrows : Forall (Forall (fun c => In c (domain 0))) rows).
  { rewrite forallb_forall in Hr. apply Forall_forall. intros r Hin. apply forallb_mem_Forall, Hr, Hin. }
  destruct (revcomp_all complements domain grid_head 0 rows (or_introl eq_refl) Hrows) as [R1 [_ R3]].
  cbv zeta in R1. rewrite canon0_rows in R3.
  assert (R1' : model_revcomp complements 0 rows = Ok (map spec_revcomp rows)).
  { rewrite R1. f_equal. apply map_ext. intros r. f_equal. rewrite <- (map_id r) at 2. apply map_ext. intros c. reflexivity. }
  assert (R5 : model_revcomp complements 0 (rev rows) = Ok (map spec_revcomp (rev rows))).
  { destruct (revcomp_all complements domain grid_head 0 (rev rows) (or_introl eq_refl) (Forall_rev Hrows)) as [R _].
    cbv zeta in R. rewrite R. f_equal. apply map_ext. intros r. f_equal. rewrite <- (map_id r) at 2. apply map_ext. intros c. reflexivity. }
  assert (W6 : tr_wellformed (rev rows) = true).
  { unfold tr_wellformed in *. rewrite forallb_forall in *. intros r0 Hr0. apply W1. apply in_rev. exact Hr0. }
  cbn [model_ok prop_ok] in *. eapply all_true_impl; [|exact Hm].
  intros [k o] H. cbn [fst snd] in *. unfold seq_model, seq_spec in *.
  destruct (k =? 0); [exact H|]. destruct (k =? 1); [rewrite (translate_wellformed rows W1) in H; exact H|].
  destruct (k =? 2); [rewrite R1' in H; exact H|].
  destruct (k =? 3); [rewrite R1', (translate_wellformed _ W2) in H; exact H|].
  destruct (k =? 5); [rewrite R5 in H; exact H|].
  destruct (k =? 6); [rewrite (translate_wellformed _ W6) in H; exact H|].
  rewrite R3 in H. exact H.
Qed.

Theorem link_all : forall c, case_wf c = true -> model_ok c = true -> prop_ok c = true.
Proof.
  intros [e rows once twice bio|route e ref ivs o bio|rows outs bio|ref txs o bio|rows steps|recs nl fsize fai calls] Hw Hm.
  - apply link_rev; assumption.
  - apply link_str; assumption.
  - apply link_tr; assumption.
  - apply link_gen; assumption.
  - apply link_seq; assumption.
  - discriminate Hw.
Qed.

Lemma translate_total rows : bytes_ok rows ->
  (tr_wellformed rows = true /\ model_translate rows = Ok (map spec_translate rows))
  \/ (tr_wellformed rows = false
      /\ ((model_translate rows = Err 1 /\ exists c, In c (concat rows) /\ ~ In c acgt8)
          \/ (model_translate rows = Err 2 /\ Forall (fun c => In c acgt8) (concat rows)
              /\ exists r, In r rows /\ len r mod 3 <> 0))).
Proof.
  intros Hb. destruct (tr_wellformed rows) eqn:W.
  - left. split; [reflexivity|apply translate_wellformed, W].
  - right. split; [reflexivity|apply translate_rejects; assumption].
Qed.

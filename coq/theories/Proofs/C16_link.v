(* Proofs/C16_link.v — the model's output satisfies the decidable property predicates of Corr/C16.v
   (rec_matches, iv_matches), so that "implementation = model" implies "property holds". *)
From Coq Require Import ZArith List Bool Lia Arith.
From BNP Require Import Base.Prims Base.PrimsFacts Model.C16 Proofs.C16 Corr.C16.
Import ListNotations.
Open Scope Z_scope.

Lemma zlist_eqb_refl l : zlist_eqb l l = true.
Proof. induction l as [|x l IH]; [reflexivity|]. cbn. rewrite Z.eqb_refl, IH. reflexivity. Qed.
Lemma oz_eqb_refl o : oz_eqb o o = true.
Proof. destruct o; [apply zlist_eqb_refl|reflexivity]. Qed.
Lemma all2_map {A C} (P : A -> Prop) (f : A -> C -> bool) (g : A -> C) l :
  (forall x, P x -> f x (g x) = true) -> Forall P l -> all2 f l (map g l) = true.
Proof.
  intros H. induction 1 as [|x l Hx _ IH]; [reflexivity|]. cbn [map all2]. rewrite H, IH by assumption. reflexivity.
Qed.

Lemma rec_matches_spec v refs r :
  chrom_ok refs r (v_chrom v (map fst refs) (b_ref r)) = true ->
  rec_matches refs r (spec_orec v r (map fst refs)) = true.
Proof.
  intros Hc. unfold rec_matches, spec_orec. cbn [o_chrom o_name o_flag o_pos o_mapq o_ops o_lens o_seq o_qual].
  rewrite Hc, !zlist_eqb_refl, !Z.eqb_refl, oz_eqb_refl. reflexivity.
Qed.
Lemma iv_matches_spec v refs r :
  chrom_ok refs r (v_chrom v (map fst refs) (b_ref r)) = true ->
  iv_matches refs r (spec_oiv v r (map fst refs)) = true.
Proof.
  intros Hc. unfold iv_matches, spec_oiv. cbn [i_chrom i_start i_stop i_name i_score i_strand].
  rewrite Hc, !zlist_eqb_refl, !Z.eqb_refl. reflexivity.
Qed.
Lemma chrom_ok_repaired refs r : -1 <= b_ref r < len refs ->
  chrom_ok refs r (v_chrom repaired (map fst refs) (b_ref r)) = true.
Proof.
  intros H. rewrite chrom_repaired_correct by assumption. unfold chrom_ok.
  destruct (spec_chrom refs r) eqn:E; [apply oz_eqb_refl|].
  apply spec_chrom_none in E; [|assumption]. rewrite E. reflexivity.
Qed.
Lemma chrom_ok_pinned refs r : 0 <= b_ref r < len refs ->
  chrom_ok refs r (v_chrom pinned (map fst refs) (b_ref r)) = true.
Proof.
  intros H. rewrite chrom_pinned_mapped by assumption. unfold chrom_ok.
  destruct (spec_chrom refs r) eqn:E; [apply oz_eqb_refl|].
  apply spec_chrom_none in E; lia.
Qed.

(* a record for which variant [v] is right: valid, CIGAR count below the variant's bound, reference name resolved *)
Definition good (v : variant) (B : Z) (refs : list (list Z * Z)) (r : brec) : Prop :=
  rec_valid B r /\ chrom_ok refs r (v_chrom v (map fst refs) (b_ref r)) = true.

Section Main.
  Variable v : variant.
  Variable B : Z.
  Hypothesis HB : B <= 65536.
  Hypothesis Hcb : forall n, 0 <= n < B -> v_cigar_bytes v n = 4 * n.
  Variables (text : list Z) (refs : list (list Z * Z)) (rs : list brec).
  Hypothesis Hh : header_valid text refs.
  Hypothesis Hg : Forall (good v B refs) rs.

  Let Hvalid : Forall (rec_valid B) rs.
  Proof. revert Hg. apply Forall_impl. intros r [H _]. exact H. Qed.
  Let Hfits : Forall fits rs.
  Proof. apply (Forall_valid_fits B). exact Hvalid. Qed.

  Lemma decode_groups groups : concat groups = rs ->
    all2 (rec_matches refs) rs (flat_map (decode_buf v (map fst refs)) (map buf_of groups)) = true.
  Proof.
    intros Hc.
    rewrite (flat_map_groups (decode_buf v (map fst refs)) (fun r => spec_orec v r (map fst refs)) (rec_valid B)).
    - rewrite Hc. apply (all2_map (good v B refs)); [|assumption]. intros r [_ Hr]. apply rec_matches_spec, Hr.
    - intros rs0 H0. apply (decode_buf_correct v B HB Hcb). assumption.
    - rewrite Hc. assumption.
  Qed.

  Theorem model_satisfies_spec :
    exists b, read_file (encode_file text refs rs) = Some (map fst refs, encode_header text refs, b)
      (* whole read, interval view *)
      /\ all2 (rec_matches refs) rs (decode_buf v (map fst refs) b) = true
      /\ all2 (iv_matches refs) rs (intervals_buf v (map fst refs) b) = true
      (* chunked reading with any chunk size at least the largest record *)
      /\ (forall k, 0 < k -> Forall (fun r => len (encode_rec r) <= k) rs ->
            exists bs, read_chunks k (encode_recs rs) = Some bs
              /\ Forall (fun c => bf_starts c <> []) bs
              /\ all2 (rec_matches refs) rs (flat_map (decode_buf v (map fst refs)) bs) = true
              /\ encode_header text refs ++ concat (map bf_data bs) = encode_file text refs rs)
      (* writing back, whole or selected (filtered / reordered) *)
      /\ write_whole (encode_header text refs) b = encode_file text refs rs
      /\ (forall idx, Forall (fun i => 0 <= i < len rs) idx ->
            write_selected (encode_header text refs) b idx = Some (encode_file text refs (select rs idx))).
  Proof.
    exists (buf_of rs). split; [apply read_file_correct; assumption|].
    split; [|split; [|split; [|split]]].
    - rewrite (decode_buf_correct v B HB Hcb) by assumption.
      apply (all2_map (good v B refs)); [|assumption]. intros r [_ Hr]. apply rec_matches_spec, Hr.
    - rewrite (intervals_buf_correct v B HB Hcb) by assumption.
      apply (all2_map (good v B refs)); [|assumption]. intros r [_ Hr]. apply iv_matches_spec, Hr.
    - intros k Hk Hsz. destruct (read_chunks_correct k Hk rs Hfits Hsz) as (groups & Hc & Hne & Hrun).
      exists (map buf_of groups). split; [assumption|]. split; [|split].
      + apply Forall_map. revert Hne. apply Forall_impl. intros g Hgne. destruct g; [congruence|discriminate].
      + apply decode_groups. assumption.
      + unfold encode_file. f_equal. rewrite <- Hc. clear. induction groups as [|g groups IH]; [reflexivity|].
        cbn [map concat]. rewrite IH. change (bf_data (buf_of g)) with (encode_recs g). rewrite encode_recs_app. reflexivity.
    - reflexivity.
    - intros idx Hidx. rewrite write_selected_correct by assumption. reflexivity.
  Qed.
End Main.

(* instances *)
Lemma good_repaired refs r : rec_valid 65536 r -> -1 <= b_ref r < len refs -> good repaired 65536 refs r.
Proof. intros H1 H2. split; [assumption|apply chrom_ok_repaired; assumption]. Qed.
Lemma good_pinned refs r : rec_valid 16384 r -> 0 <= b_ref r < len refs -> good pinned 16384 refs r.
Proof. intros H1 H2. split; [assumption|apply chrom_ok_pinned; assumption]. Qed.
Lemma cb_repaired n : 0 <= n < 65536 -> v_cigar_bytes repaired n = 4 * n.
Proof. intros _. unfold repaired. cbn [v_cigar_bytes]. lia. Qed.
Lemma cb_pinned n : 0 <= n < 16384 -> v_cigar_bytes pinned n = 4 * n.
Proof. intros H. unfold pinned. cbn [v_cigar_bytes]. rewrite Z.mod_small by lia. lia. Qed.

(* the records a selection writes are again good, so the written file decodes to them *)
Lemma good_select v B refs rs idx : Forall (good v B refs) rs -> Forall (good v B refs) (select rs idx).
Proof. apply Forall_select. Qed.

(* ================================================================= refutations of the full statements for the code at HEAD *)
Definition long_cigar_rec : brec :=
  {| b_ref := 0; b_pos := 5; b_mapq := 30; b_bin := 0; b_flag := 0; b_name := [98; 105; 103];
     b_cigar := repeat (0, 1) (Z.to_nat 16384); b_seq := [1; 2; 4]; b_qual := [1; 2; 3];
     b_nref := -1; b_npos := -1; b_tlen := 0; b_tags := [] |}.
Lemma long_cigar_valid : rec_valid 65536 long_cigar_rec.
Proof.
  constructor; cbn [long_cigar_rec b_ref b_pos b_flag b_cigar b_seq b_qual]; try lia.
  - unfold len. rewrite repeat_length. lia.
  - apply Forall_forall. intros c Hc. apply repeat_spec in Hc. subst c. cbn. lia.
  - vm_compute. reflexivity.
  - repeat constructor; lia.
  - reflexivity.
  - vm_compute. reflexivity.
Qed.
Lemma long_cigar_refutes :
  decode_at pinned [[99]] ([] ++ encode_rec long_cigar_rec ++ []) (len (@nil Z)) <> spec_orec pinned long_cigar_rec [[99]].
Proof.
  intros H. apply (f_equal (fun o => len (o_lens o))) in H. vm_compute in H. discriminate.
Qed.
Definition unmapped_rec : brec :=
  {| b_ref := -1; b_pos := -1; b_mapq := 0; b_bin := 4680; b_flag := 4; b_name := [117];
     b_cigar := []; b_seq := [1; 2]; b_qual := [0; 0]; b_nref := -1; b_npos := -1; b_tlen := 0; b_tags := [] |}.
Definition two_refs : list (list Z * Z) := [([99; 49], 100); ([99; 50], 200)].     (* c1, c2 *)
Lemma unmapped_valid : rec_valid 16384 unmapped_rec /\ rec_okb (len two_refs) unmapped_rec = true.
Proof.
  split; [|reflexivity]. constructor; cbn; try lia; repeat constructor; try lia.
Qed.
Lemma unmapped_refutes :
  spec_chrom two_refs unmapped_rec = None
  /\ v_chrom pinned (map fst two_refs) (b_ref unmapped_rec) = Some [99; 50]
  /\ chrom_ok two_refs unmapped_rec (v_chrom pinned (map fst two_refs) (b_ref unmapped_rec)) = false.
Proof. repeat split. Qed.

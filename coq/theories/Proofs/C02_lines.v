(* Proofs/C02_lines.v — T5: formats whose records are groups of n lines (FASTQ n = 4, two-line FASTA n = 2).
   For every file of such records — any line lengths (0 included), LF or CRLF — oneline_table succeeds, has one row
   per record, and field k of entry i is line n*i + k of the file, without the marker byte (first line) and
   without the carriage return. *)
From Coq Require Import ZArith List Bool Lia Arith.
From BNP Require Import Base.Prims Base.PrimsFacts Base.C02Lib Model.C02 Proofs.C02_table Proofs.C02_int Proofs.C02_misc Proofs.C02_e2e.
Import ListNotations.
Open Scope Z_scope.

(* a line = dropped prefix (the marker byte or nothing) ++ body ++ dropped suffix (CR or nothing), then LF *)
Definition tcell := (list Z * list Z * list Z)%type.
Definition ta (c : tcell) : list Z := fst (fst c).
Definition tbody (c : tcell) : list Z := snd (fst c).
Definition tsuf (c : tcell) : list Z := snd c.
Definition raw (c : tcell) : fcell := (ta c ++ tbody c ++ tsuf c, 10).
Fixpoint tspos (o : Z) (cs : list tcell) : list Z :=
  match cs with [] => [] | c :: r => (o + len (ta c)) :: tspos (o + len (fst (raw c)) + 1) r end.
Fixpoint tepos (o : Z) (cs : list tcell) : list Z :=
  match cs with [] => [] | c :: r => (o + len (ta c) + len (tbody c)) :: tepos (o + len (fst (raw c)) + 1) r end.

Lemma nl_positions_cells o ps : (forall p, In p ps -> ~ In 10 (fst p) /\ snd p = 10) ->
  flatnonzero_from o (map (Z.eqb 10) (flatten ps)) = dpos o ps.
Proof.
  revert o. induction ps as [|p ps IH]; intros o H; [reflexivity|].
  rewrite flatten_cons, !map_app, !flatnonzero_from_app.
  destruct (H p (or_introl eq_refl)) as [Hf Hd].
  rewrite flatnonzero_from_false.
  2:{ intros b Hb. apply in_map_iff in Hb. destruct Hb as [c [Hc Hin]]. subst b.
      destruct (Z.eqb_spec 10 c); [subst; contradiction|reflexivity]. }
  rewrite Hd. simpl map. simpl flatnonzero_from at 1. simpl.
  rewrite len_map, len_single. f_equal. apply IH. intros q Hq. apply H. right. exact Hq.
Qed.

(* the byte at each line start *)
Lemma starts_bytes ps : forall pre post,
  map (nthZ (pre ++ flatten ps ++ post)) (spos (len pre) ps) = map (fun p => hd0 (fst p ++ [snd p])) ps.
Proof.
  induction ps as [|p ps IH]; intros pre post; [reflexivity|].
  simpl spos. simpl map. rewrite flatten_cons. f_equal.
  - destruct (fst p) as [|x f] eqn:E.
    + simpl. apply nthZ_mid.
    + simpl. replace (pre ++ (x :: f ++ snd p :: flatten ps) ++ post) with (pre ++ x :: (f ++ snd p :: flatten ps) ++ post) by reflexivity.
      apply nthZ_mid.
  - specialize (IH (pre ++ fst p ++ [snd p]) post).
    replace (len (pre ++ fst p ++ [snd p])) with (len pre + len (fst p) + 1) in IH by (rewrite !len_app, len_single; lia).
    replace ((pre ++ fst p ++ [snd p]) ++ flatten ps ++ post)
      with (pre ++ (fst p ++ [snd p] ++ flatten ps) ++ post) in IH by (rewrite <- !app_assoc; reflexivity).
    exact IH.
Qed.

(* the text between trimmed start and trimmed end is the body *)
Lemma trimmed_texts cs : forall pre post,
  map (fun p => slice (fst p) (snd p) (pre ++ flatten (map raw cs) ++ post)) (combine (tspos (len pre) cs) (tepos (len pre) cs))
  = map tbody cs.
Proof.
  induction cs as [|c cs IH]; intros pre post; [reflexivity|].
  simpl map at 2. simpl tspos. simpl tepos. simpl combine. simpl map. rewrite flatten_cons. f_equal.
  - cbn [fst snd raw].
    replace (pre ++ ((ta c ++ tbody c ++ tsuf c) ++ [10] ++ flatten (map raw cs)) ++ post)
      with ((pre ++ ta c) ++ tbody c ++ (tsuf c ++ [10] ++ flatten (map raw cs) ++ post)) by (rewrite <- !app_assoc; reflexivity).
    rewrite <- len_app. apply slice_mid.
  - specialize (IH (pre ++ fst (raw c) ++ [snd (raw c)]) post).
    replace (len (pre ++ fst (raw c) ++ [snd (raw c)])) with (len pre + len (fst (raw c)) + 1) in IH by (rewrite !len_app, len_single; lia).
    replace ((pre ++ fst (raw c) ++ [snd (raw c)]) ++ flatten (map raw cs) ++ post)
      with (pre ++ (fst (raw c) ++ [snd (raw c)] ++ flatten (map raw cs)) ++ post) in IH by (rewrite <- !app_assoc; reflexivity).
    exact IH.
Qed.

(* in a CRLF file the byte before every LF is CR *)
Lemma cr_before_lf ps : (forall p, In p ps -> exists l, fst p = l ++ [13]) -> forall pre post x,
  In x (dpos (len pre) ps) -> 1 <= x /\ nthZ (pre ++ flatten ps ++ post) (x - 1) = 13.
Proof.
  induction ps as [|p ps IH]; intros H pre post x Hx; [contradiction|].
  simpl in Hx. destruct Hx as [E|Hx].
  - destruct (H p (or_introl eq_refl)) as [l El]. subst x. rewrite El, len_app, len_single.
    pose proof (len_nonneg pre). pose proof (len_nonneg l). split; [lia|].
    rewrite flatten_cons, El.
    replace (pre ++ ((l ++ [13]) ++ [snd p] ++ flatten ps) ++ post) with ((pre ++ l) ++ 13 :: ([snd p] ++ flatten ps ++ post))
      by (rewrite <- !app_assoc; reflexivity).
    replace (len pre + (len l + 1) - 1) with (len (pre ++ l)) by (rewrite len_app; lia). apply nthZ_mid.
  - specialize (IH (fun q Hq => H q (or_intror Hq)) (pre ++ fst p ++ [snd p]) post x).
    replace (len (pre ++ fst p ++ [snd p])) with (len pre + len (fst p) + 1) in IH by (rewrite !len_app, len_single; lia).
    rewrite flatten_cons.
    replace (pre ++ (fst p ++ [snd p] ++ flatten ps) ++ post) with ((pre ++ fst p ++ [snd p]) ++ flatten ps ++ post)
      by (rewrite <- !app_assoc; reflexivity).
    apply IH. exact Hx.
Qed.

Lemma cr_before_lf0 ps : (forall p, In p ps -> exists l, fst p = l ++ [13]) -> forall x,
  In x (dpos 0 ps) -> 1 <= x /\ nthZ (flatten ps) (x - 1) = 13.
Proof. intros H x Hx. pose proof (cr_before_lf ps H [] [] x Hx) as P. rewrite app_nil_r in P. exact P. Qed.

(* rows of cells *)
Fixpoint srows (o : Z) (crows : list (list fcell)) : list (list Z) :=
  match crows with [] => [] | c :: cs => spos o c :: srows (o + len (flatten c)) cs end.
Fixpoint erows (o : Z) (crows : list (list fcell)) : list (list Z) :=
  match crows with [] => [] | c :: cs => dpos o c :: erows (o + len (flatten c)) cs end.
Lemma spos_concat o crows : spos o (concat crows) = concat (srows o crows).
Proof. revert o. induction crows as [|c cs IH]; intros o; [reflexivity|]. simpl. rewrite spos_app, IH. reflexivity. Qed.
Lemma dpos_concat o crows : dpos o (concat crows) = concat (erows o crows).
Proof. revert o. induction crows as [|c cs IH]; intros o; [reflexivity|]. simpl. rewrite dpos_app, IH. reflexivity. Qed.
Lemma srows_len n crows : (forall c, In c crows -> length c = n) -> forall o x, In x (srows o crows) -> length x = n.
Proof.
  induction crows as [|c cs IH]; intros H o x Hx; [contradiction|]. simpl in Hx. destruct Hx as [E|Hx].
  - subst x. rewrite spos_length. apply H. left. reflexivity.
  - apply (IH (fun q Hq => H q (or_intror Hq)) _ x Hx).
Qed.
Lemma erows_len n crows : (forall c, In c crows -> length c = n) -> forall o x, In x (erows o crows) -> length x = n.
Proof.
  induction crows as [|c cs IH]; intros H o x Hx; [contradiction|]. simpl in Hx. destruct Hx as [E|Hx].
  - subst x. rewrite dpos_length. apply H. left. reflexivity.
  - apply (IH (fun q Hq => H q (or_intror Hq)) _ x Hx).
Qed.
Lemma srows_length o crows : length (srows o crows) = length crows.
Proof. revert o. induction crows; intros; simpl; [reflexivity|]. rewrite IHcrows. reflexivity. Qed.

(* a record: first line carries the marker, no other line drops a prefix, every line drops the same suffix *)
Definition trow_ok (m : Z) (suf : list Z) (row : list tcell) : Prop :=
  match row with
  | [] => False
  | c0 :: rest => ta c0 = [m] /\ (forall c, In c rest -> ta c = []) /\ (forall c, In c row -> tsuf c = suf)
  end.
Lemma tspos_plain o row : (forall c, In c row -> ta c = []) -> tspos o row = spos o (map raw row).
Proof.
  revert o. induction row as [|c row IH]; intros o H; [reflexivity|]. simpl.
  rewrite (H c (or_introl eq_refl)), len_nil. f_equal; [lia|]. apply IH. intros q Hq. apply H. right. exact Hq.
Qed.
Lemma tspos_row m suf o row : trow_ok m suf row ->
  match spos o (map raw row) with a :: t => (a + 1) :: t | [] => [] end = tspos o row.
Proof.
  destruct row as [|c0 rest]; [contradiction|]. intros [H0 [Hr _]]. simpl. rewrite H0, len_single. f_equal.
  symmetry. apply tspos_plain. exact Hr.
Qed.
Lemma tepos_row suf o row : (forall c, In c row -> tsuf c = suf) ->
  map (fun x => x - len suf) (dpos o (map raw row)) = tepos o row.
Proof.
  revert o. induction row as [|c row IH]; intros o H; [reflexivity|]. simpl. f_equal.
  - unfold raw. cbn [fst]. rewrite !len_app, (H c (or_introl eq_refl)). lia.
  - apply IH. intros q Hq. apply H. right. exact Hq.
Qed.

Fixpoint tsrows (o : Z) (trows : list (list tcell)) : list (list Z) :=
  match trows with [] => [] | r :: rs => tspos o r :: tsrows (o + len (flatten (map raw r))) rs end.
Fixpoint terows (o : Z) (trows : list (list tcell)) : list (list Z) :=
  match trows with [] => [] | r :: rs => tepos o r :: terows (o + len (flatten (map raw r))) rs end.
Lemma tsrows_length o trows : length (tsrows o trows) = length trows.
Proof. revert o. induction trows; intros; simpl; [reflexivity|]. rewrite IHtrows. reflexivity. Qed.
Lemma tsrows_eq m suf o trows : (forall r, In r trows -> trow_ok m suf r) ->
  map (fun r => match r with a :: t => (a + 1) :: t | [] => [] end) (srows o (map (map raw) trows)) = tsrows o trows.
Proof.
  revert o. induction trows as [|r rs IH]; intros o H; [reflexivity|]. simpl. f_equal.
  - apply (tspos_row m suf). apply H. left. reflexivity.
  - apply IH. intros q Hq. apply H. right. exact Hq.
Qed.
Lemma terows_eq m suf o trows : (forall r, In r trows -> trow_ok m suf r) ->
  map (map (fun x => x - len suf)) (erows o (map (map raw) trows)) = terows o trows.
Proof.
  revert o. induction trows as [|r rs IH]; intros o H; [reflexivity|]. simpl. f_equal.
  - apply tepos_row. specialize (H r (or_introl eq_refl)). destruct r as [|c0 rest]; [contradiction|]. apply H.
  - apply IH. intros q Hq. apply H. right. exact Hq.
Qed.

Lemma trows_texts trows : forall pre post,
  map (fun se => map (fun p => slice (fst p) (snd p) (pre ++ flatten (map raw (concat trows)) ++ post)) (combine (fst se) (snd se)))
      (combine (tsrows (len pre) trows) (terows (len pre) trows)) = map (map tbody) trows.
Proof.
  induction trows as [|r rs IH]; intros pre post; [reflexivity|].
  simpl tsrows. simpl terows. simpl combine. simpl map. f_equal.
  - cbn [fst snd]. simpl concat. rewrite map_app, flatten_app, <- app_assoc. apply trimmed_texts.
  - specialize (IH (pre ++ flatten (map raw r)) post). rewrite len_app in IH.
    simpl concat. rewrite map_app, flatten_app.
    replace (pre ++ (flatten (map raw r) ++ flatten (map raw (concat rs))) ++ post)
      with ((pre ++ flatten (map raw r)) ++ flatten (map raw (concat rs)) ++ post) by (rewrite <- !app_assoc; reflexivity).
    exact IH.
Qed.

Lemma tspos_ge o cs x : In x (tspos o cs) -> o <= x.
Proof.
  revert o. induction cs as [|c cs IH]; intros o H; [contradiction|]. simpl in H.
  pose proof (len_nonneg (ta c)). pose proof (len_nonneg (ta c ++ tbody c ++ tsuf c)).
  destruct H as [E|H]; [lia|]. apply IH in H. lia.
Qed.
Lemma tepos_lt o cs x : In x (tepos o cs) -> x <= o + len (flatten (map raw cs)) - 1.
Proof.
  revert o. induction cs as [|c cs IH]; intros o H; [contradiction|]. simpl map. rewrite len_flatten_cons.
  pose proof (len_nonneg (flatten (map raw cs))).
  assert (Hr : len (fst (raw c)) = len (ta c) + len (tbody c) + len (tsuf c)) by (unfold raw; cbn [fst]; rewrite !len_app; lia).
  pose proof (len_nonneg (tsuf c)).
  cbn [tepos In] in H. destruct H as [E|H].
  - lia.
  - apply IH in H. lia.
Qed.
Lemma tsrows_ge o trows row x : In row (tsrows o trows) -> In x row -> o <= x.
Proof.
  revert o. induction trows as [|r rs IH]; intros o Hr Hx; [contradiction|]. simpl in Hr. destruct Hr as [E|Hr].
  - subst row. apply (tspos_ge o r x Hx).
  - specialize (IH _ Hr Hx). pose proof (len_nonneg (flatten (map raw r))). lia.
Qed.
Lemma terows_lt o trows row x : In row (terows o trows) -> In x row -> x <= o + len (flatten (map raw (concat trows))) - 1.
Proof.
  revert o. induction trows as [|r rs IH]; intros o Hr Hx; [contradiction|].
  simpl concat. rewrite map_app, flatten_app, len_app.
  pose proof (len_nonneg (flatten (map raw (concat rs)))). pose proof (len_nonneg (flatten (map raw r))).
  simpl in Hr. destruct Hr as [E|Hr].
  - subst row. pose proof (tepos_lt o r x Hx). lia.
  - specialize (IH _ Hr Hx). lia.
Qed.

(* bytes at the line starts, row by row *)
Lemma srows_bytes crows : forall pre post row, In row (srows (len pre) crows) ->
  exists c, In c crows /\ map (nthZ (pre ++ flatten (concat crows) ++ post)) row = map (fun p => hd0 (fst p ++ [snd p])) c.
Proof.
  induction crows as [|c cs IH]; intros pre post row Hin; [contradiction|]. simpl in Hin. destruct Hin as [E|Hin].
  - subst row. exists c. split; [left; reflexivity|]. simpl concat. rewrite flatten_app, <- app_assoc. apply starts_bytes.
  - specialize (IH (pre ++ flatten c) post row). rewrite len_app in IH. destruct (IH Hin) as [c' [Hc' E]].
    exists c'. split; [right; exact Hc'|]. simpl concat. rewrite flatten_app.
    replace (pre ++ (flatten c ++ flatten (concat cs)) ++ post) with ((pre ++ flatten c) ++ flatten (concat cs) ++ post)
      by (rewrite <- !app_assoc; reflexivity).
    exact E.
Qed.
Lemma srows_bytes0 crows row : In row (srows 0 crows) ->
  exists c, In c crows /\ map (nthZ (flatten (concat crows))) row = map (fun p => hd0 (fst p ++ [snd p])) c.
Proof.
  intros H. pose proof (srows_bytes crows [] [] row H) as P. rewrite app_nil_r in P. exact P.
Qed.
Lemma nthZ_map_lt (f : Z -> Z) l k : 0 <= k < len l -> nthZ (map f l) k = f (nthZ l k).
Proof.
  intros H. unfold nthZ, len in *. rewrite (nth_indep _ 0 (f 0)) by (rewrite map_length; lia). apply map_nth.
Qed.

Definition suf_of (crlf : bool) : list Z := if crlf then [13] else [].
Definition line_clean (l : list Z) : Prop := forall c, In c l -> c <> 10 /\ c <> 13.

(* ---------- T5 ---------- *)
Theorem oneline_table_correct : forall (n : Z) (marker : Z) (plus crlf : bool) (trows : list (list tcell)),
  1 <= n -> trows <> [] ->
  (forall r, In r trows -> len r = n /\ trow_ok marker (suf_of crlf) r
                           /\ (forall c, In c r -> line_clean (ta c) /\ line_clean (tbody c))) ->
  (plus = true -> forall r, In r trows -> exists c, nth_error r 2 = Some c /\ hd0 (tbody c ++ [10]) = 43 /\ ta c = []) ->
  let file := flatten (map raw (concat trows)) in
  exists t, oneline_table n marker plus file = Some t /\ t_data t = file
            /\ table_fields t = map (map tbody) trows /\ len (t_starts t) = len trows
            /\ (forall row s, In row (t_starts t) -> In s row -> 0 <= s)
            /\ (forall row e, In row (t_ends t) -> In e row -> e < len file).
Proof.
  intros n marker plus crlf trows Hn Hne H Hplus file.
  set (crows := map (map raw) trows).
  assert (Hfile : file = flatten (concat crows)) by (unfold file, crows; rewrite concat_map; reflexivity).
  assert (Hrowlen : forall c, In c crows -> length c = Z.to_nat n).
  { intros c Hc. unfold crows in Hc. apply in_map_iff in Hc. destruct Hc as [r [E Hr]]. subst c. rewrite map_length.
    destruct (H r Hr) as [A _]. unfold len in A. lia. }
  assert (Hcellok : forall p, In p (concat crows) -> ~ In 10 (fst p) /\ snd p = 10).
  { intros p Hp. apply in_concat in Hp. destruct Hp as [c [Hc Hp]]. unfold crows in Hc. apply in_map_iff in Hc.
    destruct Hc as [r [E Hr]]. subst c. apply in_map_iff in Hp. destruct Hp as [tc [E Htc]]. subst p.
    destruct (H r Hr) as [_ [Hok Hcl]]. destruct (Hcl tc Htc) as [Ca Cb]. split; [|reflexivity].
    unfold raw. cbn [fst]. intro Hin. apply in_app_or in Hin. destruct Hin as [Hin|Hin]; [exact (proj1 (Ca _ Hin) eq_refl)|].
    apply in_app_or in Hin. destruct Hin as [Hin|Hin]; [exact (proj1 (Cb _ Hin) eq_refl)|].
    assert (Es : tsuf tc = suf_of crlf) by (destruct r as [|c0 rest]; [contradiction|]; apply Hok; exact Htc).
    rewrite Es in Hin. destruct crlf; simpl in Hin; [destruct Hin as [E|[]]; discriminate|contradiction]. }
  assert (Hpos : positions 10 file = dpos 0 (concat crows)).
  { unfold positions, flatnonzero. rewrite Hfile. apply nl_positions_cells. exact Hcellok. }
  destruct trows as [|r0 trows']; [congruence|]. set (trows := r0 :: trows') in *.
  assert (Hcl : length (concat crows) = (Z.to_nat n * length trows)%nat).
  { rewrite (length_concat_const (Z.to_nat n)) by exact Hrowlen. unfold crows. rewrite map_length. reflexivity. }
  assert (HR : length trows = S (length trows')) by reflexivity.
  assert (Hcne : concat crows <> []).
  { intro E. rewrite E, HR in Hcl. simpl length in Hcl. lia. }
  assert (Hk : len (dpos 0 (concat crows)) = n * Z.of_nat (length trows)).
  { unfold len. rewrite dpos_length, Hcl. lia. }
  unfold oneline_table. rewrite Hpos, Hk.
  destruct (Z.ltb_spec (n * Z.of_nat (length trows)) n) as [Hlt|_]; [rewrite HR in Hlt; nia|].
  rewrite Z.mul_comm, Z.mod_mul, Z.sub_0_r by lia.
  rewrite (firstn_all2 (dpos 0 (concat crows))) by (rewrite dpos_length, Hcl; lia).
  unfold lastz. rewrite dpos_last by exact Hcne.
  replace (0 + len (flatten (concat crows)) - 1 + 1) with (len file) by (rewrite Hfile; lia).
  rewrite (firstn_all2 file) by (unfold len; lia).
  assert (Hsp : removelast (map (Z.add 1) (-1 :: dpos 0 (concat crows))) = spos 0 (concat crows)).
  { rewrite <- (spos_dpos 0 (concat crows) Hcne). replace (0 - 1) with (-1) by lia.
    remember (-1 :: dpos 0 (concat crows)) as l. clear. induction l as [|x l IH]; [reflexivity|].
    destruct l as [|y l]; [reflexivity|]. simpl map in *. simpl removelast in *. rewrite IH. reflexivity. }
  rewrite Hsp. unfold reshape.
  assert (Hmod : forall l : list Z, length l = length (concat crows) -> (0 <? n) && (len l mod n =? 0) = true).
  { intros l Hl. destruct (Z.ltb_spec 0 n); [|lia]. simpl. unfold len. rewrite Hl, Hcl.
    rewrite Nat2Z.inj_mul, Z2Nat.id by lia. rewrite Z.mul_comm, Z.mod_mul by lia. reflexivity. }
  rewrite (Hmod (dpos 0 (concat crows))) by apply dpos_length. rewrite (Hmod (spos 0 (concat crows))) by apply spos_length.
  rewrite spos_concat, dpos_concat.
  rewrite !chunks_of_concat; try lia.
  2,3: (intros x Hx; first [eapply srows_len; [exact Hrowlen|exact Hx] | eapply erows_len; [exact Hrowlen|exact Hx]]).
  assert (Hrok : forall r, In r trows -> trow_ok marker (suf_of crlf) r) by (intros r Hr; apply (H r Hr)).
  (* validation *)
  assert (Hval : forallb (fun r => nthZ file (hd0 r) =? marker) (srows 0 crows) = true).
  { apply forallb_forall. intros row Hrow. apply Z.eqb_eq.
    destruct (srows_bytes0 crows row Hrow) as [c [Hc E]]. rewrite <- Hfile in E.
    unfold crows in Hc. apply in_map_iff in Hc. destruct Hc as [r [Er Hr]]. subst c.
    specialize (Hrok r Hr). destruct r as [|c0 rest]; [contradiction|]. destruct Hrok as [Ha _].
    destruct row as [|x row]; [simpl in E; discriminate|]. simpl in E. injection E as E0 _. simpl hd0.
    rewrite E0, Ha. reflexivity. }
  rewrite Hval. change (negb true) with false. cbv iota.
  assert (Hvalp : plus && negb (forallb (fun r => nthZ file (nthZ r 2) =? 43) (srows 0 crows)) = false).
  { destruct plus; [|reflexivity]. rewrite andb_true_l. apply negb_false_iff. apply forallb_forall. intros row Hrow. apply Z.eqb_eq.
    destruct (srows_bytes0 crows row Hrow) as [c [Hc E]]. rewrite <- Hfile in E.
    unfold crows in Hc. apply in_map_iff in Hc. destruct Hc as [r [Er Hr]]. subst c.
    destruct (Hplus eq_refl r Hr) as [c2 [Hn2 [H43 Ha2]]].
    assert (Hlen2 : 2 < len row).
    { apply (f_equal (@length Z)) in E. rewrite !map_length in E. unfold len. rewrite E.
      assert (nth_error r 2 <> None) by congruence. apply nth_error_Some in H0. lia. }
    rewrite <- (nthZ_map_lt (nthZ file) row 2) by lia. rewrite E.
    unfold nthZ. simpl Z.to_nat.
    rewrite (nth_indep _ 0 (hd0 (fst (raw c2) ++ [snd (raw c2)]))) by (rewrite !map_length; assert (nth_error r 2 <> None) by congruence; apply nth_error_Some in H0; exact H0).
    rewrite map_map. rewrite (map_nth (fun x => hd0 (fst (raw x) ++ [snd (raw x)])) r c2 (Pos.to_nat 2)).
    rewrite (nth_error_nth r (Pos.to_nat 2) c2 Hn2). unfold raw. cbn [fst snd]. rewrite Ha2. simpl app.
    destruct (tbody c2) as [|y b]; [simpl in H43; discriminate|]. simpl. simpl in H43. exact H43. }
  rewrite Hvalp.
  (* carriage returns *)
  assert (Hfirst : 1 <= hd0 (hd [] (erows 0 crows))).
  { unfold crows, trows. simpl. specialize (Hrok r0 (or_introl eq_refl)). destruct r0 as [|c0 rest]; [contradiction|].
    destruct Hrok as [Ha _]. simpl. unfold raw. cbn [fst]. rewrite Ha, !len_app, len_single.
    pose proof (len_nonneg (tbody c0)). pose proof (len_nonneg (tsuf c0)). lia. }
  destruct (Z.ltb_spec (hd0 (hd [] (erows 0 crows))) 1) as [Hc|_]; [lia|].
  assert (Hends : (if existsb (fun r => nthZ file (hd0 r - 1) =? 13) (firstn (Z.to_nat n) (erows 0 crows))
                   then map (map (fun x => x - (if py_get file (x - 1) =? 13 then 1 else 0))) (erows 0 crows)
                   else erows 0 crows) = terows 0 trows).
  { rewrite <- (terows_eq marker (suf_of crlf) 0 trows Hrok). fold crows.
    destruct crlf.
    - (* CRLF *)
      assert (Hcr : forall row x, In row (erows 0 crows) -> In x row -> 1 <= x /\ nthZ file (x - 1) = 13).
      { intros row x Hrow Hx. pose proof (cr_before_lf (concat crows)) as P.
        assert (Hsufs : forall p, In p (concat crows) -> exists l, fst p = l ++ [13]).
        { intros p Hp. apply in_concat in Hp. destruct Hp as [c [Hc Hp]]. unfold crows in Hc. apply in_map_iff in Hc.
          destruct Hc as [r [E Hr]]. subst c. apply in_map_iff in Hp. destruct Hp as [tc [E Htc]]. subst p.
          specialize (Hrok r Hr). destruct r as [|c0 rest]; [contradiction|]. destruct Hrok as [_ [_ Hs]].
          exists (ta tc ++ tbody tc). unfold raw. cbn [fst]. rewrite (Hs tc Htc). simpl suf_of. rewrite <- app_assoc. reflexivity. }
        clear P. pose proof (cr_before_lf0 (concat crows) Hsufs x) as P. rewrite <- Hfile in P. apply P.
        rewrite dpos_concat. apply in_concat. exists row. split; assumption. }
      replace (existsb (fun r => nthZ file (hd0 r - 1) =? 13) (firstn (Z.to_nat n) (erows 0 crows))) with true.
      + apply map_ext_in. intros row Hrow. apply map_ext_in. intros x Hx. destruct (Hcr row x Hrow Hx) as [A B].
        unfold py_get. destruct (Z.ltb_spec (x - 1) 0); [lia|]. rewrite B. reflexivity.
      + symmetry. apply existsb_exists. unfold crows, trows. simpl erows.
        replace (Z.to_nat n) with (S (Z.to_nat n - 1)) by lia. simpl firstn.
        eexists. split; [left; reflexivity|]. apply Z.eqb_eq.
        fold trows. specialize (Hrok r0 (or_introl eq_refl)). destruct r0 as [|c0 rest]; [contradiction|].
        apply (Hcr (dpos 0 (map raw (c0 :: rest)))); [unfold crows, trows; simpl; left; reflexivity|simpl; left; reflexivity].
    - (* LF: no CR in the file *)
      assert (Hno : forall c, In c file -> c <> 13).
      { intros c Hc. rewrite Hfile in Hc. unfold flatten in Hc. apply in_concat in Hc. destruct Hc as [l [Hl Hc]].
        apply in_map_iff in Hl. destruct Hl as [p [E Hp]]. subst l.
        apply in_concat in Hp. destruct Hp as [cr [Hcr Hp]]. unfold crows in Hcr. apply in_map_iff in Hcr.
        destruct Hcr as [r [E Hr]]. subst cr. apply in_map_iff in Hp. destruct Hp as [tc [E Htc]]. subst p.
        destruct (H r Hr) as [_ [Hok Hcln]]. destruct (Hcln tc Htc) as [Ca Cb].
        assert (Es : tsuf tc = []) by (destruct r as [|c0 rest]; [contradiction|]; apply Hok; exact Htc).
        unfold raw in Hc. cbn [fst snd] in Hc. rewrite Es, app_nil_r in Hc.
        apply in_app_or in Hc. destruct Hc as [Hc|[Hc|[]]]; [|lia].
        apply in_app_or in Hc. destruct Hc as [Hc|Hc]; [apply (proj2 (Ca _ Hc))|apply (proj2 (Cb _ Hc))]. }
      replace (existsb (fun r => nthZ file (hd0 r - 1) =? 13) (firstn (Z.to_nat n) (erows 0 crows))) with false.
      + change (len (suf_of false)) with 0. symmetry.
        transitivity (map (fun row : list Z => row) (erows 0 crows)); [|apply map_id].
        apply map_ext. intros row. transitivity (map (fun x : Z => x) row); [|apply map_id].
        apply map_ext. intros x. lia.
      + symmetry. apply not_true_is_false. intro Hex. apply existsb_exists in Hex. destruct Hex as [row [_ E]].
        apply Z.eqb_eq in E. destruct (nthZ_In_or_0 file (hd0 row - 1)) as [Hin|H0]; [apply (Hno _ Hin E)|lia]. }
  rewrite Hends. pose proof (tsrows_eq marker (suf_of crlf) 0 trows Hrok) as Q. fold crows in Q. rewrite Q.
  eexists. split; [reflexivity|]. cbn [t_data t_starts t_ends]. split; [reflexivity|]. split; [|split; [|split]].
  - unfold table_fields. cbn [t_data t_starts t_ends].
    pose proof (trows_texts trows [] []) as P. rewrite len_nil, app_nil_r in P. simpl app in P. exact P.
  - unfold len. rewrite tsrows_length. reflexivity.
  - intros row s Hrow Hs. apply (tsrows_ge 0 trows row s Hrow Hs).
  - intros row e Hrow He. pose proof (terows_lt 0 trows row e Hrow He). unfold file. lia.
Qed.

(* ---------- whole FASTQ / two-line FASTA files ---------- *)
Lemma body_lines_nocomments f w recs : body_lines f w recs [] = concat (map (rec_lines f w) recs).
Proof. induction recs as [|r rs IH]; [reflexivity|]. simpl. rewrite IH. reflexivity. Qed.
Lemma lay_app e a b : lay e (a ++ b) = lay e a ++ lay e b.
Proof. unfold lay. rewrite map_app, concat_app. reflexivity. Qed.
Lemma eol_suf crlf : eol_of crlf = suf_of crlf ++ [10].
Proof. destruct crlf; reflexivity. Qed.

Definition fq_row (crlf : bool) (r : list (list Z)) : list tcell :=
  [([64], field r 0, suf_of crlf); ([], field r 1, suf_of crlf); ([], 43 :: field r 2, suf_of crlf); ([], field r 3, suf_of crlf)].
Definition fa2_row (crlf : bool) (r : list (list Z)) : list tcell :=
  [([62], field r 0, suf_of crlf); ([], field r 1, suf_of crlf)].
Lemma fq_file crlf recs :
  lay (eol_of crlf) (concat (map (rec_lines Ffastq 0) recs)) = flatten (map raw (concat (map (fq_row crlf) recs))).
Proof.
  induction recs as [|r rs IH]; [reflexivity|]. rewrite !map_cons, !concat_cons, lay_app, map_app, flatten_app, IH. f_equal.
  unfold lay, flatten, fq_row, raw, ta, tbody, tsuf. simpl. rewrite !eol_suf, !app_nil_r, <- !app_assoc. reflexivity.
Qed.
Lemma fa2_file crlf recs :
  lay (eol_of crlf) (concat (map (rec_lines Ffasta2 0) recs)) = flatten (map raw (concat (map (fa2_row crlf) recs))).
Proof.
  induction recs as [|r rs IH]; [reflexivity|]. rewrite !map_cons, !concat_cons, lay_app, map_app, flatten_app, IH. f_equal.
  unfold lay, flatten, fa2_row, raw, ta, tbody, tsuf. simpl. rewrite !eol_suf, !app_nil_r, <- !app_assoc. reflexivity.
Qed.

Lemma spec_col_same rows rows' j ty : ty <> TRest -> length rows = length rows' ->
  (forall k, field (nth k rows []) j = field (nth k rows' []) j) -> spec_col rows (j, ty) = spec_col rows' (j, ty).
Proof.
  intros Hty Hlen H. unfold spec_col. cbn [fst snd].
  replace (mapM (fun r => spec_cell ty r j) rows) with (mapM (fun r => spec_cell ty r j) rows'); [reflexivity|].
  revert rows' Hlen H. induction rows as [|r rows IH]; intros rows' Hlen H; destruct rows' as [|r' rows']; try discriminate; [reflexivity|].
  simpl. rewrite (IH rows') by (try (simpl in Hlen; lia); intros k; apply (H (S k))).
  specialize (H O). simpl in H.
  replace (spec_cell ty r' j) with (spec_cell ty r j); [reflexivity|].
  unfold spec_cell. destruct ty; try congruence; rewrite H; reflexivity.
Qed.
Lemma qual_col_correct t rows j : table_ok t rows -> 0 <= j -> (forall r, In r rows -> j < len r) ->
  typed_col t j TQual = spec_col rows (j, TQual).
Proof.
  intros Hok Hj Hl. unfold typed_col, spec_col. cbn [fst snd].
  rewrite (texts_of_table t rows j (ok_fields _ _ Hok) Hj Hl). unfold spec_cell.
  rewrite (mapM_some (fun r => CInts (map (fun c => c - 33) (field r j)))). rewrite map_map. reflexivity.
Qed.

Lemma nth_map_lt {A B} (f : A -> B) l k d d' : (k < length l)%nat -> nth k (map f l) d' = f (nth k l d).
Proof. revert k. induction l as [|x l IH]; intros k H; [simpl in H; lia|]. destruct k; [reflexivity|]. simpl. apply IH. simpl in H. lia. Qed.
Definition rec_clean (r : list (list Z)) : Prop := forall f, In f r -> line_clean f.
Lemma field_in_or_nil r j : In (field r j) r \/ field r j = [].
Proof. unfold field. destruct (nth_in_or_default (Z.to_nat j) r []); auto. Qed.
Lemma field_clean r j : rec_clean r -> line_clean (field r j).
Proof. intros H. destruct (field_in_or_nil r j) as [Hin|E]; [apply H; exact Hin|rewrite E; intros c []]. Qed.

(* FASTQ: entry i is lines 4i .. 4i+3: name (without '@'), sequence, '+' line, qualities (byte - 33) *)
Theorem fastq_end_to_end : forall (crlf : bool) (recs : list (list (list Z))),
  recs <> [] ->
  (forall r, In r recs -> len r = 4 /\ rec_clean r) ->
  run Ffastq None (lay (eol_of crlf) (body_lines Ffastq 0 recs [])) = Obs (len recs) (spec_cols Ffastq None recs) true.
Proof.
  intros crlf recs Hne H.
  rewrite body_lines_nocomments, fq_file.
  set (trows := map (fq_row crlf) recs).
  assert (Hlinec : forall c, c = 64 \/ c = 43 -> c <> 10 /\ c <> 13) by (intros c [E|E]; subst; split; discriminate).
  destruct (oneline_table_correct 4 64 true crlf trows ltac:(lia)) as [t [Ht [Hd [Hf [Hl [Hs He]]]]]].
  - unfold trows. destruct recs; [congruence|discriminate].
  - intros row Hrow. unfold trows in Hrow. apply in_map_iff in Hrow. destruct Hrow as [r [E Hr]]. subst row.
    destruct (H r Hr) as [_ Hc]. split; [reflexivity|]. split.
    + unfold fq_row, trow_ok. split; [reflexivity|]. split.
      * intros c [E|[E|[E|[]]]]; subst c; reflexivity.
      * intros c [E|[E|[E|[E|[]]]]]; subst c; reflexivity.
    + intros c Hc0.
      assert (Hm : line_clean [64]) by (intros x [E|[]]; subst; split; discriminate).
      assert (Hn : line_clean (@nil Z)) by (intros x []).
      assert (Hp : line_clean (43 :: field r 2)) by (intros x [E|Hx]; [subst; split; discriminate|exact (field_clean r 2 Hc x Hx)]).
      destruct Hc0 as [E|[E|[E|[E|[]]]]]; subst c; unfold ta, tbody; cbn [fst snd]; split; try assumption; apply field_clean; exact Hc.
  - intros _ row Hrow. unfold trows in Hrow. apply in_map_iff in Hrow. destruct Hrow as [r [E Hr]]. subst row.
    eexists. split; [reflexivity|]. split; reflexivity.
  - set (rows' := map (map tbody) trows) in *.
    assert (Hok : table_ok t rows').
    { constructor; [exact Hf|exact Hs|rewrite Hd; exact He|]. rewrite Hd. apply flatten_len_pos.
      destruct recs as [|r0 rs]; [congruence|]. unfold trows. simpl. discriminate. }
    unfold run. cbn [comment_byte]. unfold skip_header. simpl Z.eqb. cbv iota. cbn [table_of].
    fold trows. rewrite Ht. cbn [eager_format andb]. rewrite Hl. unfold trows. rewrite len_map. f_equal.
    unfold run_cols, spec_cols. cbn [schema has_geno map app fst snd].
    assert (Hrl : forall r, In r rows' -> 3 < len r /\ 0 < len r /\ 1 < len r).
    { intros r Hr. unfold rows', trows in Hr. rewrite map_map in Hr. apply in_map_iff in Hr. destruct Hr as [x [E _]]. subst r. unfold len. simpl. lia. }
    assert (Hlen : length rows' = length recs) by (unfold rows', trows; rewrite !map_length; reflexivity).
    assert (Hfield : forall j, j = 0 \/ j = 1 \/ j = 3 -> forall k, field (nth k rows' []) j = field (nth k recs []) j).
    { intros j Hj k. unfold rows', trows. rewrite map_map.
      destruct (Nat.lt_ge_cases k (length recs)) as [Hk|Hk].
      - rewrite (nth_map_lt _ recs k [] []) by exact Hk. destruct Hj as [E|[E|E]]; subst j; reflexivity.
      - rewrite !nth_overflow by (rewrite ?map_length; lia). reflexivity. }
    rewrite (str_col_correct t rows' 0 Hok ltac:(lia) (fun r Hr => proj1 (proj2 (Hrl r Hr)))).
    rewrite (str_col_correct t rows' 1 Hok ltac:(lia) (fun r Hr => proj2 (proj2 (Hrl r Hr)))).
    rewrite (qual_col_correct t rows' 3 Hok ltac:(lia) (fun r Hr => proj1 (Hrl r Hr))).
    rewrite (spec_col_same rows' recs 0 TStr ltac:(discriminate) Hlen (Hfield 0 ltac:(auto))).
    rewrite (spec_col_same rows' recs 1 TStr ltac:(discriminate) Hlen (Hfield 1 ltac:(auto))).
    rewrite (spec_col_same rows' recs 3 TQual ltac:(discriminate) Hlen (Hfield 3 ltac:(auto))).
    reflexivity.
Qed.

(* two-line FASTA: entry i is lines 2i, 2i+1: name (without '>'), sequence *)
Theorem fasta2_end_to_end : forall (crlf : bool) (recs : list (list (list Z))),
  recs <> [] ->
  (forall r, In r recs -> len r = 2 /\ rec_clean r) ->
  run Ffasta2 None (lay (eol_of crlf) (body_lines Ffasta2 0 recs [])) = Obs (len recs) (spec_cols Ffasta2 None recs) true.
Proof.
  intros crlf recs Hne H.
  rewrite body_lines_nocomments, fa2_file.
  set (trows := map (fa2_row crlf) recs).
  destruct (oneline_table_correct 2 62 false crlf trows ltac:(lia)) as [t [Ht [Hd [Hf [Hl [Hs He]]]]]].
  - unfold trows. destruct recs; [congruence|discriminate].
  - intros row Hrow. unfold trows in Hrow. apply in_map_iff in Hrow. destruct Hrow as [r [E Hr]]. subst row.
    destruct (H r Hr) as [_ Hc]. split; [reflexivity|]. split.
    + unfold fa2_row, trow_ok. split; [reflexivity|]. split.
      * intros c [E|[]]; subst c; reflexivity.
      * intros c [E|[E|[]]]; subst c; reflexivity.
    + intros c Hc0.
      assert (Hm : line_clean [62]) by (intros x [E|[]]; subst; split; discriminate).
      assert (Hn : line_clean (@nil Z)) by (intros x []).
      destruct Hc0 as [E|[E|[]]]; subst c; unfold ta, tbody; cbn [fst snd]; split; try assumption; apply field_clean; exact Hc.
  - discriminate.
  - set (rows' := map (map tbody) trows) in *.
    assert (Hok : table_ok t rows').
    { constructor; [exact Hf|exact Hs|rewrite Hd; exact He|]. rewrite Hd. apply flatten_len_pos.
      destruct recs as [|r0 rs]; [congruence|]. unfold trows. simpl. discriminate. }
    unfold run. cbn [comment_byte]. unfold skip_header. simpl Z.eqb. cbv iota. cbn [table_of].
    fold trows. rewrite Ht. cbn [eager_format andb]. rewrite Hl. unfold trows. rewrite len_map. f_equal.
    unfold run_cols, spec_cols. cbn [schema has_geno map app fst snd].
    assert (Hrl : forall r, In r rows' -> 0 < len r /\ 1 < len r).
    { intros r Hr. unfold rows', trows in Hr. rewrite map_map in Hr. apply in_map_iff in Hr. destruct Hr as [x [E _]]. subst r. unfold len. simpl. lia. }
    assert (Hlen : length rows' = length recs) by (unfold rows', trows; rewrite !map_length; reflexivity).
    assert (Hfield : forall j, j = 0 \/ j = 1 -> forall k, field (nth k rows' []) j = field (nth k recs []) j).
    { intros j Hj k. unfold rows', trows. rewrite map_map.
      destruct (Nat.lt_ge_cases k (length recs)) as [Hk|Hk].
      - rewrite (nth_map_lt _ recs k [] []) by exact Hk. destruct Hj as [E|E]; subst j; reflexivity.
      - rewrite !nth_overflow by (rewrite ?map_length; lia). reflexivity. }
    rewrite (str_col_correct t rows' 0 Hok ltac:(lia) (fun r Hr => proj1 (Hrl r Hr))).
    rewrite (str_col_correct t rows' 1 Hok ltac:(lia) (fun r Hr => proj2 (Hrl r Hr))).
    rewrite (spec_col_same rows' recs 0 TStr ltac:(discriminate) Hlen (Hfield 0 ltac:(auto))).
    rewrite (spec_col_same rows' recs 1 TStr ltac:(discriminate) Hlen (Hfield 1 ltac:(auto))).
    reflexivity.
Qed.

(* Proofs/C18_matrix.v — move_intervals_to_digit_array at index level: the row of the digit matrix is the
   field left-padded with the fill value to the widest field — for every field of the buffer, wherever it lies
   (also when it ends closer to the buffer start than the widest field, where the window index is negative and
   NumPy wraps around: those cells are exactly the cells overwritten by the fill). *)
From Coq Require Import ZArith List Bool Lia.
From BNP Require Import Base.Prims Base.PrimsFacts Model.C18 Proofs.C18_power Proofs.C18_int.
Import ListNotations.
Open Scope Z_scope.

Definition iv_ok (data : list Z) (iv : Z * Z) : Prop := 0 <= fst iv <= snd iv /\ snd iv <= len data.

Lemma map_const_arange {A} (c : A) : forall n s, map (fun _ : Z => c) (arange_from s n) = repeat c n.
Proof. induction n as [|n IH]; intros s; [reflexivity|]. cbn [arange_from map repeat]. rewrite IH. reflexivity. Qed.
Lemma skipn_nth_cons : forall (l : list Z) n, (n < length l)%nat -> skipn n l = nth n l 0 :: skipn (S n) l.
Proof.
  induction l as [|x l IH]; intros n H; [simpl in H; lia|].
  destruct n as [|n]; [reflexivity|]. cbn [skipn nth]. apply IH. simpl in H. lia.
Qed.
Lemma map_nth_arange (data : list Z) : forall n s, 0 <= s -> s + Z.of_nat n <= len data ->
  map (nthZ data) (arange_from s n) = firstn n (skipn (Z.to_nat s) data).
Proof.
  induction n as [|n IH]; intros s Hs H; [reflexivity|].
  cbn [arange_from map]. unfold len in H.
  rewrite (skipn_nth_cons data (Z.to_nat s)) by lia. cbn [firstn]. f_equal.
  rewrite IH by (unfold len; lia). do 2 f_equal. lia.
Qed.
Lemma len_slice_in (data : list Z) s e : 0 <= s <= e -> e <= len data -> len (slice s e data) = e - s.
Proof. intros H1 H2. unfold slice. rewrite len_firstn, len_skipn. lia. Qed.
Lemma max_width_ge ivs iv : In iv ivs -> snd iv - fst iv <= max_width ivs.
Proof.
  induction ivs as [|x ivs IH]; intros H; [contradiction|].
  unfold max_width in *. cbn [map fold_right]. destruct H as [E|H]; [subst; lia|]. specialize (IH H). lia.
Qed.

Lemma map_shift_arange k : forall n a, map (fun j => j + k) (arange_from a n) = arange_from (a + k) n.
Proof.
  induction n as [|n IH]; intros a; [reflexivity|]. cbn [arange_from map]. rewrite IH. do 2 f_equal. lia.
Qed.

Lemma digit_matrix_row_spec data fill w iv : iv_ok data iv -> snd iv - fst iv <= w ->
  digit_matrix_row data fill w iv
  = repeat fill (Z.to_nat (m_n_fill w (snd iv - fst iv))) ++ slice (fst iv) (snd iv) data.
Proof.
  intros [[Hs He] Hd] Hw. destruct iv as [s e]. cbn [fst snd] in *.
  unfold digit_matrix_row, m_n_fill, m_window_index. cbn [fst snd].
  set (l := e - s) in *. unfold arange.
  replace (Z.to_nat w) with (Z.to_nat (w - l) + Z.to_nat l)%nat by lia.
  rewrite arange_from_app, map_app. f_equal.
  - rewrite <- (map_const_arange fill (Z.to_nat (w - l)) 0). apply map_ext_arange.
    intros j Hj. destruct (Z.ltb_spec j (w - l)); [reflexivity|lia].
  - replace (0 + Z.of_nat (Z.to_nat (w - l))) with (w - l) by lia.
    transitivity (map (nthZ data) (map (fun j => j + (s - (w - l))) (arange_from (w - l) (Z.to_nat l)))).
    + rewrite map_map. apply map_ext_arange. intros j Hj.
      destruct (Z.ltb_spec j (w - l)); [lia|]. unfold np_get.
      destruct (Z.ltb_spec (e - w + j) 0); [lia|]. f_equal. lia.
    + rewrite map_shift_arange. replace (w - l + (s - (w - l))) with s by lia.
      rewrite map_nth_arange by lia. unfold slice. subst l. reflexivity.
Qed.

Theorem digit_matrix_spec : forall data ivs fill, Forall (iv_ok data) ivs ->
  digit_matrix data ivs fill
  = map (fun t => repeat fill (Z.to_nat (m_n_fill (max_len (fields_of data ivs)) (len t))) ++ t) (fields_of data ivs).
Proof.
  intros data ivs fill H. unfold digit_matrix, fields_of. rewrite map_map.
  assert (Ew : max_len (map (fun iv => slice (fst iv) (snd iv) data) ivs) = max_width ivs).
  { unfold max_len, max_width. rewrite map_map. f_equal. apply map_ext_in. intros iv Hin.
    rewrite Forall_forall in H. destruct (H iv Hin) as [A B]. apply len_slice_in; assumption. }
  rewrite Ew. apply map_ext_in. intros iv Hin. rewrite Forall_forall in H. pose proof (H iv Hin) as Hiv.
  rewrite digit_matrix_row_spec by (try exact Hiv; apply max_width_ge; exact Hin).
  destruct Hiv as [A B]. rewrite len_slice_in by assumption. reflexivity.
Qed.
(* with fill '0' this is pad_left of the fields, so the buffer-level integer column is the matrix parser of the fields *)
Corollary digit_matrix_pad : forall data ivs, Forall (iv_ok data) ivs ->
  digit_matrix data ivs 48 = map (pad_left (max_len (fields_of data ivs))) (fields_of data ivs).
Proof. intros. rewrite digit_matrix_spec by assumption. reflexivity. Qed.
Theorem str_to_int_buffer_fields : forall data ivs, Forall (iv_ok data) ivs ->
  str_to_int_buffer data ivs = str_to_int_matrix (fields_of data ivs).
Proof.
  intros data ivs H. unfold str_to_int_buffer, str_to_int_matrix. rewrite digit_matrix_pad by exact H.
  assert (Ew : max_len (fields_of data ivs) = max_width ivs).
  { unfold fields_of, max_len, max_width. rewrite map_map. f_equal. apply map_ext_in. intros iv Hin.
    rewrite Forall_forall in H. destruct (H iv Hin) as [A B]. apply len_slice_in; assumption. }
  rewrite Ew. reflexivity.
Qed.
(* end to end: a sign-free integer column anywhere in a buffer parses exactly *)
Theorem str_to_int_buffer_exact : forall data ivs vs, Forall (iv_ok data) ivs ->
  Forall2 (fun iv v => digits_value (slice (fst iv) (snd iv) data) = Some v /\ int64 v) ivs vs ->
  str_to_int_buffer data ivs = Some vs.
Proof.
  intros data ivs vs H F. rewrite str_to_int_buffer_fields by exact H. apply str_to_int_matrix_exact.
  unfold fields_of. clear H. induction F as [|iv v ivs vs Hv _ IH]; [constructor|]. cbn [map]. constructor; assumption.
Qed.

(* Proofs/C03_scatter.v — the strided ragged scatter used by dump_csv.join_columns and
   OneLineBuffer.join_fields writes every cell into its own line: the result is, row by row, the
   cells (behind their column offset) each followed by one free byte. *)
From Coq Require Import ZArith List Bool Lia Arith.
From BNP Require Import Base.Prims Base.PrimsFacts Model.C03.
Import ListNotations.
Open Scope Z_scope.

(* ---------- generic list facts ---------- *)
Lemma map_seq_nth {A B} (g : A -> B) (d : A) (l : list A) :
  map (fun i => g (nth i l d)) (seq 0 (length l)) = map g l.
Proof.
  induction l as [|x l IH]; [reflexivity|].
  cbn [length seq map nth]. f_equal. rewrite <- seq_shift, map_map. exact IH.
Qed.
Lemma concat_map_flat_map {A B} (g : A -> list B) l : flat_map g l = concat (map g l).
Proof. induction l; cbn; [reflexivity|]. f_equal. assumption. Qed.

Lemma concat_concat' {A} (l : list (list (list A))) : concat (concat l) = concat (map (@concat A) l).
Proof. induction l as [|x l IH]; [reflexivity|]. cbn [concat map]. rewrite concat_app, IH. reflexivity. Qed.

(* update the k-th element of a list *)
Definition upd {A} (k : nat) (g : A -> A) (d : A) (l : list A) : list A :=
  firstn k l ++ g (nth k l d) :: skipn (S k) l.
Lemma split_at {A} (k : nat) (d : A) (l : list A) : (k < length l)%nat ->
  l = firstn k l ++ nth k l d :: skipn (S k) l.
Proof.
  revert l; induction k as [|k IH]; intros [|x l] H; cbn in H; try lia; [reflexivity|].
  cbn [firstn nth skipn app]. f_equal. apply IH. lia.
Qed.

(* ---------- put_stride / map_stride over blocks of n lines ---------- *)
Section Stride.
Variable n : nat.
Variable off : nat.

Lemma put_stride_skip B : forall s rest col, (length B <= s)%nat ->
  put_stride s n off (B ++ rest) col = B ++ put_stride (s - length B) n off rest col.
Proof.
  induction B as [|l B IH]; intros s rest col H.
  - cbn. rewrite Nat.sub_0_r. reflexivity.
  - cbn [length] in H. destruct s as [|s]; [lia|]. cbn [app put_stride length Nat.sub].
    f_equal. apply IH. lia.
Qed.
Lemma put_stride_nil_col : forall s lines, put_stride s n off lines [] = lines.
Proof.
  intros s lines; revert s; induction lines as [|l lines IH]; intros s; [reflexivity|].
  destruct s; cbn; [reflexivity|]. f_equal. apply IH.
Qed.

Lemma put_stride_block k rl c rest col : (k < n)%nat -> length rl = n ->
  put_stride k n off (rl ++ rest) (c :: col)
  = upd k (fun l => put_body off l c) [] rl ++ put_stride k n off rest col.
Proof.
  intros Hk Hl. rewrite (split_at k [] rl) at 1 by lia.
  rewrite <- app_assoc. rewrite put_stride_skip by (rewrite firstn_length; lia).
  rewrite firstn_length, Nat.min_l, Nat.sub_diag by lia.
  cbn [app put_stride]. unfold upd. rewrite <- app_assoc. cbn [app]. do 2 f_equal.
  rewrite put_stride_skip by (rewrite skipn_length; lia).
  f_equal. f_equal. rewrite skipn_length. lia.
Qed.

Lemma put_stride_rows k : (k < n)%nat -> forall rls col,
  Forall (fun rl => length rl = n) rls -> length col = length rls ->
  put_stride k n off (concat rls) col
  = concat (map (fun p => upd k (fun l => put_body off l (snd p)) [] (fst p)) (combine rls col)).
Proof.
  intros Hk. induction rls as [|rl rls IH]; intros col Hf Hc.
  - destruct col; [|discriminate]. reflexivity.
  - destruct col as [|c col]; [discriminate|].
    pose proof (Forall_inv Hf) as H1. pose proof (Forall_inv_tail Hf) as H2. cbn beta in H1.
    cbn [concat combine map fst snd]. rewrite put_stride_block by assumption.
    f_equal. apply IH; [assumption|]. cbn in Hc. lia.
Qed.
End Stride.

Section MapStride.
Variable g : list Z -> list Z.
Variable n : nat.
Lemma map_stride_skip B : forall s rest, (length B <= s)%nat ->
  map_stride g s n (B ++ rest) = B ++ map_stride g (s - length B) n rest.
Proof.
  induction B as [|l B IH]; intros s rest H.
  - cbn. rewrite Nat.sub_0_r. reflexivity.
  - cbn [length] in H. destruct s as [|s]; [lia|]. cbn [app map_stride length Nat.sub].
    f_equal. apply IH. lia.
Qed.
Lemma map_stride_block k rl rest : (k < n)%nat -> length rl = n ->
  map_stride g k n (rl ++ rest) = upd k g [] rl ++ map_stride g k n rest.
Proof.
  intros Hk Hl. rewrite (split_at k [] rl) at 1 by lia.
  rewrite <- app_assoc. rewrite map_stride_skip by (rewrite firstn_length; lia).
  rewrite firstn_length, Nat.min_l, Nat.sub_diag by lia.
  cbn [app map_stride]. unfold upd. rewrite <- app_assoc. cbn [app]. do 2 f_equal.
  rewrite map_stride_skip by (rewrite skipn_length; lia).
  f_equal. f_equal. rewrite skipn_length. lia.
Qed.
Lemma map_stride_rows k : (k < n)%nat -> forall rls,
  Forall (fun rl => length rl = n) rls ->
  map_stride g k n (concat rls) = concat (map (upd k g []) rls).
Proof.
  intros Hk. induction rls as [|rl rls IH]; intros Hf; [reflexivity|].
  pose proof (Forall_inv Hf) as H1. pose proof (Forall_inv_tail Hf) as H2. cbn beta in H1.
  cbn [concat map]. rewrite map_stride_block by assumption.
  f_equal. apply IH. assumption.
Qed.
End MapStride.

(* ---------- small facts ---------- *)
Lemma firstn_repeat {A} (x : A) a b : firstn a (repeat x (a + b)) = repeat x a.
Proof. induction a as [|a IH]; cbn; [reflexivity|]. f_equal. exact IH. Qed.
Lemma skipn_repeat {A} (x : A) a b : skipn a (repeat x (a + b)) = repeat x b.
Proof. induction a as [|a IH]; cbn; [reflexivity|]. exact IH. Qed.
Lemma put_body_template off t :
  put_body off (repeat 0 (Z.to_nat (len t + 1 + Z.of_nat off))) t = repeat 0 off ++ t ++ [0].
Proof.
  unfold put_body, len.
  replace (Z.to_nat (Z.of_nat (length t) + 1 + Z.of_nat off)) with (off + (length t + 1))%nat by lia.
  rewrite firstn_repeat. do 2 f_equal.
  replace (off + (length t + 1))%nat with ((off + length t) + 1)%nat by lia.
  rewrite skipn_repeat. reflexivity.
Qed.
Lemma combine_map_same {A B C} (g : A -> B) (h : A -> C) l :
  combine (map g l) (map h l) = map (fun x => (g x, h x)) l.
Proof. induction l; cbn; [reflexivity|]. f_equal. assumption. Qed.

Lemma upd_cons {A} k (g : A -> A) d x l : upd (S k) g d (x :: l) = x :: upd k g d l.
Proof. reflexivity. Qed.
Lemma upd_map_seq {A} (F : nat -> A) (g : A -> A) d k n : (k < n)%nat ->
  upd k g d (map F (seq 0 n)) = map (fun i => if Nat.eqb i k then g (F k) else F i) (seq 0 n).
Proof.
  revert F k; induction n as [|n IH]; intros F k Hk; [lia|].
  cbn [seq map]. destruct k as [|k].
  - unfold upd. cbn [firstn nth skipn app Nat.eqb]. f_equal.
    rewrite <- seq_shift, !map_map. reflexivity.
  - rewrite upd_cons. cbn [Nat.eqb]. f_equal.
    rewrite <- seq_shift, !map_map. rewrite (IH (fun i => F (S i)) k) by lia. reflexivity.
Qed.

(* ---------- the scatter ---------- *)
Section Scatter.
Variable offs : list nat.
Variable n : nat.
Notation off i := (nth i offs O).
Notation txt r i := (nth i r (@nil Z)).

Definition tmpl (r : list (list Z)) (i : nat) : list Z :=
  repeat 0 (Z.to_nat (len (txt r i) + 1 + Z.of_nat (off i))).
Definition cell (r : list (list Z)) (i : nat) : list Z := repeat 0 (off i) ++ txt r i ++ [0].
Definition mixed (k : nat) (r : list (list Z)) : list (list Z) :=
  map (fun i => if Nat.ltb i k then cell r i else tmpl r i) (seq 0 n).
Definition cells (r : list (list Z)) : list (list Z) := map (cell r) (seq 0 n).

Lemma columns_length rows : length (columns n rows) = n.
Proof. unfold columns. rewrite map_length, seq_length. reflexivity. Qed.
Lemma columns_nth rows i : (i < n)%nat -> nth i (columns n rows) [] = map (fun r => txt r i) rows.
Proof.
  intros Hi. unfold columns.
  set (F := fun i0 : nat => map (fun r : list (list Z) => txt r i0) rows).
  transitivity (nth i (map F (seq 0 n)) (F O)).
  - apply nth_indep. rewrite map_length, seq_length. lia.
  - rewrite map_nth, seq_nth by lia. reflexivity.
Qed.

Lemma template_lines rows :
  template (line_lengths offs (columns n rows) (length rows)) = concat (map (mixed 0) rows).
Proof.
  unfold line_lengths, template, m_line_len. rewrite columns_length.
  rewrite concat_map_flat_map, concat_map, map_map.
  rewrite <- (map_seq_nth (mixed 0) [] rows). f_equal.
  apply map_ext. intros r. unfold mixed. rewrite map_map. apply map_ext_in. intros i Hi.
  apply in_seq in Hi. cbn [Nat.ltb Nat.leb]. unfold tmpl. rewrite columns_nth by lia.
  set (G := fun r0 : list (list Z) => txt r0 i).
  transitivity (repeat 0 (Z.to_nat (len (nth r (map G rows) (G [])) + 1 + Z.of_nat (off i)))).
  - do 4 f_equal. subst G. cbn beta. destruct i; reflexivity.
  - rewrite map_nth. reflexivity.
Qed.

Lemma mixed_length k r : length (mixed k r) = n.
Proof. unfold mixed. rewrite map_length, seq_length. reflexivity. Qed.

Lemma step_row k r : (k < n)%nat ->
  upd k (fun l => put_body (off k) l (txt r k)) [] (mixed k r) = mixed (S k) r.
Proof.
  intros Hk. unfold mixed. rewrite upd_map_seq by assumption.
  apply map_ext. intros i.
  destruct (Nat.eqb_spec i k) as [->|Hne].
  - rewrite Nat.ltb_irrefl. replace (k <? S k)%nat with true by (symmetry; apply Nat.ltb_lt; lia).
    apply put_body_template.
  - destruct (Nat.ltb_spec i k), (Nat.ltb_spec i (S k)); try lia; reflexivity.
Qed.

Lemma step_lines k rows : (k < n)%nat ->
  put_stride k n (off k) (concat (map (mixed k) rows)) (nth k (columns n rows) [])
  = concat (map (mixed (S k)) rows).
Proof.
  intros Hk. rewrite columns_nth by assumption.
  rewrite put_stride_rows.
  - rewrite combine_map_same, map_map. f_equal. apply map_ext. intros r. cbn [fst snd]. apply step_row, Hk.
  - exact Hk.
  - apply Forall_forall. intros rl Hrl. apply in_map_iff in Hrl. destruct Hrl as [r [<- _]]. apply mixed_length.
  - rewrite !map_length. reflexivity.
Qed.

Lemma fold_lines rows m : forall k, (k + m = n)%nat ->
  fold_left (fun lines i => put_stride i n (off i) lines (nth i (columns n rows) []))
            (seq k m) (concat (map (mixed k) rows))
  = concat (map (mixed n) rows).
Proof.
  induction m as [|m IH]; intros k Hk.
  - cbn. replace k with n by lia. reflexivity.
  - cbn [seq fold_left]. rewrite step_lines by lia. apply IH. lia.
Qed.

Lemma mixed_n r : mixed n r = cells r.
Proof.
  unfold mixed, cells. apply map_ext_in. intros i Hi. apply in_seq in Hi.
  replace (i <? n)%nat with true by (symmetry; apply Nat.ltb_lt; lia). reflexivity.
Qed.

Theorem scatter_cells rows :
  scatter offs (columns n rows) (length rows) = concat (map cells rows).
Proof.
  unfold scatter. rewrite columns_length, template_lines.
  rewrite (fold_lines rows n 0) by lia.
  f_equal. apply map_ext. apply mixed_n.
Qed.
End Scatter.

(* ---------- dump_csv.join_columns ---------- *)
Lemma set_last_snoc v x y : set_last v (x ++ [y]) = x ++ [v].
Proof. unfold set_last. rewrite removelast_last. reflexivity. Qed.

Lemma nth_repeat_O i n : nth i (repeat O n) O = O.
Proof. revert i; induction n as [|n IH]; intros [|i]; cbn; auto. Qed.

Definition text_line (r : list (list Z)) : list Z := intercalate [9] r ++ [10].

Lemma concat_upd_last (r : list (list Z)) : r <> [] ->
  concat (upd (length r - 1) (set_last 10) [] (map (fun t => t ++ [9]) r)) = text_line r.
Proof.
  unfold text_line. induction r as [|t r IH]; intros Hne; [congruence|].
  destruct r as [|t' r].
  - unfold upd. cbn [length Nat.sub firstn nth skipn map app concat intercalate].
    rewrite set_last_snoc, app_nil_r. reflexivity.
  - replace (length (t :: t' :: r) - 1)%nat with (S (length (t' :: r) - 1)) by (cbn; lia).
    cbn [map]. rewrite upd_cons. cbn [concat]. rewrite <- (map_cons (fun t => t ++ [9])).
    rewrite IH by discriminate.
    cbn [intercalate]. rewrite <- !app_assoc. reflexivity.
Qed.

(* the cells of one row, each with its separator, the last with the line end *)
Definition row_lines (r : list (list Z)) : list (list Z) :=
  upd (length r - 1) (set_last 10) [] (map (fun t => t ++ [9]) r).

Theorem join_lines_rows (n : nat) (rows : list (list (list Z))) :
  (1 <= n)%nat -> Forall (fun r => length r = n) rows ->
  join_lines (columns n rows) (length rows) = concat (map row_lines rows).
Proof.
  intros Hn Hrows. unfold join_lines, m_sep, m_newline, m_join_nl_start. rewrite columns_length.
  rewrite scatter_cells.
  rewrite concat_map, map_map.
  rewrite map_stride_rows.
  - rewrite map_map. f_equal. apply map_ext_in. intros r Hr.
    rewrite Forall_forall in Hrows. specialize (Hrows r Hr).
    assert (Hc : map (set_last 9) (cells (repeat O n) n r) = map (fun t => t ++ [9]) r).
    { unfold cells, cell. rewrite map_map. rewrite <- Hrows.
      rewrite <- (map_seq_nth (fun t => t ++ [9]) [] r). apply map_ext. intros i.
      rewrite nth_repeat_O. cbn [repeat app]. rewrite set_last_snoc. reflexivity. }
    rewrite Hc. unfold row_lines. rewrite Hrows. reflexivity.
  - lia.
  - apply Forall_forall. intros rl Hrl. apply in_map_iff in Hrl. destruct Hrl as [r [<- _]].
    rewrite map_length. unfold cells. rewrite map_length, seq_length. reflexivity.
Qed.

Theorem join_columns_rows (n : nat) (rows : list (list (list Z))) :
  (1 <= n)%nat -> Forall (fun r => length r = n) rows ->
  join_columns (columns n rows) (length rows) = concat (map text_line rows).
Proof.
  intros Hn Hrows. unfold join_columns. rewrite join_lines_rows by assumption.
  rewrite concat_concat', map_map. f_equal. apply map_ext_in. intros r Hr.
  rewrite Forall_forall in Hrows. specialize (Hrows r Hr).
  apply concat_upd_last. destruct r; [cbn in Hrows; lia|discriminate].
Qed.

(* ---------- FastQBuffer.join_fields ---------- *)
Definition fastq_rec (n s q : list Z) : list Z := [64] ++ n ++ [10] ++ s ++ [10; 43; 10] ++ q ++ [10].

Theorem fastq_join_rows (rows : list (list (list Z))) :
  Forall (fun r => exists nm s q, r = [nm; s; [43]; q]) rows ->
  concat (map (set_last 10) (map_stride (set_first 64) 0 4
            (scatter [1%nat; O; O; O] (columns 4 rows) (length rows))))
  = concat (map (fun r => fastq_rec (nth 0 r []) (nth 1 r []) (nth 3 r [])) rows).
Proof.
  intros Hrows. rewrite scatter_cells.
  rewrite map_stride_rows.
  - rewrite map_map, concat_map, map_map.
    rewrite concat_concat', map_map. f_equal. apply map_ext_in. intros r Hr.
    rewrite Forall_forall in Hrows. destruct (Hrows r Hr) as [nm [s [q ->]]].
    unfold cells, cell, upd, fastq_rec. cbn [seq map nth repeat app firstn skipn set_first tl concat].
    unfold set_first. cbn [tl]. rewrite !set_last_snoc.
    replace (64 :: nm ++ [0]) with ((64 :: nm) ++ [0]) by reflexivity. rewrite set_last_snoc.
    replace ([43; 0]) with ([43] ++ [0]) by reflexivity. rewrite set_last_snoc.
    cbn [app]. rewrite <- ?app_assoc. cbn [app]. rewrite ?app_nil_r. reflexivity.
  - lia.
  - apply Forall_forall. intros rl Hrl. apply in_map_iff in Hrl. destruct Hrl as [r [<- _]].
    unfold cells. rewrite map_length, seq_length. reflexivity.
Qed.

(* Proofs/C04_samjoin.v — SAMBuffer.join_fields (the repaired code): joining the 12 columns cell by cell and deleting, for
   every row whose tag cell is empty, the byte at cell_ends[row * n + n - 2] IS the model's rendering
   join_row repaired FSam (no separator before an empty 'extra' field), for any number of rows. *)
From Coq Require Import ZArith List Bool Lia.
From BNP Require Import Base.Prims Base.PrimsFacts Model.C04 Proofs.C04 Proofs.C04_raw Proofs.C04_crlf Proofs.C04_oneline.
Import ListNotations.
Open Scope Z_scope.

(* join_columns: every field followed by its separator (TAB, LF after the last column) *)
Definition sam_cells (flds : list (list Z)) : list (list Z) :=
  map (fun c => c ++ [TAB]) (removelast flds) ++ [last flds [] ++ [LF]].

(* the source algorithm, with the bridged helpers m_sam_tag_empty / m_sam_cell_ends / m_sam_drop_cell;
   lengths[n-1::n] is every_kth n (n-1) *)
Definition sam_join_src (n : nat) (rows : list (list (list Z))) : list Z :=
  let cells := concat (map sam_cells rows) in
  let lengths := map (fun c : list Z => len c) cells in
  let flat := concat cells in
  let no_tags := flatnonzero (map m_sam_tag_empty (every_kth n (n - 1) lengths)) in
  match no_tags with
  | [] => flat
  | _ => np_delete flat (map (fun r => nthZ (m_sam_cell_ends lengths) (m_sam_drop_cell r (Z.of_nat n))) no_tags)
  end.

(* ---- one row ---- *)
Lemma concat_tabbed A : A <> [] -> concat (map (fun c : list Z => c ++ [TAB]) A) = intercalate [TAB] A ++ [TAB].
Proof.
  induction A as [|c A IH]; intros Hn; [congruence|]. destruct A as [|c' A'].
  - simpl. rewrite app_nil_r. reflexivity.
  - rewrite map_cons, concat_cons, IH by discriminate. rewrite intercalate_cons2, <- !app_assoc. reflexivity.
Qed.

Lemma row_flat flds : flds <> [] -> concat (sam_cells flds) = intercalate [TAB] flds ++ [LF].
Proof.
  intros Hn. unfold sam_cells. rewrite concat_app. simpl concat. rewrite app_nil_r.
  rewrite (app_removelast_last [] Hn) at 3.
  destruct (removelast flds) as [|a A] eqn:E.
  - simpl. reflexivity.
  - rewrite concat_tabbed by discriminate.
    assert (G : forall (B : list (list Z)) x, B <> [] -> intercalate [TAB] (B ++ [x]) = intercalate [TAB] B ++ [TAB] ++ x).
    { induction B as [|b B IH]; intros x HB; [congruence|]. destruct B as [|b' B'].
      - reflexivity.
      - change ((b :: b' :: B') ++ [x]) with (b :: ((b' :: B') ++ [x])).
        destruct ((b' :: B') ++ [x]) as [|q Q] eqn:EQ; [discriminate|].
        rewrite intercalate_cons2, <- EQ, IH by discriminate. rewrite intercalate_cons2, <- !app_assoc. reflexivity. }
    rewrite G by discriminate. rewrite <- !app_assoc. reflexivity.
Qed.

Lemma drop_empty_last_snoc A (x : list Z) : drop_empty_last (A ++ [x]) = match x with [] => A | _ => A ++ [x] end.
Proof. unfold drop_empty_last. rewrite rev_app_distr. simpl. destruct x; [apply rev_involutive|reflexivity]. Qed.

Definition row_join (flds : list (list Z)) : list Z := join_row repaired FSam flds.

Lemma row_join_eq flds : (2 <= length flds)%nat ->
  row_join flds = match last flds [] with
                  | [] => intercalate [TAB] (removelast flds) ++ [LF]
                  | _ => concat (sam_cells flds)
                  end.
Proof.
  intros Hl. assert (Hn : flds <> []) by (destruct flds; simpl in *; [lia|discriminate]).
  unfold row_join, join_row. cbn [v_samtab repaired].
  rewrite (app_removelast_last [] Hn) at 1. rewrite drop_empty_last_snoc.
  destruct (last flds []) eqn:E; [reflexivity|].
  rewrite row_flat by auto. rewrite <- E. rewrite <- (app_removelast_last [] Hn). reflexivity.
Qed.

(* deleting the TAB before the LF of a row without tags *)
Lemma delete_row_tab P idx A : A <> [] ->
  (forall j, P <= j < P + len (intercalate [TAB] A) + 2 -> (In j idx <-> j = P + len (intercalate [TAB] A))) ->
  delete_from P idx ((intercalate [TAB] A ++ [TAB]) ++ [LF]) = intercalate [TAB] A ++ [LF].
Proof.
  intros Hn H. set (I := intercalate [TAB] A) in *. pose proof (len_nonneg I).
  rewrite !delete_from_app. rewrite len_app. change (len [TAB]) with 1.
  rewrite (delete_from_none P idx I).
  - rewrite delete_from_hit by (apply H; lia).
    rewrite (delete_from_none (P + (len I + 1)) idx [LF]); [rewrite app_nil_r; reflexivity|].
    intros j Hj. change (len [LF]) with 1. destruct (Z_lt_ge_dec j (P + (len I + 1))); [lia|].
    destruct (Z_lt_ge_dec j (P + len I + 2)); [|lia]. apply H in Hj; lia.
  - intros j Hj. destruct (Z_lt_ge_dec j P); [lia|]. destruct (Z_lt_ge_dec j (P + len I)); [|lia].
    apply H in Hj; lia.
Qed.

(* ---- the table ---- *)
Definition flat_row (r : list (list Z)) : list Z := concat (sam_cells r).
Fixpoint dlist (P : Z) (rows : list (list (list Z))) : list Z :=
  match rows with
  | [] => []
  | r :: rs => (match last r [] with [] => [P + len (intercalate [TAB] (removelast r))] | _ => [] end)
               ++ dlist (P + len (flat_row r)) rs
  end.

Lemma dlist_ge rows : forall P j, In j (dlist P rows) -> P <= j.
Proof.
  induction rows as [|r rs IH]; intros P j H; [contradiction|]. simpl in H. apply in_app_or in H. destruct H as [H|H].
  - destruct (last r []); [|contradiction]. destruct H as [<-|[]]. pose proof (len_nonneg (intercalate [TAB] (removelast r))). lia.
  - apply IH in H. pose proof (len_nonneg (flat_row r)). lia.
Qed.

Lemma flat_row_empty r : (2 <= length r)%nat -> last r [] = [] ->
  flat_row r = (intercalate [TAB] (removelast r) ++ [TAB]) ++ [LF].
Proof.
  intros Hl He. unfold flat_row, sam_cells. rewrite He, concat_app. simpl concat.
  rewrite concat_tabbed; [reflexivity|].
  destruct r as [|a [|b r']]; simpl in *; try lia; discriminate.
Qed.

Lemma delete_table rows : forall P pre, Forall (fun r : list (list Z) => (2 <= length r)%nat) rows ->
  (forall j, In j pre -> j < P) ->
  delete_from P (pre ++ dlist P rows) (concat (map flat_row rows)) = concat (map row_join rows).
Proof.
  induction rows as [|r rs IH]; intros P pre H Hpre; [reflexivity|].
  inversion H as [|? ? Hr Hrs]; subst. cbn [map concat dlist]. rewrite delete_from_app.
  set (own := match last r [] with [] => [P + len (intercalate [TAB] (removelast r))] | _ => [] end).
  pose proof (len_nonneg (flat_row r)) as HL.
  f_equal.
  - rewrite row_join_eq by auto. destruct (last r []) as [|y ys] eqn:E.
    + rewrite (flat_row_empty r Hr E). pose proof (flat_row_empty r Hr E) as Hfl.
      assert (Hlen : len (flat_row r) = len (intercalate [TAB] (removelast r)) + 2).
      { rewrite Hfl, !len_app. change (len [TAB]) with 1. change (len [LF]) with 1. lia. }
      apply delete_row_tab.
      * destruct r as [|a [|b r']]; simpl in *; try lia; discriminate.
      * intros j Hj. split.
        -- intros Hin. apply in_app_or in Hin. destruct Hin as [Hin|Hin]; [apply Hpre in Hin; lia|].
           unfold own in Hin. apply in_app_or in Hin. destruct Hin as [[<-|[]]|Hin]; [reflexivity|].
           apply dlist_ge in Hin. rewrite <- Hfl in Hin. lia.
        -- intros ->. apply in_or_app. right. apply in_or_app. left. left. reflexivity.
    + apply delete_from_none. intros j Hj. apply in_app_or in Hj. destruct Hj as [Hj|Hj]; [left; apply Hpre; auto|].
      unfold own in Hj. simpl in Hj. apply dlist_ge in Hj. right. fold (flat_row r). lia.
  - rewrite app_assoc. apply IH; auto. intros j Hj. apply in_app_or in Hj. destruct Hj as [Hj|Hj]; [apply Hpre in Hj; lia|].
    unfold own in Hj. destruct (last r []) eqn:E; [|contradiction]. destruct Hj as [<-|[]].
    rewrite (flat_row_empty r Hr E), !len_app. change (len [TAB]) with 1. change (len [LF]) with 1. lia.
Qed.

(* ---- which rows have no tags, and where their separators are: the source's index arithmetic ---- *)
Lemma every_kth_last k (bs : list (list Z)) : forall rest, (1 <= k)%nat -> Forall (fun b => length b = k) bs ->
  every_kth k (k - 1) (concat bs ++ rest) = map (fun b => last b 0) bs ++ every_kth k (k - 1) rest.
Proof.
  induction bs as [|b bs IH]; intros rest Hk H; [reflexivity|].
  apply Forall_cons_iff in H. destruct H as (Hb & Hbs).
  assert (Hn : b <> []) by (destruct b; simpl in *; [lia|discriminate]).
  destruct (exists_last Hn) as (B & y & ->). rewrite app_length in Hb. simpl in Hb.
  rewrite concat_cons, <- !app_assoc.
  rewrite every_kth_skip by lia.
  cbn [app every_kth map]. rewrite last_last. f_equal. apply IH; auto.
Qed.

Lemma length_sam_cells r : r <> [] -> length (sam_cells r) = length r.
Proof.
  intros Hn. unfold sam_cells. rewrite app_length, map_length, length_removelast''. simpl.
  destruct r; simpl in *; [congruence|lia].
Qed.

Lemma last_sam_cells r : last (map (fun c : list Z => len c) (sam_cells r)) 0 = len (last r []) + 1.
Proof.
  unfold sam_cells. rewrite map_app. cbn [map]. rewrite last_last. rewrite len_app. reflexivity.
Qed.

Definition lens_of (rows : list (list (list Z))) : list Z := map (fun c : list Z => len c) (concat (map sam_cells rows)).
Definition empt (r : list (list Z)) : bool := m_sam_tag_empty (len (last r []) + 1).

Lemma tags_rows n rows : (2 <= n)%nat -> Forall (fun r : list (list Z) => length r = n) rows ->
  every_kth n (n - 1) (lens_of rows) = map (fun r => len (last r []) + 1) rows.
Proof.
  intros Hn H. unfold lens_of. rewrite concat_map, map_map.
  pose proof (every_kth_last n (map (fun r => map (fun c : list Z => len c) (sam_cells r)) rows) [] ltac:(lia)) as G.
  rewrite app_nil_r in G. rewrite G.
  - assert (E : every_kth n (n - 1) (@nil Z) = []) by (destruct n; reflexivity). rewrite E, app_nil_r, map_map.
    apply map_ext. intros r. apply last_sam_cells.
  - rewrite Forall_map. eapply Forall_impl; [|exact H]. intros r Hr. rewrite map_length, length_sam_cells; auto.
    destruct r; simpl in *; [lia|discriminate].
Qed.

Lemma cumsum_from_app l1 : forall P l2, cumsum_from P (l1 ++ l2) = cumsum_from P l1 ++ cumsum_from (P + sumZ l1) l2.
Proof.
  induction l1 as [|x l1 IH]; intros P l2; simpl.
  - f_equal. lia.
  - f_equal. rewrite IH. f_equal. f_equal. lia.
Qed.
Lemma length_cumsum_from l : forall P, length (cumsum_from P l) = length l.
Proof. induction l; intros; simpl; auto. Qed.
Lemma last_cumsum_from l : forall P, l <> [] -> last (cumsum_from P l) 0 = P + sumZ l.
Proof.
  induction l as [|x l IH]; intros P Hn; [congruence|]. destruct l as [|y l'].
  - simpl. lia.
  - change (cumsum_from P (x :: y :: l')) with ((P + x) :: cumsum_from (P + x) (y :: l')).
    change (last ((P + x) :: cumsum_from (P + x) (y :: l')) 0) with (last (cumsum_from (P + x) (y :: l')) 0).
    rewrite IH by discriminate. simpl. lia.
Qed.
Lemma sum_lens (cells : list (list Z)) : sumZ (map (fun c : list Z => len c) cells) = len (concat cells).
Proof. induction cells as [|c cells IH]; [reflexivity|]. simpl. rewrite len_app, IH. reflexivity. Qed.

Lemma flatnonzero_from_ge l : forall i j, In j (flatnonzero_from i l) -> i <= j.
Proof.
  induction l as [|b l IH]; intros i j H; [contradiction|]. simpl in H. apply in_app_or in H. destruct H as [H|H].
  - destruct b; [destruct H as [<-|[]]; lia|contradiction].
  - apply IH in H. lia.
Qed.

Lemma drop_positions n rows : forall rho0 P, (2 <= n)%nat -> Forall (fun r : list (list Z) => length r = n) rows ->
  map (fun rho => nthZ (map (fun c => c - 1) (cumsum_from P (lens_of rows))) ((rho - rho0) * Z.of_nat n + (Z.of_nat n - 2)))
      (flatnonzero_from rho0 (map empt rows))
  = dlist P rows.
Proof.
  induction rows as [|r rs IH]; intros rho0 P Hn H; [reflexivity|].
  inversion H as [|? ? Hr Hrs]; subst.
  assert (Hne : r <> []) by (destruct r; simpl in *; [lia|discriminate]).
  assert (Hlens : lens_of (r :: rs) = map (fun c : list Z => len c) (sam_cells r) ++ lens_of rs).
  { unfold lens_of. rewrite map_cons, concat_cons, map_app. reflexivity. }
  set (lr := map (fun c : list Z => len c) (sam_cells r)) in *.
  assert (Hlr : length lr = length r) by (unfold lr; rewrite map_length; apply length_sam_cells; auto).
  assert (Hsum : sumZ lr = len (flat_row r)) by (unfold lr, flat_row; apply sum_lens).
  rewrite Hlens, cumsum_from_app, map_app.
  cbn [map flatnonzero_from dlist]. rewrite map_app. f_equal.
  - (* the row itself *)
    unfold empt, m_sam_tag_empty. destruct (last r []) as [|y ys] eqn:E.
    + change (len (@nil Z) + 1 =? 1) with true. cbn [map]. f_equal.
      replace ((rho0 - rho0) * Z.of_nat (length r) + (Z.of_nat (length r) - 2)) with (Z.of_nat (length r - 2)) by lia.
      unfold nthZ. rewrite Nat2Z.id. rewrite app_nth1 by (rewrite map_length, length_cumsum_from, Hlr; lia).
      (* cell n-2 is the last cell of the tab-terminated part *)
      unfold lr, sam_cells. rewrite E, map_app, cumsum_from_app, map_app.
      set (la := map (fun c : list Z => len c) (map (fun c : list Z => c ++ [TAB]) (removelast r))).
      assert (Hla : length la = (length r - 1)%nat) by (unfold la; rewrite !map_length, length_removelast''; reflexivity).
      assert (Hlan : la <> []) by (intro Q; rewrite Q in Hla; simpl in Hla; lia).
      rewrite app_nth1 by (rewrite map_length, length_cumsum_from, Hla; lia).
      set (M := map (fun c => c - 1) (cumsum_from P la)).
      assert (HM : length M = (length r - 1)%nat) by (unfold M; rewrite map_length, length_cumsum_from, Hla; reflexivity).
      replace (length r - 2)%nat with (length M - 1)%nat by lia. unfold M.
      rewrite <- (last_nth (map (fun c => c - 1) (cumsum_from P la)) 0).
      assert (Hcn : cumsum_from P la <> []) by (destruct la; [congruence|discriminate]).
      rewrite (app_removelast_last 0 Hcn), map_app. cbn [map]. rewrite last_last.
      rewrite last_cumsum_from by auto. unfold la. rewrite sum_lens, concat_tabbed.
      * rewrite len_app. change (len [TAB]) with 1. lia.
      * destruct r as [|a [|b r']]; simpl in *; try lia; discriminate.
    + replace (len (y :: ys) + 1 =? 1) with false; [reflexivity|].
      symmetry. apply Z.eqb_neq. rewrite len_cons. pose proof (len_nonneg ys). lia.
  - (* the following rows: indices shift by one row of cells *)
    rewrite <- (IH (rho0 + 1) (P + len (flat_row r)) Hn Hrs). rewrite Hsum.
    apply map_ext_in. intros rho Hrho. apply flatnonzero_from_ge in Hrho.
    unfold nthZ. rewrite app_nth2 by (rewrite map_length, length_cumsum_from, Hlr; nia).
    rewrite map_length, length_cumsum_from, Hlr. f_equal. nia.
Qed.

Theorem sam_join_src_correct n rows : (2 <= n)%nat -> Forall (fun r : list (list Z) => length r = n) rows ->
  sam_join_src n rows = concat (map (join_row repaired FSam) rows).
Proof.
  intros Hn H. unfold sam_join_src.
  fold (lens_of rows). rewrite tags_rows by auto.
  assert (Hflat : concat (concat (map sam_cells rows)) = concat (map flat_row rows)).
  { clear. induction rows as [|r rs IH]; [reflexivity|]. simpl. rewrite concat_app, IH. reflexivity. }
  rewrite Hflat.
  assert (Hlen2 : Forall (fun r : list (list Z) => (2 <= length r)%nat) rows) by (eapply Forall_impl; [|exact H]; intros r Hr; cbn beta in *; lia).
  assert (Hempt : map m_sam_tag_empty (map (fun r : list (list Z) => len (last r []) + 1) rows) = map empt rows)
    by (rewrite map_map; reflexivity).
  rewrite Hempt.
  pose proof (drop_positions n rows 0 0 Hn H) as D.
  assert (HD : map (fun r => nthZ (m_sam_cell_ends (lens_of rows)) (m_sam_drop_cell r (Z.of_nat n))) (flatnonzero (map empt rows))
               = dlist 0 rows).
  { rewrite <- D. apply map_ext. intros rho. unfold m_sam_cell_ends, m_sam_drop_cell, cumsum. f_equal. lia. }
  pose proof (delete_table rows 0 [] Hlen2 ltac:(intros j [])) as T. simpl app in T.
  change (map row_join rows) with (map (join_row repaired FSam) rows) in T.
  destruct (flatnonzero (map empt rows)) eqn:E.
  - simpl in HD. rewrite <- HD in T. rewrite <- T. symmetry. apply delete_from_none. intros j [].
  - rewrite HD. exact T.
Qed.

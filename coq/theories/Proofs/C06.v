(* Proofs/C06.v — lemmas and main proofs for C06 (alphabet encodings). *)
From Coq Require Import ZArith List Bool Lia Arith.
From BNP Require Import Base.Prims Base.PrimsFacts Model.C06.
Import ListNotations.
Open Scope Z_scope.

(* ------------------------------------------------------------------ small facts *)
Lemma zlist_eqb_eq a b : zlist_eqb a b = true <-> a = b.
Proof.
  unfold zlist_eqb. revert b. induction a as [|x a IH]; intros [|y b]; simpl; split; intro H;
    try reflexivity; try discriminate.
  - apply andb_true_iff in H as [H1 H2]. apply Z.eqb_eq in H1. apply IH in H2. congruence.
  - inversion H; subst. rewrite Z.eqb_refl. simpl. apply IH. reflexivity.
Qed.

Lemma zll_eqb_eq a b : zll_eqb a b = true <-> a = b.
Proof.
  unfold zll_eqb. revert b. induction a as [|x a IH]; intros [|y b]; simpl; split; intro H;
    try reflexivity; try discriminate.
  - apply andb_true_iff in H as [H1 H2]. apply zlist_eqb_eq in H1. apply IH in H2. congruence.
  - inversion H; subst. apply andb_true_iff. split. apply zlist_eqb_eq; reflexivity. apply IH. reflexivity.
Qed.

Lemma upper_lower_fixed a : upper a = a -> upper (lower a) = a.
Proof.
  unfold upper, lower. intros H.
  destruct ((65 <=? a) && (a <=? 90)) eqn:E.
  - apply andb_true_iff in E as [E1 E2]. apply Z.leb_le in E1, E2.
    replace ((97 <=? a + 32) && (a + 32 <=? 122)) with true. lia.
    symmetry. apply andb_true_iff. split; apply Z.leb_le; lia.
  - exact H.
Qed.

Lemma upper_idem c : upper (upper c) = upper c.
Proof.
  unfold upper. destruct ((97 <=? c) && (c <=? 122)) eqn:E; [|rewrite E; reflexivity].
  apply andb_true_iff in E as [E1 E2]. apply Z.leb_le in E1, E2.
  replace ((97 <=? c - 32) && (c - 32 <=? 122)) with false. reflexivity.
  symmetry. apply andb_false_iff. left. apply Z.leb_gt. lia.
Qed.

Lemma member_In A c : member A c = true <-> In (upper c) A.
Proof.
  unfold member. rewrite existsb_exists. split.
  - intros [x [Hx E]]. apply Z.eqb_eq in E. subst. exact Hx.
  - intros H. exists (upper c). split. exact H. apply Z.eqb_refl.
Qed.

(* ------------------------------------------------------------------ set_nth / scatter *)
Lemma set_nth_length i v l : length (set_nth i v l) = length l.
Proof. revert i. induction l as [|x l IH]; intros [|i]; simpl; auto. Qed.

Lemma set_nth_nth i v l j d : (i < length l)%nat ->
  nth j (set_nth i v l) d = if Nat.eqb j i then v else nth j l d.
Proof.
  revert i j. induction l as [|x l IH]; intros i j Hi; simpl in Hi. lia.
  destruct i as [|i]; destruct j as [|j]; simpl; auto.
  apply IH. lia.
Qed.

(* value written last at index c *)
Fixpoint last_val (c : Z) (idx vals : list Z) : option Z :=
  match idx, vals with
  | i :: idx', v :: vals' =>
      match last_val c idx' vals' with
      | Some w => Some w
      | None => if i =? c then Some v else None
      end
  | _, _ => None
  end.

Lemma scatter_length idx : forall vals tbl, length (scatter tbl idx vals) = length tbl.
Proof.
  induction idx as [|i idx IH]; intros [|v vals] tbl; simpl; auto.
  rewrite IH. apply set_nth_length.
Qed.

Lemma scatter_nth idx : forall vals tbl c,
  0 <= c -> Forall (fun i => 0 <= i < len tbl) idx ->
  nthZ (scatter tbl idx vals) c = match last_val c idx vals with Some v => v | None => nthZ tbl c end.
Proof.
  induction idx as [|i idx IH]; intros [|v vals] tbl c Hc Hf; simpl; auto.
  inversion Hf as [|? ? Hi Hf']; subst.
  rewrite IH; auto.
  - destruct (last_val c idx vals) as [w|]; auto.
    unfold nthZ. rewrite set_nth_nth by (unfold len in Hi; lia).
    destruct (i =? c) eqn:E.
    + apply Z.eqb_eq in E. subst. rewrite Nat.eqb_refl. reflexivity.
    + apply Z.eqb_neq in E. replace (Nat.eqb (Z.to_nat c) (Z.to_nat i)) with false. reflexivity.
      symmetry. apply Nat.eqb_neq. lia.
  - unfold len in *. rewrite set_nth_length. exact Hf'.
Qed.

Lemma last_val_arange_some c idx : forall j v,
  last_val c idx (arange_from j (length idx)) = Some v ->
  j <= v < j + len idx /\ nth (Z.to_nat (v - j)) idx 0 = c.
Proof.
  induction idx as [|i idx IH]; intros j v H; simpl in H. discriminate.
  destruct (last_val c idx (arange_from (j + 1) (length idx))) as [w|] eqn:E.
  - inversion H; subst. apply IH in E as [E1 E2]. rewrite len_cons. split. lia.
    replace (Z.to_nat (v - j)) with (S (Z.to_nat (v - (j + 1)))) by lia. exact E2.
  - destruct (i =? c) eqn:Ei; [|discriminate]. inversion H; subst. apply Z.eqb_eq in Ei.
    rewrite len_cons. pose proof (len_nonneg idx). split. lia.
    replace (v - v) with 0 by lia. exact Ei.
Qed.

Lemma last_val_arange_none c idx : forall j,
  last_val c idx (arange_from j (length idx)) = None -> ~ In c idx.
Proof.
  induction idx as [|i idx IH]; intros j H; simpl in *. tauto.
  destruct (last_val c idx (arange_from (j + 1) (length idx))) as [w|] eqn:E. discriminate.
  destruct (i =? c) eqn:Ei. discriminate. apply Z.eqb_neq in Ei.
  intros [H1|H1]. contradiction. eapply IH; eauto.
Qed.

(* ------------------------------------------------------------------ well-formedness *)
(* the lower-case table is right at c: it only maps c to a member equal to upper c, and it contains
   every lower-case spelling of a member *)
Definition table_ok_at (L : list Z -> list Z) (A : list Z) (c : Z) : Prop :=
  (forall j, 0 <= j < len A -> nthZ (L A) j = c -> nthZ A j = upper c)
  /\ (member A c = true -> In c A \/ In c (L A)).
Definition table_wf (L : list Z -> list Z) (A : list Z) : Prop :=
  length (L A) = length A /\ Forall (fun i => 0 <= i < 256) (L A).

Lemma nthZ_In (l : list Z) j : 0 <= j < len l -> In (nthZ l j) l.
Proof. intros H. unfold nthZ. apply nth_In. unfold len in H. lia. Qed.

Lemma In_nthZ (l : list Z) x : In x l -> exists j, 0 <= j < len l /\ nthZ l j = x.
Proof.
  intros H. apply (In_nth _ _ 0) in H as [n [Hn E]]. exists (Z.of_nat n). unfold len, nthZ.
  rewrite Nat2Z.id. split. lia. exact E.
Qed.

Lemma alphabet_ok_member A a : alphabet_ok A -> In a A -> 0 <= a < 128 /\ upper a = a.
Proof. intros [_ H] Hi. rewrite Forall_forall in H. apply H. exact Hi. Qed.

Lemma nth_repeat_lt {T} (a d : T) m : forall n, (n < m)%nat -> nth n (repeat a m) d = a.
Proof. induction m as [|m IH]; intros [|n] H; simpl; auto; try lia. apply IH. lia. Qed.

Lemma lookup_cases L A c : alphabet_ok A -> table_wf L A -> byte c ->
  lookup L A c =
    match last_val c (L A) (arange (len A)) with
    | Some v => v
    | None => match last_val c A (arange (len A)) with Some v => v | None => 255 end
    end.
Proof.
  intros [Hn HA] [Hl Hr] Hc. unfold lookup, build_lookup, byte in *.
  assert (HA' : Forall (fun i : Z => 0 <= i < len (repeat invalid_code 256)) A).
  { rewrite Forall_forall in *. intros a Ha. apply HA in Ha. unfold len. rewrite repeat_length. simpl. lia. }
  rewrite scatter_nth; [|lia|].
  - destruct (last_val c (L A) (arange (len A))); auto.
    rewrite scatter_nth; [|lia|exact HA'].
    destruct (last_val c A (arange (len A))); auto.
    unfold nthZ. apply nth_repeat_lt. lia.
  - unfold len. rewrite scatter_length, repeat_length. exact Hr.
Qed.

(* T1, generic in the lower-case table *)
Lemma lookup_exact_gen L A c : alphabet_ok A -> table_wf L A -> byte c -> table_ok_at L A c ->
  (member A c = true -> 0 <= lookup L A c < len A /\ nthZ A (lookup L A c) = upper c)
  /\ (member A c = false -> lookup L A c = 255).
Proof.
  intros HA HW Hc [Hs Hcm]. rewrite (lookup_cases L A c HA HW Hc).
  destruct HW as [Hl Hr].
  assert (Ear : arange (len A) = arange_from 0 (length A)) by (unfold arange, len; rewrite Nat2Z.id; reflexivity).
  rewrite Ear.
  destruct (last_val c (L A) (arange_from 0 (length A))) as [v|] eqn:E1.
  - rewrite <- Hl in E1. apply last_val_arange_some in E1 as [R1 R2].
    assert (Rv : 0 <= v < len A) by (unfold len in *; lia).
    assert (Hm : nthZ A v = upper c).
    { apply Hs. exact Rv. unfold nthZ. replace (v - 0) with v in R2 by lia. exact R2. }
    assert (Mem : member A c = true). { apply member_In. rewrite <- Hm. apply nthZ_In. exact Rv. }
    split; intros H. split; assumption. congruence.
  - rewrite <- Hl in E1. apply last_val_arange_none in E1.
    destruct (last_val c A (arange_from 0 (length A))) as [v|] eqn:E2.
    + apply last_val_arange_some in E2 as [R1 R2]. replace (v - 0) with v in R2 by lia.
      assert (Rv : 0 <= v < len A) by lia.
      assert (Hin : In c A). { rewrite <- R2. apply nth_In. unfold len in Rv. lia. }
      destruct (alphabet_ok_member A c HA Hin) as [_ Hu].
      assert (Mem : member A c = true). { apply member_In. rewrite Hu. exact Hin. }
      split; intros H. split. exact Rv. unfold nthZ. rewrite R2. auto. congruence.
    + apply last_val_arange_none in E2. split; intros H.
      * destruct (Hcm H); contradiction.
      * reflexivity.
Qed.

(* the repaired table (c.lower() of every member) is right at every byte *)
Lemma lower_fixed_wf A : alphabet_ok A -> table_wf lower_fixed A.
Proof.
  intros [_ HA]. split. unfold lower_fixed. apply map_length.
  unfold lower_fixed. rewrite Forall_forall in *. intros x Hx. apply in_map_iff in Hx as [a [E Ha]].
  apply HA in Ha as [Ha _]. subst. unfold lower. destruct ((65 <=? a) && (a <=? 90)); lia.
Qed.

Lemma nthZ_map_in (f : Z -> Z) A j : 0 <= j < len A -> nthZ (map f A) j = f (nthZ A j).
Proof.
  intros H. unfold nthZ. rewrite (nth_indep _ 0 (f 0)).
  apply map_nth. rewrite map_length. unfold len in H. lia.
Qed.

Lemma member_lower_case A c : alphabet_ok A -> member A c = true -> In c A \/ In c (map lower A).
Proof.
  intros HA H. apply member_In in H. unfold upper in H.
  destruct ((97 <=? c) && (c <=? 122)) eqn:E.
  - right. apply in_map_iff. exists (c - 32). split; [|exact H].
    apply andb_true_iff in E as [E1 E2]. apply Z.leb_le in E1, E2. unfold lower.
    replace ((65 <=? c - 32) && (c - 32 <=? 90)) with true. lia.
    symmetry. apply andb_true_iff. split; apply Z.leb_le; lia.
  - left. exact H.
Qed.

Lemma lower_fixed_ok_at A c : alphabet_ok A -> table_ok_at lower_fixed A c.
Proof.
  intros HA. split.
  - intros j Hj E. unfold lower_fixed in E. rewrite nthZ_map_in in E by exact Hj.
    destruct (alphabet_ok_member A (nthZ A j) HA (nthZ_In A j Hj)) as [_ Hu].
    rewrite <- E. symmetry. apply upper_lower_fixed. exact Hu.
  - apply member_lower_case. exact HA.
Qed.

(* the table at HEAD (alphabet + 32) *)
Lemma lower_pinned_wf A : alphabet_ok A -> table_wf lower_pinned A.
Proof.
  intros _. split. unfold lower_pinned. apply map_length.
  unfold lower_pinned. rewrite Forall_forall. intros x Hx. apply in_map_iff in Hx as [a [E Ha]].
  subst. apply Z.mod_pos_bound. lia.
Qed.

Lemma lower_pinned_letter a : is_letter a = true -> (a + 32) mod 256 = lower a.
Proof.
  unfold is_letter, lower. intros H. rewrite H. apply andb_true_iff in H as [E1 E2].
  apply Z.leb_le in E1, E2. apply Z.mod_small. lia.
Qed.

Lemma lower_pinned_ok_at A c : alphabet_ok A -> ~ shifted_nonletter A c -> table_ok_at lower_pinned A c.
Proof.
  intros HA Hg. split.
  - intros j Hj E. unfold lower_pinned in E. rewrite nthZ_map_in in E by exact Hj.
    pose proof (nthZ_In A j Hj) as Hin.
    destruct (alphabet_ok_member A (nthZ A j) HA Hin) as [_ Hu].
    destruct (is_letter (nthZ A j)) eqn:El.
    + rewrite lower_pinned_letter in E by exact El. rewrite <- E. symmetry.
      apply upper_lower_fixed. exact Hu.
    + exfalso. apply Hg. exists (nthZ A j). auto.
  - intros H. destruct (member_lower_case A c HA H) as [H1|H1]. left; exact H1.
    apply in_map_iff in H1 as [a [E Ha]]. unfold lower in E.
    destruct ((65 <=? a) && (a <=? 90)) eqn:El.
    + right. unfold lower_pinned. apply in_map_iff. exists a. split; [|exact Ha].
      rewrite lower_pinned_letter by exact El. unfold lower. rewrite El. exact E.
    + left. subst c. exact Ha.
Qed.

(* ------------------------------------------------------------------ strings *)
Fixpoint first_idx (p : Z -> bool) (l : list Z) (i : Z) : option Z :=
  match l with [] => None | x :: r => if p x then Some i else first_idx p r (i + 1) end.

Lemma flatnonzero_first (f : Z -> bool) l : forall i,
  match first_idx f l i with
  | Some o => exists tl, flatnonzero_from i (map f l) = o :: tl
  | None => flatnonzero_from i (map f l) = []
  end.
Proof.
  induction l as [|x l IH]; intros i; simpl. reflexivity.
  destruct (f x); simpl. eexists; reflexivity. apply IH.
Qed.

Lemma existsb_map_ext (q p : Z -> bool) (f : Z -> Z) s :
  (forall x, In x s -> q (f x) = p x) -> existsb q (map f s) = existsb p s.
Proof.
  induction s as [|x s IH]; intros H; simpl. reflexivity.
  rewrite H by (left; reflexivity). rewrite IH. reflexivity. intros y Hy. apply H. right. exact Hy.
Qed.

Lemma first_idx_map_ext (q p : Z -> bool) (f : Z -> Z) s : forall i,
  (forall x, In x s -> q (f x) = p x) -> first_idx q (map f s) i = first_idx p s i.
Proof.
  induction s as [|x s IH]; intros i H; simpl. reflexivity.
  rewrite H by (left; reflexivity). rewrite IH. reflexivity. intros y Hy. apply H. right. exact Hy.
Qed.

Lemma first_idx_existsb p s : forall i,
  existsb p s = match first_idx p s i with Some _ => true | None => false end.
Proof.
  induction s as [|x s IH]; intros i; simpl. reflexivity.
  destruct (p x); simpl. reflexivity. apply IH.
Qed.

Lemma first_idx_some p s : forall i o, first_idx p s i = Some o ->
  i <= o < i + len s /\ p (nthZ s (o - i)) = true
  /\ forallb (fun c => negb (p c)) (firstn (Z.to_nat (o - i)) s) = true.
Proof.
  induction s as [|x s IH]; intros i o H; simpl in H. discriminate.
  rewrite len_cons. pose proof (len_nonneg s).
  destruct (p x) eqn:E.
  - inversion H; subst. replace (o - o) with 0 by lia. split. lia. split. exact E. reflexivity.
  - apply IH in H as [H1 [H2 H3]]. split. lia.
    replace (Z.to_nat (o - i)) with (S (Z.to_nat (o - (i + 1)))) by lia.
    unfold nthZ in *. replace (Z.to_nat (o - i)) with (S (Z.to_nat (o - (i + 1)))) by lia.
    simpl. rewrite E. simpl. split; assumption.
Qed.

Lemma first_idx_none p s : forall i, first_idx p s i = None -> forallb (fun c => negb (p c)) s = true.
Proof.
  induction s as [|x s IH]; intros i H; simpl in *. reflexivity.
  destruct (p x). discriminate. simpl. eapply IH. exact H.
Qed.

Definition chars_ok (L : list Z -> list Z) (A : list Z) (s : list Z) : Prop :=
  Forall (fun c => byte c /\ table_ok_at L A c) s.

Lemma lookup_reject L A c : alphabet_ok A -> table_wf L A -> byte c -> table_ok_at L A c ->
  (len A <=? lookup L A c) = negb (member A c) /\ (255 =? lookup L A c) = negb (member A c).
Proof.
  intros HA HW Hc Ht. destruct (lookup_exact_gen L A c HA HW Hc Ht) as [H1 H2].
  destruct HA as [Hn _]. destruct (member A c).
  - destruct (H1 eq_refl) as [R _]. unfold negb. split. apply Z.leb_gt. lia. apply Z.eqb_neq. lia.
  - rewrite (H2 eq_refl). unfold negb. split. apply Z.leb_le. lia. reflexivity.
Qed.

(* the encoder, for any lower-case table that is right at the characters of s *)
Lemma encode_flat_gen L A s : alphabet_ok A -> table_wf L A -> chars_ok L A s ->
  encode_flat L A s =
    match first_idx (fun c => negb (member A c)) s 0 with
    | Some o => EncErr o
    | None => Ok (map (lookup L A) s)
    end.
Proof.
  intros HA HW Hs. unfold encode_flat. cbv zeta.
  change (map (nthZ (build_lookup L A)) s) with (map (lookup L A) s).
  assert (P : forall x, In x s -> (len A <=? lookup L A x) = negb (member A x)
                                  /\ (255 =? lookup L A x) = negb (member A x)).
  { intros x Hx. unfold chars_ok in Hs. rewrite Forall_forall in Hs. destruct (Hs x Hx) as [Hb Ht].
    apply lookup_reject; assumption. }
  rewrite (existsb_map_ext (fun r => len A <=? r) (fun c => negb (member A c)) (lookup L A) s)
    by (intros x Hx; apply (P x Hx)).
  rewrite (first_idx_existsb _ s 0).
  unfold positions, flatnonzero, invalid_code.
  pose proof (flatnonzero_first (Z.eqb 255) (map (lookup L A) s) 0) as F.
  rewrite (first_idx_map_ext (Z.eqb 255) (fun c => negb (member A c)) (lookup L A) s 0) in F
    by (intros x Hx; apply (P x Hx)).
  destruct (first_idx (fun c => negb (member A c)) s 0).
  - destruct F as [tl F]. rewrite F. reflexivity.
  - reflexivity.
Qed.

Lemma decode_flat_spec A codes : decode_flat A codes = spec_decode A codes.
Proof. induction codes as [|k r IH]; simpl. reflexivity. rewrite IH. reflexivity. Qed.

Lemma negb_negb_forallb A s :
  forallb (fun c => negb (negb (member A c))) s = text_ok A s.
Proof. unfold text_ok. induction s as [|c s IH]; simpl. reflexivity. rewrite negb_involutive, IH. reflexivity. Qed.

Lemma decode_lookup L A s : alphabet_ok A -> table_wf L A -> chars_ok L A s -> text_ok A s = true ->
  spec_decode A (map (lookup L A) s) = Some (map upper s).
Proof.
  intros HA HW. induction s as [|c s IH]; intros Hs Ht; simpl. reflexivity.
  inversion Hs as [|? ? [Hb Hok] Hs']; subst. simpl in Ht. apply andb_true_iff in Ht as [T1 T2].
  destruct (lookup_exact_gen L A c HA HW Hb Hok) as [H1 _]. destruct (H1 T1) as [R E].
  replace ((0 <=? lookup L A c) && (lookup L A c <? len A)) with true.
  - rewrite IH by assumption. rewrite E. reflexivity.
  - symmetry. apply andb_true_iff. split. apply Z.leb_le. lia. apply Z.ltb_lt. lia.
Qed.

(* T3 for one flat text, generic in the table *)
Lemma encode_exact_gen L A s : alphabet_ok A -> table_wf L A -> chars_ok L A s ->
  (text_ok A s = true ->
     exists codes, encode_flat L A s = Ok codes /\ spec_decode A codes = Some (map upper s))
  /\ (text_ok A s = false ->
     exists o, encode_flat L A s = EncErr o /\ 0 <= o < len s /\ member A (nthZ s o) = false
               /\ text_ok A (firstn (Z.to_nat o) s) = true).
Proof.
  intros HA HW Hs. rewrite (encode_flat_gen L A s HA HW Hs).
  destruct (first_idx (fun c => negb (member A c)) s 0) as [o|] eqn:E.
  - apply first_idx_some in E as [R [Hm Hp]]. replace (o - 0) with o in * by lia.
    rewrite negb_negb_forallb in Hp. apply negb_true_iff in Hm.
    split; intros Ht.
    + exfalso. unfold text_ok in Ht. rewrite forallb_forall in Ht.
      assert (In (nthZ s o) s) by (apply nthZ_In; lia). rewrite Ht in Hm by assumption. discriminate.
    + exists o. repeat split; try lia; assumption.
  - apply first_idx_none in E. rewrite negb_negb_forallb in E. split; intros Ht.
    + exists (map (lookup L A) s). split. reflexivity. apply decode_lookup; assumption.
    + congruence.
Qed.

(* ------------------------------------------------------------------ rows *)
Lemma unflatten_concat (rows : list (list Z)) : unflatten (lens_of rows) (concat rows) = rows.
Proof.
  induction rows as [|r rows IH]; simpl. reflexivity.
  rewrite firstn_app, Nat.sub_diag, firstn_all. simpl. rewrite app_nil_r.
  rewrite skipn_app, Nat.sub_diag, skipn_all. simpl. rewrite IH. reflexivity.
Qed.

Lemma lens_of_map (f : Z -> Z) rows : lens_of (map (map f) rows) = lens_of rows.
Proof. unfold lens_of. rewrite map_map. apply map_ext. intros r. apply map_length. Qed.

Lemma unflatten_map (f : Z -> Z) rows :
  unflatten (lens_of rows) (map f (concat rows)) = map (map f) rows.
Proof. rewrite concat_map, <- (lens_of_map f rows). apply unflatten_concat. Qed.

Lemma text_ok_concat A rows : text_ok A (concat rows) = forallb (text_ok A) rows.
Proof.
  unfold text_ok. induction rows as [|r rows IH]; simpl. reflexivity.
  rewrite forallb_app, IH. reflexivity.
Qed.

Lemma chars_ok_concat L A rows : chars_ok L A (concat rows) -> Forall (chars_ok L A) rows.
Proof.
  unfold chars_ok. induction rows as [|r rows IH]; simpl; intros H. constructor.
  apply Forall_app in H as [H1 H2]. constructor. exact H1. apply IH. exact H2.
Qed.

Lemma spec_decode_rows_map L A rows : alphabet_ok A -> table_wf L A ->
  Forall (chars_ok L A) rows -> forallb (text_ok A) rows = true ->
  spec_decode_rows A (map (map (lookup L A)) rows) = Some (map (map upper) rows).
Proof.
  intros HA HW. induction rows as [|r rows IH]; intros Hc Ht; simpl. reflexivity.
  inversion Hc; subst. simpl in Ht. apply andb_true_iff in Ht as [T1 T2].
  rewrite decode_lookup by assumption. rewrite IH by assumption. reflexivity.
Qed.

Lemma member_ascii A c : alphabet_ok A -> member A c = true -> c < 128.
Proof.
  intros HA H. apply member_In in H. destruct (alphabet_ok_member A _ HA H) as [R _].
  unfold upper in R. destruct ((97 <=? c) && (c <=? 122)) eqn:E; [|lia].
  apply andb_true_iff in E as [_ E]. apply Z.leb_le in E. lia.
Qed.

Lemma no_high_byte A s : alphabet_ok A -> text_ok A s = true -> existsb (fun c => 128 <=? c) s = false.
Proof.
  intros HA. unfold text_ok. induction s as [|c s IH]; simpl; intros H. reflexivity.
  apply andb_true_iff in H as [H1 H2]. rewrite IH by assumption.
  apply (member_ascii A c HA) in H1. replace (128 <=? c) with false. reflexivity.
  symmetry. apply Z.leb_gt. lia.
Qed.

(* T3 for rows, every input route *)
Lemma encode_rows_gen L route A rows : alphabet_ok A -> table_wf L A -> chars_ok L A (concat rows) ->
  (forallb (text_ok A) rows = true ->
     exists codes, encode_rows L route A rows = (Ok codes, lens_of rows)
       /\ spec_decode_rows A (unflatten (lens_of rows) codes) = Some (map (map upper) rows))
  /\ (forallb (text_ok A) rows = false ->
     fst (encode_rows L route A rows) = Unicode
     \/ exists o, fst (encode_rows L route A rows) = EncErr o /\ 0 <= o < len (concat rows)
                  /\ member A (nthZ (concat rows) o) = false
                  /\ text_ok A (firstn (Z.to_nat o) (concat rows)) = true).
Proof.
  intros HA HW Hc. rewrite <- text_ok_concat. unfold encode_rows. split; intros Ht.
  - rewrite (no_high_byte A _ HA Ht), andb_false_r.
    rewrite (encode_flat_gen L A _ HA HW Hc).
    destruct (first_idx (fun c => negb (member A c)) (concat rows) 0) as [o|] eqn:E.
    + exfalso. apply first_idx_some in E as [R [Hm _]]. replace (o - 0) with o in * by lia.
      apply negb_true_iff in Hm. unfold text_ok in Ht. rewrite forallb_forall in Ht.
      rewrite Ht in Hm. discriminate. apply nthZ_In. lia.
    + exists (map (lookup L A) (concat rows)). split. reflexivity.
      rewrite unflatten_map. apply spec_decode_rows_map; try assumption.
      apply chars_ok_concat. exact Hc. rewrite <- text_ok_concat. exact Ht.
  - destruct (is_str_route route && existsb (fun c => 128 <=? c) (concat rows)). left; reflexivity.
    right. destruct (encode_exact_gen L A _ HA HW Hc) as [_ H]. destruct (H Ht) as [o [E R]].
    exists o. simpl. split; assumption.
Qed.

(* ------------------------------------------------------------------ re-targeting *)
Lemma maxl_ge l : forall d, d <= maxl d l /\ Forall (fun x => x <= maxl d l) l.
Proof.
  induction l as [|x l IH]; intros d; simpl. split. lia. constructor.
  destruct (IH (Z.max d x)) as [H1 H2]. split. lia. constructor. lia. exact H2.
Qed.

Lemma firstn_eq_nth (A B : list Z) : forall n k, firstn n A = firstn n B -> (k < n)%nat -> nth k A 0 = nth k B 0.
Proof.
  revert B. induction A as [|a A IH]; intros [|b B] [|n] [|k] H Hk; simpl in *; try lia; try discriminate; auto.
  - inversion H. reflexivity.
  - inversion H. eapply IH. eassumption. lia.
Qed.

Lemma spec_decode_agree A B codes :
  Forall (fun k => 0 <= k < len A /\ k < len B /\ nthZ A k = nthZ B k) codes ->
  exists t, spec_decode A codes = Some t /\ spec_decode B codes = Some t.
Proof.
  induction codes as [|k r IH]; intros H; simpl. exists []. auto.
  inversion H as [|? ? [R1 [R2 E]] H']; subst. destruct (IH H') as [t [E1 E2]].
  replace ((0 <=? k) && (k <? len A)) with true by (symmetry; apply andb_true_iff; split; [apply Z.leb_le|apply Z.ltb_lt]; lia).
  replace ((0 <=? k) && (k <? len B)) with true by (symmetry; apply andb_true_iff; split; [apply Z.leb_le|apply Z.ltb_lt]; lia).
  rewrite E1, E2, E. eexists. split; reflexivity.
Qed.

Lemma spec_decode_same A codes : Forall (fun k => 0 <= k < len A) codes -> exists t, spec_decode A codes = Some t.
Proof.
  intros H. destruct (spec_decode_agree A A codes) as [t [E _]]; [|eauto].
  eapply Forall_impl; [|exact H]. simpl. intros k R. repeat split; lia.
Qed.


(* core: prefixes of length n agree, every code is below n and below len B *)
Lemma retarget_core A B codes n : firstn n A = firstn n B ->
  Forall (fun k => 0 <= k < len A /\ k < Z.of_nat n /\ k < len B) codes ->
  exists t, spec_decode A codes = Some t /\ spec_decode B codes = Some t.
Proof.
  intros Hp Hf. apply spec_decode_agree. eapply Forall_impl; [|exact Hf]. simpl.
  intros k [R1 [R2 R3]]. repeat split; try lia. unfold nthZ. eapply firstn_eq_nth. exact Hp. lia.
Qed.

Lemma retarget_m_ge codes : Forall (fun k => k <= retarget_m codes) codes.
Proof.
  destruct codes as [|x r]. constructor.
  unfold retarget_m, m_retarget_m. rewrite len_cons. pose proof (len_nonneg r).
  replace (1 + len r >? 0) with true by (symmetry; apply Z.gtb_lt; lia).
  destruct (maxl_ge r x) as [M1 M2]. constructor; assumption.
Qed.

Lemma retarget_fixed_sound src dst codes codes' t :
  retarget RFixed src dst codes = Ok codes' -> dec src codes = Some t ->
  (forall raw, src = Alpha raw -> Forall (fun k => 0 <= k < len (alphabet_of raw)) codes) ->
  codes' = codes /\ dec dst codes' = Some t.
Proof.
  destruct src as [|ra], dst as [|rb]; simpl; intros H Hd Hw; try discriminate.
  - inversion H; subst. auto.
  - specialize (Hw ra eq_refl).
    destruct (zlist_eqb (alphabet_of ra) (alphabet_of rb)) eqn:E.
    + inversion H; subst. apply zlist_eqb_eq in E. rewrite <- E. auto.
    + unfold m_prefix_len, m_fits in H. set (m := retarget_m codes) in *.
      destruct (zlist_eqb (firstn (Z.to_nat (m + 1)) (alphabet_of ra)) (firstn (Z.to_nat (m + 1)) (alphabet_of rb))) eqn:Ep; [|discriminate].
      destruct (m <? len (alphabet_of rb)) eqn:Em; [|discriminate].
      inversion H; subst codes'. split. reflexivity.
      apply zlist_eqb_eq in Ep. apply Z.ltb_lt in Em.
      pose proof (retarget_m_ge codes) as M2. fold m in M2.
      destruct (retarget_core (alphabet_of ra) (alphabet_of rb) codes _ Ep) as [t' [E1 E2]].
      * rewrite Forall_forall in *. intros k Hk. specialize (Hw k Hk). specialize (M2 k Hk). simpl in M2. lia.
      * rewrite E1 in Hd. inversion Hd; subst. exact E2.
Qed.

(* the rule at HEAD is sound exactly when, in addition, the two alphabets agree at the largest code *)
Lemma retarget_pinned_sound ra rb codes codes' t :
  retarget RPinned (Alpha ra) (Alpha rb) codes = Ok codes' -> spec_decode (alphabet_of ra) codes = Some t ->
  Forall (fun k => 0 <= k < len (alphabet_of ra)) codes ->
  (forall x r, codes = x :: r -> nthZ (alphabet_of ra) (maxl x r) = nthZ (alphabet_of rb) (maxl x r)) ->
  codes' = codes /\ spec_decode (alphabet_of rb) codes' = Some t.
Proof.
  simpl. intros H Hd Hw Hg.
  destruct (zlist_eqb (alphabet_of ra) (alphabet_of rb)) eqn:E.
  - inversion H; subst. apply zlist_eqb_eq in E. rewrite <- E. auto.
  - destruct codes as [|x r]; [discriminate|]. set (m := maxl x r) in *.
    destruct (zlist_eqb (firstn (Z.to_nat m) (alphabet_of ra)) (firstn (Z.to_nat m) (alphabet_of rb))) eqn:Ep; [|discriminate].
    destruct (m <? len (alphabet_of rb)) eqn:Em; [|discriminate].
    inversion H; subst codes'. split. reflexivity.
    apply zlist_eqb_eq in Ep. apply Z.ltb_lt in Em. specialize (Hg x r eq_refl). fold m in Hg.
    destruct (maxl_ge r x) as [M1 M2]. fold m in M1, M2.
    destruct (spec_decode_agree (alphabet_of ra) (alphabet_of rb) (x :: r)) as [t' [E1 E2]].
    + assert (Hall : Forall (fun k => k <= m) (x :: r)) by (constructor; assumption).
      rewrite Forall_forall in *. intros k Hk. specialize (Hw k Hk). specialize (Hall k Hk). simpl in Hall.
      repeat split; try lia.
      destruct (Z.eq_dec k m) as [->|Hne]. exact Hg.
      unfold nthZ. eapply firstn_eq_nth. exact Ep. lia.
    + rewrite E1 in Hd. inversion Hd; subst. exact E2.
Qed.

(* ------------------------------------------------------------------ change_encoding *)
Lemma spec_decode_members A codes t : spec_decode A codes = Some t -> Forall (fun c => In c A) t.
Proof.
  revert t. induction codes as [|k r IH]; intros t H; simpl in H. inversion H. constructor.
  destruct ((0 <=? k) && (k <? len A)) eqn:E; [|discriminate].
  destruct (spec_decode A r) as [t'|]; [|discriminate]. inversion H; subst.
  apply andb_true_iff in E as [E1 E2]. apply Z.leb_le in E1. apply Z.ltb_lt in E2.
  constructor. apply nthZ_In. lia. apply IH. reflexivity.
Qed.

Lemma map_upper_members A t : alphabet_ok A -> Forall (fun c => In c A) t -> map upper t = t /\ Forall byte t.
Proof.
  intros HA. induction t as [|c t IH]; intros H; simpl. split. reflexivity. constructor.
  inversion H; subst. destruct (IH H3) as [E1 E2]. destruct (alphabet_ok_member A c HA H2) as [R U].
  rewrite U, E1. split. reflexivity. constructor. unfold byte. lia. exact E2.
Qed.

Lemma change_sound_gen L ra dst codes codes' :
  alphabet_ok (alphabet_of ra) ->
  (forall rb, dst = Alpha rb -> alphabet_ok (alphabet_of rb) /\ table_wf L (alphabet_of rb)
      /\ forall t, spec_decode (alphabet_of ra) codes = Some t -> chars_ok L (alphabet_of rb) t) ->
  change L (Alpha ra) dst codes = Ok codes' ->
  exists t, spec_decode (alphabet_of ra) codes = Some t /\ dec dst codes' = Some t.
Proof.
  intros HA HB H. simpl in H. rewrite decode_flat_spec in H.
  destruct (spec_decode (alphabet_of ra) codes) as [txt|] eqn:Ed; [|discriminate].
  exists txt. split. reflexivity. destruct dst as [|rb]; simpl.
  - inversion H. reflexivity.
  - destruct (HB rb eq_refl) as [HBok [HW Hc]]. specialize (Hc txt eq_refl).
    destruct (encode_exact_gen L (alphabet_of rb) txt HBok HW Hc) as [P1 P2].
    destruct (text_ok (alphabet_of rb) txt) eqn:Et.
    + destruct (P1 eq_refl) as [cs [E1 E2]]. rewrite E1 in H. inversion H; subst.
      destruct (map_upper_members _ _ HA (spec_decode_members _ _ _ Ed)) as [U _]. rewrite U in E2. exact E2.
    + destruct (P2 eq_refl) as [o [E1 _]]. rewrite E1 in H. discriminate.
Qed.

Lemma chars_ok_fixed A s : alphabet_ok A -> Forall byte s -> chars_ok lower_fixed A s.
Proof.
  intros HA H. unfold chars_ok. eapply Forall_impl; [|exact H]. intros c Hc. split. exact Hc.
  apply lower_fixed_ok_at. exact HA.
Qed.

Lemma chars_ok_pinned A s : alphabet_ok A -> Forall byte s -> Forall (fun c => ~ shifted_nonletter A c) s ->
  chars_ok lower_pinned A s.
Proof.
  intros HA H G. unfold chars_ok. rewrite Forall_forall in *. intros c Hc. split. apply H; exact Hc.
  apply lower_pinned_ok_at. exact HA. apply G; exact Hc.
Qed.

(* ================================================================== statements used by Props/C06.v *)
Definition lookup_exact_at (L : list Z -> list Z) (A : list Z) (c : Z) : Prop :=
  (member A c = true -> 0 <= lookup L A c < len A /\ nthZ A (lookup L A c) = upper c)
  /\ (member A c = false -> lookup L A c = 255).

Lemma lookup_fixed_exact A c : alphabet_ok A -> byte c -> lookup_exact_at lower_fixed A c.
Proof. intros HA Hc. apply lookup_exact_gen; auto using lower_fixed_wf, lower_fixed_ok_at. Qed.

Lemma lookup_pinned_partial A c : alphabet_ok A -> byte c -> ~ shifted_nonletter A c ->
  lookup_exact_at lower_pinned A c.
Proof. intros HA Hc Hg. apply lookup_exact_gen; auto using lower_pinned_wf, lower_pinned_ok_at. Qed.

Definition digits : list Z := [48;49;50;51;52;53;54;55;56;57].
Lemma digits_ok : alphabet_ok digits.
Proof. split. vm_compute. discriminate. repeat constructor; vm_compute; congruence. Qed.

Lemma lookup_pinned_refuted :
  exists A c, alphabet_ok A /\ byte c /\ member A c = false /\ lookup lower_pinned A c = 0.
Proof. exists digits, 80. split. exact digits_ok. split. unfold byte; lia. split; reflexivity. Qed.

Definition encode_exact (L : list Z -> list Z) (A : list Z) (s : list Z) : Prop :=
  (text_ok A s = true ->
     exists codes, encode_flat L A s = Ok codes /\ spec_decode A codes = Some (map upper s))
  /\ (text_ok A s = false ->
     exists o, encode_flat L A s = EncErr o /\ 0 <= o < len s /\ member A (nthZ s o) = false
               /\ text_ok A (firstn (Z.to_nat o) s) = true).

Lemma encode_fixed_exact A s : alphabet_ok A -> Forall byte s -> encode_exact lower_fixed A s.
Proof. intros HA Hs. apply encode_exact_gen; auto using lower_fixed_wf, chars_ok_fixed. Qed.

Lemma encode_pinned_partial A s : alphabet_ok A -> Forall byte s ->
  Forall (fun c => ~ shifted_nonletter A c) s -> encode_exact lower_pinned A s.
Proof. intros HA Hs G. apply encode_exact_gen; auto using lower_pinned_wf, chars_ok_pinned. Qed.

Lemma encode_pinned_refuted :
  exists A s codes, alphabet_ok A /\ Forall byte s /\ text_ok A s = false
    /\ encode_flat lower_pinned A s = Ok codes /\ spec_decode A codes <> Some (map upper s).
Proof.
  exists digits, [49; 80], [1; 0]. split. exact digits_ok.
  split. repeat constructor; unfold byte; lia.
  split. reflexivity. split. reflexivity. vm_compute. discriminate.
Qed.

Definition encode_rows_exact (L : list Z -> list Z) (route : Z) (A : list Z) (rows : list (list Z)) : Prop :=
  (forallb (text_ok A) rows = true ->
     exists codes, encode_rows L route A rows = (Ok codes, lens_of rows)
       /\ spec_decode_rows A (unflatten (lens_of rows) codes) = Some (map (map upper) rows))
  /\ (forallb (text_ok A) rows = false ->
     fst (encode_rows L route A rows) = Unicode
     \/ exists o, fst (encode_rows L route A rows) = EncErr o /\ 0 <= o < len (concat rows)
                  /\ member A (nthZ (concat rows) o) = false
                  /\ text_ok A (firstn (Z.to_nat o) (concat rows)) = true).

Lemma Forall_concat_byte (rows : list (list Z)) : Forall (Forall byte) rows -> Forall byte (concat rows).
Proof. induction 1; simpl. constructor. apply Forall_app. split; assumption. Qed.

Lemma encode_rows_fixed_exact route A rows : alphabet_ok A -> Forall (Forall byte) rows ->
  encode_rows_exact lower_fixed route A rows.
Proof.
  intros HA Hs. apply encode_rows_gen; auto using lower_fixed_wf.
  apply chars_ok_fixed. exact HA. apply Forall_concat_byte. exact Hs.
Qed.

Lemma encode_rows_pinned_partial route A rows : alphabet_ok A -> Forall (Forall byte) rows ->
  Forall (fun c => ~ shifted_nonletter A c) (concat rows) -> encode_rows_exact lower_pinned route A rows.
Proof.
  intros HA Hs G. apply encode_rows_gen; auto using lower_pinned_wf.
  apply chars_ok_pinned. exact HA. apply Forall_concat_byte. exact Hs. exact G.
Qed.

Lemma retarget_pinned_refuted :
  exists ra rb codes t, spec_decode (alphabet_of ra) codes = Some t
    /\ retarget RPinned (Alpha ra) (Alpha rb) codes = Ok codes
    /\ spec_decode (alphabet_of rb) codes <> Some t.
Proof.
  exists [65;67;71;84], [65;67;84;71], [0;1;2], [65;67;71].
  split. reflexivity. split. reflexivity. vm_compute. discriminate.
Qed.

Lemma change_fixed_sound ra dst codes codes' :
  alphabet_ok (alphabet_of ra) -> (forall rb, dst = Alpha rb -> alphabet_ok (alphabet_of rb)) ->
  change lower_fixed (Alpha ra) dst codes = Ok codes' ->
  exists t, spec_decode (alphabet_of ra) codes = Some t /\ dec dst codes' = Some t.
Proof.
  intros HA HB. apply change_sound_gen. exact HA. intros rb E. specialize (HB rb E).
  split. exact HB. split. apply lower_fixed_wf. exact HB.
  intros t Ht. apply chars_ok_fixed. exact HB.
  apply (map_upper_members _ _ HA (spec_decode_members _ _ _ Ht)).
Qed.

Lemma change_pinned_partial ra dst codes codes' :
  alphabet_ok (alphabet_of ra) -> (forall rb, dst = Alpha rb -> alphabet_ok (alphabet_of rb)) ->
  (forall rb t, dst = Alpha rb -> spec_decode (alphabet_of ra) codes = Some t ->
     Forall (fun c => ~ shifted_nonletter (alphabet_of rb) c) t) ->
  change lower_pinned (Alpha ra) dst codes = Ok codes' ->
  exists t, spec_decode (alphabet_of ra) codes = Some t /\ dec dst codes' = Some t.
Proof.
  intros HA HB G. apply change_sound_gen. exact HA. intros rb E. specialize (HB rb E).
  split. exact HB. split. apply lower_pinned_wf. exact HB.
  intros t Ht. apply chars_ok_pinned. exact HB.
  apply (map_upper_members _ _ HA (spec_decode_members _ _ _ Ht)). apply (G rb t E Ht).
Qed.

Definition amino : list Z := [65;67;68;69;70;71;72;73;75;76;77;78;80;81;82;83;84;86;87;89;42].
Lemma change_pinned_refuted :
  exists ra rb codes codes' t, spec_decode (alphabet_of ra) codes = Some t
    /\ change lower_pinned (Alpha ra) (Alpha rb) codes = Ok codes'
    /\ spec_decode (alphabet_of rb) codes' <> Some t.
Proof.
  exists amino, digits, [12;13], [0;1], [80;81].
  split. reflexivity. split. reflexivity. vm_compute. discriminate.
Qed.

(* ------------------------------------------------------------------ the predefined alphabets, completely *)
Definition alphabet_okb (A : list Z) : bool :=
  (len A <=? 255) && forallb (fun a => (0 <=? a) && (a <? 128) && (upper a =? a)) A.
Lemma alphabet_okb_ok A : alphabet_okb A = true -> alphabet_ok A.
Proof.
  unfold alphabet_okb, alphabet_ok. intros H. apply andb_true_iff in H as [H1 H2]. split. apply Z.leb_le. exact H1.
  rewrite forallb_forall in H2. rewrite Forall_forall. intros a Ha. specialize (H2 a Ha).
  apply andb_true_iff in H2 as [H2 H3]. apply andb_true_iff in H2 as [H2 H4].
  apply Z.leb_le in H2. apply Z.ltb_lt in H4. apply Z.eqb_eq in H3. lia.
Qed.

Lemma predefined_ok A : In A pre_alphas -> alphabet_ok A.
Proof.
  intros H. apply alphabet_okb_ok. revert A H. apply forallb_forall. vm_compute. reflexivity.
Qed.


Lemma finite_lift (P : list Z -> Z -> bool) :
  forallb (fun A => forallb (P A) (arange 256)) pre_alphas = true ->
  forall A c, In A pre_alphas -> byte c -> P A c = true.
Proof.
  intros H A c HA Hc. rewrite forallb_forall in H. specialize (H A HA). rewrite forallb_forall in H.
  apply H. apply In_arange. exact Hc.
Qed.

(* the code at HEAD accepts exactly the members and the (non-letter member)+32 bytes; a member is given
   the code of its upper-case form *)
Lemma predefined_pinned_table A c : In A pre_alphas -> byte c ->
  (byte_code lower_pinned A c =? 255) = negb (member A c || shifted_b A c)
  /\ (member A c = true -> nthZ A (byte_code lower_pinned A c) = upper c)
  /\ (shifted_b A c = true -> member A c = false).
Proof.
  intros HA Hc.
  pose proof (finite_lift (fun A c =>
     Bool.eqb (byte_code lower_pinned A c =? 255) (negb (member A c || shifted_b A c))
     && (negb (member A c) || (nthZ A (byte_code lower_pinned A c) =? upper c))
     && (negb (shifted_b A c) || negb (member A c)))) as F.
  assert (G : forallb (fun A => forallb (fun c =>
     Bool.eqb (byte_code lower_pinned A c =? 255) (negb (member A c || shifted_b A c))
     && (negb (member A c) || (nthZ A (byte_code lower_pinned A c) =? upper c))
     && (negb (shifted_b A c) || negb (member A c))) (arange 256)) pre_alphas = true) by (vm_compute; reflexivity).
  specialize (F G A c HA Hc). cbv beta in F.
  apply andb_true_iff in F as [F F3]. apply andb_true_iff in F as [F1 F2].
  apply Bool.eqb_prop in F1. split. exact F1. split.
  - intros M. rewrite M in F2. simpl in F2. apply Z.eqb_eq. exact F2.
  - intros S. rewrite S in F3. simpl in F3. apply negb_true_iff. exact F3.
Qed.

(* with the repaired table every predefined alphabet accepts exactly its members *)
Lemma predefined_fixed_table A c : In A pre_alphas -> byte c ->
  (byte_code lower_fixed A c =? 255) = negb (member A c)
  /\ (member A c = true -> nthZ A (byte_code lower_fixed A c) = upper c).
Proof.
  intros HA Hc.
  pose proof (finite_lift (fun A c =>
     Bool.eqb (byte_code lower_fixed A c =? 255) (negb (member A c))
     && (negb (member A c) || (nthZ A (byte_code lower_fixed A c) =? upper c)))) as F.
  assert (G : forallb (fun A => forallb (fun c =>
     Bool.eqb (byte_code lower_fixed A c =? 255) (negb (member A c))
     && (negb (member A c) || (nthZ A (byte_code lower_fixed A c) =? upper c))) (arange 256)) pre_alphas = true)
    by (vm_compute; reflexivity).
  specialize (F G A c HA Hc). cbv beta in F. apply andb_true_iff in F as [F1 F2].
  apply Bool.eqb_prop in F1. split. exact F1.
  intros M. rewrite M in F2. simpl in F2. apply Z.eqb_eq. exact F2.
Qed.

(* the bytes wrongly accepted at HEAD, per predefined alphabet *)
Definition wrongly_accepted : list (list Z) :=
  map (fun A => filter (fun c => negb (member A c) && negb (byte_code lower_pinned A c =? 255)) (arange 256)) pre_alphas.

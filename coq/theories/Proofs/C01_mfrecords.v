(* Proofs/C01_mfrecords.v — wrapped FASTA: the ENTRIES (header line + its sequence lines) of the
   chunks, concatenated, are exactly the entries of the whole (newline-terminated) file.
   Built on mfasta_chunks_exact: every chunk ends with a line break and starts with '>' , so
   cutting there never splits or merges an entry. *)
From Coq Require Import ZArith List Bool Arith Lia.
From BNP Require Import Base.Prims Base.PrimsFacts Model.C01 Proofs.C01 Proofs.C01_delim Proofs.C01_mfasta.
Import ListNotations.

(* ---------- reference entry parser, by structural recursion over the lines ----------
   [group ls] = (sequence text found before the first header line, entries).
   A line whose first byte is '>' (62) opens a new entry whose name is the rest of that line;
   every other line is appended, without its line break, to the sequence of the current entry.
   Lines before the first header belong to no entry: [fasta_entries] ignores them. *)
Definition entry : Type := (list Z * list Z)%type.   (* (name, sequence) *)
Fixpoint group (ls : list (list Z)) : list Z * list entry :=
  match ls with
  | [] => ([], [])
  | l :: r =>
      let (s, es) := group r in
      match l with
      | 62%Z :: name => ([], (name, s) :: es)
      | _ => (l ++ s, es)
      end
  end.
Definition fasta_entries (ls : list (list Z)) : list entry := snd (group ls).
Definition entries_of (text : list Z) : list entry := fasta_entries (lines text).

(* a line is a header iff it starts with '>' *)
Definition is_header (l : list Z) : bool := match l with 62%Z :: _ => true | _ => false end.

Lemma group_cons l r :
  group (l :: r) = if is_header l then ([], (tl l, fst (group r)) :: snd (group r))
                   else (l ++ fst (group r), snd (group r)).
Proof.
  cbn [group]. destruct (group r) as [s es]. cbn [fst snd].
  destruct l as [|c l]; [reflexivity|].
  destruct c as [|p|p]; try reflexivity.
  do 6 (destruct p as [p|p|]; try reflexivity).
Qed.

(* ---------- compositionality on lines ---------- *)
Lemma group_app a b : fst (group b) = [] ->
  group (a ++ b) = (fst (group a), snd (group a) ++ snd (group b)).
Proof.
  intros Hb. induction a as [|l a IH].
  - cbn [List.app group fst snd]. rewrite <- Hb. destruct (group b); reflexivity.
  - cbn [List.app]. rewrite (group_cons l (a ++ b)), (group_cons l a), IH. cbn [fst snd].
    destruct (is_header l); reflexivity.
Qed.

Lemma fasta_entries_app a b : fst (group b) = [] ->
  fasta_entries (a ++ b) = fasta_entries a ++ fasta_entries b.
Proof. intros Hb. unfold fasta_entries. rewrite (group_app a b Hb). reflexivity. Qed.

(* ---------- a chunk that starts with '>' starts with a header line ---------- *)
Lemma mf_chunk_lines c : ends_nl c = true -> nthZ c 0 = 62%Z ->
  exists name rest, lines c = (62%Z :: name) :: rest.
Proof.
  intros He H0. pose proof (ends_nl_split c He) as Hs.
  destruct c as [|x c]; [discriminate He|].
  unfold nthZ in H0. cbn in H0. subst x.
  destruct c as [|y c]; [discriminate He|].
  rewrite Hs. rewrite lines_terminated.
  change (removelast (62%Z :: y :: c)) with (62%Z :: removelast (y :: c)).
  set (x := removelast (y :: c)). cbn [split_on].
  change (62 =? 10)%Z with false. cbv iota.
  pose proof (split_on_nonempty 10 x) as Hn.
  destruct (split_on 10 x) as [|h t]; [congruence|]. exists h, t. reflexivity.
Qed.

Lemma mf_chunk_group_fst c X : ends_nl c = true -> nthZ c 0 = 62%Z ->
  fst (group (lines c ++ X)) = [].
Proof.
  intros He H0. destruct (mf_chunk_lines c He H0) as (name & rest & ->).
  cbn [List.app]. rewrite group_cons. reflexivity.
Qed.

Lemma mf_concat_group_fst (D : list (list Z)) :
  Forall (fun c => ends_nl c = true /\ nthZ c 0 = 62%Z) D ->
  fst (group (lines (concat D))) = [].
Proof.
  intros H. destruct D as [|c D]; [reflexivity|].
  inversion H as [|? ? [He H0] _]; subst. cbn [concat].
  rewrite (lines_app c (concat D) He). apply mf_chunk_group_fst; assumption.
Qed.

(* ---------- compositionality on chunks ---------- *)
Lemma entries_concat (D : list (list Z)) :
  Forall (fun c => ends_nl c = true /\ nthZ c 0 = 62%Z) D ->
  entries_of (concat D) = concat (map entries_of D).
Proof.
  induction D as [|c D IH]; intros H; [reflexivity|].
  inversion H as [|? ? [He H0] HD]; subst. cbn [concat map].
  unfold entries_of at 1. rewrite (lines_app c (concat D) He).
  rewrite (fasta_entries_app (lines c) (lines (concat D)) (mf_concat_group_fst D HD)).
  fold (entries_of c). fold (entries_of (concat D)). rewrite (IH HD). reflexivity.
Qed.

(* ---------- the property ---------- *)
Theorem mfasta_records_exact : forall m k file chunks dropped app lr,
  (1 <= k)%nat ->
  read_chunks true MultiFasta m k file = Done chunks dropped app lr ->
  concat (map entries_of chunks) = entries_of (norm_text file).
Proof.
  intros m k file chunks dropped app lr Hk Hrun.
  destruct (mfasta_chunks_exact m k file chunks dropped app lr Hk Hrun) as [(-> & -> & _)|(_ & Hc & HF)].
  - reflexivity.
  - rewrite <- Hc. symmetry. apply entries_concat. exact HF.
Qed.

(* ---------- examples ---------- *)
(* ">a\nAC\nGT\n>b\nTT\n>c\nG\nA"  (three wrapped entries, no final line break), chunk size 5 *)
Definition ex3_file : list Z :=
  [62; 97; 10; 65; 67; 10; 71; 84; 10; 62; 98; 10; 84; 84; 10; 62; 99; 10; 71; 10; 65]%Z.
Definition ex3_entries : list entry :=
  [([97], [65; 67; 71; 84]); ([98], [84; 84]); ([99], [71; 65])]%Z.

Example entries_of_ex3 : entries_of (norm_text ex3_file) = ex3_entries.
Proof. vm_compute. reflexivity. Qed.

Example mfrecords_ex_seek :
  exists chunks app lr,
    read_chunks true MultiFasta Seek 5 ex3_file = Done chunks [62%Z] app lr
    /\ (2 <= length chunks)%nat
    /\ map entries_of chunks = [[([97], [65; 67; 71; 84])]; [([98], [84; 84])]; [([99], [71; 65])]]%Z
    /\ concat (map entries_of chunks) = ex3_entries.
Proof.
  eexists _, _, _. split; [vm_compute; reflexivity|].
  split; [vm_compute; lia|]. split; vm_compute; reflexivity.
Qed.
Example mfrecords_ex_prepend :
  exists chunks app lr,
    read_chunks true MultiFasta Prepend 5 ex3_file = Done chunks [62%Z] app lr
    /\ (2 <= length chunks)%nat
    /\ concat (map entries_of chunks) = ex3_entries.
Proof.
  eexists _, _, _. split; [vm_compute; reflexivity|].
  split; [vm_compute; lia|]. vm_compute; reflexivity.
Qed.
(* text before the first header belongs to no entry *)
Example entries_of_leading : entries_of [65; 10; 62; 97; 10; 67; 10]%Z = [([97], [67])]%Z.
Proof. vm_compute. reflexivity. Qed.

(* Proofs/C16_depth.v — phase 3: little-endian value theorems for read_field, tag bytes, write-then-re-read as one
   statement, unreachability of the reader's end-of-file branch, unmapped records through the interval view, and
   the link "model_ok c = true -> spec_ok c = true". *)
From Coq Require Import ZArith List Bool Lia Arith.
From BNP Require Import Base.Prims Base.PrimsFacts Model.C16 Proofs.C16 Corr.C16 Proofs.C16_link.
Import ListNotations.
Open Scope Z_scope.
Ltac divmod_lia := Z.to_euclidean_division_equations; lia.

(* ================================================================= A. what read_field assumes about `.view(dtype)`
   Modelling assumption (NumPy on a little-endian host): n bytes b0..b(n-1) viewed as an unsigned integer are
   sum b_i * 256^i (from_le), and as a signed 32-bit integer the two's-complement reading of that value (signed32).
   The theorems below make the content of that assumption explicit: from_le / le_bytes are mutually inverse on
   n-byte strings, so read_field returns exactly the integer whose little-endian encoding lies in the buffer. *)
Lemma le_bytes_from_le : forall bs, Forall (fun b => 0 <= b < 256) bs -> le_bytes (length bs) (from_le bs) = bs.
Proof.
  induction 1 as [|b bs Hb _ IH]; [reflexivity|].
  cbn [length le_bytes from_le].
  assert ((b + 256 * from_le bs) mod 256 = b) as -> by divmod_lia.
  assert ((b + 256 * from_le bs) / 256 = from_le bs) as -> by divmod_lia.
  rewrite IH. reflexivity.
Qed.
Lemma le_bytes_bytes n x : Forall (fun b => 0 <= b < 256) (le_bytes n x).
Proof.
  revert x. induction n as [|n IH]; intros x; cbn [le_bytes]; constructor; [|apply IH].
  apply Z.mod_pos_bound. lia.
Qed.
Lemma get_uint_le pre post (n : nat) x s off : s + off = len pre ->
  get_uint (pre ++ le_bytes n x ++ post) s off (Z.of_nat n) = x mod 256 ^ Z.of_nat n.
Proof.
  intros H. unfold get_uint. rewrite (slice_mid' pre (le_bytes n x)) by (rewrite ?len_le_bytes; lia).
  apply from_le_le_bytes.
Qed.
Lemma read_field_signed32 pre post x s off : s + off = len pre -> -2147483648 <= x < 2147483648 ->
  read_field (off, 4, true) (pre ++ le32 x ++ post) s = x.
Proof.
  intros H Hx. unfold read_field, le32. change 4 with (Z.of_nat 4) at 1. rewrite get_uint_le by assumption.
  rewrite <- from_le_le_bytes. apply signed32_le32. assumption.
Qed.
Lemma read_field_uint16 pre post x s off : s + off = len pre -> 0 <= x < 65536 ->
  read_field (off, 2, false) (pre ++ le16 x ++ post) s = x.
Proof.
  intros H Hx. unfold read_field, le16. change 2 with (Z.of_nat 2) at 1. rewrite get_uint_le by assumption.
  change (256 ^ Z.of_nat 2) with 65536. apply Z.mod_small. assumption.
Qed.
Lemma signed32_range u : 0 <= u < 4294967296 -> -2147483648 <= signed32 u < 2147483648 /\ (signed32 u) mod 4294967296 = u.
Proof.
  intros H. unfold signed32. destruct (Z.ltb_spec u 2147483648); split; try lia.
  - apply Z.mod_small. lia.
  - divmod_lia.
Qed.

(* ================================================================= D. the end-of-file branch of read_chunk *)
(* read_chunk before /repo ccb2258: a raw read of 0 bytes always ends the stream *)
Fixpoint read_chunks_fuel_pre (fuel : nat) (k : Z) (rest prepend : list Z) : option (list buf) :=
  match fuel with
  | O => None
  | S f =>
      let raw := firstn (Z.to_nat k) rest in
      let rest' := skipn (Z.to_nat k) rest in
      if len raw =? 0 then Some []
      else
        let finished := is_finished (len raw) k in
        let chunk := prepend ++ (if finished then add_newline raw else raw) in
        match from_raw_buffer chunk with
        | None => None
        | Some b =>
            match bf_starts b with
            | [] => Some []
            | _ => let prepend' := if finished then [] else skipn (Z.to_nat (buf_size b)) chunk in
                   option_map (cons b) (read_chunks_fuel_pre f k rest' prepend')
            end
        end
  end.

(* the reader's invariant: the pending tail plus the unread bytes are the encodings of the remaining records, and the
   pending tail is shorter than the next record *)
Definition reader_inv (rest prepend : list Z) (rs : list brec) : Prop :=
  prepend ++ rest = encode_recs rs /\ short_of prepend rs.

Lemma eof_pending_empty prepend rs : reader_inv [] prepend rs -> prepend = [] /\ rs = [].
Proof.
  intros [E Hs]. rewrite app_nil_r in E. subst prepend. destruct rs as [|r rs]; [split; reflexivity|].
  cbn [short_of] in Hs. rewrite encode_recs_cons, len_app in Hs. pose proof (len_nonneg (encode_recs rs)). lia.
Qed.

Section Eof.
  Variable k : Z.
  Hypothesis Hk : 0 < k.

  (* one full raw read keeps the invariant and yields at least one whole record *)
  Lemma chunk_step rest prepend rs :
    Forall fits rs -> Forall (fun r => len (encode_rec r) <= k) rs -> reader_inv rest prepend rs -> k <= len rest ->
    exists g rs2 tail, rs = g ++ rs2 /\ g <> []
      /\ prepend ++ firstn (Z.to_nat k) rest = encode_recs g ++ tail /\ incomplete tail
      /\ reader_inv (skipn (Z.to_nat k) rest) tail rs2.
  Proof.
    intros Hf Hsz [E Hs] Hr.
    assert (rest = firstn (Z.to_nat k) rest ++ skipn (Z.to_nat k) rest) as Hrest by (symmetry; apply firstn_skipn).
    assert (len (firstn (Z.to_nat k) rest) = k) as Hraw by (rewrite len_firstn; lia).
    remember (firstn (Z.to_nat k) rest) as raw eqn:Eraw. remember (skipn (Z.to_nat k) rest) as rest' eqn:Erest'.
    assert ((prepend ++ raw) ++ rest' = encode_recs rs) as E' by (rewrite <- app_assoc, <- Hrest; assumption).
    destruct (prefix_split rs (prepend ++ raw) rest' E') as (g & rs2 & tail & Hrs & Hc & Ht & Hsh).
    exists g, rs2, tail. rewrite Hrs in Hf, Hsz.
    apply Forall_app in Hf. destruct Hf as [Hfg Hf2]. apply Forall_app in Hsz. destruct Hsz as [Hsg Hs2].
    split; [assumption|]. split; [|split; [assumption|split; [|split; assumption]]].
    - intros ->. cbn [encode_recs map concat app] in Hc.
      assert (k <= len tail) by (rewrite <- Hc, len_app; pose proof (len_nonneg prepend); lia).
      destruct rs2 as [|r2 rs2]; cbn [short_of] in Hsh.
      + rewrite Hsh in H. change (len (@nil Z)) with 0 in H. lia.
      + inversion Hs2 as [|? ? Hle _]. lia.
    - destruct rs2 as [|r2 rs2]; cbn [short_of] in Hsh.
      + rewrite Hsh. apply incomplete_nil.
      + inversion Hf2; subst. rewrite encode_recs_cons in Ht. eapply strict_prefix_incomplete; eassumption.
  Qed.

  (* with the invariant, the reader with and without the end-of-file branch compute the same thing *)
  Lemma eof_branch_irrelevant : forall fuel rest prepend rs,
    Forall fits rs -> Forall (fun r => len (encode_rec r) <= k) rs -> reader_inv rest prepend rs ->
    read_chunks_fuel fuel k rest prepend = read_chunks_fuel_pre fuel k rest prepend.
  Proof.
    induction fuel as [|f IH]; intros rest prepend rs Hf Hsz Hinv; [reflexivity|].
    cbn [read_chunks_fuel read_chunks_fuel_pre]. unfold is_finished.
    assert (len (firstn (Z.to_nat k) rest) = Z.min k (len rest)) as Hraw by (rewrite len_firstn; lia).
    destruct (Z.eqb_spec (len (firstn (Z.to_nat k) rest)) 0) as [H0|H0].
    - assert (rest = []) as -> by (destruct rest; [reflexivity|rewrite len_cons in Hraw; pose proof (len_nonneg rest); lia]).
      destruct (eof_pending_empty prepend rs Hinv) as [-> _]. reflexivity.
    - destruct (Z.ltb_spec (len (firstn (Z.to_nat k) rest)) k) as [Hfin|Hnot].
      + assert (len rest < k) as Hr by lia.
        rewrite (skipn_all2 rest) by (unfold len in Hr; lia).
        rewrite (IH [] [] []); [reflexivity|constructor|constructor|split; reflexivity].
      + assert (k <= len rest) as Hr by lia.
        destruct (chunk_step rest prepend rs Hf Hsz Hinv Hr) as (g & rs2 & tail & Hrs & Hg & Hc & Hinc & Hinv2).
        subst rs. apply Forall_app in Hf. destruct Hf as [Hfg Hf2]. apply Forall_app in Hsz. destruct Hsz as [Hsg Hs2].
        rewrite Hc. rewrite from_raw_buffer_correct by assumption.
        destruct g as [|r0 g]; [congruence|].
        cbn [buf_of bf_starts starts_from].
        unfold buf_size. change (bf_data (buf_of (r0 :: g))) with (encode_recs (r0 :: g)).
        assert (skipn (Z.to_nat (len (encode_recs (r0 :: g)))) (encode_recs (r0 :: g) ++ tail) = tail) as ->.
        { unfold len. rewrite Nat2Z.id. rewrite skipn_app, Nat.sub_diag, skipn_all. reflexivity. }
        rewrite (IH _ tail rs2 Hf2 Hs2 Hinv2). reflexivity.
  Qed.

  Theorem eof_branch_unreachable rs :
    Forall fits rs -> Forall (fun r => len (encode_rec r) <= k) rs ->
    read_chunks k (encode_recs rs) = read_chunks_fuel_pre (S (S (length (encode_recs rs)))) k (encode_recs rs) [].
  Proof.
    intros Hf Hsz. unfold read_chunks. apply (eof_branch_irrelevant _ _ _ rs Hf Hsz). split; [reflexivity|].
    destruct rs as [|r rs]; [reflexivity|]. cbn [short_of]. pose proof (len_encode_rec_ge r). rewrite len_nil. lia.
  Qed.
End Eof.

(* ================================================================= B. auxiliary (tag) bytes *)
(* SAMv1 4.2: the auxiliary data run from the end of the qualities to the end of the block *)
Definition tags_region (v : variant) (d : list Z) (s e : Z) : list Z :=
  slice (m_qual_start v d s + m_l_seq d s) e d.
Lemma len_varpart r : len (encode_rec r)
  = 36 + len (b_name r) + 1 + len (cigar_bytes r) + len (pack_seq (b_seq r)) + len (b_qual r) + len (b_tags r).
Proof.
  rewrite encode_rec_split, len_app, len_fixed. unfold varpart. rewrite !len_app, len_cons, len_nil. lia.
Qed.
Lemma tags_at v B (HB : B <= 65536) (Hcb : forall n, 0 <= n < B -> v_cigar_bytes v n = 4 * n) pre post r :
  rec_valid B r ->
  tags_region v (pre ++ encode_rec r ++ post) (len pre) (len pre + len (encode_rec r)) = b_tags r.
Proof.
  intros Hv. unfold tags_region. rewrite (d_qual_start v B HB Hcb pre post r Hv), (d_lseq B pre post r Hv).
  rewrite d_chain.
  replace ((pre ++ fixed r) ++ b_name r ++ [0] ++ cigar_bytes r ++ pack_seq (b_seq r) ++ b_qual r ++ b_tags r ++ post)
    with (((pre ++ fixed r) ++ b_name r ++ [0] ++ cigar_bytes r ++ pack_seq (b_seq r) ++ b_qual r) ++ b_tags r ++ post)
    by (rewrite <- !app_assoc; reflexivity).
  apply slice_mid'.
  - rewrite !len_app, len_fixed, len_cons, len_nil, len_cigar_bytes, (rv_qual _ _ Hv). lia.
  - rewrite len_varpart. rewrite !len_app, len_fixed, len_cons, len_nil, len_cigar_bytes, (rv_qual _ _ Hv). lia.
Qed.
(* record number i of a buffer: where it lies *)
Lemma rec_at rs : forall (i : nat) r pre post, nth_error rs i = Some r ->
  exists pre' post', pre ++ encode_recs rs ++ post = pre' ++ encode_rec r ++ post'
    /\ nth_error (starts_from (len pre) rs) i = Some (len pre')
    /\ nth_error (ends_from (len pre) rs) i = Some (len pre' + len (encode_rec r)).
Proof.
  induction rs as [|r0 rs IH]; intros i r pre post Hi; [destruct i; discriminate|].
  destruct i as [|i].
  - inversion Hi; subst. exists pre, (encode_recs rs ++ post). cbn [starts_from ends_from nth_error].
    rewrite encode_recs_cons, <- app_assoc. repeat split.
  - cbn [nth_error] in Hi. cbn [starts_from ends_from nth_error].
    rewrite encode_recs_cons, <- app_assoc.
    replace (pre ++ encode_rec r0 ++ encode_recs rs ++ post) with ((pre ++ encode_rec r0) ++ encode_recs rs ++ post)
      by (rewrite <- app_assoc; reflexivity).
    rewrite <- len_app. apply IH. assumption.
Qed.
Lemma tags_of_buffer v B (HB : B <= 65536) (Hcb : forall n, 0 <= n < B -> v_cigar_bytes v n = 4 * n) rs (j : nat) r :
  Forall (rec_valid B) rs -> nth_error rs j = Some r ->
  exists s e, nth_error (bf_starts (buf_of rs)) j = Some s /\ nth_error (bf_ends (buf_of rs)) j = Some e
    /\ e = s + len (encode_rec r)
    /\ tags_region v (bf_data (buf_of rs)) s e = b_tags r.
Proof.
  intros Hv Hj. destruct (rec_at rs j r [] [] Hj) as (pre' & post' & Ed & Hs & He).
  change (len (@nil Z)) with 0 in *. cbn [app] in Ed. rewrite app_nil_r in Ed.
  exists (len pre'), (len pre' + len (encode_rec r)). unfold buf_of. cbn [bf_starts bf_ends bf_data].
  repeat split; try assumption. rewrite Ed. apply (tags_at v B HB Hcb).
  rewrite Forall_forall in Hv. apply Hv. eapply nth_error_In. eassumption.
Qed.

(* the fields of a selected object u = data[idx] (read before or after u is written) *)
Lemma decode_selected_correct v B (HB : B <= 65536) (Hcb : forall n, 0 <= n < B -> v_cigar_bytes v n = 4 * n) names rs idx :
  Forall (rec_valid B) rs -> Forall (fun i => 0 <= i < len rs) idx ->
  decode_selected v names (buf_of rs) idx = Some (map (fun r => spec_orec v r names) (select rs idx)).
Proof.
  intros Hv Hidx. unfold decode_selected. induction Hidx as [|i idx Hi _ IH]; [reflexivity|].
  cbn [map all_some]. unfold select in *. cbn [flat_map].
  destruct (nth_error rs (Z.to_nat i)) as [r|] eqn:E.
  - destruct (rec_at rs (Z.to_nat i) r [] [] E) as (pre' & post' & Ed & Hs & _).
    change (len (@nil Z)) with 0 in Hs. cbn [app] in Ed. rewrite app_nil_r in Ed.
    replace i with (Z.of_nat (Z.to_nat i)) at 1 by lia.
    unfold buf_of at 1 2. cbn [bf_starts bf_data]. rewrite (py_index_nat _ _ _ Hs). cbn [option_map].
    rewrite Ed. rewrite (decode_at_correct v B HB Hcb pre' post' r); [|rewrite Forall_forall in Hv; apply Hv; eapply nth_error_In; eassumption].
    rewrite IH. reflexivity.
  - apply nth_error_None in E. unfold len in Hi. lia.
Qed.

(* ================================================================= C. write, then read the written file again *)
Section Reread.
  Variable v : variant.
  Variable B : Z.
  Hypothesis HB : B <= 65536.
  Hypothesis Hcb : forall n, 0 <= n < B -> v_cigar_bytes v n = 4 * n.
  Variables (text : list Z) (refs : list (list Z * Z)) (rs : list brec).
  Hypothesis Hh : header_valid text refs.
  Hypothesis Hg : Forall (good v B refs) rs.

  Lemma good_valid l : Forall (good v B refs) l -> Forall (rec_valid B) l.
  Proof. apply Forall_impl. intros r [H _]. exact H. Qed.

  (* the file [encode_file text refs sel] reads back as [sel], tags included *)
  Lemma reread_file sel : Forall (good v B refs) sel ->
    read_file (encode_file text refs sel) = Some (map fst refs, encode_header text refs, buf_of sel)
    /\ decode_buf v (map fst refs) (buf_of sel) = map (fun r => spec_orec v r (map fst refs)) sel
    /\ all2 (rec_matches refs) sel (decode_buf v (map fst refs) (buf_of sel)) = true
    /\ all2 (iv_matches refs) sel (intervals_buf v (map fst refs) (buf_of sel)) = true
    /\ (forall (j : nat) r, nth_error sel j = Some r ->
          exists s e, nth_error (bf_starts (buf_of sel)) j = Some s /\ nth_error (bf_ends (buf_of sel)) j = Some e
            /\ e = s + len (encode_rec r) /\ tags_region v (bf_data (buf_of sel)) s e = b_tags r).
  Proof.
    intros Hsel. pose proof (good_valid sel Hsel) as Hval.
    split; [apply read_file_correct; [assumption|apply (Forall_valid_fits B); assumption]|].
    split; [apply (decode_buf_correct v B HB Hcb); assumption|].
    split; [|split].
    - rewrite (decode_buf_correct v B HB Hcb) by assumption.
      apply (all2_map (good v B refs)); [|assumption]. intros r [_ Hr]. apply rec_matches_spec, Hr.
    - rewrite (intervals_buf_correct v B HB Hcb) by assumption.
      apply (all2_map (good v B refs)); [|assumption]. intros r [_ Hr]. apply iv_matches_spec, Hr.
    - intros j r Hj. apply (tags_of_buffer v B HB Hcb); assumption.
  Qed.

  Theorem write_then_reread idx : Forall (fun i => 0 <= i < len rs) idx ->
    let sel := select rs idx in
    let hdr := encode_header text refs in
    exists w, write_selected hdr (buf_of rs) idx = Some w
      /\ w = encode_file text refs sel
      /\ read_file w = Some (map fst refs, hdr, buf_of sel)
      /\ decode_buf v (map fst refs) (buf_of sel) = map (fun r => spec_orec v r (map fst refs)) sel
      /\ all2 (rec_matches refs) sel (decode_buf v (map fst refs) (buf_of sel)) = true
      /\ all2 (iv_matches refs) sel (intervals_buf v (map fst refs) (buf_of sel)) = true
      /\ (forall (j : nat) r, nth_error sel j = Some r ->
            exists s e, nth_error (bf_starts (buf_of sel)) j = Some s /\ nth_error (bf_ends (buf_of sel)) j = Some e
              /\ e = s + len (encode_rec r) /\ tags_region v (bf_data (buf_of sel)) s e = b_tags r).
  Proof.
    intros Hidx sel hdr. exists (encode_file text refs sel).
    split; [unfold hdr; rewrite write_selected_correct by assumption; reflexivity|].
    split; [reflexivity|]. apply reread_file. apply good_select. assumption.
  Qed.

  Theorem write_whole_then_reread :
    let hdr := encode_header text refs in
    write_whole hdr (buf_of rs) = encode_file text refs rs
    /\ read_file (write_whole hdr (buf_of rs)) = Some (map fst refs, hdr, buf_of rs)
    /\ all2 (rec_matches refs) rs (decode_buf v (map fst refs) (buf_of rs)) = true.
  Proof.
    intros hdr. destruct (reread_file rs Hg) as (H1 & _ & H3 & _).
    split; [reflexivity|]. split; [exact H1|exact H3].
  Qed.
End Reread.

(* ================================================================= E. unmapped records through the interval view *)
Lemma unmapped_interval pre post r (refs : list (list Z * Z)) : rec_valid 65536 r -> b_ref r = -1 ->
  interval_at repaired (map fst refs) (pre ++ encode_rec r ++ post) (len pre)
  = {| i_chrom := Some [42]; i_start := b_pos r; i_stop := b_pos r + spec_reflen r;
       i_name := b_name r; i_score := b_mapq r; i_strand := spec_strand r |}
  /\ (b_cigar r = [] -> spec_reflen r = 0).
Proof.
  intros Hv Hr. split.
  - rewrite (interval_at_correct repaired 65536 (Z.le_refl _) cb_repaired pre post r Hv). unfold spec_oiv.
    f_equal. rewrite chrom_repaired_correct by (pose proof (len_nonneg refs); lia).
    unfold spec_chrom. rewrite Hr. reflexivity.
  - intros H. unfold spec_reflen. rewrite H. reflexivity.
Qed.

(* ================================================================= F. model_ok c = true -> spec_ok c = true *)
Lemma list_eqb_eq {A} (eqb : A -> A -> bool) : (forall x y, eqb x y = true -> x = y) ->
  forall a b, list_eqb eqb a b = true -> a = b.
Proof.
  intros H. induction a as [|x a IH]; intros [|y b] E; try discriminate; [reflexivity|].
  cbn [list_eqb] in E. apply andb_true_iff in E. destruct E as [E1 E2]. f_equal; [apply H|apply IH]; assumption.
Qed.
Lemma zlist_eqb_eq a b : zlist_eqb a b = true -> a = b.
Proof. apply list_eqb_eq. intros x y. apply Z.eqb_eq. Qed.
Lemma oz_eqb_eq a b : oz_eqb a b = true -> a = b.
Proof. destruct a, b; cbn; intros E; try discriminate; [f_equal; apply zlist_eqb_eq; assumption|reflexivity]. Qed.
Lemma orec_eqb_eq a b : orec_eqb a b = true -> a = b.
Proof.
  destruct a as [a1 a2 a3 a4 a5 a6 a7 a8 a9], b as [b1 b2 b3 b4 b5 b6 b7 b8 b9]. unfold orec_eqb.
  cbn [o_chrom o_name o_flag o_pos o_mapq o_ops o_lens o_seq o_qual].
  rewrite !andb_true_iff. intros [[[[[[[[H1 H2] H3] H4] H5] H6] H7] H8] H9].
  apply oz_eqb_eq in H1, H6. apply zlist_eqb_eq in H2, H7, H8, H9. apply Z.eqb_eq in H3, H4, H5. congruence.
Qed.
Lemma oiv_eqb_eq a b : oiv_eqb a b = true -> a = b.
Proof.
  destruct a as [a1 a2 a3 a4 a5 a6], b as [b1 b2 b3 b4 b5 b6]. unfold oiv_eqb.
  cbn [i_chrom i_start i_stop i_name i_score i_strand].
  rewrite !andb_true_iff. intros [[[[[H1 H2] H3] H4] H5] H6].
  apply oz_eqb_eq in H1. apply zlist_eqb_eq in H4. apply Z.eqb_eq in H2, H3, H5, H6. congruence.
Qed.
Lemma all2_eq {A} (f : A -> A -> bool) : (forall x y, f x y = true -> x = y) ->
  forall a b, all2 f a b = true -> a = b.
Proof.
  intros H. induction a as [|x a IH]; intros [|y b] E; try discriminate; [reflexivity|].
  cbn [all2] in E. apply andb_true_iff in E. destruct E as [E1 E2]. f_equal; [apply H|apply IH]; assumption.
Qed.
Lemma len_select {A} (l : list A) idx : Forall (fun i => 0 <= i < len l) idx -> len (select l idx) = len idx.
Proof.
  induction 1 as [|i idx Hi _ IH]; [reflexivity|]. unfold select in *. cbn [flat_map].
  destruct (nth_error l (Z.to_nat i)) eqn:E.
  - rewrite len_app, IH, !len_cons, len_nil. lia.
  - apply nth_error_None in E. unfold len in Hi. lia.
Qed.
Lemma len_starts_from rs : forall p, len (starts_from p rs) = len rs.
Proof. induction rs as [|r rs IH]; intros p; [reflexivity|]. cbn [starts_from]. rewrite !len_cons, IH. reflexivity. Qed.
Lemma sum_counts groups :
  sumZ (map (fun b => len (bf_starts b)) (map buf_of groups)) = len (concat groups).
Proof.
  induction groups as [|g groups IH]; [reflexivity|].
  cbn [map sumZ fold_right concat]. fold (sumZ (map (fun b => len (bf_starts b)) (map buf_of groups))).
  rewrite IH, len_app. unfold buf_of. cbn [bf_starts]. rewrite len_starts_from. reflexivity.
Qed.
Lemma iv_matches_chrom refs r o : iv_matches refs r o = true -> i_chrom o <> None.
Proof.
  unfold iv_matches. rewrite !andb_true_iff. intros [[[[[H _] _] _] _] _] E. rewrite E in H.
  unfold chrom_ok in H. destruct (spec_chrom refs r); [discriminate|]. destruct (b_ref r <? 0); discriminate.
Qed.
Lemma all2_iv_chrom refs : forall rs m, all2 (iv_matches refs) rs m = true ->
  existsb (fun i => match i_chrom i with Some _ => false | None => true end) m = false.
Proof.
  induction rs as [|r rs IH]; intros [|o m] E; try discriminate; [reflexivity|].
  cbn [all2] in E. apply andb_true_iff in E. destruct E as [E1 E2]. cbn [existsb].
  rewrite (IH m E2). apply iv_matches_chrom in E1. destruct (i_chrom o); [reflexivity|congruence].
Qed.

(* what a case must satisfy for the link: facts about the generator's INPUTS (sizes, chunk sizes in the property's
   range, index lists), plus the one container-level observation the model does not cover (the EOF block) *)
Record in_scope (c : case) : Prop := {
  sc_text : len (k_text c) < 4294967296;
  sc_refs : len (k_refs c) <= 2147483648;
  sc_fits : Forall fits (k_recs c);
  sc_chunks : Forall (fun kcg => 0 < fst (fst kcg) /\ Forall (fun r => len (encode_rec r) <= fst (fst kcg)) (k_recs c))
                     (k_chunked c);
  sc_writes : Forall (fun w =>
                 w_eof w = true
                 /\ Forall (fun i => 0 <= i < len (k_recs c)) (w_idx w)
                 /\ (w_mode w <> 1 -> select (k_recs c) (w_idx w) = k_recs c)
                 /\ (w_mode w <> 0 -> w_mode w <> 1 ->
                       0 < w_k w /\ Forall (fun r => len (encode_rec r) <= w_k w) (k_recs c))) (k_writes c)
}.

Section Link.
  Variable c : case.
  Hypothesis Hfile : file_ok c = true.
  Hypothesis Hsc : in_scope c.
  Let text := k_text c. Let refs := k_refs c. Let rs := k_recs c.

  Lemma link_stream : k_stream c = encode_file text refs rs.
  Proof.
    unfold file_ok in Hfile. rewrite !andb_true_iff in Hfile. destruct Hfile as [[H _] _].
    symmetry. apply zlist_eqb_eq. exact H.
  Qed.
  Lemma link_header : header_valid text refs.
  Proof.
    unfold file_ok in Hfile. rewrite !andb_true_iff in Hfile. destruct Hfile as [_ H].
    split; [apply Hsc|]. split; [pose proof (sc_refs c Hsc); unfold refs; lia|].
    revert H. apply forallb_Forall. intros [n l]. cbn [fst snd]. rewrite !andb_true_iff, !in_range_spec.
    intros [[_ Hn] Hl]. split; [|cbn [snd]; lia]. cbn [fst].
    revert Hn. apply forallb_Forall. intros x. rewrite in_range_spec. lia.
  Qed.
  Lemma link_good : Forall (good repaired 65536 refs) rs.
  Proof.
    unfold file_ok in Hfile. rewrite !andb_true_iff in Hfile. destruct Hfile as [[_ H] _].
    rewrite forallb_forall in H. pose proof (sc_fits c Hsc) as Hf. rewrite Forall_forall in Hf.
    apply Forall_forall. intros r Hr.
    destruct (rec_okb_valid (len refs) r (sc_refs c Hsc) (H r Hr) (Hf r Hr)) as [Hv Hrange].
    apply good_repaired; assumption.
  Qed.

  Theorem model_ok_implies_spec_ok : model_ok c = true -> spec_ok c = true.
  Proof.
    intros Hm.
    pose proof link_header as Hh. pose proof link_good as Hg. pose proof (sc_fits c Hsc) as Hfits.
    destruct (model_satisfies_spec repaired 65536 (Z.le_refl _) cb_repaired text refs rs Hh Hg)
      as (b & Hread & Hwhole & Hivs & Hchunks & Hww & Hws).
    unfold model_ok, model_read in Hm. rewrite link_stream, Hread in Hm.
    assert (skipn (length (encode_header text refs)) (encode_file text refs rs) = encode_recs rs) as Hbody.
    { unfold encode_file. rewrite skipn_app, Nat.sub_diag, skipn_all. reflexivity. }
    rewrite Hbody in Hm. change current with repaired in Hm.
    rewrite !andb_true_iff in Hm. destruct Hm as [[[[[[[M1 M2] M3] M6] M7] M8] M4] M5].
    assert (b = buf_of rs) as Hb
      by (pose proof (read_file_correct text refs rs Hh Hfits) as Hrf; rewrite Hread in Hrf; injection Hrf as Hrf; exact Hrf).
    apply (all2_eq _ orec_eqb_eq) in M1. apply (all2_eq _ oiv_eqb_eq) in M2.
    unfold spec_ok. fold text refs rs. rewrite Hfile. cbn [andb].
    rewrite <- M1, Hwhole. rewrite <- M2, Hivs. cbn [andb].
    (* alignment_to_interval *)
    assert (match k_ivs2 c with Some l => all2 (iv_matches refs) rs l | None => false end = true) as ->.
    { destruct (k_ivs2 c) as [l|].
      - apply andb_true_iff in M3. destruct M3 as [_ M3]. apply (all2_eq _ oiv_eqb_eq) in M3. rewrite <- M3. exact Hivs.
      - rewrite (all2_iv_chrom refs rs _ Hivs) in M3. discriminate. }
    cbn [andb]. apply (all2_eq _ orec_eqb_eq) in M6. rewrite <- M6, Hwhole. cbn [andb].
    assert (forallb (all2 (rec_matches refs) rs) (k_sess c) = true) as ->.
    { apply forallb_forall. intros l Hl. rewrite forallb_forall in M7. specialize (M7 l Hl).
      apply (all2_eq _ orec_eqb_eq) in M7. rewrite <- M7. exact Hwhole. }
    assert (forallb (all2 (iv_matches refs) rs) (k_sess_iv c) = true) as ->.
    { apply forallb_forall. intros l Hl. rewrite forallb_forall in M8. specialize (M8 l Hl).
      apply (all2_eq _ oiv_eqb_eq) in M8. rewrite <- M8. exact Hivs. }
    cbn [andb].
    apply andb_true_iff. split.
    - (* chunked reads *)
      apply forallb_forall. intros [[k counts] got] Hin.
      rewrite forallb_forall in M4. specialize (M4 _ Hin). cbn beta iota in M4.
      pose proof (sc_chunks c Hsc) as Hks. rewrite Forall_forall in Hks. destruct (Hks _ Hin) as [Hk Hsz]. cbn [fst] in Hk, Hsz.
      destruct (read_chunks_correct k Hk rs Hfits Hsz) as (groups & Hcat & Hne & Hrun).
      rewrite Hrun in M4. apply andb_true_iff in M4. destruct M4 as [Mc Mg].
      apply zlist_eqb_eq in Mc. apply (all2_eq _ orec_eqb_eq) in Mg.
      rewrite <- Mg. rewrite (decode_groups repaired 65536 (Z.le_refl _) cb_repaired refs rs Hg groups Hcat). cbn [andb].
      rewrite Mc, sum_counts, Hcat. apply Z.eqb_refl.
    - (* writes *)
      apply forallb_forall. intros w Hin.
      rewrite forallb_forall in M5. specialize (M5 _ Hin). cbn beta zeta in M5.
      pose proof (sc_writes c Hsc) as Hws'. rewrite Forall_forall in Hws'.
      destruct (Hws' _ Hin) as (Heof & Hidx & Hall & Hk2).
      rewrite Heof, (len_select rs (w_idx w) Hidx), Z.eqb_refl. cbn [andb].
      assert (exists wb, (if w_mode w =? 0 then Some (write_whole (encode_header text refs) b)
                          else if w_mode w =? 1 then write_selected (encode_header text refs) b (w_idx w)
                          else match read_chunks (w_k w) (encode_recs rs) with
                               | Some bs => Some (encode_header text refs ++ concat (map bf_data bs))
                               | None => None
                               end) = Some wb
                         /\ wb = encode_file text refs (select rs (w_idx w))) as (wb & Ewb & Hwb).
      { destruct (Z.eqb_spec (w_mode w) 0) as [E0|E0].
        - exists (write_whole (encode_header text refs) b). split; [reflexivity|]. pose proof (Hall ltac:(lia)) as Hall'. fold rs in Hall'. rewrite Hww, Hall'. reflexivity.
        - destruct (Z.eqb_spec (w_mode w) 1) as [E1|E1].
          + exists (encode_file text refs (select rs (w_idx w))). split; [apply Hws; assumption|reflexivity].
          + destruct (Hk2 E0 E1) as [Hk Hsz]. destruct (Hchunks (w_k w) Hk Hsz) as (bs & Hrun & _ & _ & Hcat).
            rewrite Hrun. exists (encode_header text refs ++ concat (map bf_data bs)).
            split; [reflexivity|]. pose proof (Hall E1) as Hall'. fold rs in Hall'. rewrite Hcat, Hall'. reflexivity. }
      rewrite Ewb in M5. apply andb_true_iff in M5. destruct M5 as [M5 Mp]. apply andb_true_iff in M5. destruct M5 as [Ms Mr].
      apply zlist_eqb_eq in Ms. rewrite Ms, Hwb, zlist_eqb_refl. cbn [andb].
      rewrite Hwb in Mr.
      destruct (reread_file repaired 65536 (Z.le_refl _) cb_repaired text refs Hh (select rs (w_idx w))
                  (good_select _ _ _ _ _ Hg)) as (Hr1 & Hr2 & Hr3 & _).
      rewrite Hr1 in Mr. apply (all2_eq _ orec_eqb_eq) in Mr. rewrite <- Mr, Hr3. cbn [andb].
      destruct (Z.eqb_spec (w_mode w) 1) as [E1|E1].
      + rewrite Hb in Mp.
        rewrite (decode_selected_correct repaired 65536 (Z.le_refl _) cb_repaired (map fst refs) rs (w_idx w)
                   (good_valid repaired 65536 refs rs Hg) Hidx) in Mp.
        apply (all2_eq _ orec_eqb_eq) in Mp. rewrite <- Mp, <- Hr2. exact Hr3.
      + apply (all2_eq _ orec_eqb_eq) in Mp. rewrite <- Mp. pose proof (Hall E1) as Hall'. fold rs in Hall'.
        rewrite Hall'. exact Hwhole.
  Qed.
End Link.

(* Proofs/C02_genocodes.v — genotype code matrices (VCFGenotypeBuffer / PhasedGenotype / PhasedHaplotype): the library
   reads three bytes from the START of every sample cell and encodes them.  When every sample cell has at least three
   bytes (a GT sub-field a<sep>b, possibly followed by ':...') those are the first three bytes of the cell's own text,
   so the matrix is, row by row and sample by sample, the encoding's code of the cell's GT. *)
From Coq Require Import ZArith List Bool Lia Arith.
From BNP Require Import Base.Prims Base.PrimsFacts Base.C02Lib Model.C02 Proofs.C02_table Proofs.C02_int Proofs.C02_misc Proofs.C02_e2e Proofs.C02_fmt.
Import ListNotations.
Open Scope Z_scope.

Lemma skipn_map' {A B} (f : A -> B) n : forall l, skipn n (map f l) = map f (skipn n l).
Proof. induction n as [|n IH]; intros l; [reflexivity|]. destruct l; [reflexivity|]. simpl. apply IH. Qed.
Lemma skipn_combine {A B} n : forall (a : list A) (b : list B), skipn n (combine a b) = combine (skipn n a) (skipn n b).
Proof.
  induction n as [|n IH]; intros a b; [reflexivity|]. destruct a as [|x a']; [reflexivity|].
  destruct b as [|y b']; [simpl; destruct (skipn n a'); reflexivity|]. simpl. apply IH.
Qed.
Lemma firstn3_slice (data : list Z) s e : 3 <= len (slice s e data) -> firstn 3 (slice s e data) = slice s (s + 3) data.
Proof.
  unfold slice, len. intros H. rewrite firstn_length in H. rewrite firstn_firstn.
  replace (Z.to_nat (s + 3 - s)) with 3%nat by lia. f_equal. lia.
Qed.

Lemma geno_row (G : list Z -> list Z) data : forall (A B : list Z), length A = length B ->
  (forall p, In p (combine A B) -> 3 <= len (slice (fst p) (snd p) data)) ->
  map (fun s => G (slice s (s + 3) data)) A = map (fun p => G (firstn 3 (slice (fst p) (snd p) data))) (combine A B).
Proof.
  induction A as [|a A IH]; intros B HL H; [reflexivity|]. destruct B as [|b B]; [discriminate|]. simpl in HL.
  cbn [map combine fst snd]. f_equal.
  - rewrite firstn3_slice by (apply (H (a, b)); left; reflexivity). reflexivity.
  - apply IH; [lia|]. intros p Hp. apply H. right. exact Hp.
Qed.

Theorem geno_col_table : forall (f : format) (t : table),
  map (@length Z) (t_starts t) = map (@length Z) (t_ends t) ->
  (forall se, In se (combine (t_starts t) (t_ends t)) -> forall p, In p (skipn 9 (combine (fst se) (snd se))) ->
     3 <= len (slice (fst p) (snd p) (t_data t))) ->
  geno_col f t = spec_geno_col f (table_fields t).
Proof.
  intros f t. unfold geno_col, spec_geno_col, table_fields. generalize (t_data t) as data. intros data.
  generalize (t_starts t) as S. generalize (t_ends t) as E. intros E S Hshape H. f_equal.
  revert E Hshape H. induction S as [|srow S IH]; intros E Hshape H; [reflexivity|].
  destruct E as [|erow E]; [discriminate|]. simpl in Hshape. injection Hshape as HL Hshape.
  cbn [combine map fst snd]. f_equal.
  - f_equal. f_equal. rewrite skipn_map', skipn_combine, map_map.
    apply geno_row.
    + rewrite !skipn_length. lia.
    + intros p Hp. apply (H (srow, erow)); [left; reflexivity|]. cbn [fst snd]. rewrite skipn_combine. exact Hp.
  - apply IH; [exact Hshape|]. intros se Hse. apply H. right. exact Hse.
Qed.

(* on a table that denotes the records: every sample cell with >= 3 bytes gives the Spec's code *)
Theorem geno_col_correct : forall (f : format) (t : table) (rows : list (list (list Z))),
  table_ok t rows -> map (@length Z) (t_starts t) = map (@length Z) (t_ends t) ->
  (forall r, In r rows -> forall smp, In smp (skipn 9 r) -> 3 <= len smp) ->
  geno_col f t = spec_geno_col f rows.
Proof.
  intros f t rows Hok Hshape H3. rewrite <- (ok_fields t rows Hok). apply geno_col_table; [exact Hshape|].
  intros se Hse p Hp.
  apply (H3 (map (fun q => slice (fst q) (snd q) (t_data t)) (combine (fst se) (snd se)))).
  - rewrite <- (ok_fields t rows Hok). unfold table_fields. apply in_map_iff. exists se. split; [reflexivity|exact Hse].
  - rewrite skipn_map'. apply in_map_iff. exists p. split; [reflexivity|exact Hp].
Qed.

(* ---------- the start and end tables of DelimitedBuffer always have the same shape ---------- *)
Lemma chunks_fuel_shape {A B} (n : nat) : forall f (l1 : list A) (l2 : list B), length l1 = length l2 ->
  map (@length A) (chunks_of_fuel f n l1) = map (@length B) (chunks_of_fuel f n l2).
Proof.
  induction f as [|f IH]; intros l1 l2 H; [reflexivity|]. cbn [chunks_of_fuel].
  destruct l1 as [|x l1]; destruct l2 as [|y l2]; try discriminate; [reflexivity|].
  cbn [map]. f_equal.
  - rewrite !firstn_length. rewrite H. reflexivity.
  - apply IH. rewrite !skipn_length. rewrite H. reflexivity.
Qed.
Lemma chunks_shape {A B} (n : nat) (l1 : list A) (l2 : list B) : length l1 = length l2 ->
  map (@length A) (chunks_of n l1) = map (@length B) (chunks_of n l2).
Proof. intros H. unfold chunks_of. rewrite H. apply chunks_fuel_shape. exact H. Qed.
Lemma chunks_fuel_nonempty {A} (n : nat) : (1 <= n)%nat -> forall f (l r : list A), In r (chunks_of_fuel f n l) -> r <> [].
Proof.
  intros Hn. induction f as [|f IH]; intros l r Hr; [contradiction|]. cbn [chunks_of_fuel] in Hr.
  destruct l as [|x l]; [contradiction|]. destruct Hr as [E|Hr]; [|exact (IH _ _ Hr)].
  subst r. destruct n; [lia|]. discriminate.
Qed.
Lemma set_last_length (r : list Z) v : r <> [] -> length (set_last r v) = length r.
Proof.
  intros H. unfold set_last. rewrite app_length. simpl. rewrite <- (removelast_last r 0) at 2 by exact H.
  rewrite app_length. reflexivity.
Qed.
Lemma cr_adjust_shape data e : (forall r, In r e -> r <> []) -> map (@length Z) (cr_adjust data e) = map (@length Z) e.
Proof.
  intros H. unfold cr_adjust. destruct e as [|r0 e']; [reflexivity|].
  destruct ((len data =? 0) || (lastz r0 =? 0)); [reflexivity|].
  destruct (nthZ data (m_cr_probe (lastz r0)) =? m_cr_byte); [|reflexivity].
  rewrite map_map. apply map_ext_in. intros r Hr. apply set_last_length. apply H. exact Hr.
Qed.
Theorem delim_table_shape : forall (sep : Z) (chunk : list Z) (t : table),
  delim_table sep chunk = Some t -> map (@length Z) (t_starts t) = map (@length Z) (t_ends t).
Proof.
  intros sep chunk t H. unfold delim_table in H.
  destruct (nl_indices chunk (delim_positions sep chunk)) as [|e0 ee] eqn:Ee; [discriminate|].
  set (delims' := m_sentinel :: firstn (Z.to_nat (m_keep (lastz (e0 :: ee)))) (delim_positions sep chunk)) in *.
  unfold reshape in H.
  destruct ((0 <? m_n_fields e0) && (len (map m_start (removelast delims')) mod m_n_fields e0 =? 0)) eqn:C1; [|discriminate].
  destruct ((0 <? m_n_fields e0) && (len (tl delims') mod m_n_fields e0 =? 0)) eqn:C2; [|discriminate].
  injection H as H. subst t. cbn [t_starts t_ends].
  apply andb_true_iff in C1. destruct C1 as [Hn _]. apply Z.ltb_lt in Hn.
  rewrite cr_adjust_shape.
  - assert (HL : length (map m_start (removelast delims')) = length (tl delims')).
    { rewrite map_length. unfold delims'. cbn [tl].
      remember (firstn (Z.to_nat (m_keep (lastz (e0 :: ee)))) (delim_positions sep chunk)) as l. clear.
      generalize m_sentinel. induction l as [|x l IH]; intros a; [reflexivity|].
      change (removelast (a :: x :: l)) with (a :: removelast (x :: l)). cbn [length]. rewrite (IH x). reflexivity. }
    exact (chunks_shape (Z.to_nat (m_n_fields e0)) (map m_start (removelast delims')) (tl delims') HL).
  - intros r Hr. unfold chunks_of in Hr. apply (chunks_fuel_nonempty (Z.to_nat (m_n_fields e0)) ltac:(lia) _ _ r Hr).
Qed.

(* ---------- VCF with a genotype matrix, INFO kept as text: whole files ---------- *)
Definition geno_format (f : format) : bool := match f with Fvcfgt | Fvcfph | Fvcfhap => true | _ => false end.
Theorem vcf_geno_end_to_end : forall (f : format) (crlf : bool) (hs : list (list Z)) (rows : list (list (list Z))) (n : Z),
  geno_format f = true ->
  (forall h, In h hs -> hd0 h = 35 /\ ~ In 10 h) ->
  rows <> [] -> 1 <= n ->
  (forall r, In r rows -> len r = n /\ forall x, In x r -> clean x) ->
  (forall jt, In jt (all_cols Fvcf) -> col_wf rows n jt) ->
  (forall r, In r rows -> forall smp, In smp (skipn 9 r) -> 3 <= len smp) ->
  hd0 (body_of crlf rows) <> 35 ->
  run f None (lay (eol_of crlf) hs ++ body_of crlf rows) = Obs (len rows) (spec_cols f None rows) true.
Proof.
  intros f crlf hs rows n Hf Hh Hne Hn H Hwf H3 Hb.
  assert (Hc : comment_byte f = 35) by (destruct f; try discriminate; reflexivity).
  assert (Ht : forall b, table_of f b = delim_table 9 b) by (intro b; destruct f; try discriminate; reflexivity).
  destruct (table_of_rows crlf n rows Hn Hne H) as [t [Htab [Hok Hl]]].
  assert (Hcols : run_cols f None t = spec_cols f None rows).
  { assert (Hbase : map (fun jt => typed_col t (fst jt) (snd jt)) (all_cols Fvcf) = map (spec_col rows) (all_cols Fvcf)).
    { apply map_ext_in. intros [j ty] Hin. destruct (Hwf _ Hin) as [Hj Hw]. cbn [fst snd] in *.
      apply typed_col_correct; try assumption; try lia. intros r Hr. destruct (H r Hr) as [E _]. lia. }
    pose proof (geno_col_correct f t rows Hok (delim_table_shape 9 _ t Htab) H3) as Hg.
    unfold all_cols in Hbase. cbn [schema extra_cols] in Hbase. rewrite !map_app in Hbase. cbn [map fst snd] in Hbase.
    destruct f; try discriminate; unfold run_cols, spec_cols; cbn [schema has_geno has_geno2]; rewrite Hg;
      rewrite (app_assoc (map (fun jt => typed_col t (fst jt) (snd jt)) vcf_cols)), Hbase, <- app_assoc; reflexivity. }
  unfold run. rewrite Hc, skip_header_correct by (try assumption; lia). rewrite Ht, Htab, Hcols, Hl.
  destruct f; try discriminate; reflexivity.
Qed.

(* Proofs/C09_depth.v — converse of the expression theorem; from_intervals with the repaired constructor
   (empty runs removed): scalar and per-interval values; get_boolean_mask end to end. *)
From Coq Require Import ZArith List Bool Lia Arith.
From BNP Require Import Base.Prims Base.PrimsFacts Model.C09 Proofs.C09.
Import ListNotations.
Open Scope Z_scope.

(* ====================================================================================== *)
(* C: dense evaluation defined => run-length evaluation defined, same kind, expands to it   *)
(* ====================================================================================== *)
Theorem eval_complete : forall n leaves e k d,
  (forall l, In l leaves -> wf_rle (snd l) = true /\ rle_len (snd l) = n) ->
  spec_eval (map dense_leaf leaves) e = Some (k, d) ->
  exists r, model_eval leaves e = Some (k, r) /\ wf_rle r = true /\ rle_len r = n /\ expand r = d.
Proof.
  intros n leaves e. induction e as [i|op l IHl r0 IHr|op l IHl ks s|op ks s r0 IHr|e1 IH1]; intros k d Hwf H;
    unfold model_eval, spec_eval in *; cbn [eval] in *.
  - rewrite nth_error_map in H. destruct (nth_error leaves (Z.to_nat i)) as [[kk rr]|] eqn:E; [|discriminate].
    cbn [option_map dense_leaf fst snd] in H. inversion H. subst k d.
    destruct (Hwf _ (nth_error_In _ _ E)) as [W L]. exists rr. repeat split; assumption.
  - destruct (eval (@map _ _) dense_zip (map dense_leaf leaves) l) as [[ka da]|] eqn:El; [|discriminate].
    destruct (eval (@map _ _) dense_zip (map dense_leaf leaves) r0) as [[kb db]|] eqn:Er; [|discriminate].
    destruct (IHl ka da Hwf eq_refl) as (a & Ea & Wa & La & Xa). destruct (IHr kb db Hwf eq_refl) as (b & Eb & Wb & Lb & Xb).
    rewrite Ea, Eb. destruct (bin_kind op ka kb) as [k0|]; [|discriminate].
    destruct (rle_zip_pointwise (bin_val op ka kb) a b Wa Wb ltac:(congruence)) as (c & Ez & Wc & Lc & Ec).
    rewrite Ez. unfold dense_zip in H. subst da db. rewrite !expand_length in H by assumption.
    rewrite La, Lb, Z.eqb_refl in H. inversion H. subst k0 d. exists c. repeat split; try assumption; congruence.
  - destruct (eval (@map _ _) dense_zip (map dense_leaf leaves) l) as [[ka da]|] eqn:El; [|discriminate].
    destruct (IHl ka da Hwf eq_refl) as (a & Ea & Wa & La & Xa). rewrite Ea.
    destruct (bin_kind op ka ks) as [k0|]; [|discriminate]. inversion H. subst k0 d da.
    destruct (rle_map_pointwise (fun x => bin_val op ka ks x s) a Wa) as (W & L & E).
    eexists. split; [reflexivity|]. repeat split; [assumption|congruence|exact E].
  - destruct (eval (@map _ _) dense_zip (map dense_leaf leaves) r0) as [[kb db]|] eqn:Er; [|discriminate].
    destruct (IHr kb db Hwf eq_refl) as (b & Eb & Wb & Lb & Xb). rewrite Eb.
    destruct (bin_kind op ks kb) as [k0|]; [|discriminate]. inversion H. subst k0 d db.
    destruct (rle_map_pointwise (fun x => bin_val op ks kb s x) b Wb) as (W & L & E).
    eexists. split; [reflexivity|]. repeat split; [assumption|congruence|exact E].
  - destruct (eval (@map _ _) dense_zip (map dense_leaf leaves) e1) as [[ka da]|] eqn:El; [|discriminate].
    destruct (IH1 ka da Hwf eq_refl) as (a & Ea & Wa & La & Xa). rewrite Ea.
    destruct (not_kind ka) as [k0|]; [|discriminate]. inversion H. subst k0 d da.
    destruct (rle_map_pointwise (not_val ka) a Wa) as (W & L & E).
    eexists. split; [reflexivity|]. repeat split; [assumption|congruence|exact E].
Qed.

(* ====================================================================================== *)
(* D: from_intervals with the repaired constructor (empty runs removed)                      *)
(* ====================================================================================== *)
Ltac Zify.zify_post_hook ::= Z.to_euclidean_division_equations.

(* weakly increasing events *)
Fixpoint winc (p : Z) (l : list Z) : bool := match l with [] => true | x :: r => (p <=? x) && winc x r end.
Lemma winc_app p l1 l2 : winc p (l1 ++ l2) = winc p l1 && winc (last l1 p) l2.
Proof.
  revert p. induction l1 as [|x l1 IH]; intros p; [reflexivity|].
  cbn [app winc]. rewrite IH, last_cons, andb_assoc. reflexivity.
Qed.

(* RunLengthArray.remove_empty_intervals on weakly increasing events: strictly increasing result, same
   first and last event, same expansion *)
Lemma remove_empty_spec : forall rest e0 vs, winc e0 rest = true -> length vs = length rest ->
  exists rest' vs', remove_empty (e0 :: rest) vs = (e0 :: rest', vs')
    /\ increasing_from e0 rest' = true /\ length vs' = length rest'
    /\ last (e0 :: rest') 0 = last (e0 :: rest) 0
    /\ expand_from e0 rest' vs' = expand_from e0 rest vs.
Proof.
  induction rest as [|e1 rest1 IH]; intros e0 vs Hw Hl.
  - destruct vs; [|discriminate]. exists [], []. repeat split.
  - destruct vs as [|v vs1]; [discriminate|]. cbn [winc] in Hw. apply andb_prop in Hw. destruct Hw as [H01 Hw]. apply Z.leb_le in H01.
    destruct (IH e1 vs1 Hw ltac:(simpl in Hl; lia)) as (rest2 & vs2 & E & I & L & La & X).
    change (remove_empty (e0 :: e1 :: rest1) (v :: vs1))
      with (let '(ev2, vs2) := remove_empty (e1 :: rest1) vs1 in if e0 =? e1 then (ev2, vs2) else (e0 :: ev2, v :: vs2)).
    rewrite E. destruct (Z.eqb_spec e0 e1) as [Q|Q].
    + subst e1. exists rest2, vs2. split; [reflexivity|]. split; [exact I|]. split; [exact L|]. split.
      * rewrite !last_cons in *. exact La.
      * rewrite X. cbn [expand_from]. replace (Z.to_nat (e0 - e0)) with O by lia. reflexivity.
    + exists (e1 :: rest2), (v :: vs2). split; [reflexivity|]. split; [|split; [|split]].
      * cbn [increasing_from]. rewrite I, andb_true_r. apply Z.ltb_lt. lia.
      * simpl. lia.
      * rewrite !last_cons in *. exact La.
      * cbn [expand_from]. rewrite X. reflexivity.
Qed.
Lemma remove_empty_strict : forall ev vs p, increasing_from p ev = true -> remove_empty ev vs = (ev, vs).
Proof.
  induction ev as [|e1 ev IH]; intros vs p H; [reflexivity|].
  destruct ev as [|e2 ev']; [reflexivity|]. destruct vs as [|v vs']; [reflexivity|].
  cbn [increasing_from] in H. apply andb_prop in H. destruct H as [_ H].
  change (remove_empty (e1 :: e2 :: ev') (v :: vs'))
    with (let '(ev2, vs2) := remove_empty (e2 :: ev') vs' in if e1 =? e2 then (ev2, vs2) else (e1 :: ev2, v :: vs2)).
  rewrite (IH vs' e1 H). cbn [increasing_from] in H. apply andb_prop in H. destruct H as [H _]. apply Z.ltb_lt in H.
  replace (e1 =? e2) with false by (symmetry; apply Z.eqb_neq; lia). reflexivity.
Qed.

(* the shared last step of both constructors: clean, then the RunLengthArray constructor *)
Lemma finish_fixed : forall (k : kind) rest vs size dense, winc 0 rest = true -> length vs = length rest ->
  last (0 :: rest) 0 = size -> expand_from 0 rest vs = dense ->
  exists r, (let '(ev, vs') := clean_fixed (0 :: rest) vs in
             match mk_rle ev vs' with Some r0 => Some (k, r0) | None => None end) = Some (k, r)
    /\ wf_rle r = true /\ rle_len r = size /\ expand r = dense.
Proof.
  intros k rest vs size dense Hw Hl Hlast Hx. destruct (remove_empty_spec rest 0 vs Hw Hl) as (rest' & vs' & E & I & L & La & X).
  unfold clean_fixed. rewrite E.
  assert (W : wf_rle (0 :: rest', vs') = true).
  { unfold wf_rle. cbn [fst snd]. rewrite Z.eqb_refl, I. cbn [andb]. apply Z.eqb_eq. unfold len. lia. }
  exists (0 :: rest', vs'). rewrite mk_rle_wf by exact W. repeat split; [exact W| |].
  - unfold rle_len. cbn [fst]. congruence.
  - unfold expand. cbn [fst snd]. congruence.
Qed.

(* interval records (start, stop, value) *)
Definition st (r : Z * Z * (Z * Z)) : Z := fst (fst r).
Definition en (r : Z * Z * (Z * Z)) : Z := snd (fst r).
Definition vl (r : Z * Z * (Z * Z)) : Z * Z := snd r.
Definition ivl_last (pos : Z) (ivs : list (Z * Z * (Z * Z))) : Z := last (map en ivs) pos.
Lemma ivl_last_cons pos s e v r : ivl_last pos ((s, e, v) :: r) = ivl_last e r.
Proof. unfold ivl_last. cbn [map en fst snd]. apply last_cons. Qed.
Lemma sorted_ivl_last : forall ivs pos, sorted_disjoint pos ivs = true -> pos <= ivl_last pos ivs.
Proof.
  induction ivs as [|[[s e] v] r IH]; intros pos H; [unfold ivl_last; simpl; lia|].
  apply sorted_disjoint_cons in H. destruct H as (H1 & H2 & H3). rewrite ivl_last_cons. specialize (IH e H3). lia.
Qed.
Lemma ivl_last_stop : forall ivs pos, ivs <> [] -> ivl_last pos ivs = last_stop ivs.
Proof.
  induction ivs as [|[[s e] v] r IH]; intros pos H; [congruence|].
  destruct r as [|r2 r']; [reflexivity|]. rewrite ivl_last_cons, last_stop_cons. apply IH. discriminate.
Qed.

Lemma iv_events_winc : forall ivs pos post, sorted_disjoint pos ivs = true ->
  winc pos (interleave2 (map st ivs) (map en ivs) ++ post) = winc (ivl_last pos ivs) post.
Proof.
  induction ivs as [|[[s e] v] r IH]; intros pos post H; [reflexivity|].
  apply sorted_disjoint_cons in H. destruct H as (H1 & H2 & H3). cbn [map st en fst snd]. rewrite interleave2_cons.
  cbn [app winc]. rewrite (IH e post H3), ivl_last_cons.
  replace (pos <=? s) with true by (symmetry; apply Z.leb_le; lia).
  replace (s <=? e) with true by (symmetry; apply Z.leb_le; lia). reflexivity.
Qed.
Lemma iv_events_last : forall ivs pos post, last (interleave2 (map st ivs) (map en ivs) ++ post) pos = last (ivl_last pos ivs :: post) 0.
Proof.
  induction ivs as [|[[s e] v] r IH]; intros pos post.
  - unfold ivl_last. cbn [map interleave2 app]. change (last (@nil Z) pos) with pos. rewrite last_cons. reflexivity.
  - cbn [map st en fst snd]. rewrite interleave2_cons. cbn [app]. rewrite !last_cons, (IH e post), ivl_last_cons, last_cons. reflexivity.
Qed.
Lemma iv_events_length : forall ivs : list (Z * Z * (Z * Z)), length (interleave2 (map st ivs) (map en ivs)) = (2 * length ivs)%nat.
Proof. induction ivs as [|[[s e] v] r IH]; [reflexivity|]. cbn [map st en fst snd]. rewrite interleave2_cons. cbn [length]. rewrite IH. lia. Qed.

(* expansion of the interleaved events against interleaved (default, value) pairs *)
Lemma iv_expand d : forall ivs pos post REST, sorted_disjoint pos ivs = true ->
  expand_from pos (interleave2 (map st ivs) (map en ivs) ++ post) (interleave2 (map (fun _ => d) ivs) (map vl ivs) ++ REST)
  = tabulate (cover_at d ivs) pos (ivl_last pos ivs - pos) ++ expand_from (ivl_last pos ivs) post REST.
Proof.
  induction ivs as [|[[s e] v] r IH]; intros pos post REST H.
  - unfold ivl_last. cbn [map interleave2 app last]. rewrite tabulate_nil by lia. reflexivity.
  - pose proof H as Hs. apply sorted_disjoint_cons in H. destruct H as (H1 & H2 & H3).
    cbn [map st en vl fst snd]. rewrite !interleave2_cons. cbn [app expand_from].
    rewrite (IH e post REST H3), ivl_last_cons. pose proof (sorted_ivl_last r e H3) as HL.
    rewrite !app_assoc. f_equal.
    replace (ivl_last e r - pos) with ((ivl_last e r - pos)) by lia.
    rewrite (tabulate_split3 _ pos s e (ivl_last e r)) by lia. rewrite <- !app_assoc. f_equal; [|f_equal].
    + symmetry. apply tabulate_const. intros p Hp. apply (cover_at_before d s); [|lia].
      cbn [sorted_disjoint]. rewrite H3, andb_true_r. apply andb_true_intro. split; [apply Z.leb_le|apply Z.ltb_lt]; lia.
    + symmetry. apply tabulate_const. intros p Hp. apply cover_at_head. lia.
    + apply tabulate_ext. intros p Hp. symmetry. apply cover_at_skip. lia.
Qed.

(* the two assertions of from_intervals hold for sorted, non-overlapping, non-empty intervals (touching allowed) *)
Lemma iv_asserts : forall ivs pos, sorted_disjoint pos ivs = true ->
  all_true (map2 Z.ltb (map st ivs) (map en ivs)) = true
  /\ all_true (map2 Z.leb (removelast (map en ivs)) (tl (map st ivs))) = true.
Proof.
  induction ivs as [|[[s e] v] r IH]; intros pos H; [split; reflexivity|].
  apply sorted_disjoint_cons in H. destruct H as (H1 & H2 & H3). destruct (IH e H3) as [I1 I2]. cbn [map st en fst snd]. split.
  - cbn [map2 all_true]. rewrite I1, andb_true_r. apply Z.ltb_lt. exact H2.
  - cbn [tl]. destruct r as [|[[s2 e2] v2] r']; [reflexivity|].
    apply sorted_disjoint_cons in H3. destruct H3 as (G1 & _ & _).
    cbn [map st en fst snd] in *. rewrite removelast_cons. cbn [map2 all_true]. cbn [tl] in I2. rewrite I2, andb_true_r.
    apply Z.leb_le. lia.
Qed.

(* the dense array: record part, then default up to size *)
Lemma iv_dense d ivs size : sorted_disjoint 0 ivs = true -> ivl_last 0 ivs <= size ->
  dense_of d ivs size = tabulate (cover_at d ivs) 0 (ivl_last 0 ivs - 0) ++ repeat d (Z.to_nat (size - ivl_last 0 ivs)).
Proof.
  intros Hs Hl. pose proof (sorted_ivl_last ivs 0 Hs) as H0. unfold dense_of.
  replace (tabulate (cover_at d ivs) 0 size) with (tabulate (cover_at d ivs) 0 (size - 0)) by (f_equal; lia).
  rewrite (tabulate_split3 _ 0 0 (ivl_last 0 ivs) size) by lia. rewrite (tabulate_nil _ 0 (0 - 0)) by lia. cbn [app].
  f_equal. apply tabulate_const. intros p Hp. destruct ivs as [|r0 r]; [reflexivity|].
  apply (cover_at_after d 0); [exact Hs| |discriminate]. rewrite <- (ivl_last_stop _ 0) by discriminate. lia.
Qed.

Lemma iv_post : forall ivs size, ivl_last 0 ivs <= size -> 0 < size ->
  let hp := iv_has_postfix (map en ivs) size in
  let post := if hp then m_iv_postfix size else [] in
  winc (ivl_last 0 ivs) post = true /\ last (ivl_last 0 ivs :: post) 0 = size
  /\ length post = (if hp then 1 else 0)%nat
  /\ (forall d REST, (if hp then exists R', REST = d :: R' else True) ->
        expand_from (ivl_last 0 ivs) post REST = repeat d (Z.to_nat (size - ivl_last 0 ivs))).
Proof.
  intros ivs size Hl Hs. cbv zeta. unfold iv_has_postfix, m_iv_postfix, ivl_last in *.
  destruct (map en ivs) as [|e0 es] eqn:E.
  - cbn [last] in *. repeat split; [cbn [winc]; rewrite andb_true_r; apply Z.leb_le; lia|].
    intros d REST [R' ->]. cbn [expand_from]. apply app_nil_r.
  - destruct (Z.eqb_spec (last (e0 :: es) 0) size) as [Q|Q]; cbn [negb].
    + repeat split; [simpl; exact Q|]. intros d REST _. cbn [expand_from].
      replace (Z.to_nat (size - last (e0 :: es) 0)) with O by lia. reflexivity.
    + repeat split; [cbn [winc]; rewrite andb_true_r; apply Z.leb_le; lia|].
      intros d REST [R' ->]. cbn [expand_from]. apply app_nil_r.
Qed.
Lemma all_le_ivl_last size ivs : all_le size ivs = true -> 0 <= size -> ivl_last 0 ivs <= size.
Proof.
  intros H Hs. destruct ivs as [|r0 r]; [unfold ivl_last; simpl; exact Hs|].
  rewrite (ivl_last_stop _ 0) by discriminate. apply all_le_last; [exact H|discriminate].
Qed.
Lemma interleave2_length_eq {A} : forall (a b : list A), length a = length b -> length (interleave2 a b) = (2 * length a)%nat.
Proof. induction a as [|x a IH]; intros [|y b] H; simpl in *; try lia. rewrite (IH b) by lia. lia. Qed.

(* per-interval values (the path repaired by notes/C09.fix-2.diff), touching intervals included (fix-3) *)
Theorem from_intervals_array_full : forall ivs size k default,
  0 < size -> sorted_disjoint 0 ivs = true -> all_le size ivs = true ->
  exists r, from_intervals_array_fixed clean_fixed (map st ivs) (map en ivs) size k (map vl ivs) default = Some (k, r)
    /\ wf_rle r = true /\ rle_len r = size /\ expand r = dense_of (cast_to k default) ivs size.
Proof.
  intros ivs size k default Hsize Hs Hle. set (d := cast_to k default).
  pose proof (all_le_ivl_last size ivs Hle ltac:(lia)) as HL.
  destruct (iv_asserts ivs 0 Hs) as [A1 A2].
  destruct (iv_post ivs size HL Hsize) as (P1 & P2 & P3 & P4).
  unfold from_intervals_array_fixed, from_intervals_events. rewrite A1, A2. cbn [andb negb]. fold d.
  set (hp := iv_has_postfix (map en ivs) size) in *.
  set (post := if hp then m_iv_postfix size else []) in *.
  set (tail := if hp then [d] else []).
  rewrite map_map.
  assert (Etail : (if hp then interleave2 (map (fun _ => d) ivs) (map vl ivs) ++ [d] else interleave2 (map (fun _ => d) ivs) (map vl ivs))
                  = interleave2 (map (fun _ => d) ivs) (map vl ivs) ++ tail).
  { unfold tail. destruct hp; [reflexivity|rewrite app_nil_r; reflexivity]. }
  rewrite Etail.
  (* the common equation *)
  assert (F : expand_from 0 (interleave2 (map st ivs) (map en ivs) ++ post) (interleave2 (map (fun _ => d) ivs) (map vl ivs) ++ tail)
              = dense_of d ivs size).
  { rewrite (iv_expand d ivs 0 post tail Hs), (iv_dense d ivs size Hs HL). f_equal.
    apply P4. unfold tail. destruct hp; [exists []; reflexivity|exact I]. }
  assert (Ltail : length tail = length post) by (unfold tail; rewrite P3; destruct hp; reflexivity).
  assert (Lvals : length (interleave2 (map (fun _ => d) ivs) (map vl ivs)) = (2 * length ivs)%nat)
    by (rewrite interleave2_length_eq by (rewrite !map_length; reflexivity); rewrite map_length; reflexivity).
  unfold iv_has_prefix. destruct ivs as [|[[s e] v] r].
  - (* no interval *)
    cbn [map interleave2 app] in *. unfold m_iv_prefix, m_iv_keep. cbn [app].
    assert (Ek : firstn (Z.to_nat (len (0 :: post) - 1)) tail = tail).
    { apply firstn_all2. unfold len. simpl length. lia. }
    rewrite Ek. apply finish_fixed; [|exact Ltail| |exact F].
    + exact P1.
    + exact P2.
  - cbn [map st en vl fst snd] in *. destruct (Z.eqb_spec s 0) as [E0|E0]; cbn [negb].
    + (* first interval starts at 0: no prefix event, first value dropped *)
      subst s. rewrite !interleave2_cons in *. cbn [app tl] in *. unfold m_iv_keep.
      set (rest := e :: interleave2 (map st r) (map en r) ++ post) in *.
      set (vals := v :: interleave2 (map (fun _ => d) r) (map vl r) ++ tail) in *.
      assert (Lr : length vals = length rest).
      { unfold vals, rest. cbn [length] in *. rewrite !app_length in *. rewrite iv_events_length. lia. }
      assert (Ek : firstn (Z.to_nat (len (0 :: rest) - 1)) vals = vals).
      { apply firstn_all2. unfold len. change (length (0 :: rest)) with (S (length rest)). lia. }
      rewrite Ek. apply finish_fixed; [|exact Lr| |].
      * pose proof (iv_events_winc ((0, e, v) :: r) 0 post Hs) as X. cbn [map st en fst snd] in X.
        rewrite interleave2_cons in X. cbn [app winc] in X. rewrite P1 in X. change (0 <=? 0) with true in X. cbn [andb] in X.
        unfold rest. cbn [winc]. exact X.
      * unfold rest. pose proof (iv_events_last ((0, e, v) :: r) 0 post) as X. cbn [map st en fst snd] in X.
        rewrite interleave2_cons in X. cbn [app] in X. rewrite last_cons in X. rewrite last_cons. rewrite X. exact P2.
      * rewrite <- F. cbn [expand_from]. replace (Z.to_nat (0 - 0)) with O by lia. reflexivity.
    + (* prefix event 0, default run first *)
      rewrite !interleave2_cons in *. unfold m_iv_prefix, m_iv_keep. cbn [app] in *.
      set (rest := s :: e :: interleave2 (map st r) (map en r) ++ post) in *.
      set (vals := d :: v :: interleave2 (map (fun _ => d) r) (map vl r) ++ tail) in *.
      assert (Lr : length vals = length rest).
      { unfold vals, rest. cbn [length] in *. rewrite !app_length in *. rewrite iv_events_length. lia. }
      assert (Ek : firstn (Z.to_nat (len (0 :: rest) - 1)) vals = vals).
      { apply firstn_all2. unfold len. change (length (0 :: rest)) with (S (length rest)). lia. }
      rewrite Ek. apply finish_fixed; [|exact Lr| |exact F].
      * pose proof (iv_events_winc ((s, e, v) :: r) 0 post Hs) as X. cbn [map st en fst snd] in X.
        rewrite interleave2_cons in X. cbn [app] in X. unfold rest. rewrite X. exact P1.
      * unfold rest. pose proof (iv_events_last ((s, e, v) :: r) 0 post) as X. cbn [map st en fst snd] in X.
        rewrite interleave2_cons in X. cbn [app] in X. rewrite last_cons. rewrite X. exact P2.
Qed.

Lemma alternate_iv {A} (d v : Z * Z) : forall (ivs : list A) (n : nat), (length ivs <= n)%nat ->
  alternate n d v = interleave2 (map (fun _ => d) ivs) (map (fun _ => v) ivs) ++ alternate (n - length ivs) d v.
Proof.
  induction ivs as [|x r IH]; intros n H; [simpl; rewrite Nat.sub_0_r; reflexivity|].
  destruct n as [|n]; [simpl in H; lia|]. cbn [alternate map length]. rewrite interleave2_cons. cbn [app]. do 2 f_equal.
  replace (S n - S (length r))%nat with (n - length r)%nat by lia. apply IH. simpl in H. lia.
Qed.

(* scalar value, touching intervals included (fix-3): the constructor in force *)
Theorem from_intervals_scalar_full : forall ivs size k value default,
  0 < size -> sorted_disjoint 0 ivs = true -> all_le size ivs = true -> (forall r, In r ivs -> vl r = value) ->
  exists r, from_intervals_scalar_gen clean_fixed (map st ivs) (map en ivs) size k value default = Some (k, r)
    /\ wf_rle r = true /\ rle_len r = size /\ expand r = dense_of (cast_to k default) ivs size.
Proof.
  intros ivs size k value default Hsize Hs Hle Hval. set (d := cast_to k default).
  pose proof (all_le_ivl_last size ivs Hle ltac:(lia)) as HL.
  destruct (iv_asserts ivs 0 Hs) as [A1 A2].
  destruct (iv_post ivs size HL Hsize) as (P1 & P2 & P3 & P4).
  unfold from_intervals_scalar_gen, from_intervals_events. rewrite A1, A2. cbn [andb negb]. fold d.
  set (hp := iv_has_postfix (map en ivs) size) in *.
  set (post := if hp then m_iv_postfix size else []) in *.
  assert (Evl : map vl ivs = map (fun _ => value) ivs) by (apply map_ext_in; exact Hval).
  (* the common equation, for every n with enough pairs *)
  assert (F : forall n : nat, (length ivs + 1 <= n)%nat ->
              expand_from 0 (interleave2 (map st ivs) (map en ivs) ++ post) (alternate n d value) = dense_of d ivs size).
  { intros n Hn. rewrite (alternate_iv d value ivs n) by lia. rewrite <- Evl.
    rewrite (iv_expand d ivs 0 post _ Hs), (iv_dense d ivs size Hs HL). f_equal.
    apply P4. destruct hp; [|exact I]. destruct (n - length ivs)%nat as [|m] eqn:Em; [lia|]. cbn [alternate]. eexists. reflexivity. }
  unfold iv_has_prefix, m_iv_n_pairs, m_iv_keep. destruct ivs as [|[[s e] v] r].
  - cbn [map interleave2 app] in *. unfold m_iv_prefix. cbn [app].
    assert (Ep : post = [size]) by reflexivity. rewrite Ep in *.
    change (Z.to_nat (len [0; size] / 2 + 1)) with 2%nat. change (Z.to_nat (len [0; size] - 1)) with 1%nat.
    cbn [alternate firstn]. apply finish_fixed; [exact P1|reflexivity|exact P2|].
    apply (F 1%nat). simpl. lia.
  - cbn [map st en vl fst snd] in *. destruct (Z.eqb_spec s 0) as [E0|E0]; cbn [negb].
    + subst s. rewrite !interleave2_cons in *. cbn [app] in *.
      set (rest := e :: interleave2 (map st r) (map en r) ++ post) in *.
      assert (Lrest : length rest = (1 + 2 * length r + length post)%nat).
      { unfold rest. cbn [length]. rewrite app_length, iv_events_length. lia. }
      set (n := Z.to_nat (len (0 :: rest) / 2 + 1)).
      assert (Hn : (length r + 2 <= n)%nat /\ (length rest + 1 <= 2 * n)%nat).
      { unfold n, len. change (length (0 :: rest)) with (S (length rest)). rewrite Lrest, P3. destruct hp; split; lia. }
      destruct n as [|n]; [lia|]. cbn [alternate tl].
      apply finish_fixed.
      * pose proof (iv_events_winc ((0, e, v) :: r) 0 post Hs) as X. cbn [map st en fst snd] in X.
        rewrite interleave2_cons in X. cbn [app winc] in X. rewrite P1 in X. change (0 <=? 0) with true in X. cbn [andb] in X.
        unfold rest. cbn [winc]. exact X.
      * rewrite firstn_length. cbn [length]. rewrite alternate_length. unfold len. change (length (0 :: rest)) with (S (length rest)). lia.
      * unfold rest. pose proof (iv_events_last ((0, e, v) :: r) 0 post) as X. cbn [map st en fst snd] in X.
        rewrite interleave2_cons in X. cbn [app] in X. rewrite last_cons in X. rewrite last_cons. rewrite X. exact P2.
      * rewrite expand_from_firstn by (unfold len; change (length (0 :: rest)) with (S (length rest)); lia).
        rewrite <- (F (S n)) by (simpl length; lia). cbn [alternate expand_from]. replace (Z.to_nat (0 - 0)) with O by lia. reflexivity.
    + rewrite !interleave2_cons in *. unfold m_iv_prefix. cbn [app] in *.
      set (rest := s :: e :: interleave2 (map st r) (map en r) ++ post) in *.
      assert (Lrest : length rest = (2 + 2 * length r + length post)%nat).
      { unfold rest. cbn [length]. rewrite app_length, iv_events_length. lia. }
      set (n := Z.to_nat (len (0 :: rest) / 2 + 1)).
      assert (Hn : (length r + 2 <= n)%nat /\ (length rest <= 2 * n)%nat).
      { unfold n, len. change (length (0 :: rest)) with (S (length rest)). rewrite Lrest, P3. destruct hp; split; lia. }
      apply finish_fixed.
      * pose proof (iv_events_winc ((s, e, v) :: r) 0 post Hs) as X. cbn [map st en fst snd] in X.
        rewrite interleave2_cons in X. cbn [app] in X. unfold rest. rewrite X. exact P1.
      * rewrite firstn_length, alternate_length. unfold len. change (length (0 :: rest)) with (S (length rest)). lia.
      * unfold rest. pose proof (iv_events_last ((s, e, v) :: r) 0 post) as X. cbn [map st en fst snd] in X.
        rewrite interleave2_cons in X. cbn [app] in X. rewrite last_cons. rewrite X. exact P2.
      * rewrite expand_from_firstn by (unfold len; change (length (0 :: rest)) with (S (length rest)); lia).
        apply F. simpl length. lia.
Qed.

(* ====================================================================================== *)
(* B: get_boolean_mask on one coordinate axis, the merge step taken as a hypothesis          *)
(* ====================================================================================== *)
Lemma iv_recs_st value ivs : map st (iv_recs value ivs) = map fst ivs.
Proof. unfold iv_recs. rewrite map_map. apply map_ext. intros [s e]. reflexivity. Qed.
Lemma iv_recs_en value ivs : map en (iv_recs value ivs) = map snd ivs.
Proof. unfold iv_recs. rewrite map_map. apply map_ext. intros [s e]. reflexivity. Qed.
Lemma cover_at_vone : forall ivs p, cover_at vzero (iv_recs vone ivs) p = any_at (iv_recs vone ivs) p.
Proof.
  induction ivs as [|[s e] r IH]; intros p; [reflexivity|].
  unfold cover_at, any_at in *. cbn [iv_recs map find existsb]. fold (iv_recs vone r).
  destruct (covers p (s, e, vone)); [reflexivity|]. cbn [orb]. apply IH.
Qed.

(* The hypotheses on [m] are what C08_merge_relational (distance 0) and C08_mask_is_positive_coverage state for the
   sorted + merged + non-empty intervals: in order, non-overlapping, inside [0,size], covering exactly the bases covered
   by the input. *)
Theorem mask_flat : forall recs size,
  0 < size -> (forall r, In r recs -> en r <= size) ->
  let m := filter (fun '(s, e) => negb (s =? e)) (merge_sorted (sort_by_start recs)) in
  sorted_disjoint 0 (iv_recs vone m) = true -> all_le size (iv_recs vone m) = true ->
  (forall p, any_at (iv_recs vone m) p = any_at recs p) ->
  exists r, boolean_mask recs size = Some (KB, r) /\ wf_rle r = true /\ rle_len r = size
            /\ expand r = tabulate (any_at recs) 0 size.
Proof.
  intros recs size Hsize Hin m Hs Hle Hcov. unfold boolean_mask. fold m.
  replace (all_true (map (fun '(_, e, _) => e <=? size) recs)) with true.
  2:{ symmetry. clear -Hin. induction recs as [|[[s e] v] r IH]; [reflexivity|]. cbn [map all_true].
      rewrite IH by (intros x Hx; apply Hin; right; exact Hx). rewrite andb_true_r. apply Z.leb_le.
      apply (Hin (s, e, v)). left. reflexivity. }
  cbn [negb]. unfold from_intervals_scalar, clean_in_force.
  destruct (from_intervals_scalar_full (iv_recs vone m) size KB vone vzero Hsize Hs Hle) as (r & E & W & L & X).
  { intros x Hx. unfold iv_recs in Hx. apply in_map_iff in Hx. destruct Hx as [[s e] [<- _]]. reflexivity. }
  rewrite iv_recs_st, iv_recs_en in E. exists r. split; [exact E|]. split; [exact W|]. split; [exact L|].
  rewrite X. unfold dense_of. apply tabulate_ext. intros p Hp.
  change (cast_to KB vzero) with vzero. rewrite cover_at_vone. apply Hcov.
Qed.

(* Proofs/C04_repl.v — the replaced-field path down to bytes: for tabular formats whose entry type covers every column
   of the file (BED/BED6/narrowPeak, VCFBuffer on 8-column files), EVERY program the library accepts — selections,
   concatenations, intermediate writes AND field replacements — writes bytes that satisfy the byte-level Spec:
   every non-replaced field keeps its original text in every record, only the replaced columns change. *)
From Coq Require Import ZArith List Bool Lia.
From BNP Require Import Base.Prims Base.PrimsFacts Model.C04 Proofs.C04 Proofs.C04_raw Proofs.C04_lines Proofs.C04_sam Proofs.C04_crlf.
Import ListNotations.
Open Scope Z_scope.

(* ---------------- set values ---------------- *)
Lemma sv_get_set sv j c i : sv_get (sv_set sv j c) i = if i =? j then Some c else sv_get sv i.
Proof.
  unfold sv_set. cbn [sv_get fst snd]. rewrite (Z.eqb_sym j i). destruct (Z.eqb_spec i j); [reflexivity|].
  induction sv as [|[k d] sv IH]; [reflexivity|]. cbn [filter fst snd sv_get].
  destruct (Z.eqb_spec k j); cbn [negb].
  - subst. destruct (Z.eqb_spec j i); [lia|]. exact IH.
  - cbn [sv_get fst snd]. destruct (k =? i); [reflexivity|exact IH].
Qed.

Lemma sv_get_map (g : list (list Z) -> list (list Z)) sv i :
  sv_get (map (fun kc => (fst kc, g (snd kc))) sv) i = option_map g (sv_get sv i).
Proof. induction sv as [|[k d] sv IH]; [reflexivity|]. cbn [map sv_get fst snd]. destruct (k =? i); [reflexivity|exact IH]. Qed.

(* ---------------- the rows a program denotes, with the generator's records ---------------- *)
Definition dummy_grec : grec := {| g_cols := []; g_eol := [] |}.
Fixpoint geval (recs : list grec) (p : prog) : list grec :=
  match p with
  | PSrc => recs
  | PIdx sel p => takeA dummy_grec (geval recs p) sel
  | PCat ps => concat (map (geval recs) ps)
  | PRepl _ _ p => geval recs p
  | PTouch p => geval recs p
  end.
Definition cur_cols (nf : Z) (sv : setv) (k : nat) (g : grec) : list (list Z) :=
  map (fun i => match sv_get sv i with Some c => nth k c [] | None => nth (Z.to_nat i) (g_cols g) [] end) (arange nf)
  ++ skipn (Z.to_nat nf) (g_cols g).
Definition cur_row (f : fmt) (nf : Z) (sv : setv) (k : nat) (g : grec) : srow :=
  {| s_cols := cur_cols nf sv k g; s_raw := g_raw f g; s_eol := g_eol g |}.
Definition cur_rows (f : fmt) (nf : Z) (sv : setv) (G : list grec) : list srow :=
  map (fun k => cur_row f nf sv k (nth k G dummy_grec)) (seq 0 (length G)).

Lemma map_nth_seq {A B} (F : A -> B) d (l : list A) : map (fun k => F (nth k l d)) (seq 0 (length l)) = map F l.
Proof.
  induction l as [|a l IH]; [reflexivity|]. simpl. f_equal. rewrite <- seq_shift, map_map. exact IH.
Qed.

Lemma arange_nth_id (cols : list (list Z)) : map (fun i => nth (Z.to_nat i) cols []) (arange (len cols)) = cols.
Proof.
  unfold arange, len. rewrite Nat2Z.id.
  assert (G : forall (cols : list (list Z)) s, map (fun i => nth (Z.to_nat (i - s)) cols []) (arange_from s (length cols)) = cols).
  { induction cols0 as [|c cols0 IH]; intros s; [reflexivity|]. simpl. rewrite Z.sub_diag. simpl. f_equal.
    rewrite <- (IH (s + 1)) at 2. apply map_ext_in. intros i Hi. apply In_arange_from in Hi.
    replace (Z.to_nat (i - s)) with (S (Z.to_nat (i - (s + 1)))) by lia. reflexivity. }
  rewrite <- (G cols 0) at 2. apply map_ext. intros i. f_equal. f_equal. lia.
Qed.

Lemma arange_nth_firstn (cols : list (list Z)) m : 0 <= m <= len cols ->
  map (fun i => nth (Z.to_nat i) cols []) (arange m) = firstn (Z.to_nat m) cols.
Proof.
  intros Hm.
  assert (L : len (firstn (Z.to_nat m) cols) = m) by (rewrite len_firstn; lia).
  pose proof (arange_nth_id (firstn (Z.to_nat m) cols)) as G. rewrite L in G. rewrite <- G.
  apply map_ext_in. intros i Hi. apply In_arange in Hi.
  rewrite <- (firstn_skipn (Z.to_nat m) cols) at 1. apply app_nth1. unfold len in L. lia.
Qed.

Lemma cur_rows_nil f nf G : Forall (fun g => 0 <= nf <= len (g_cols g)) G -> cur_rows f nf [] G = map (srow_of f) G.
Proof.
  intros H. unfold cur_rows.
  transitivity (map (fun g => cur_row f nf [] 0%nat g) G).
  - apply (map_nth_seq (fun g => cur_row f nf [] 0%nat g) dummy_grec G).
  - apply map_ext_Forall. eapply Forall_impl; [|exact H]. intros g Hg.
    unfold cur_row, srow_of, cur_cols. cbn [sv_get]. rewrite arange_nth_firstn by auto. rewrite firstn_skipn. reflexivity.
Qed.

Lemma nth_cur_rows f nf sv G k : (k < length G)%nat ->
  nth k (cur_rows f nf sv G) dummy_srow = cur_row f nf sv k (nth k G dummy_grec).
Proof.
  intros Hk. unfold cur_rows.
  rewrite (nth_indep _ dummy_srow (cur_row f nf sv (length G) (nth (length G) G dummy_grec))) by (rewrite map_length, seq_length; lia).
  rewrite (map_nth (fun k0 => cur_row f nf sv k0 (nth k0 G dummy_grec)) (seq 0 (length G)) (length G) k).
  rewrite seq_nth by lia. reflexivity.
Qed.
Lemma length_cur_rows f nf sv G : length (cur_rows f nf sv G) = length G.
Proof. unfold cur_rows. rewrite map_length, seq_length. reflexivity. Qed.

Lemma nth_takeA {A} (d : A) l sel k : (k < length sel)%nat -> nth k (takeA d l sel) d = nth (Z.to_nat (nth k sel 0)) l d.
Proof.
  intros Hk. unfold takeA.
  rewrite (nth_indep _ d ((fun i => nth (Z.to_nat i) l d) 0)) by (rewrite map_length; lia).
  apply (map_nth (fun i => nth (Z.to_nat i) l d)).
Qed.

Lemma cur_rows_takeA f nf sv G sel : in_range (length G) sel ->
  cur_rows f nf (map (fun kc => (fst kc, takeA [] (snd kc) sel)) sv) (takeA dummy_grec G sel)
  = takeA dummy_srow (cur_rows f nf sv G) sel.
Proof.
  intros Hr. apply (nth_ext _ _ dummy_srow dummy_srow).
  - rewrite length_cur_rows, !takeA_length. reflexivity.
  - intros k Hk. rewrite length_cur_rows, takeA_length in Hk.
    rewrite nth_cur_rows by (rewrite takeA_length; lia).
    rewrite (nth_takeA dummy_srow) by lia. rewrite (nth_takeA dummy_grec) by lia.
    unfold in_range in Hr. rewrite Forall_forall in Hr. specialize (Hr (nth k sel 0) (nth_In sel 0 Hk)).
    rewrite nth_cur_rows by lia.
    unfold cur_row. f_equal. unfold cur_cols. f_equal. apply map_ext. intros i.
    rewrite (sv_get_map (fun c => takeA [] c sel)). destruct (sv_get sv i); simpl; [|reflexivity].
    apply (nth_takeA []). lia.
Qed.

Lemma set_nth_map_arange {A} (F : Z -> A) nf j (t : A) : 0 <= j < nf ->
  set_nth j t (map F (arange nf)) = map (fun i => if i =? j then t else F i) (arange nf).
Proof.
  intros Hj. unfold arange.
  assert (G : forall n s jj, (jj < n)%nat ->
            set_nth (Z.of_nat jj) t (map F (arange_from s n)) = map (fun i => if i =? s + Z.of_nat jj then t else F i) (arange_from s n)).
  { induction n as [|n IH]; intros s jj Hjj; [lia|]. destruct jj as [|jj].
    - unfold set_nth. simpl. rewrite Z.add_0_r, Z.eqb_refl. f_equal.
      apply map_ext_in. intros i Hi. apply In_arange_from in Hi. destruct (Z.eqb_spec i s); [lia|reflexivity].
    - specialize (IH (s + 1) jj ltac:(lia)). unfold set_nth in *. rewrite Nat2Z.id in *.
      cbn [arange_from map firstn skipn app]. destruct (Z.eqb_spec s (s + Z.of_nat (S jj))); [lia|]. f_equal.
      replace (s + Z.of_nat (S jj)) with (s + 1 + Z.of_nat jj) by lia. exact IH. }
  specialize (G (Z.to_nat nf) 0 (Z.to_nat j) ltac:(lia)). rewrite Z2Nat.id in G by lia. rewrite Z.add_0_l in G. exact G.
Qed.

Lemma nth_zip_with {A B C} (f : A -> B -> C) a b k da db dc : (k < length a)%nat -> (k < length b)%nat ->
  nth k (zip_with f a b) dc = f (nth k a da) (nth k b db).
Proof.
  revert b k. induction a as [|x a IH]; intros [|y b] k Ha Hb; simpl in *; try lia.
  destruct k; [reflexivity|]. apply IH; lia.
Qed.

Lemma set_nth_app_l {A} j (t : A) (X tail : list A) : 0 <= j -> (Z.to_nat j < length X)%nat ->
  set_nth j t (X ++ tail) = set_nth j t X ++ tail.
Proof.
  intros H0 Hj. unfold set_nth. rewrite firstn_app, skipn_app.
  replace (Z.to_nat j - length X)%nat with 0%nat by lia. simpl firstn. simpl skipn. rewrite app_nil_r.
  destruct (skipn (Z.to_nat j) X) eqn:E.
  - exfalso. assert (length (skipn (Z.to_nat j) X) = 0%nat) by (rewrite E; reflexivity). rewrite skipn_length in H. lia.
  - simpl. rewrite <- app_assoc. reflexivity.
Qed.
Lemma length_arange n : 0 <= n -> length (arange n) = Z.to_nat n.
Proof. intros _. unfold arange. generalize 0. induction (Z.to_nat n); intros; simpl; auto. Qed.

Definition col_id (f : fmt) : Prop := forall j, col_of_field f j = j.

Lemma cur_rows_subst f nf sv G j txt : col_id f -> 0 <= j < nf -> length txt = length G ->
  zip_with (subst_row f j) (cur_rows f nf sv G) txt = cur_rows f nf (sv_set sv j txt) G.
Proof.
  intros Hc Hj Hl. apply (nth_ext _ _ dummy_srow dummy_srow).
  - rewrite zip_with_length, !length_cur_rows. lia.
  - intros k Hk. rewrite zip_with_length, length_cur_rows in Hk.
    rewrite (nth_zip_with _ _ _ _ dummy_srow []) by (rewrite ?length_cur_rows; lia).
    rewrite !nth_cur_rows by lia. unfold subst_row, cur_row; cbn [s_cols s_raw s_eol]. f_equal.
    rewrite Hc. unfold cur_cols. rewrite set_nth_app_l by (rewrite ?map_length, ?length_arange; lia).
    f_equal. rewrite set_nth_map_arange by auto. apply map_ext. intros i.
    rewrite sv_get_set. destruct (i =? j); reflexivity.
Qed.

(* ---------------- programs ---------------- *)
Lemma gview_dummy f : tabular f -> gview f dummy_grec = dummy_arow.
Proof. intros Hf. destruct f; try contradiction; reflexivity. Qed.

Lemma aeval_geval f recs p : tabular f -> aeval (map (gview f) recs) p = map (gview f) (geval recs p).
Proof.
  intros Hf. induction p as [|sel p IH|ps IH|j txt p IH|p IH] using prog_ind'; simpl; auto.
  - rewrite IH, map_takeA, gview_dummy by auto. reflexivity.
  - rewrite concat_map, map_map. f_equal. apply map_ext_Forall. exact IH.
Qed.

Fixpoint fields_ok (nf : Z) (p : prog) : bool :=
  match p with
  | PSrc => true
  | PIdx _ p => fields_ok nf p
  | PCat ps => forallb (fields_ok nf) ps
  | PRepl j _ p => (0 <=? j) && (j <? nf) && fields_ok nf p
  | PTouch p => fields_ok nf p
  end.

Lemma cat_operands f x0 ps st : Inv x0 -> has_concatenate f = true ->
  run f (SLazy x0 []) (PCat ps) = Some st ->
  Forall (fun q => exists x, run f (SLazy x0 []) q = Some (SLazy x []) /\ sv_eval q = []) ps.
Proof.
  intros I0 Hf H. simpl in H.
  destruct (all_some (map (run f (SLazy x0 [])) ps)) as [sts|] eqn:E; try discriminate.
  apply all_some_Forall2 in E.
  assert (K : exists lz, sts = map (fun xs : ext * setv => SLazy (fst xs) (snd xs)) lz /\
              Forall2 (fun q xs => run f (SLazy x0 []) q = Some (SLazy (fst xs) (snd xs)) /\ snd xs = sv_eval q) ps lz).
  { clear H. induction E as [|q s ps sts Hq E IHE].
    - exists []. split; auto.
    - destruct (run_lazy f x0 I0 q s (or_introl Hf) Hq) as (x & -> & _).
      destruct IHE as (lz & -> & F2). exists ((x, sv_eval q) :: lz). split; [reflexivity|]. constructor; auto. }
  destruct K as (lz & -> & F2). rewrite all_some_lazy, Hf in H.
  match type of H with (if ?c then _ else _) = _ => destruct c eqn:Hsv end; try discriminate.
  clear H E. induction F2 as [|q xs ps lz (Hq & Hs) F2 IH]; [constructor|].
  simpl in Hsv. apply andb_true_iff in Hsv. destruct Hsv as (H1 & H2). constructor; auto.
  destruct xs as [x sv]; simpl in *. destruct sv; try discriminate. exists x. split; auto.
Qed.

Section SpecRows.
Context (f : fmt) (nf : Z) (recs : list grec) (x0 : ext).
Hypothesis Hf : tabular f.
Hypothesis Hcid : col_id f.
Hypothesis I0 : Inv x0.
Hypothesis V0 : view x0 = map (gview f) recs.
Hypothesis Hnf : Forall (fun g => 0 <= nf <= len (g_cols g)) recs.

Lemma hascat : has_concatenate f = true.
Proof. destruct f; try contradiction; reflexivity. Qed.

Lemma nrows_geval p x sv : run f (SLazy x0 []) p = Some (SLazy x sv) -> length (x_es x) = length (geval recs p).
Proof.
  intros H. destruct (run_lazy f x0 I0 p _ (or_introl hascat) H) as (x' & E & I & V & _). inversion E; subst x'.
  rewrite <- view_length by (destruct I; auto). rewrite V, V0, aeval_geval by auto. apply map_length.
Qed.

Lemma spec_rows_run : forall p st, fields_ok nf p = true -> run f (SLazy x0 []) p = Some st ->
  fst (spec_eval f (map (srow_of f) recs) p) = cur_rows f nf (sv_eval p) (geval recs p)
  /\ Forall (fun g => 0 <= nf <= len (g_cols g)) (geval recs p) /\ incl (geval recs p) recs.
Proof.
  induction p as [|sel p IH|ps IH|j txt p IH|p IH] using prog_ind'; intros st Hfo H.
  - simpl. split; [symmetry; apply cur_rows_nil; auto|]. split; [auto|apply incl_refl].
  - simpl in H. destruct (run f (SLazy x0 []) p) as [s|] eqn:E; try discriminate.
    destruct (IH s Hfo eq_refl) as (A & B & C).
    destruct (run_lazy f x0 I0 p s (or_introl hascat) E) as (x & -> & _).
    simpl in H. destruct (forallb _ sel) eqn:Hr; try discriminate.
    apply in_range_forallb in Hr. rewrite (nrows_geval p x _ E) in Hr.
    simpl. destruct (spec_eval f (map (srow_of f) recs) p) as [r b]. simpl in A. subst r. simpl.
    split; [symmetry; apply cur_rows_takeA; auto|]. split.
    + apply Forall_takeA; auto.
    + eapply incl_tran; [apply incl_takeA; auto|exact C].
  - pose proof (cat_operands f x0 ps st I0 hascat H) as Ops. simpl in Hfo. simpl.
    assert (G : Forall (fun q => fst (spec_eval f (map (srow_of f) recs) q) = map (srow_of f) (geval recs q)
                                 /\ Forall (fun g => 0 <= nf <= len (g_cols g)) (geval recs q) /\ incl (geval recs q) recs) ps).
    { rewrite Forall_forall in *. intros q Hq. destruct (Ops q Hq) as (x & Hrun & Hsv).
      rewrite forallb_forall in Hfo. destruct (IH q Hq _ (Hfo q Hq) Hrun) as (A & B & C).
      rewrite Hsv in A. rewrite cur_rows_nil in A by auto. auto. }
    clear IH Ops H Hfo. split; [|split].
    + rewrite cur_rows_nil.
      * induction G as [|q ps (A & _) _ IHG]; simpl; [reflexivity|]. rewrite map_app, A, IHG. reflexivity.
      * induction G as [|q ps (_ & B & _) _ IHG]; simpl; [constructor|]. apply Forall_app; auto.
    + induction G as [|q ps (_ & B & _) _ IHG]; simpl; [constructor|]. apply Forall_app; auto.
    + induction G as [|q ps (_ & _ & C) _ IHG]; simpl; [apply incl_nil_l|]. apply incl_app; auto.
  - simpl in H. destruct (run f (SLazy x0 []) p) as [s|] eqn:E; try discriminate.
    simpl in Hfo. apply andb_true_iff in Hfo. destruct Hfo as (Hj & Hfo). apply andb_true_iff in Hj.
    destruct (IH s Hfo eq_refl) as (A & B & C).
    destruct (run_lazy f x0 I0 p s (or_introl hascat) E) as (x & -> & _).
    simpl in H. destruct (Nat.eqb_spec (length txt) (length (x_es x))) as [Hl|Hl]; simpl in H; try discriminate.
    rewrite (nrows_geval p x _ E) in Hl.
    simpl. destruct (spec_eval f (map (srow_of f) recs) p) as [r b]. simpl in A. subst r. simpl.
    split; [apply cur_rows_subst; auto; lia|auto].
  - simpl in H. destruct (run f (SLazy x0 []) p) as [s|] eqn:E; try discriminate.
    simpl. apply (IH s); auto.
Qed.
End SpecRows.

(* ---------------- the text of column i, read off the record bytes ---------------- *)
Lemma col_slice cols : forall i pos (pre rest : list Z), (i < length cols)%nat -> len pre = pos ->
  slice (fst (nth i (col_offsets pos cols) (0, 0))) (fst (nth i (col_offsets pos cols) (0, 0)) + snd (nth i (col_offsets pos cols) (0, 0)))
        (pre ++ intercalate [TAB] cols ++ rest) = nth i cols [].
Proof.
  induction cols as [|c cols IH]; intros i pos pre rest Hi Hp; [simpl in Hi; lia|].
  destruct i as [|i].
  - cbn [col_offsets nth fst snd]. subst pos. pose proof (len_nonneg c).
    destruct cols as [|c' r].
    + simpl intercalate. replace (len pre) with (len pre + 0) at 1 by lia. rewrite slice_mid by lia. apply slice_full; lia.
    + rewrite intercalate_cons2, <- app_assoc. replace (len pre) with (len pre + 0) at 1 by lia.
      rewrite slice_mid by lia. apply slice_full; lia.
  - destruct cols as [|c' r]; [simpl in Hi; lia|].
    cbn [col_offsets nth]. rewrite intercalate_cons2.
    specialize (IH i (pos + len c + 1) (pre ++ c ++ [TAB]) rest).
    rewrite <- !app_assoc in IH. rewrite <- !app_assoc. apply IH; [simpl in *; lia|].
    rewrite !len_app. change (len [TAB]) with 1. lia.
Qed.

Lemma a_field_gview f g i : tabular f -> f <> FSam -> (Z.to_nat i < length (g_cols g))%nat ->
  a_field i (gview f g) = nth (Z.to_nat i) (g_cols g) [].
Proof.
  intros Hf Hs Hi. unfold a_field.
  assert (E : gview f g = {| a_rec := intercalate [TAB] (g_cols g) ++ g_eol g; a_rel := col_offsets 0 (g_cols g) |})
    by (destruct f; try contradiction; try congruence; reflexivity).
  rewrite E. cbn [a_rec a_rel].
  apply (col_slice (g_cols g) (Z.to_nat i) 0 [] (g_eol g)); auto.
Qed.

(* ---------------- matching the rendered rows ---------------- *)
Lemma is_prefix_crlf_none X rest : is_prefix (X ++ [CR; LF]) (X ++ LF :: rest) = None.
Proof. induction X as [|x X IH]; simpl; [reflexivity|]. rewrite Z.eqb_refl. exact IH. Qed.

Lemma match_rows_lf f rows : tabular f ->
  Forall (fun r => s_eol r = [LF] \/ s_eol r = [CR; LF]) rows ->
  match_rows f rows (concat (map (fun r => raw_of f (s_cols r) [] [LF]) rows)) = true.
Proof.
  intros Hf. induction 1 as [|r rows Hr Hrs IH]; [reflexivity|].
  cbn [match_rows map concat].
  assert (E : row_variants f r = [raw_of f (s_cols r) [] (s_eol r); raw_of f (s_cols r) [] [LF]])
    by (destruct f; try contradiction; reflexivity).
  assert (R : forall e, raw_of f (s_cols r) [] e = intercalate [TAB] (s_cols r) ++ e)
    by (intros e; destruct f; try contradiction; reflexivity).
  rewrite E. cbn [map first_some]. destruct Hr as [Hr|Hr]; rewrite Hr.
  - rewrite is_prefix_app. exact IH.
  - rewrite !R. set (X := intercalate [TAB] (s_cols r)).
    set (restout := concat (map (fun r0 : srow => raw_of f (s_cols r0) [] [LF]) rows)) in *.
    assert (P1 : is_prefix (X ++ [CR; LF]) ((X ++ [LF]) ++ restout) = None) by (rewrite <- app_assoc; apply is_prefix_crlf_none).
    assert (P2 : is_prefix (X ++ [LF]) ((X ++ [LF]) ++ restout) = Some restout) by apply is_prefix_app.
    rewrite P1, P2. exact IH.
Qed.

(* ---------------- composition ---------------- *)
Definition exact_fmt (f : fmt) (nf : Z) : Prop := (f = FDelim nf \/ (f = FVcf nf /\ nf <= 8)) /\ 1 <= nf.
Definition rec_exact (nf : Z) (g : grec) : Prop :=
  len (g_cols g) = nf /\ (g_eol g = [LF] \/ g_eol g = [CR; LF]).

Lemma pure_flag f src p : snd (spec_eval f src p) = true -> cat_free p = true /\ repl_free p = true.
Proof.
  induction p as [|sel p IH|ps IH|j txt p IH|p IH] using prog_ind'; simpl; intros H; auto; try discriminate.
  - destruct (spec_eval f src p) as [r b]. simpl in *. auto.
  - destruct (spec_eval f src p) as [r b]. simpl in *. discriminate.
Qed.

Lemma exact_tabular f nf : exact_fmt f nf -> tabular f /\ col_id f /\ f <> FSam /\ n_fields f = nf
  /\ (forall v flds, join_row v f flds = raw_of f flds [] [LF])
  /\ (forall i a, 0 <= i < nf -> a_field_text f i a = a_field i a) /\ (forall v, width_ok f v).
Proof.
  intros ([-> | (-> & H8)] & H1); repeat split; try exact I; try discriminate; try reflexivity; auto.
  - intros i a Hi. simpl. destruct (Z.eqb_spec i 8); [lia|reflexivity].
  - intros v. simpl. intros; lia.
Qed.

Theorem exact_program_end_to_end v f nf recs x0 p out :
  exact_fmt f nf -> read v f (layout f recs) = Some (SLazy x0 []) -> Inv x0 -> view x0 = map (gview f) recs ->
  Forall (rec_exact nf) recs -> fields_ok nf p = true ->
  model_out_v v f (layout f recs) p = Some out -> spec_out_ok f recs p (Some out) = true.
Proof.
  intros Hex Hread I0 V0 Hrecs Hfo Hm.
  destruct (exact_tabular f nf Hex) as (Hf & Hcid & Hns & Hn & Hjoin & Haft & Hw).
  assert (H1nf : 1 <= nf) by (destruct Hex; auto).
  assert (Hnf : Forall (fun g => 0 <= nf <= len (g_cols g)) recs) by (eapply Forall_impl; [|exact Hrecs]; intros g (A & _); lia).
  unfold model_out_v in Hm. rewrite Hread in Hm.
  destruct (run f (SLazy x0 []) p) as [st|] eqn:Hrun; try discriminate.
  destruct (spec_rows_run f nf recs x0 Hf Hcid I0 V0 Hnf p st Hfo Hrun) as (Rows & Gnf & Ginc).
  assert (Hc : has_concatenate f = true) by (destruct f; try contradiction; reflexivity).
  pose proof (program_write v f x0 p out I0 (Hw _) (or_introl Hc)) as PW. rewrite Hrun in PW. specialize (PW Hm).
  unfold spec_out_ok.
  destruct (spec_eval f (map (srow_of f) recs) p) as [rows pure] eqn:Esp. simpl in Rows.
  destruct pure.
  - (* only selections *)
    assert (Hp : snd (spec_eval f (map (srow_of f) recs) p) = true) by (rewrite Esp; reflexivity).
    destruct (pure_flag _ _ _ Hp) as (Hcf & Hrf).
    pose proof (selection_meets_spec v f recs x0 p out I0 (Hw _) V0 Hcf Hrf) as S. rewrite Hrun in S. specialize (S Hm).
    unfold spec_out_ok in S. rewrite Esp in S. exact S.
  - rewrite V0, aeval_geval in PW by auto. set (G := geval recs p) in *.
    destruct (sv_eval p) as [|kc sv'] eqn:Esv.
    + (* concatenations only: the original bytes *)
      subst out. rewrite Rows. rewrite cur_rows_nil by auto.
      replace (map a_rec (map (gview f) G)) with (map s_raw (map (srow_of f) G))
        by (rewrite !map_map; apply map_ext; intros g; destruct f; try contradiction; reflexivity).
      apply match_rows_raw_tab; auto. rewrite Forall_map. apply Forall_forall. intros g _.
      unfold raw_row, srow_of; simpl. unfold g_raw. destruct f; try contradiction; reflexivity.
    + (* replaced fields *)
      set (sv := kc :: sv') in *.
      assert (Hout : out = concat (map (fun r => raw_of f (s_cols r) [] [LF]) rows)).
      { subst out. f_equal. rewrite Rows. unfold render_rows, cur_rows. rewrite map_length, map_map.
        apply map_ext_in. intros k Hk. apply in_seq in Hk. unfold render_row, cur_row; cbn [s_cols].
        assert (Hin : In (nth k G dummy_grec) G) by (apply nth_In; lia).
        assert (Hlenk : len (g_cols (nth k G dummy_grec)) = nf).
        { rewrite Forall_forall in Hrecs. destruct (Hrecs _ (Ginc _ Hin)) as (A & _). exact A. }
        rewrite Hjoin, Hn. f_equal. unfold cur_cols.
        rewrite skipn_all2 by (unfold len in Hlenk; lia). rewrite app_nil_r.
        apply map_ext_in. intros i Hi. apply In_arange in Hi.
        destruct (sv_get sv i); [reflexivity|].
        rewrite Haft by auto.
        replace (nth k (map (gview f) G) dummy_arow) with (gview f (nth k G dummy_grec))
          by (rewrite <- (gview_dummy f Hf); symmetry; apply map_nth).
        apply a_field_gview; auto. unfold len in Hlenk. lia. }
      rewrite Hout. apply match_rows_lf; auto.
      rewrite Rows. unfold cur_rows. rewrite Forall_map. apply Forall_forall. intros k Hk. apply in_seq in Hk.
      cbn [cur_row s_eol].
      assert (Hin : In (nth k G dummy_grec) recs) by (apply Ginc; apply nth_In; lia).
      rewrite Forall_forall in Hrecs. destruct (Hrecs _ Hin) as (_ & He). exact He.
Qed.

(* FILE BYTES -> WRITTEN BYTES, every accepted program incl. replacements: BED/BED6/narrowPeak (k columns = entry fields)
   and VCFBuffer on 8-column files; LF files for either code variant, CRLF files for the repaired extractor *)
Theorem delimited_program_end_to_end v f k e recs p out :
  exact_fmt f (Z.of_nat k) -> (1 <= k)%nat -> recs <> [] ->
  (e = [LF] \/ (e = [CR; LF] /\ v_crlf v = true)) -> Forall (rec_wf2 k e) recs ->
  fields_ok (Z.of_nat k) p = true ->
  model_out_v v f (layout f recs) p = Some out -> spec_out_ok f recs p (Some out) = true.
Proof.
  intros Hex Hk Hn He H Hfo Hm.
  assert (Hd : delimited f) by (destruct Hex as ([-> | (-> & _)] & _); exact I).
  assert (Hx : exists x0, from_delimited_gen (v_crlf v) (layout f recs) = Some x0 /\ Inv x0 /\ view x0 = map (gview f) recs).
  { destruct He as [-> | (-> & Hv)].
    - destruct (from_delimited_correct k f recs (v_crlf v) Hd Hk Hn) as (x & A & B & C & _).
      + eapply Forall_impl; [|exact H]. intros r (P & Q & R). repeat split; auto.
      + exists x; auto.
    - rewrite Hv. destruct (from_delimited_repaired_correct k f [CR; LF] recs Hd Hk Hn (or_intror eq_refl) H) as (x & A & B & C & _).
      exists x; auto. }
  destruct Hx as (x0 & Hx & I0 & V0).
  apply (exact_program_end_to_end v f (Z.of_nat k) recs x0 p out); auto.
  - destruct f; try contradiction; simpl; rewrite Hx; reflexivity.
  - eapply Forall_impl; [|exact H]. intros r (P & _ & R). split; [unfold len; congruence|].
    rewrite R. destruct He as [-> | (-> & _)]; auto.
Qed.

(* ================= formats with a rest-of-line field: VCFBuffer2 (8 plain fields + genotype columns) and SAM (11 + tags) ================= *)
Lemma rest_slice cols : forall i pos (pre rest : list Z), (i < length cols)%nat -> len pre = pos ->
  slice (fst (nth i (col_offsets pos cols) (0, 0))) (len pre + len (intercalate [TAB] cols))
        (pre ++ intercalate [TAB] cols ++ rest) = intercalate [TAB] (skipn i cols).
Proof.
  induction cols as [|c cols IH]; intros i pos pre rest Hi Hp; [simpl in Hi; lia|].
  destruct i as [|i].
  - cbn [col_offsets nth fst skipn]. subst pos. pose proof (len_nonneg (intercalate [TAB] (c :: cols))).
    replace (len pre) with (len pre + 0) at 1 by lia. rewrite slice_mid by lia. apply slice_full; lia.
  - destruct cols as [|c' r]; [simpl in Hi; lia|].
    cbn [col_offsets nth skipn]. rewrite intercalate_cons2.
    specialize (IH i (pos + len c + 1) (pre ++ c ++ [TAB]) rest).
    rewrite <- !app_assoc in IH. rewrite <- !app_assoc.
    replace (len pre + len (c ++ [TAB] ++ intercalate [TAB] (c' :: r))) with (len (pre ++ c ++ [TAB]) + len (intercalate [TAB] (c' :: r)))
      by (rewrite !len_app; lia).
    apply IH; [simpl in *; lia|]. rewrite !len_app. change (len [TAB]) with 1. lia.
Qed.

Lemma col_offsets_next cols : forall i pos, (S i < length cols)%nat ->
  fst (nth (S i) (col_offsets pos cols) (0, 0)) = fst (nth i (col_offsets pos cols) (0, 0)) + snd (nth i (col_offsets pos cols) (0, 0)) + 1.
Proof.
  induction cols as [|c cols IH]; intros i pos Hi; [simpl in Hi; lia|].
  destruct i as [|i].
  - destruct cols as [|c' r]; [simpl in Hi; lia|]. reflexivity.
  - cbn [col_offsets nth]. apply IH. simpl in *. lia.
Qed.

Lemma col_offsets_last_end cols : forall pos, cols <> [] ->
  fst (last (col_offsets pos cols) (0, 0)) + snd (last (col_offsets pos cols) (0, 0)) = pos + len (intercalate [TAB] cols).
Proof.
  induction cols as [|c cols IH]; intros pos Hn; [congruence|]. destruct cols as [|c' r].
  - reflexivity.
  - change (col_offsets pos (c :: c' :: r)) with ((pos, len c) :: col_offsets (pos + len c + 1) (c' :: r)).
    change (last ((pos, len c) :: col_offsets (pos + len c + 1) (c' :: r)) (0, 0)) with (last (col_offsets (pos + len c + 1) (c' :: r)) (0, 0)).
    rewrite IH by discriminate. rewrite intercalate_cons2, !len_app. change (len [TAB]) with 1. lia.
Qed.

Lemma intercalate_flat (sep : list Z) X T : T <> [] -> intercalate sep (X ++ [intercalate sep T]) = intercalate sep (X ++ T).
Proof.
  intros HT. induction X as [|x X IH]; [destruct T; [congruence|reflexivity]|].
  change ((x :: X) ++ [intercalate sep T]) with (x :: (X ++ [intercalate sep T])).
  change ((x :: X) ++ T) with (x :: (X ++ T)).
  destruct (X ++ [intercalate sep T]) as [|a A] eqn:E1; [destruct X; discriminate|].
  destruct (X ++ T) as [|b B] eqn:E2; [destruct X; destruct T; try discriminate; congruence|].
  rewrite (intercalate_cons2 sep x a A), (intercalate_cons2 sep x b B). rewrite IH. reflexivity.
Qed.

Lemma sv_none_beyond m p : fields_ok m p = true -> forall i, m <= i -> sv_get (sv_eval p) i = None.
Proof.
  induction p as [|sel p IH|ps IH|j txt p IH|p IH] using prog_ind'; cbn [sv_eval fields_ok]; intros H i Hi; auto.
  - rewrite (sv_get_map (fun c => takeA [] c sel)). rewrite IH by auto. reflexivity.
  - apply andb_true_iff in H. destruct H as (Hj & H). apply andb_true_iff in Hj.
    rewrite sv_get_set. destruct (Z.eqb_spec i j); [lia|]. apply IH; auto.
Qed.

Lemma len_le_sum (cols : list (list Z)) : len cols <= sumZ (map (fun c => len c + 1) cols).
Proof.
  induction cols as [|c cs IH]; [unfold len; simpl; lia|].
  rewrite len_cons. cbn [map sumZ fold_right]. pose proof (len_nonneg c). unfold sumZ in IH. lia.
Qed.

Definition rest_fmt (f : fmt) (m : Z) : Prop := (f = FVcf 9 /\ m = 8) \/ (f = FSam /\ m = 11).
Definition rec_rest (f : fmt) (g : grec) : Prop :=
  g_eol g = [LF] /\
  match f with
  | FSam => 11 <= len (g_cols g) /\ Forall (fun c : list Z => c <> []) (skipn 11 (g_cols g)) /\ Forall clean (g_cols g)
  | _ => 9 <= len (g_cols g)
  end.

Lemma nth_firstn_lt {A} (l : list A) n i d : (i < n)%nat -> nth i (firstn n l) d = nth i l d.
Proof. revert l i. induction n; intros [|x l] [|i] H; simpl; auto; try lia. apply IHn. lia. Qed.

Lemma plain_field_gview f m g i : rest_fmt f m -> rec_rest f g -> 0 <= i < m ->
  a_field_text f i (gview f g) = nth (Z.to_nat i) (g_cols g) [].
Proof.
  intros [(-> & ->) | (-> & ->)] (He & Hl) Hi.
  - unfold a_field_text. destruct (Z.eqb_spec i 8); [lia|]. apply a_field_gview; [exact I|discriminate|]. unfold len in Hl. lia.
  - unfold a_field_text. destruct (Z.eqb_spec i 11); [lia|]. destruct Hl as (Hl & _ & _).
    unfold a_field, gview. cbn [a_rec a_rel]. rewrite nth_firstn_lt by lia.
    unfold g_raw, raw_of. apply (col_slice (g_cols g) (Z.to_nat i) 0 [] (g_eol g)); auto. unfold len in Hl. lia.
Qed.

Lemma rest_field_gview f m g : rest_fmt f m -> rec_rest f g ->
  a_field_text f m (gview f g) = intercalate [TAB] (skipn (Z.to_nat m) (g_cols g)).
Proof.
  intros [(-> & ->) | (-> & ->)] (He & Hl).
  - unfold a_field_text. change (8 =? 8) with true. cbv iota. unfold a_rest, gview. cbn [a_rec a_rel].
    unfold g_raw, raw_of. rewrite He, len_app. change (len [LF]) with 1.
    replace (len (intercalate [TAB] (g_cols g)) + 1 - 1) with (len (@nil Z) + len (intercalate [TAB] (g_cols g))) by (change (len (@nil Z)) with 0; lia).
    apply (rest_slice (g_cols g) 8 0 [] [LF]); auto. unfold len in Hl. lia.
  - destruct Hl as (Hl & _ & Hclean). unfold a_field_text. change (11 =? 11) with true. cbv iota. unfold a_extra, gview. cbn [a_rec a_rel].
    set (L := col_offsets 0 (g_cols g)). set (I := intercalate [TAB] (g_cols g)).
    assert (HL : length L = length (g_cols g)) by apply length_col_offsets.
    assert (Hraw : g_raw FSam g = I ++ [LF]) by (unfold g_raw, raw_of; rewrite He; reflexivity).
    rewrite Hraw, len_app. change (len [LF]) with 1.
    assert (Hee : extra_end (I ++ [LF]) (len I + 1) = len I).
    { unfold extra_end. rewrite nthZ_no_cr; [lia|]. apply Forall_app. split; [apply no_cr_intercalate; auto|].
      constructor; [unfold LF, CR; lia|constructor]. }
    rewrite Hee.
    assert (Hl' : (11 <= length (g_cols g))%nat) by (unfold len in Hl; lia).
    assert (Hlast : last (firstn 11 L) (0, 0) = nth 10 L (0, 0)).
    { rewrite (last_nth (firstn 11 L)). rewrite firstn_length.
      replace (Nat.min 11 (length L) - 1)%nat with 10%nat by lia. apply nth_firstn_lt. lia. }
    rewrite Hlast.
    assert (Hok := col_offsets_ok (g_cols g) 0). fold L in Hok.
    assert (Hne : g_cols g <> []) by (intro Q; rewrite Q in Hl'; simpl in Hl'; lia).
    rewrite <- (len_intercalate (g_cols g) Hne) in Hok. fold I in Hok.
    destruct (Z.eq_dec (len (g_cols g)) 11) as [E11|N11].
    + (* no tag columns *)
      assert (Hn10 : nth 10 L (0, 0) = last L (0, 0)).
      { rewrite (last_nth L). f_equal. unfold len in E11. lia. }
      rewrite Hn10. pose proof (col_offsets_last_end (g_cols g) 0 Hne) as Hend. fold L I in Hend.
      replace (fst (last L (0, 0)) + snd (last L (0, 0)) + 1) with (len I + 1) by lia.
      replace (len I - (len I + 1)) with (-1) by lia. change (Z.max (-1) 0) with 0.
      rewrite slice_empty by lia. rewrite skipn_all2 by (unfold len in E11; lia). reflexivity.
    + (* tag columns: from the start of column 11 to the end of the text *)
      assert (H12 : (11 < length (g_cols g))%nat) by (unfold len in *; lia).
      pose proof (col_offsets_next (g_cols g) 10 0 H12) as Hnx. fold L in Hnx.
      rewrite <- Hnx.
      assert (Hin : In (nth 11 L (0, 0)) L) by (apply nth_In; lia).
      rewrite Forall_forall in Hok. destruct (Hok _ Hin) as (A & B & C).
      set (st := fst (nth 11 L (0, 0))) in *.
      replace (Z.max (len I - st) 0) with (len I - st) by lia.
      replace (st + (len I - st)) with (len (@nil Z) + len I) by (change (len (@nil Z)) with 0; lia).
      apply (rest_slice (g_cols g) 11 0 [] [LF]); auto.
Qed.

Lemma arange_snoc m : 0 <= m -> arange (m + 1) = arange m ++ [m].
Proof.
  intros Hm. unfold arange. replace (Z.to_nat (m + 1)) with (S (Z.to_nat m)) by lia.
  assert (G : forall n s, arange_from s (S n) = arange_from s n ++ [s + Z.of_nat n]).
  { induction n as [|n IH]; intros s; [simpl; f_equal; lia|].
    change (arange_from s (S (S n))) with (s :: arange_from (s + 1) (S n)). rewrite IH. simpl. f_equal. f_equal. f_equal. lia. }
  rewrite G. f_equal. f_equal. lia.
Qed.

Lemma drop_empty_last_snoc' A (x : list Z) : drop_empty_last (A ++ [x]) = match x with [] => A | _ => A ++ [x] end.
Proof. unfold drop_empty_last. rewrite rev_app_distr. simpl. destruct x; [apply rev_involutive|reflexivity]. Qed.

Lemma intercalate_ne (sep : list Z) T : T <> [] -> Forall (fun c : list Z => c <> []) T -> intercalate sep T <> [].
Proof.
  intros Hn H. destruct T as [|c T']; [congruence|]. inversion H as [|? ? Hc _]; subst.
  destruct T' as [|c' T'']; [exact Hc|]. rewrite intercalate_cons2. destruct c; [congruence|discriminate].
Qed.

Lemma rest_join v f m g X : rest_fmt f m -> rec_rest f g -> (f = FSam -> v_samtab v = true) ->
  join_row v f (X ++ [intercalate [TAB] (skipn (Z.to_nat m) (g_cols g))])
  = raw_of f (X ++ skipn (Z.to_nat m) (g_cols g)) [] [LF].
Proof.
  intros [(-> & ->) | (-> & ->)] (He & Hl) Hv.
  - unfold join_row, raw_of. rewrite intercalate_flat; [reflexivity|].
    intro Q. assert (length (skipn (Z.to_nat 8) (g_cols g)) = 0%nat) by (rewrite Q; reflexivity).
    rewrite skipn_length in H. unfold len in Hl. lia.
  - destruct Hl as (Hl & Hne & _). unfold join_row, raw_of. rewrite (Hv eq_refl). rewrite drop_empty_last_snoc'.
    change (Z.to_nat 11) with 11%nat. remember (skipn 11 (g_cols g)) as T eqn:ET.
    destruct T as [|c T'].
    + simpl intercalate. rewrite app_nil_r. reflexivity.
    + assert (HTn : intercalate [TAB] (c :: T') <> []) by (apply intercalate_ne; [discriminate|exact Hne]).
      destruct (intercalate [TAB] (c :: T')) eqn:EI; [congruence|]. rewrite <- EI.
      rewrite intercalate_flat by discriminate. reflexivity.
Qed.

Theorem rest_program_end_to_end v f m recs x0 p out :
  rest_fmt f m -> (f = FSam -> v_samtab v = true) ->
  read v f (layout f recs) = Some (SLazy x0 []) -> Inv x0 -> view x0 = map (gview f) recs ->
  Forall (rec_rest f) recs -> fields_ok m p = true ->
  model_out_v v f (layout f recs) p = Some out -> spec_out_ok f recs p (Some out) = true.
Proof.
  intros Hrf Hv Hread I0 V0 Hrecs Hfo Hm.
  assert (Hf : tabular f) by (destruct Hrf as [(-> & _) | (-> & _)]; exact I).
  assert (Hcid : col_id f) by (destruct Hrf as [(-> & _) | (-> & _)]; intros j; reflexivity).
  assert (Hm0 : 0 <= m) by (destruct Hrf as [(_ & ->) | (_ & ->)]; lia).
  assert (Hn : n_fields f = m + 1) by (destruct Hrf as [(-> & ->) | (-> & ->)]; reflexivity).
  assert (Hnf : Forall (fun g => 0 <= m <= len (g_cols g)) recs).
  { eapply Forall_impl; [|exact Hrecs]. intros g (_ & Hl). destruct Hrf as [(-> & ->) | (-> & ->)]; [lia|destruct Hl; lia]. }
  assert (W : width_ok f (view x0)).
  { rewrite V0. destruct Hrf as [(-> & ->) | (-> & ->)]; simpl.
    - intros _. unfold width_gt. rewrite Forall_map. eapply Forall_impl; [|exact Hrecs]. intros g (_ & Hl). simpl.
      rewrite length_col_offsets. unfold len in Hl. lia.
    - unfold width_gt. rewrite !Forall_map. split.
      + eapply Forall_impl; [|exact Hrecs]. intros g (_ & Hl & _).
        unfold gview; cbn [a_rel]. rewrite firstn_length, length_col_offsets. unfold len in Hl. lia.
      + eapply Forall_impl; [|exact Hrecs]. intros g (He & Hl & _).
        unfold gview; cbn [a_rec]. unfold g_raw, raw_of. rewrite He, len_app. change (len [LF]) with 1.
        assert (Hne : g_cols g <> []) by (intro Q; rewrite Q in Hl; change (len (@nil (list Z))) with 0 in Hl; lia).
        pose proof (len_intercalate (g_cols g) Hne) as HI.
        pose proof (len_le_sum (g_cols g)). lia. }
  unfold model_out_v in Hm. rewrite Hread in Hm.
  destruct (run f (SLazy x0 []) p) as [st|] eqn:Hrun; try discriminate.
  destruct (spec_rows_run f m recs x0 Hf Hcid I0 V0 Hnf p st Hfo Hrun) as (Rows & Gnf & Ginc).
  assert (Hc : has_concatenate f = true) by (destruct f; try contradiction; reflexivity).
  pose proof (program_write v f x0 p out I0 W (or_introl Hc)) as PW. rewrite Hrun in PW. specialize (PW Hm).
  unfold spec_out_ok.
  destruct (spec_eval f (map (srow_of f) recs) p) as [rows pure] eqn:Esp. simpl in Rows.
  destruct pure.
  - assert (Hp : snd (spec_eval f (map (srow_of f) recs) p) = true) by (rewrite Esp; reflexivity).
    destruct (pure_flag _ _ _ Hp) as (Hcf & Hrf').
    pose proof (selection_meets_spec v f recs x0 p out I0 W V0 Hcf Hrf') as S. rewrite Hrun in S. specialize (S Hm).
    unfold spec_out_ok in S. rewrite Esp in S. exact S.
  - rewrite V0, aeval_geval in PW by auto. set (G := geval recs p) in *.
    destruct (sv_eval p) as [|kc sv'] eqn:Esv.
    + subst out. rewrite Rows. rewrite cur_rows_nil by auto.
      replace (map a_rec (map (gview f) G)) with (map s_raw (map (srow_of f) G))
        by (rewrite !map_map; apply map_ext; intros g; destruct f; try contradiction; reflexivity).
      apply match_rows_raw_tab; auto. rewrite Forall_map. apply Forall_forall. intros g _.
      unfold raw_row, srow_of; simpl. unfold g_raw. destruct f; try contradiction; reflexivity.
    + assert (Hout : out = concat (map (fun r => raw_of f (s_cols r) [] [LF]) rows)).
      { subst out. f_equal. rewrite Rows. unfold render_rows, cur_rows. rewrite map_length, map_map.
        apply map_ext_in. intros k Hk. apply in_seq in Hk. unfold render_row, cur_row; cbn [s_cols].
        assert (Hin : In (nth k G dummy_grec) G) by (apply nth_In; lia).
        assert (Hg : rec_rest f (nth k G dummy_grec)) by (rewrite Forall_forall in Hrecs; apply Hrecs; apply Ginc; exact Hin).
        replace (nth k (map (gview f) G) dummy_arow) with (gview f (nth k G dummy_grec))
          by (rewrite <- (gview_dummy f Hf); symmetry; apply map_nth).
        rewrite Hn, arange_snoc, map_app by auto. cbn [map].
        rewrite <- Esv. rewrite (sv_none_beyond m p Hfo m) by lia.
        rewrite (rest_field_gview f m _ Hrf Hg). rewrite (rest_join v f m _ _ Hrf Hg Hv).
        f_equal. unfold cur_cols. f_equal. apply map_ext_in. intros i Hi. apply In_arange in Hi.
        destruct (sv_get (sv_eval p) i); [reflexivity|]. apply (plain_field_gview f m); auto. }
      rewrite Hout. apply match_rows_lf; auto.
      rewrite Rows. unfold cur_rows. rewrite Forall_map. apply Forall_forall. intros k Hk. apply in_seq in Hk.
      cbn [cur_row s_eol].
      assert (Hin : In (nth k G dummy_grec) recs) by (apply Ginc; apply nth_In; lia).
      rewrite Forall_forall in Hrecs. destruct (Hrecs _ Hin) as (He & _). left. exact He.
Qed.

(* SAM, the repaired join: every accepted program, replacements of any of the 11 mandatory fields included *)
Theorem sam_program_end_to_end v recs p out :
  v_samtab v = true -> recs <> [] -> Forall sam_rec_wf recs ->
  Forall (fun r => Forall (fun c : list Z => c <> []) (skipn 11 (g_cols r))) recs ->
  fields_ok 11 p = true ->
  model_out_v v FSam (layout FSam recs) p = Some out -> spec_out_ok FSam recs p (Some out) = true.
Proof.
  intros Hv Hn H Htags Hfo Hm.
  destruct (from_sam_correct recs Hn H) as (x0 & Hx & I0 & V0 & _ & _).
  apply (rest_program_end_to_end v FSam 11 recs x0 p out); auto.
  - right. split; reflexivity.
  - simpl. rewrite Hx. reflexivity.
  - rewrite Forall_forall in *. intros r Hr. destruct (H r Hr) as ((H11 & Hcl) & He). split; [exact He|].
    split; [unfold len; lia|]. split; [apply Htags; auto|exact Hcl].
Qed.

(* VCFBuffer2 (8 plain fields + FORMAT/genotype columns kept as the rest of the line), LF *)
Theorem vcf2_program_end_to_end v k recs p out :
  (9 <= k)%nat -> recs <> [] -> Forall (rec_wf k) recs -> fields_ok 8 p = true ->
  model_out_v v (FVcf 9) (layout (FVcf 9) recs) p = Some out -> spec_out_ok (FVcf 9) recs p (Some out) = true.
Proof.
  intros Hk Hn H Hfo Hm.
  destruct (from_delimited_correct k (FVcf 9) recs (v_crlf v) I ltac:(lia) Hn H) as (x0 & Hx & I0 & V0 & _).
  apply (rest_program_end_to_end v (FVcf 9) 8 recs x0 p out); auto.
  - left. split; reflexivity.
  - intros Q; discriminate.
  - simpl. rewrite Hx. reflexivity.
  - eapply Forall_impl; [|exact H]. intros r (HL & _ & He). split; [exact He|]. unfold len. lia.
Qed.

(* Proofs/C03_fasta.v — MultiLineFastaBuffer.from_data: the line-length arithmetic and the fill produce
   the FASTA layout (header line, sequence in lines of w, last line (L-1) mod w + 1) for every table
   whose sequences are non-empty. *)
From Coq Require Import ZArith List Bool Lia Arith.
From BNP Require Import Base.Prims Base.PrimsFacts Model.C03.
Import ListNotations.
Open Scope Z_scope.

(* ---------- wrap ---------- *)
Lemma wrap_fuel_irrel w f1 : (1 <= w)%nat -> forall f2 s, (length s <= f1)%nat -> (length s <= f2)%nat ->
  wrap_fuel f1 w s = wrap_fuel f2 w s.
Proof.
  intros Hw. induction f1 as [|f1 IH]; intros f2 s H1 H2.
  - destruct s; [|simpl in H1; lia]. destruct f2; reflexivity.
  - destruct s as [|x s]; [destruct f2; reflexivity|].
    destruct f2 as [|f2]; [simpl in H2; lia|].
    cbn [wrap_fuel]. do 2 f_equal.
    apply IH; rewrite skipn_length; simpl length in *; lia.
Qed.
Lemma wrap_unfold w s : 1 <= w -> s <> [] ->
  wrap w s = firstn (Z.to_nat w) s ++ [10] ++ wrap w (skipn (Z.to_nat w) s).
Proof.
  intros Hw Hs. unfold wrap. destruct s as [|x s]; [congruence|].
  cbn [length wrap_fuel]. do 2 f_equal.
  apply wrap_fuel_irrel; [lia| |]; rewrite skipn_length; simpl length; lia.
Qed.
Lemma wrap_nil w : wrap w [] = [].
Proof. reflexivity. Qed.
Lemma wrap_short w s : 1 <= w -> s <> [] -> len s <= w -> wrap w s = s ++ [10].
Proof.
  intros Hw Hs Hl. rewrite wrap_unfold by assumption.
  unfold len in Hl. rewrite firstn_all2 by lia. rewrite skipn_all2 by lia. reflexivity.
Qed.

(* ---------- set_nth / set_many over blocks ---------- *)
Lemma set_nth_length {A} i (v : A) l : length (set_nth i v l) = length l.
Proof. revert i; induction l as [|x l IH]; intros [|i]; cbn; auto. Qed.
Lemma set_nth_app_l {A} i (v : A) l1 l2 : (i < length l1)%nat ->
  set_nth i v (l1 ++ l2) = set_nth i v l1 ++ l2.
Proof.
  revert i; induction l1 as [|x l1 IH]; intros i Hi; [simpl in Hi; lia|].
  destruct i; cbn; [reflexivity|]. rewrite IH by (simpl in Hi; lia). reflexivity.
Qed.
Lemma set_nth_app_r {A} i (v : A) l1 l2 :
  set_nth (length l1 + i) v (l1 ++ l2) = l1 ++ set_nth i v l2.
Proof. induction l1 as [|x l1 IH]; cbn; [reflexivity|]. rewrite IH. reflexivity. Qed.

Lemma set_many_length idx : forall vals l, length (set_many idx vals l) = length l.
Proof.
  induction idx as [|i idx IH]; intros vals l; [reflexivity|].
  destruct vals as [|v vals]; [reflexivity|]. cbn. rewrite IH, set_nth_length. reflexivity.
Qed.
(* indices beyond a prefix leave the prefix alone *)
Lemma set_many_shift idx : forall vals (A R : list Z),
  Forall (fun i => 0 <= i) idx ->
  set_many (map (fun i => i + len A) idx) vals (A ++ R) = A ++ set_many idx vals R.
Proof.
  induction idx as [|i idx IH]; intros vals A R Hp; [reflexivity|].
  destruct vals as [|v vals]; [reflexivity|].
  inversion Hp as [|? ? Hi Hp']; subst. cbn [map set_many].
  replace (Z.to_nat (i + len A)) with (length A + Z.to_nat i)%nat by (unfold len; lia).
  rewrite set_nth_app_r. apply IH, Hp'.
Qed.
Lemma set_many_block i idx v vals (A R : list Z) :
  0 <= i < len A -> Forall (fun i => 0 <= i) idx ->
  set_many (i :: map (fun j => j + len A) idx) (v :: vals) (A ++ R)
  = set_nth (Z.to_nat i) v A ++ set_many idx vals R.
Proof.
  intros Hi Hp. cbn [set_many]. rewrite set_nth_app_l by (unfold len in Hi; lia).
  replace (len A) with (len (set_nth (Z.to_nat i) v A)) by (unfold len; rewrite set_nth_length; reflexivity).
  apply set_many_shift, Hp.
Qed.

(* ---------- entry starts ---------- *)
(* header line index of every entry, counted from offset o, for line counts nls *)
Fixpoint hdrs (o : Z) (nls : list Z) : list Z :=
  match nls with [] => [] | n :: r => o :: hdrs (o + (n + 1)) r end.
Fixpoint lasts (o : Z) (nls : list Z) : list Z :=
  match nls with [] => [] | n :: r => (o + n) :: lasts (o + (n + 1)) r end.

Lemma cumsum_from_starts o nls :
  cumsum_from o (map (fun n => n + 1) nls) = map (fun s => s + 1) (lasts o nls).
Proof.
  revert o; induction nls as [|n r IH]; intros o; [reflexivity|].
  cbn [map cumsum_from lasts]. rewrite IH. f_equal. lia.
Qed.
Lemma removelast_starts o nls :
  removelast (o :: cumsum_from o (map (fun n => n + 1) nls)) = hdrs o nls.
Proof.
  revert o; induction nls as [|n r IH]; intros o; [reflexivity|].
  cbn [map cumsum_from hdrs]. rewrite <- IH.
  remember (cumsum_from (o + (n + 1)) (map (fun n0 => n0 + 1) r)) as t.
  reflexivity.
Qed.
Lemma hdrs_shift o k nls : hdrs (o + k) nls = map (fun i => i + k) (hdrs o nls).
Proof.
  revert o; induction nls as [|n r IH]; intros o; [reflexivity|].
  cbn [hdrs map]. f_equal. replace (o + k + (n + 1)) with (o + (n + 1) + k) by lia. apply IH.
Qed.
Lemma lasts_shift o k nls : lasts (o + k) nls = map (fun i => i + k) (lasts o nls).
Proof.
  revert o; induction nls as [|n r IH]; intros o; [reflexivity|].
  cbn [lasts map]. f_equal; [lia|]. replace (o + k + (n + 1)) with (o + (n + 1) + k) by lia. apply IH.
Qed.
Lemma hdrs_ge o nls : Forall (fun n => 0 <= n) nls -> Forall (fun i => o <= i) (hdrs o nls).
Proof.
  revert o; induction nls as [|n r IH]; intros o Hn; [constructor|].
  inversion Hn; subst. cbn. constructor; [lia|].
  eapply Forall_impl; [|apply IH; assumption]. cbn; intros; lia.
Qed.
Lemma lasts_ge o nls : Forall (fun n => 0 <= n) nls -> Forall (fun i => o <= i) (lasts o nls).
Proof.
  revert o; induction nls as [|n r IH]; intros o Hn; [constructor|].
  inversion Hn; subst. cbn. constructor; [lia|].
  eapply Forall_impl; [|apply IH; assumption]. cbn; intros; lia.
Qed.

Ltac Zify.zify_post_hook ::= Z.to_euclidean_division_equations.

Section Fasta.
Variable w : Z.
Hypothesis Hw : 1 <= w.

Definition nl (L : Z) : Z := (L - 1) / w + 1.
Definition lastl (L : Z) : Z := (L - 1) mod w + 1.
Lemma nl_pos L : 1 <= L -> 1 <= nl L.
Proof. unfold nl. intros. assert (0 <= (L - 1) / w) by (apply Z.div_pos; lia). lia. Qed.
Lemma lastl_bounds L : 1 <= lastl L <= w.
Proof. unfold lastl. pose proof (Z.mod_pos_bound (L - 1) w ltac:(lia)). lia. Qed.
Lemma L_decomp L : L = (nl L - 1) * w + lastl L.
Proof. unfold nl, lastl. pose proof (Z.div_mod (L - 1) w ltac:(lia)). lia. Qed.

Notation entry := (list Z * list Z)%type.
Definition nle (e : entry) : Z := nl (len (snd e)).
Definition blk0 (e : entry) : list Z := repeat (w + 1) (Z.to_nat (nle e + 1)).
Definition blk1 (e : entry) : list Z := (len (fst e) + 2) :: repeat (w + 1) (Z.to_nat (nle e)).
Definition blk2 (e : entry) : list Z :=
  (len (fst e) + 2) :: repeat (w + 1) (Z.to_nat (nle e - 1)) ++ [lastl (len (snd e)) + 1].
Definition good (e : entry) : Prop := snd e <> [].

Lemma good_len e : good e -> 1 <= len (snd e).
Proof. unfold good, len. destruct (snd e); [congruence|]. cbn [length]. lia. Qed.
Lemma nle_pos e : good e -> 1 <= nle e.
Proof. intros. apply nl_pos, good_len; assumption. Qed.

Lemma len_repeat {A} (x : A) n : len (repeat x n) = Z.of_nat n.
Proof. unfold len. rewrite repeat_length. reflexivity. Qed.

Lemma nle_nonneg e : 0 <= nle e.
Proof.
  unfold nle, nl. pose proof (len_nonneg (snd e)).
  assert (-1 <= (len (snd e) - 1) / w) by (apply Z.div_le_lower_bound; lia). lia.
Qed.
Lemma total_nonneg_all es : 0 <= sumZ (map nle es) + len (map nle es).
Proof.
  induction es as [|e es IH]; [cbn; lia|].
  cbn [map sumZ fold_right]. fold (sumZ (map nle es)). rewrite len_cons.
  pose proof (nle_nonneg e). lia.
Qed.
Lemma total_nonneg es : Forall good es -> 0 <= sumZ (map nle es) + len (map nle es).
Proof. intros _. apply total_nonneg_all. Qed.

Lemma ll0_blocks_all es :
  repeat (w + 1) (Z.to_nat (sumZ (map nle es) + len (map nle es))) = concat (map blk0 es).
Proof.
  induction es as [|e es IH]; [reflexivity|].
  pose proof (nle_nonneg e).
  cbn [map sumZ fold_right concat]. rewrite len_cons. fold (sumZ (map nle es)).
  pose proof (total_nonneg_all es).
  replace (Z.to_nat (nle e + sumZ (map nle es) + (1 + len (map nle es))))
    with (Z.to_nat (nle e + 1) + Z.to_nat (sumZ (map nle es) + len (map nle es)))%nat by lia.
  rewrite repeat_app, IH. reflexivity.
Qed.
Lemma ll0_blocks es : Forall good es ->
  repeat (w + 1) (Z.to_nat (sumZ (map nle es) + len (map nle es))) = concat (map blk0 es).
Proof. intros _. apply ll0_blocks_all. Qed.

Lemma nles_nonneg_all es : Forall (fun n => 0 <= n) (map nle es).
Proof.
  apply Forall_forall. intros n Hn. apply in_map_iff in Hn.
  destruct Hn as [e [<- He]]. apply nle_nonneg.
Qed.
Lemma nles_nonneg es : Forall good es -> Forall (fun n => 0 <= n) (map nle es).
Proof. intros _. apply nles_nonneg_all. Qed.
Lemma Forall_ge0 o l : 0 <= o -> Forall (fun i => o <= i) l -> Forall (fun i => 0 <= i) l.
Proof. intros Ho H. eapply Forall_impl; [|exact H]. cbn; intros; lia. Qed.

Lemma ll1_blocks es : Forall good es ->
  set_many (hdrs 0 (map nle es)) (map (fun e => len (fst e) + 2) es) (concat (map blk0 es))
  = concat (map blk1 es).
Proof.
  induction es as [|e es IH]; intros Hg; [reflexivity|].
  inversion Hg as [|? ? Hg1 Hg2]; subst. pose proof (nle_pos e Hg1) as Hn.
  cbn [map hdrs concat].
  replace (0 + (nle e + 1)) with (0 + len (blk0 e)) by (unfold blk0; rewrite len_repeat; lia).
  rewrite hdrs_shift. rewrite set_many_block.
  - rewrite IH by assumption. f_equal. unfold blk0, blk1.
    replace (Z.to_nat (nle e + 1)) with (S (Z.to_nat (nle e))) by lia. reflexivity.
  - unfold blk0. rewrite len_repeat. lia.
  - apply (Forall_ge0 0); [lia|]. apply hdrs_ge, nles_nonneg; assumption.
Qed.

Lemma set_nth_last (x v : Z) n : (1 <= n)%nat ->
  set_nth n v (x :: repeat (w + 1) n) = x :: repeat (w + 1) (n - 1) ++ [v].
Proof.
  intros Hn. destruct n as [|n]; [lia|]. cbn [set_nth]. f_equal.
  replace (S n - 1)%nat with n by lia.
  clear Hn. induction n as [|n IH]; [reflexivity|].
  cbn [repeat set_nth app]. f_equal. exact IH.
Qed.

Lemma ll2_blocks es : Forall good es ->
  set_many (lasts 0 (map nle es)) (map (fun e => lastl (len (snd e)) + 1) es) (concat (map blk1 es))
  = concat (map blk2 es).
Proof.
  induction es as [|e es IH]; intros Hg; [reflexivity|].
  inversion Hg as [|? ? Hg1 Hg2]; subst. pose proof (nle_pos e Hg1) as Hn.
  cbn [map lasts concat].
  assert (Hl : len (blk1 e) = nle e + 1).
  { unfold blk1. rewrite len_cons, len_repeat. lia. }
  replace (0 + (nle e + 1)) with (0 + len (blk1 e)) by lia.
  rewrite lasts_shift. rewrite set_many_block.
  - rewrite IH by assumption. f_equal. unfold blk1, blk2.
    replace (Z.to_nat (0 + nle e)) with (Z.to_nat (nle e)) by lia.
    rewrite set_nth_last by lia. do 3 f_equal. lia.
  - lia.
  - apply (Forall_ge0 0); [lia|]. apply lasts_ge, nles_nonneg; assumption.
Qed.

(* which lines are header lines *)
Definition hblk (e : entry) : list bool := true :: repeat false (Z.to_nat (nle e)).
Lemma arange_from_app s a b : arange_from s (a + b) = arange_from s a ++ arange_from (s + Z.of_nat a) b.
Proof.
  revert s; induction a as [|a IH]; intros s.
  - cbn. f_equal. lia.
  - cbn [Nat.add arange_from app]. f_equal. rewrite IH. do 2 f_equal. lia.
Qed.
Lemma existsb_none i l : Forall (fun j => i < j) l -> existsb (Z.eqb i) l = false.
Proof.
  induction 1 as [|j l Hj _ IH]; [reflexivity|]. cbn. rewrite IH.
  destruct (Z.eqb_spec i j); [lia|reflexivity].
Qed.
Lemma is_hdr_blocks_all es : forall o,
  map (fun i => existsb (Z.eqb i) (hdrs o (map nle es)))
      (arange_from o (Z.to_nat (sumZ (map nle es) + len (map nle es))))
  = concat (map hblk es).
Proof.
  induction es as [|e es IH]; intros o; [reflexivity|].
  pose proof (nle_nonneg e) as Hn.
  cbn [map sumZ fold_right concat hdrs]. rewrite len_cons. fold (sumZ (map nle es)).
  pose proof (total_nonneg_all es).
  replace (Z.to_nat (nle e + sumZ (map nle es) + (1 + len (map nle es))))
    with (S (Z.to_nat (nle e)) + Z.to_nat (sumZ (map nle es) + len (map nle es)))%nat by lia.
  rewrite arange_from_app, map_app. f_equal.
  - (* the block of e *)
    cbn [arange_from map existsb]. rewrite Z.eqb_refl. cbn [orb]. unfold hblk. f_equal.
    pose proof (hdrs_ge (o + (nle e + 1)) (map nle es) (nles_nonneg_all es)) as Hge.
    assert (Hgen : forall k s, o < s -> s + Z.of_nat k <= o + nle e + 1 ->
              map (fun i => (o =? i) || existsb (Z.eqb i) (hdrs (o + (nle e + 1)) (map nle es))) (arange_from s k)
              = repeat false k).
    { induction k as [|k IHk]; intros s Hs Hk; [reflexivity|].
      cbn [arange_from map repeat]. f_equal.
      - destruct (Z.eqb_spec o s); [lia|]. cbn [orb]. apply existsb_none.
        eapply Forall_impl; [|exact Hge]. cbn; intros; lia.
      - apply IHk; lia. }
    rewrite <- (Hgen (Z.to_nat (nle e)) (o + 1)) by lia.
    apply map_ext. intros i. rewrite (Z.eqb_sym i o). reflexivity.
  - rewrite <- (IH (o + (nle e + 1))).
    replace (o + Z.of_nat (S (Z.to_nat (nle e)))) with (o + (nle e + 1)) by lia.
    apply map_ext_in. intros i Hi. apply In_arange_from in Hi.
    cbn [existsb]. destruct (Z.eqb_spec i o); [lia|reflexivity].
Qed.
Lemma is_hdr_blocks es : Forall good es -> forall o,
  map (fun i => existsb (Z.eqb i) (hdrs o (map nle es)))
      (arange_from o (Z.to_nat (sumZ (map nle es) + len (map nle es))))
  = concat (map hblk es).
Proof. intros _. apply is_hdr_blocks_all. Qed.

(* ---------- the fill ---------- *)
Lemma option_map_app_app (a b : list Z) (x : option (list Z)) :
  option_map (app a) (option_map (app b) x) = option_map (app (a ++ b)) x.
Proof. destruct x; cbn; [rewrite app_assoc|]; reflexivity. Qed.

Lemma fill_seq last ll' h' names : 1 <= last <= w -> forall k seq data,
  len seq = Z.of_nat k * w + last ->
  fasta_fill (repeat (w + 1) k ++ (last + 1) :: ll') (repeat false k ++ false :: h') names (seq ++ data)
  = option_map (app (wrap w seq)) (fasta_fill ll' h' names data).
Proof.
  intros Hl. induction k as [|k IH]; intros seq data Hlen.
  - cbn [repeat app fasta_fill]. unfold m_fasta_body_len.
    assert (Hs : len seq = last) by lia.
    assert (Hne : seq <> []) by (intros E; rewrite E in Hs; cbn in Hs; lia).
    replace (1 <=? last + 1) with true by (symmetry; apply Z.leb_le; lia).
    replace (last + 1 - 1) with last by lia.
    replace (last <=? len (seq ++ data)) with true
      by (symmetry; apply Z.leb_le; rewrite len_app; pose proof (len_nonneg data); lia).
    cbn [andb]. unfold len in Hs.
    rewrite firstn_app, skipn_app.
    replace (Z.to_nat last - length seq)%nat with O by lia.
    rewrite firstn_all2 by lia. rewrite skipn_all2 by lia. cbn [firstn skipn app]. rewrite app_nil_r.
    rewrite wrap_short; [reflexivity|lia|exact Hne|unfold len; lia].
  - cbn [repeat app fasta_fill]. unfold m_fasta_body_len.
    assert (Hge : w + 1 <= len seq) by nia.
    assert (Hne : seq <> []) by (intros E; rewrite E in Hge; cbn in Hge; lia).
    replace (1 <=? w + 1) with true by (symmetry; apply Z.leb_le; lia).
    replace (w + 1 - 1) with w by lia.
    replace (w <=? len (seq ++ data)) with true
      by (symmetry; apply Z.leb_le; rewrite len_app; pose proof (len_nonneg data); lia).
    cbn [andb]. unfold len in Hge.
    rewrite firstn_app, skipn_app.
    replace (Z.to_nat w - length seq)%nat with O by lia. cbn [firstn skipn app]. rewrite app_nil_r.
    rewrite IH.
    + rewrite option_map_app_app. f_equal. rewrite (wrap_unfold w seq Hw Hne).
      rewrite <- app_assoc. reflexivity.
    + rewrite len_skipn. unfold len in *. nia.
Qed.

Definition fasta_rec (e : entry) : list Z := [62] ++ fst e ++ [10] ++ wrap w (snd e).

Lemma repeat_snoc {A} (x : A) n : repeat x (S n) = repeat x n ++ [x].
Proof. induction n as [|n IH]; [reflexivity|]. cbn [repeat app] in *. f_equal. exact IH. Qed.

Lemma fill_entry e ll' h' names data : good e ->
  fasta_fill (blk2 e ++ ll') (hblk e ++ h') (fst e :: names) (snd e ++ data)
  = option_map (app (fasta_rec e)) (fasta_fill ll' h' names data).
Proof.
  intros Hg. pose proof (nle_pos e Hg) as Hn. unfold blk2, hblk.
  cbn [app fasta_fill]. rewrite Z.eqb_refl.
  replace (Z.to_nat (nle e)) with (S (Z.to_nat (nle e - 1))) by lia.
  rewrite repeat_snoc. rewrite <- !app_assoc. cbn [app].
  rewrite fill_seq.
  - unfold fasta_rec. destruct (fasta_fill ll' h' names data); cbn [option_map app]; [|reflexivity].
    rewrite <- !app_assoc. reflexivity.
  - apply lastl_bounds.
  - pose proof (L_decomp (len (snd e))). rewrite Z2Nat.id by lia. unfold nle. exact H.
Qed.

Lemma fill_all es : Forall good es ->
  fasta_fill (concat (map blk2 es)) (concat (map hblk es)) (map fst es) (concat (map snd es))
  = Some (concat (map fasta_rec es)).
Proof.
  induction 1 as [|e es He _ IH]; [reflexivity|].
  cbn [map concat]. rewrite fill_entry by assumption. rewrite IH. reflexivity.
Qed.

Theorem fasta_pinned_layout es : Forall good es ->
  fasta_from_data_pinned w es = Some (concat (map fasta_rec es)).
Proof.
  intros Hg. unfold fasta_from_data_pinned.
  replace (map (fun L => (L - 1) / w + 1) (map (fun e : list Z * list Z => len (snd e)) es))
    with (map nle es) by (rewrite map_map; reflexivity).
  replace (map (fun n => n + 2) (map (fun e : list Z * list Z => len (fst e)) es))
    with (map (fun e : entry => len (fst e) + 2) es) by (rewrite map_map; reflexivity).
  replace (map (fun n => n + 1) (map (fun L => (L - 1) mod w + 1) (map (fun e : list Z * list Z => len (snd e)) es)))
    with (map (fun e : entry => lastl (len (snd e)) + 1) es) by (rewrite !map_map; reflexivity).
  unfold cumsum. rewrite removelast_starts. cbn [tl].
  rewrite cumsum_from_starts, map_map.
  rewrite (map_ext (fun x => x + 1 - 1) (fun x => x)) by (intros; lia). rewrite map_id.
  rewrite (ll0_blocks es Hg).
  rewrite (ll1_blocks es Hg).
  rewrite (ll2_blocks es Hg).
  unfold arange. rewrite (is_hdr_blocks es Hg 0).
  apply fill_all, Hg.
Qed.

(* ---------- the repaired variant, on tables of non-empty sequences ---------- *)
Definition blk1f (e : entry) : list Z := repeat (w + 1) (Z.to_nat (nle e)) ++ [lastl (len (snd e)) + 1].

Lemma set_nth_repeat_last (v : Z) n : set_nth n v (repeat (w + 1) (S n)) = repeat (w + 1) n ++ [v].
Proof. induction n as [|n IH]; [reflexivity|]. cbn [repeat set_nth app] in *. f_equal. exact IH. Qed.

Lemma ll1f_blocks es : Forall good es ->
  set_many (lasts 0 (map nle es)) (map (fun e => lastl (len (snd e)) + 1) es) (concat (map blk0 es))
  = concat (map blk1f es).
Proof.
  induction es as [|e es IH]; intros Hg; [reflexivity|].
  inversion Hg as [|? ? Hg1 Hg2]; subst. pose proof (nle_pos e Hg1) as Hn.
  cbn [map lasts concat].
  assert (Hl : len (blk0 e) = nle e + 1) by (unfold blk0; rewrite len_repeat; lia).
  replace (0 + (nle e + 1)) with (0 + len (blk0 e)) by lia.
  rewrite lasts_shift. rewrite set_many_block.
  - rewrite IH by assumption. f_equal. unfold blk0, blk1f.
    replace (Z.to_nat (0 + nle e)) with (Z.to_nat (nle e)) by lia.
    replace (Z.to_nat (nle e + 1)) with (S (Z.to_nat (nle e))) by lia.
    apply set_nth_repeat_last.
  - lia.
  - apply (Forall_ge0 0); [lia|]. apply lasts_ge, nles_nonneg; assumption.
Qed.

Lemma ll2f_blocks es : Forall good es ->
  set_many (hdrs 0 (map nle es)) (map (fun e => len (fst e) + 2) es) (concat (map blk1f es))
  = concat (map blk2 es).
Proof.
  induction es as [|e es IH]; intros Hg; [reflexivity|].
  inversion Hg as [|? ? Hg1 Hg2]; subst. pose proof (nle_pos e Hg1) as Hn.
  cbn [map hdrs concat].
  assert (Hl : len (blk1f e) = nle e + 1).
  { unfold blk1f. rewrite len_app, len_repeat. cbn. lia. }
  replace (0 + (nle e + 1)) with (0 + len (blk1f e)) by lia.
  rewrite hdrs_shift. rewrite set_many_block.
  - rewrite IH by assumption. f_equal. unfold blk1f, blk2.
    replace (Z.to_nat (nle e)) with (S (Z.to_nat (nle e - 1))) by lia. reflexivity.
  - lia.
  - apply (Forall_ge0 0); [lia|]. apply hdrs_ge, nles_nonneg; assumption.
Qed.

Lemma mask_select_all {A} (m : list bool) (l : list A) :
  Forall (fun b => b = true) m -> length m = length l -> mask_select m l = l.
Proof.
  revert l; induction m as [|b m IH]; intros [|x l] Hm Hl; try discriminate; [reflexivity|].
  inversion Hm; subst. cbn [mask_select app]. f_equal. apply IH; [assumption|]. cbn in Hl. lia.
Qed.

Lemma length_lasts o nls : length (lasts o nls) = length nls.
Proof. revert o; induction nls as [|n r IH]; intros o; [reflexivity|]. cbn. f_equal. apply IH. Qed.

Theorem fasta_fixed_layout_good es : Forall good es ->
  fasta_from_data_fixed w es = Some (concat (map fasta_rec es)).
Proof.
  intros Hg. unfold fasta_from_data_fixed, m_fasta_n_lines, m_fasta_last_length, m_fasta_total, m_fasta_fill, m_fasta_first_start, m_fasta_entry_step, m_fasta_has_lines, m_fasta_last_index, m_fasta_last_value, m_fasta_hdr_value, fasta_line_lengths, m_fasta_last_before_header.
  replace (map (fun L => (L - 1) / w + 1) (map (fun e : list Z * list Z => len (snd e)) es))
    with (map nle es) by (rewrite map_map; reflexivity).
  replace (map (fun n => n + 2) (map (fun e : list Z * list Z => len (fst e)) es))
    with (map (fun e : entry => len (fst e) + 2) es) by (rewrite map_map; reflexivity).
  replace (map (fun n => n + 1) (map (fun L => (L - 1) mod w + 1) (map (fun e : list Z * list Z => len (snd e)) es)))
    with (map (fun e : entry => lastl (len (snd e)) + 1) es) by (rewrite !map_map; reflexivity).
  unfold cumsum. rewrite removelast_starts. cbn [tl].
  replace (map (fun s => s - 1) (cumsum_from 0 (map (fun n => n + 1) (map nle es))))
    with (lasts 0 (map nle es)).
  2:{ rewrite cumsum_from_starts, map_map.
      rewrite (map_ext (fun x => x + 1 - 1) (fun x => x)) by (intros; lia). rewrite map_id. reflexivity. }
  assert (Hall : Forall (fun b => b = true) (map (fun n => 0 <? n) (map nle es))).
  { apply Forall_forall. intros b Hb. apply in_map_iff in Hb. destruct Hb as [n [<- Hn]].
    apply in_map_iff in Hn. destruct Hn as [e [<- He]]. rewrite Forall_forall in Hg.
    pose proof (nle_pos e (Hg e He)). apply Z.ltb_lt. lia. }
  rewrite !mask_select_all by (try exact Hall; rewrite ?length_lasts, !map_length; reflexivity).
  rewrite (ll0_blocks es Hg).
  rewrite (ll1f_blocks es Hg).
  rewrite (ll2f_blocks es Hg).
  unfold arange. rewrite (is_hdr_blocks es Hg 0).
  apply fill_all, Hg.
Qed.


(* ---------- the repaired variant on EVERY table (empty sequences included) ---------- *)
Definition blk1g (e : entry) : list Z :=
  if nle e =? 0 then [w + 1] else repeat (w + 1) (Z.to_nat (nle e)) ++ [lastl (len (snd e)) + 1].
Definition blk2g (e : entry) : list Z :=
  if nle e =? 0 then [len (fst e) + 2]
  else (len (fst e) + 2) :: repeat (w + 1) (Z.to_nat (nle e - 1)) ++ [lastl (len (snd e)) + 1].

Lemma nle_zero_iff e : nle e = 0 <-> snd e = [].
Proof.
  unfold nle, nl. pose proof (len_nonneg (snd e)) as Hl. split.
  - intros H. destruct (snd e) as [|x l]; [reflexivity|]. exfalso.
    rewrite len_cons in H. pose proof (len_nonneg l).
    assert (0 <= (1 + len l - 1) / w) by (apply Z.div_pos; lia). lia.
  - intros ->. cbn [len length Z.of_nat]. change (len (@nil Z)) with 0.
    assert ((0 - 1) / w = -1); [|lia].
    symmetry. apply (Z.div_unique (0 - 1) w (-1) (w - 1)); lia.
Qed.

Lemma mask_select_map {A B} (g : A -> B) m (l : list A) :
  mask_select m (map g l) = map g (mask_select m l).
Proof.
  revert l; induction m as [|b m IH]; intros [|x l]; try reflexivity.
  cbn [map mask_select]. rewrite map_app, IH. destruct b; reflexivity.
Qed.
Lemma Forall_mask_select {A} (P : A -> Prop) m (l : list A) : Forall P l -> Forall P (mask_select m l).
Proof.
  revert l; induction m as [|b m IH]; intros [|x l] H; try constructor.
  inversion H; subst. cbn [mask_select]. apply Forall_app. split; [destruct b; auto|apply IH; assumption].
Qed.

Lemma ll1g_blocks es :
  set_many (mask_select (map (fun n => 0 <? n) (map nle es)) (lasts 0 (map nle es)))
           (mask_select (map (fun n => 0 <? n) (map nle es)) (map (fun e => lastl (len (snd e)) + 1) es))
           (concat (map blk0 es))
  = concat (map blk1g es).
Proof.
  induction es as [|e es IH]; [reflexivity|].
  pose proof (nle_nonneg e) as Hn.
  cbn [map lasts concat mask_select].
  assert (Hl : len (blk0 e) = nle e + 1) by (unfold blk0; rewrite len_repeat; lia).
  replace (0 + (nle e + 1)) with (0 + len (blk0 e)) by lia.
  rewrite lasts_shift, mask_select_map.
  assert (Hpos : Forall (fun i => 0 <= i)
                   (mask_select (map (fun n => 0 <? n) (map nle es)) (lasts 0 (map nle es)))).
  { apply Forall_mask_select. apply (Forall_ge0 0); [lia|]. apply lasts_ge, nles_nonneg_all. }
  unfold blk1g at 1. destruct (Z.ltb_spec 0 (nle e)) as [Hlt|Hge].
  - replace (nle e =? 0) with false by (symmetry; apply Z.eqb_neq; lia).
    cbn [app]. rewrite set_many_block; [|lia|exact Hpos].
    rewrite IH. f_equal. unfold blk0.
    replace (Z.to_nat (0 + nle e)) with (Z.to_nat (nle e)) by lia.
    replace (Z.to_nat (nle e + 1)) with (S (Z.to_nat (nle e))) by lia.
    apply set_nth_repeat_last.
  - assert (E : nle e = 0) by lia. rewrite E, Z.eqb_refl. cbn [app].
    rewrite set_many_shift by exact Hpos. rewrite IH. f_equal.
    unfold blk0. rewrite E. reflexivity.
Qed.

Lemma ll2g_blocks es :
  set_many (hdrs 0 (map nle es)) (map (fun e => len (fst e) + 2) es) (concat (map blk1g es))
  = concat (map blk2g es).
Proof.
  induction es as [|e es IH]; [reflexivity|].
  pose proof (nle_nonneg e) as Hn.
  cbn [map hdrs concat].
  assert (Hl : len (blk1g e) = nle e + 1).
  { unfold blk1g. destruct (Z.eqb_spec (nle e) 0) as [E|E]; [rewrite E; reflexivity|].
    rewrite len_app, len_repeat. cbn. lia. }
  replace (0 + (nle e + 1)) with (0 + len (blk1g e)) by lia.
  rewrite hdrs_shift. rewrite set_many_block.
  - rewrite IH. f_equal. unfold blk1g, blk2g.
    destruct (Z.eqb_spec (nle e) 0) as [E|E]; [reflexivity|].
    replace (Z.to_nat (nle e)) with (S (Z.to_nat (nle e - 1))) by lia. reflexivity.
  - lia.
  - apply (Forall_ge0 0); [lia|]. apply hdrs_ge, nles_nonneg_all.
Qed.

Lemma fill_entry_g e ll' h' names data :
  fasta_fill (blk2g e ++ ll') (hblk e ++ h') (fst e :: names) (snd e ++ data)
  = option_map (app (fasta_rec e)) (fasta_fill ll' h' names data).
Proof.
  unfold blk2g. destruct (Z.eqb_spec (nle e) 0) as [E|E].
  - pose proof (proj1 (nle_zero_iff e) E) as Hs. unfold hblk, fasta_rec. rewrite E, Hs.
    cbn [Z.to_nat repeat app fasta_fill]. rewrite Z.eqb_refl. rewrite wrap_nil.
    destruct (fasta_fill ll' h' names data); cbn [option_map app]; [|reflexivity].
    rewrite <- !app_assoc. reflexivity.
  - assert (Hg : good e).
    { unfold good. intros Hs. apply E. apply nle_zero_iff, Hs. }
    exact (fill_entry e ll' h' names data Hg).
Qed.

Lemma fill_all_g es :
  fasta_fill (concat (map blk2g es)) (concat (map hblk es)) (map fst es) (concat (map snd es))
  = Some (concat (map fasta_rec es)).
Proof.
  induction es as [|e es IH]; [reflexivity|].
  cbn [map concat]. rewrite fill_entry_g. rewrite IH. reflexivity.
Qed.

Theorem fasta_fixed_layout es :
  fasta_from_data_fixed w es = Some (concat (map fasta_rec es)).
Proof.
  unfold fasta_from_data_fixed, m_fasta_n_lines, m_fasta_last_length, m_fasta_total, m_fasta_fill, m_fasta_first_start, m_fasta_entry_step, m_fasta_has_lines, m_fasta_last_index, m_fasta_last_value, m_fasta_hdr_value, fasta_line_lengths, m_fasta_last_before_header.
  replace (map (fun L => (L - 1) / w + 1) (map (fun e : list Z * list Z => len (snd e)) es))
    with (map nle es) by (rewrite map_map; reflexivity).
  replace (map (fun n => n + 2) (map (fun e : list Z * list Z => len (fst e)) es))
    with (map (fun e : entry => len (fst e) + 2) es) by (rewrite map_map; reflexivity).
  replace (map (fun n => n + 1) (map (fun L => (L - 1) mod w + 1) (map (fun e : list Z * list Z => len (snd e)) es)))
    with (map (fun e : entry => lastl (len (snd e)) + 1) es) by (rewrite !map_map; reflexivity).
  unfold cumsum. rewrite removelast_starts. cbn [tl].
  replace (map (fun s => s - 1) (cumsum_from 0 (map (fun n => n + 1) (map nle es))))
    with (lasts 0 (map nle es)).
  2:{ rewrite cumsum_from_starts, map_map.
      rewrite (map_ext (fun x => x + 1 - 1) (fun x => x)) by (intros; lia). rewrite map_id. reflexivity. }
  rewrite ll0_blocks_all, ll1g_blocks, ll2g_blocks.
  unfold arange. rewrite (is_hdr_blocks_all es 0).
  apply fill_all_g.
Qed.

(* whichever variant the switch [fasta_from_data] selects *)
Theorem fasta_from_data_layout es : Forall good es ->
  fasta_from_data w es = Some (concat (map fasta_rec es)).
Proof. first [ exact (fasta_pinned_layout es) | exact (fasta_fixed_layout_good es) ]. Qed.
End Fasta.

(* the refuted corner: an empty sequence.  (L-1)//w + 1 = 0 lines, and the "last line" length lands on
   the header line, so the shape assertion fails *)
Lemma fasta_empty_sequence_fails :
  fasta_from_data_pinned 80 [([97], [])] = None.
Proof. vm_compute. reflexivity. Qed.

Theorem fasta_layout_all (w : Z) (es : list (list Z * list Z)) :
  1 <= w -> Forall (fun e => snd e <> []) es ->
  fasta_from_data_pinned w es = Some (concat (map (fun e => [62] ++ fst e ++ [10] ++ wrap w (snd e)) es)).
Proof. intros Hw Hg. exact (fasta_pinned_layout w Hw es Hg). Qed.
Theorem fasta_fixed_layout_nonempty (w : Z) (es : list (list Z * list Z)) :
  1 <= w -> Forall (fun e => snd e <> []) es ->
  fasta_from_data_fixed w es = Some (concat (map (fun e => [62] ++ fst e ++ [10] ++ wrap w (snd e)) es)).
Proof. intros Hw Hg. exact (fasta_fixed_layout_good w Hw es Hg). Qed.
(* the repaired from_data, every width and EVERY table: empty sequences become a bare header line *)
Theorem fasta_fixed_layout_all (w : Z) (es : list (list Z * list Z)) :
  1 <= w ->
  fasta_from_data_fixed w es = Some (concat (map (fun e => [62] ++ fst e ++ [10] ++ wrap w (snd e)) es)).
Proof. intros Hw. exact (fasta_fixed_layout w Hw es). Qed.
Lemma fasta_fixed_empty_sequence :
  fasta_from_data_fixed 3 [([97], []); ([98], [65; 67; 71; 84]); ([99], [])] = Some [62; 97; 10; 62; 98; 10; 65; 67; 71; 10; 84; 10; 62; 99; 10].
Proof. vm_compute. reflexivity. Qed.

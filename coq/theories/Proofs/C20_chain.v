(* Proofs/C20_chain.v — round 6: chains of safe calls ("hidden state": the argument of a call is what earlier calls
   left behind).  Any sequence of programs, each accepted by the checker, run one after the other on the same argument
   objects (callee locals dropped in between, argument objects kept as the callee left them — possibly rebound to
   private copies) leaves every buffer that existed before the FIRST call and the logical content of every argument
   unchanged.  Induction over the list of calls; each step uses the invariant of Proofs/C20.v. *)
From Coq Require Import ZArith List Bool Arith Lia.
From BNP Require Import Base.Prims Model.C20 Proofs.C20.
Import ListNotations.
Open Scope nat_scope.

Lemma unchanged_refl : forall np s, unchanged np s s.
Proof. intros; split; auto. Qed.

Lemma unchanged_trans : forall np s s1 s2,
  unchanged np s s1 -> length (s_blocks s) <= length (s_blocks s1) -> unchanged np s1 s2 -> unchanged np s s2.
Proof.
  intros np s s1 s2 [B1 C1] Hle [B2 C2]. split.
  - intros b Hb. rewrite B2 by lia. apply B1; auto.
  - intros i Hi. rewrite C2 by auto. apply C1; auto.
Qed.

Lemma get_reg_ret_lt : forall np s i, i < np -> get_reg (ret np s) i = get_reg s i.
Proof. intros np s i Hi. unfold get_reg, ret; simpl. apply firstn_nth; auto. Qed.

Lemma get_reg_ret_ge : forall np s i, np <= i -> get_reg (ret np s) i = empty_reg.
Proof.
  intros np s i Hi. unfold get_reg, ret; simpl. apply nth_overflow.
  rewrite firstn_length. lia.
Qed.

Lemma content_ret : forall np s rg, content (ret np s) rg = content s rg.
Proof. reflexivity. Qed.

(* one safe call, seen from the caller *)
Lemma safe_call_ret : forall np p s,
  wf_init np s -> safe_prog np p = true ->
  wf_init np (ret np (run p s)) /\ unchanged np s (ret np (run p s))
  /\ length (s_blocks s) <= length (s_blocks (ret np (run p s))).
Proof.
  intros np p s Hwf Hsafe.
  destruct (inv_run p _ np s s _ (inv_init np s Hwf) Hsafe) as [a' I].
  pose proof (i_len _ _ _ _ _ I) as Hlen. pose proof (i_np _ _ _ _ _ I) as Hnp.
  split; [|split].
  - split.
    + unfold ret; simpl. rewrite firstn_length. lia.
    + intros r b Hin. destruct (lt_dec r np) as [Hr|Hr].
      * rewrite get_reg_ret_lt in Hin by auto. simpl. eapply (i_rng _ _ _ _ _ I); eauto.
      * rewrite get_reg_ret_ge in Hin by lia. simpl in Hin. contradiction.
  - split.
    + intros b Hb. unfold blk, ret; simpl. apply (i_frame _ _ _ _ _ I); auto.
    + intros i Hi. rewrite get_reg_ret_lt by auto. rewrite content_ret. apply (i_cont _ _ _ _ _ I); auto.
  - simpl. apply (i_n0 _ _ _ _ _ I).
Qed.

Theorem safe_calls_chain : forall np ps s,
  wf_init np s -> forallb (safe_prog np) ps = true ->
  unchanged np s (run_calls np ps s) /\ wf_init np (run_calls np ps s)
  /\ length (s_blocks s) <= length (s_blocks (run_calls np ps s)).
Proof.
  intros np ps. induction ps as [|p t IH]; intros s Hwf Hall; simpl in *.
  - split; [apply unchanged_refl|split; auto].
  - apply andb_true_iff in Hall. destruct Hall as [Hp Ht].
    destruct (safe_call_ret np p s Hwf Hp) as [Hwf' [Hun Hle]].
    destruct (IH _ Hwf' Ht) as [Hun2 [Hwf2 Hle2]].
    split; [|split; [auto|lia]].
    eapply unchanged_trans; eauto.
Qed.

(* corollary: the same call repeated k times (the property's "applying the same function twice") *)
Corollary safe_call_repeated : forall np p k s,
  wf_init np s -> safe_prog np p = true -> unchanged np s (run_calls np (repeat p k) s).
Proof.
  intros np p k s Hwf Hp. apply safe_calls_chain; auto.
  apply forallb_forall. intros x Hx. apply repeat_spec in Hx. subst; auto.
Qed.

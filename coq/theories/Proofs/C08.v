(* Proofs/C08.v — lemmas and main proofs for C08 (interval-set operations). *)
From Coq Require Import ZArith List Bool Lia Arith Permutation.
From BNP Require Import Base.Prims Base.PrimsFacts Model.C08.
Import ListNotations.
Open Scope Z_scope.

(* ---------- extend_to_size ---------- *)
Lemma extend_one_ok size frag t :
  0 <= frag -> (t_tag t = 0 \/ t_tag t = 1) -> 0 <= t_start t -> t_start t <= t_stop t -> t_stop t <= size ->
  let o := extend_one size frag t in
  t_tag o = t_tag t /\ 0 <= t_start o /\ t_start o <= t_stop o /\ t_stop o <= size /\
  (t_tag t = 1 -> t_start o = t_start t /\ t_stop o - t_start o = Z.min frag (size - t_start t)) /\
  (t_tag t = 0 -> t_stop o = t_stop t /\ t_stop o - t_start o = Z.min frag (t_stop t)).
Proof.
  intros Hf Ht H0 H1 H2. destruct t as [[g s] e]. unfold extend_one, t_tag, t_start, t_stop in *. simpl in *.
  destruct (g =? 1) eqn:E; simpl.
  - apply Z.eqb_eq in E. repeat split; try lia.
  - apply Z.eqb_neq in E. repeat split; try lia.
Qed.

(* ---------- clip ---------- *)
Lemma covers_iff x i : covers x i = true <-> fst i <= x < snd i.
Proof. unfold covers. rewrite andb_true_iff, Z.leb_le, Z.ltb_lt. tauto. Qed.
Lemma bool_eq_iff (a b : bool) : (a = true <-> b = true) -> a = b.
Proof. destruct a, b; intuition congruence. Qed.

(* the repaired clip: always inside, and it covers exactly the bases of the contig the input covered *)
Lemma clip_fixed_ok size i : 0 <= size -> fst i <= snd i ->
  let o := clip_fixed size i in
  0 <= fst o /\ fst o <= snd o /\ snd o <= size /\
  forall x, 0 <= x < size -> covers x o = covers x i.
Proof.
  intros Hs Hi. destruct i as [s e]. unfold clip_fixed. simpl in *. repeat split; try lia.
  intros x Hx. apply bool_eq_iff. rewrite !covers_iff. simpl. lia.
Qed.
(* the pinned clip: the same under the guard that the interval meets the contig *)
Lemma clip_pinned_ok size i : 0 <= size -> fst i <= snd i -> fst i <= size -> 0 <= snd i ->
  let o := clip_pinned size i in
  0 <= fst o /\ fst o <= snd o /\ snd o <= size /\
  forall x, 0 <= x < size -> covers x o = covers x i.
Proof.
  intros Hs Hi H1 H2. destruct i as [s e]. unfold clip_pinned. simpl in *. repeat split; try lia.
  intros x Hx. apply bool_eq_iff. rewrite !covers_iff. simpl. lia.
Qed.
Lemma clip_pinned_refuted : exists size i, 0 <= size /\ fst i <= snd i /\ ~ (fst (clip_pinned size i) <= snd (clip_pinned size i) <= size).
Proof. exists 2, (4, 6). simpl. lia. Qed.

(* ---------- insertion sort: permutation and order ---------- *)
Section Isort.
Context {T : Type} (leb : T -> T -> bool).
Hypothesis leb_total : forall a b, leb a b = true \/ leb b a = true.

Lemma insert_perm x l : Permutation (insert leb x l) (x :: l).
Proof.
  induction l as [|y r IH]; simpl; [apply Permutation_refl|].
  destruct (leb x y); [apply Permutation_refl|].
  eapply Permutation_trans; [apply perm_skip; exact IH|apply perm_swap].
Qed.
Lemma isort_perm l : Permutation (isort leb l) l.
Proof.
  induction l as [|x l IH]; simpl; [constructor|].
  eapply Permutation_trans; [apply insert_perm|apply perm_skip; exact IH].
Qed.
Lemma sortedb_cons a l : sortedb leb (a :: l) = true <->
  (match l with [] => True | b :: _ => leb a b = true end) /\ sortedb leb l = true.
Proof. destruct l as [|b r]; simpl; [tauto|]. rewrite andb_true_iff. tauto. Qed.
Lemma insert_sorted x l : sortedb leb l = true -> sortedb leb (insert leb x l) = true.
Proof.
  induction l as [|y r IH]; intros H; [reflexivity|].
  cbn [insert]. destruct (leb x y) eqn:E.
  - apply sortedb_cons. split; assumption.
  - apply sortedb_cons in H. destruct H as [H1 H2]. apply sortedb_cons. split; [|apply IH; exact H2].
    destruct r as [|z r']; cbn [insert].
    + destruct (leb_total x y); congruence.
    + destruct (leb x z); [destruct (leb_total x y); congruence|exact H1].
Qed.
Lemma isort_sorted l : sortedb leb (isort leb l) = true.
Proof. induction l as [|x l IH]; [reflexivity|]. simpl. apply insert_sorted. exact IH. Qed.
End Isort.

Lemma key3_total a b : key3_leb a b = true \/ key3_leb b a = true.
Proof.
  unfold key3_leb. destruct a as [[c1 s1] e1], b as [[c2 s2] e2]. unfold t_tag, t_start, t_stop. simpl.
  destruct (Z.ltb_spec c1 c2); [left; reflexivity|].
  destruct (Z.ltb_spec c2 c1); [right; reflexivity|].
  assert (c1 = c2) by lia. subst. rewrite Z.eqb_refl. simpl.
  destruct (Z.ltb_spec s1 s2); [left; reflexivity|].
  destruct (Z.ltb_spec s2 s1); [right; reflexivity|].
  assert (s1 = s2) by lia. subst. rewrite Z.eqb_refl. simpl.
  destruct (Z.leb_spec e1 e2); [left; reflexivity|right]. apply Z.leb_le. lia.
Qed.
Lemma key2_total a b : key2_leb a b = true \/ key2_leb b a = true.
Proof.
  unfold key2_leb. destruct a as [[c1 s1] e1], b as [[c2 s2] e2]. unfold t_tag, t_start, t_stop. simpl.
  destruct (Z.ltb_spec c1 c2); [left; reflexivity|].
  destruct (Z.ltb_spec c2 c1); [right; reflexivity|].
  assert (c1 = c2) by lia. subst. rewrite Z.eqb_refl. simpl.
  destruct (Z.leb_spec s1 s2); [left; reflexivity|right]. apply Z.leb_le. lia.
Qed.
Lemma zleb_total a b : Z.leb a b = true \/ Z.leb b a = true.
Proof. destruct (Z.leb_spec a b); [left; reflexivity|right; apply Z.leb_le; lia]. Qed.
Lemma pos_leb_total a b : pos_leb a b = true \/ pos_leb b a = true.
Proof. unfold pos_leb. apply zleb_total. Qed.

(* sums are invariant under permutation *)
Lemma sumZ_app a b : sumZ (a ++ b) = sumZ a + sumZ b.
Proof. induction a as [|x a IH]; simpl; [reflexivity|]. rewrite IH. ring. Qed.
Lemma sumZ_perm a b : Permutation a b -> sumZ a = sumZ b.
Proof. induction 1; simpl; lia. Qed.
Lemma sumZ_map_perm {T} (f : T -> Z) a b : Permutation a b -> sumZ (map f a) = sumZ (map f b).
Proof. intros H. apply sumZ_perm. apply Permutation_map. exact H. Qed.

(* the decidable permutation test of the Spec accepts every permutation *)
Lemma perm_b_of_perm a b : Permutation a b -> perm_b a b = true.
Proof.
  intros H. unfold perm_b. apply andb_true_iff. split.
  - apply Z.eqb_eq. unfold len. rewrite (Permutation_length H). reflexivity.
  - apply forallb_forall. intros x _. apply Z.eqb_eq. unfold count_tiv. apply sumZ_map_perm. exact H.
Qed.

Lemma sort_full_ok I : Permutation (sort_full_model I) I /\ sortedb key3_leb (sort_full_model I) = true.
Proof. split; [apply isort_perm|apply isort_sorted; exact key3_total]. Qed.
Lemma sort_full_spec_ok I : sort_spec_ok I (sort_full_model I) = true.
Proof.
  unfold sort_spec_ok. apply andb_true_iff. split.
  - apply perm_b_of_perm. apply Permutation_sym. apply isort_perm.
  - apply isort_sorted. exact key3_total.
Qed.
(* the lexsort route as pinned: a permutation ordered by (chromosome, start); the stop is not ordered *)
Lemma sort_lex_pinned_ok I : Permutation (sort_lex_pinned I) I /\ sortedb key2_leb (sort_lex_pinned I) = true.
Proof. split; [apply isort_perm|apply isort_sorted; exact key2_total]. Qed.
Lemma sort_lex_pinned_refuted : exists I, sort_spec_ok I (sort_lex_pinned I) = false.
Proof. exists [(0, 0, 8); (0, 0, 6)]. vm_compute. reflexivity. Qed.
Lemma sort_lex_fixed_ok I : Permutation (sort_lex_fixed I) I /\ sortedb key3_leb (sort_lex_fixed I) = true.
Proof. exact (sort_full_ok I). Qed.

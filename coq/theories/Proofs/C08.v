(* Proofs/C08.v — lemmas and main proofs for C08 (interval-set operations). *)
From Coq Require Import ZArith List Bool Lia Arith Permutation.
From BNP Require Import Base.Prims Base.PrimsFacts Model.C08.
Import ListNotations.
Open Scope Z_scope.

(* ---------- extend_to_size ---------- *)
Lemma extend_one_ok size frag t :
  0 <= frag -> (t_tag t = 0 \/ t_tag t = 1) -> 0 <= t_start t -> t_start t <= t_stop t -> t_stop t <= size ->
  let o := extend_one size frag t in
  t_tag o = t_tag t /\ 0 <= t_start o /\ t_start o <= t_stop o /\ t_stop o <= size /\
  (t_tag t = 1 -> t_start o = t_start t /\ t_stop o - t_start o = Z.min frag (size - t_start t)) /\
  (t_tag t = 0 -> t_stop o = t_stop t /\ t_stop o - t_start o = Z.min frag (t_stop t)).
Proof.
  intros Hf Ht H0 H1 H2. destruct t as [[g s] e]. unfold extend_one, t_tag, t_start, t_stop in *. simpl in *.
  destruct (g =? 1) eqn:E; simpl.
  - apply Z.eqb_eq in E. repeat split; try lia.
  - apply Z.eqb_neq in E. repeat split; try lia.
Qed.

(* ---------- clip ---------- *)
Lemma covers_iff x i : covers x i = true <-> fst i <= x < snd i.
Proof. unfold covers. rewrite andb_true_iff, Z.leb_le, Z.ltb_lt. tauto. Qed.
Lemma bool_eq_iff (a b : bool) : (a = true <-> b = true) -> a = b.
Proof. destruct a, b; intuition congruence. Qed.

(* the repaired clip: always inside, and it covers exactly the bases of the contig the input covered *)
Lemma clip_fixed_ok size i : 0 <= size -> fst i <= snd i ->
  let o := clip_fixed size i in
  0 <= fst o /\ fst o <= snd o /\ snd o <= size /\
  forall x, 0 <= x < size -> covers x o = covers x i.
Proof.
  intros Hs Hi. destruct i as [s e]. unfold clip_fixed. simpl in *. repeat split; try lia.
  intros x Hx. apply bool_eq_iff. rewrite !covers_iff. simpl. lia.
Qed.
(* the pinned clip: the same under the guard that the interval meets the contig *)
Lemma clip_pinned_ok size i : 0 <= size -> fst i <= snd i -> fst i <= size -> 0 <= snd i ->
  let o := clip_pinned size i in
  0 <= fst o /\ fst o <= snd o /\ snd o <= size /\
  forall x, 0 <= x < size -> covers x o = covers x i.
Proof.
  intros Hs Hi H1 H2. destruct i as [s e]. unfold clip_pinned. simpl in *. repeat split; try lia.
  intros x Hx. apply bool_eq_iff. rewrite !covers_iff. simpl. lia.
Qed.
Lemma clip_pinned_refuted : exists size i, 0 <= size /\ fst i <= snd i /\ ~ (fst (clip_pinned size i) <= snd (clip_pinned size i) <= size).
Proof. exists 2, (4, 6). simpl. lia. Qed.

(* ---------- insertion sort: permutation and order ---------- *)
Section Isort.
Context {T : Type} (leb : T -> T -> bool).
Hypothesis leb_total : forall a b, leb a b = true \/ leb b a = true.

Lemma insert_perm x l : Permutation (insert leb x l) (x :: l).
Proof.
  induction l as [|y r IH]; simpl; [apply Permutation_refl|].
  destruct (leb x y); [apply Permutation_refl|].
  eapply Permutation_trans; [apply perm_skip; exact IH|apply perm_swap].
Qed.
Lemma isort_perm l : Permutation (isort leb l) l.
Proof.
  induction l as [|x l IH]; simpl; [constructor|].
  eapply Permutation_trans; [apply insert_perm|apply perm_skip; exact IH].
Qed.
Lemma sortedb_cons a l : sortedb leb (a :: l) = true <->
  (match l with [] => True | b :: _ => leb a b = true end) /\ sortedb leb l = true.
Proof. destruct l as [|b r]; simpl; [tauto|]. rewrite andb_true_iff. tauto. Qed.
Lemma insert_sorted x l : sortedb leb l = true -> sortedb leb (insert leb x l) = true.
Proof.
  induction l as [|y r IH]; intros H; [reflexivity|].
  cbn [insert]. destruct (leb x y) eqn:E.
  - apply sortedb_cons. split; assumption.
  - apply sortedb_cons in H. destruct H as [H1 H2]. apply sortedb_cons. split; [|apply IH; exact H2].
    destruct r as [|z r']; cbn [insert].
    + destruct (leb_total x y); congruence.
    + destruct (leb x z); [destruct (leb_total x y); congruence|exact H1].
Qed.
Lemma isort_sorted l : sortedb leb (isort leb l) = true.
Proof. induction l as [|x l IH]; [reflexivity|]. simpl. apply insert_sorted. exact IH. Qed.
End Isort.

Lemma key3_total a b : key3_leb a b = true \/ key3_leb b a = true.
Proof.
  unfold key3_leb. destruct a as [[c1 s1] e1], b as [[c2 s2] e2]. unfold t_tag, t_start, t_stop. simpl.
  destruct (Z.ltb_spec c1 c2); [left; reflexivity|].
  destruct (Z.ltb_spec c2 c1); [right; reflexivity|].
  assert (c1 = c2) by lia. subst. rewrite Z.eqb_refl. simpl.
  destruct (Z.ltb_spec s1 s2); [left; reflexivity|].
  destruct (Z.ltb_spec s2 s1); [right; reflexivity|].
  assert (s1 = s2) by lia. subst. rewrite Z.eqb_refl. simpl.
  destruct (Z.leb_spec e1 e2); [left; reflexivity|right]. apply Z.leb_le. lia.
Qed.
Lemma key2_total a b : key2_leb a b = true \/ key2_leb b a = true.
Proof.
  unfold key2_leb. destruct a as [[c1 s1] e1], b as [[c2 s2] e2]. unfold t_tag, t_start, t_stop. simpl.
  destruct (Z.ltb_spec c1 c2); [left; reflexivity|].
  destruct (Z.ltb_spec c2 c1); [right; reflexivity|].
  assert (c1 = c2) by lia. subst. rewrite Z.eqb_refl. simpl.
  destruct (Z.leb_spec s1 s2); [left; reflexivity|right]. apply Z.leb_le. lia.
Qed.
Lemma zleb_total a b : Z.leb a b = true \/ Z.leb b a = true.
Proof. destruct (Z.leb_spec a b); [left; reflexivity|right; apply Z.leb_le; lia]. Qed.
Lemma pos_leb_total a b : pos_leb a b = true \/ pos_leb b a = true.
Proof. unfold pos_leb. apply zleb_total. Qed.

(* sums are invariant under permutation *)
Lemma sumZ_app a b : sumZ (a ++ b) = sumZ a + sumZ b.
Proof. induction a as [|x a IH]; simpl; [reflexivity|]. rewrite IH. ring. Qed.
Lemma sumZ_perm a b : Permutation a b -> sumZ a = sumZ b.
Proof. induction 1; simpl; lia. Qed.
Lemma sumZ_map_perm {T} (f : T -> Z) a b : Permutation a b -> sumZ (map f a) = sumZ (map f b).
Proof. intros H. apply sumZ_perm. apply Permutation_map. exact H. Qed.

(* the decidable permutation test of the Spec accepts every permutation *)
Lemma perm_b_of_perm a b : Permutation a b -> perm_b a b = true.
Proof.
  intros H. unfold perm_b. apply andb_true_iff. split.
  - apply Z.eqb_eq. unfold len. rewrite (Permutation_length H). reflexivity.
  - apply forallb_forall. intros x _. apply Z.eqb_eq. unfold count_tiv. apply sumZ_map_perm. exact H.
Qed.

Lemma sort_full_ok I : Permutation (sort_full_model I) I /\ sortedb key3_leb (sort_full_model I) = true.
Proof. split; [apply isort_perm|apply isort_sorted; exact key3_total]. Qed.
Lemma sort_full_spec_ok I : sort_spec_ok I (sort_full_model I) = true.
Proof.
  unfold sort_spec_ok. apply andb_true_iff. split.
  - apply perm_b_of_perm. apply Permutation_sym. apply isort_perm.
  - apply isort_sorted. exact key3_total.
Qed.
(* the lexsort route as pinned: a permutation ordered by (chromosome, start); the stop is not ordered *)
Lemma sort_lex_pinned_ok I : Permutation (sort_lex_pinned I) I /\ sortedb key2_leb (sort_lex_pinned I) = true.
Proof. split; [apply isort_perm|apply isort_sorted; exact key2_total]. Qed.
Lemma sort_lex_pinned_refuted : exists I, sort_spec_ok I (sort_lex_pinned I) = false.
Proof. exists [(0, 0, 8); (0, 0, 6)]. vm_compute. reflexivity. Qed.
Lemma sort_lex_fixed_ok I : Permutation (sort_lex_fixed I) I /\ sortedb key3_leb (sort_lex_fixed I) = true.
Proof. exact (sort_full_ok I). Qed.

(* ---------- coverage basics ---------- *)
Lemma cov_nil x : cov [] x = 0. Proof. reflexivity. Qed.
Lemma cov_cons i I x : cov (i :: I) x = b2z (covers x i) + cov I x.
Proof. reflexivity. Qed.
Lemma cov_app I J x : cov (I ++ J) x = cov I x + cov J x.
Proof. unfold cov. rewrite map_app, sumZ_app. reflexivity. Qed.
Lemma b2z_range b : 0 <= b2z b <= 1. Proof. destruct b; simpl; lia. Qed.
Lemma cov_nonneg I x : 0 <= cov I x.
Proof. induction I as [|i I IH]; [rewrite cov_nil; lia|]. rewrite cov_cons. pose proof (b2z_range (covers x i)). lia. Qed.
Lemma cov_perm I J x : Permutation I J -> cov I x = cov J x.
Proof. intros H. unfold cov. apply sumZ_map_perm. exact H. Qed.
Lemma covered_iff I x : covered I x = true <-> exists i, In i I /\ covers x i = true.
Proof.
  unfold covered. rewrite Z.ltb_lt. induction I as [|i I IH].
  - rewrite cov_nil. split; [lia|intros [i [[] _]]].
  - rewrite cov_cons. pose proof (cov_nonneg I x). destruct (covers x i) eqn:E; cbn [b2z].
    + split; [intros _; exists i; split; [left; reflexivity|exact E]|intros _; lia].
    + split.
      * intros H1. destruct IH as [IH _]. destruct IH as [j [Hj Hc]]; [lia|]. exists j. split; [right; exact Hj|exact Hc].
      * intros [j [[Hj|Hj] Hc]]; [subst; congruence|]. destruct IH as [_ IH]. assert (0 < cov I x) by (apply IH; exists j; tauto). lia.
Qed.

(* ---------- arange ---------- *)
Lemma arange_from_app s n m : arange_from s (n + m) = arange_from s n ++ arange_from (s + Z.of_nat n) m.
Proof.
  revert s. induction n as [|n IH]; intros s; simpl.
  - f_equal. lia.
  - f_equal. rewrite IH. do 2 f_equal. lia.
Qed.
Lemma arange_from_length s n : length (arange_from s n) = n.
Proof. revert s. induction n as [|n IH]; intros s; simpl; [reflexivity|]. rewrite IH. reflexivity. Qed.
Lemma map_const {T U} (f : T -> U) v l : (forall x, In x l -> f x = v) -> map f l = repeat v (length l).
Proof.
  induction l as [|x l IH]; intros H; simpl; [reflexivity|].
  rewrite H by (left; reflexivity). f_equal. apply IH. intros y Hy. apply H. right. exact Hy.
Qed.
Lemma In_bases size x : In x (bases size) <-> 0 <= x < size.
Proof. unfold bases. apply In_arange. Qed.

(* ---------- run-length expansion of accumulated, position-sorted events ---------- *)
(* weighted count of the events at or before x *)
Definition wsum (E : list (Z * Z)) (x : Z) : Z := sumZ (map (fun e => if fst e <=? x then snd e else 0) E).
Lemma wsum_cons e E x : wsum (e :: E) x = (if fst e <=? x then snd e else 0) + wsum E x.
Proof. reflexivity. Qed.
Lemma wsum_app E F x : wsum (E ++ F) x = wsum E x + wsum F x.
Proof. unfold wsum. rewrite map_app, sumZ_app. reflexivity. Qed.
Lemma wsum_perm E F x : Permutation E F -> wsum E x = wsum F x.
Proof. intros H. unfold wsum. apply sumZ_map_perm. exact H. Qed.
Lemma wsum_before E x : (forall e, In e E -> x < fst e) -> wsum E x = 0.
Proof.
  induction E as [|e E IH]; intros H; [reflexivity|]. rewrite wsum_cons.
  rewrite IH by (intros f Hf; apply H; right; exact Hf).
  specialize (H e (or_introl eq_refl)). destruct (Z.leb_spec (fst e) x); lia.
Qed.

Lemma pos_sorted_head_le a E : sortedb pos_leb (a :: E) = true -> forall e, In e E -> fst a <= fst e.
Proof.
  revert a. induction E as [|b E IH]; intros a H e He; [destruct He|].
  apply sortedb_cons in H. destruct H as [H1 H2]. unfold pos_leb in H1. apply Z.leb_le in H1.
  destruct He as [He|He]; [subst; exact H1|]. specialize (IH b H2 e He). lia.
Qed.

Lemma dedupe_cons2 a b t : dedupe (a :: b :: t) = if fst a =? fst b then dedupe (b :: t) else a :: dedupe (b :: t).
Proof. reflexivity. Qed.
Lemma dedupe_head a t : exists v t', dedupe (a :: t) = (fst a, v) :: t'.
Proof.
  revert a. induction t as [|b t IH]; intros a.
  - exists (snd a), []. destruct a; reflexivity.
  - rewrite dedupe_cons2. destruct (Z.eqb_spec (fst a) (fst b)) as [E|E].
    + destruct (IH b) as [v [t' H]]. exists v, t'. rewrite H, E. reflexivity.
    + exists (snd a), (dedupe (b :: t)). destruct a; reflexivity.
Qed.
Lemma next_pos_dedupe b t L : next_pos (dedupe (b :: t)) L = fst b.
Proof. destruct (dedupe_head b t) as [v [t' H]]. rewrite H. reflexivity. Qed.
Lemma expand_dedupe r L : expand (dedupe r) L = expand r L.
Proof.
  induction r as [|a t IH]; [reflexivity|].
  destruct t as [|b t]; [reflexivity|].
  rewrite dedupe_cons2. destruct (Z.eqb_spec (fst a) (fst b)) as [E|E].
  - rewrite IH. destruct a as [p v], b as [q w]. simpl in E. subst. cbn [expand next_pos].
    rewrite Z.sub_diag. reflexivity.
  - destruct a as [p v]. cbn [expand]. rewrite IH. rewrite next_pos_dedupe. destruct b; reflexivity.
Qed.


Lemma expand_cum L : forall E' p0 d0 acc,
  sortedb pos_leb ((p0, d0) :: E') = true -> (forall e, In e ((p0, d0) :: E') -> fst e <= L) ->
  expand (cum_from acc ((p0, d0) :: E')) L
  = map (fun x => acc + wsum ((p0, d0) :: E') x) (arange_from p0 (Z.to_nat (L - p0))).
Proof.
  induction E' as [|[p1 d1] E'' IH]; intros p0 d0 acc Hs Hle.
  - cbn [cum_from expand next_pos]. rewrite app_nil_r.
    rewrite (map_const _ (acc + d0)).
    + rewrite arange_from_length. reflexivity.
    + intros x Hx. apply In_arange_from in Hx. rewrite wsum_cons. cbn [fst snd].
      destruct (Z.leb_spec p0 x); [|lia]. unfold wsum. simpl. lia.
  - pose proof (pos_sorted_head_le _ _ Hs) as Hhead.
    apply sortedb_cons in Hs. destruct Hs as [H01 Hs]. unfold pos_leb in H01. cbn [fst] in H01. apply Z.leb_le in H01.
    assert (HL : p1 <= L) by (apply (Hle (p1, d1)); right; left; reflexivity).
    change (cum_from acc ((p0, d0) :: (p1, d1) :: E'')) with ((p0, acc + d0) :: cum_from (acc + d0) ((p1, d1) :: E'')).
    change (cum_from (acc + d0) ((p1, d1) :: E'')) with ((p1, acc + d0 + d1) :: cum_from (acc + d0 + d1) E'') at 1.
    cbn [expand next_pos].
    change ((p1, acc + d0 + d1) :: cum_from (acc + d0 + d1) E'') with (cum_from (acc + d0) ((p1, d1) :: E'')).
    change (repeat (acc + d0 + d1) (Z.to_nat (next_pos (cum_from (acc + d0 + d1) E'') L - p1)) ++ expand (cum_from (acc + d0 + d1) E'') L)
      with (expand (cum_from (acc + d0) ((p1, d1) :: E'')) L).
    rewrite (IH p1 d1 (acc + d0) Hs) by (intros e He; apply Hle; right; exact He).
    replace (Z.to_nat (L - p0)) with (Z.to_nat (p1 - p0) + Z.to_nat (L - p1))%nat by lia.
    rewrite arange_from_app, map_app. f_equal.
    + rewrite (map_const _ (acc + d0)); [rewrite arange_from_length; reflexivity|].
      intros x Hx. apply In_arange_from in Hx. rewrite wsum_cons. cbn [fst snd].
      destruct (Z.leb_spec p0 x); [|lia].
      rewrite wsum_before; [lia|]. intros e He. specialize (Hhead e He). cbn [fst] in Hhead.
      destruct He as [He|He]; [subst e; cbn [fst]; lia|].
      pose proof (pos_sorted_head_le _ _ Hs e He) as H2. cbn [fst] in H2. lia.
    + replace (p0 + Z.of_nat (Z.to_nat (p1 - p0))) with p1 by lia.
      apply map_ext_in. intros x Hx. apply In_arange_from in Hx.
      rewrite (wsum_cons (p0, d0)). cbn [fst snd]. destruct (Z.leb_spec p0 x); lia.
Qed.

(* the value changes of one interval's row sum to its indicator *)
Lemma wsum_row L i x : 0 <= fst i -> fst i <= snd i -> 0 <= x < L ->
  wsum (row_events L i) x = b2z (covers x i).
Proof.
  intros H0 H1 Hx. destruct i as [s e]. unfold row_events, covers. cbn [fst snd] in *.
  rewrite !wsum_app.
  assert (A1 : wsum (if 0 <? s then [(0, 0)] else []) x = 0) by (destruct (0 <? s); unfold wsum; simpl; [destruct (0 <=? x); reflexivity|reflexivity]).
  rewrite A1. unfold wsum at 1. cbn [map sumZ fold_right fst snd].
  destruct (Z.ltb_spec e L); unfold wsum; cbn [map sumZ fold_right fst snd];
  destruct (Z.leb_spec s x); destruct (Z.leb_spec e x); destruct (Z.ltb_spec x e); simpl; lia.
Qed.
Lemma wsum_rows L I x : (forall i, In i I -> 0 <= fst i /\ fst i <= snd i) -> 0 <= x < L ->
  wsum (concat (map (row_events L) I)) x = cov I x.
Proof.
  intros H Hx. induction I as [|i I IH]; [reflexivity|].
  cbn [map concat]. rewrite wsum_app, cov_cons. rewrite IH by (intros j Hj; apply H; right; exact Hj).
  rewrite wsum_row; try lia; apply H; left; reflexivity.
Qed.

Lemma sorted_head_min {T} (leb : T -> T -> bool) (f : T -> Z) :
  (forall a b, leb a b = true <-> f a <= f b) ->
  forall l a, sortedb leb (a :: l) = true -> forall e, In e l -> f a <= f e.
Proof.
  intros Hl. induction l as [|b l IH]; intros a H e He; [destruct He|].
  apply sortedb_cons in H. destruct H as [H1 H2]. apply Hl in H1.
  destruct He as [He|He]; [subst; exact H1|]. specialize (IH b H2 e He). lia.
Qed.

(* T1: the pileup is the per-base coverage *)
Lemma pileup_is_coverage I L : 0 <= L -> (forall i, In i I -> 0 <= fst i /\ fst i <= snd i /\ snd i <= L) ->
  pileup_model I L = pileup_spec I L.
Proof.
  intros HL Hwf. unfold pileup_spec. destruct I as [|i0 I0] eqn:EI.
  - cbn [pileup_model]. symmetry. unfold bases, arange. rewrite (map_const _ 0) by (intros; reflexivity).
    rewrite arange_from_length. reflexivity.
  - rewrite <- EI in *. assert (HI : I <> []) by (rewrite EI; discriminate).
    assert (Hpm : pileup_model I L = expand (dedupe (cum_from 0 (isort pos_leb (concat (map (row_events L) I))))) L) by (rewrite EI; reflexivity).
    rewrite Hpm. set (ev := concat (map (row_events L) I)). rewrite expand_dedupe.
    pose proof (isort_perm pos_leb ev) as Hperm.
    pose proof (isort_sorted pos_leb pos_leb_total ev) as Hsorted.
    (* all event positions lie in [0, L], and some event sits at 0 *)
    assert (Hpos : forall e, In e ev -> 0 <= fst e <= L).
    { intros e He. unfold ev in He. apply in_concat in He. destruct He as [r [Hr He]].
      apply in_map_iff in Hr. destruct Hr as [i [Hi Hin]]. subst r. specialize (Hwf i Hin).
      unfold row_events in He. rewrite !in_app_iff in He. destruct He as [He|[He|He]].
      - destruct (0 <? fst i); [destruct He as [He|[]]; subst; simpl; lia|destruct He].
      - destruct He as [He|[]]. subst. simpl. lia.
      - destruct (snd i <? L); [destruct He as [He|[]]; subst; simpl; lia|destruct He]. }
    assert (Hzero : exists e, In e ev /\ fst e = 0).
    { assert (Hi0 : In i0 I) by (rewrite EI; left; reflexivity).
      specialize (Hwf i0 Hi0). destruct (Z.ltb_spec 0 (fst i0)) as [Hlt|Hge].
      - exists (0, 0). split; [|reflexivity]. unfold ev. apply in_concat. exists (row_events L i0). split; [apply in_map; exact Hi0|].
        unfold row_events. apply in_app_iff. left. destruct (Z.ltb_spec 0 (fst i0)); [left; reflexivity|lia].
      - exists (fst i0, 1). split; [|simpl; lia]. unfold ev. apply in_concat. exists (row_events L i0). split; [apply in_map; exact Hi0|].
        unfold row_events. apply in_app_iff. right. left. reflexivity. }
    destruct (isort pos_leb ev) as [|[p0 d0] E'] eqn:Es.
    { destruct Hzero as [e [He _]]. apply (Permutation_in _ (Permutation_sym Hperm)) in He. destruct He. }
    assert (Hp0 : p0 = 0).
    { destruct Hzero as [e [He Hz]]. apply (Permutation_in _ (Permutation_sym Hperm)) in He.
      assert (0 <= p0) by (apply (Hpos (p0, d0)); apply (Permutation_in _ Hperm); left; reflexivity).
      destruct He as [He|He]; [subst e; simpl in Hz; lia|].
      pose proof (pos_sorted_head_le _ _ Hsorted e He) as H1. simpl in H1. lia. }
    subst p0. rewrite (expand_cum L E' 0 d0 0 Hsorted).
    + rewrite Z.sub_0_r. unfold bases, arange. apply map_ext_in. intros x Hx. apply In_arange_from in Hx.
      rewrite Z.add_0_l. rewrite (wsum_perm _ _ x Hperm). unfold ev. apply wsum_rows; [|lia].
      intros i Hi. specialize (Hwf i Hi). lia.
    + intros e He. apply (Permutation_in _ Hperm) in He. apply Hpos. exact He.
Qed.

Lemma sorted_pos_fst_aux (l : list iv) : sortedb pos_leb l = sortedb Z.leb (map fst l).
Proof.
  induction l as [|a l IH]; [reflexivity|]. destruct l as [|b l]; [reflexivity|].
  cbn [map sortedb] in *. rewrite IH. reflexivity.
Qed.

(* Proofs/C01_fuel.v — the fuel of the reader model never runs out: the loops of read_chunk / read_chunks
   terminate within the fuel the model gives them, so the theorems about Done / FormatError results are not
   vacuous.  No side condition on the chunk size or the format turns out to be needed. *)
From Coq Require Import ZArith List Bool Arith Lia.
From BNP Require Import Base.Prims Base.PrimsFacts Model.C01 Proofs.C01 Proofs.C01_delim Proofs.C01_lines Proofs.C01_mfasta.
Import ListNotations.

(* the natural side condition on the format (a record has at least one line); the theorems below hold without it *)
Definition fmt_ok (f : fmt) : Prop :=
  match f with OneLine n _ _ => (1 <= n)%nat | _ => True end.

(* ---------- inner loop: accumulate ---------- *)
(* every iteration either stops, or reads a non-empty raw chunk (the unread part of the file shrinks), or -- on an
   empty read -- recurses exactly once with reached_end = true, after which an empty read returns *)
Lemma accumulate_fuel (fixed : bool) (f : fmt) (k : nat) (file : list Z) (l0 : nat) :
  forall fuel pos temp (re : bool) app,
  (length (skipn pos file) + (if re then 1 else 2) <= fuel)%nat ->
  accumulate fixed fuel f k file l0 pos temp re app <> AOutOfFuel.
Proof.
  induction fuel as [|fuel IH]; intros pos temp re app H; [destruct re; lia|].
  cbn [accumulate]. unfold m_is_finished, m_reported.
  destruct (firstn k (skipn pos file)) as [|x r] eqn:Eraw.
  - destruct (negb fixed || re || match temp with [] => true | _ => false end) eqn:Ec; [discriminate|].
    destruct re; [rewrite orb_true_r in Ec; discriminate Ec|].
    destruct (complete f [add_term f (concat temp)]); try discriminate.
    apply IH. cbn [length]. rewrite Nat.add_0_r. lia.
  - assert (Hlen : (length (x :: r) <= length (skipn pos file))%nat) by (rewrite <- Eraw, firstn_length; lia).
    assert (H1 : (1 <= length (x :: r))%nat) by (cbn [length]; lia).
    destruct (complete f _); try discriminate.
    apply IH. rewrite skipn_add, skipn_length. lia.
Qed.

Theorem read_chunk_never_out_of_fuel : forall fixed f m k file st,
  read_chunk fixed f m k file st <> ROutOfFuel.
Proof.
  intros fixed f m k file st. unfold read_chunk.
  pose proof (accumulate_fuel fixed f k file (r_lines st) (length file + 2) (r_pos st)
                (match r_prepend st with [] => [] | p => [p] end) false []) as H.
  destruct (accumulate fixed (length file + 2) f k file (r_lines st) (r_pos st) _ false []) as [t p fn a| | |].
  - destruct (cut f (concat t)); try discriminate.
    destruct (fixed && fn && negb (leftover_ok f _)); discriminate.
  - destruct (fixed && negb (leftover_ok f _)); discriminate.
  - discriminate.
  - exfalso. apply H; [|reflexivity]. rewrite skipn_length. lia.
Qed.

(* once a read returns nothing, the loop cannot complete "before the end of the file" any more *)
Lemma accumulate_at_end (fixed : bool) (f : fmt) (k : nat) (file : list Z) (l0 : nat) :
  forall fuel pos temp re app temp' pos' app',
  firstn k (skipn pos file) = [] ->
  accumulate fixed fuel f k file l0 pos temp re app <> AComplete temp' pos' false app'.
Proof.
  induction fuel as [|fuel IH]; intros pos temp re app temp' pos' app' HQ; [discriminate|].
  cbn [accumulate]. unfold m_is_finished, m_reported. rewrite HQ. cbn [length]. rewrite Nat.add_0_r.
  destruct (negb fixed || re || match temp with [] => true | _ => false end); [discriminate|].
  destruct (complete f [add_term f (concat temp)]); try discriminate.
  apply IH. exact HQ.
Qed.

(* a call that completes before the end of the file has read at least one byte, stays inside the file, and its
   chunk is the carried-over text plus exactly the bytes read *)
Lemma accumulate_progress (fixed : bool) (f : fmt) (k : nat) (file : list Z) (l0 : nat) :
  forall fuel pos temp re app temp' pos' app',
  accumulate fixed fuel f k file l0 pos temp re app = AComplete temp' pos' false app' ->
  (pos < pos' <= length file)%nat /\ length (concat temp') = (length (concat temp) + (pos' - pos))%nat.
Proof.
  induction fuel as [|fuel IH]; intros pos temp re app temp' pos' app' H; [discriminate|].
  destruct (firstn k (skipn pos file)) as [|x r] eqn:Eraw.
  { exfalso. revert H. apply accumulate_at_end. exact Eraw. }
  cbn [accumulate] in H. unfold m_is_finished, m_reported in H. rewrite Eraw in H.
  assert (Hlen : (length (x :: r) <= length file - pos)%nat).
  { rewrite <- (skipn_length pos file). rewrite <- Eraw, firstn_length. lia. }
  destruct (length (x :: r) <? k)%nat eqn:Efin.
  - (* short read: the file is exhausted *)
    exfalso. destruct (complete f _); try discriminate.
    revert H. apply accumulate_at_end. rewrite skipn_add.
    apply Nat.ltb_lt in Efin. rewrite <- Eraw in Efin |- *.
    rewrite (short_read_exhausts k _ Efin). apply firstn_nil.
  - destruct (complete f _).
    + injection H as <- <- _. rewrite concat_snoc, app_length. cbn [length] in *. lia.
    + apply IH in H. destruct H as [Hp Hc]. rewrite Hc, concat_snoc, app_length. cbn [length] in *. lia.
    + discriminate.
Qed.

(* ---------- every successful cut delivers at least one byte ---------- *)
Lemma ends_nl_firstn_pos size (chunk : list Z) : ends_nl (firstn size chunk) = true -> (1 <= size)%nat.
Proof. destruct size; [discriminate|lia]. Qed.

Lemma cut_size_pos_ok f chunk size nl : fmt_ok f -> cut f chunk = CutOk size nl -> (1 <= size)%nat.
Proof.
  intros Hf H. destruct f as [sep|n hdr plus|].
  - apply (ends_nl_firstn_pos size chunk). apply (cut_delim_ok sep chunk size nl H).
  - apply (ends_nl_firstn_pos size chunk). apply (ol_cutG n hdr plus Hf chunk size nl H).
  - apply (cut_mf_ok chunk size nl H).
Qed.

(* also for the degenerate OneLine 0: its cut keeps no line break and reports size 1 *)
Lemma cut_size_pos f chunk size nl : cut f chunk = CutOk size nl -> (1 <= size)%nat.
Proof.
  destruct f as [sep|n hdr plus|]; try (apply cut_size_pos_ok; exact I).
  destruct n as [|n]; [|apply cut_size_pos_ok; cbn; lia].
  intros H. unfold cut in H. unfold m_oneline_incomplete, m_oneline_kept, m_size_after in H.
  cbn [Nat.ltb Nat.leb Nat.modulo] in H. rewrite Nat.sub_diag in H. cbn [firstn last] in H.
  cbv zeta in H.
  repeat match type of H with
         | (if ?c then _ else _) = _ => destruct c
         | match ?c with _ => _ end = _ => destruct c
         end; try discriminate; injection H as <- _; cbn; lia.
Qed.

(* ---------- outer loop: read_chunks ---------- *)
(* bytes not yet delivered: the unread part of the file plus the carried-over tail *)
Definition mu (file : list Z) (st : rstate) : nat := (length file - r_pos st + length (r_prepend st))%nat.

(* a read_chunk call that delivers a chunk without finishing strictly decreases the measure *)
Lemma read_chunk_decreases fixed f m k file st b d a st' :
  (m = Seek -> r_prepend st = []) ->
  read_chunk fixed f m k file st = RChunk b d a st' -> r_finished st' = false ->
  (mu file st' < mu file st)%nat /\ (m = Seek -> r_prepend st' = []) /\ (r_pos st' <= length file)%nat.
Proof.
  intros Hseek H Hnf. unfold read_chunk in H. unfold m_lines_after, m_reported in H.
  set (temp0 := match r_prepend st with [] => [] | p => [p] end) in *.
  assert (Ht0 : length (concat temp0) = length (r_prepend st)).
  { unfold temp0. destruct (r_prepend st); [reflexivity|]. cbn [concat]. rewrite app_nil_r. reflexivity. }
  destruct (accumulate fixed (length file + 2) f k file (r_lines st) (r_pos st) temp0 false [])
    as [temp pos' fin app|pend app| |] eqn:Eacc; try discriminate;
    [|destruct (fixed && negb (leftover_ok f pend)); discriminate].
  destruct (cut f (concat temp)) as [size nl| | |] eqn:Ecut; try discriminate.
  destruct (fixed && fin && negb (leftover_ok f (skipn size (concat temp)))); [discriminate|].
  injection H as _ _ _ <-.
  destruct fin; [discriminate Hnf|].
  destruct (accumulate_progress _ _ _ _ _ _ _ _ _ _ _ _ _ Eacc) as [Hprog Hlen].
  pose proof (cut_size_pos f _ size nl Ecut) as Hsize.
  rewrite Ht0 in Hlen.
  destruct m; unfold mu; cbn [r_pos r_prepend length]; rewrite ?skipn_length.
  - rewrite (Hseek eq_refl) in *. cbn [length] in *. split; [lia|]. split; [reflexivity|lia].
  - split; [lia|]. split; [discriminate|lia].
Qed.

Lemma read_chunks_loop_fuel fixed f m k file :
  forall fuel st acc, (mu file st + 1 <= fuel)%nat -> (m = Seek -> r_prepend st = []) ->
    read_chunks_loop fixed fuel f m k file st acc <> OutOfFuel.
Proof.
  induction fuel as [|fuel IH]; intros st acc Hfuel Hseek; [lia|].
  cbn [read_chunks_loop]. destruct (r_finished st); [discriminate|].
  pose proof (read_chunk_never_out_of_fuel fixed f m k file st) as Hin.
  destruct (read_chunk fixed f m k file st) as [b d a st'|d a st'|l| |] eqn:Erc; try discriminate.
  - destruct (r_finished st') eqn:Ef; [discriminate|].
    destruct (read_chunk_decreases fixed f m k file st b d a st' Hseek Erc Ef) as (Hmu & Hseek' & _).
    apply IH; [lia|exact Hseek'].
  - congruence.
Qed.

(* the strongest form: no condition on chunk size, format or mode *)
Theorem read_chunks_terminates : forall fixed f m k file, read_chunks fixed f m k file <> OutOfFuel.
Proof.
  intros fixed f m k file. unfold read_chunks.
  apply (read_chunks_loop_fuel fixed f m k file); [|reflexivity].
  unfold mu, rinit. cbn [r_pos r_prepend length]. lia.
Qed.

Theorem read_chunks_never_out_of_fuel : forall fixed f m k file,
  (1 <= k)%nat -> fmt_ok f -> read_chunks fixed f m k file <> OutOfFuel.
Proof. intros fixed f m k file _ _. apply read_chunks_terminates. Qed.

(* hence every run is one of the three completed outcomes *)
Corollary read_chunks_completes : forall fixed f m k file,
  (exists chunks dropped app lines, read_chunks fixed f m k file = Done chunks dropped app lines)
  \/ (exists line chunks, read_chunks fixed f m k file = FormatError line chunks)
  \/ (exists chunks, read_chunks fixed f m k file = OtherError chunks).
Proof.
  intros fixed f m k file. pose proof (read_chunks_terminates fixed f m k file) as H.
  destruct (read_chunks fixed f m k file) as [c d a l|l c|c|].
  - left. exists c, d, a, l. reflexivity.
  - right. left. exists l, c. reflexivity.
  - right. right. exists c. reflexivity.
  - congruence.
Qed.

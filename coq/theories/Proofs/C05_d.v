(* Proofs/C05_d.v — round 6, part 2: the extended program language (xop = the ten operations + sort_by).
   sort_by on a lazily read table = cache-filling field access, stable argsort of the key, integer-list indexing of all three
   stores; it refines the Spec's "rows permuted by the stable argsort of the column". *)
From Coq Require Import ZArith List Bool Arith Lia Permutation.
From BNP Require Import Base.Prims Model.C05 Proofs.C05 Proofs.C05_b Proofs.C05_c.
Import ListNotations.
Open Scope nat_scope.

(* ================================================================ argsort returns positions of the column *)
Lemma ins_key_in p l x : In x (ins_key p l) -> x = p \/ In x l.
Proof.
  induction l as [|q r IH]; simpl; intros H.
  - destruct H as [<-|[]]. left. reflexivity.
  - destruct (value_leb (fst p) (fst q)).
    + destruct H as [<-|H]; [left; reflexivity|right; exact H].
    + destruct H as [<-|H]; [right; left; reflexivity|]. destruct (IH H) as [->|H']; [left; reflexivity|right; right; exact H'].
Qed.
Lemma isort_in l x : In x (fold_right ins_key [] l) -> In x l.
Proof.
  induction l as [|p l IH]; simpl; intros H; [exact H|].
  destruct (ins_key_in _ _ _ H) as [->|H']; [left; reflexivity|right; apply IH; exact H'].
Qed.
Lemma ins_key_length p l : length (ins_key p l) = S (length l).
Proof. induction l as [|q r IH]; simpl; [reflexivity|]. destruct (value_leb (fst p) (fst q)); simpl; [reflexivity|]. rewrite IH. reflexivity. Qed.
Lemma isort_length l : length (fold_right ins_key [] l) = length l.
Proof. induction l as [|p l IH]; simpl; [reflexivity|]. rewrite ins_key_length, IH. reflexivity. Qed.

Lemma argsort_bound col : Forall (fun j => j < length col) (argsort col).
Proof.
  unfold argsort. apply Forall_forall. intros j Hj. apply in_map_iff in Hj. destruct Hj as [[v i] [<- Hin]].
  apply isort_in in Hin. apply in_combine_r in Hin. apply in_seq in Hin. simpl. lia.
Qed.
Lemma argsort_length col : length (argsort col) = length col.
Proof. unfold argsort. rewrite map_length, isort_length, combine_length, seq_length. lia. Qed.

(* argsort is a permutation of the row positions: sort_by neither drops nor repeats a row *)
Lemma ins_key_perm p l : Permutation (ins_key p l) (p :: l).
Proof.
  induction l as [|q r IH]; simpl; [apply Permutation_refl|].
  destruct (value_leb (fst p) (fst q)); [apply Permutation_refl|].
  eapply Permutation_trans; [apply perm_skip; exact IH|]. apply perm_swap.
Qed.
Lemma isort_perm l : Permutation (fold_right ins_key [] l) l.
Proof.
  induction l as [|p l IH]; simpl; [apply Permutation_refl|].
  eapply Permutation_trans; [apply ins_key_perm|]. apply perm_skip. exact IH.
Qed.
Lemma map_snd_combine_seq {A} (col : list A) : forall s, map snd (combine col (seq s (length col))) = seq s (length col).
Proof. induction col as [|x col IH]; intros s; simpl; [reflexivity|]. rewrite IH. reflexivity. Qed.
Lemma argsort_perm col : Permutation (argsort col) (seq 0 (length col)).
Proof.
  unfold argsort. rewrite <- (map_snd_combine_seq col 0) at 2. apply Permutation_map. apply isort_perm.
Qed.

(* the result is ordered by key, ties by position (stability), for every column — what "stable argsort" means *)
Definition key_le (p q : value * nat) : Prop := value_leb (fst p) (fst q) = true.
Fixpoint chain (l : list (value * nat)) : Prop :=
  match l with
  | [] => True
  | p :: r => match r with [] => True | q :: _ => key_le p q end /\ chain r
  end.
Lemma lex_leb_total a : forall b, lex_leb a b = false -> lex_leb b a = true.
Proof.
  induction a as [|x a IH]; intros [|y b]; simpl; try discriminate; try reflexivity.
  destruct (x <? y)%Z eqn:E1; [discriminate|]. destruct (y <? x)%Z eqn:E2; [reflexivity|]. apply IH.
Qed.
Lemma value_leb_total a b : value_leb a b = false -> value_leb b a = true.
Proof.
  destruct a as [x|x], b as [y|y]; simpl; try discriminate; try reflexivity.
  - intros H. apply Z.leb_gt in H. apply Z.leb_le. lia.
  - apply lex_leb_total.
Qed.
Lemma ins_key_chain p l : chain l -> chain (ins_key p l).
Proof.
  induction l as [|q r IH]; simpl; intros H; [auto|].
  destruct (value_leb (fst p) (fst q)) eqn:E.
  - simpl. split; [exact E|exact H].
  - destruct H as [Hq Hr]. specialize (IH Hr). cbn [chain]. split; [|exact IH].
    destruct r as [|q' r']; simpl.
    + apply value_leb_total. exact E.
    + destruct (value_leb (fst p) (fst q')); [apply value_leb_total; exact E|exact Hq].
Qed.
Lemma isort_chain l : chain (fold_right ins_key [] l).
Proof. induction l as [|p l IH]; simpl; [exact I|]. apply ins_key_chain. exact IH. Qed.

(* ================================================================ one step *)
Local Arguments abs : simpl never.
Local Arguments l_index : simpl never.
Local Arguments s_index : simpl never.

Lemma step_sortby F hdr regs r f :
  Forall (Inv F) regs -> m_xguard F regs (XSortBy r f) = true ->
  step_post F regs (m_xstep l_concat F hdr regs (XSortBy r f)) (s_xstep F hdr (map (abs F) regs) (XSortBy r f)).
Proof.
  intros HI HG. simpl in *. apply andb_true_iff in HG. destruct HG as [Hf HG]. apply Nat.ltb_lt in Hf.
  rewrite nth_error_map'. destruct (nth_error regs r) as [[l|t]|] eqn:E; simpl.
  - apply andb_true_iff in HG. destruct HG as [_ HG].
    assert (HIl : InvL F l) by (apply (nth_error_Forall (Inv F) regs r (TLazy l) HI E)).
    destruct (l_get F f l) as [[c l']|] eqn:EG; [|discriminate].
    destruct (l_get_ok F f l c l' HIl EG) as [-> [HI' [Hb Hs]]].
    assert (Hcol : s_get f (abs F (TLazy l)) = a_col F l f).
    { unfold abs, s_get. apply rows_of_cols_get; [exact Hf|apply a_col_length; exact HIl]. }
    rewrite Hcol.
    assert (HB : Forall (fun j => j < length (l_buf l')) (argsort (a_col F l f))).
    { rewrite Hb, <- (a_col_length F l f HIl). apply argsort_bound. }
    destruct (l_index_ok F (argsort (a_col F l f)) l' HB HI') as [HI'' Habs].
    rewrite (abs_same F l l' Hb Hs) in Habs.
    unfold step_post. simpl. split; [apply set_nth_Forall; auto|].
    split; [unfold set_reg; rewrite <- set_nth_map; rewrite Habs; reflexivity|].
    split; [reflexivity|]. intros HC. split; [reflexivity|].
    apply set_nth_Forall; [exact HC|]. simpl. unfold canonL. unfold l_index. simpl.
    apply takeN_in; [exact HB|]. rewrite Hb. apply (nth_error_Forall (Canon F) regs r (TLazy l) HC E).
  - unfold step_post. simpl. split; [apply set_nth_Forall; simpl; auto|].
    split; [unfold set_reg; rewrite <- set_nth_map; reflexivity|].
    split; [reflexivity|]. intros HC. split; [reflexivity|]. apply set_nth_Forall; simpl; auto.
  - apply post_same. exact HI.
Qed.

Lemma xstep_ok F hdr regs o :
  Forall (Inv F) regs -> m_xguard F regs o = true ->
  step_post F regs (m_xstep l_concat F hdr regs o) (s_xstep F hdr (map (abs F) regs) o).
Proof.
  intros HI HG. destruct o as [o|r f].
  - apply step6_ok; assumption.
  - apply step_sortby; assumption.
Qed.

Theorem refines_x F hdr prog : forall regs,
  Forall (Inv F) regs ->
  m_xguard_run l_concat F hdr regs prog = true ->
  map erase (m_xrun l_concat F hdr regs prog) = map erase (s_xrun F hdr (map (abs F) regs) prog)
  /\ (Forall (Canon F) regs -> m_xrun l_concat F hdr regs prog = s_xrun F hdr (map (abs F) regs) prog).
Proof.
  induction prog as [|o prog IH]; intros regs HI HG; simpl in *; [auto|].
  apply andb_true_iff in HG. destruct HG as [HG1 HG2].
  pose proof (xstep_ok F hdr regs o HI HG1) as HS. unfold step_post in HS.
  destruct (m_xstep l_concat F hdr regs o) as [regs' x].
  destruct (s_xstep F hdr (map (abs F) regs) o) as [sregs' x'].
  simpl in HS, HG2. destruct HS as [HI' [-> [He HC]]].
  destruct (IH regs' HI' HG2) as [IH1 IH2]. split.
  - simpl. rewrite He, IH1. reflexivity.
  - intros HCr. destruct (HC HCr) as [-> HC']. rewrite (IH2 HC'). reflexivity.
Qed.

(* ================================================================ the eager side *)
Lemma e_xstep_spec F hdr regs o :
  e_xguard F hdr regs o = true ->
  map fst (fst (e_xstep F hdr regs o)) = fst (s_xstep F hdr (map fst regs) o)
  /\ snd (e_xstep F hdr regs o) = snd (s_xstep F hdr (map fst regs) o).
Proof.
  intros HG. destruct o as [o|r f]; [apply e_step6_spec; exact HG|].
  simpl. rewrite nth_error_map'. unfold etable in *. destruct (nth_error regs r) as [[t c]|]; simpl; [|split; reflexivity].
  split; [|reflexivity]. unfold set_reg.
  rewrite <- (set_nth_map fst r (s_index (argsort (s_get f t)) t, false) regs). reflexivity.
Qed.

Theorem eagerx_is_spec F hdr prog : forall regs,
  e_xguard_run F hdr regs prog = true -> e_xrun F hdr regs prog = s_xrun F hdr (map fst regs) prog.
Proof.
  induction prog as [|o prog IH]; intros regs HG; simpl in *; [reflexivity|].
  apply andb_true_iff in HG. destruct HG as [HG1 HG2].
  destruct (e_xstep_spec F hdr regs o HG1) as [H1 H2].
  destruct (e_xstep F hdr regs o) as [regs' x]. destruct (s_xstep F hdr (map fst regs) o) as [sregs' x'].
  simpl in H1, H2, HG2. subst. rewrite (IH regs' HG2). reflexivity.
Qed.

Theorem lazy_is_eager_x F hdr recs prog ctx :
  Forall (fun r => length (r_fields r) = nfields F) recs ->
  m_xguard_run l_concat F hdr (start recs) prog = true ->
  e_xguard_run F hdr [(rows_of_file F recs, ctx); (rows_of_file F recs, ctx)] prog = true ->
  let lazy_obs := m_xrun l_concat F hdr (start recs) prog in
  let eager_obs := e_xrun F hdr [(rows_of_file F recs, ctx); (rows_of_file F recs, ctx)] prog in
  map erase lazy_obs = map erase eager_obs
  /\ (Forall (fun r => rec_canon F r = true) recs -> lazy_obs = eager_obs).
Proof.
  intros Hwf HG HE. cbv zeta. rewrite (eagerx_is_spec F hdr prog _ HE). cbn [map fst]. unfold start in *.
  assert (HI : Forall (Inv F) [TLazy (fresh recs); TLazy (fresh recs)]) by (constructor; [apply fresh_inv|constructor; [apply fresh_inv|constructor]]).
  destruct (refines_x F hdr prog _ HI HG) as [H1 H2].
  assert (Hm : map (abs F) [TLazy (fresh recs); TLazy (fresh recs)] = [rows_of_file F recs; rows_of_file F recs])
    by (cbn [map]; rewrite (abs_fresh F recs Hwf); reflexivity).
  rewrite Hm in H1, H2. split; [exact H1|].
  intros HC. apply H2. constructor; [exact HC|constructor; [exact HC|constructor]].
Qed.

(* a program of XB steps is the old language: the extended runs are conservative *)
Lemma m_xrun_base cc F hdr prog : forall regs, m_xrun cc F hdr regs (map XB prog) = m_run6 cc F hdr regs prog.
Proof. induction prog as [|o prog IH]; intros regs; simpl; [reflexivity|]. destruct (m_step6 cc F hdr regs o). rewrite IH. reflexivity. Qed.

(* ================================================================ non-vacuity *)
(* "c\t30\t4" "c\t9\t7" "b\t30\t1" "a\t9\t2": sort_by start (ties keep file order), then by the text column (bytewise), with a
   field read, a replaced column and a write in between; a header line; the read() table of register 1 written *)
Definition X_recs : list rawrec :=
  [ {| r_fields := [[99%Z]; [51%Z; 48%Z]; [52%Z]]; r_raw := [99; 9; 51; 48; 9; 52; 10]%Z |};
    {| r_fields := [[99%Z]; [57%Z]; [55%Z]]; r_raw := [99; 9; 57; 9; 55; 10]%Z |};
    {| r_fields := [[98%Z]; [51%Z; 48%Z]; [49%Z]]; r_raw := [98; 9; 51; 48; 9; 49; 10]%Z |};
    {| r_fields := [[97%Z]; [57%Z]; [50%Z]]; r_raw := [97; 9; 57; 9; 50; 10]%Z |} ].
Definition X_prog : list xop :=
  [XSortBy 0 1; XB (OGet 0 2); XB (ORep 0 2 [VI 5; VI 6; VI 7; VI 8]); XSortBy 0 0; XB (OGet 0 2); XB (OTolist 0); XB (OWrite 1); XSortBy 1 2; XB (OGet 1 2)].
Lemma x_nonvacuous :
  wf W_bed3 X_recs
  /\ m_xguard_run l_concat W_bed3 [35; 10]%Z (start X_recs) X_prog = true
  /\ e_xguard_run W_bed3 [35; 10]%Z [(rows_of_file W_bed3 X_recs, true); (rows_of_file W_bed3 X_recs, true)] X_prog = true
  /\ nth 1 (m_xrun l_concat W_bed3 [35; 10]%Z (start X_recs) X_prog) XErr = XCol [VI 7; VI 2; VI 4; VI 1]
  /\ nth 4 (m_xrun l_concat W_bed3 [35; 10]%Z (start X_recs) X_prog) XErr = XCol [VI 6; VI 8; VI 5; VI 7]
  /\ nth 8 (m_xrun l_concat W_bed3 [35; 10]%Z (start X_recs) X_prog) XErr = XCol [VI 1; VI 2; VI 4; VI 7].
Proof. split; [split; repeat constructor|]. vm_compute. repeat split; reflexivity. Qed.
